import Knut.FactsAgree.TransProcessAllBalance
import Knut.FactsAgree.TransPerformanceDay
/-!
# `knut portfolio returns`: `j.Build().Process(ComputePrices, check, Valuate, ComputeValues, ComputeFlows, Perf)` over a WHOLE journal

The processor list is the one of `cmd/commands/portfolio/returns.go` (`execute`), in this order — read off the source by hand and PINNED
by `FactsAgree/ProcOrderPortfolio` (`ProcOrder.returnsOrder_eq`, against the list extracted from the source on every run):

    journal.ComputePrices(valuation), check.Check(), journal.Valuate(reg, valuation),
    calculator.ComputeValues(), calculator.ComputeFlows(), performance.Perf(j, partition)

`processAllReturns` is its sequential meaning, `Pipeline.seqRun` of the system `returnsSys`: six stages, stage `k` = the translated
closures of the `k`-th processor folded over a day by `Processor.Process` (`TransProcess.processDay`), each on its own field of the record
`RetGo`; without `-v` the processors `ComputePrices(nil)` and `Valuate(reg, nil)` are nil and left out by `Journal.Process` (identity
stages).  That `cpr.Seq` (goroutines, channels: not translated) delivers `seqRun` on every successful schedule is `C19.C19_confluent`
(`processAllReturns_meaning`); taking `seqRun` as the meaning of `Journal.Process` is the stated modelling step of `TransProcessAll.lean`.

* `processAllReturns_eq`: the stage-major `seqRun` = the first five stages on every day in turn (`fused5`), then `Perf` over the days
  that leave `ComputeFlows`;
* **`valued_segment`**: one day through the translated `ComputePrices`, `check`, `Valuate` against the model's `Performance.valuedDay`, in
  BOTH directions (both succeed with related states and the day's transactions standing for the model's valued transactions, or both
  fail; never a panic, never out of fuel);
* **`returns_day_agrees`**: one day through the five stages against the model's `perfDay` (= `valuedDay`, `valuesDay`, `dayFlows`): the day
  that leaves `ComputeFlows` stands for the model's `DayPerf` (`TransPerformance.DayRel`);
* **`returns_seq_agrees`**, by induction over the days: the Go run of the five stages succeeds ⇒ the model's valued days `ms` exist
  (`ValuedOrd`) and the days that reach `Perf` stand one by one for `perfDaysV … ms` (= the model's `perfFrom`); it fails ⇒ the model's
  run fails (`ValuedFail`);
* **`Perf_stage_agrees`** / **`processAllReturns_agrees`**: `Perf` as the last stage prints the model's `perfLines` (when every factor inside
  the span is defined: `hdef`, the float64 division by zero of `GoSem/Float.lean`).

MAP ITERATION ORDER.  `Valuate.DayStart`, `ComputeValues.DayEnd` and `split` (in `ComputeFlows.Transaction`) range over Go maps.  The
orders are functions of the stage's state and the day that reaches the stage (`oV`, `oE`, `oS`), and the theorems hold for EVERY
admissible family (`RetParOK`).  As for `knut balance`, the model's result depends on the order in which `Valuate.DayStart` lists its
quantities: the model's run is the one in which `vQty` is re-listed before each day in the order Go iterates (`ValuedOrd`: a
lookup-equivalent list); WITHOUT `-v` nothing is ranged over by `Valuate` and `ValuedOrd` IS the model's `valuedDays`
(`valuedDays_of_ValuedOrd`), so that `Properties/C20Go3.lean` concludes about `Performance.returns` itself.
-/
namespace Knut.FactsAgree.TransProcessAllReturns
open Knut Knut.GoSem Knut.Pipeline
open Knut.Generated.Go
open Knut.FactsAgree.TransProcess Knut.FactsAgree.TransCheck
open Knut.FactsAgree.TransProcessAll
open Knut.FactsAgree.TransAccount (accountGo)
open Knut.FactsAgree.TransPrice (cGo)
open Knut.FactsAgree.TransPerformance (calcGo cvProc cfProc CVRel SplitOrders OrdersOK perfDaysV valuedDays lineGo ckeyGo bind_ok')

/-! ### the system -/

/-- the captured states of the six processors -/
structure RetGo where
  cp : journal.ComputePrices.State
  chk : check.Checker
  va : journal.Valuate.State
  cv : performance.Calculator.ComputeValues.State
  cf : performance.Calculator.ComputeFlows.State
  pf : performance.Perf.State

/-- what the processors are built from, and the parameters the translation makes explicit -/
structure RetPar where
  val : Option commodity.Commodity                       -- `valuation` (nil: no `ComputePrices`, no `Valuate`)
  ext1 : account.Account → account.Account               -- `reg.Accounts().ValuationAccountFor`
  cg : performance.Calculator                            -- `calculator`
  part : date.Partition                                  -- `partition`
  ord : check.Checker → close.Close → List amounts.Key   -- iteration order of `Checker.close`
  fuel : journal.ComputePrices.State → journal.Day → Nat -- fuel of `Prices.Normalize`
  oV : journal.Valuate.State → journal.Day → List amounts.Key                          -- iteration order of `Valuate.DayStart`
  oE : performance.Calculator.ComputeValues.State → journal.Day → List amounts.Key     -- iteration order of `ComputeValues.DayEnd`
  oS : performance.Calculator.ComputeFlows.State → journal.Day → List SplitOrders      -- the `split` loops, a pair per transaction

def sPrices (v : commodity.Commodity) (fuel : journal.ComputePrices.State → journal.Day → Nat) : Stage journal.ComputePrices.State :=
  stageOf (fun st d => processDay (computePricesProc v (fuel st d)) st d)
def sValuate (v : commodity.Commodity) (ext1 : account.Account → account.Account)
    (oV : journal.Valuate.State → journal.Day → List amounts.Key) : Stage journal.Valuate.State :=
  stageOf (fun st d => processDay (valuateProc v ext1 (oV st d)) st d)

def rPrices (P : RetPar) : Stage journal.ComputePrices.State :=
  match P.val with
  | none => idStage
  | some v => sPrices v P.fuel
def rCheck (P : RetPar) : Stage check.Checker := stageOf (processDay (checkProc P.ord))
def rValuate (P : RetPar) : Stage journal.Valuate.State :=
  match P.val with
  | none => idStage
  | some v => sValuate v P.ext1 P.oV
def rValues (P : RetPar) : Stage performance.Calculator.ComputeValues.State :=
  stageOf (fun st d => processDay (cvProc P.cg (P.oE st d)) st d)
/-- `ComputeFlows`: the pairs of `split` orders of the day are handed to `cfProc` and consumed, one per transaction -/
def rFlows (P : RetPar) : Stage performance.Calculator.ComputeFlows.State :=
  stageOf (fun st d => (processDay (cfProc P.cg) (st, P.oS st d) d).bind fun r => .ok (r.1.1, r.2))

/-- the processor `performance.Perf(j, partition)` returns: `DayEnd` only; it leaves the day as it is -/
def perfProc (partG : date.Partition) : Proc performance.Perf.State :=
  { DayEnd := some fun st d => (performance.Perf.DayEnd partG st d).bind fun r => .ok (r.1, d, r.2) }
def rPerf (P : RetPar) : Stage performance.Perf.State := stageOf (processDay (perfProc P.part))

/-- **the instantiation of `Pipeline.Sys`** for `Process(ComputePrices(v), check.Check(), Valuate(reg, v), calculator.ComputeValues(),
calculator.ComputeFlows(), performance.Perf(j, partition))` -/
def returnsSys (P : RetPar) (G0 : RetGo) (days : List journal.Day) : Sys RetGo journal.Day PErr :=
  { n := 6, init := fun _ => G0, items := days,
    f := fun k =>
      match k with
      | 1 => liftStage RetGo.cp (fun S s => { S with cp := s }) (rPrices P)
      | 2 => liftStage RetGo.chk (fun S s => { S with chk := s }) (rCheck P)
      | 3 => liftStage RetGo.va (fun S s => { S with va := s }) (rValuate P)
      | 4 => liftStage RetGo.cv (fun S s => { S with cv := s }) (rValues P)
      | 5 => liftStage RetGo.cf (fun S s => { S with cf := s }) (rFlows P)
      | 6 => liftStage RetGo.pf (fun S s => { S with pf := s }) (rPerf P)
      | _ => idStage }

/-- **the sequential meaning of `Journal.Process` for `knut portfolio returns`**: the days as they leave the last stage, `none` if a
stage failed -/
def processAllReturns (P : RetPar) (G0 : RetGo) (days : List journal.Day) : Option (List journal.Day) :=
  seqRun (returnsSys P G0 days)

/-- every successful schedule of the transition system of `cpr.Seq` delivers `processAllReturns` (`C19_confluent`) -/
theorem processAllReturns_meaning (P : RetPar) (G0 : RetGo) (days : List journal.Day)
    {s : St RetGo journal.Day PErr} (h : Reach (returnsSys P G0 days) s) (hd : s.done (returnsSys P G0 days)) :
    processAllReturns P G0 days = some s.out := seq_meaning h hd

abbrev RFused := (((journal.ComputePrices.State × check.Checker) × journal.Valuate.State) ×
  performance.Calculator.ComputeValues.State) × performance.Calculator.ComputeFlows.State

/-- the first three stages on one day -/
def fused3 (P : RetPar) := fuse (fuse (rPrices P) (rCheck P)) (rValuate P)
/-- the first five stages on one day -/
def fused5 (P : RetPar) : RFused → journal.Day → Except PErr (RFused × journal.Day) :=
  fuse (fuse (fused3 P) (rValues P)) (rFlows P)

def init5 (G0 : RetGo) : RFused := ((((G0.cp, G0.chk), G0.va), G0.cv), G0.cf)

/-- **stage-major = day-major**: the five stages before `Perf` on every day in turn, then `Perf` over the days that leave them -/
theorem processAllReturns_eq (P : RetPar) (G0 : RetGo) (days : List journal.Day) :
    processAllReturns P G0 days = (seqStage (fused5 P) (init5 G0) days).bind (seqStage (rPerf P) G0.pf) := by
  unfold processAllReturns seqRun returnsSys fused5 fused3 init5
  simp only [seqUpTo, Option.bind_some]
  rw [seqStage_lift' RetGo.cp _ (fun _ _ => rfl), seqStage_lift' RetGo.chk _ (fun _ _ => rfl),
    seqStage_lift' RetGo.va _ (fun _ _ => rfl), seqStage_lift' RetGo.cv _ (fun _ _ => rfl),
    seqStage_lift' RetGo.cf _ (fun _ _ => rfl), seqStage_lift' RetGo.pf _ (fun _ _ => rfl)]
  rw [seqStage_fuse, seqStage_fuse, seqStage_fuse, seqStage_fuse]

/-- three fused stages, spelled out -/
theorem fuse3_eq {σ1 σ2 σ3 α ε : Type} (f : σ1 → α → Except ε (σ1 × α)) (g : σ2 → α → Except ε (σ2 × α))
    (h : σ3 → α → Except ε (σ3 × α)) (s1 : σ1) (s2 : σ2) (s3 : σ3) (a : α) :
    fuse (fuse f g) h ((s1, s2), s3) a =
      match f s1 a with
      | .error e => .error e
      | .ok (s1', a1) =>
        match g s2 a1 with
        | .error e => .error e
        | .ok (s2', a2) =>
          match h s3 a2 with
          | .error e => .error e
          | .ok (s3', a3) => .ok (((s1', s2'), s3'), a3) := by
  unfold fuse
  simp only
  cases f s1 a with
  | error e => rfl
  | ok r1 =>
    obtain ⟨s1', a1⟩ := r1
    simp only
    cases g s2 a1 with
    | error e => rfl
    | ok r2 =>
      obtain ⟨s2', a2⟩ := r2
      simp only
      cases h s3 a2 with
      | error e => rfl
      | ok r3 => rfl

/-! ### the model's `valuedDay`, spelled out; the re-listed runs -/

theorem valuedDay_none {cfg : Performance.Cfg} (h : cfg.valuation = none) (st : BalState) (d : Knut.Day) :
    Performance.valuedDay cfg st d =
      match Check.day st.chk d with
      | .error e => .error (BalErr.check e)
      | .ok c => .ok ({ st with chk := c }, d.transactions) := by
  unfold Performance.valuedDay Balance.checkStage
  simp only [h, bind, Except.bind]
  cases Check.day st.chk d <;> rfl

theorem valuedDay_some {cfg : Performance.Cfg} {v : Knut.Commodity} (h : cfg.valuation = some v) (st : BalState) (d : Knut.Day) :
    Performance.valuedDay cfg st d =
      match Balance.pricesDay v st d with
      | .error e => .error e
      | .ok sp =>
        match Check.day sp.chk d with
        | .error e => .error (BalErr.check e)
        | .ok c => Balance.valuateDay v { sp with chk := c } d := by
  unfold Performance.valuedDay Balance.checkStage
  simp only [h, bind, Except.bind]
  cases Balance.pricesDay v st d with
  | error e => rfl
  | ok sp =>
    simp only
    cases Check.day sp.chk d with
    | error e => rfl
    | ok c => rfl

/-- the model's valued days when, before each day, `vQty` (the map `Valuate.DayStart` ranges over) is re-listed; without valuation the
list is left alone -/
inductive ValuedOrd (cfg : Performance.Cfg) : BalState → List Knut.Day → List (Int × List Knut.Transaction) → Prop
  | nil (st : BalState) : ValuedOrd cfg st [] []
  | cons {st st1 : BalState} {d : Knut.Day} {ds : List Knut.Day} {txs : List Knut.Transaction} {ms : List (Int × List Knut.Transaction)}
      (vq : Knut.AMap Position Rat) : Relist st.vQty vq → (cfg.valuation = none → vq = st.vQty) →
      Performance.valuedDay cfg { st with vQty := vq } d = .ok (st1, txs) → ValuedOrd cfg st1 ds ms →
      ValuedOrd cfg st (d :: ds) ((d.date, txs) :: ms)

/-- the re-listed run of the model fails (on its first day, or later) -/
inductive ValuedFail (cfg : Performance.Cfg) : BalState → List Knut.Day → Prop
  | here {st : BalState} {d : Knut.Day} {ds : List Knut.Day} {e : BalErr} (vq : Knut.AMap Position Rat) :
      Relist st.vQty vq → (cfg.valuation = none → vq = st.vQty) → Performance.valuedDay cfg { st with vQty := vq } d = .error e →
      ValuedFail cfg st (d :: ds)
  | later {st st1 : BalState} {d : Knut.Day} {ds : List Knut.Day} {txs : List Knut.Transaction} (vq : Knut.AMap Position Rat) :
      Relist st.vQty vq → (cfg.valuation = none → vq = st.vQty) → Performance.valuedDay cfg { st with vQty := vq } d = .ok (st1, txs) →
      ValuedFail cfg st1 ds → ValuedFail cfg st (d :: ds)

/-- the model's `valuedDays` is the run that re-lists nothing -/
theorem ValuedOrd_of_valuedDays (cfg : Performance.Cfg) : ∀ (days : List Knut.Day) (st : BalState) (ms : List (Int × List Knut.Transaction)),
    valuedDays cfg st days = some ms → ValuedOrd cfg st days ms := by
  intro days
  induction days with
  | nil => intro st ms h; simp only [valuedDays, Option.some.injEq] at h; subst h; exact .nil _
  | cons d rest ih =>
    intro st ms h
    simp only [valuedDays] at h
    cases hv : Performance.valuedDay cfg st d with
    | error e => simp [hv] at h
    | ok r =>
      obtain ⟨bal, txs⟩ := r
      simp only [hv, Option.map_eq_some_iff] at h
      obtain ⟨ms', hms', rfl⟩ := h
      exact .cons st.vQty (fun _ => rfl) (fun _ => rfl) hv (ih bal ms' hms')

/-- without valuation no map is ranged over by the first three stages: the re-listed run IS `valuedDays` -/
theorem valuedDays_of_ValuedOrd (cfg : Performance.Cfg) (hv : cfg.valuation = none) :
    ∀ (days : List Knut.Day) (st : BalState) (ms : List (Int × List Knut.Transaction)),
      ValuedOrd cfg st days ms → valuedDays cfg st days = some ms := by
  intro days st ms h
  induction h with
  | nil st => rfl
  | @cons st st1 d ds txs ms vq _ h1 hd _ ih =>
    rw [h1 hv] at hd
    have hd' : Performance.valuedDay cfg st d = .ok (st1, txs) := hd
    simp only [valuedDays, hd', ih, Option.map_some]

theorem valuedDays_none_of_ValuedFail (cfg : Performance.Cfg) (hv : cfg.valuation = none) :
    ∀ (days : List Knut.Day) (st : BalState), ValuedFail cfg st days → valuedDays cfg st days = none := by
  intro days st h
  induction h with
  | @here st d ds e vq _ h1 hd =>
    rw [h1 hv] at hd
    have hd' : Performance.valuedDay cfg st d = .error e := hd
    simp only [valuedDays, hd']
  | @later st st1 d ds txs vq _ h1 hd _ ih =>
    rw [h1 hv] at hd
    have hd' : Performance.valuedDay cfg st d = .ok (st1, txs) := hd
    simp only [valuedDays, hd', ih, Option.map_none]

/-! ### the relation between the Go states and the model state -/

/-- what relates the parameters of the Go processors to the model's configuration; `oE`/`oS`: the iteration orders are admissible on
every state and day that stand for a model state and the model's valued transactions (`oE`: exactly the keys of the map of values
after the day's postings, each once; `oS`: `TransPerformance.OrdersOK` for every transaction — satisfiable when no `@performance` target is
tagged as a currency, e.g. `cur = fun _ => false`: `TagCurrency` has no caller) -/
structure RetParOK (cur : String → Bool) (cfg : Performance.Cfg) (P : RetPar) : Prop where
  val : P.val = cfg.valuation.map (cGo cur)
  ext1 : ∀ a : Knut.Account, P.ext1 (accountGo a) = accountGo (valuationAccountFor a)
  cg : P.cg = calcGo cur cfg
  ord : OrdOK P.ord
  fuel : ∀ v, cfg.valuation = some v → FuelOK cur v P.fuel
  oV : ∀ g dg k, (Knut.AMap.find? g.quantities k).isSome → k ∈ P.oV g dg
  oE : ∀ g dg vals prev txs, CVRel cur g vals prev → AllRel (TRel cur) dg.Transactions txs →
    (P.oE g dg).Nodup ∧
    (∀ k ∈ P.oE g dg, ∃ c, k = ckeyGo cur c ∧ (AMap.find? (Performance.valuesDay cfg vals txs) c).isSome) ∧
    (∀ c, (AMap.find? (Performance.valuesDay cfg vals txs) c).isSome → ckeyGo cur c ∈ P.oE g dg)
  oS : ∀ st dg txs, AllRel (TRel cur) dg.Transactions txs → AllRel (OrdersOK cur cfg) (P.oS st dg) txs

/-- the captured states of the first five processors stand for the model's `PState` -/
structure RetInv (cur : String → Bool) (cfg : Performance.Cfg) (G : RFused) (ps : Performance.PState) : Prop where
  cp : cfg.valuation.isSome → CPEquiv cur G.1.1.1.1 ps.bal.graph ps.bal.norm
  chk : StEquiv cur G.1.1.1.2 ps.bal.chk
  va : cfg.valuation.isSome → ∃ old, VEquiv cur G.1.1.2 ps.bal.vPrev old ps.bal.vQty
  cv : CVRel cur G.1.2 ps.values ps.prev

/-- the day of a result of `Processor.Process` -/
def dayAfter {σ : Type} (r : GoSem.Outcome (σ × journal.Day × Option Error)) (dflt : journal.Day) : journal.Day :=
  match r with
  | .ok (_, d', _) => d'
  | _ => dflt

/-- **one day through the translated `ComputePrices`, `check`, `Valuate`** (the first and the last nil without `-v`) against the
model's `valuedDay` (its `vQty` re-listed in the order `Valuate.DayStart` iterates): both succeed — the captured states related again,
the day's transactions standing for the model's valued transactions, date and `Performance` untouched — or both fail; the translated
stages never panic and never run out of fuel -/
theorem valued_segment (cur : String → Bool) (cfg : Performance.Cfg) (P : RetPar) (hP : RetParOK cur cfg P)
    (g1 : journal.ComputePrices.State) (g2 : check.Checker) (g3 : journal.Valuate.State) (st : BalState)
    (hcp : cfg.valuation.isSome → CPEquiv cur g1 st.graph st.norm) (hchk : StEquiv cur g2 st.chk)
    (hva : cfg.valuation.isSome → ∃ old, VEquiv cur g3 st.vPrev old st.vQty)
    (dg : journal.Day) (d : Knut.Day) (hd : DayRel cur dg d) :
    ∃ vq, Relist st.vQty vq ∧ (cfg.valuation = none → vq = st.vQty) ∧
      match fused3 P ((g1, g2), g3) dg, Performance.valuedDay cfg { st with vQty := vq } d with
      | .ok (G', dg'), .ok (st', txs) =>
        (cfg.valuation.isSome → CPEquiv cur G'.1.1 st'.graph st'.norm) ∧ StEquiv cur G'.1.2 st'.chk ∧
        (cfg.valuation.isSome → ∃ old, VEquiv cur G'.2 st'.vPrev old st'.vQty) ∧
        dg'.Date = dg.Date ∧ dg'.Performance = dg.Performance ∧ AllRel (TRel cur) dg'.Transactions txs
      | .error _, .error _ => True
      | _, _ => False := by
  cases hv : cfg.valuation with
  | none =>
    have hval : P.val = none := by rw [hP.val, hv]; rfl
    have e1 : rPrices P = idStage := by unfold rPrices; rw [hval]
    have e3 : rValuate P = idStage := by unfold rValuate; rw [hval]
    refine ⟨st.vQty, fun _ => rfl, fun _ => rfl, ?_⟩
    have hst : ({ st with vQty := st.vQty } : BalState) = st := rfl
    rw [hst, valuedDay_none hv]
    unfold fused3
    rw [fuse3_eq, e1, e3]
    simp only [idStage]
    have C := Check_day_agrees cur hP.ord hchk dg d hd
    unfold rCheck stageOf
    revert C
    cases hr : processDay (checkProc P.ord) g2 dg with
    | panic m => cases Check.day st.chk d <;> simp [SimStep]
    | outOfFuel => cases Check.day st.chk d <;> simp [SimStep]
    | ok r =>
      obtain ⟨g2', x, e⟩ := r
      cases e with
      | some e => cases Check.day st.chk d <;> simp [SimStep]
      | none =>
        cases hck : Check.day st.chk d with
        | error e => simp [SimStep]
        | ok c =>
          simp only [SimStep]
          intro C
          obtain ⟨hchk1, hx⟩ := C
          subst hx
          exact ⟨fun h => by simp at h, hchk1, fun h => by simp at h, rfl, rfl, hd.transactions⟩
  | some v =>
    have hval : P.val = some (cGo cur v) := by rw [hP.val, hv]; rfl
    have e1 : rPrices P = sPrices (cGo cur v) P.fuel := by unfold rPrices; rw [hval]
    have e3 : rValuate P = sValuate (cGo cur v) P.ext1 P.oV := by unfold rValuate; rw [hval]
    have hsome : cfg.valuation.isSome = true := by rw [hv]; rfl
    have hcp0 := hcp hsome
    obtain ⟨old, hva0⟩ := hva hsome
    refine ⟨qtyIn g3.quantities (P.oV g3 (dayAfter (processDay (computePricesProc (cGo cur v) (P.fuel g1 dg)) g1 dg) dg)),
      relist_of_QEquiv hva0.qty _ (hP.oV g3 _), (fun h => by cases h), ?_⟩
    rw [valuedDay_some hv]
    unfold fused3
    rw [fuse3_eq, e1, e3]
    -- stage 1: prices
    have A := ComputePrices_day_agrees cur v (P.fuel g1 dg)
      { st with vQty := qtyIn g3.quantities (P.oV g3 (dayAfter (processDay (computePricesProc (cGo cur v) (P.fuel g1 dg)) g1 dg) dg)) }
      hcp0 dg d hd.prices (fun graph' hg => hP.fuel v hv g1 dg _ _ d hcp0 hd.prices graph' hg)
    unfold sPrices stageOf
    dsimp only
    cases hr2 : processDay (computePricesProc (cGo cur v) (P.fuel g1 dg)) g1 dg with
    | panic m => rw [hr2] at A; revert A; simp only [dayAfter]; cases Balance.pricesDay v _ d <;> simp
    | outOfFuel => rw [hr2] at A; revert A; simp only [dayAfter]; cases Balance.pricesDay v _ d <;> simp
    | ok r2 =>
      obtain ⟨g1', x2, e2⟩ := r2
      rw [hr2] at A
      simp only [dayAfter] at A ⊢
      cases e2 with
      | some e =>
        revert A
        cases Balance.pricesDay v _ d <;> simp
      | none =>
        cases hpd : Balance.pricesDay v { st with vQty := qtyIn g3.quantities (P.oV g3 x2) } d with
        | error e => rw [hpd] at A; exact absurd A (by simp)
        | ok sp =>
          rw [hpd] at A
          simp only at A ⊢
          obtain ⟨hcp1, hx2, hvp, hvq⟩ := A
          obtain ⟨p1, _, _, _, _, _⟩ := pricesDay_fields hpd
          have hd2 : DayRel cur x2 d := by
            rw [hx2]; exact ⟨hd.date, hd.prices, hd.openings, hd.transactions, hd.assertions, hd.closings⟩
          -- stage 2: check
          have C := Check_day_agrees cur hP.ord hchk x2 d hd2
          rw [p1]
          unfold rCheck stageOf
          revert C
          cases hr3 : processDay (checkProc P.ord) g2 x2 with
          | panic m => cases Check.day st.chk d <;> simp [SimStep]
          | outOfFuel => cases Check.day st.chk d <;> simp [SimStep]
          | ok r3 =>
            obtain ⟨g2', x3, e3'⟩ := r3
            cases e3' with
            | some e => cases Check.day st.chk d <;> simp [SimStep]
            | none =>
              cases hck : Check.day st.chk d with
              | error e => simp [SimStep]
              | ok c =>
                simp only [SimStep]
                intro C
                obtain ⟨hchk1, hx3⟩ := C
                subst hx3
                -- stage 3: valuate
                have hve' : VEquiv cur g3 ({ sp with chk := c } : BalState).vPrev old st.vQty := by
                  show VEquiv cur g3 sp.vPrev old st.vQty
                  rw [hvp]; exact hva0
                have hn : NPEquivO cur x3.Normalized ({ sp with chk := c } : BalState).norm := by
                  rw [hx2]; exact hcp1.previous
                have B := Valuate_day_agrees cur v P.ext1 hP.ext1 { sp with chk := c } hve' (P.oV g3 x3) (hP.oV g3 x3) x3 d
                  hd2.date hn hd2.transactions
                have esp : ({ ({ sp with chk := c } : BalState) with vQty := qtyIn g3.quantities (P.oV g3 x3) } : BalState) =
                    { sp with chk := c } := by
                  have : sp.vQty = qtyIn g3.quantities (P.oV g3 x3) := hvq
                  cases sp
                  simp only at this
                  subst this
                  rfl
                rw [esp] at B
                unfold sValuate stageOf
                dsimp only
                revert B
                cases hr4 : processDay (valuateProc (cGo cur v) P.ext1 (P.oV g3 x3)) g3 x3 with
                | panic m => cases Balance.valuateDay v { sp with chk := c } d <;> simp
                | outOfFuel => cases Balance.valuateDay v { sp with chk := c } d <;> simp
                | ok r4 =>
                  obtain ⟨g3', x4, e4⟩ := r4
                  cases e4 with
                  | some e => cases Balance.valuateDay v { sp with chk := c } d <;> simp
                  | none =>
                    cases hvd : Balance.valuateDay v { sp with chk := c } d with
                    | error e => simp
                    | ok r =>
                      obtain ⟨s4, txs⟩ := r
                      simp only
                      intro B
                      obtain ⟨hv2, l, hx4, hl⟩ := B
                      obtain ⟨f1, f2, f3, _, _, _⟩ := valuateDay_fields hvd
                      refine ⟨fun _ => ?_, ?_, fun _ => ⟨_, hv2⟩, ?_, ?_, ?_⟩
                      · show CPEquiv cur g1' s4.graph s4.norm
                        rw [f2, f3]; exact hcp1
                      · show StEquiv cur g2' s4.chk
                        rw [f1]; exact hchk1
                      · rw [hx4, hx2]
                      · rw [hx4, hx2]
                      · rw [hx4]; exact hl

/-- **`ComputeValues` then `ComputeFlows` as stages** on a day without a `Performance` yet whose transactions stand for the model's valued
transactions: both succeed (for every admissible family of orders), the day afterwards stands for the model's `DayPerf` -/
theorem values_flows_segment (cur : String → Bool) (cfg : Performance.Cfg) (P : RetPar) (hP : RetParOK cur cfg P)
    {g : performance.Calculator.ComputeValues.State} {vals prev : AMap Knut.Commodity Rat} (h : CVRel cur g vals prev)
    (st0 : performance.Calculator.ComputeFlows.State) (dg : journal.Day) (date : Int) (hdate : dg.Date = date)
    (hnil : dg.Performance = none) (txs : List Knut.Transaction) (htx : AllRel (TRel cur) dg.Transactions txs) :
    ∃ g' dg1 st1 dg2, rValues P g dg = .ok (g', dg1) ∧ rFlows P st0 dg1 = .ok (st1, dg2) ∧
      CVRel cur g' (Performance.valuesDay cfg vals txs) (Performance.valuesDay cfg vals txs) ∧
      TransPerformance.DayRel cur dg2 (Performance.DayPerf.mk date prev (Performance.valuesDay cfg vals txs) (Performance.dayFlows cfg txs).1
        (Performance.dayFlows cfg txs).2.1 (Performance.dayFlows cfg txs).2.2) := by
  obtain ⟨ho, hsub, hcov⟩ := hP.oE g dg vals prev txs h htx
  obtain ⟨g', v1, hcv, hrel, hv1, _⟩ := TransPerformance.ComputeValues_day_agrees cur cfg h dg txs htx (P.oE g dg) ho hsub hcov
  simp only [hnil, Option.getD_none] at hcv
  have hos := hP.oS st0 { dg with Performance := some { (GoZero.zero : journal.Performance) with V0 := g.prev, V1 := v1 } } txs htx
  obtain ⟨p', hcf, k1, k2, k3, k4, k5, k6, k7, k8⟩ := TransPerformance.ComputeFlows_day_agrees cur cfg st0
    { dg with Performance := some { (GoZero.zero : journal.Performance) with V0 := g.prev, V1 := v1 } }
    { (GoZero.zero : journal.Performance) with V0 := g.prev, V1 := v1 } rfl Knut.MapSum.nodupKeys_nil Knut.MapSum.nodupKeys_nil
    Knut.MapSum.nodupKeys_nil Knut.MapSum.nodupKeys_nil txs htx _ hos
  refine ⟨g', { dg with Performance := some { (GoZero.zero : journal.Performance) with V0 := g.prev, V1 := v1 } },
    ⟨(Performance.dayFlows cfg txs).2.2, some p'⟩,
    { dg with Performance := some p' }, ?_, ?_, hrel, hdate, p', rfl, ?_⟩
  · unfold rValues
    rw [hP.cg]
    exact stageOf_ok hcv
  · unfold rFlows
    rw [hP.cg]
    refine stageOf_ok ?_
    rw [hcf]
    rfl
  · refine ⟨?_, ?_, k3, k4, ?_, ?_, k7, k8⟩
    · rw [k1]; exact h.prev
    · rw [k2]; exact hv1
    · rw [k5]; exact Rat.zero_add _
    · rw [k6]; exact Rat.zero_add _

/-- a Go day before the pipeline stands for the model day and has no `Performance` yet (the builder creates days without one) -/
def DayRelP (cur : String → Bool) (g : journal.Day) (d : Knut.Day) : Prop := DayRel cur g d ∧ g.Performance = none

/-- **one day through the five translated stages before `Perf` against the model's `perfDay`** (`valuedDay` with `vQty` re-listed as
`Valuate.DayStart` iterates, then `valuesDay`, `dayFlows`): both succeed — states related again, the day that leaves `ComputeFlows`
standing for the model's `DayPerf` — or both fail -/
theorem returns_day_agrees (cur : String → Bool) (cfg : Performance.Cfg) (P : RetPar) (hP : RetParOK cur cfg P)
    {G : RFused} {ps : Performance.PState} (hI : RetInv cur cfg G ps) (dg : journal.Day) (d : Knut.Day) (hd : DayRelP cur dg d) :
    ∃ vq, Relist ps.bal.vQty vq ∧ (cfg.valuation = none → vq = ps.bal.vQty) ∧
      match fused5 P G dg, Performance.valuedDay cfg { ps.bal with vQty := vq } d with
      | .ok (G', dg'), .ok (bal', txs) =>
        RetInv cur cfg G' ⟨bal', Performance.valuesDay cfg ps.values txs, Performance.valuesDay cfg ps.values txs⟩ ∧
        TransPerformance.DayRel cur dg' (Performance.DayPerf.mk d.date ps.prev (Performance.valuesDay cfg ps.values txs)
          (Performance.dayFlows cfg txs).1 (Performance.dayFlows cfg txs).2.1 (Performance.dayFlows cfg txs).2.2)
      | .error _, .error _ => True
      | _, _ => False := by
  obtain ⟨⟨⟨⟨g1, g2⟩, g3⟩, g4⟩, g5⟩ := G
  obtain ⟨hcp, hchk, hva, hcv⟩ := hI
  simp only at hcp hchk hva hcv
  obtain ⟨vq, hr, hn, hm⟩ := valued_segment cur cfg P hP g1 g2 g3 ps.bal hcp hchk hva dg d hd.1
  refine ⟨vq, hr, hn, ?_⟩
  unfold fused5
  rw [fuse3_eq]
  cases h3 : fused3 P ((g1, g2), g3) dg with
  | error e =>
    rw [h3] at hm
    cases hmo : Performance.valuedDay cfg { ps.bal with vQty := vq } d with
    | ok r => rw [hmo] at hm; exact absurd hm (by simp)
    | error e' => simp
  | ok r =>
    obtain ⟨G3, dg3⟩ := r
    rw [h3] at hm
    cases hmo : Performance.valuedDay cfg { ps.bal with vQty := vq } d with
    | error e' => rw [hmo] at hm; exact absurd hm (by simp)
    | ok r' =>
      obtain ⟨bal', txs⟩ := r'
      rw [hmo] at hm
      simp only at hm
      obtain ⟨m1, m2, m3, m4, m5, m6⟩ := hm
      obtain ⟨g4', dg4, g5', dg5, e4, e5, hcv', hrel⟩ := values_flows_segment cur cfg P hP hcv g5 dg3 d.date
        (by rw [m4]; exact hd.1.date) (by rw [m5]; exact hd.2) txs m6
      simp only [e4, e5]
      exact ⟨⟨m1, m2, m3, hcv'⟩, hrel⟩

/-- **the five stages over the whole journal, by induction over the days**, both directions -/
theorem returns_seq_agrees (cur : String → Bool) (cfg : Performance.Cfg) (P : RetPar) (hP : RetParOK cur cfg P) :
    ∀ (gdays : List journal.Day) (days : List Knut.Day), AllRel (DayRelP cur) gdays days →
      ∀ (G : RFused) (ps : Performance.PState), RetInv cur cfg G ps →
        match seqStage (fused5 P) G gdays with
        | some out => ∃ ms, ValuedOrd cfg ps.bal days ms ∧
            AllRel (TransPerformance.DayRel cur) out (perfDaysV cfg (ps.values, ps.prev) ms)
        | none => ValuedFail cfg ps.bal days := by
  intro gdays days hrel
  induction hrel with
  | nil =>
    intro G ps _
    rw [seqStage_nil]
    exact ⟨[], .nil _, .nil⟩
  | @cons dg d gds ds hd _ ih =>
    intro G ps hI
    obtain ⟨vq, hr, hn, hm⟩ := returns_day_agrees cur cfg P hP hI dg d hd
    rw [seqStage_cons]
    cases hgo : fused5 P G dg with
    | error e =>
      rw [hgo] at hm
      cases hmo : Performance.valuedDay cfg { ps.bal with vQty := vq } d with
      | ok r => rw [hmo] at hm; exact absurd hm (by simp)
      | error e' => exact ValuedFail.here vq hr hn hmo
    | ok r =>
      obtain ⟨G', dg'⟩ := r
      rw [hgo] at hm
      cases hmo : Performance.valuedDay cfg { ps.bal with vQty := vq } d with
      | error e' => rw [hmo] at hm; exact absurd hm (by simp)
      | ok r' =>
        obtain ⟨bal', txs⟩ := r'
        rw [hmo] at hm
        simp only at hm ⊢
        have := ih G' _ hm.1
        revert this
        cases seqStage (fused5 P) G' gds with
        | none => intro h; exact ValuedFail.later vq hr hn hmo h
        | some o =>
          intro h
          obtain ⟨ms, hpo, hpr⟩ := h
          exact ⟨(d.date, txs) :: ms, .cons vq hr hn hmo hpo, .cons hm.2 hpr⟩

/-! ### `Perf` as the last stage -/

theorem rPerf_eq (P : RetPar) (st : performance.Perf.State) (d : journal.Day) :
    rPerf P st d =
      match performance.Perf.DayEnd P.part st d with
      | .ok (st', none) => .ok (st', d)
      | .ok (_, some e) => .error (.err e)
      | .panic m => .error (.panic m)
      | .outOfFuel => .error .outOfFuel := by
  unfold rPerf stageOf processDay perfProc
  simp only [optStep, pricesStep, opensStep, txStep, assertStep, closeStep, DayStep.andThen, DayStep.skip, bind_ok',
    Option.isSome_none, Bool.false_eq_true, if_false]
  rcases performance.Perf.DayEnd P.part st d with ⟨st', _ | e⟩ | m | _ <;> rfl

/-- **`Perf` over the days that leave `ComputeFlows`** = `perfLines`, when every day inside the reported span has a defined factor: the
stage succeeds on every day, passes the days on unchanged, and its captured state ends with the model's lines printed -/
theorem Perf_stage_agrees (cur : String → Bool) (P : RetPar) (part : Knut.Partition) (hpart : P.part = TransDate.partitionGo part)
    (ds : set.Set Int) (hds : ∀ x, set.Set.Has ds x = part.endDates.contains x) :
    ∀ (days : List journal.Day) (dps : List Performance.DayPerf), AllRel (TransPerformance.DayRel cur) days dps →
      (∀ dp ∈ dps, (Performance.perfSpan part).contains dp.date = true → (Performance.factor dp).isSome) →
      ∀ (r : Rat) (out : List Stdout.PrintfCall), ∃ r',
        runDays (rPerf P) ⟨ds, part.startDates, r, out⟩ days =
          .ok (⟨ds, part.startDates, r',
            out ++ (Performance.perfLines (Performance.perfSpan part) part.endDates (some r) dps).map lineGo⟩, days) := by
  intro days dps hrel
  induction hrel with
  | nil => intro _ r out; exact ⟨r, by simp [runDays, Performance.perfLines]⟩
  | @cons d dp days dps hd _ ih =>
    intro hdef r out
    obtain ⟨hdate, p, hp, hpr⟩ := hd
    have hdef' : ∀ dp' ∈ dps, (Performance.perfSpan part).contains dp'.date = true → (Performance.factor dp').isSome :=
      fun dp' h => hdef dp' (List.mem_cons_of_mem _ h)
    simp only [runDays, rPerf_eq, hpart, TransPerformance.Perf_DayEnd_agrees cur part ds hds r out d p dp hp hpr hdate,
      Performance.perfLines]
    by_cases hc : (Performance.perfSpan part).contains dp.date = true
    · have hsome := hdef dp (List.mem_cons_self ..) hc
      obtain ⟨f, hf⟩ := Option.isSome_iff_exists.1 hsome
      simp only [hc, Bool.not_true, Bool.false_eq_true, if_false, hf, Performance.mulOpt]
      by_cases he : part.endDates.contains dp.date = true
      · simp only [he, if_true, Option.map_some, List.map_cons]
        obtain ⟨r', hr'⟩ := ih hdef' 1 (out ++ [TransPerformance.perfLine dp.date (r * f - 1)])
        refine ⟨r', ?_⟩
        rw [hr']
        simp [lineGo, List.append_assoc]
      · simp only [he, Bool.false_eq_true, if_false]
        obtain ⟨r', hr'⟩ := ih hdef' (r * f) out
        exact ⟨r', by rw [hr']⟩
    · simp only [hc, Bool.not_false, if_true]
      obtain ⟨r', hr'⟩ := ih hdef' r out
      exact ⟨r', by rw [hr']⟩

/-! ### the whole pipeline -/

/-- the states the six constructors start from (`reg`, `calculator`, `j`, `partition`, and the captured set `ds0` of `Perf` — the result
of the untranslated `set.FromSlice(j.Days(part.EndDates()))`, an `ext` parameter of `Perf.init`) -/
def returnsInit (cur : String → Bool) (cfg : Performance.Cfg) (j : journal.Builder) (part : Knut.Partition) (ds0 : set.Set Int) : RetGo :=
  { cp := ⟨GoZero.zero, []⟩, chk := checkInit, va := ⟨GoZero.zero, GoZero.zero, []⟩,
    cv := performance.Calculator.ComputeValues.init (calcGo cur cfg),
    cf := performance.Calculator.ComputeFlows.init (calcGo cur cfg),
    pf := performance.Perf.init j (TransDate.partitionGo part) ds0 }

theorem RetInv_init (cur : String → Bool) (cfg : Performance.Cfg) (j : journal.Builder) (part : Knut.Partition) (ds0 : set.Set Int) :
    RetInv cur cfg (init5 (returnsInit cur cfg j part ds0)) {} :=
  ⟨fun _ => ⟨TransPrice.PEquivS_nil cur, NPEquivO_nil cur⟩, checkInit_equiv cur,
    fun _ => ⟨none, NPEquivO_nil cur, NPEquivO_nil cur, QEquiv_nil cur⟩,
    TransPerformance.ComputeValues_init_agrees cur (calcGo cur cfg)⟩

/-- the captured state of `Perf` after the sequential run (what it has printed is its field `stdout`); `none` if a stage failed -/
def perfFinal (P : RetPar) (G0 : RetGo) (days : List journal.Day) : Option performance.Perf.State :=
  (seqStage (fused5 P) (init5 G0) days).bind fun out5 =>
    match runDays (rPerf P) G0.pf out5 with
    | .ok (s, _) => some s
    | .error _ => none

/-- **`Journal.Process` of `knut portfolio returns` over a whole journal = the model's run**, for EVERY admissible family of iteration
orders and fuels (`RetParOK`), on Go days that stand for the model's days and carry no `Performance` yet:

* the five stages before `Perf` fail ⇒ the whole run fails and the model's (re-listed) valuation of the days fails (`ValuedFail`);
* they succeed ⇒ the model's valued days `ms` exist (`ValuedOrd`), the days that reach `Perf` stand for `perfDaysV … ms` (the model's
  `perfFrom`), and — when every factor inside the span is defined — the whole run succeeds, passes these days on, and `Perf` has printed
  exactly the model's `perfLines` over them. -/
theorem processAllReturns_agrees (cur : String → Bool) (cfg : Performance.Cfg) (P : RetPar) (hP : RetParOK cur cfg P)
    (part : Knut.Partition) (hpart : P.part = TransDate.partitionGo part)
    (ds0 : set.Set Int) (hds : ∀ x, set.Set.Has ds0 x = part.endDates.contains x) (j : journal.Builder)
    (gdays : List journal.Day) (days : List Knut.Day) (hdays : AllRel (DayRelP cur) gdays days) :
    match seqStage (fused5 P) (init5 (returnsInit cur cfg j part ds0)) gdays with
    | none => processAllReturns P (returnsInit cur cfg j part ds0) gdays = none ∧ ValuedFail cfg {} days
    | some out5 => ∃ ms, ValuedOrd cfg {} days ms ∧ AllRel (TransPerformance.DayRel cur) out5 (perfDaysV cfg ([], []) ms) ∧
        ((∀ dp ∈ perfDaysV cfg ([], []) ms, (Performance.perfSpan part).contains dp.date = true → (Performance.factor dp).isSome) →
          processAllReturns P (returnsInit cur cfg j part ds0) gdays = some out5 ∧
          ∃ r', perfFinal P (returnsInit cur cfg j part ds0) gdays = some ⟨ds0, part.startDates, r',
            (Performance.perfLines (Performance.perfSpan part) part.endDates (some 1) (perfDaysV cfg ([], []) ms)).map lineGo⟩) := by
  have h := returns_seq_agrees cur cfg P hP gdays days hdays _ {} (RetInv_init cur cfg j part ds0)
  rw [processAllReturns_eq]
  unfold perfFinal
  revert h
  cases seqStage (fused5 P) (init5 (returnsInit cur cfg j part ds0)) gdays with
  | none => intro h; exact ⟨rfl, h⟩
  | some out5 =>
    intro h
    obtain ⟨ms, hvo, hall⟩ := h
    refine ⟨ms, hvo, hall, ?_⟩
    intro hdef
    obtain ⟨r', hr'⟩ := Perf_stage_agrees cur P part hpart ds0 hds out5 _ hall hdef 1 []
    have hpf : (returnsInit cur cfg j part ds0).pf = ⟨ds0, part.startDates, 1, []⟩ := TransPerformance.Perf_init_agrees j part ds0
    rw [← hpf] at hr'
    simp only [Option.bind_some, hr', List.nil_append]
    exact ⟨seqStage_of_runDays hr', r', rfl⟩

/-! ### Non-vacuity: the empty journal — all stages succeed on no day, the initial states are related (`RetInv_init`) -/
example (P : RetPar) (G0 : RetGo) : processAllReturns P G0 [] = some [] := by
  rw [processAllReturns_eq]; rfl

end Knut.FactsAgree.TransProcessAllReturns
