/-!
# cpr.Seq, the loader fan-in and the journal builder as transition systems (core Lean only)

## Part 1 — `cpr.Seq` (`lib/common/cpr/cpr.go`)

`Seq(ctx, ts, fs...)` starts one goroutine for the source (pushes `ts` in order), one per stage
function `fs[k-1]` (`ForEach` over its input channel: receive, `f(t)`, `Push` to the next channel)
and one sink (appends to `res`).  All channels are unbuffered, so a hand-over is a rendezvous of the
sender (holding a finished item) with an idle receiver.  The workers run in a `conc` pool
`WithContext.WithCancelOnError.WithFirstError`: the first worker that returns an error records it
(`addErr`) and cancels the context; `Pop`/`Push` return `ctx.Err()` once the context is cancelled,
so no stage starts work on a new item after the cancellation, while work that is in flight runs to
its end.

Model: stages are numbered `1 … n` as in the Go code (`stageNo`), `0` is the source.
* `fed`       – loop index of the source (`for _, t := range ts`)
* `slot k`    – the item stage `k` owns (`some (a, false)`: received, work not finished;
                `some (a, true)`: `f` returned, blocked in `Push`)
* `st k`      – the private state of stage `k`'s closure (a `journal.Processor`'s captured maps)
* `hist k`    – ghost: the items stage `k` has handed on so far (never read by a guard)
* `out`       – the sink's `res`
* `err k`     – stage `k`'s `f` returned an error (the goroutine has left `ForEach`; it still "owns"
                the item it failed on, so it never receives again)
* `cancelled`, `reported` – the pool's context and the error `p.Wait()` returns (first `addErr`)

A stage function is `f k : σ → α → Except ε (σ × α)`: it may update its private state and the
item it owns, nothing else.  That stage closures share no other mutable state is the assumption
of this model that the race detector runs of the harness check on the real code.
-/
namespace Knut.Pipeline

/-- pointwise update of a function on stage numbers -/
def upd {β : Type} (g : Nat → β) (k : Nat) (v : β) : Nat → β := fun j => if j = k then v else g j

structure Sys (σ α ε : Type) where
  n : Nat
  f : Nat → σ → α → Except ε (σ × α)
  init : Nat → σ
  items : List α

structure St (σ α ε : Type) where
  fed : Nat
  slot : Nat → Option (α × Bool)
  st : Nat → σ
  hist : Nat → List α
  out : List α
  err : Nat → Option ε
  cancelled : Bool
  reported : Option (Nat × ε)

inductive Label
  | feed            -- source → stage 1          (rendezvous on the first channel)
  | direct          -- source → sink             (only when there is no stage)
  | work (k : Nat)  -- `f` of stage k returns nil
  | fail (k : Nat)  -- `f` of stage k returns an error
  | pass (k : Nat)  -- stage k → stage k+1       (rendezvous)
  | sink            -- stage n → sink            (rendezvous)
  | cancel (k : Nat) -- the pool records stage k's error as the first one and cancels the context
  deriving DecidableEq, Repr

variable {σ α ε : Type}

def St.initial (S : Sys σ α ε) : St σ α ε :=
  { fed := 0, slot := fun _ => none, st := S.init, hist := fun _ => [], out := [],
    err := fun _ => none, cancelled := false, reported := none }

/-- the transition function: `step? S s l = some s'` iff the step labelled `l` is enabled in `s`
and leads to `s'` -/
def step? (S : Sys σ α ε) (s : St σ α ε) : Label → Option (St σ α ε)
  | .feed =>
    if s.cancelled = false ∧ 0 < S.n ∧ (s.slot 1).isNone then
      match S.items[s.fed]? with
      | some a => some { s with fed := s.fed + 1, slot := upd s.slot 1 (some (a, false)) }
      | none => none
    else none
  | .direct =>
    if s.cancelled = false ∧ S.n = 0 then
      match S.items[s.fed]? with
      | some a => some { s with fed := s.fed + 1, out := s.out ++ [a] }
      | none => none
    else none
  | .work k =>
    if 1 ≤ k ∧ k ≤ S.n ∧ (s.err k).isNone then
      match s.slot k with
      | some (a, false) =>
        match S.f k (s.st k) a with
        | .ok (s', a') => some { s with st := upd s.st k s', slot := upd s.slot k (some (a', true)) }
        | .error _ => none
      | _ => none
    else none
  | .fail k =>
    if 1 ≤ k ∧ k ≤ S.n ∧ (s.err k).isNone then
      match s.slot k with
      | some (a, false) =>
        match S.f k (s.st k) a with
        | .ok _ => none
        | .error e => some { s with err := upd s.err k (some e) }
      | _ => none
    else none
  | .pass k =>
    if s.cancelled = false ∧ 1 ≤ k ∧ k < S.n ∧ (s.slot (k + 1)).isNone then
      match s.slot k with
      | some (a, true) =>
        some { s with slot := upd (upd s.slot k none) (k + 1) (some (a, false)),
                      hist := upd s.hist k (s.hist k ++ [a]) }
      | _ => none
    else none
  | .sink =>
    if s.cancelled = false ∧ 0 < S.n then
      match s.slot S.n with
      | some (a, true) =>
        some { s with slot := upd s.slot S.n none, hist := upd s.hist S.n (s.hist S.n ++ [a]),
                      out := s.out ++ [a] }
      | _ => none
    else none
  | .cancel k =>
    if s.cancelled = false then
      match s.err k with
      | some e => some { s with cancelled := true, reported := some (k, e) }
      | none => none
    else none

/-- reachable states -/
inductive Reach (S : Sys σ α ε) : St σ α ε → Prop
  | init : Reach S (St.initial S)
  | step {s s' : St σ α ε} (l : Label) : Reach S s → step? S s l = some s' → Reach S s'

/-- a run: the list of labels taken from `s` to `s'` -/
inductive Run (S : Sys σ α ε) : St σ α ε → List Label → St σ α ε → Prop
  | nil (s) : Run S s [] s
  | cons {s s' s'' : St σ α ε} {ls} (l : Label) : step? S s l = some s' → Run S s' ls s'' → Run S s (l :: ls) s''

/-- `p.Wait()` returns nil and `<-ch` delivers the result -/
def St.done (S : Sys σ α ε) (s : St σ α ε) : Prop :=
  s.cancelled = false ∧ (∀ k, s.err k = none) ∧ s.out.length = S.items.length

/-- `p.Wait()` returns the recorded error: the context is cancelled and no stage function is running -/
def St.stopped (s : St σ α ε) : Prop :=
  s.cancelled = true ∧ ∀ k a, s.slot k = some (a, false) → s.err k ≠ none

/-! ### the sequential meaning -/

/-- state and outputs after stage function `f` (initial state `s0`) has processed the first `i`
items of `l` one after the other; `none` if one of them failed (or `l` is shorter) -/
def proc (f : σ → α → Except ε (σ × α)) (s0 : σ) (l : List α) : Nat → Option (σ × List α)
  | 0 => some (s0, [])
  | i + 1 =>
    match proc f s0 l i with
    | none => none
    | some (s, o) =>
      match l[i]? with
      | none => none
      | some a =>
        match f s a with
        | .ok (s', a') => some (s', o ++ [a'])
        | .error _ => none

/-- one stage run to completion over a whole list -/
def seqStage (f : σ → α → Except ε (σ × α)) (s0 : σ) (l : List α) : Option (List α) :=
  (proc f s0 l l.length).map (·.2)

/-- stages `1 … k` run one after the other, each over the whole output of its predecessor -/
def seqUpTo (S : Sys σ α ε) : Nat → Option (List α)
  | 0 => some S.items
  | k + 1 => (seqUpTo S k).bind (seqStage (S.f (k + 1)) (S.init (k + 1)))

/-- the sequential result of `Seq` -/
def seqRun (S : Sys σ α ε) : Option (List α) := seqUpTo S S.n

/-- `f` run over a list until its first failure: the outputs of the processed prefix and the error, if any -/
def runStage (f : σ → α → Except ε (σ × α)) : σ → List α → List α × Option ε
  | _, [] => ([], none)
  | s, a :: as =>
    match f s a with
    | .ok (s', a') => let r := runStage f s' as; (a' :: r.1, r.2)
    | .error e => ([], some e)

/-- what reaches the output of stage `k` when every stage runs until its first failure -/
def stream (S : Sys σ α ε) : Nat → List α
  | 0 => S.items
  | k + 1 => (runStage (S.f (k + 1)) (S.init (k + 1)) (stream S k)).1

/-- the failures a run can report: for every stage its first failure on the stream that reaches it -/
def seqErrors (S : Sys σ α ε) : List (Nat × ε) :=
  (List.range S.n).filterMap (fun k => (runStage (S.f (k + 1)) (S.init (k + 1)) (stream S k)).2.map (fun e => (k + 1, e)))

/-- what stage `k` has emitted so far (`0` = the source) -/
def emitted (S : Sys σ α ε) (s : St σ α ε) (k : Nat) : List α :=
  if k = 0 then S.items.take s.fed else s.hist k

def occ (s : St σ α ε) (k : Nat) : Nat := if (s.slot k).isSome then 1 else 0

/-! ### executing the model under a schedule oracle (driver) -/

def labelsOf (n : Nat) : List Label :=
  [.feed, .direct, .sink] ++ (List.range (n + 1)).flatMap (fun k => [.work k, .fail k, .pass k, .cancel k])

def enabled (S : Sys σ α ε) (s : St σ α ε) : List (Label × St σ α ε) :=
  (labelsOf S.n).filterMap (fun l => (step? S s l).map (fun s' => (l, s')))

/-- run until no step is enabled; the oracle picks among the enabled steps -/
def runOracle (S : Sys σ α ε) (oracle : Nat → Nat) : Nat → Nat → St σ α ε → List Label → St σ α ε × List Label
  | 0, _, s, acc => (s, acc.reverse)
  | fuel + 1, i, s, acc =>
    match enabled S s with
    | [] => (s, acc.reverse)
    | e :: es =>
      let c := (e :: es)[oracle i % (es.length + 1)]?.getD e
      runOracle S oracle fuel (i + 1) c.2 (c.1 :: acc)

/-- number of steps no run exceeds (see `C19_terminates`) -/
def stepBound (S : Sys σ α ε) : Nat := (2 * S.n + 1) * S.items.length + S.n + 2

/-! ## Part 2 — the relaxed trace acceptor

The `verif` hooks log `begin k` after stage `k` received an item, `end k` / `fail k` when its
function returned, `sink` when the sink received; not at the rendezvous itself.  A logged trace is
therefore some linearisation consistent with happens-before.  The acceptor keeps per stage how
many items it has begun and ended. -/

inductive Ev
  | begin (k : Nat) | done (k : Nat) | fail (k : Nat) | sink
  deriving DecidableEq, Repr

structure Acc where
  begun : Nat → Nat
  ended : Nat → Nat
  dead : Nat → Bool
  sunk : Nat

def Acc.initial : Acc := { begun := fun _ => 0, ended := fun _ => 0, dead := fun _ => false, sunk := 0 }

/-- how many items stage `k` can have received: what its predecessor (the source for `k = 1`) has finished -/
def upstream (m : Nat) (a : Acc) (k : Nat) : Nat := if k = 1 then m else a.ended (k - 1)

/-- how many items the sink can have received -/
def sinkLimit (n m : Nat) (a : Acc) : Nat := if n = 0 then m else a.ended n

/-- `n` stages, `m` items -/
def accStep (n m : Nat) (a : Acc) : Ev → Option Acc
  | .begin k =>
    if 1 ≤ k ∧ k ≤ n ∧ a.dead k = false ∧ a.begun k = a.ended k ∧ a.begun k < upstream m a k then
      some { a with begun := upd a.begun k (a.begun k + 1) }
    else none
  | .done k =>
    if 1 ≤ k ∧ k ≤ n ∧ a.dead k = false ∧ a.begun k = a.ended k + 1 then
      some { a with ended := upd a.ended k (a.ended k + 1) }
    else none
  | .fail k =>
    if 1 ≤ k ∧ k ≤ n ∧ a.dead k = false ∧ a.begun k = a.ended k + 1 then
      some { a with dead := upd a.dead k true }
    else none
  | .sink =>
    if a.sunk < sinkLimit n m a then some { a with sunk := a.sunk + 1 } else none

def accRun (n m : Nat) : Acc → List Ev → Option Acc
  | a, [] => some a
  | a, e :: es => (accStep n m a e).bind (fun a' => accRun n m a' es)

def accept (n m : Nat) (tr : List Ev) : Option Acc := accRun n m Acc.initial tr

def anyDead (n : Nat) (a : Acc) : Bool := (List.range (n + 1)).any (fun k => a.dead k)

/-- the run is complete: every stage has begun and ended all `m` items and the sink has them -/
def complete (n m : Nat) (a : Acc) : Bool :=
  !anyDead n a && a.sunk == m && (List.range (n + 1)).all (fun k => k == 0 || (a.begun k == m && a.ended k == m))

/-- the event a model step is logged as -/
def Label.event : Label → Option Ev
  | .feed => some (.begin 1)
  | .direct => some .sink
  | .work k => some (.done k)
  | .fail k => some (.fail k)
  | .pass k => some (.begin (k + 1))
  | .sink => some .sink
  | .cancel _ => none

/-! ### item-labelled traces (in-process harness: the stage functions know which item they hold)

The property predicate evaluated on the real code's observed schedule: every stage sees the items
`0, 1, 2, …` in this order, one at a time (no loss, no duplicate, FIFO), item `i` is begun by stage
`k` only after stage `k-1` ended it, and the sink receives them in order after the last stage. -/

inductive LEv
  | begin (k i : Nat) | done (k i : Nat) | fail (k i : Nat) | sink (i : Nat)
  deriving DecidableEq, Repr

def LEv.erase : LEv → Ev
  | .begin k _ => .begin k | .done k _ => .done k | .fail k _ => .fail k | .sink _ => .sink

/-- the labels are the ordinals: the `i`-th begin of stage `k` carries item `i` … -/
def labelsOK (a : Acc) : LEv → Bool
  | .begin k i => i == a.begun k
  | .done k i => i == a.ended k
  | .fail k i => i == a.ended k
  | .sink i => i == a.sunk

def laccRun (n m : Nat) : Acc → List LEv → Option Acc
  | a, [] => some a
  | a, e :: es => if labelsOK a e then (accStep n m a e.erase).bind (fun a' => laccRun n m a' es) else none

def laccept (n m : Nat) (tr : List LEv) : Option Acc := laccRun n m Acc.initial tr

/-! ## Part 3 — loader fan-in and journal builder

`syntax.ParseFileRecursively` starts one goroutine per file (an `errgroup`); each parses its file,
starts a goroutine for every `include` it meets (in the parser callback, i.e. while parsing) and
finally pushes its `directives.File` into the one result channel.  `model.FromStream` converts each
file in its own pool goroutine and pushes the directive list on; `journal.FromModelStream` is the
single consumer that `Add`s every directive to the `Builder` (a map date → `Day` with one slice per
directive kind).  The order in which files arrive at the builder is an arbitrary interleaving: it is
the oracle `arrival` below.  Any error (unreadable file, syntax error, include cycle, model error)
makes the command fail. -/

/-! ### the fan-in protocol

`pending` goroutines (one per file still to be delivered) each push one value into the single unbuffered
channel; the consumer (`model.FromStream`'s `ForEach`, then `journal.FromModelStream`) receives as long as it
is `draining`.  `journal.FromPath` runs its three workers in a pool *without* cancel-on-error, so a producer
blocked in `Push` is released only by a receive, or by the cancellation of its own errgroup context when a
*producer* failed (`cancelled`).  That the consumer keeps draining until the channel is closed — also after one
of its own conversions failed — is what makes the loader terminate (`C19_fan_progress`); a consumer that stops
early leaves the producers blocked for ever (`C19_fan_stuck_without_drain`). -/

structure Fan where
  pending : Nat
  delivered : Nat
  draining : Bool
  cancelled : Bool
  deriving DecidableEq, Repr

inductive FanLabel
  | push      -- rendezvous: one producer hands its file over
  | abandon   -- a producer's `Push` returns `ctx.Err()` (its errgroup context is cancelled)
  | cancel    -- a producer failed: the errgroup cancels the producers' context
  deriving DecidableEq, Repr

/-- `producerFailed`: some parser goroutine returned an error -/
def fanStep (producerFailed : Bool) (s : Fan) : FanLabel → Option Fan
  | .push => if 0 < s.pending ∧ s.draining = true then some { s with pending := s.pending - 1, delivered := s.delivered + 1 } else none
  | .abandon => if 0 < s.pending ∧ s.cancelled = true then some { s with pending := s.pending - 1 } else none
  | .cancel => if producerFailed = true ∧ s.cancelled = false then some { s with cancelled := true } else none

def Fan.finished (s : Fan) : Prop := s.pending = 0

inductive FanRun (pf : Bool) : Fan → List FanLabel → Fan → Prop
  | nil (s) : FanRun pf s [] s
  | cons {s s' s'' : Fan} {ls} (l : FanLabel) : fanStep pf s l = some s' → FanRun pf s' ls s'' → FanRun pf s (l :: ls) s''

inductive Kind | price | open_ | transaction | assertion | close
  deriving DecidableEq, Repr

/-- a directive as far as the builder looks at it: its date, its kind, an identity -/
structure Dir where
  date : Int
  kind : Kind
  id : Nat
  deriving DecidableEq, Repr

inductive Entry
  | dir (d : Dir)
  | include_ (file : Nat)       -- resolved path, as a file number
  | syntaxError                 -- the parser stops here with an error
  | modelError (d : Dir)        -- parses, but `model.ParseDirective` rejects it (e.g. invalid account type)
  deriving Repr

/-- a file system: file number ↦ entries; absent numbers are missing files -/
abbrev FS := List (Nat × List Entry)

def FS.find (fs : FS) (i : Nat) : Option (List Entry) := (fs.find? (fun p => p.1 == i)).map (·.2)

inductive LoadErr | missing | cycle | syntax | model | fuel
  deriving DecidableEq, Repr

/-- entries of one file up to the first syntax error: the directives kept, the includes met
(the callback fires for them even if a later line fails), whether the parse failed -/
def scanFile : List Entry → List Entry × List Nat × Bool
  | [] => ([], [], false)
  | .syntaxError :: _ => ([], [], true)
  | .include_ f :: rest => let (ds, incs, bad) := scanFile rest; (ds, f :: incs, bad)
  | e :: rest => let (ds, incs, bad) := scanFile rest; (e :: ds, incs, bad)

/-- `parseRec`: the files loaded from `file` (each as its list of entries), depth first;
`ancestors` as in the Go code.  All errors of the walk are collected: which one the command reports
depends on the schedule, *that* it fails does not. -/
def loadRec (fs : FS) : Nat → List Nat → Nat → List (List Entry) × List LoadErr
  | 0, _, _ => ([], [.fuel])
  | fuel + 1, ancestors, file =>
    if ancestors.contains file then ([], [.cycle]) else
    match fs.find file with
    | none => ([], [.missing])
    | some entries =>
      let (ds, incs, bad) := scanFile entries
      let subs := incs.map (loadRec fs fuel (ancestors ++ [file]))
      let files := subs.flatMap (·.1)
      let errs := subs.flatMap (·.2)
      if bad then (files, .syntax :: errs) else (ds :: files, errs)

def entryDirs : Entry → List Dir
  | .dir d => [d]
  | _ => []

def hasModelError (es : List Entry) : Bool := es.any (fun e => match e with | .modelError _ => true | _ => false)

/-- `journal.Day` -/
structure Day where
  date : Int
  prices : List Dir := []
  assertions : List Dir := []
  openings : List Dir := []
  transactions : List Dir := []
  closings : List Dir := []
  deriving Repr

def Day.get (d : Day) : Kind → List Dir
  | .price => d.prices | .open_ => d.openings | .transaction => d.transactions
  | .assertion => d.assertions | .close => d.closings

def Day.add (d : Day) (x : Dir) : Day :=
  match x.kind with
  | .price => { d with prices := d.prices ++ [x] }
  | .open_ => { d with openings := d.openings ++ [x] }
  | .transaction => { d with transactions := d.transactions ++ [x] }
  | .assertion => { d with assertions := d.assertions ++ [x] }
  | .close => { d with closings := d.closings ++ [x] }

/-- `Builder.days` as an association list (insertion order; `Build` sorts) -/
abbrev Builder := List Day

/-- `Builder.Add` (`dict.GetDefault` then append to the kind's slice) -/
def Builder.add : Builder → Dir → Builder
  | [], x => [Day.add { date := x.date } x]
  | d :: ds, x => if d.date = x.date then Day.add d x :: ds else d :: Builder.add ds x

/-- `FromModelStream`: the builder after the directive lists arrived in the given order -/
def fromModelStream (arrival : List (List Dir)) : Builder :=
  arrival.foldl (fun b ds => ds.foldl Builder.add b) []

/-- directives of a day and kind (empty if the day does not exist) -/
def Builder.get (b : Builder) (date : Int) (k : Kind) : List Dir :=
  match b.find? (fun d => d.date == date) with
  | some d => d.get k
  | none => []

/-- insertion sort by date (`dict.SortedValues(j.days, CompareDays)`; dates are distinct keys) -/
def insertDay (d : Day) : List Day → List Day
  | [] => [d]
  | e :: es => if d.date ≤ e.date then d :: e :: es else e :: insertDay d es

def Builder.build (b : Builder) : List Day := b.foldr insertDay []

/-- the directives of a day in the order `journal.Print` shows them -/
def Day.all (d : Day) : List Dir := d.prices ++ d.openings ++ d.transactions ++ d.assertions ++ d.closings

/-- all directives of a list of days, in printed order -/
def printed (days : List Day) : List Dir := days.flatMap Day.all

/-- the two lists hold the same directives, each equally often -/
def sameDirs (expected observed : List Dir) : Bool := (expected ++ observed).all (fun d => expected.count d == observed.count d)

def datesSorted (l : List Dir) : Bool := decide (l.Pairwise (fun a b => a.date ≤ b.date))

/-- **property predicate** on an observed journal (the directives `knut print` shows, in printed order) against
the directives of all files: nothing lost, nothing duplicated, days in date order -/
def censusOK (expected observed : List Dir) : Bool := sameDirs expected observed && datesSorted observed

/-- outcome of `journal.FromPath`: an error, or the journal's days for the given arrival order
(`perm` permutes the loaded files; any list that is not a permutation index is ignored) -/
def loadOutcome (fs : FS) (root : Nat) : Except (List LoadErr) (List (List Dir)) :=
  let (files, errs) := loadRec fs (fs.length + 1) [] root
  let errs := errs ++ (if files.any hasModelError then [.model] else [])
  if errs.isEmpty then .ok (files.map (fun es => es.flatMap entryDirs)) else .error errs

end Knut.Pipeline
