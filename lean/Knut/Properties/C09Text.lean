import Knut.Proofs.PrintParseTx
/-!
# C09 (text level) — what `journal.Print` writes is read back by the loader as the same directive

`loadText path bytes` (`Model/FromSyntax.lean`) is the parser model (C07) followed by the elaboration of every
directive (`time.Parse`, `decimal.NewFromString`, the account registry, `transaction.Create`);
`printOpen`/`printClose`/`printPrice`/`printAssertions` are the printer model (`Model/JournalPrinter.lean`).
`strBytes s` is the UTF-8 encoding of the Lean string `s` (`strBytes_toUTF8 : s.toUTF8.data.toList = strBytes s`).

Proved here, for EVERY printable directive (no bound on sizes, any Unicode letters/digits in names):
a printed `open`, `close`, `price`, single- or multi-balance `balance` directive loads back to exactly that
directive. `Printable…` are decidable and state what the real scanner needs:
* dates 0001-01-01 … 9999-12-31 (`PrintableDate`);
* accounts: first segment an account type, every segment non-empty and of `unicode.IsLetter/IsDigit` characters
  (`PrintableAccount`); commodities likewise one non-empty run (`okName`);
* amounts: decimal rationals (`PrintableQty`: the denominator divides a power of ten), as `String()` prints exactly those;
* assertions: at least one balance (the printer writes `balance` and nothing else for an empty list, which does not parse).

`C09_text_items` is the engine for whole files: a text that is a rendering of *items* (directives in canonical layout,
comment and blank lines) parses, and loads to the elaboration of the items' field views, in order.

`C09_text_transaction`: a printed transaction (any padding, with or without `@performance` targets, any Unicode
description without `"`) loads back to exactly that transaction, provided it is in the booking normal form of
`C09_booking_normal_form` (its posting list is what the printed bookings rebuild; negative bookings are thereby
covered: the printer writes the swapped accounts and the positive amount). The printer's `"`→`'` replacement
(`JournalPrinter.descText`, character-wise as Go's `strings.ReplaceAll` on one ASCII byte) is the identity on such a
description (`descText_id`); `PrintableTx` is decidable.

Not proved (see `DESIGN_C09Text.md`): the lift to `JournalPrinter.print` of whole journals
(`C09_text_journal_fixpoint` below is stated, not proved).
-/
namespace Knut.C09
open Knut Knut.FromSyntax Knut.JournalPrinter Knut.Utf8 Knut.Syntax

/-- `open` -/
theorem C09_text_open (path : String) (o : Open) (hd : PrintableDate o.date) (ha : PrintableAccount o.account = true) :
    loadText path (strBytes (printOpen o)) = .ok [.opening o] := load_open path o hd ha

/-- `close` -/
theorem C09_text_close (path : String) (c : Close) (hd : PrintableDate c.date) (ha : PrintableAccount c.account = true) :
    loadText path (strBytes (printClose c)) = .ok [.closing c] := load_close path c hd ha

/-- `price` -/
theorem C09_text_price (path : String) (p : Price) (hd : PrintableDate p.date) (hc : okName p.commodity = true)
    (hq : PrintableQty p.price) (ht : okName p.target = true) :
    loadText path (strBytes (printPrice p)) = .ok [.price p] := load_price path p hd hc hq ht

/-- `balance`, one balance on the line or several on the following lines, as `printAssertions` writes it -/
theorem C09_text_assertion (path : String) (a : Assertion) (h : PrintableAssertion a) :
    loadText path (strBytes (printAssertions [a])) = .ok [.assertion a] := load_assertion path a h

/-- a transaction as `printTx` writes it, for every padding -/
theorem C09_text_transaction (pad : Nat) (path : String) (t : Transaction) (h : PrintableTx t) :
    loadText path (strBytes (printTx pad t)) = .ok [.tx t] := load_tx pad path t h

/-- the engine for whole files: a rendering of items parses and loads to the elaboration of the items' views -/
theorem C09_text_items (padding : Nat) (path : String) (items : List Syntax.Item) (h : ItemsShape items) :
    loadText path (flat (outToks padding items)) =
      (match (viewsOf items).mapM (fun v => itemV v.bytes) with
       | none => .error
       | some its => loadItems its) := loadText_rendered padding path items h

/-- the scanner sees a Lean string as its characters, for every string (UTF-8 decoding inverts `String.utf8EncodeChar`) -/
theorem C09_text_decode (s : String) : decodeAll (strBytes s) = s.toList.map charTok := decodeAll_strBytes s

/-- the bytes `loadText` gets from the driver are `strBytes` -/
theorem C09_text_bytes (s : String) : s.toUTF8.data.toList = strBytes s := strBytes_toUTF8 s

/-
NOT PROVED — the full statement of the text-level clause of C09, kept here verbatim:

theorem C09_text_journal_fixpoint (path : String) (j : List Day)
    (h : ∀ d ∈ j, PrintableDay d)   -- all directives printable, transactions in booking normal form, days sorted and non-empty
    : ∃ ds, loadText path (strBytes (print j)) = .ok ds ∧
        ds = j.flatMap (fun d => d.prices.map .price ++ d.openings.map .opening ++ (sortTxs d.transactions).map .tx ++
                                d.assertions.map .assertion ++ d.closings.map .closing) ∧
        print (Builder.ofList ds).build = print j

Missing: (1) [done: `C09_text_transaction`]; (2) `print j` as a rendering of items
(per day: directives followed by line breaks and blank lines) to feed `C09_text_items`; (3) `Builder.ofList` of the
loaded directives rebuilds the same days.
-/

/-! ## Non-vacuity -/

example : PrintableAccount ⟨["Assets", "Bank", "Ünïcode7"]⟩ = true := by decide +kernel
example : PrintableAccount ⟨["Bank"]⟩ = false := by decide +kernel
example : PrintableAccount ⟨["Assets", "a b"]⟩ = false := by decide +kernel
example : PrintableQty (mkRat (-5) 4) := by decide
example : ¬ PrintableQty (mkRat 1 3) := by decide
example : PrintableDate 737424 := by decide

example : printOpen ⟨737424, ⟨["Assets", "Bank"]⟩⟩ = "2020-01-01 open Assets:Bank" := by decide

/-- a concrete instance of each theorem -/
example : loadText "j" (strBytes (printOpen ⟨737424, ⟨["Assets", "Bänk"]⟩⟩)) = .ok [.opening ⟨737424, ⟨["Assets", "Bänk"]⟩⟩] :=
  C09_text_open _ _ (by decide) (by decide +kernel)

example : loadText "j" (strBytes (printPrice ⟨737424, "AAPL", mkRat 12345 100, "USD"⟩)) =
    .ok [.price ⟨737424, "AAPL", mkRat 12345 100, "USD"⟩] :=
  C09_text_price _ _ (by decide) (by decide +kernel) (by decide) (by decide +kernel)

example : loadText "j" (strBytes (printAssertions [⟨737424, [⟨⟨["Assets", "A"]⟩, mkRat (-5) 2, "CHF"⟩, ⟨⟨["Liabilities", "B"]⟩, 0, "USD"⟩]⟩])) =
    .ok [.assertion ⟨737424, [⟨⟨["Assets", "A"]⟩, mkRat (-5) 2, "CHF"⟩, ⟨⟨["Liabilities", "B"]⟩, 0, "USD"⟩]⟩] :=
  C09_text_assertion _ _ ⟨by decide, by simp, by
    intro b hb
    simp only [List.mem_cons, List.not_mem_nil, or_false] at hb
    rcases hb with rfl | rfl
    · exact ⟨by decide +kernel, by decide, by decide +kernel⟩
    · exact ⟨by decide +kernel, by decide, by decide +kernel⟩⟩

/-- a transaction with a Unicode description, `@performance` targets and a negative booking (printed swapped, as 12.5) -/
def exTx : Transaction :=
  { date := 737424, description := "Café – Miete",
    postings := postingBuild ⟨["Assets", "Bank"]⟩ ⟨["Expenses", "Wohnen"]⟩ "CHF" (mkRat (-25) 2),
    targets := some ["USD", "CHF"] }

example : PrintableTx exTx := by decide +kernel

example : loadText "j" (strBytes (printTx 14 exTx)) = .ok [.tx exTx] :=
  C09_text_transaction 14 "j" exTx (by decide +kernel)

end Knut.C09
