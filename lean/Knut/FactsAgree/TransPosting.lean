import Knut.Generated.TransTransaction
import Knut.FactsAgree.TransAccount
import Knut.Model.Accrual
/-!
# The translated `lib/model/posting` agrees with the model
(`Builder.Build`: the sign swap; `Builders.Build`; `Compare`)
-/
namespace Knut.FactsAgree.TransPosting
open Knut Knut.GoSem Knut.JournalPrinter
open Knut.Generated.Go
open Knut.FactsAgree.TransAccount

def commodityGo (cur : String → Bool) (c : Knut.Commodity) : commodity.Commodity := { name := c, IsCurrency := cur c }

def postingGo (cur : String → Bool) (src : Ref) (p : Knut.Posting) : posting.Posting :=
  { Src := src, Quantity := p.quantity, Value := p.value, Account := accountGo p.account, Other := accountGo p.other,
    Commodity := commodityGo cur p.commodity }

theorem compare_Decimal_agrees (a b : Rat) : compare.Decimal a b = ordGo (cmpRat a b) := by
  unfold compare.Decimal cmpRat
  by_cases h1 : a = b
  · subst h1; simp [ordGo, Rat.lt_irrefl]
  · by_cases h2 : a < b
    · simp [h1, h2, ordGo]
    · have h3 : b < a := Rat.lt_of_le_of_ne (Rat.not_lt.mp h2) (fun e => h1 e.symm)
      simp [h1, h2, h3, ordGo]

/-- `posting.Builder.Build`: the sign swap and the two mirrored postings (both carry the builder's `Src`) -/
theorem Builder_Build_agrees (cur : String → Bool) (src : Ref) (credit debit : Knut.Account) (c : Knut.Commodity) (q v : Rat) :
    posting.Builder.Build ⟨src, q, v, accountGo credit, accountGo debit, commodityGo cur c⟩
      = (postingBuild credit debit c q v).map (postingGo cur src) := by
  unfold posting.Builder.Build postingBuild
  by_cases h : (decide (q < 0) || (decide (q = 0) && decide (v < 0))) = true
  · simp [h, postingGo]
  · simp [h, postingGo]

theorem posting_Compare_agrees (cur : String → Bool) (s1 s2 : Ref) (p q : Knut.Posting) :
    posting.Compare (postingGo cur s1 p) (postingGo cur s2 q) = ordGo (cmpPosting p q) := by
  unfold posting.Compare cmpPosting
  simp only [postingGo, account_Compare_agrees, compare_Decimal_agrees, commodityGo, commodity.Commodity.Name,
    cmpOrdered_string, ordGo_then, cmpStr]
  by_cases h1 : cmpAccount p.account q.account = .eq <;> by_cases h2 : cmpAccount p.other q.other = .eq <;>
    by_cases h3 : cmpRat p.quantity q.quantity = .eq <;> by_cases h4 : cmpRat p.value q.value = .eq <;>
    simp [h1, h2, h3, h4]

/-- a booking of the model as `posting.Builder` (`Value` is not set by `posting.Create`) -/
def builderGo (cur : String → Bool) (src : Ref) (b : Accrual.Booking) : posting.Builder :=
  ⟨src, b.quantity, 0, accountGo b.credit, accountGo b.debit, commodityGo cur b.commodity⟩

/-- `posting.Builders.Build`: the pairs of all bookings in order (`Accrual.postingsOf`) -/
theorem Builders_Build_agrees (cur : String → Bool) (src : Ref) (bs : List Accrual.Booking) :
    posting.Builders.Build (bs.map (builderGo cur src)) = (Accrual.postingsOf bs).map (postingGo cur src) := by
  unfold posting.Builders.Build Accrual.postingsOf
  simp only [foldl_append_flat (fun el : posting.Builder => posting.Builder.Build el), List.nil_append, List.flatMap_map,
    List.map_flatMap]
  congr 1
  funext b
  exact Builder_Build_agrees cur src b.credit b.debit b.commodity b.quantity 0

/-- non-vacuity: a negative booking is swapped -/
example : (posting.Builder.Build ⟨⟨7⟩, -5, 0, accountGo ⟨["Assets", "A"]⟩, accountGo ⟨["Expenses", "B"]⟩, ⟨"CHF", false⟩⟩).map
    (fun p => (p.Account.name, p.Quantity, p.Src.id)) = [("Expenses:B", -5, 7), ("Assets:A", 5, 7)] := by decide +kernel

end Knut.FactsAgree.TransPosting
