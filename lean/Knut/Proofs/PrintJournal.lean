import Knut.Proofs.PrintParseTx
/-!
# `journal.Print` of a whole journal is a rendering of items, and loads back to its directives (C09)

Per day the printer writes the prices, the openings, the sorted transactions, the assertions and the closings, each
directive followed by a line break, with blank lines between the groups. At token level this is `outToks` of a list of
items (`dayItems`): one `dir` item per directive (its field view `dirView`, no trailing blanks, one line break) and `gap`
items for the blank lines. `loadText_rendered` then gives the directives back, in print order (`dayDirs`).
-/
namespace Knut.FromSyntax
open Knut Knut.Syntax Knut.Utf8 Knut.Dec Knut.JournalPrinter
set_option linter.unusedVariables false

instance (b : Balance) : Decidable (PrintableBalance b) := by unfold PrintableBalance; exact inferInstance
instance (a : Assertion) : Decidable (PrintableAssertion a) := by unfold PrintableAssertion; exact inferInstance

/-- a directive `journal.Print` writes such that the loader reads it back unchanged -/
def PrintableDir : Directive → Prop
  | .price p => PrintableDate p.date ∧ okName p.commodity = true ∧ PrintableQty p.price ∧ okName p.target = true
  | .opening o => PrintableDate o.date ∧ PrintableAccount o.account = true
  | .closing c => PrintableDate c.date ∧ PrintableAccount c.account = true
  | .assertion a => PrintableAssertion a
  | .tx t => PrintableTx t

instance (x : Directive) : Decidable (PrintableDir x) := by
  cases x <;> unfold PrintableDir <;> exact inferInstance

/-- the field view of a printed directive -/
def dirView : Directive → DirT
  | .price p => .price (dateT p.date) (strToks p.commodity) (strToks (showDec p.price)) (strToks p.target)
  | .opening o => .open (dateT o.date) (strToks o.account.name)
  | .closing c => .close (dateT c.date) (strToks c.account.name)
  | .assertion a => .assertion (dateT a.date) (a.balances.map balanceT)
  | .tx t => .transaction none (t.targets.map (·.map strToks)) (dateT t.date) (strToks t.description)
      ((everyOther t.postings).map bookingT)

/-- what the elaboration makes of the field view -/
def itemOf : Directive → Item
  | .price p => .price p
  | .opening o => .opening o
  | .closing c => .closing c
  | .assertion a => .assertion a
  | .tx t => .tx (txInput t)

theorem dirView_ok (x : Directive) (h : PrintableDir x) : (dirView x).ok ∧ (dirView x).canon := by
  cases x with
  | price p =>
    obtain ⟨hd, hc, hq, ht⟩ := h
    exact ⟨⟨dateOK _ hd.1 hd.2, commodityOK_of_okName hc, decimalOK_showDec _, commodityOK_of_okName ht⟩,
      ⟨canon_charsToks _, canon_charsToks _, canon_charsToks _, canon_charsToks _⟩⟩
  | opening o =>
    obtain ⟨hd, ha⟩ := h
    exact ⟨⟨dateOK _ hd.1 hd.2, accountOK_name _ ha⟩, ⟨canon_charsToks _, canon_charsToks _⟩⟩
  | closing o =>
    obtain ⟨hd, ha⟩ := h
    exact ⟨⟨dateOK _ hd.1 hd.2, accountOK_name _ ha⟩, ⟨canon_charsToks _, canon_charsToks _⟩⟩
  | assertion a =>
    obtain ⟨hd, hne, hb⟩ := h
    refine ⟨⟨dateOK _ hd.1 hd.2, by simpa using hne, ?_⟩, ⟨canon_charsToks _, ?_⟩⟩
    · intro x hx
      simp only [List.mem_map] at hx
      obtain ⟨b, hbm, rfl⟩ := hx
      exact (balanceT_ok b (hb b hbm)).1
    · intro x hx
      simp only [List.mem_map] at hx
      obtain ⟨b, hbm, rfl⟩ := hx
      exact (balanceT_ok b (hb b hbm)).2
  | tx t =>
    obtain ⟨hd, hq, hne, hps, hnf, htg'⟩ := h
    have htg : ∀ tg, t.targets = some tg → ∀ c ∈ tg, okName c = true := fun tg e c hc => htg' c (by rw [e]; exact hc)
    refine ⟨⟨(by intro a ha; cases ha), ?_, dateOK _ hd.1 hd.2, contentOK_desc _ hq, (by simpa using hne), ?_⟩,
      ⟨(by intro a ha; cases ha), ?_, canon_charsToks _, canon_charsToks _, ?_⟩⟩
    · intro ts hts x hx
      cases htar : t.targets with
      | none => rw [htar] at hts; cases hts
      | some tg =>
        rw [htar] at hts
        simp only [Option.map_some, Option.some.injEq] at hts
        subst hts
        simp only [List.mem_map] at hx
        obtain ⟨c, hc, rfl⟩ := hx
        exact commodityOK_of_okName (htg tg htar c hc)
    · intro x hx
      simp only [List.mem_map] at hx
      obtain ⟨p, hp, rfl⟩ := hx
      exact (bookingT_ok p (hps p hp)).1
    · intro ts hts x hx
      cases htar : t.targets with
      | none => rw [htar] at hts; cases hts
      | some tg =>
        rw [htar] at hts
        simp only [Option.map_some, Option.some.injEq] at hts
        subst hts
        simp only [List.mem_map] at hx
        obtain ⟨c, hc, rfl⟩ := hx
        exact canon_charsToks _
    · intro x hx
      simp only [List.mem_map] at hx
      obtain ⟨p, hp, rfl⟩ := hx
      exact (bookingT_ok p (hps p hp)).2

theorem itemV_dirView (x : Directive) (h : PrintableDir x) : itemV (dirView x).bytes = some (itemOf x) := by
  cases x with
  | price p =>
    obtain ⟨hd, hc, hq, ht⟩ := h
    simp [dirView, itemOf, itemV, DirT.bytes, dateT, parseDate_fmtDate _ hd.1 hd.2, utf8_str, decimalV_showDec _ _ hq]
  | opening o =>
    obtain ⟨hd, ha⟩ := h
    simp [dirView, itemOf, itemV, DirT.bytes, accountV_name _ ha, dateT, parseDate_fmtDate _ hd.1 hd.2]
  | closing o =>
    obtain ⟨hd, ha⟩ := h
    simp [dirView, itemOf, itemV, DirT.bytes, accountV_name _ ha, dateT, parseDate_fmtDate _ hd.1 hd.2]
  | assertion a =>
    obtain ⟨hd, hne, hb⟩ := h
    simp only [dirView, itemOf, itemV, DirT.bytes, dateT, parseDate_fmtDate _ hd.1 hd.2, Option.bind_eq_bind, Option.bind_some,
      List.map_map]
    have := mapM_balanceV a.balances hb
    simp only [Function.comp_def] at this ⊢
    rw [this]
    rfl
  | tx t =>
    obtain ⟨hd, hq, hne, hps, hnf, htg'⟩ := h
    simp only [dirView, itemOf, txInput, itemV, DirT.bytes, dateT, parseDate_fmtDate _ hd.1 hd.2, utf8_str, Option.bind_eq_bind,
      Option.bind_some, List.map_map, Option.map_none]
    have hb := mapM_bookingV (everyOther t.postings) hps
    simp only [Function.comp_def] at hb ⊢
    rw [hb]
    cases htar : t.targets with
    | none => rfl
    | some tg =>
      simp only [Option.map_some, List.map_map, Function.comp_def, mapM_utf8_strToks tg, Option.bind_some]
      rfl

/-! ### the text of one directive with its line break -/

/-- the tokens of a printed directive and its line break -/
def dirToks (pad : Nat) (x : Directive) : List Tok := renderT pad (dirView x) ++ [tk 10]

theorem nl_toks : strToks "\n" = [tk 10] := by rw [strToks_lit "\n" (by decide)]; rfl

theorem toks_price (pad : Nat) (p : Price) : strToks (printPrice p ++ "\n") = dirToks pad (.price p) := by
  simp only [printPrice, strToks_append, strToks_fmtDate, renderT, dirToks, dirView, nl_toks]
  rw [strToks_lit " price " (by decide), strToks_lit " " (by decide)]
  simp [lits, List.append_assoc]

theorem toks_open (pad : Nat) (o : Open) : strToks (printOpen o ++ "\n") = dirToks pad (.opening o) := by
  simp only [printOpen, strToks_append, strToks_fmtDate, renderT, dirToks, dirView, nl_toks]
  rw [strToks_lit " open " (by decide)]

theorem toks_close (pad : Nat) (o : Close) : strToks (printClose o ++ "\n") = dirToks pad (.closing o) := by
  simp only [printClose, strToks_append, strToks_fmtDate, renderT, dirToks, dirView, nl_toks]
  rw [strToks_lit " close " (by decide)]

theorem toks_tx (pad : Nat) (t : Transaction) (hq : '"' ∉ t.description.toList) :
    strToks (printTx pad t ++ "\n") = dirToks pad (.tx t) := by
  have hrep := descText_id _ hq
  unfold printTx
  rw [hrep]
  simp only [strToks_append, strToks_fmtDate, strToks_postings, renderT, dirToks, dirView, nl_toks]
  rw [strToks_lit " \"" (by decide), strToks_lit "\"\n" (by decide)]
  cases htar : t.targets with
  | none => simp [lits, strToks, charsToks]
  | some tg =>
    simp only [Option.map_some, strToks_append, strToks_targets, renderPerformanceT]
    rw [strToks_lit "@performance(" (by decide), strToks_lit ")\n" (by decide)]
    have l1 : lits "@performance(" = lits "@performance" ++ [tk 40] := by decide
    rw [l1]
    simp [lits, List.append_assoc]

/-- a single-balance assertion ends its line; a multi-balance assertion already ends with the line break of its last
balance -/
theorem toks_assertion (pad : Nat) (a : Assertion) (hne : a.balances ≠ []) :
    strToks (printAssertion a ++ "\n") =
      renderT pad (dirView (.assertion a)) ++ (if a.balances.length = 1 then [tk 10] else []) := by
  simp only [printAssertion, dirView]
  match hbs : a.balances, hne with
  | [b], _ =>
    have : " " ++ b.account.name ++ " " ++ showDec b.quantity ++ " " ++ b.commodity =
        " " ++ (b.account.name ++ " " ++ showDec b.quantity ++ " " ++ b.commodity) := by simp [String.append_assoc]
    simp only [this, List.length_cons, List.length_nil, if_true, List.map_cons, List.map_nil]
    simp only [strToks_append, strToks_fmtDate, renderT, nl_toks]
    rw [strToks_lit " balance" (by decide), strToks_lit " " (by decide)]
    have l1 : lits " balance " = lits " balance" ++ lits " " := by decide
    rw [l1]
    simp [lits, List.append_assoc, renderBalanceT, balanceT]
  | b1 :: b2 :: rest, _ =>
    have hl : ¬ ((b1 :: b2 :: rest).length = 1) := by simp
    simp only [hl, if_false, List.append_nil]
    rw [String.append_assoc, strToks_append, strToks_join_balances, strToks_append, strToks_fmtDate,
      strToks_lit " balance" (by decide)]
    simp [renderT]

/-! ### items -/

/-- a printed directive as an item of the main loop: its field view, no trailing blanks, one line break -/
def dirItem (x : Directive) : Syntax.Item := .dir [] default (dirView x) [] [tk 10]
/-- a blank line -/
def blankItem : Syntax.Item := .gap [] [] [tk 10]

/-- the items the journal printer produces -/
def GoodItem : Syntax.Item → Prop
  | .gap c w nl => c = [] ∧ w = [] ∧ nl = [tk 10]
  | .dir _ _ v w nl => v.ok ∧ v.canon ∧ w = [] ∧ nl = [tk 10]

theorem itemsShape_of_good : ∀ (items : List Syntax.Item), (∀ i ∈ items, GoodItem i) → ItemsShape items
  | [], _ => by unfold ItemsShape; trivial
  | .gap c w nl :: rest, h => by
    obtain ⟨rfl, rfl, rfl⟩ := h _ List.mem_cons_self
    unfold ItemsShape
    exact ⟨Or.inl rfl, fun _ => rfl, All.nil, Or.inr ⟨tk 10, rfl, rfl⟩, Valid.cons (tk_valid (by decide)) Valid.nil,
      Canon.cons c10 Canon.nil, by simp, (fun e => by cases e),
      itemsShape_of_good rest (fun i hi => h i (List.mem_cons_of_mem _ hi))⟩
  | .dir D d v w nl :: rest, h => by
    obtain ⟨hok, hcan, rfl, rfl⟩ := h _ List.mem_cons_self
    unfold ItemsShape
    exact ⟨hok, hcan, All.nil, Or.inr ⟨tk 10, rfl, rfl⟩, Valid.cons (tk_valid (by decide)) Valid.nil,
      Canon.cons c10 Canon.nil, (fun e => by cases e),
      itemsShape_of_good rest (fun i hi => h i (List.mem_cons_of_mem _ hi))⟩

theorem good_dirItem (x : Directive) (h : PrintableDir x) : GoodItem (dirItem x) :=
  ⟨(dirView_ok x h).1, (dirView_ok x h).2, rfl, rfl⟩

theorem good_blank : GoodItem blankItem := ⟨rfl, rfl, rfl⟩

theorem outToks_append (pad : Nat) (a b : List Syntax.Item) : outToks pad (a ++ b) = outToks pad a ++ outToks pad b := by
  induction a with
  | nil => rfl
  | cons i rest ih => simp [outToks, ih, List.append_assoc]

theorem viewsOf_append (a b : List Syntax.Item) : viewsOf (a ++ b) = viewsOf a ++ viewsOf b := by
  induction a with
  | nil => rfl
  | cons i rest ih => cases i <;> simp [viewsOf, ih]

theorem outToks_dirItems (pad : Nat) (xs : List Directive) : outToks pad (xs.map dirItem) = xs.flatMap (dirToks pad) := by
  induction xs with
  | nil => rfl
  | cons x rest ih => simp [outToks, Item.out, dirItem, dirToks, ih]

theorem viewsOf_dirItems (xs : List Directive) : viewsOf (xs.map dirItem) = xs.map dirView := by
  induction xs with
  | nil => rfl
  | cons x rest ih => simp [viewsOf, dirItem, ih]

theorem viewsOf_dirItems' {α : Type} (g : α → Directive) (l : List α) :
    viewsOf (l.map (fun a => dirItem (g a))) = l.map (fun a => dirView (g a)) := by
  induction l with
  | nil => rfl
  | cons x rest ih => rw [List.map_cons, List.map_cons, ← ih]; rfl

theorem outToks_blank (pad : Nat) : outToks pad [blankItem] = [tk 10] := by simp [outToks, Item.out, blankItem]
theorem viewsOf_blank : viewsOf [blankItem] = [] := rfl

theorem join_cons (a : String) (l : List String) : String.join (a :: l) = a ++ String.join l := by
  apply String.ext
  simp [String.toList_join, String.toList_append]

/-- a group of directives, one per line -/
theorem toks_group {α : Type} (pad : Nat) (f : α → String) (g : α → Directive) (l : List α)
    (h : ∀ a ∈ l, strToks (f a) = dirToks pad (g a)) :
    strToks (String.join (l.map f)) = outToks pad (l.map (fun a => dirItem (g a))) := by
  induction l with
  | nil => rfl
  | cons a rest ih =>
    rw [List.map_cons, join_cons, strToks_append, h a List.mem_cons_self, ih (fun x hx => h x (List.mem_cons_of_mem _ hx))]
    simp [outToks, Item.out, dirItem, dirToks]

/-- the blank line after a non-empty group -/
def sepItems {α : Type} (l : List α) : List Syntax.Item := if l.isEmpty then [] else [blankItem]

theorem toks_sep {α : Type} (pad : Nat) (l : List α) :
    strToks (if l.isEmpty then "" else "\n") = outToks pad (sepItems l) := by
  unfold sepItems
  split
  · rfl
  · rw [nl_toks, outToks_blank]

theorem viewsOf_sep {α : Type} (l : List α) : viewsOf (sepItems l) = [] := by
  unfold sepItems; split <;> rfl

theorem good_sep {α : Type} (l : List α) : ∀ i ∈ sepItems l, GoodItem i := by
  unfold sepItems
  split
  · intro i hi; cases hi
  · intro i hi
    simp only [List.mem_cons, List.not_mem_nil, or_false] at hi
    subst hi; exact good_blank

/-- the assertions of a day and the blank line that follows them: a multi-balance assertion is closed by the blank
line, a single-balance assertion by its own line break -/
def assertItems : List Assertion → List Syntax.Item
  | [] => []
  | [a] => if a.balances.length = 1 then [dirItem (.assertion a), blankItem] else [dirItem (.assertion a)]
  | a :: b :: rest => dirItem (.assertion a) :: assertItems (b :: rest)

theorem toks_assertions (pad : Nat) : ∀ (l : List Assertion), (∀ a ∈ l, a.balances ≠ []) →
    strToks (printAssertions l ++ (if l.isEmpty then "" else "\n")) = outToks pad (assertItems l)
  | [], _ => rfl
  | [a], h => by
    have := toks_assertion pad a (h a List.mem_cons_self)
    simp only [printAssertions, List.isEmpty_cons, Bool.false_eq_true, if_false, assertItems]
    rw [strToks_append, this, nl_toks]
    split <;> simp [outToks, Item.out, dirItem, blankItem]
  | a :: b :: rest, h => by
    have := toks_assertion pad a (h a List.mem_cons_self)
    have ih := toks_assertions pad (b :: rest) (fun x hx => h x (List.mem_cons_of_mem _ hx))
    simp only [List.isEmpty_cons, Bool.false_eq_true, if_false] at ih ⊢
    simp only [printAssertions, assertItems]
    have e : printAssertion a ++ "\n" ++ (if (a.balances.length != 1) = true then "\n" else "") ++ printAssertions (b :: rest) ++ "\n" =
        (printAssertion a ++ "\n") ++ ((if (a.balances.length != 1) = true then "\n" else "") ++ (printAssertions (b :: rest) ++ "\n")) := by
      simp [String.append_assoc]
    rw [e, strToks_append (printAssertion a ++ "\n") _, strToks_append _ (printAssertions (b :: rest) ++ "\n"), ih, this]
    by_cases h1 : a.balances.length = 1
    · simp [h1, outToks, Item.out, dirItem, strToks, charsToks]
    · simp [h1, outToks, Item.out, dirItem, nl_toks]

theorem viewsOf_assertItems : ∀ (l : List Assertion), viewsOf (assertItems l) = l.map (fun a => dirView (.assertion a))
  | [] => rfl
  | [a] => by unfold assertItems; split <;> rfl
  | a :: b :: rest => by
    have ih := viewsOf_assertItems (b :: rest)
    simp only [assertItems, dirItem, viewsOf, List.map_cons] at ih ⊢
    rw [ih]

theorem good_assertItems : ∀ (l : List Assertion), (∀ a ∈ l, PrintableDir (.assertion a)) → ∀ i ∈ assertItems l, GoodItem i
  | [], _ => by intro i hi; cases hi
  | [a], h => by
    intro i hi
    unfold assertItems at hi
    split at hi
    · simp only [List.mem_cons, List.not_mem_nil, or_false] at hi
      rcases hi with rfl | rfl
      · exact good_dirItem _ (h a List.mem_cons_self)
      · exact good_blank
    · simp only [List.mem_cons, List.not_mem_nil, or_false] at hi
      subst hi; exact good_dirItem _ (h a List.mem_cons_self)
  | a :: b :: rest, h => by
    intro i hi
    simp only [assertItems, List.mem_cons] at hi
    rcases hi with rfl | hi
    · exact good_dirItem _ (h a List.mem_cons_self)
    · exact good_assertItems (b :: rest) (fun x hx => h x (List.mem_cons_of_mem _ hx)) i hi

/-! ### one day -/

/-- the directives of a day in the order `journal.Print` writes them -/
def dayDirs (d : Day) : List Directive :=
  d.prices.map .price ++ d.openings.map .opening ++ (sortTxs d.transactions).map .tx ++
    d.assertions.map .assertion ++ d.closings.map .closing

def dayItems (d : Day) : List Syntax.Item :=
  d.prices.map (fun p => dirItem (.price p)) ++ (sepItems d.prices ++
  (d.openings.map (fun o => dirItem (.opening o)) ++ (sepItems d.openings ++
  ((sortTxs d.transactions).map (fun t => dirItem (.tx t)) ++
  (assertItems d.assertions ++
  (d.closings.map (fun c => dirItem (.closing c)) ++ sepItems d.closings))))))

theorem mem_dayDirs (d : Day) (x : Directive) : x ∈ dayDirs d ↔
    (∃ p ∈ d.prices, x = .price p) ∨ (∃ o ∈ d.openings, x = .opening o) ∨ (∃ t ∈ d.transactions, x = .tx t) ∨
    (∃ a ∈ d.assertions, x = .assertion a) ∨ (∃ c ∈ d.closings, x = .closing c) := by
  simp only [dayDirs, List.mem_append, List.mem_map, sortTxs, List.mem_mergeSort, or_assoc, eq_comm]

theorem toks_day (pad : Nat) (d : Day) (h : ∀ x ∈ dayDirs d, PrintableDir x) :
    strToks (printDay pad d) = outToks pad (dayItems d) := by
  have e : printDay pad d =
      String.join (d.prices.map (fun p => printPrice p ++ "\n")) ++ ((if d.prices.isEmpty then "" else "\n") ++
      (String.join (d.openings.map (fun o => printOpen o ++ "\n")) ++ ((if d.openings.isEmpty then "" else "\n") ++
      (String.join ((sortTxs d.transactions).map (fun t => printTx pad t ++ "\n")) ++
      ((printAssertions d.assertions ++ (if d.assertions.isEmpty then "" else "\n")) ++
      (String.join (d.closings.map (fun c => printClose c ++ "\n")) ++ (if d.closings.isEmpty then "" else "\n"))))))) := by
    simp only [printDay, String.append_assoc]
  have hne : ∀ a ∈ d.assertions, a.balances ≠ [] := fun a ha =>
    (h (.assertion a) ((mem_dayDirs d _).mpr (Or.inr (Or.inr (Or.inr (Or.inl ⟨a, ha, rfl⟩)))))).2.1
  have hq : ∀ t ∈ sortTxs d.transactions, '"' ∉ t.description.toList := fun t ht =>
    (h (.tx t) ((mem_dayDirs d _).mpr (Or.inr (Or.inr (Or.inl ⟨t, by simpa [sortTxs] using ht, rfl⟩))))).2.1
  rw [e]
  simp only [strToks_append, dayItems, outToks_append]
  rw [toks_group pad _ Directive.price d.prices (fun p _ => toks_price pad p),
    toks_group pad _ Directive.opening d.openings (fun p _ => toks_open pad p),
    toks_group pad _ Directive.closing d.closings (fun p _ => toks_close pad p),
    toks_group pad _ Directive.tx (sortTxs d.transactions) (fun t ht => toks_tx pad t (hq t ht)),
    toks_sep pad d.prices, toks_sep pad d.openings, toks_sep pad d.closings]
  have := toks_assertions pad d.assertions hne
  rw [strToks_append] at this
  rw [← this]

theorem viewsOf_dayItems (d : Day) : viewsOf (dayItems d) = (dayDirs d).map dirView := by
  simp only [dayItems, dayDirs, viewsOf_append, viewsOf_sep, viewsOf_assertItems, List.map_append, List.map_map,
    List.append_nil, List.append_assoc]
  simp only [viewsOf_dirItems', List.nil_append]
  rfl

theorem good_dayItems (d : Day) (h : ∀ x ∈ dayDirs d, PrintableDir x) : ∀ i ∈ dayItems d, GoodItem i := by
  intro i hi
  have hm := fun x => (mem_dayDirs d x).mpr
  simp only [dayItems, List.mem_append, List.mem_map] at hi
  rcases hi with ⟨p, hp, rfl⟩ | hi | ⟨o, ho, rfl⟩ | hi | ⟨t, ht, rfl⟩ | hi | ⟨c, hc, rfl⟩ | hi
  · exact good_dirItem _ (h _ (hm _ (Or.inl ⟨p, hp, rfl⟩)))
  · exact good_sep _ i hi
  · exact good_dirItem _ (h _ (hm _ (Or.inr (Or.inl ⟨o, ho, rfl⟩))))
  · exact good_sep _ i hi
  · exact good_dirItem _ (h _ (hm _ (Or.inr (Or.inr (Or.inl ⟨t, by simpa [sortTxs] using ht, rfl⟩)))))
  · exact good_assertItems _ (fun a ha => h _ (hm _ (Or.inr (Or.inr (Or.inr (Or.inl ⟨a, ha, rfl⟩)))))) i hi
  · exact good_dirItem _ (h _ (hm _ (Or.inr (Or.inr (Or.inr (Or.inr ⟨c, hc, rfl⟩))))))
  · exact good_sep _ i hi

/-! ### the whole journal -/

theorem toks_join (l : List String) : strToks (String.join l) = (l.map strToks).flatten := by
  induction l with
  | nil => rfl
  | cons a rest ih => rw [join_cons, strToks_append, ih]; rfl

theorem outToks_flatMap {α : Type} (pad : Nat) (f : α → List Syntax.Item) (l : List α) :
    outToks pad (l.flatMap f) = (l.map (fun a => outToks pad (f a))).flatten := by
  induction l with
  | nil => rfl
  | cons a rest ih => simp [List.flatMap_cons, outToks_append, ih]

theorem viewsOf_flatMap {α : Type} (f : α → List Syntax.Item) (l : List α) :
    viewsOf (l.flatMap f) = l.flatMap (fun a => viewsOf (f a)) := by
  induction l with
  | nil => rfl
  | cons a rest ih => simp [List.flatMap_cons, viewsOf_append, ih]

/-- the directives `journal.Print` writes, in its order -/
def journalDirs (j : List Day) : List Directive := j.flatMap dayDirs

theorem toks_print (j : List Day) (h : ∀ x ∈ journalDirs j, PrintableDir x) :
    strToks (print j) = outToks (padding j) (j.flatMap dayItems) := by
  unfold print
  rw [toks_join, outToks_flatMap, List.map_map]
  congr 1
  apply List.map_congr_left
  intro d hd
  exact toks_day _ d (fun x hx => h x (List.mem_flatMap.mpr ⟨d, hd, hx⟩))

/-! ### elaboration -/

theorem mapM_itemV (xs : List Directive) (h : ∀ x ∈ xs, PrintableDir x) :
    (xs.map dirView).mapM (fun v => itemV v.bytes) = some (xs.map itemOf) := by
  induction xs with
  | nil => rfl
  | cons x rest ih =>
    simp [List.mapM_cons, itemV_dirView x (h x List.mem_cons_self), ih (fun y hy => h y (List.mem_cons_of_mem _ hy))]

/-- `transaction.Create` on the re-read bookings of a printed transaction -/
theorem create_txInput (t : Transaction) (h : PrintableTx t) : Accrual.create (txInput t) = .ok [t] := by
  obtain ⟨hd, hq, hne, hps, hnf, htg'⟩ := h
  have hwf : ((everyOther t.postings).map bookingOf).all (fun b => b.credit.wf && b.debit.wf) = true := by
    rw [List.all_eq_true]
    intro b hb
    simp only [List.mem_map] at hb
    obtain ⟨p, hp, rfl⟩ := hb
    have h1 := (hps p hp).1
    have h2 := (hps p hp).2.1
    simp only [PrintableAccount, Bool.and_eq_true] at h1 h2
    simp [bookingOf, h1.1, h2.1]
  have hpost : Accrual.postingsOf ((everyOther t.postings).map bookingOf) = t.postings := by
    simp only [Accrual.postingsOf, bookingOf, List.flatMap_map]
    exact hnf.symm
  simp only [txInput, Accrual.create, hwf, Bool.not_true, Bool.false_eq_true, if_false, hpost]

theorem loadItems_go (xs : List Directive) (h : ∀ x ∈ xs, PrintableDir x) (acc : List Directive) :
    loadItems.go (xs.map itemOf) acc = .ok (acc.reverse ++ xs) := by
  induction xs generalizing acc with
  | nil => simp [loadItems.go]
  | cons x rest ih =>
    have ihr := fun acc => ih (fun y hy => h y (List.mem_cons_of_mem _ hy)) acc
    have hx := h x List.mem_cons_self
    cases x with
    | tx t =>
      simp only [List.map_cons, itemOf, loadItems.go, create_txInput t hx]
      rw [ihr]
      simp
    | _ =>
      simp only [List.map_cons, itemOf, loadItems.go]
      rw [ihr]
      simp

/-- **a printed journal loads back to its directives**, in print order -/
theorem load_print (path : String) (j : List Day) (h : ∀ x ∈ journalDirs j, PrintableDir x) :
    loadText path (strBytes (print j)) = .ok (journalDirs j) := by
  have hgood : ∀ i ∈ j.flatMap dayItems, GoodItem i := by
    intro i hi
    obtain ⟨d, hd, hi⟩ := List.mem_flatMap.mp hi
    exact good_dayItems d (fun x hx => h x (List.mem_flatMap.mpr ⟨d, hd, hx⟩)) i hi
  rw [strBytes_eq_flat, toks_print j h, loadText_rendered _ path _ (itemsShape_of_good _ hgood)]
  have hv : viewsOf (j.flatMap dayItems) = (journalDirs j).map dirView := by
    rw [viewsOf_flatMap, journalDirs, List.map_flatMap]
    congr 1
    funext d
    exact viewsOf_dayItems d
  rw [hv, mapM_itemV _ h]
  simp only [loadItems]
  rw [loadItems_go _ h]
  rfl

end Knut.FromSyntax
