import Knut.Proofs.SyntaxRoundTrip
import Knut.Spec.SyntaxFormat
/-!
# The two formalisations of "same fields": typed views (`viewDirective`) and `semFlat` of the untyped tree (C08 glue)

The theorems of C08 speak about the typed field views `viewDirective`; the monitor compares the untyped `semFlat` of
the dumped trees. `semFlat` sees two things a view does not contain: the *kind* of an account node (`account` or
`macroAccount`, from the flag `Account.isMacro`) and whether a transaction has an `addons` node (from
`Range = Range{}` tests, where the view uses `Range.Empty()`).

1. For a tree the parser returned both are functions of the text (`parseText_shape`): an account node is a macro
   iff its text starts with `$`, and an annotation's range is `Range{}` iff it is empty.
2. Hence `semFlat text f.toNode = (views of f).map semFileV` (`semFlat_file`): the monitor's view *is determined by*
   the typed views.
3. `semFileV` is injective (`semFileV_inj`): the monitor's view *determines* the typed views.
-/
namespace Knut.Syntax
open Knut.Utf8 Knut.Spec.Syntax
set_option linter.unusedVariables false

/-! ## 1. What the parser decides from the text -/

/-- the text starts with `$` -/
def isDollar (bs : Bytes) : Bool := bs.head? == some 36

/-- the kind of the account node is decided by the first byte of its text -/
def AccShape (text : Bytes) (a : Account) : Prop :=
  ∀ bs, a.range.extract text = some bs → a.isMacro = isDollar bs

theorem tok_dollar {t : Tok} (hw : t.wf) (hp : 1 ≤ t.bytes.length) : (t.r == 36) = (t.bytes.head? == some 36) := by
  by_cases h : t.r < 128
  · have e := hw.1 h
    rw [e]
    simp only [List.head?_cons]
    by_cases h2 : t.r = 36
    · rw [h2]; decide
    · have : UInt8.ofNat t.r ≠ 36 := by
        intro e2
        have := congrArg UInt8.toNat e2
        simp [UInt8.toNat_ofNat'] at this
        omega
      rw [show (t.r == 36) = false from by simpa using h2, show (some (UInt8.ofNat t.r) == some 36) = false from by simpa using this]
  · have hb := hw.2 (by omega)
    have h2 : t.r ≠ 36 := by omega
    cases hbs : t.bytes with
    | nil => rw [hbs] at hp; simp at hp
    | cons b rest =>
      have := hb b (by rw [hbs]; simp)
      have hb36 : b ≠ 36 := by
        intro e; rw [e] at this; simp at this
      simp only [List.head?_cons]
      rw [show (t.r == 36) = false from by simpa using h2, show (some b == some 36) = false from by simpa using hb36]

theorem parseAccount_cur {s : St} {a : Account} {s' : St} (h : parseAccount s = .ok a s') : a.isMacro = (cur s == 36) := by
  unfold parseAccount at h
  simp only at h
  split at h
  · rename_i hc
    simp only [Res.bind_eq_ok] at h
    obtain ⟨_, s1, g1, _, s2, g2, h⟩ := h
    injection h with h1 _
    rw [← h1, hc]
  · rename_i hc
    simp only [Res.bind_eq_ok] at h
    obtain ⟨_, s1, g1, h⟩ := h
    rw [accountLoop_ok h]
    simpa using hc

theorem parseAccount_shape {text : Bytes} {s : St} {a : Account} {s' : St} (h : parseAccount s = .ok a s')
    (hG : Good text s) : AccShape text a := by
  intro bs hbs
  obtain ⟨m, hm⟩ := parseAccount_ok h
  have hmac := parseAccount_cur h
  obtain ⟨c, hne, hc⟩ := (parseAccount_prog s).of_ok h
  obtain ⟨e, _⟩ := hG.extract hc
  have hr : a.range = ⟨s.off, s'.off⟩ := by rw [hm]
  rw [hr, e] at hbs
  injection hbs with hbs
  subst hbs
  cases c with
  | nil => exact absurd rfl hne
  | cons t c' =>
    have hmem : t ∈ s.toks := by rw [hc.1]; simp
    have hcur : cur s = t.r := by simp [cur, hc.1]
    have hp := hG.pos t hmem
    rw [hmac, hcur, tok_dollar (hG.wf t hmem) hp]
    cases hb : t.bytes with
    | nil => rw [hb] at hp; simp at hp
    | cons b rest => simp [isDollar, flat, hb]

theorem AccShape.zero (text : Bytes) : AccShape text ⟨Range.zero, false⟩ := by
  intro bs hbs
  simp [Range.extract, Range.zero] at hbs
  subst hbs
  rfl

def BookingShape (text : Bytes) (b : Booking) : Prop := AccShape text b.credit ∧ AccShape text b.debit

theorem parseBooking_shape {text : Bytes} {s : St} {b : Booking} {s' : St} (h : parseBooking s = .ok b s')
    (hG : Good text s) : BookingShape text b := by
  unfold parseBooking at h
  simp only [Res.bind_eq_ok] at h
  obtain ⟨cr, s1, h1, _, s2, h2, db, s3, h3, _, s4, h4, q, s5, h5, _, s6, h6, cm, s7, h7, h⟩ := h
  injection h with hb hs
  rw [← hb]
  have G1 := hG.ext (ext_of_ok (parseAccount_prog _).ext h1)
  have G2 := G1.ext (ext_of_ok (readWhile1_ext _ _ _) h2)
  exact ⟨parseAccount_shape h1 hG, parseAccount_shape h3 G2⟩

theorem parseBalance_shape {text : Bytes} {s : St} {b : Balance} {s' : St} (h : parseBalance s = .ok b s')
    (hG : Good text s) : AccShape text b.account := by
  unfold parseBalance at h
  simp only [Res.bind_eq_ok] at h
  obtain ⟨ac, s1, h1, _, s2, h2, q, s3, h3, _, s4, h4, cm, s5, h5, h⟩ := h
  injection h with hb hs
  rw [← hb]
  exact parseAccount_shape h1 hG

theorem parseAccrual_shape {text : Bytes} {s : St} {a : Accrual} {s' : St} (h : parseAccrual s = .ok a s')
    (hG : Good text s) : AccShape text a.account := by
  unfold parseAccrual at h
  simp only [Res.bind_eq_ok] at h
  obtain ⟨_, s1, h1, iv, s2, h2, _, s3, h3, d0, s4, h4, _, s5, h5, d1, s6, h6, _, s7, h7, ac, s8, h8, h⟩ := h
  injection h with hb hs
  rw [← hb]
  have G1 := hG.ext (ext_of_ok (readWhitespace1_ext _) h1)
  have G2 := G1.ext (ext_of_ok (parseInterval_prog _).ext h2)
  have G3 := G2.ext (ext_of_ok (readWhitespace1_ext _) h3)
  have G4 := G3.ext (ext_of_ok (parseDate_prog _).ext h4)
  have G5 := G4.ext (ext_of_ok (readWhitespace1_ext _) h5)
  have G6 := G5.ext (ext_of_ok (parseDate_prog _).ext h6)
  have G7 := G6.ext (ext_of_ok (readWhitespace1_ext _) h7)
  exact parseAccount_shape h8 G7

/-- what the loop of `parseAddons` maintains: an annotation's range is `Range{}` or not empty, and the accrual's account
node has the kind its text implies -/
def AddInv (text : Bytes) (perf : Performance) (accr : Accrual) : Prop :=
  (perf.range.empty = true → perf.range = Range.zero) ∧ (accr.range.empty = true → accr.range = Range.zero) ∧
    AccShape text accr.account

theorem AddInv.zero (text : Bytes) : AddInv text Performance.zero Accrual.zero :=
  ⟨fun _ => rfl, fun _ => rfl, AccShape.zero text⟩

theorem addonStep_shape {text : Bytes} {start : Nat} {perf : Performance} {accr : Accrual} {r0 : Nat} {kw : String}
    {s : St} {p' : Performance} {a' : Accrual} {s' : St}
    (h : addonStep start perf accr ⟨r0, s.off⟩ kw s = .ok (p', a') s') (hG : Good text s) (hr0 : r0 < s.off)
    (hkw : kw ∈ ["@performance", "@accrue"]) (hI : AddInv text perf accr) :
    AddInv text p' a' ∧ (p'.range.empty = false ∨ a'.range.empty = false) := by
  unfold addonStep at h
  simp only at h
  split at h
  · split at h
    · cases h
    · simp only [Res.bind_eq_ok] at h
      obtain ⟨p, s1, g1, g2⟩ := h
      injection g2 with ga gb
      injection ga with ga1 ga2
      subst gb ga2
      have o1 := (parsePerformance_fwd _).2 _ _ g1
      have pr := (parsePerformance_ok g1).1
      have hne : p'.range.empty = false := by
        rw [← ga1]
        simp only [pr, extend_kw (Nat.le_of_lt hr0) o1, Range.empty, beq_eq_false_iff_ne]
        omega
      exact ⟨⟨(fun e => by rw [hne] at e; cases e), hI.2.1, hI.2.2⟩, Or.inl hne⟩
  · split at h
    · split at h
      · cases h
      · simp only [Res.bind_eq_ok] at h
        obtain ⟨a, s1, g1, g2⟩ := h
        injection g2 with ga gb
        injection ga with ga1 ga2
        subst gb ga1
        have o1 := (parseAccrual_fwd _).2 _ _ g1
        have pr := (parseAccrual_ok g1).1
        have hne : a'.range.empty = false := by
          rw [← ga2]
          simp only [pr, extend_kw (Nat.le_of_lt hr0) o1, Range.empty, beq_eq_false_iff_ne]
          omega
        have hacc : AccShape text a'.account := by
          have := parseAccrual_shape g1 hG
          rw [← ga2]
          exact this
        exact ⟨⟨hI.1, (fun e => by rw [hne] at e; cases e), hacc⟩, Or.inr hne⟩
    · rename_i k1 k2
      exfalso
      simp only [List.mem_cons, List.not_mem_nil, or_false] at hkw
      rcases hkw with rfl | rfl
      · exact k1 (by decide)
      · exact k2 (by decide)

theorem addonsLoop_shape {text : Bytes} {start : Nat} {perf : Performance} {accr : Accrual} {s : St} {a : Addons} {s' : St}
    (h : addonsLoop start perf accr s = .ok a s') (hG : Good text s) (hI : AddInv text perf accr) :
    AddInv text a.performance a.accrual ∧ (a.performance.range.empty = false ∨ a.accrual.range.empty = false) ∧
      a.range ≠ Range.zero := by
  fun_induction addonsLoop start perf accr s with
  | case1 perf accr s e s1 h1 => cases h
  | case2 perf accr s r kw s1 h1 e s2 h2 => cases h
  | case3 perf accr s r kw s1 h1 perf' accr' s2 h2 e s3 h3 => cases h
  | case4 perf accr s r kw s1 h1 perf' accr' s2 h2 x s3 h3 hc =>
    obtain ⟨hm, c, kc, hrunes, hr⟩ := readAlternative_ok' h1
    subst hr
    have G1 := hG.ext kc.ext
    have hne : c ≠ [] := by
      intro e; subst e
      simp only [List.mem_cons, List.not_mem_nil, or_false] at hm
      rcases hm with rfl | rfl <;> simp [runesOf] at hrunes
    have hlt := consumed_width_pos hG kc hne
    obtain ⟨I2, ne2⟩ := addonStep_shape h2 G1 hlt hm hI
    have o2 := (ext_of_ok (addonStep_ext _ _ _ _ _ _) h2).off_le
    have o3 := (ext_of_ok (readRestOfWhitespaceLine_ext _) h3).off_le
    injection h with h1' h2'
    rw [← h1']
    refine ⟨I2, ne2, ?_⟩
    simp only [rng, Range.zero, ne_eq, Range.mk.injEq, not_and]
    intro _
    omega
  | case5 perf accr s r kw s1 h1 perf' accr' s2 h2 x s3 h3 hc ih =>
    obtain ⟨hm, c, kc, hrunes, hr⟩ := readAlternative_ok' h1
    subst hr
    have G1 := hG.ext kc.ext
    have hne : c ≠ [] := by
      intro e; subst e
      simp only [List.mem_cons, List.not_mem_nil, or_false] at hm
      rcases hm with rfl | rfl <;> simp [runesOf] at hrunes
    have hlt := consumed_width_pos hG kc hne
    obtain ⟨I2, _⟩ := addonStep_shape h2 G1 hlt hm hI
    have G2 := G1.ext (ext_of_ok (addonStep_ext _ _ _ _ _ _) h2)
    have G3 := G2.ext (ext_of_ok (readRestOfWhitespaceLine_ext _) h3)
    exact ih h G3 I2

/-- the annotations of a parsed transaction: the `addons` node exists iff one of the two annotations does, an
annotation exists (`Range ≠ Range{}`) iff its range is not empty, and the accrual's account has the kind of its text -/
def AddonsShape (text : Bytes) (a : Addons) : Prop :=
  (a.range = Range.zero → a.performance.range.empty = true ∧ a.accrual.range.empty = true) ∧
  (a.range ≠ Range.zero → a.performance.range.empty = false ∨ a.accrual.range.empty = false) ∧
  AddInv text a.performance a.accrual

theorem AddonsShape.zero (text : Bytes) : AddonsShape text Addons.zero :=
  ⟨fun _ => ⟨rfl, rfl⟩, fun h => absurd rfl h, AddInv.zero text⟩

theorem bookingsLoop_shape {text : Bytes} {start : Nat} {acc : List Booking} {s : St} {bs : List Booking} {s' : St}
    (h : bookingsLoop start acc s = .ok bs s') (hG : Good text s) (hacc : ∀ b ∈ acc, BookingShape text b) :
    ∀ b ∈ bs, BookingShape text b := by
  fun_induction bookingsLoop start acc s with
  | case1 acc s e s1 h1 => cases h
  | case2 acc s b s1 h1 e s2 h2 => cases h
  | case3 acc s b s1 h1 x s2 h2 hc =>
    injection h with ha hb
    subst ha
    intro b' hb'
    simp only [List.reverse_cons, List.mem_append, List.mem_reverse, List.mem_singleton] at hb'
    rcases hb' with hb' | rfl
    · exact hacc b' hb'
    · exact parseBooking_shape h1 hG
  | case4 acc s b s1 h1 x s2 h2 hc ih =>
    have G1 := hG.ext (ext_of_ok (parseBooking_prog _).ext h1)
    have G2 := G1.ext (ext_of_ok (readRestOfWhitespaceLine_ext _) h2)
    refine ih h G2 ?_
    intro b' hb'
    rcases List.mem_cons.mp hb' with rfl | hb'
    · exact parseBooking_shape h1 hG
    · exact hacc b' hb'

theorem balancesLoop_shape {text : Bytes} {start : Nat} {acc : List Balance} {s : St} {bs : List Balance} {s' : St}
    (h : balancesLoop start acc s = .ok bs s') (hG : Good text s) (hacc : ∀ b ∈ acc, AccShape text b.account) :
    ∀ b ∈ bs, AccShape text b.account := by
  fun_induction balancesLoop start acc s with
  | case1 acc s e s1 h1 => cases h
  | case2 acc s b s1 h1 e s2 h2 => cases h
  | case3 acc s b s1 h1 x s2 h2 hc =>
    injection h with ha hb
    subst ha
    intro b' hb'
    simp only [List.reverse_cons, List.mem_append, List.mem_reverse, List.mem_singleton] at hb'
    rcases hb' with hb' | rfl
    · exact hacc b' hb'
    · exact parseBalance_shape h1 hG
  | case4 acc s b s1 h1 x s2 h2 hc ih =>
    have G1 := hG.ext (ext_of_ok (parseBalance_prog _).ext h1)
    have G2 := G1.ext (ext_of_ok (readRestOfWhitespaceLine_ext _) h2)
    refine ih h G2 ?_
    intro b' hb'
    rcases List.mem_cons.mp hb' with rfl | hb'
    · exact parseBalance_shape h1 hG
    · exact hacc b' hb'

/-- what `semFlat` sees of a parsed directive beyond its fields -/
def DirShape (text : Bytes) (d : Directive) : Prop :=
  match d.body with
  | .transaction t => AddonsShape text t.addons ∧ ∀ b ∈ t.bookings, BookingShape text b
  | .open o => AccShape text o.account
  | .close c => AccShape text c.account
  | .assertion a => ∀ b ∈ a.balances, AccShape text b.account
  | .price _ => True
  | .include _ => True

theorem parseDirective_shape {text : Bytes} {s : St} {d : Directive} {s' : St} (h : parseDirective s = .ok d s')
    (hG : Good text s) : DirShape text d := by
  unfold parseDirective at h
  simp only [Res.bind_eq_ok] at h
  obtain ⟨addons, s1, h1, body, s2, h2, h⟩ := h
  injection h with hd hs
  rw [← hd]
  have hA : AddonsShape text addons ∧ Good text s1 := by
    split at h1
    · simp only [Res.bind_eq_ok] at h1
      obtain ⟨a, t1, g1, g2⟩ := h1
      injection g2 with ga gb
      subst ga gb
      obtain ⟨I, ne, nz⟩ := addonsLoop_shape g1 hG (AddInv.zero text)
      exact ⟨⟨fun e => absurd e nz, fun _ => ne, I⟩, hG.ext (ext_of_ok (parseAddons_prog _).ext g1)⟩
    · injection h1 with ga gb
      subst ga gb
      exact ⟨AddonsShape.zero text, hG⟩
  obtain ⟨hAS, G1⟩ := hA
  unfold parseDirectiveBody at h2
  simp only at h2
  split at h2
  · simp only [Res.bind_eq_ok] at h2
    obtain ⟨i, t1, g1, g2⟩ := h2
    injection g2 with ga gb
    rw [← ga]
    trivial
  · simp only [Res.bind_eq_ok] at h2
    obtain ⟨date, t1, g1, _, t2, g2, h2⟩ := h2
    have Ga := G1.ext (ext_of_ok (parseDate_prog _).ext g1)
    have Gb := Ga.ext (ext_of_ok (readWhitespace1_ext _) g2)
    split at h2
    · -- transaction
      simp only [Res.bind_eq_ok] at h2
      obtain ⟨t, t3, g3, h2⟩ := h2
      injection h2 with ga gb
      rw [← ga]
      unfold parseTransaction at g3
      simp only [Res.bind_eq_ok] at g3
      obtain ⟨q, u1, k1, _, u2, k2, bs, u3, k3, g3⟩ := g3
      injection g3 with ht _
      rw [← ht]
      have Gc := Gb.ext (ext_of_ok (parseQuotedString_prog _).ext k1)
      have Gd := Gc.ext (ext_of_ok (readRestOfWhitespaceLine_ext _) k2)
      exact ⟨hAS, bookingsLoop_shape k3 Gd (by simp)⟩
    · simp only [Res.bind_eq_ok] at h2
      obtain ⟨⟨r, kw'⟩, t3, g3, _, t4, g4, h2⟩ := h2
      have Gc := Gb.ext (ext_of_ok (readAlternative_ext _ _) g3)
      have Gd := Gc.ext (ext_of_ok (readWhitespace1_ext _) g4)
      unfold parseKeyword at h2
      simp only at h2
      split at h2
      · simp only [Res.bind_eq_ok] at h2
        obtain ⟨o, t5, g5, h2⟩ := h2
        injection h2 with ga gb
        rw [← ga]
        unfold parseOpen at g5
        simp only [Res.bind_eq_ok] at g5
        obtain ⟨acc, t6, g6, g5⟩ := g5
        injection g5 with ga' _
        rw [← ga']
        exact parseAccount_shape g6 Gd
      · split at h2
        · simp only [Res.bind_eq_ok] at h2
          obtain ⟨o, t5, g5, h2⟩ := h2
          injection h2 with ga gb
          rw [← ga]
          unfold parseClose at g5
          simp only [Res.bind_eq_ok] at g5
          obtain ⟨acc, t6, g6, g5⟩ := g5
          injection g5 with ga' _
          rw [← ga']
          exact parseAccount_shape g6 Gd
        · split at h2
          · simp only [Res.bind_eq_ok] at h2
            obtain ⟨a, t5, g5, h2⟩ := h2
            injection h2 with ga gb
            rw [← ga]
            unfold parseAssertion at g5
            simp only at g5
            split at g5
            · simp only [Res.bind_eq_ok] at g5
              obtain ⟨_, t6, g6, bs, t7, g7, g5⟩ := g5
              injection g5 with ga' _
              rw [← ga']
              have Ge := Gd.ext (ext_of_ok (readRestOfWhitespaceLine_ext _) g6)
              exact balancesLoop_shape g7 Ge (by simp)
            · simp only [Res.bind_eq_ok] at g5
              obtain ⟨b, t6, g6, g5⟩ := g5
              injection g5 with ga' _
              rw [← ga']
              intro b' hb'
              simp only [List.mem_singleton] at hb'
              subst hb'
              exact parseBalance_shape g6 Gd
          · simp only [Res.bind_eq_ok] at h2
            obtain ⟨p, t5, g5, h2⟩ := h2
            injection h2 with ga gb
            rw [← ga]
            trivial

theorem fileItem_shape {text : Bytes} {s : St} {d : Option Directive} {s' : St} (h : fileItem s = .ok d s')
    (hG : Good text s) : ∀ dir, d = some dir → DirShape text dir := by
  unfold fileItem at h
  split at h
  · simp only [Res.bind_eq_ok] at h
    obtain ⟨x, s1, h1, h⟩ := h
    injection h with ha _
    subst ha
    intro dir e; cases e
  · split at h
    · simp only [Res.bind_eq_ok] at h
      obtain ⟨dir, s1, h1, h⟩ := h
      injection h with ha hb
      subst ha
      intro dir' e
      injection e with e
      subst e
      exact parseDirective_shape h1 hG
    · injection h with ha _
      subst ha
      intro dir e; cases e

theorem mem_pushOpt {d : Option Directive} {acc : List Directive} {x : Directive} (h : x ∈ pushOpt d acc) :
    d = some x ∨ x ∈ acc := by
  cases d with
  | none => exact Or.inr h
  | some y =>
    simp only [pushOpt, List.mem_cons] at h
    rcases h with rfl | h
    · exact Or.inl rfl
    · exact Or.inr h

theorem fileLoop_shape {text : Bytes} {path : String} {start : Nat} {acc : List Directive} {s : St} {f : File} {s' : St}
    (h : fileLoop path start acc s = .ok f s') (hG : Good text s) (hacc : ∀ d ∈ acc, DirShape text d) :
    ∀ d ∈ f.directives, DirShape text d := by
  fun_induction fileLoop path start acc s with
  | case1 acc s hE =>
    injection h with ha hb
    rw [← ha]
    intro d hd
    exact hacc d (by simpa using hd)
  | case2 acc s hE e s1 h1 => cases h
  | case3 acc s hE d s1 h1 hE1 =>
    injection h with ha hb
    rw [← ha]
    intro x hx
    rcases mem_pushOpt (by simpa using hx) with e | e
    · exact fileItem_shape h1 hG x e
    · exact hacc x e
  | case4 acc s hE d s1 h1 hE1 e s2 h2 => cases h
  | case5 acc s hE d s1 h1 hE1 x s2 h2 ih =>
    have G1 := hG.ext (ext_of_ok (fileItem_ext _) h1)
    have G2 := G1.ext (ext_of_ok (readRestOfWhitespaceLine_ext _) h2)
    refine ih h G2 ?_
    intro y hy
    rcases mem_pushOpt hy with e | e
    · exact fileItem_shape h1 hG y e
    · exact hacc y e

/-- **every directive of a parsed file has the shape its text implies** -/
theorem parseText_shape {path : String} {text : Bytes} {f : File} (h : parseText path text = .ok f) :
    ∀ d ∈ f.directives, DirShape text d := by
  unfold parseText at h
  split at h
  · cases h
  · rename_i u s0 hs
    have e0 := start_ok hs
    subst e0
    split at h
    · rename_i f' s' hp
      injection h with h
      subst h
      unfold parseFile at hp
      exact fileLoop_shape hp (good_start text) (by simp)
    · cases h

/-! ## 2. `semFlat` of a parsed tree from the typed views -/

def accKind (bs : Bytes) : Nat := if isDollar bs then Kind.macroAccount else Kind.account
def semAcc (bs : Bytes) : SemTok := .field (accKind bs) bs

def semBookingV (b : BookingV) : List SemTok :=
  [.open Kind.booking, semAcc b.credit, semAcc b.debit, .field Kind.decimal b.quantity, .field Kind.commodity b.commodity, .close]

def semBalanceV (b : BalanceV) : List SemTok :=
  [.open Kind.balance, semAcc b.account, .field Kind.decimal b.quantity, .field Kind.commodity b.commodity, .close]

def semAccrualV (a : AccrualV) : List SemTok :=
  [.open Kind.accrual, .field Kind.interval a.interval, .field Kind.date a.start, .field Kind.date a.stop, semAcc a.account, .close]

def semPerfV (ts : List Bytes) : List SemTok := .open Kind.performance :: ts.map (SemTok.field Kind.commodity) ++ [.close]

/-- the `addons` node: present iff one of the annotations is; performance before accrual -/
def semAddonsV : Option AccrualV → Option (List Bytes) → List SemTok
  | none, none => []
  | none, some ts => .open Kind.addons :: semPerfV ts ++ [.close]
  | some a, none => .open Kind.addons :: semAccrualV a ++ [.close]
  | some a, some ts => .open Kind.addons :: (semPerfV ts ++ semAccrualV a) ++ [.close]

def semBodyV : DirV → List SemTok
  | .transaction accr perf date desc bs =>
    .open Kind.transaction :: (semAddonsV accr perf ++
      ([.field Kind.date date, .open Kind.quotedString, .field Kind.content desc, .close] ++ bs.flatMap semBookingV)) ++ [.close]
  | .open date acc => [.open Kind.open, .field Kind.date date, semAcc acc, .close]
  | .close date acc => [.open Kind.close, .field Kind.date date, semAcc acc, .close]
  | .assertion date bs => .open Kind.assertion :: (.field Kind.date date :: bs.flatMap semBalanceV) ++ [.close]
  | .price date c p t =>
    [.open Kind.price, .field Kind.date date, .field Kind.commodity c, .field Kind.decimal p, .field Kind.commodity t, .close]
  | .include p => [.open Kind.include, .open Kind.quotedString, .field Kind.content p, .close, .close]

/-- what `semFlat` makes of a directive with fields `v` -/
def semDirV (v : DirV) : List SemTok := .open Kind.directive :: semBodyV v ++ [.close]

/-- what `semFlat` makes of a file whose directives have the fields `vs` -/
def semFileV (vs : List DirV) : List SemTok := .open Kind.file :: vs.flatMap semDirV ++ [.close]

theorem semFlat_field (text : Bytes) (k : Nat) (r : Range) (cs : List Node) (hk : isFieldKind k = true) :
    semFlat text (.mk k r cs) = (r.extract text).map fun b => [SemTok.field k b] := by
  simp [semFlat, hk]

theorem semFlat_inner (text : Bytes) (k : Nat) (r : Range) (cs : List Node) (hk : isFieldKind k = false) :
    semFlat text (.mk k r cs) = (semsFlat text cs).map fun l => SemTok.open k :: l ++ [SemTok.close] := by
  simp [semFlat, hk]

theorem semsFlat_nil (text : Bytes) : semsFlat text [] = some [] := by simp [semsFlat]

theorem semsFlat_cons (text : Bytes) (c : Node) (cs : List Node) :
    semsFlat text (c :: cs) = (semFlat text c).bind fun a => (semsFlat text cs).map fun b => a ++ b := by
  rw [semsFlat]
  cases semFlat text c <;> cases semsFlat text cs <;> rfl

theorem semsFlat_append (text : Bytes) (l1 l2 : List Node) :
    semsFlat text (l1 ++ l2) = (semsFlat text l1).bind fun a => (semsFlat text l2).map fun b => a ++ b := by
  induction l1 with
  | nil => simp [semsFlat_nil]
  | cons c cs ih =>
    rw [List.cons_append, semsFlat_cons, semsFlat_cons, ih]
    cases semFlat text c <;> cases semsFlat text cs <;> cases semsFlat text l2 <;> simp

/-- lists of elements: if each element's `semFlat` is `sem` of its view, the list's is the `flatMap` -/
theorem semsFlat_map {α β : Type} (text : Bytes) (toNode : α → Node) (view : α → Option β) (sem : β → List SemTok) :
    ∀ l : List α, (∀ x ∈ l, semFlat text (toNode x) = (view x).map sem) →
      semsFlat text (l.map toNode) = (l.mapM view).map fun ys => ys.flatMap sem
  | [], _ => by simp [semsFlat_nil]
  | x :: l, h => by
    rw [List.map_cons, semsFlat_cons, h x (by simp), semsFlat_map text toNode view sem l (fun y hy => h y (List.mem_cons_of_mem _ hy)),
      List.mapM_cons]
    cases view x <;> cases l.mapM view <;> simp

theorem semFlat_account {text : Bytes} {a : Account} (h : AccShape text a) :
    semFlat text a.toNode = (a.range.extract text).map fun b => [semAcc b] := by
  unfold Account.toNode leaf
  cases he : a.range.extract text with
  | none =>
    cases hm : a.isMacro <;> simp [semFlat_field, isFieldKind, Kind.macroAccount, Kind.account, Kind.date, Kind.commodity, Kind.decimal, Kind.content, Kind.interval, he]
  | some b =>
    have := h b he
    cases hm : a.isMacro <;> rw [hm] at this <;>
      simp [semFlat_field, isFieldKind, Kind.macroAccount, Kind.account, Kind.date, Kind.commodity, Kind.decimal, Kind.content, Kind.interval, he, semAcc, accKind, ← this]

theorem semFlat_dateN (text : Bytes) (d : Date) :
    semFlat text d.toNode = (d.range.extract text).map fun b => [SemTok.field Kind.date b] :=
  semFlat_field text _ _ _ (by decide)
theorem semFlat_decimal (text : Bytes) (d : Decimal) :
    semFlat text d.toNode = (d.range.extract text).map fun b => [SemTok.field Kind.decimal b] :=
  semFlat_field text _ _ _ (by decide)
theorem semFlat_commodity (text : Bytes) (d : Commodity) :
    semFlat text d.toNode = (d.range.extract text).map fun b => [SemTok.field Kind.commodity b] :=
  semFlat_field text _ _ _ (by decide)
theorem semFlat_interval (text : Bytes) (d : Interval) :
    semFlat text d.toNode = (d.range.extract text).map fun b => [SemTok.field Kind.interval b] :=
  semFlat_field text _ _ _ (by decide)
theorem semFlat_quoted (text : Bytes) (q : QuotedString) :
    semFlat text q.toNode =
      (q.content.extract text).map fun b => [SemTok.open Kind.quotedString, SemTok.field Kind.content b, SemTok.close] := by
  unfold QuotedString.toNode leaf
  rw [semFlat_inner _ _ _ _ (by decide), semsFlat_cons, semsFlat_nil, semFlat_field _ _ _ _ (by decide)]
  cases q.content.extract text <;> simp

theorem semFlat_booking {text : Bytes} {b : Booking} (h : BookingShape text b) :
    semFlat text b.toNode = (viewBooking text b).map semBookingV := by
  unfold Booking.toNode
  rw [semFlat_inner _ _ _ _ (by decide)]
  simp only [semsFlat_cons, semsFlat_nil, semFlat_account h.1, semFlat_account h.2, semFlat_decimal, semFlat_commodity,
    viewBooking]
  cases b.credit.range.extract text <;> cases b.debit.range.extract text <;> cases b.quantity.range.extract text <;>
    cases b.commodity.range.extract text <;> simp [semBookingV]

theorem semFlat_balance {text : Bytes} {b : Balance} (h : AccShape text b.account) :
    semFlat text b.toNode = (viewBalance text b).map semBalanceV := by
  unfold Balance.toNode
  rw [semFlat_inner _ _ _ _ (by decide)]
  simp only [semsFlat_cons, semsFlat_nil, semFlat_account h, semFlat_decimal, semFlat_commodity, viewBalance]
  cases b.account.range.extract text <;> cases b.quantity.range.extract text <;>
    cases b.commodity.range.extract text <;> simp [semBalanceV]

theorem semFlat_accrual {text : Bytes} {a : Accrual} (h : AccShape text a.account) :
    semFlat text a.toNode = (viewAccrual text a).map semAccrualV := by
  unfold Accrual.toNode
  rw [semFlat_inner _ _ _ _ (by decide)]
  simp only [semsFlat_cons, semsFlat_nil, semFlat_account h, semFlat_interval, semFlat_dateN, viewAccrual]
  cases a.interval.range.extract text <;> cases a.start.range.extract text <;> cases a.stop.range.extract text <;>
    cases a.account.range.extract text <;> simp [semAccrualV]

theorem semFlat_performance (text : Bytes) (p : Performance) :
    semFlat text p.toNode = (p.targets.mapM fun (c : Commodity) => c.range.extract text).map semPerfV := by
  unfold Performance.toNode
  rw [semFlat_inner _ _ _ _ (by decide),
    semsFlat_map text Commodity.toNode (fun (c : Commodity) => c.range.extract text) (fun b => [SemTok.field Kind.commodity b])
      p.targets (fun c _ => semFlat_commodity text c)]
  cases p.targets.mapM (fun (c : Commodity) => c.range.extract text) with
  | none => rfl
  | some ts =>
    simp only [Option.map_some, semPerfV, Option.some.injEq, List.cons.injEq, true_and, List.append_cancel_right_eq]
    induction ts with
    | nil => rfl
    | cons t ts ih => simp [List.flatMap_cons, ih]

/-- the two annotations as `printTransaction` extracts them (`!Range.Empty()`) -/
def viewAddons (text : Bytes) (a : Addons) : Option (Option AccrualV × Option (List Bytes)) := do
  let accr ← if !a.accrual.range.empty then (viewAccrual text a.accrual).map some else pure none
  let perf ← if !a.performance.range.empty then
      (a.performance.targets.mapM (fun (c : Commodity) => c.range.extract text)).map some
    else pure none
  pure (accr, perf)

theorem viewTransaction_eq (text : Bytes) (t : Transaction) :
    viewTransaction text t = (viewAddons text t.addons).bind fun p =>
      (t.date.range.extract text).bind fun date =>
      (t.description.content.extract text).bind fun desc =>
      (t.bookings.mapM (viewBooking text)).bind fun bookings =>
      some (.transaction p.1 p.2 date desc bookings) := by
  unfold viewTransaction viewAddons
  cases t.addons.accrual.range.empty <;> cases t.addons.performance.range.empty <;>
    cases viewAccrual text t.addons.accrual <;>
    cases t.addons.performance.targets.mapM (fun (c : Commodity) => c.range.extract text) <;> rfl

theorem ne_zero_of_not_empty {r : Range} (h : r.empty = false) : r ≠ Range.zero := by
  intro e; rw [e] at h; simp [Range.empty, Range.zero] at h

theorem optNode_zero {r : Range} (n : Node) (h : r = Range.zero) : optNode r n = [] := by simp [optNode, h]
theorem optNode_ne {r : Range} (n : Node) (h : r ≠ Range.zero) : optNode r n = [n] := by simp [optNode, h]

theorem semsFlat_addons {text : Bytes} {a : Addons} (h : AddonsShape text a) :
    semsFlat text (optNode a.range a.toNode) = (viewAddons text a).map fun p => semAddonsV p.1 p.2 := by
  obtain ⟨h0, hnz, hp, ha, hacc⟩ := h
  cases hpe : a.performance.range.empty <;> cases hae : a.accrual.range.empty
  · have hr : a.range ≠ Range.zero := fun e => by have := (h0 e).1; rw [hpe] at this; cases this
    rw [optNode_ne _ hr, semsFlat_cons, semsFlat_nil]
    unfold Addons.toNode
    rw [semFlat_inner _ _ _ _ (by decide), optNode_ne _ (ne_zero_of_not_empty hpe), optNode_ne _ (ne_zero_of_not_empty hae)]
    simp only [List.cons_append, List.nil_append, semsFlat_cons, semsFlat_nil, semFlat_performance, semFlat_accrual hacc,
      viewAddons, hpe, hae]
    cases a.performance.targets.mapM (fun (c : Commodity) => c.range.extract text) <;> cases viewAccrual text a.accrual <;>
      simp [semAddonsV]
  · have hr : a.range ≠ Range.zero := fun e => by have := (h0 e).1; rw [hpe] at this; cases this
    rw [optNode_ne _ hr, semsFlat_cons, semsFlat_nil]
    unfold Addons.toNode
    rw [semFlat_inner _ _ _ _ (by decide), optNode_ne _ (ne_zero_of_not_empty hpe), optNode_zero _ (ha hae)]
    simp only [List.append_nil, semsFlat_cons, semsFlat_nil, semFlat_performance, viewAddons, hpe, hae]
    cases a.performance.targets.mapM (fun (c : Commodity) => c.range.extract text) <;> simp [semAddonsV]
  · have hr : a.range ≠ Range.zero := fun e => by have := (h0 e).2; rw [hae] at this; cases this
    rw [optNode_ne _ hr, semsFlat_cons, semsFlat_nil]
    unfold Addons.toNode
    rw [semFlat_inner _ _ _ _ (by decide), optNode_zero _ (hp hpe), optNode_ne _ (ne_zero_of_not_empty hae)]
    simp only [List.nil_append, semsFlat_cons, semsFlat_nil, semFlat_accrual hacc, viewAddons, hpe, hae]
    cases viewAccrual text a.accrual <;> simp [semAddonsV]
  · have hr : a.range = Range.zero := by
      apply Classical.byContradiction
      intro hne
      rcases hnz hne with e | e
      · rw [hpe] at e; cases e
      · rw [hae] at e; cases e
    rw [optNode_zero _ hr, semsFlat_nil]
    simp [viewAddons, hpe, hae, semAddonsV]

theorem semFlat_transaction {text : Bytes} {t : Transaction} (hA : AddonsShape text t.addons)
    (hB : ∀ b ∈ t.bookings, BookingShape text b) :
    semFlat text t.toNode = (viewTransaction text t).map semBodyV := by
  unfold Transaction.toNode
  rw [semFlat_inner _ _ _ _ (by decide), viewTransaction_eq, List.append_assoc, semsFlat_append, semsFlat_addons hA]
  simp only [List.cons_append, List.nil_append, semsFlat_cons, semFlat_dateN, semFlat_quoted,
    semsFlat_map text Booking.toNode (viewBooking text) semBookingV t.bookings (fun b hb => semFlat_booking (hB b hb))]
  cases viewAddons text t.addons <;> cases t.date.range.extract text <;> cases t.description.content.extract text <;>
    cases t.bookings.mapM (viewBooking text) <;> simp [semBodyV]

/-- **the monitor's view of a directive is determined by its typed view** (for a directive of the shape the parser
produces) -/
theorem semFlat_directive {text : Bytes} {d : Directive} (h : DirShape text d) :
    semFlat text d.toNode = (viewDirective text d).map semDirV := by
  unfold Directive.toNode
  rw [semFlat_inner _ _ _ _ (by decide), semsFlat_cons, semsFlat_nil]
  unfold DirShape at h
  unfold viewDirective
  cases hb : d.body with
  | transaction t =>
    rw [hb] at h
    simp only [Body.toNode, semFlat_transaction h.1 h.2]
    cases viewTransaction text t <;> simp [semDirV]
  | «open» o =>
    rw [hb] at h
    simp only [Body.toNode, Open.toNode]
    rw [semFlat_inner _ _ _ _ (by decide)]
    simp only [semsFlat_cons, semsFlat_nil, semFlat_dateN, semFlat_account h]
    cases o.date.range.extract text <;> cases o.account.range.extract text <;> simp [semDirV, semBodyV]
  | close o =>
    rw [hb] at h
    simp only [Body.toNode, Close.toNode]
    rw [semFlat_inner _ _ _ _ (by decide)]
    simp only [semsFlat_cons, semsFlat_nil, semFlat_dateN, semFlat_account h]
    cases o.date.range.extract text <;> cases o.account.range.extract text <;> simp [semDirV, semBodyV]
  | assertion a =>
    rw [hb] at h
    simp only [Body.toNode, Assertion.toNode]
    rw [semFlat_inner _ _ _ _ (by decide)]
    simp only [semsFlat_cons, semFlat_dateN,
      semsFlat_map text Balance.toNode (viewBalance text) semBalanceV a.balances (fun b hb' => semFlat_balance (h b hb'))]
    cases a.date.range.extract text <;> cases a.balances.mapM (viewBalance text) <;> simp [semDirV, semBodyV]
  | price p =>
    simp only [Body.toNode, Price.toNode]
    rw [semFlat_inner _ _ _ _ (by decide)]
    simp only [semsFlat_cons, semsFlat_nil, semFlat_dateN, semFlat_commodity, semFlat_decimal]
    cases p.date.range.extract text <;> cases p.commodity.range.extract text <;> cases p.price.range.extract text <;>
      cases p.target.range.extract text <;> simp [semDirV, semBodyV]
  | «include» i =>
    simp only [Body.toNode, Include.toNode]
    rw [semFlat_inner _ _ _ _ (by decide)]
    simp only [semsFlat_cons, semsFlat_nil, semFlat_quoted]
    cases i.includePath.content.extract text <;> simp [semDirV, semBodyV]

/-- **the monitor's view of a parsed file is determined by the typed views of its directives** -/
theorem semFlat_file {path : String} {text : Bytes} {f : File} (h : parseText path text = .ok f) :
    semFlat text f.toNode = (f.directives.mapM (viewDirective text)).map semFileV := by
  unfold File.toNode
  rw [semFlat_inner _ _ _ _ (by decide),
    semsFlat_map text Directive.toNode (viewDirective text) semDirV f.directives
      (fun d hd => semFlat_directive (parseText_shape h d hd))]
  cases f.directives.mapM (viewDirective text) <;> simp [semFileV]

/-! ## 3. The monitor's view determines the typed views -/

/-- well-bracketed token sequences -/
inductive Bal : List SemTok → Prop
  | nil : Bal []
  | field (k : Nat) (b : List UInt8) {l : List SemTok} : Bal l → Bal (SemTok.field k b :: l)
  | block (k : Nat) {b l : List SemTok} : Bal b → Bal l → Bal (SemTok.open k :: b ++ SemTok.close :: l)

/-- a well-bracketed sequence ends at the first unmatched `close` -/
theorem Bal.split {b1 : List SemTok} (h1 : Bal b1) : ∀ {b2 r1 r2 : List SemTok}, Bal b2 →
    b1 ++ SemTok.close :: r1 = b2 ++ SemTok.close :: r2 → b1 = b2 ∧ r1 = r2 := by
  induction h1 with
  | nil =>
    intro b2 r1 r2 h2 e
    cases h2 with
    | nil => simpa using e
    | field k b hl => simp at e
    | block k hb hl => simp at e
  | field k b hl ih =>
    intro b2 r1 r2 h2 e
    cases h2 with
    | nil => simp at e
    | field k' b' hl' =>
      simp only [List.cons_append, List.cons.injEq] at e
      obtain ⟨e1, e2⟩ := e
      obtain ⟨i1, i2⟩ := ih hl' e2
      exact ⟨by rw [e1, i1], i2⟩
    | block k' hb' hl' => simp at e
  | block k hb hl ihb ihl =>
    intro b2 r1 r2 h2 e
    cases h2 with
    | nil => simp at e
    | field k' b' hl' => simp at e
    | block k' hb' hl' =>
      simp only [List.cons_append, List.append_assoc, List.cons.injEq] at e
      obtain ⟨e1, e2⟩ := e
      obtain ⟨i1, i2⟩ := ihb hb' e2
      obtain ⟨j1, j2⟩ := ihl hl' i2
      exact ⟨by rw [SemTok.open.inj e1, i1, j1], j2⟩

theorem Bal.append {a b : List SemTok} (ha : Bal a) (hb : Bal b) : Bal (a ++ b) := by
  induction ha with
  | nil => simpa using hb
  | field k x hl ih => exact Bal.field k x ih
  | block k hx hl ihx ihl =>
    have := Bal.block k hx ihl
    simpa using this

/-- a block `open k :: body ++ [close]` -/
theorem Bal.block1 (k : Nat) {b : List SemTok} (hb : Bal b) : Bal (SemTok.open k :: b ++ [SemTok.close]) :=
  Bal.block k hb Bal.nil

theorem Bal.fields (k : Nat) : ∀ ts : List (List UInt8), Bal (ts.map (SemTok.field k))
  | [] => Bal.nil
  | t :: ts => Bal.field k t (Bal.fields k ts)

theorem Bal.flatMap {α : Type} (f : α → List SemTok) (hf : ∀ x, Bal (f x)) : ∀ l : List α, Bal (l.flatMap f)
  | [] => Bal.nil
  | x :: l => by rw [List.flatMap_cons]; exact (hf x).append (Bal.flatMap f hf l)

/-- blocks of one kind with well-bracketed bodies: the sequence of bodies is determined -/
theorem blocks_inj {α : Type} (k : Nat) (body : α → List SemTok) (hB : ∀ x, Bal (body x))
    (hinj : ∀ x y, body x = body y → x = y) : ∀ l l' : List α,
    l.flatMap (fun x => SemTok.open k :: body x ++ [SemTok.close]) = l'.flatMap (fun x => SemTok.open k :: body x ++ [SemTok.close]) →
    l = l'
  | [], [], _ => rfl
  | [], y :: l', e => by simp at e
  | x :: l, [], e => by simp at e
  | x :: l, y :: l', e => by
    simp only [List.flatMap_cons, List.cons_append, List.append_assoc, List.cons.injEq, true_and, List.nil_append] at e
    obtain ⟨e1, e2⟩ := (hB x).split (hB y) e
    rw [hinj x y e1, blocks_inj k body hB hinj l l' e2]

theorem semAcc_inj {a b : Bytes} (h : semAcc a = semAcc b) : a = b := by
  simp only [semAcc, SemTok.field.injEq] at h
  exact h.2

def bookingBody (b : BookingV) : List SemTok :=
  [semAcc b.credit, semAcc b.debit, .field Kind.decimal b.quantity, .field Kind.commodity b.commodity]
def balanceBody (b : BalanceV) : List SemTok :=
  [semAcc b.account, .field Kind.decimal b.quantity, .field Kind.commodity b.commodity]

theorem semBookingV_eq : semBookingV = fun b => SemTok.open Kind.booking :: bookingBody b ++ [SemTok.close] := rfl
theorem semBalanceV_eq : semBalanceV = fun b => SemTok.open Kind.balance :: balanceBody b ++ [SemTok.close] := rfl

theorem bal_bookingBody (b : BookingV) : Bal (bookingBody b) :=
  Bal.field _ _ (Bal.field _ _ (Bal.field _ _ (Bal.field _ _ Bal.nil)))
theorem bal_balanceBody (b : BalanceV) : Bal (balanceBody b) :=
  Bal.field _ _ (Bal.field _ _ (Bal.field _ _ Bal.nil))

theorem bookingBody_inj (x y : BookingV) (h : bookingBody x = bookingBody y) : x = y := by
  simp only [bookingBody, List.cons.injEq, SemTok.field.injEq, true_and, and_true] at h
  obtain ⟨h1, h2, h3, h4⟩ := h
  cases x; cases y
  simp only [BookingV.mk.injEq]
  exact ⟨semAcc_inj h1, semAcc_inj h2, h3, h4⟩

theorem balanceBody_inj (x y : BalanceV) (h : balanceBody x = balanceBody y) : x = y := by
  simp only [balanceBody, List.cons.injEq, SemTok.field.injEq, true_and, and_true] at h
  obtain ⟨h1, h2, h3⟩ := h
  cases x; cases y
  simp only [BalanceV.mk.injEq]
  exact ⟨semAcc_inj h1, h2, h3⟩

theorem bal_bookings (bs : List BookingV) : Bal (bs.flatMap semBookingV) :=
  Bal.flatMap _ (fun b => Bal.block1 _ (bal_bookingBody b)) bs
theorem bal_balances (bs : List BalanceV) : Bal (bs.flatMap semBalanceV) :=
  Bal.flatMap _ (fun b => Bal.block1 _ (bal_balanceBody b)) bs

theorem bookings_inj (l l' : List BookingV) (h : l.flatMap semBookingV = l'.flatMap semBookingV) : l = l' := by
  rw [semBookingV_eq] at h
  exact blocks_inj _ bookingBody bal_bookingBody bookingBody_inj l l' h

theorem balances_inj (l l' : List BalanceV) (h : l.flatMap semBalanceV = l'.flatMap semBalanceV) : l = l' := by
  rw [semBalanceV_eq] at h
  exact blocks_inj _ balanceBody bal_balanceBody balanceBody_inj l l' h

/-! the annotations -/

def perfPart : Option (List Bytes) → List SemTok
  | none => []
  | some ts => semPerfV ts
def accrPart : Option AccrualV → List SemTok
  | none => []
  | some a => semAccrualV a

theorem semAddonsV_eq (a : Option AccrualV) (p : Option (List Bytes)) :
    semAddonsV a p = if a = none ∧ p = none then [] else SemTok.open Kind.addons :: (perfPart p ++ accrPart a) ++ [SemTok.close] := by
  cases a <;> cases p <;> simp [semAddonsV, perfPart, accrPart]

theorem bal_semPerfV (ts : List Bytes) : Bal (semPerfV ts) := Bal.block1 _ (Bal.fields _ ts)
theorem bal_semAccrualV (a : AccrualV) : Bal (semAccrualV a) :=
  Bal.block1 _ (Bal.field _ _ (Bal.field _ _ (Bal.field _ _ (Bal.field _ _ Bal.nil))))
theorem bal_perfPart (p : Option (List Bytes)) : Bal (perfPart p) := by
  cases p with
  | none => exact Bal.nil
  | some ts => exact bal_semPerfV ts
theorem bal_accrPart (a : Option AccrualV) : Bal (accrPart a) := by
  cases a with
  | none => exact Bal.nil
  | some a => exact bal_semAccrualV a

theorem bal_semAddonsV (a : Option AccrualV) (p : Option (List Bytes)) : Bal (semAddonsV a p) := by
  rw [semAddonsV_eq]
  split
  · exact Bal.nil
  · exact Bal.block1 _ ((bal_perfPart p).append (bal_accrPart a))

theorem accrPart_inj {a a' : Option AccrualV} (h : accrPart a = accrPart a') : a = a' := by
  cases a with
  | none =>
    cases a' with
    | none => rfl
    | some y => simp [accrPart, semAccrualV] at h
  | some x =>
    cases a' with
    | none => simp [accrPart, semAccrualV] at h
    | some y =>
      simp only [accrPart, semAccrualV, List.cons.injEq, SemTok.field.injEq, true_and, and_true] at h
      obtain ⟨h1, h2, h3, h4⟩ := h
      cases x; cases y
      simp only [Option.some.injEq, AccrualV.mk.injEq]
      exact ⟨h1, h2, h3, semAcc_inj h4⟩

theorem map_field_inj (k : Nat) : ∀ ts ts' : List Bytes, ts.map (SemTok.field k) = ts'.map (SemTok.field k) → ts = ts'
  | [], [], _ => rfl
  | [], _ :: _, e => by simp at e
  | _ :: _, [], e => by simp at e
  | t :: ts, t' :: ts', e => by
    simp only [List.map_cons, List.cons.injEq, SemTok.field.injEq, true_and] at e
    rw [e.1, map_field_inj k ts ts' e.2]

theorem parts_inj {p p' : Option (List Bytes)} {a a' : Option AccrualV}
    (h : perfPart p ++ accrPart a = perfPart p' ++ accrPart a') : p = p' ∧ a = a' := by
  cases p with
  | none =>
    cases p' with
    | none => exact ⟨rfl, accrPart_inj (by simpa [perfPart] using h)⟩
    | some ts' =>
      exfalso
      cases a <;> simp [perfPart, accrPart, semPerfV, semAccrualV, Kind.performance, Kind.accrual] at h
  | some ts =>
    cases p' with
    | none =>
      exfalso
      cases a' <;> simp [perfPart, accrPart, semPerfV, semAccrualV, Kind.performance, Kind.accrual] at h
    | some ts' =>
      simp only [perfPart, semPerfV, List.cons_append, List.append_assoc, List.cons.injEq, true_and, List.nil_append] at h
      obtain ⟨e1, e2⟩ := (Bal.fields _ ts).split (Bal.fields _ ts') h
      exact ⟨by rw [map_field_inj _ _ _ e1], accrPart_inj e2⟩

/-- the `addons` node followed by the date field: the annotations and the rest are determined -/
theorem addons_split {a a' : Option AccrualV} {p p' : Option (List Bytes)} {k k' : Nat} {x x' : List UInt8} {R R' : List SemTok}
    (h : semAddonsV a p ++ (SemTok.field k x :: R) = semAddonsV a' p' ++ (SemTok.field k' x' :: R')) :
    a = a' ∧ p = p' ∧ SemTok.field k x :: R = SemTok.field k' x' :: R' := by
  rw [semAddonsV_eq, semAddonsV_eq] at h
  split at h <;> split at h
  · rename_i h1 h2
    exact ⟨by rw [h1.1, h2.1], by rw [h1.2, h2.2], by simpa using h⟩
  · simp at h
  · simp at h
  · simp only [List.cons_append, List.append_assoc, List.cons.injEq, true_and, List.nil_append] at h
    obtain ⟨e1, e2⟩ := ((bal_perfPart p).append (bal_accrPart a)).split ((bal_perfPart p').append (bal_accrPart a'))
      (by simpa using h)
    obtain ⟨i1, i2⟩ := parts_inj e1
    exact ⟨i2, i1, e2⟩

theorem bal_semBodyV (v : DirV) : Bal (semBodyV v) := by
  cases v with
  | transaction accr perf date desc bs =>
    exact Bal.block1 _ ((bal_semAddonsV accr perf).append
      (Bal.field _ _ (Bal.block _ (Bal.field _ _ Bal.nil) (bal_bookings bs))))
  | «open» d a => exact Bal.block1 _ (Bal.field _ _ (Bal.field _ _ Bal.nil))
  | close d a => exact Bal.block1 _ (Bal.field _ _ (Bal.field _ _ Bal.nil))
  | assertion d bs => exact Bal.block1 _ (Bal.field _ _ (bal_balances bs))
  | price d c p t => exact Bal.block1 _ (Bal.field _ _ (Bal.field _ _ (Bal.field _ _ (Bal.field _ _ Bal.nil))))
  | «include» p => exact Bal.block1 _ (Bal.block1 _ (Bal.field _ _ Bal.nil))

theorem semBodyV_inj (v w : DirV) (h : semBodyV v = semBodyV w) : v = w := by
  cases v with
  | transaction accr perf date desc bs =>
    cases w with
    | transaction accr' perf' date' desc' bs' =>
      simp only [semBodyV, List.cons.injEq, true_and, List.append_cancel_right_eq, List.cons_append, List.nil_append] at h
      obtain ⟨e1, e2, e3⟩ := addons_split h
      simp only [List.cons.injEq, SemTok.field.injEq, true_and] at e3
      obtain ⟨d1, d2, d3⟩ := e3
      rw [e1, e2, d1, d2, bookings_inj bs bs' d3]
    | «open» _ _ => simp [semBodyV, Kind.transaction, Kind.open] at h
    | close _ _ => simp [semBodyV, Kind.transaction, Kind.close] at h
    | assertion _ _ => simp [semBodyV, Kind.transaction, Kind.assertion] at h
    | price _ _ _ _ => simp [semBodyV, Kind.transaction, Kind.price] at h
    | «include» _ => simp [semBodyV, Kind.transaction, Kind.include] at h
  | «open» d a =>
    cases w with
    | «open» d' a' =>
      simp only [semBodyV, List.cons.injEq, SemTok.field.injEq, true_and, and_true] at h
      rw [h.1, semAcc_inj h.2]
    | transaction _ _ _ _ _ => simp [semBodyV, Kind.transaction, Kind.open] at h
    | close _ _ => simp [semBodyV, Kind.open, Kind.close] at h
    | assertion _ _ => simp [semBodyV, Kind.open, Kind.assertion] at h
    | price _ _ _ _ => simp [semBodyV, Kind.open, Kind.price] at h
    | «include» _ => simp [semBodyV, Kind.open, Kind.include] at h
  | close d a =>
    cases w with
    | close d' a' =>
      simp only [semBodyV, List.cons.injEq, SemTok.field.injEq, true_and, and_true] at h
      rw [h.1, semAcc_inj h.2]
    | transaction _ _ _ _ _ => simp [semBodyV, Kind.transaction, Kind.close] at h
    | «open» _ _ => simp [semBodyV, Kind.open, Kind.close] at h
    | assertion _ _ => simp [semBodyV, Kind.close, Kind.assertion] at h
    | price _ _ _ _ => simp [semBodyV, Kind.close, Kind.price] at h
    | «include» _ => simp [semBodyV, Kind.close, Kind.include] at h
  | assertion d bs =>
    cases w with
    | assertion d' bs' =>
      simp only [semBodyV, List.cons.injEq, SemTok.field.injEq, true_and, List.append_cancel_right_eq, List.cons_append] at h
      rw [h.1, balances_inj _ _ h.2]
    | transaction _ _ _ _ _ => simp [semBodyV, Kind.transaction, Kind.assertion] at h
    | «open» _ _ => simp [semBodyV, Kind.open, Kind.assertion] at h
    | close _ _ => simp [semBodyV, Kind.close, Kind.assertion] at h
    | price _ _ _ _ => simp [semBodyV, Kind.assertion, Kind.price] at h
    | «include» _ => simp [semBodyV, Kind.assertion, Kind.include] at h
  | price d c p t =>
    cases w with
    | price d' c' p' t' =>
      simp only [semBodyV, List.cons.injEq, SemTok.field.injEq, true_and, and_true] at h
      obtain ⟨h1, h2, h3, h4⟩ := h
      rw [h1, h2, h3, h4]
    | transaction _ _ _ _ _ => simp [semBodyV, Kind.transaction, Kind.price] at h
    | «open» _ _ => simp [semBodyV, Kind.open, Kind.price] at h
    | close _ _ => simp [semBodyV, Kind.close, Kind.price] at h
    | assertion _ _ => simp [semBodyV, Kind.assertion, Kind.price] at h
    | «include» _ => simp [semBodyV, Kind.price, Kind.include] at h
  | «include» p =>
    cases w with
    | «include» p' =>
      simp only [semBodyV, List.cons.injEq, SemTok.field.injEq, true_and, and_true] at h
      rw [h]
    | transaction _ _ _ _ _ => simp [semBodyV, Kind.transaction, Kind.include] at h
    | «open» _ _ => simp [semBodyV, Kind.open, Kind.include] at h
    | close _ _ => simp [semBodyV, Kind.close, Kind.include] at h
    | assertion _ _ => simp [semBodyV, Kind.assertion, Kind.include] at h
    | price _ _ _ _ => simp [semBodyV, Kind.price, Kind.include] at h

/-- **the monitor's view determines the typed views** -/
theorem semFileV_inj {vs ws : List DirV} (h : semFileV vs = semFileV ws) : vs = ws := by
  simp only [semFileV, List.cons.injEq, true_and, List.append_cancel_right_eq] at h
  exact blocks_inj Kind.directive semBodyV bal_semBodyV semBodyV_inj vs ws h

/-! ## 4. The monitor predicate `formatOK` on parsed trees -/

theorem toNode_ranges (f : File) : f.toNode.children.map Node.range = f.directives.map (·.range) := by
  simp [File.toNode, Node.children, Directive.toNode, Node.range, List.map_map, Function.comp_def]

/-- **on two parsed files the monitor's predicate says exactly what the theorems say**: `formatOK` on the two trees
holds iff the typed field views of the directives agree (same number, kinds and field bytes) and the gaps agree -/
theorem formatOK_iff {path path' : String} {text out : Bytes} {f f2 : File}
    (h : parseText path text = .ok f) (h2 : parseText path' out = .ok f2) :
    formatOK text f.toNode out f2.toNode = true ↔
      (f2.directives.mapM (viewDirective out) = f.directives.mapM (viewDirective text) ∧
       gapsOf out 0 (f2.directives.map (·.range)) = gapsOf text 0 (f.directives.map (·.range))) := by
  obtain ⟨_, _, _, _, _, s1, _, _⟩ := roundtrip h
  obtain ⟨_, _, _, _, _, s2, _, _⟩ := roundtrip h2
  obtain ⟨vs, hvs⟩ := Option.isSome_iff_exists.mp s1
  obtain ⟨ws, hws⟩ := Option.isSome_iff_exists.mp s2
  unfold formatOK
  rw [semFlat_file h, semFlat_file h2, toNode_ranges, toNode_ranges, hvs, hws]
  simp only [Option.map_some, Bool.and_eq_true, beq_iff_eq, Option.some.injEq]
  constructor
  · rintro ⟨e1, e2⟩
    exact ⟨(semFileV_inj e1).symm, e2.symm⟩
  · rintro ⟨e1, e2⟩
    exact ⟨by rw [e1], e2.symm⟩

end Knut.Syntax
