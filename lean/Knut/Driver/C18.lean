import Knut.Wire
import Knut.Model.AtomicWrite
/-! Driver ops for C18 (atomic in-place rewrite as a file-system state machine). -/
namespace Knut.Driver.C18
open Knut Knut.Wire Knut.AtomicWrite

def parseOp (s : String) : Option (Option Op) :=
  if s = "-" then some none else
  [Op.read, .parse, .createTemp, .write, .fsync, .close, .statTarget, .statTemp, .chmod, .rename, .unlink].find? (fun o => o.name == s) |>.map some

def parseBytes (s : String) : Option Bytes := (unhexBytes s).map (·.toList)

def showBytes (b : Bytes) : String := hexBytes (ByteArray.mk b.toArray)

/-- `absent` or `<mode octal as decimal>:<hex>` -/
def parseFile (s : String) : Option (Option File) :=
  if s = "absent" then some none else
  match splitOn s ':' with
  | [m, h] => do let m ← m.toNat?; let b ← parseBytes h; pure (some ⟨b, m⟩)
  | _ => none

def showFile : Option File → String
  | none => "absent"
  | some f => s!"{f.mode}:{showBytes f.content}"

/-- `parse` (the file does not parse) or the hex of the rendered content -/
def parseNew (s : String) : Option (Option Bytes) :=
  if s = "parse" then some none else (parseBytes s).map some

def showOutcome : Outcome → String
  | .ok => "ok"
  | .error op => "error " ++ op.name

def parseScenario (fault limit unlink : String) : Option Scenario := do
  let f ← parseOp fault
  let l ← if limit = "-" then some none else limit.toNat?.map some
  pure { fault := f, limit := l, unlinkFails := unlink = "1" }

/-- one job of a multi-file run: `fault/limit/unlink/old/new` -/
def parseJob (i : Nat) (s : String) : Option (Job × Option File × Option Bytes) :=
  match splitOn s '/' with
  | [fault, limit, unlink, old, new] => do
    let sc ← parseScenario fault limit unlink
    let o ← parseFile old
    let n ← parseNew new
    pure ({ sc := sc, tmp := s!"t{i}", target := s!"f{i}" }, o, n)
  | _ => none

def handleStr (fields : List String) : String :=
  match fields with
  | ["c18ops"] => ",".intercalate writeFileOps
  | ["c18run", fault, limit, unlink, old, new] =>
    match parseScenario fault limit unlink, parseFile old, parseNew new with
    | some sc, some old, some new =>
      let fs : FS := match old with | some f => [("target", f)] | none => []
      let r := rewriteFile (fun _ => new) sc "tmp" "target" fs
      s!"{showOutcome r.outcome} target={showFile (FS.get r.final "target")} tmp={showFile (FS.get r.final "tmp")}"
    | _, _, _ => "bad-op"
  | ["c18multi", jobs] =>
    match (splitOn jobs ',').zipIdx.mapM (fun p => parseJob p.2 p.1) with
    | some js =>
      let fs : FS := js.filterMap (fun j => j.2.1.map (fun f => (j.1.target, f)))
      -- the renderer: every file has its own rendered content; look it up by the old content's owner
      let table := js.filterMap (fun j => j.2.1.map (fun f => (f.content, j.2.2)))
      let render : Bytes → Option Bytes := fun b => (table.find? (fun e => e.1 == b)).bind (·.2)
      let res := rewriteAll render (js.map (·.1)) fs
      ";".intercalate ((js.zip res.2).map (fun p => s!"{showOutcome p.2} {showFile (FS.get res.1 p.1.1.target)} {showFile (FS.get res.1 p.1.1.tmp)}"))
    | none => "bad-op"
  | ["c18mon", old, new, obs, status] =>
    match parseFile old, parseNew new, parseFile obs with
    | some old, some new, some obs =>
      let st : Option Bool := if status = "1" then some true else if status = "0" then some false else none
      if allOrNothing old new obs st then "ok" else "fail"
    | _, _, _ => "bad-op"
  | ["c18crash", old, new, obsTarget, obsTmp] =>
    -- a run that was killed: is the observed (target, temp) one of the intermediate states of the fault-free run?
    match parseFile old, parseNew new, parseFile obsTarget, parseFile obsTmp with
    | some old, some new, some ot, some otmp =>
      let fs : FS := match old with | some f => [("target", f)] | none => []
      let r := rewriteFile (fun _ => new) {} "tmp" "target" fs
      if (r.states ()).any (fun st => FS.get st "target" == ot && FS.get st "tmp" == otmp) then "state-of-the-model" else "not-a-state"
    | _, _, _, _ => "bad-op"
  | ["c18names", before, after] =>
    let b := if before = "-" then [] else (splitOn before ',')
    let a := if after = "-" then [] else (splitOn after ',')
    if sameNames b a then "ok" else "fail"
  | _ => "no-such-op"

def handle (fields : List String) : Option String :=
  match fields with
  | op :: _ => if op.startsWith "c18" then some (handleStr fields) else none
  | [] => none

end Knut.Driver.C18
