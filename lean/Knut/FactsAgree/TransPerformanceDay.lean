import Knut.FactsAgree.TransPerformanceFlows
/-!
# The translated processors `ComputeValues` and `ComputeFlows` on a whole day agree with the model's `perfDay`

The closures of the two constructors (proved equal to the model's step functions in `TransPerformance.lean` and
`TransPerformanceFlows.lean`) are folded over a day in the order of `Processor.Process` (`TransProcess.processDay`: DayStart, then for
every transaction `Transaction` and `Posting` for each of its postings, then DayEnd):

| Go | theorem | model |
|---|---|---|
| `ComputeValues` on a day | `ComputeValues_day_agrees` | `valuesDay`; `V0` = the previous `V1`, `V1` = the running values (the first half of `perfDay`) |
| `ComputeFlows` on a day | `ComputeFlows_day_agrees` | `dayFlows` (the second half of `perfDay`) |
| both, on a day that has no `Performance` yet | `perfDay_agrees` | the `DayPerf` and the next `PState` of `perfDay` (after `valuedDay`, which is the business of `ComputePrices`/`check`/`Valuate`: `TransProcess.lean`) |

MAP ITERATION ORDER: `ComputeValues.DayEnd` ranges over the map of values, `split` (twice per transaction) over the flows; the orders
are parameters (for the transactions: one pair of orders per transaction, consumed in turn), and the theorems hold for EVERY order
that reaches each key once.
-/
namespace Knut.FactsAgree.TransPerformance
open Knut Knut.GoSem Knut.MapSum
open Knut.Generated.Go
open Knut.FactsAgree.TransAccount Knut.FactsAgree.TransPosting Knut.FactsAgree.TransTransaction
open Knut.FactsAgree.TransProcess (Proc processDay AllRel TRel PRel forEachE forEachIn)

/-! ## generic: callbacks that never fail and do not change their argument -/

/-- `forEachIn` with a callback that steps along a model fold, never fails and leaves the element as it is -/
theorem forEachIn_rel {σ α β γ μ : Type} (f : σ → β → α → GoSem.Outcome (σ × α × Option Error)) (ctx : List α → β)
    (R : σ → μ → Prop) (rel : α → γ → Prop) (step : μ → γ → μ)
    (hstep : ∀ st m b x c, R st m → rel x c → ∃ st', f st b x = .ok (st', x, none) ∧ R st' (step m c)) :
    ∀ (xs : List α) (cs : List γ), AllRel rel xs cs → ∀ (done : List α) (st : σ) (m : μ), R st m →
      ∃ st', forEachIn f ctx st xs done = .ok (st', done ++ xs, none) ∧ R st' (cs.foldl step m) := by
  intro xs cs hrel
  induction hrel with
  | nil => intro done st m hR; exact ⟨st, by simp [forEachIn], hR⟩
  | @cons x c xs cs hxc _ ih =>
    intro done st m hR
    obtain ⟨st', hs', hR'⟩ := hstep st m (ctx (done ++ x :: xs)) x c hR hxc
    obtain ⟨st'', hs'', hR''⟩ := ih (done ++ [x]) st' (step m c) hR'
    refine ⟨st'', ?_, hR''⟩
    simp only [forEachIn, hs', bind_ok', Option.isSome_none, Bool.false_eq_true, if_false, hs'', List.append_assoc, List.cons_append,
      List.nil_append]

/-- the same for `forEachE` -/
theorem forEachE_rel {σ α γ μ : Type} (f : σ → α → GoSem.Outcome (σ × α × Option Error))
    (R : σ → μ → Prop) (rel : α → γ → Prop) (step : μ → γ → μ)
    (hstep : ∀ st m x c, R st m → rel x c → ∃ st', f st x = .ok (st', x, none) ∧ R st' (step m c)) :
    ∀ (xs : List α) (cs : List γ), AllRel rel xs cs → ∀ (done : List α) (st : σ) (m : μ), R st m →
      ∃ st', forEachE f st xs done = .ok (st', done ++ xs, none) ∧ R st' (cs.foldl step m) := by
  intro xs cs hrel
  induction hrel with
  | nil => intro done st m hR; exact ⟨st, by simp [forEachE], hR⟩
  | @cons x c xs cs hxc _ ih =>
    intro done st m hR
    obtain ⟨st', hs', hR'⟩ := hstep st m x c hR hxc
    obtain ⟨st'', hs'', hR''⟩ := ih (done ++ [x]) st' (step m c) hR'
    refine ⟨st'', ?_, hR''⟩
    simp only [forEachE, hs', bind_ok', Option.isSome_none, Bool.false_eq_true, if_false, hs'', List.append_assoc, List.cons_append,
      List.nil_append]

/-! ## `ComputeValues` on a day -/

/-- the processor `ComputeValues` returns: its three closures in the shape `processDay` expects; `o` is the iteration order of the map
of values in `DayEnd` -/
def cvProc (cg : performance.Calculator) (o : List amounts.Key) : Proc performance.Calculator.ComputeValues.State :=
  { DayStart := some fun st d => performance.Calculator.ComputeValues.DayStart st d,
    Posting := some fun st t p => (performance.Calculator.ComputeValues.Posting cg st t p).bind fun r => .ok (r.1, p, r.2),
    DayEnd := some fun st d => performance.Calculator.ComputeValues.DayEnd st d o }

/-- **`ComputeValues` on a day** = `valuesDay`: for EVERY iteration order `o` (of `DayEnd`) that reaches each key of the map of values
once, the day's `Performance` (created if the day had none) gets `V0` = the captured `prev` and `V1` = the running values after the day's
postings, and these become the next `prev`; never an error, never a panic -/
theorem ComputeValues_day_agrees (cur : String → Bool) (cfg : Performance.Cfg) {g : performance.Calculator.ComputeValues.State}
    {vals prev : AMap Knut.Commodity Rat} (h : CVRel cur g vals prev) (dg : journal.Day) (txs : List Knut.Transaction)
    (htx : AllRel (TRel cur) dg.Transactions txs) (o : List amounts.Key) (ho : o.Nodup)
    (hsub : ∀ k ∈ o, ∃ c, k = ckeyGo cur c ∧ (AMap.find? (Performance.valuesDay cfg vals txs) c).isSome)
    (hcov : ∀ c, (AMap.find? (Performance.valuesDay cfg vals txs) c).isSome → ckeyGo cur c ∈ o) :
    ∃ g' v1, processDay (cvProc (calcGo cur cfg) o) g dg =
        .ok (g', { dg with Performance := some { (dg.Performance.getD GoZero.zero) with V0 := g.prev, V1 := v1 } }, none) ∧
      CVRel cur g' (Performance.valuesDay cfg vals txs) (Performance.valuesDay cfg vals txs) ∧
      PEq cur v1 (Performance.valuesDay cfg vals txs) ∧ g'.prev = v1 := by
  -- the postings of one transaction
  have hpost : ∀ (st : performance.Calculator.ComputeValues.State) (m : AMap Knut.Commodity Rat) (tg : transaction.Transaction)
      (t : Knut.Transaction), CVRel cur st m prev → TRel cur tg t →
      ∃ st', TransProcess.postingsOf (fun st t p => (performance.Calculator.ComputeValues.Posting (calcGo cur cfg) st t p).bind
          fun r => GoSem.Outcome.ok (r.1, p, r.2)) st tg = .ok (st', tg, none) ∧
        CVRel cur st' (t.postings.foldl (Performance.valuesStep cfg) m) prev := by
    intro st m tg t hR htr
    obtain ⟨st', hs', hR'⟩ := forEachIn_rel
      (fun st t p => (performance.Calculator.ComputeValues.Posting (calcGo cur cfg) st t p).bind fun r => GoSem.Outcome.ok (r.1, p, r.2))
      (fun ps => { tg with Postings := ps }) (fun st m => CVRel cur st m prev) (PRel cur) (Performance.valuesStep cfg)
      (by
        intro st m b x c hR hx
        obtain ⟨g', hg', hR'⟩ := ComputeValues_Posting_agrees cur cfg hR b x.Src c
        have hx' : x = postingGo cur x.Src c := hx
        rw [← hx'] at hg'
        exact ⟨g', by rw [hg']; rfl, hR'⟩)
      tg.Postings t.postings htr.2.2.1 [] st m hR
    refine ⟨st', ?_, hR'⟩
    simp only [TransProcess.postingsOf, hs', bind_ok', List.nil_append]
  obtain ⟨g1, hg1, hR1⟩ := forEachE_rel
    (TransProcess.postingsOf (fun st t p => (performance.Calculator.ComputeValues.Posting (calcGo cur cfg) st t p).bind
      fun r => GoSem.Outcome.ok (r.1, p, r.2)))
    (fun st m => CVRel cur st m prev) (TRel cur) (fun m t => t.postings.foldl (Performance.valuesStep cfg) m)
    (fun st m x c hR hx => hpost st m x c hR hx) dg.Transactions txs htx [] g vals h
  have hval : txs.foldl (fun m t => t.postings.foldl (Performance.valuesStep cfg) m) vals = Performance.valuesDay cfg vals txs := rfl
  rw [hval] at hR1
  -- DayEnd
  have hall : ∀ k, k ∈ o ↔ (AMap.find? g1.values k).isSome := by
    intro k
    constructor
    · intro hk
      obtain ⟨c, rfl, hc⟩ := hsub k hk
      rw [hR1.values.lookup c]; exact hc
    · intro hk
      obtain ⟨c, rfl⟩ := hR1.values.keys k hk
      rw [hR1.values.lookup c] at hk
      exact hcov c hk
  have hde := ComputeValues_DayEnd_agrees cur hR1
    { dg with Performance := some { (dg.Performance.getD GoZero.zero) with V0 := g.prev } } o ho hall
  simp only at hde
  obtain ⟨v1, hv1, hde⟩ := hde
  refine ⟨{ g1 with prev := v1 }, v1, ?_, ⟨hR1.values, hv1⟩, hv1, rfl⟩
  simp only [processDay, cvProc, TransProcess.optStep, TransProcess.pricesStep, TransProcess.opensStep, TransProcess.txStep,
    TransProcess.assertStep, TransProcess.closeStep, TransProcess.DayStep.andThen, TransProcess.DayStep.skip,
    TransProcess.onTransactions, ComputeValues_DayStart_agrees, bind_ok', Option.isSome_none, Bool.false_eq_true, if_false,
    hg1, List.nil_append, hde]

/-! ## `ComputeFlows` on a day -/

/-- the iteration orders of the two `split` loops of one transaction -/
abbrev SplitOrders := List commodity.Commodity × List commodity.Commodity

/-- the processor `ComputeFlows` returns, in the shape `processDay` expects; the state carries, next to the captured variables, the
iteration orders of the `split` loops still to come: one pair per transaction, consumed in turn -/
def cfProc (cg : performance.Calculator) : Proc (performance.Calculator.ComputeFlows.State × List SplitOrders) :=
  { DayStart := some fun st d =>
      .ok (((performance.Calculator.ComputeFlows.DayStart st.1 d).1, st.2), d, (performance.Calculator.ComputeFlows.DayStart st.1 d).2),
    Transaction := some fun st t =>
      (performance.Calculator.ComputeFlows.Transaction cg st.1 t (st.2.headD ([], [])).1 (st.2.headD ([], [])).2).bind fun r =>
        .ok ((r.1, st.2.tail), t, r.2),
    DayEnd := some fun st d => (performance.Calculator.ComputeFlows.DayEnd st.1 d).bind fun r => .ok ((r.1, st.2), r.2.1, r.2.2) }

/-- the orders of one transaction are admissible: the first reaches every commodity with a flow once (the second is arbitrary: it
ranges over the internal flows, which nothing reads); no target of the transaction is tagged as a currency -/
def OrdersOK (cur : String → Bool) (cfg : Performance.Cfg) (o : SplitOrders) (t : Knut.Transaction) : Prop :=
  o.1.Nodup ∧ (∀ c, (AMap.find? (Performance.txFlows cfg t).1 c).isSome → commodityGo cur c ∈ o.1) ∧
    (∀ l, t.targets = some l → ∀ c ∈ l, cur c = false)

/-- the state of `ComputeFlows` during a day against the model's accumulator of `dayFlows` (inflow, outflow, portfolio flows): `p0` is
the `Performance` the day started with -/
def FlowsRel (p0 : journal.Performance) (st : performance.Calculator.ComputeFlows.State) (A : Rat × Rat × Rat) : Prop :=
  ∃ perf, st = ⟨A.2.2, some perf⟩ ∧ perf.V0 = p0.V0 ∧ perf.V1 = p0.V1 ∧ perf.PortfolioInflow = p0.PortfolioInflow ∧
    perf.PortfolioOutflow = p0.PortfolioOutflow ∧
    NodupKeys perf.Inflow ∧ NodupKeys perf.Outflow ∧ NodupKeys perf.InternalInflow ∧ NodupKeys perf.InternalOutflow ∧
    total perf.Inflow = total p0.Inflow + A.1 ∧ total perf.Outflow = total p0.Outflow + A.2.1

/-- the step of `dayFlows` -/
def flowsStep (cfg : Performance.Cfg) (acc : Rat × Rat × Rat) (t : Knut.Transaction) : Rat × Rat × Rat :=
  (acc.1 + Performance.posPart (Performance.txFlows cfg t).1, acc.2.1 + Performance.negPart (Performance.txFlows cfg t).1,
    acc.2.2 + (Performance.txFlows cfg t).2)

theorem dayFlows_eq (cfg : Performance.Cfg) (txs : List Knut.Transaction) :
    Performance.dayFlows cfg txs = txs.foldl (flowsStep cfg) (0, 0, 0) := rfl

/-- the loop over the day's transactions -/
theorem ComputeFlows_tx_loop (cur : String → Bool) (cfg : Performance.Cfg) (p0 : journal.Performance) :
    ∀ (tgs : List transaction.Transaction) (txs : List Knut.Transaction), AllRel (TRel cur) tgs txs →
      ∀ (os : List SplitOrders), AllRel (OrdersOK cur cfg) os txs →
      ∀ (done : List transaction.Transaction) (st : performance.Calculator.ComputeFlows.State) (A : Rat × Rat × Rat), FlowsRel p0 st A →
      ∃ st', forEachE (fun (st : performance.Calculator.ComputeFlows.State × List SplitOrders) t =>
            (performance.Calculator.ComputeFlows.Transaction (calcGo cur cfg) st.1 t (st.2.headD ([], [])).1 (st.2.headD ([], [])).2).bind
              fun r => GoSem.Outcome.ok ((r.1, st.2.tail), t, r.2)) (st, os) tgs done =
          .ok ((st', []), done ++ tgs, none) ∧ FlowsRel p0 st' (txs.foldl (flowsStep cfg) A) := by
  intro tgs txs htx
  induction htx with
  | nil =>
    intro os hos done st A hR
    cases hos
    exact ⟨st, by simp [forEachE], hR⟩
  | @cons tg t tgs txs htr _ ih =>
    intro os hos done st A hR
    cases hos with
    | @cons o _ os' _ ho hos' =>
      obtain ⟨perf, rfl, h1, h2, h3, h4, h5, h6, h7, h8, h9, h10⟩ := hR
      obtain ⟨perf', hp', k1, k2, k3, k4, k5, k6, k7, k8, k9, k10⟩ :=
        ComputeFlows_Transaction_agrees cur cfg A.2.2 perf h5 h6 h7 h8 t ho.2.2 tg htr o.1 o.2 ho.1 ho.2.1
      obtain ⟨st'', hs'', hR''⟩ := ih os' hos' (done ++ [tg]) ⟨A.2.2 + (Performance.txFlows cfg t).2, some perf'⟩ (flowsStep cfg A t)
        ⟨perf', rfl, k1.trans h1, k2.trans h2, k3.trans h3, k4.trans h4, k5, k6, k7, k8,
          by rw [k9, h9]; simp only [flowsStep]; grind, by rw [k10, h10]; simp only [flowsStep]; grind⟩
      refine ⟨st'', ?_, hR''⟩
      simp only [forEachE, List.headD_cons, List.tail_cons, hp', bind_ok', Option.isSome_none, Bool.false_eq_true, if_false, hs'',
        List.append_assoc, List.cons_append, List.nil_append]

/-- **`ComputeFlows` on a day** = `dayFlows`: for EVERY admissible family of iteration orders (one pair per transaction), the day's
`Performance` gets the day's flows — the sums of `Inflow` and `Outflow` grow by the model's inflow and outflow, `PortfolioInflow/Outflow`
are the positive and the negative part of the model's portfolio flows; `V0`, `V1` stay; never an error, never a panic -/
theorem ComputeFlows_day_agrees (cur : String → Bool) (cfg : Performance.Cfg) (st0 : performance.Calculator.ComputeFlows.State)
    (dg : journal.Day) (p0 : journal.Performance) (hp0 : dg.Performance = some p0)
    (hin : NodupKeys p0.Inflow) (hout : NodupKeys p0.Outflow) (hii : NodupKeys p0.InternalInflow) (hio : NodupKeys p0.InternalOutflow)
    (txs : List Knut.Transaction) (htx : AllRel (TRel cur) dg.Transactions txs)
    (os : List SplitOrders) (hos : AllRel (OrdersOK cur cfg) os txs) :
    ∃ p', processDay (cfProc (calcGo cur cfg)) (st0, os) dg =
        .ok ((⟨(Performance.dayFlows cfg txs).2.2, some p'⟩, []), { dg with Performance := some p' }, none) ∧
      p'.V0 = p0.V0 ∧ p'.V1 = p0.V1 ∧ NodupKeys p'.Inflow ∧ NodupKeys p'.Outflow ∧
      total p'.Inflow = total p0.Inflow + (Performance.dayFlows cfg txs).1 ∧
      total p'.Outflow = total p0.Outflow + (Performance.dayFlows cfg txs).2.1 ∧
      p'.PortfolioInflow = F64.max 0 (Performance.dayFlows cfg txs).2.2 ∧
      p'.PortfolioOutflow = F64.min 0 (Performance.dayFlows cfg txs).2.2 := by
  obtain ⟨st', hs', hR'⟩ := ComputeFlows_tx_loop cur cfg p0 dg.Transactions txs htx os hos [] ⟨0, some p0⟩ (0, 0, 0)
    ⟨p0, rfl, rfl, rfl, rfl, rfl, hin, hout, hii, hio, by simp [Rat.add_zero], by simp [Rat.add_zero]⟩
  rw [← dayFlows_eq] at hR'
  obtain ⟨perf, rfl, h1, h2, h3, h4, h5, h6, h7, h8, h9, h10⟩ := hR'
  refine ⟨{ perf with
      PortfolioInflow := (F64.max 0 (Performance.dayFlows cfg txs).2.2)
      PortfolioOutflow := (F64.min 0 (Performance.dayFlows cfg txs).2.2) }, ?_, h1, h2, h5, h6, h9, h10, rfl, rfl⟩
  simp only [processDay, cfProc, TransProcess.optStep, TransProcess.pricesStep, TransProcess.opensStep, TransProcess.txStep,
    TransProcess.assertStep, TransProcess.closeStep, TransProcess.DayStep.andThen, TransProcess.DayStep.skip,
    TransProcess.onTransactions, ComputeFlows_DayStart_agrees, hp0, Option.getD_some, bind_ok', Option.isSome_none,
    Bool.false_eq_true, if_false, hs', List.nil_append, ComputeFlows_DayEnd_agrees]

/-! ## both processors on a day: `perfDay` -/

/-- **`ComputeValues` then `ComputeFlows` on a day without a `Performance` yet** = the model's `perfDay` (after `valuedDay`): the day
then stands for the model's `DayPerf` (`DayRel`: `V0` the previous values, `V1` the values after the day, the sums of `Inflow`/`Outflow`
the model's inflow and outflow, `PortfolioInflow/Outflow` the two parts of the portfolio flows), and the captured state of
`ComputeValues` for the model's next `PState` -/
theorem perfDay_agrees (cur : String → Bool) (cfg : Performance.Cfg) {g : performance.Calculator.ComputeValues.State}
    {vals prev : AMap Knut.Commodity Rat} (h : CVRel cur g vals prev) (st0 : performance.Calculator.ComputeFlows.State)
    (dg : journal.Day) (date : Int) (hdate : dg.Date = date) (hnil : dg.Performance = none)
    (txs : List Knut.Transaction) (htx : AllRel (TRel cur) dg.Transactions txs)
    (o : List amounts.Key) (ho : o.Nodup)
    (hsub : ∀ k ∈ o, ∃ c, k = ckeyGo cur c ∧ (AMap.find? (Performance.valuesDay cfg vals txs) c).isSome)
    (hcov : ∀ c, (AMap.find? (Performance.valuesDay cfg vals txs) c).isSome → ckeyGo cur c ∈ o)
    (os : List SplitOrders) (hos : AllRel (OrdersOK cur cfg) os txs) :
    ∃ g' dg1 st1 dg2, processDay (cvProc (calcGo cur cfg) o) g dg = .ok (g', dg1, none) ∧
      processDay (cfProc (calcGo cur cfg)) (st0, os) dg1 = .ok (st1, dg2, none) ∧
      CVRel cur g' (Performance.valuesDay cfg vals txs) (Performance.valuesDay cfg vals txs) ∧
      DayRel cur dg2 (Performance.DayPerf.mk date prev (Performance.valuesDay cfg vals txs) (Performance.dayFlows cfg txs).1
        (Performance.dayFlows cfg txs).2.1 (Performance.dayFlows cfg txs).2.2) := by
  obtain ⟨g', v1, hcv, hrel, hv1, _⟩ := ComputeValues_day_agrees cur cfg h dg txs htx o ho hsub hcov
  simp only [hnil, Option.getD_none] at hcv
  obtain ⟨p', hcf, k1, k2, k3, k4, k5, k6, k7, k8⟩ := ComputeFlows_day_agrees cur cfg st0
    { dg with Performance := some { (GoZero.zero : journal.Performance) with V0 := g.prev, V1 := v1 } }
    { (GoZero.zero : journal.Performance) with V0 := g.prev, V1 := v1 } rfl nodupKeys_nil nodupKeys_nil nodupKeys_nil nodupKeys_nil
    txs htx os hos
  refine ⟨g', _, _, _, hcv, hcf, hrel, hdate, p', rfl, ?_⟩
  refine ⟨?_, ?_, k3, k4, ?_, ?_, k7, k8⟩
  · rw [k1]; exact h.prev
  · rw [k2]; exact hv1
  · rw [k5]; exact Rat.zero_add _
  · rw [k6]; exact Rat.zero_add _

/-! ## day after day -/

/-- the model's `perfFrom` after `valuedDay`: the days come with their valued transactions -/
def perfDaysV (cfg : Performance.Cfg) : AMap Knut.Commodity Rat × AMap Knut.Commodity Rat → List (Int × List Knut.Transaction) →
    List Performance.DayPerf
  | _, [] => []
  | (vals, prev), (date, txs) :: rest =>
    Performance.DayPerf.mk date prev (Performance.valuesDay cfg vals txs) (Performance.dayFlows cfg txs).1
        (Performance.dayFlows cfg txs).2.1 (Performance.dayFlows cfg txs).2.2 ::
      perfDaysV cfg (Performance.valuesDay cfg vals txs, Performance.valuesDay cfg vals txs) rest

/-- `perfFrom` is `valuedDay` day by day followed by `perfDaysV` -/
theorem perfFrom_eq (cfg : Performance.Cfg) : ∀ (days : List Knut.Day) (ps : Performance.PState),
    Performance.perfFrom cfg ps days =
      (match days with
       | [] => .ok []
       | d :: rest =>
         match Performance.valuedDay cfg ps.bal d with
         | .error e => .error e
         | .ok (bal, txs) =>
           match Performance.perfFrom cfg (Performance.PState.mk bal (Performance.valuesDay cfg ps.values txs)
               (Performance.valuesDay cfg ps.values txs)) rest with
           | .error e => .error e
           | .ok r => .ok (Performance.DayPerf.mk d.date ps.prev (Performance.valuesDay cfg ps.values txs) (Performance.dayFlows cfg txs).1
               (Performance.dayFlows cfg txs).2.1 (Performance.dayFlows cfg txs).2.2 :: r)) := by
  intro days ps
  cases days with
  | nil => rfl
  | cons d rest =>
    simp only [Performance.perfFrom, Performance.perfDay, bind, Except.bind]
    cases Performance.valuedDay cfg ps.bal d with
    | error e => rfl
    | ok r =>
      obtain ⟨bal, txs⟩ := r
      simp only
      cases Performance.perfFrom cfg (Performance.PState.mk bal (Performance.valuesDay cfg ps.values txs)
          (Performance.valuesDay cfg ps.values txs)) rest <;> rfl

/-- the iteration orders of one day: of `ComputeValues.DayEnd`, and one pair per transaction for `ComputeFlows` -/
abbrev DayOrders := List amounts.Key × List SplitOrders

/-- the two processors over the days of the journal (each day through `ComputeValues`, then through `ComputeFlows`; the captured states
go from day to day) -/
def goDays (cg : performance.Calculator) :
    performance.Calculator.ComputeValues.State × performance.Calculator.ComputeFlows.State → List (journal.Day × DayOrders) →
      GoSem.Outcome (List journal.Day)
  | _, [] => .ok []
  | (g, st), (dg, o) :: rest =>
    (processDay (cvProc cg o.1) g dg).bind fun r1 =>
      (processDay (cfProc cg) (st, o.2) r1.2.1).bind fun r2 =>
        (goDays cg (r1.1, r2.1.1) rest).bind fun ds => .ok (r2.2.1 :: ds)

/-- a day of the Go journal before the two processors, with its iteration orders, against the model's day (date, valued transactions) -/
def DayIn (cur : String → Bool) (cfg : Performance.Cfg) (vals : AMap Knut.Commodity Rat) (x : journal.Day × DayOrders)
    (m : Int × List Knut.Transaction) : Prop :=
  x.1.Date = m.1 ∧ x.1.Performance = none ∧ AllRel (TRel cur) x.1.Transactions m.2 ∧ x.2.1.Nodup ∧
    (∀ k ∈ x.2.1, ∃ c, k = ckeyGo cur c ∧ (AMap.find? (Performance.valuesDay cfg vals m.2) c).isSome) ∧
    (∀ c, (AMap.find? (Performance.valuesDay cfg vals m.2) c).isSome → ckeyGo cur c ∈ x.2.1) ∧
    AllRel (OrdersOK cur cfg) x.2.2 m.2

/-- **`ComputeValues` and `ComputeFlows` over all days** = `perfDaysV` (the model's `perfFrom` after `valuedDay`): for EVERY admissible
family of iteration orders the days afterwards stand one by one for the model's `DayPerf`s (`DayRel`) — the hypothesis of
`Perf_days_agrees`; never an error, never a panic -/
theorem perfDays_agrees (cur : String → Bool) (cfg : Performance.Cfg) :
    ∀ (xs : List (journal.Day × DayOrders)) (ms : List (Int × List Knut.Transaction))
      (g : performance.Calculator.ComputeValues.State) (st : performance.Calculator.ComputeFlows.State)
      (vals prev : AMap Knut.Commodity Rat), CVRel cur g vals prev →
      (∀ (i : Nat) (h1 : i < xs.length) (h2 : i < ms.length),
        DayIn cur cfg ((ms.take i).foldl (fun v m => Performance.valuesDay cfg v m.2) vals) xs[i] ms[i]) →
      xs.length = ms.length →
      ∃ ds, goDays (calcGo cur cfg) (g, st) xs = .ok ds ∧ AllRel (DayRel cur) ds (perfDaysV cfg (vals, prev) ms) := by
  intro xs
  induction xs with
  | nil =>
    intro ms g st vals prev _ _ hlen
    cases ms with
    | nil => exact ⟨[], rfl, .nil⟩
    | cons _ _ => simp at hlen
  | cons x xs ih =>
    intro ms g st vals prev hcv hin hlen
    cases ms with
    | nil => simp at hlen
    | cons m ms =>
      obtain ⟨dg, o⟩ := x
      obtain ⟨date, txs⟩ := m
      have h0 := hin 0 (by simp) (by simp)
      simp only [List.take_zero, List.foldl_nil, List.getElem_cons_zero] at h0
      obtain ⟨hd, hnil, htx, ho, hsub, hcov, hos⟩ := h0
      obtain ⟨g', dg1, st1, dg2, e1, e2, hcv', hrel⟩ := perfDay_agrees cur cfg hcv st dg date hd hnil txs htx o.1 ho hsub hcov o.2 hos
      obtain ⟨ds, hds, hall⟩ := ih ms g' st1.1 (Performance.valuesDay cfg vals txs) (Performance.valuesDay cfg vals txs) hcv'
        (by
          intro i h1 h2
          have := hin (i + 1) (by simpa using h1) (by simpa using h2)
          simpa [List.take_succ_cons, List.foldl_cons] using this)
        (by simpa using hlen)
      refine ⟨dg2 :: ds, ?_, .cons hrel hall⟩
      simp only [goDays, e1, e2, bind_ok', hds]

/-- `valuedDay` day after day: the days with their valued transactions (`none`: an error of `ComputePrices`/`check`/`Valuate`) -/
def valuedDays (cfg : Performance.Cfg) : BalState → List Knut.Day → Option (List (Int × List Knut.Transaction))
  | _, [] => some []
  | bal, d :: rest =>
    match Performance.valuedDay cfg bal d with
    | .error _ => none
    | .ok (bal', txs) => (valuedDays cfg bal' rest).map ((d.date, txs) :: ·)

/-- the model's `perfFrom` is `perfDaysV` of the valued days -/
theorem perfFrom_perfDaysV (cfg : Performance.Cfg) : ∀ (days : List Knut.Day) (ps : Performance.PState) (ms : List (Int × List Knut.Transaction)),
    valuedDays cfg ps.bal days = some ms → Performance.perfFrom cfg ps days = .ok (perfDaysV cfg (ps.values, ps.prev) ms) := by
  intro days
  induction days with
  | nil => intro ps ms h; simp only [valuedDays, Option.some.injEq] at h; subst h; rfl
  | cons d rest ih =>
    intro ps ms h
    rw [perfFrom_eq]
    simp only [valuedDays] at h
    cases hv : Performance.valuedDay cfg ps.bal d with
    | error e => simp [hv] at h
    | ok r =>
      obtain ⟨bal, txs⟩ := r
      simp only [hv, Option.map_eq_some_iff] at h
      obtain ⟨ms', hms', rfl⟩ := h
      simp only [hv]
      rw [ih (Performance.PState.mk bal (Performance.valuesDay cfg ps.values txs) (Performance.valuesDay cfg ps.values txs)) ms' hms']
      rfl

/-- **`knut portfolio returns` from the valued days on** (`ComputeValues`, `ComputeFlows`, `Perf` from their initial states): for EVERY
admissible family of iteration orders, when every day inside the reported span has a defined factor, what `Perf` prints is — line by
line, with the exact values — the model's `perfLines` over the model's `perfFrom` -/
theorem returns_pipeline_agrees (cur : String → Bool) (cfg : Performance.Cfg) (part : Knut.Partition) (ds0 : set.Set Int)
    (hds : ∀ x, set.Set.Has ds0 x = part.endDates.contains x) (j : journal.Builder)
    (xs : List (journal.Day × DayOrders)) (ms : List (Int × List Knut.Transaction))
    (hin : ∀ (i : Nat) (h1 : i < xs.length) (h2 : i < ms.length),
      DayIn cur cfg ((ms.take i).foldl (fun v m => Performance.valuesDay cfg v m.2) []) xs[i] ms[i])
    (hlen : xs.length = ms.length)
    (hdef : ∀ dp ∈ perfDaysV cfg ([], []) ms, (Performance.perfSpan part).contains dp.date = true → (Performance.factor dp).isSome) :
    ∃ ds r', goDays (calcGo cur cfg) (performance.Calculator.ComputeValues.init (calcGo cur cfg),
        performance.Calculator.ComputeFlows.init (calcGo cur cfg)) xs = .ok ds ∧
      perfRun (TransDate.partitionGo part) (performance.Perf.init j (TransDate.partitionGo part) ds0) ds =
        .ok ⟨ds0, part.startDates, r',
          (Performance.perfLines (Performance.perfSpan part) part.endDates (some 1) (perfDaysV cfg ([], []) ms)).map lineGo⟩ := by
  obtain ⟨ds, h1, h2⟩ := perfDays_agrees cur cfg xs ms _ (performance.Calculator.ComputeFlows.init (calcGo cur cfg)) [] []
    (ComputeValues_init_agrees cur (calcGo cur cfg)) hin hlen
  obtain ⟨r', h3⟩ := Perf_days_agrees cur part ds0 hds ds _ h2 hdef 1 []
  exact ⟨ds, r', h1, by rw [Perf_init_agrees]; simpa using h3⟩

end Knut.FactsAgree.TransPerformance
