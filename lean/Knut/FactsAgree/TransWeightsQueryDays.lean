import Knut.FactsAgree.TransWeightsQuery
import Knut.FactsAgree.TransProcess
/-!
# `weights.Query.Execute` over the days of a journal against the model's `Weights.queryFrom`

`Journal.Process` calls the query's `DayEnd` on every day in order (`goQuery`: a `foldlE` of `TransWeightsQuery.goDay`, the guard
`days.Has(d)` read as "the day's date is one of the partition's end dates").  `Query_days_agrees_of_order`: the report receives exactly
the adds of the model's `queryFrom`, in its order, the universe written in place from day to day as the model's; a zero total on a
period-end day is `F64.undefined` (model: `none`).  The days are related by `DayRelQ`: the date, `V1` by lookups (`DayRelW` of
`TransProcessAllWeights` gives both) and the ORDER hypothesis of `Query_DayEnd_agrees_of_order`.
-/
namespace Knut.FactsAgree.TransWeightsQuery
open Knut Knut.GoSem Knut.MapSum
open Knut.Generated.Go
open Knut.FactsAgree.TransPosting (commodityGo)
open Knut.FactsAgree.TransPerformance
open Knut.FactsAgree.TransMapping
open Knut.FactsAgree.TransProcess (AllRel)
open Knut.FactsAgree.TransWeights (addAll Add_agrees)

/-- a Go day as it reaches the query and the model's `DayPerf` -/
def DayRelQ (cur : String → Bool) (d : journal.Day) (dp : Performance.DayPerf) : Prop :=
  d.Date = dp.date ∧ ∃ p, d.Performance = some p ∧ PEq cur p.V1 dp.v1 ∧
    sortedKeys p.V1 commodity.Compare = dp.v1.map (fun e => commodityGo cur e.1)

/-- the query's `DayEnd` on every day in turn -/
def goQuery (endDates : List Int) (st : weights.Query × weights.Report) (days : List journal.Day) :
    GoSem.Outcome (weights.Query × weights.Report) :=
  foldlE (fun st d => goDay (endDates.contains d.Date) d st) st days

theorem addAll_ok (L : List Weights.Add) : ∀ r : weights.Report, ∃ r', addAll r L = .ok r' := by
  induction L with
  | nil => intro r; exact ⟨r, rfl⟩
  | cons a L ih => intro r; simp only [addAll, Add_agrees, bind_ok']; exact ih _

theorem addAll_append (a b : List Weights.Add) : ∀ r : weights.Report,
    addAll r (a ++ b) = GoSem.Outcome.bind (addAll r a) (fun r' => addAll r' b) := by
  induction a with
  | nil => intro r; rfl
  | cons x a ih => intro r; simp only [List.cons_append, addAll, Add_agrees, bind_ok', ih]

/-- **the query over all days** = the model's `queryFrom` -/
theorem Query_days_agrees_of_order (cur : String → Bool) (endDates : List Int) (days : List journal.Day)
    (perfs : List Performance.DayPerf) (hrel : AllRel (DayRelQ cur) days perfs) :
    ∀ (q : weights.Query) (r : weights.Report) (u : Weights.Universe), UEq cur q.Universe u → (∀ r ∈ q.Mapping, RuleOK r) →
      match Weights.queryFrom (q.Mapping.map ruleOf) endDates u perfs with
      | none => goQuery endDates (q, r) days = .panic F64.undefined
      | some adds => ∃ q', goQuery endDates (q, r) days = GoSem.Outcome.bind (addAll r adds) (fun r' => .ok (q', r')) ∧
          q'.Mapping = q.Mapping ∧ q'.Partition = q.Partition := by
  induction hrel with
  | nil =>
    intro q r u _ _
    exact ⟨q, rfl, rfl, rfl⟩
  | @cons d dp ds dps hd _ ih =>
    intro q r u hu hm
    obtain ⟨hdate, p, hp, hv, hord⟩ := hd
    unfold Weights.queryFrom
    have hgo : goQuery endDates (q, r) (d :: ds) =
        GoSem.Outcome.bind (goDay (endDates.contains dp.date) d (q, r)) (fun st => goQuery endDates st ds) := by
      simp only [goQuery, foldlE, hdate]
    rw [hgo]
    by_cases hc : endDates.contains dp.date = true
    · simp only [hc, if_true]
      have key := Query_DayEnd_agrees_of_order cur q r u hu hm d p hp hv hord
      rw [hdate] at key
      cases hq : Weights.queryDay (q.Mapping.map ruleOf) u dp.date dp.v1 with
      | none =>
        simp only [hq] at key
        simp only [key, bind_panic']
      | some pr =>
        obtain ⟨adds1, u'⟩ := pr
        simp only [hq] at key
        obtain ⟨q1, h1, hu1, hm1, hp1⟩ := key
        obtain ⟨r1, hr1⟩ := addAll_ok adds1 r
        simp only [h1, hr1, bind_ok']
        have ih' := ih q1 r1 u' hu1 (by rw [hm1]; exact hm)
        rw [hm1] at ih'
        cases hq2 : Weights.queryFrom (q.Mapping.map ruleOf) endDates u' dps with
        | none =>
          simp only [hq2] at ih'
          simpa using ih'
        | some adds2 =>
          simp only [hq2] at ih'
          obtain ⟨q', h2, hm2, hp2⟩ := ih'
          refine ⟨q', ?_, hm2, hp2.trans hp1⟩
          simp only [Option.map_some, addAll_append, hr1, bind_ok', h2]
    · simp only [hc, if_false]
      have hc' : endDates.contains dp.date = false := by simpa using hc
      simp only [hc', Query_DayEnd_other, bind_ok']
      exact ih q r u hu hm

end Knut.FactsAgree.TransWeightsQuery
