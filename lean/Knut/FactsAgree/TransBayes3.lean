import Knut.FactsAgree.TransBayes2
/-!
# The translated `lib/syntax/bayes` agrees with the model of `knut infer`, part 3: training and inference together

`train_Infer_agrees`: the translated `NewModel`, `Update` over the training transactions and `Infer` on a target transaction, for
**every** admissible family of map iteration orders and **every** `Scorer`: the target comes back with exactly the edit that the
model's `train` + `inferBooking` make — the iteration order of the token sets cannot be observed in the output tree
(`train_Infer_order_independent`).  `editB_keeps`: a booking without the placeholder comes back as the same Go node.
-/
set_option linter.unusedSimpArgs false
set_option linter.unusedVariables false
namespace Knut.FactsAgree.TransBayes
open Knut Knut.GoSem Knut.Syntax
open Knut.Generated.Go
open Knut.FactsAgree.TransPrinter

section
variable {S : Type}

/-- models that inference cannot tell apart make the same edit -/
theorem editB_congr (sc : Infer.Scorer S) {m₁ m₂ : Infer.Model} (h : m₁.Equiv m₂) (desc : Bytes) (gb : directives.Booking) (v : BookingV) :
    editB sc m₁ desc gb v = editB sc m₂ desc gb v := by
  have hc : editCredit sc m₁ desc gb v = editCredit sc m₂ desc gb v := by
    unfold editCredit; rw [h.account, h.inferAccount]
  unfold editB
  rw [hc]
  unfold editDebit
  rw [h.account, h.inferAccount]

theorem editBs_congr (sc : Infer.Scorer S) {m₁ m₂ : Infer.Model} (h : m₁.Equiv m₂) (desc : Bytes) :
    ∀ (gbs : List directives.Booking) (vs : List BookingV), editBs sc m₁ desc gbs vs = editBs sc m₂ desc gbs vs
  | [], _ => by simp [editBs]
  | _ :: _, [] => by simp [editBs]
  | gb :: gbs, v :: vs => by rw [editBs, editBs, editB_congr sc h, editBs_congr sc h desc gbs vs]

/-- **a booking without the placeholder comes back as the same Go node** -/
theorem editB_keeps (sc : Infer.Scorer S) (m : Infer.Model) (desc : Bytes) (gb : directives.Booking) (v : BookingV)
    (h1 : v.credit ≠ m.account) (h2 : v.debit ≠ m.account) : editB sc m desc gb v = gb := by
  unfold editB editDebit editCredit
  rw [if_neg h1, if_neg h2]

/-- **training and inference through the translation**: `NewModel`, `Update` over the training transactions (for every family of
iteration orders that list each token of their set once) and `Infer` on a target transaction — the target with exactly the edit
`editBs` of the MODEL's `train`, for every `Scorer`.  Nothing panics when the `Extract()` calls succeed. -/
theorem train_Infer_agrees (sc : Infer.Scorer S) (account : Bytes) (os : Nat → (Int → List Bytes) × (Int → List Bytes))
    (gts : List directives.Transaction) (txs : List Infer.TTx) (hv : Forall2 ViewT gts txs) (ho : TrainOrdersOK os txs 0)
    (gt : directives.Transaction) (desc : Bytes) (vs : List BookingV)
    (hd : directives.Range.Extract gt.Description.Content = .ok desc) (hvb : Forall2 ViewB gt.Bookings vs) :
    (trainGo gts 0 os (bayes.NewModel account)).bind (fun gm => bayes.Model.Infer gm gt (flOf sc) (extOf sc)) =
      .ok { gt with Bookings := editBs sc (Infer.train account txs) desc gt.Bookings vs } := by
  obtain ⟨e1, e2⟩ := train_agrees account os gts txs hv ho
  rw [e1]
  have hk := trainW_nodup os txs 0 _ (newModel_nodup account)
  show bayes.Model.Infer (goModel _) gt (flOf sc) (extOf sc) = _
  rw [Infer_scorer sc _ hk gt desc vs hd hvb, editBs_congr sc e2]

/-- **the map iteration orders cannot be observed in the output tree** -/
theorem train_Infer_order_independent (sc : Infer.Scorer S) (account : Bytes) (os os' : Nat → (Int → List Bytes) × (Int → List Bytes))
    (gts : List directives.Transaction) (txs : List Infer.TTx) (hv : Forall2 ViewT gts txs)
    (ho : TrainOrdersOK os txs 0) (ho' : TrainOrdersOK os' txs 0)
    (gt : directives.Transaction) (desc : Bytes) (vs : List BookingV)
    (hd : directives.Range.Extract gt.Description.Content = .ok desc) (hvb : Forall2 ViewB gt.Bookings vs) :
    (trainGo gts 0 os (bayes.NewModel account)).bind (fun gm => bayes.Model.Infer gm gt (flOf sc) (extOf sc)) =
      (trainGo gts 0 os' (bayes.NewModel account)).bind (fun gm => bayes.Model.Infer gm gt (flOf sc) (extOf sc)) := by
  rw [train_Infer_agrees sc account os gts txs hv ho gt desc vs hd hvb, train_Infer_agrees sc account os' gts txs hv ho' gt desc vs hd hvb]

/-- the same with the code's own score function over any interpretation of the float operations that keeps the scores of the trained
candidates above `-Inf` -/
theorem train_Infer_real {F : Type} (fl : Syn.F64 F) (account : Bytes) (os : Nat → (Int → List Bytes) × (Int → List Bytes))
    (gts : List directives.Transaction) (txs : List Infer.TTx) (hv : Forall2 ViewT gts txs) (ho : TrainOrdersOK os txs 0)
    (hf : FiniteScores fl (trainW os txs 0 (Infer.newModel account)))
    (gt : directives.Transaction) (desc : Bytes) (vs : List BookingV)
    (hd : directives.Range.Extract gt.Description.Content = .ok desc) (hvb : Forall2 ViewB gt.Bookings vs) :
    (trainGo gts 0 os (bayes.NewModel account)).bind (fun gm => bayes.Model.Infer gm gt fl (extReal fl)) =
      .ok { gt with Bookings := editBs (scorerOf fl) (Infer.train account txs) desc gt.Bookings vs } := by
  obtain ⟨e1, e2⟩ := train_agrees account os gts txs hv ho
  rw [e1]
  have hk := trainW_nodup os txs 0 _ (newModel_nodup account)
  show bayes.Model.Infer (goModel _) gt fl (extReal fl) = _
  rw [Infer_real fl _ hf hk gt desc vs hd hvb, editBs_congr (scorerOf fl) e2]

end

/-! ### non-vacuity: the hypotheses can be met -/

/-- a Go booking over the text `"BFTC1"`: credit `B`, debit `T` (the placeholder), quantity `1`, commodity `C` -/
def exText : Bytes := [66, 70, 84, 67, 49]
def exRange (a b : Int) : directives.Range := { Start := a, End := b, Path := [], Text := exText }
def exBooking (credit debit : directives.Range) : directives.Booking :=
  { Range := exRange 0 5, Credit := ⟨credit, false⟩, Debit := ⟨debit, false⟩, Quantity := ⟨exRange 4 5⟩, Commodity := ⟨exRange 3 4⟩ }
def exTx (b : directives.Booking) : directives.Transaction :=
  { Range := exRange 0 5, Date := ⟨exRange 0 0⟩, Description := ⟨exRange 0 0, exRange 1 2⟩, Bookings := [b], Addons := GoZero.zero }

theorem orderOK_self (d c q o : Bytes) : OrderOK (Infer.tokenize d c q o) (Infer.tokenize d c q o) :=
  ⟨Infer.nodup_tokenize d c q o, fun _ h => h⟩

theorem exExtract (a b : Nat) (h : a ≤ b ∧ b ≤ 5) :
    directives.Range.Extract (exRange a b) = .ok ((exText.take b).drop a) := by
  unfold directives.Range.Extract exRange slice
  have h' : ¬ ((a : Int) < 0 ∨ (b : Int) < (a : Int) ∨ ((exText.length : Nat) : Int) < (b : Int)) := by
    have : exText.length = 5 := rfl
    omega
  simp only [h', if_false, obind_ok', Int.toNat_natCast]

/-- training on `B F 1 C` (description `F`) and inferring on `B T 1 C` with the placeholder `T`, through the TRANSLATED functions with
ascending iteration orders: every hypothesis of `train_Infer_agrees` is met, so the translation answers the model's edit -/
example (sc : Infer.Scorer Rat) :
    (trainGo [exTx (exBooking (exRange 0 1) (exRange 1 2))] 0
        (fun _ => (fun _ => Infer.tokenize [70] [67] [49] [70], fun _ => Infer.tokenize [70] [67] [49] [66])) (bayes.NewModel [84])).bind
      (fun gm => bayes.Model.Infer gm (exTx (exBooking (exRange 0 1) (exRange 2 3))) (flOf sc) (extOf sc)) =
      .ok { exTx (exBooking (exRange 0 1) (exRange 2 3)) with
        Bookings := editBs sc (Infer.train [84] [⟨[70], [⟨false, false, ⟨[66], [70], [49], [67]⟩⟩]⟩]) [70]
          [exBooking (exRange 0 1) (exRange 2 3)] [⟨[66], [84], [49], [67]⟩] } := by
  have x01 := exExtract 0 1 (by omega)
  have x12 := exExtract 1 2 (by omega)
  have x23 := exExtract 2 3 (by omega)
  have x34 := exExtract 3 4 (by omega)
  have x45 := exExtract 4 5 (by omega)
  apply train_Infer_agrees sc [84] _ _ [⟨[70], [⟨false, false, ⟨[66], [70], [49], [67]⟩⟩]⟩]
  · exact Forall2.cons ⟨x12, Forall2.cons ⟨⟨x01, x12, x45, x34⟩, rfl, rfl⟩ Forall2.nil⟩ Forall2.nil
  · exact ⟨⟨orderOK_self _ _ _ _, orderOK_self _ _ _ _, trivial⟩, trivial⟩
  · exact x12
  · exact Forall2.cons ⟨x01, x23, x45, x34⟩ Forall2.nil

end Knut.FactsAgree.TransBayes
