import Knut.Model.BalanceReport
import Knut.Spec.Ledger
/-!
# Model of `knut balance` (cmd/commands/balance.go execute) from model directives to the rendered text
-/
namespace Knut

/-- the flags of `knut balance` -/
structure BalanceFlags where
  valuation : Option Commodity := none
  from? : Option Int := none          -- `--from` (absent = Go's zero time)
  to : Int                            -- `--to`, default `date.Today()`
  last : Int := 0
  interval : Interval := .once
  diff : Bool := false
  close : Bool := true
  sortAlpha : Bool := false
  showCommodities : Option (String → Bool) := none
  mapping : List MapRule := []
  remap : String → Bool := fun _ => false
  accountFilter : String → Bool := fun _ => true
  commodityFilter : String → Bool := fun _ => true
  csv : Bool := false
  thousands : Bool := false
  digits : Int := 0

inductive CmdOutcome where
  | ok (stdout : String)
  | error (what : String)
  | panic (site : String)
  deriving Repr, DecidableEq

namespace BalanceCmd

/-- `Multiperiod.Partition(j.Period())`: the flag period clipped to the journal period -/
def window (f : BalanceFlags) (b : Builder) : Period :=
  Period.clip ⟨f.from?.getD 0, f.to⟩ ⟨b.min, b.max⟩

/-- the report entries and the partition; errors and panics of the pipeline -/
def entries (f : BalanceFlags) (ds : List Directive) : Except CmdOutcome (List Entry × Partition) :=
  let b := Builder.ofList ds
  match newPartition (window f b) f.interval f.last with
  | .panic s => .error (.panic s)
  | .ok part =>
    let b := if f.close then b.ensureDays part.startDates else b
    let cfg : BalCfg := { valuation := f.valuation, span := part.span, periods := part.periods, close := f.close,
                          mapping := f.mapping, remap := f.remap, accountFilter := f.accountFilter,
                          commodityFilter := f.commodityFilter }
    match Balance.run cfg b.build with
    | .error _ => .error (.error "processing")
    | .ok st => .ok (st.entries, part)

def renderCfg (f : BalanceFlags) (part : Partition) : RenderCfg :=
  { valuation := f.valuation, showCommodities := f.showCommodities.getD (fun _ => false),
    hasShowCommodities := f.showCommodities.isSome, sortAlpha := f.sortAlpha, diff := f.diff,
    endDates := part.endDates }

/-- `knut balance`: stdout on success -/
def run (f : BalanceFlags) (ds : List Directive) : CmdOutcome :=
  match entries f ds with
  | .error o => o
  | .ok (es, part) =>
    let t := BalanceReport.table (renderCfg f part) es
    if f.csv then .ok (String.ofList (Table.renderCSV t))
    else
      match Table.renderText { thousands := f.thousands, round := f.digits } t with
      | .ok cs => .ok (String.ofList cs)
      | .panic s => .panic s

/-- the same command with the report entries taken from the independent ledger specification
(`Spec.ledgerEntries`) instead of the pipeline; defined for unvalued reports of accepted journals -/
def runSpec (f : BalanceFlags) (ds : List Directive) : CmdOutcome :=
  let b := Builder.ofList ds
  match newPartition (window f b) f.interval f.last with
  | .panic s => .panic s
  | .ok part =>
    let b := if f.close then b.ensureDays part.startDates else b
    let cfg : BalCfg := { valuation := none, span := part.span, periods := part.periods, close := f.close,
                          mapping := f.mapping, remap := f.remap, accountFilter := f.accountFilter,
                          commodityFilter := f.commodityFilter }
    match Check.run b.build with
    | .error _ => .error "processing"
    | .ok _ =>
      let t := BalanceReport.table (renderCfg f part) (Spec.ledgerEntries cfg b.build)
      if f.csv then .ok (String.ofList (Table.renderCSV t))
      else
        match Table.renderText { thousands := f.thousands, round := f.digits } t with
        | .ok cs => .ok (String.ofList cs)
        | .panic s => .panic s

end BalanceCmd
end Knut
