import Knut.Proofs.PrintImport
import Knut.Proofs.Partition
/-!
# What the loader returns is printable (C09, converse direction)

`PrintableDir` is stated on model directives. Here: every directive `loadText` returns, from ANY text, satisfies it.
The parser's soundness (C07/C08: `fileLoop_items`) gives, for every directive of a parsed file, token lists of the right
lexical classes (`DirT.ok`) whose bytes are the fields the elaboration reads; the elaboration's own checks (`time.Parse`,
`decimal.NewFromString`, the account registry) and `transaction.Create` (with `@accrue` expansion) give the rest.
-/
namespace Knut.FromSyntax
open Knut Knut.Syntax Knut.Utf8 Knut.Dec Knut.JournalPrinter Knut.Proofs.Import
set_option linter.unusedVariables false

/-! ### a decoded field is the string of its tokens -/

theorem bytes_of_utf8 {bs : List UInt8} {s : String} (h : utf8 bs = some s) : bs = strBytes s := by
  unfold utf8 String.fromUTF8? at h
  split at h
  · rename_i hv
    simp only [Option.some.injEq] at h
    subst h
    rw [← strBytes_toUTF8]
    have : (String.fromUTF8 ⟨bs.toArray⟩ hv).toByteArray = ⟨bs.toArray⟩ := ByteArray.ext rfl
    show bs = (String.fromUTF8 ⟨bs.toArray⟩ hv).toByteArray.data.toList
    rw [this]
  · cases h

theorem toks_of_utf8 {c : List Tok} {s : String} (hc : Canon c) (h : utf8 (flat c) = some s) : c = strToks s := by
  have e := bytes_of_utf8 h
  have d1 := decodeAll_flat c hc
  rw [e, decodeAll_strBytes] at d1
  exact d1.symm

theorem charTok_r (ch : Char) : (charTok ch).r = ch.toNat := rfl

theorem all_chars_of_toks {p : Nat → Bool} {s : String} (h : All p (strToks s)) : ∀ ch ∈ s.toList, p ch.toNat = true := by
  intro ch hch
  exact h (charTok ch) (List.mem_map.mpr ⟨ch, hch, rfl⟩)

/-! ### fields -/

theorem okName_of_commodityOK {c : List Tok} {s : String} (hok : CommodityOK c) (hc : Canon c)
    (h : utf8 (flat c) = some s) : okName s = true := by
  have e := toks_of_utf8 hc h
  subst e
  obtain ⟨⟨hne, hall⟩, _⟩ := hok
  simp only [okName, Bool.and_eq_true, Bool.not_eq_true', List.isEmpty_eq_false_iff, List.all_eq_true]
  refine ⟨?_, all_chars_of_toks hall⟩
  intro e
  apply hne
  simp [strToks, charsToks, e]

theorem noQuote_of_contentOK {c : List Tok} {s : String} (hok : ContentOK c) (hc : Canon c)
    (h : utf8 (flat c) = some s) : '"' ∉ s.toList := by
  have e := toks_of_utf8 hc h
  subst e
  intro hm
  have := all_chars_of_toks hok.1 '"' hm
  simp at this

theorem isDec_parseDec {s : String} {q : Rat} (h : parseDec s = some q) : IsDec q := by
  unfold parseDec at h
  simp only at h
  repeat' (split at h)
  all_goals first
    | (cases h; done)
    | (simp only [Option.some.injEq] at h; subst h; first | exact isDec_int _ | exact isDec_mkRat _ _)

theorem isDec_decimalV {bs : List UInt8} {q : Rat} (h : decimalV bs = some q) : IsDec q := by
  unfold decimalV at h
  split at h
  · simp only [Option.bind_eq_some_iff] at h
    obtain ⟨s, _, h⟩ := h
    exact isDec_parseDec h
  · cases h

theorem daysIn_eq (y m : Int) : FromSyntax.daysIn y m = Knut.Import.daysIn y m := by
  unfold FromSyntax.daysIn Knut.Import.daysIn
  by_cases h2 : m = 2
  · simp [h2]
  · by_cases h : m = 4 ∨ m = 6 ∨ m = 9 ∨ m = 11
    · rcases h with h | h | h | h <;> simp [h]
    · have h' := h
      simp only [not_or] at h'
      simp [h2, h'.1, h'.2.1, h'.2.2.1, h'.2.2.2]

theorem digit_le {b : UInt8} (h : asciiDigit b = true) : b.toNat - 48 ≤ 9 := by
  simp only [asciiDigit, Bool.and_eq_true, decide_eq_true_eq] at h
  omega

/-- `time.Parse("2006-01-02")` yields a date of the years 0000..9999 -/
theorem printable_parseDate {bs : List UInt8} {z : Int} (h : FromSyntax.parseDate bs = some z) : PrintableDate z := by
  unfold FromSyntax.parseDate at h
  split at h
  · rename_i y1 y2 y3 y4 d1 m1 m2 d2 a1 a2
    split at h
    · rename_i hd
      simp only [List.all_cons, List.all_nil, Bool.and_true, Bool.and_eq_true] at hd
      obtain ⟨_, _, h1, h2, h3, h4, _, _, _, _⟩ := hd
      have b1 := digit_le h1; have b2 := digit_le h2; have b3 := digit_le h3; have b4 := digit_le h4
      simp only at h
      split at h
      · rename_i hr
        simp only [Option.some.injEq] at h
        subst h
        rw [daysIn_eq] at hr
        refine ofCivil_range _ _ _ ?_ ?_ hr.1 hr.2.1 hr.2.2.1 hr.2.2.2
        · simp only [digitsVal, List.foldl_cons, List.foldl_nil]; omega
        · simp only [digitsVal, List.foldl_cons, List.foldl_nil]; omega
      · cases h
    · cases h
  · cases h

/-! ### accounts -/

theorem char_of_toNat {ch : Char} {c : Char} (h : ch.toNat = c.toNat) : ch = c := by
  apply Char.ext
  apply UInt32.toNat_inj.mp
  exact h

/-- splitting the name at the colons gives the segments back -/
theorem ofName_name (a : Account) (hne : a.segments ≠ []) (hcol : ∀ s ∈ a.segments, ':' ∉ s.toList) :
    Account.ofName a.name = a := by
  cases a with
  | mk segs =>
    unfold Account.ofName Account.name
    congr 1
    have e1 : ∀ sl : String.Slice, sl.toString = sl.copy := fun _ => rfl
    simp only [e1]
    rw [String.toList_split_bool]
    simp only [String.toList_intercalate]
    have : (":" : String).toList = [':'] := rfl
    rw [this]
    have key := List.splitOn_intercalate (ls := segs.map String.toList) ':' (by simpa using hcol) (by simpa using hne)
    unfold List.splitOn at key
    rw [key]
    simp

/-- characters of a segment tail -/
theorem segTail_chars : ∀ (tl : List Tok), SegTail tl → ∀ (l : List Char), l.map charTok = tl →
    ∃ segs : List (List Char), (∀ seg ∈ segs, seg ≠ [] ∧ ∀ ch ∈ seg, isAlphanumeric ch.toNat = true) ∧
      l = (segs.map (fun seg => ':' :: seg)).flatten := by
  intro tl h
  induction h with
  | nil =>
    intro l hl
    have : l = [] := by simpa using hl
    exact ⟨[], by simp, by simp [this]⟩
  | cons colon seg rest hc hne hall _ ih =>
    intro l hl
    cases l with
    | nil => simp at hl
    | cons ch l' =>
      simp only [List.map_cons, List.cons_append, List.cons.injEq] at hl
      obtain ⟨h1, h2⟩ := hl
      obtain ⟨ls, lr, e, hs, hr⟩ := List.map_eq_append_iff.mp h2
      obtain ⟨segs, hsegs, hflat⟩ := ih lr hr
      have hch : ch = ':' := by
        apply char_of_toNat
        rw [← charTok_r ch, h1, hc]; rfl
      refine ⟨ls :: segs, ?_, ?_⟩
      · intro sg hsg
        rcases List.mem_cons.mp hsg with rfl | hsg
        · refine ⟨?_, ?_⟩
          · intro e0; subst e0; exact hne (by simpa using hs.symm)
          · intro x hx
            exact hall (charTok x) (by rw [← hs]; exact List.mem_map.mpr ⟨x, hx, rfl⟩)
        · exact hsegs sg hsg
      · rw [hch, e, hflat]; simp

theorem typeName_head {t : String} (h : (AccountType.ofName t).isSome = true) : ∃ c rest, t.toList = c :: rest ∧ c ≠ '$' := by
  unfold AccountType.ofName at h
  repeat' (split at h)
  all_goals first | (cases h; done) | (subst_vars; exact ⟨_, _, rfl, by decide⟩)

theorem letter_not_colon {r : Nat} (h : isLetter r = true) : r ≠ 58 := by
  intro e; subst e
  have := alnum_of_letter h
  rw [alnum_colon] at this; cases this

/-- **an account the loader accepts is printable** -/
theorem printableAccount_of_accountOK {c : List Tok} {a : Account} (hok : AccountOK c) (hc : Canon c)
    (h : accountV (flat c) = some a) : PrintableAccount a = true := by
  unfold accountV at h
  simp only [Option.bind_eq_bind, Option.bind_eq_some_iff] at h
  obtain ⟨s, hs, h⟩ := h
  split at h
  · rename_i hwf
    simp only [Option.some.injEq] at h
    subst h
    have e := toks_of_utf8 hc hs
    obtain ⟨⟨m, hm⟩, _⟩ := hok
    unfold IsAccount at hm
    split at hm
    · -- a macro `$letters` has no account type
      exfalso
      obtain ⟨d, ls, e1, hd, _, hls⟩ := hm
      rw [e] at e1
      unfold strToks charsToks at e1
      cases hl : s.toList with
      | nil => rw [hl] at e1; cases e1
      | cons ch l' =>
        rw [hl] at e1
        simp only [List.map_cons, List.cons.injEq] at e1
        have hch : ch = '$' := by
          apply char_of_toNat
          rw [← charTok_r ch, e1.1, hd]; rfl
        have hcol : ':' ∉ s.toList := by
          rw [hl, hch]
          intro hm
          rcases List.mem_cons.mp hm with h0 | h0
          · cases h0
          · have := hls (charTok ':') (by rw [← e1.2]; exact List.mem_map.mpr ⟨':', h0, rfl⟩)
            exact letter_not_colon this rfl
        have hof : Account.ofName s = ⟨[s]⟩ := by
          have := ofName_name ⟨[s]⟩ (by simp) (by simpa using hcol)
          simpa [Account.name] using this
        rw [hof] at hwf
        simp only [Account.wf, Account.type?] at hwf
        obtain ⟨c0, rest, e0, hne0⟩ := typeName_head hwf
        rw [hl, hch] at e0
        simp only [List.cons.injEq] at e0
        exact hne0 e0.1.symm
    · obtain ⟨a0, tl, e1, ha0, hall, htl⟩ := hm
      rw [e] at e1
      obtain ⟨la, ltl, el, hla, hltl⟩ := List.map_eq_append_iff.mp e1
      obtain ⟨segs, hsegs, hflat⟩ := segTail_chars tl htl ltl hltl
      have hla_ne : la ≠ [] := by intro e0; subst e0; exact ha0 (by simpa using hla.symm)
      have hla_all : ∀ ch ∈ la, isAlphanumeric ch.toNat = true := fun x hx =>
        hall (charTok x) (by rw [← hla]; exact List.mem_map.mpr ⟨x, hx, rfl⟩)
      let a' : Account := ⟨String.ofList la :: segs.map String.ofList⟩
      have hname : s = a'.name := by
        apply String.ext
        rw [name_toList, el, hflat]
        simp [List.map_map, Function.comp_def, String.toList_ofList]
      have hok' : ∀ sg ∈ a'.segments, okName sg = true := by
        intro sg hsg
        simp only [a', List.mem_cons, List.mem_map] at hsg
        rcases hsg with rfl | ⟨x, hx, rfl⟩
        · simp only [okName, String.toList_ofList, Bool.and_eq_true, Bool.not_eq_true', List.isEmpty_eq_false_iff, List.all_eq_true]
          exact ⟨hla_ne, hla_all⟩
        · simp only [okName, String.toList_ofList, Bool.and_eq_true, Bool.not_eq_true', List.isEmpty_eq_false_iff, List.all_eq_true]
          exact hsegs x hx
      have hof : Account.ofName s = a' := by
        rw [hname]
        apply ofName_name a' (by simp [a'])
        intro sg hsg hm
        have := (okName_spec (hok' sg hsg)).2 ':' hm
        rw [show (':' : Char).toNat = 58 from rfl, alnum_colon] at this
        cases this
      rw [hof] at hwf ⊢
      simp only [PrintableAccount, Bool.and_eq_true, List.all_eq_true]
      exact ⟨hwf, hok'⟩
  · cases h

/-! ### the elaborated items -/

def BookingOK (b : Accrual.Booking) : Prop :=
  PrintableAccount b.credit = true ∧ PrintableAccount b.debit = true ∧ IsDec b.quantity ∧ okName b.commodity = true

def AddonOK (a : Accrual.Addon) : Prop := PrintableDate a.start ∧ PrintableDate a.stop ∧ PrintableAccount a.account = true

def TxInputOK (t : Accrual.TxInput) : Prop :=
  PrintableDate t.date ∧ '"' ∉ t.description.toList ∧ t.bookings ≠ [] ∧ (∀ b ∈ t.bookings, BookingOK b) ∧
  (∀ c ∈ t.targets.getD [], okName c = true) ∧ (∀ a, t.accrual = some a → AddonOK a)

def ItemOK : Item → Prop
  | .price p => PrintableDir (.price p)
  | .opening o => PrintableDir (.opening o)
  | .closing c => PrintableDir (.closing c)
  | .assertion a => PrintableDir (.assertion a)
  | .tx t => TxInputOK t
  | .includeFile _ => True

theorem mapM_all {α β : Type} {f : α → Option β} {P : α → Prop} {Q : β → Prop} (hf : ∀ a b, P a → f a = some b → Q b) :
    ∀ (l : List α) (r : List β), (∀ a ∈ l, P a) → l.mapM f = some r → (∀ b ∈ r, Q b) ∧ r.length = l.length
  | [], r, _, h => by simp at h; subst h; exact ⟨fun b hb => (by cases hb), rfl⟩
  | a :: l, r, hp, h => by
    simp only [List.mapM_cons, Option.bind_eq_bind, Option.bind_eq_some_iff, Option.pure_def, Option.some.injEq] at h
    obtain ⟨b, hb, r', hr', rfl⟩ := h
    obtain ⟨i1, i2⟩ := mapM_all hf l r' (fun x hx => hp x (List.mem_cons_of_mem _ hx)) hr'
    refine ⟨?_, by simp [i2]⟩
    intro x hx
    rcases List.mem_cons.mp hx with rfl | hx
    · exact hf a _ (hp a List.mem_cons_self) hb
    · exact i1 x hx

theorem bookingOK_of (b : BookingT) (hok : b.ok) (hc : b.canon) (x : Accrual.Booking) (h : bookingV b.bytes = some x) :
    BookingOK x := by
  simp only [bookingV, BookingT.bytes, Option.bind_eq_bind, Option.bind_eq_some_iff, Option.pure_def, Option.some.injEq] at h
  obtain ⟨cr, h1, dr, h2, q, h3, c, h4, rfl⟩ := h
  exact ⟨printableAccount_of_accountOK hok.1 hc.1 h1, printableAccount_of_accountOK hok.2.1 hc.2.1 h2, isDec_decimalV h3,
    okName_of_commodityOK hok.2.2.2 hc.2.2.2 h4⟩

theorem balanceOK_of (b : BalanceT) (hok : b.ok) (hc : b.canon) (x : Balance) (h : balanceV b.bytes = some x) :
    PrintableBalance x := by
  simp only [balanceV, BalanceT.bytes, Option.bind_eq_bind, Option.bind_eq_some_iff, Option.pure_def, Option.some.injEq] at h
  obtain ⟨acc, h1, q, h2, c, h3, rfl⟩ := h
  exact ⟨printableAccount_of_accountOK hok.1 hc.1 h1, (isDec_decimalV h2).printable, okName_of_commodityOK hok.2.2 hc.2.2 h3⟩

/-- **the elaboration of a parsed directive has printable fields** -/
theorem itemOK_of_view (v : DirT) (hok : v.ok) (hc : v.canon) (it : Item) (h : itemV v.bytes = some it) : ItemOK it := by
  cases v with
  | «open» d a =>
    simp only [itemV, DirT.bytes, Option.bind_eq_bind, Option.bind_eq_some_iff, Option.pure_def, Option.some.injEq] at h
    obtain ⟨acc, h1, dt, h2, rfl⟩ := h
    exact ⟨printable_parseDate h2, printableAccount_of_accountOK hok.2 hc.2 h1⟩
  | close d a =>
    simp only [itemV, DirT.bytes, Option.bind_eq_bind, Option.bind_eq_some_iff, Option.pure_def, Option.some.injEq] at h
    obtain ⟨acc, h1, dt, h2, rfl⟩ := h
    exact ⟨printable_parseDate h2, printableAccount_of_accountOK hok.2 hc.2 h1⟩
  | price d c p t =>
    simp only [itemV, DirT.bytes, Option.bind_eq_bind, Option.bind_eq_some_iff, Option.pure_def, Option.some.injEq] at h
    obtain ⟨dt, h1, c', h2, pr, h3, t', h4, rfl⟩ := h
    exact ⟨printable_parseDate h1, okName_of_commodityOK hok.2.1 hc.2.1 h2, (isDec_decimalV h3).printable,
      okName_of_commodityOK hok.2.2.2 hc.2.2.2 h4⟩
  | «include» p =>
    simp only [itemV, DirT.bytes, Option.bind_eq_bind, Option.bind_eq_some_iff, Option.pure_def, Option.some.injEq] at h
    obtain ⟨_, _, rfl⟩ := h
    trivial
  | assertion d bs =>
    simp only [itemV, DirT.bytes, Option.bind_eq_bind, Option.bind_eq_some_iff, Option.pure_def, Option.some.injEq] at h
    obtain ⟨dt, h1, bals, h2, rfl⟩ := h
    rw [List.mapM_map] at h2
    obtain ⟨i1, i2⟩ := mapM_all (P := fun b : BalanceT => b.ok ∧ b.canon) (Q := PrintableBalance)
      (fun b x hb hx => balanceOK_of b hb.1 hb.2 x hx) bs bals (fun b hb => ⟨hok.2.2 b hb, hc.2 b hb⟩) h2
    refine ⟨printable_parseDate h1, ?_, i1⟩
    intro e
    have e' : bals = [] := e
    rw [e'] at i2
    exact hok.2.1 (List.eq_nil_of_length_eq_zero i2.symm)
  | transaction accr perf d desc bks =>
    simp only [itemV, DirT.bytes, Option.bind_eq_bind, Option.bind_eq_some_iff, Option.pure_def, Option.some.injEq] at h
    obtain ⟨dt, h1, ds, h2, bs, h3, tg, h4, ac, h5, rfl⟩ := h
    rw [List.mapM_map] at h3
    obtain ⟨i1, i2⟩ := mapM_all (P := fun b : BookingT => b.ok ∧ b.canon) (Q := BookingOK)
      (fun b x hb hx => bookingOK_of b hb.1 hb.2 x hx) bks bs (fun b hb => ⟨hok.2.2.2.2.2 b hb, hc.2.2.2.2 b hb⟩) h3
    refine ⟨printable_parseDate h1, noQuote_of_contentOK hok.2.2.2.1 hc.2.2.2.1 h2, ?_, i1, ?_, ?_⟩
    · intro e
      have e' : bs = [] := e
      rw [e'] at i2
      exact hok.2.2.2.2.1 (List.eq_nil_of_length_eq_zero i2.symm)
    · intro c hcm
      cases perf with
      | none => simp at h4; subst h4; cases hcm
      | some ts =>
        simp only [Option.map_some, Option.map_eq_some_iff] at h4
        obtain ⟨l, hl, rfl⟩ := h4
        rw [List.mapM_map] at hl
        obtain ⟨j1, _⟩ := mapM_all (P := fun t : List Tok => CommodityOK t ∧ Canon t) (Q := fun s => okName s = true)
          (fun t x ht hx => okName_of_commodityOK ht.1 ht.2 hx) ts l (fun t ht => ⟨hok.2.1 ts rfl t ht, hc.2.1 ts rfl t ht⟩) hl
        exact j1 c (by simpa using hcm)
    · intro a ha
      cases accr with
      | none => simp at h5; subst h5; cases ha
      | some at' =>
        simp only [Option.map_some, Option.map_eq_some_iff] at h5
        obtain ⟨ad, had, rfl⟩ := h5
        simp only [Option.some.injEq] at ha
        subst ha
        simp only [accrualV, AccrualT.bytes, Option.bind_eq_bind, Option.bind_eq_some_iff, Option.pure_def,
          Option.some.injEq] at had
        obtain ⟨ivs, _, iv, _, st, g1, en, g2, acc, g3, rfl⟩ := had
        have aok := hok.1 at' rfl
        have acan := hc.1 at' rfl
        exact ⟨printable_parseDate g1, printable_parseDate g2, printableAccount_of_accountOK aok.2.2.2 acan.2.2.2 g3⟩

/-! ### `transaction.Create` -/

theorem postingBuild_mem {cr dr : Account} {c : Commodity} {q : Rat} {p : Posting} (hp : p ∈ postingBuild cr dr c q) :
    ((p.account = cr ∧ p.other = dr) ∨ (p.account = dr ∧ p.other = cr)) ∧ p.commodity = c ∧
      (p.quantity = q ∨ p.quantity = -q) := by
  simp only [postingBuild, List.mem_cons, List.not_mem_nil, or_false] at hp
  rcases hp with rfl | rfl <;> simp only <;> split <;> simp [Rat.neg_neg]

theorem mem_everyOther : ∀ (l : List Posting) (p : Posting), p ∈ everyOther l → p ∈ l
  | [], _, h => by cases h
  | [_], _, h => by cases h
  | a :: b :: rest, p, h => by
    simp only [everyOther, List.mem_cons] at h
    rcases h with rfl | h
    · simp
    · exact List.mem_cons_of_mem _ (List.mem_cons_of_mem _ (mem_everyOther rest p h))

theorem everyOther_postingsOf_ne (bks : List Accrual.Booking) (h : bks ≠ []) : everyOther (Accrual.postingsOf bks) ≠ [] := by
  cases bks with
  | nil => exact absurd rfl h
  | cons b rest => simp [Accrual.postingsOf, postingBuild, everyOther]

theorem postingsOf_fine (bks : List Accrual.Booking) (h : ∀ b ∈ bks, BookingOK b) :
    ∀ p ∈ Accrual.postingsOf bks, PrintableAccount p.account = true ∧ PrintableAccount p.other = true ∧ IsDec p.quantity ∧
      okName p.commodity = true := by
  intro p hp
  obtain ⟨b, hb, hp⟩ := List.mem_flatMap.mp hp
  obtain ⟨hacc, hcom, hq⟩ := postingBuild_mem hp
  obtain ⟨b1, b2, b3, b4⟩ := h b hb
  refine ⟨?_, ?_, ?_, by rw [hcom]; exact b4⟩
  · rcases hacc with h | h <;> rw [h.1] <;> assumption
  · rcases hacc with h | h <;> rw [h.2] <;> assumption
  · rcases hq with h | h <;> rw [h]
    · exact b3
    · exact isDec_neg b3

/-- a transaction built from elaborated bookings is printable -/
theorem printableTx_of_bookings (date : Int) (desc : String) (targets : Option (List Commodity)) (bks : List Accrual.Booking)
    (hd : PrintableDate date) (hq : '"' ∉ desc.toList) (hne : bks ≠ []) (hb : ∀ b ∈ bks, BookingOK b)
    (ht : ∀ c ∈ targets.getD [], okName c = true) :
    PrintableTx { date := date, description := desc, postings := Accrual.postingsOf bks, targets := targets } := by
  refine ⟨hd, hq, everyOther_postingsOf_ne bks hne, ?_, nf_postingsOf bks, ht⟩
  intro p hp
  obtain ⟨h1, h2, h3, h4⟩ := postingsOf_fine bks hb p (mem_everyOther _ p hp)
  exact ⟨h2, h1, h3.printable, h4⟩

theorem toString_nat_noQuote : ∀ k : Nat, '"' ∉ (toString k).toList := by
  intro k hk
  rw [Nat.toString_eq_ofList_toDigits, String.toList_ofList] at hk
  have := Nat.isDigit_of_mem_toDigits (by decide) (by decide) hk
  revert this
  decide

theorem partDesc_noQuote (desc : String) (i n : Nat) (h : '"' ∉ desc.toList) : '"' ∉ (Accrual.partDesc desc i n).toList := by
  unfold Accrual.partDesc
  have ts : ∀ s : String, toString s = s := fun _ => rfl
  rw [ts, ts, ts, ts]
  simp only [String.toList_append, List.mem_append, not_or]
  have h1 : '"' ∉ (" (accrual " : String).toList := by decide
  have h2 : '"' ∉ ("/" : String).toList := by decide
  have h3 : '"' ∉ (")" : String).toList := by decide
  exact ⟨⟨⟨⟨⟨h, h1⟩, toString_nat_noQuote _⟩, h2⟩, toString_nat_noQuote _⟩, h3⟩

/-! ### `@accrue` -/

theorem rebook_printable (t : Transaction) (date : Int) (desc : String) (acc : Account) (p : Posting) (q : Rat)
    (hd : PrintableDate date) (hq : '"' ∉ desc.toList) (hacc : PrintableAccount acc = true)
    (hpa : PrintableAccount p.account = true) (hpc : okName p.commodity = true) (hdec : IsDec q)
    (ht : ∀ c ∈ t.targets.getD [], okName c = true) : PrintableTx (Accrual.rebook t date desc acc p q) := by
  have := printableTx_of_bookings date desc t.targets [⟨acc, p.account, q, p.commodity⟩] hd hq (by simp)
    (by
      intro b hb
      simp only [List.mem_cons, List.not_mem_nil, or_false] at hb
      subst hb
      exact ⟨hacc, hpa, hdec, hpc⟩) ht
  simpa [Accrual.postingsOf, Accrual.rebook] using this

theorem endDates_bounds {start stop : Int} {iv : Interval} {part : Partition}
    (h : newPartition ⟨start, stop⟩ iv 0 = .ok part) : ∀ dt ∈ part.endDates, (start ≤ dt ∧ dt ≤ stop) ∨ dt = stop := by
  unfold newPartition at h
  split at h
  · cases h
  · simp only [Outcome.ok.injEq] at h
    subst h
    intro dt hdt
    simp only [Partition.endDates, List.mem_map] at hdt
    obtain ⟨p, hp, rfl⟩ := hdt
    unfold periodsOf at hp
    split at hp
    · simp only [List.mem_cons, List.not_mem_nil, or_false] at hp
      subst hp
      exact Or.inr rfl
    · have := _root_.Knut.Tiles.mem_bounds (_root_.Knut.partLoop_tiles start iv 0 stop 0 (by omega)) p (List.mem_reverse.mp hp)
      exact Or.inl ⟨by omega, by omega⟩

theorem isDec_quoRem {a : Rat} {n : Int} {amount rem : Rat} (ha : IsDec a) (h : Dec.quoRem a (n : Rat) 1 = some (amount, rem)) :
    IsDec amount ∧ IsDec rem := by
  unfold Dec.quoRem at h
  split at h
  · cases h
  · simp only [Option.some.injEq, Prod.mk.injEq] at h
    obtain ⟨h1, h2⟩ := h
    subst h1 h2
    have hq : IsDec (Dec.trunc 1 (a / (n : Rat))) := isDec_mkRat _ 1
    exact ⟨hq, isDec_sub ha (isDec_mul hq (isDec_int n))⟩

theorem ieLoop_printable (t : Transaction) (acc : Account) (p : Posting) (n : Nat) (amount rem : Rat)
    (hq : '"' ∉ t.description.toList) (hacc : PrintableAccount acc = true) (hpa : PrintableAccount p.account = true)
    (hpc : okName p.commodity = true) (ha : IsDec amount) (hr : IsDec rem) (ht : ∀ c ∈ t.targets.getD [], okName c = true) :
    ∀ (dts : List Int) (i : Nat), (∀ dt ∈ dts, PrintableDate dt) →
      ∀ u ∈ Accrual.ieLoop t acc p n amount rem i dts, PrintableTx u := by
  intro dts
  induction dts with
  | nil => intro i _ u hu; cases hu
  | cons dt rest ih =>
    intro i hd u hu
    simp only [Accrual.ieLoop, List.mem_cons] at hu
    rcases hu with rfl | hu
    · apply rebook_printable t dt _ acc p _ (hd dt List.mem_cons_self) (partDesc_noQuote _ _ _ hq) hacc hpa hpc ?_ ht
      split
      · exact isDec_add ha hr
      · exact ha
    · exact ih (i + 1) (fun x hx => hd x (List.mem_cons_of_mem _ hx)) u hu

theorem expandPosting_printable (t : Transaction) (a : Accrual.Addon) (p : Posting) (txs : List Transaction)
    (hd : PrintableDate t.date) (hq : '"' ∉ t.description.toList) (hao : AddonOK a) (hle : a.start ≤ a.stop)
    (hpa : PrintableAccount p.account = true) (hpc : okName p.commodity = true) (hpq : IsDec p.quantity)
    (ht : ∀ c ∈ t.targets.getD [], okName c = true) (h : Accrual.expandPosting t a p = .ok txs) :
    ∀ u ∈ txs, PrintableTx u := by
  unfold Accrual.expandPosting at h
  split at h
  · simp only [Accrual.Step.ok.injEq] at h
    subst h
    intro u hu
    simp only [List.mem_cons, List.not_mem_nil, or_false] at hu
    subst hu
    exact rebook_printable t _ _ _ p _ hd hq hao.2.2 hpa hpc hpq ht
  · split at h
    · cases h
    · rename_i part hpart
      split at h
      · cases h
      · rename_i amount rem hqr
        simp only [Accrual.Step.ok.injEq] at h
        subst h
        obtain ⟨d1, d2⟩ := isDec_quoRem hpq hqr
        apply ieLoop_printable t a.account p _ amount rem hq hao.2.2 hpa hpc d1 d2 ht
        intro dt hdt
        rcases endDates_bounds hpart dt hdt with hb | hb
        · exact ⟨Int.le_trans hao.1.1 hb.1, Int.le_trans hb.2 hao.2.1.2⟩
        · rw [hb]; exact hao.2.1

theorem expandLoop_printable (t : Transaction) (a : Accrual.Addon) (hd : PrintableDate t.date) (hq : '"' ∉ t.description.toList)
    (hao : AddonOK a) (hle : a.start ≤ a.stop) (ht : ∀ c ∈ t.targets.getD [], okName c = true) :
    ∀ (ps : List Posting) (txs : List Transaction),
      (∀ p ∈ ps, PrintableAccount p.account = true ∧ okName p.commodity = true ∧ IsDec p.quantity) →
      Accrual.expandLoop t a ps = .ok txs → ∀ u ∈ txs, PrintableTx u := by
  intro ps
  induction ps with
  | nil =>
    intro txs _ h
    simp only [Accrual.expandLoop, Accrual.Step.ok.injEq] at h
    subst h; intro u hu; cases hu
  | cons p rest ih =>
    intro txs hp h
    simp only [Accrual.expandLoop] at h
    cases h1 : Accrual.expandPosting t a p with
    | panic s => rw [h1] at h; cases h
    | ok txs1 =>
      rw [h1] at h
      cases h2 : Accrual.expandLoop t a rest with
      | panic s => rw [h2] at h; cases h
      | ok txs2 =>
        rw [h2] at h
        simp only [Accrual.Step.ok.injEq] at h
        subst h
        intro u hu
        obtain ⟨p1, p2, p3⟩ := hp p List.mem_cons_self
        rcases List.mem_append.mp hu with hu | hu
        · exact expandPosting_printable t a p txs1 hd hq hao hle p1 p2 p3 ht h1 u hu
        · exact ih txs2 (fun x hx => hp x (List.mem_cons_of_mem _ hx)) h2 u hu

/-- **every transaction `transaction.Create` returns for an elaborated syntax transaction is printable** -/
theorem create_printable (ti : Accrual.TxInput) (hok : TxInputOK ti) (txs : List Transaction)
    (h : Accrual.create ti = .ok txs) : ∀ u ∈ txs, PrintableTx u := by
  obtain ⟨hd, hq, hne, hb, ht, ha⟩ := hok
  have hres := printableTx_of_bookings ti.date ti.description ti.targets ti.bookings hd hq hne hb ht
  unfold Accrual.create at h
  split at h
  · cases h
  · simp only at h
    split at h
    · simp only [Accrual.Result.ok.injEq] at h
      subst h
      intro u hu
      simp only [List.mem_cons, List.not_mem_nil, or_false] at hu
      subst hu
      exact hres
    · rename_i a hacc
      unfold Accrual.expand at h
      split at h
      · cases h
      · split at h
        · cases h
        · rename_i hle
          split at h
          · cases h
          · rename_i txs' h3
            simp only [Accrual.Result.ok.injEq] at h
            subst h
            refine expandLoop_printable _ a hd hq (ha a hacc) (by omega) ht _ _ ?_ h3
            intro p hp
            obtain ⟨p1, _, p3, p4⟩ := postingsOf_fine ti.bookings hb p hp
            exact ⟨p1, p4, p3⟩

/-! ### the loader -/

theorem itemsOK_views {text : Bytes} : ∀ {off : Nat} {items : List Syntax.Item}, ItemsOK text off items →
    ∀ v ∈ viewsOf items, v.ok ∧ v.canon
  | _, [], _, v, hv => by cases hv
  | off, .gap c w nl :: rest, h, v, hv => by
    unfold ItemsOK at h
    exact itemsOK_views h.2.2.2.2.2.2.2.2 v hv
  | off, .dir D d v0 w nl :: rest, h, v, hv => by
    unfold ItemsOK at h
    obtain ⟨_, _, vok, vcan, _, _, _, _, _, _, hrest⟩ := h
    simp only [viewsOf, List.mem_cons] at hv
    rcases hv with rfl | hv
    · exact ⟨vok, vcan⟩
    · exact itemsOK_views hrest v hv

/-- the parser's soundness, as far as the elaboration needs it: the directives of a parsed file have field views of the
right lexical classes -/
theorem parse_views {path : String} {text : Bytes} {f : Syntax.File} (h : parseText path text = .ok f) :
    ∃ vs : List DirT, (∀ v ∈ vs, v.ok ∧ v.canon) ∧ f.directives.mapM (viewDirective text) = some (vs.map DirT.bytes) := by
  unfold parseText at h
  split at h
  · cases h
  · rename_i u s0 hs
    have e0 := start_ok hs
    have hv0 := start_headValid hs
    subst e0
    split at h
    · rename_i f' s' hp
      injection h with h
      subst h
      unfold parseFile at hp
      obtain ⟨items, i1, i2, i3⟩ := fileLoop_items hp (good_start text) hv0
      simp only [List.reverse_nil, List.nil_append] at i2
      simp only at i3
      exact ⟨viewsOf items, itemsOK_views i3, by rw [i2]; exact items_views i3⟩
    · cases h

theorem loadItems_go_printable (items : List Item) (h : ∀ it ∈ items, ItemOK it) (acc ds : List Directive)
    (hacc : ∀ x ∈ acc, PrintableDir x) (hl : loadItems.go items acc = .ok ds) : ∀ x ∈ ds, PrintableDir x := by
  induction items generalizing acc with
  | nil =>
    simp only [loadItems.go, Loaded.ok.injEq] at hl
    subst hl
    intro x hx
    exact hacc x (List.mem_reverse.mp hx)
  | cons it rest ih =>
    have hit := h it List.mem_cons_self
    have hrest := fun x hx => h x (List.mem_cons_of_mem _ hx)
    cases it with
    | tx ti =>
      simp only [loadItems.go] at hl
      cases hc : Accrual.create ti with
      | error => rw [hc] at hl; cases hl
      | panic s => rw [hc] at hl; cases hl
      | ok txs =>
        rw [hc] at hl
        apply ih hrest _ _ hl
        intro x hx
        rcases List.mem_append.mp hx with hx | hx
        · obtain ⟨u, hu, rfl⟩ := List.mem_map.mp (List.mem_reverse.mp hx)
          exact create_printable ti hit txs hc u hu
        · exact hacc x hx
    | includeFile p => simp only [loadItems.go] at hl; exact ih hrest _ hacc hl
    | _ =>
      simp only [loadItems.go] at hl
      apply ih hrest _ _ hl
      intro x hx
      rcases List.mem_cons.mp hx with rfl | hx
      · exact hit
      · exact hacc x hx

/-- **every directive the loader returns, from any text, is printable** -/
theorem loadText_printable (path : String) (text : List UInt8) (ds : List Directive) (h : loadText path text = .ok ds) :
    ∀ x ∈ ds, PrintableDir x := by
  unfold loadText at h
  split at h
  · cases h
  · rename_i f hp
    obtain ⟨vs, hvs, hviews⟩ := parse_views hp
    split at h
    · unfold loadFailed at h
      split at h <;> cases h
    · rename_i items hitems
      have e : f.directives.mapM (item text) = (vs.map DirT.bytes).mapM itemV :=
        mapM_congr_view hviews (fun d w hw => item_of_view hw)
      rw [e, List.mapM_map] at hitems
      obtain ⟨hok, _⟩ := mapM_all (P := fun v : DirT => v.ok ∧ v.canon) (Q := ItemOK)
        (fun v it hv hit => itemOK_of_view v hv.1 hv.2 it hit) vs items hvs hitems
      exact loadItems_go_printable items hok [] ds (fun x hx => by cases hx) h

end Knut.FromSyntax
