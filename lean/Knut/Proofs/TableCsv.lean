import Knut.Proofs.TableNum
/-!
# Helper lemmas for C17: CSV

`String()` of a decimal amount reads back as the amount itself; the records written are the non-blank
rows; what `encoding/csv.Writer` emits parses back (`parseCSV`) to exactly those records.
-/
open Knut.Dec Knut.Table Knut.Table.Spec
namespace Knut.Table

/-- the amount is a decimal fraction whose scale `showDec` finds (every `decimal.Decimal` is) -/
def isDecimal (d : Rat) : Bool := (10 ^ scaleOf d) % d.den == 0

theorem parseDec_showDec (d : Rat) (h : isDecimal d = true) : parseDec (showDec d) = some d := by
  unfold showDec
  simp only [parseDec_showScaled]
  congr 1
  unfold isDecimal at h
  have hdvd : d.den ∣ 10 ^ scaleOf d := Nat.dvd_of_mod_eq_zero (by simpa using h)
  obtain ⟨c, hc⟩ := hdvd
  have hpow : (10 ^ scaleOf d : Nat) ≠ 0 := Nat.ne_of_gt (Nat.pow_pos (by decide))
  have hd : mkRat d.num d.den = d := Rat.mkRat_self d
  conv => rhs; rw [← hd]
  rw [Rat.mkRat_eq_iff hpow d.den_nz]
  unfold pow10
  have hden : (d.den : Int) ≠ 0 := by have := d.den_pos; omega
  have e : ((10 : Int) ^ scaleOf d) = (d.den : Int) * (c : Int) := by
    have : ((10 ^ scaleOf d : Nat) : Int) = ((d.den * c : Nat) : Int) := by rw [hc]
    simpa using this
  rw [e, ← Int.mul_assoc, Int.mul_comm d.num, Int.mul_assoc, Int.mul_ediv_cancel_left _ hden]
  simp only [hc]
  push_cast
  rw [Int.mul_comm (d.den : Int) c, ← Int.mul_assoc]


def cellDecimal : Cell → Prop
  | .num d => isDecimal d = true
  | _ => True

theorem showDec_ne_nil (d : Rat) : (showDec d).toList ≠ [] := by
  unfold showDec
  rw [showScaled_toList]
  intro h
  simp only [List.append_eq_nil_iff] at h
  exact digitsOf_ne_nil _ h.1.2

theorem csvFieldShows_csvCell (c : Cell) (h : cellDecimal c) : csvFieldShows c (csvCell c) = true := by
  cases c with
  | empty => rfl
  | sep => rfl
  | text s a i => simp [csvFieldShows, csvCell]
  | num d =>
    simp only [csvFieldShows, csvCell, String.ofList_toList]
    rw [parseDec_showDec d h]
    simp

theorem recordShows_map : ∀ (row : List Cell), (∀ c ∈ row, cellDecimal c) → recordShows row (row.map csvCell) = true
  | [], _ => rfl
  | c :: cs, h => by
    simp only [List.map_cons, recordShows, Bool.and_eq_true]
    exact ⟨csvFieldShows_csvCell c (h c (by simp)), recordShows_map cs (fun x hx => h x (by simp [hx]))⟩

theorem rowBlank_iff (row : List Cell) :
    rowBlank row = !((row.map csvCell).any (fun f => !f.isEmpty)) := by
  induction row with
  | nil => rfl
  | cons c cs ih =>
    simp only [rowBlank, List.all_cons, List.map_cons, List.any_cons, Bool.not_or] at ih ⊢
    rw [ih]
    congr 1
    cases c with
    | empty => rfl
    | sep => rfl
    | text s a i => simp [csvCell]
    | num d =>
      simp only [csvCell]
      have := showDec_ne_nil d
      cases h : (showDec d).toList with
      | nil => exact absurd h this
      | cons _ _ => rfl

/-- the records written are the non-blank rows, in order, each field showing its cell exactly -/
theorem csvOK_records : ∀ (rows : List (List Cell)), (∀ row ∈ rows, ∀ c ∈ row, cellDecimal c) →
    csvOK rows ((rows.map (fun row => row.map csvCell)).filter (fun rec => rec.any (fun f => !f.isEmpty))) = true
  | [], _ => rfl
  | row :: rows, h => by
    have ih := csvOK_records rows (fun x hx => h x (by simp [hx]))
    simp only [List.map_cons, List.filter_cons]
    by_cases hb : rowBlank row = true
    · have : (row.map csvCell).any (fun f => !f.isEmpty) = false := by
        rw [rowBlank_iff] at hb; simpa using hb
      simp only [this, Bool.false_eq_true, if_false, csvOK, hb, if_true]
      exact ih
    · have hb' : rowBlank row = false := by simpa using hb
      have : (row.map csvCell).any (fun f => !f.isEmpty) = true := by
        rw [rowBlank_iff] at hb'; simpa using hb'
      simp only [this, if_true, csvOK, hb', Bool.false_eq_true, if_false, Bool.and_eq_true]
      exact ⟨recordShows_map row (h row (by simp)), ih⟩



def isSpecial (c : Char) : Bool := c == '\n' || c == '\r' || c == '"' || c == ','

theorem unquoted_run (term : Char) (hterm : term = ',' ∨ term = '\n') (rest : List Char)
    (rec : List (List Char)) (recs : List (List (List Char))) :
    ∀ (f acc : List Char), (∀ c ∈ f, isSpecial c = false) →
      parseCSVGo (f ++ term :: rest) .unquoted acc rec recs =
        parseCSVGo (term :: rest) .unquoted (f.reverse ++ acc) rec recs := by
  intro f
  induction f with
  | nil => intro acc _; rfl
  | cons c f ih =>
    intro acc h
    have hc := h c (by simp)
    simp only [isSpecial, Bool.or_eq_false_iff, beq_eq_false_iff_ne] at hc
    rw [List.cons_append, parseCSVGo]
    simp only [hc.1.2, hc.2, hc.1.1.1, if_false]
    rw [ih (c :: acc) (fun x hx => h x (by simp [hx]))]
    simp

def esc (c : Char) : List Char := if c = '"' then ['"', '"'] else [c]

theorem quoted_run (tail : List Char) (rec : List (List Char)) (recs : List (List (List Char))) :
    ∀ (f acc : List Char),
      parseCSVGo (f.flatMap esc ++ '"' :: tail) .quoted acc rec recs =
        parseCSVGo tail .quoteSeen (f.reverse ++ acc) rec recs := by
  intro f
  induction f with
  | nil => intro acc; simp [parseCSVGo]
  | cons c f ih =>
    intro acc
    by_cases hc : c = '"'
    · subst hc
      simp only [List.flatMap_cons, esc, if_true, List.cons_append, List.nil_append]
      rw [parseCSVGo]; simp only [if_true]
      rw [parseCSVGo]; simp only [if_true]
      rw [ih]; simp
    · simp only [List.flatMap_cons, esc, hc, if_false, List.cons_append, List.nil_append]
      rw [parseCSVGo]; simp only [hc, if_false]
      rw [ih]; simp

theorem csvField_eq (f : List Char) : csvField f = if fieldNeedsQuotes f then '"' :: f.flatMap esc ++ ['"'] else f := rfl

theorem noSpecial_of_unquoted {f : List Char} (h : fieldNeedsQuotes f = false) : ∀ c ∈ f, isSpecial c = false := by
  unfold fieldNeedsQuotes at h
  intro c hc
  cases f with
  | nil => simp at hc
  | cons a f' =>
    simp only [List.isEmpty_cons, Bool.false_eq_true, if_false] at h
    split at h
    · simp at h
    · split at h
      · simp at h
      · rename_i hany
        have : ¬ ((c == '\n' || c == '\r' || c == '"' || c == ',') = true) :=
          fun hx => hany (List.any_eq_true.mpr ⟨c, hc, hx⟩)
        unfold isSpecial
        simpa using this

/-- one field followed by a comma -/
theorem field_comma (f rest x : List Char) (rec : List (List Char)) (recs : List (List (List Char))) :
    parseCSVGo (csvField f ++ ',' :: rest) .fieldStart x rec recs = parseCSVGo rest .fieldStart [] (f :: rec) recs := by
  rw [csvField_eq]
  by_cases hq : fieldNeedsQuotes f = true
  · simp only [hq, if_true, List.cons_append, List.append_assoc, List.singleton_append, List.nil_append]
    rw [parseCSVGo]; simp only [if_true]
    rw [quoted_run, parseCSVGo]
    simp
  · have hq' : fieldNeedsQuotes f = false := by simpa using hq
    have hns := noSpecial_of_unquoted hq'
    simp only [hq', Bool.false_eq_true, if_false]
    cases f with
    | nil => simp [parseCSVGo]
    | cons c f' =>
      have hc := hns c (by simp)
      simp only [isSpecial, Bool.or_eq_false_iff, beq_eq_false_iff_ne] at hc
      rw [List.cons_append, parseCSVGo]
      simp only [hc.1.2, hc.2, hc.1.1.1, if_false]
      rw [unquoted_run ',' (Or.inl rfl) rest rec recs f' [c] (fun y hy => hns y (by simp [hy])), parseCSVGo]
      simp

/-- the last field of a record, followed by the line end -/
theorem field_newline (f rest x : List Char) (rec : List (List Char)) (recs : List (List (List Char))) :
    parseCSVGo (csvField f ++ '\n' :: rest) .fieldStart x rec recs =
      parseCSVGo rest .fieldStart [] [] ((f :: rec).reverse :: recs) := by
  rw [csvField_eq]
  by_cases hq : fieldNeedsQuotes f = true
  · simp only [hq, if_true, List.cons_append, List.append_assoc, List.singleton_append, List.nil_append]
    rw [parseCSVGo]; simp only [if_true]
    rw [quoted_run, parseCSVGo]
    simp
  · have hq' : fieldNeedsQuotes f = false := by simpa using hq
    have hns := noSpecial_of_unquoted hq'
    simp only [hq', Bool.false_eq_true, if_false]
    cases f with
    | nil => simp [parseCSVGo]
    | cons c f' =>
      have hc := hns c (by simp)
      simp only [isSpecial, Bool.or_eq_false_iff, beq_eq_false_iff_ne] at hc
      rw [List.cons_append, parseCSVGo]
      simp only [hc.1.2, hc.2, hc.1.1.1, if_false]
      rw [unquoted_run '\n' (Or.inr rfl) rest rec recs f' [c] (fun y hy => hns y (by simp [hy])), parseCSVGo]
      simp

theorem record_parse (rest : List Char) (recs : List (List (List Char))) :
    ∀ (fs : List (List Char)) (racc : List (List Char)) (x : List Char), fs ≠ [] →
      parseCSVGo (joinFields (fs.map csvField) ++ '\n' :: rest) .fieldStart x racc recs =
        parseCSVGo rest .fieldStart [] [] ((racc.reverse ++ fs) :: recs)
  | [], _, _, h => absurd rfl h
  | [f], racc, x, _ => by
    simp only [List.map_cons, List.map_nil, joinFields]
    rw [field_newline]; simp
  | f :: g :: fs, racc, x, _ => by
    simp only [List.map_cons, joinFields, List.append_assoc, List.cons_append]
    rw [field_comma]
    have := record_parse rest recs (g :: fs) (f :: racc) [] (by simp)
    simp only [List.map_cons] at this
    rw [this]; simp

theorem records_parse : ∀ (rs : List (List (List Char))) (acc : List (List (List Char))),
    (∀ rec ∈ rs, rec ≠ []) → parseCSVGo (rs.flatMap csvLine) .fieldStart [] [] acc = some (acc.reverse ++ rs)
  | [], acc, _ => by simp [parseCSVGo]
  | rec :: rs, acc, h => by
    simp only [List.flatMap_cons, csvLine, List.append_assoc, List.singleton_append]
    rw [record_parse _ _ rec [] [] (h rec (by simp))]
    simp only [List.reverse_nil, List.nil_append]
    rw [records_parse rs (rec :: acc) (fun x hx => h x (by simp [hx]))]
    simp



/-- a divisor of a power of ten divides `10 ^ itself` (so the scale search of `showDec`, which has
`den` as fuel, always succeeds on decimal fractions) -/
theorem dvd_pow10_self : ∀ (n : Nat), (∃ k, n ∣ 10 ^ k) → n ∣ 10 ^ n := by
  intro n
  induction n using Nat.strongRecOn with
  | _ n ih =>
    intro ⟨k, hk⟩
    by_cases h1 : n = 1
    · subst h1; exact Nat.one_dvd _
    · by_cases h0 : n = 0
      · subst h0
        have : 0 < 10 ^ k := Nat.pow_pos (by decide)
        have := Nat.eq_zero_of_zero_dvd hk
        omega
      · -- gcd n 10 > 1, otherwise n is coprime to 10^k and divides it: n = 1
        have hg : Nat.gcd n 10 ≠ 1 := by
          intro hc
          have hcop : Nat.Coprime n (10 ^ k) := Nat.Coprime.pow_right k hc
          exact h1 (Nat.Coprime.eq_one_of_dvd hcop hk)
        have hgpos : 0 < Nat.gcd n 10 := Nat.gcd_pos_of_pos_right n (by decide)
        have hgn : Nat.gcd n 10 ∣ n := Nat.gcd_dvd_left n 10
        have hg10 : Nat.gcd n 10 ∣ 10 := Nat.gcd_dvd_right n 10
        obtain ⟨m, hm⟩ := hgn
        have hmpos : 0 < m := by
          rcases Nat.eq_zero_or_pos m with h | h
          · rw [h] at hm; omega
          · exact h
        have hmlt : m < n := by
          have h2 : 2 ≤ Nat.gcd n 10 := by omega
          calc m < 2 * m := by omega
            _ ≤ Nat.gcd n 10 * m := Nat.mul_le_mul_right m h2
            _ = n := hm.symm
        have hmk : m ∣ 10 ^ k := Nat.dvd_trans ⟨Nat.gcd n 10, by rw [Nat.mul_comm]; exact hm⟩ hk
        have ihm := ih m hmlt ⟨k, hmk⟩
        have h3 : n ∣ 10 ^ (m + 1) := by
          rw [hm, Nat.pow_succ, Nat.mul_comm (10 ^ m) 10]
          exact Nat.mul_dvd_mul hg10 ihm
        exact Nat.dvd_trans h3 (Nat.pow_dvd_pow 10 (by omega))

theorem findScale_spec (den : Nat) : ∀ (fuel k : Nat),
    (10 ^ findScale den fuel k) % den = 0 ∨ findScale den fuel k = k + fuel
  | 0, k => Or.inr rfl
  | fuel + 1, k => by
    rw [findScale]
    split
    · rename_i h; exact Or.inl h
    · rcases findScale_spec den fuel (k + 1) with h | h
      · exact Or.inl h
      · exact Or.inr (by rw [h]; omega)

/-- every decimal fraction `a / 10^k` is an amount `showDec` handles -/
theorem isDecimal_mkRat (a : Int) (k : Nat) : isDecimal (mkRat a (10 ^ k)) = true := by
  unfold isDecimal scaleOf
  generalize hr : mkRat a (10 ^ k) = r
  have hpow : (10 ^ k : Nat) ≠ 0 := Nat.ne_of_gt (Nat.pow_pos (by decide))
  have hden : r.den ∣ 10 ^ k := by
    rw [← hr, Rat.den_mkRat, if_neg hpow]
    exact Nat.div_dvd_of_dvd (Nat.gcd_dvd_left _ _)
  have hself := dvd_pow10_self r.den ⟨k, hden⟩
  rcases findScale_spec r.den r.den 0 with h | h
  · simp [h]
  · rw [h]; simp [Nat.mod_eq_zero_of_dvd hself]


end Knut.Table
