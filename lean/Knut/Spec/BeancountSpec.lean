import Knut.Model.Beancount
/-!
# The ledger invariants of property C16, as executable predicates over a beancount entry list

The entry list is what a line-based beancount reader sees in the text `knut transcode` writes (opens, closes,
transactions with their postings' account and amount in the operating currency).  Only the *observable* part
of a transaction is used: date, description, and per posting the account and the printed amount (`value`).

* `balanced`       – the postings of every transaction sum to exactly zero;
* `chronological`  – entry dates never decrease;
* `openOn es a D`  – account `a` is open on day `D`: an open dated on or before `D` that is not followed by a close
                     dated before `D` (postings on the closing day itself are allowed, as in beancount);
* `lifecycleOK`    – every account used by a posting is open on the transaction's day;
* `sameTxs`        – two transaction lists are equal as multisets of observable transactions.
-/
namespace Knut.BeancountSpec
open Knut Knut.Beancount

def txSum (t : Transaction) : Rat := (t.postings.map (·.value)).sum

def txsOf : List BEntry → List Transaction
  | [] => []
  | .tx t :: rest => t :: txsOf rest
  | _ :: rest => txsOf rest

def opensOf : List BEntry → List Open
  | [] => []
  | .opening o :: rest => o :: opensOf rest
  | _ :: rest => opensOf rest

def closesOf : List BEntry → List Close
  | [] => []
  | .closing c :: rest => c :: closesOf rest
  | _ :: rest => closesOf rest

/-- every transaction sums to exactly zero -/
def balanced (es : List BEntry) : Bool := (txsOf es).all (fun t => txSum t = 0)

/-- entries appear in chronological order -/
def chronological : List BEntry → Bool
  | a :: b :: rest => decide (a.date ≤ b.date) && chronological (b :: rest)
  | _ => true

/-- `a` is open on day `D` given the opens and closes of a ledger: some open of `a` dated `o ≤ D` with no close of `a`
dated in `[o, D)` -/
def openOnL (os : List Open) (cs : List Close) (a : Account) (D : Int) : Bool :=
  os.any (fun o => o.account = a && decide (o.date ≤ D) &&
    cs.all (fun c => !(c.account = a && decide (o.date ≤ c.date) && decide (c.date < D))))

def openOn (es : List BEntry) (a : Account) (D : Int) : Bool := openOnL (opensOf es) (closesOf es) a D

/-- the description `Valuate` gives the value adjustment of a position on account `a` -/
def adjDesc (desc : String) (a : Account) : Bool :=
  let pre := "Adjust value of ".toList
  let suf := (" in account " ++ a.name).toList
  decide (pre.length + suf.length ≤ desc.toList.length) && pre.isPrefixOf desc.toList && suf.isSuffixOf desc.toList

/-- the posting account is the generated valuation account (`Income:<path>`) of the asset/liability account whose
value adjustment this transaction is -/
def adjustmentLeg (t : Transaction) (a : Account) : Bool :=
  t.postings.any (fun q => q.account.isAL && a = valuationAccountFor q.account && adjDesc t.description q.account)

/-- the uses (transaction, account) of accounts that are not open on the day of use -/
def unopenedUses (es : List BEntry) : List (Transaction × Account) :=
  (txsOf es).flatMap (fun t => (t.postings.filter (fun p => !openOn es p.account t.date)).map (fun p => (t, p.account)))

/-- every account used by a posting has an open on or before its use and is not used after its close -/
def lifecycleOK (es : List BEntry) : Bool := (unopenedUses es).isEmpty

/-- the same, except for the generated valuation accounts of value adjustments (known finding `valuation-account-not-opened`) -/
def lifecycleOKExceptValuation (es : List BEntry) : Bool := (unopenedUses es).all (fun u => adjustmentLeg u.1 u.2)

/-- the observable part of a transaction -/
def txKey (t : Transaction) : Int × String × List (Account × Rat) :=
  (t.date, t.description, t.postings.map (fun p => (p.account, p.value)))

/-- equal as multisets of observable transactions -/
def sameTxs (out expected : List Transaction) : Bool := (out.map txKey).isPerm (expected.map txKey)

/-- all four invariants of a transcoded ledger against the expected (valued) transactions -/
def ledgerOK (es : List BEntry) (expected : List Transaction) : Bool :=
  balanced es && chronological es && lifecycleOK es && sameTxs (txsOf es) expected

end Knut.BeancountSpec
