import Knut.Proofs.SyntaxGrammar
import Knut.Proofs.SyntaxFormat
/-!
# What a successfully parsed directive consists of (soundness half of the C08 round trip)

`DirT` is the token-level counterpart of `DirV`: the fields of a directive as token lists. For every parser of a
composite element: if it succeeds, the fields it recorded are token lists of the right lexical class, all validly
encoded, and `Extract()` of each recorded range is the bytes of those tokens (`view… = some (….bytes)`).
-/
namespace Knut.Syntax
open Knut.Utf8 Knut.Spec.Syntax
set_option linter.unusedVariables false

structure BookingT where
  credit : List Tok
  debit : List Tok
  quantity : List Tok
  commodity : List Tok

structure BalanceT where
  account : List Tok
  quantity : List Tok
  commodity : List Tok

structure AccrualT where
  interval : List Tok
  start : List Tok
  stop : List Tok
  account : List Tok

inductive DirT where
  | transaction (accrual : Option AccrualT) (performance : Option (List (List Tok))) (date desc : List Tok)
      (bookings : List BookingT)
  | «open» (date account : List Tok)
  | close (date account : List Tok)
  | assertion (date : List Tok) (balances : List BalanceT)
  | price (date commodity price target : List Tok)
  | «include» (path : List Tok)

def BookingT.bytes (b : BookingT) : BookingV := ⟨flat b.credit, flat b.debit, flat b.quantity, flat b.commodity⟩
def BalanceT.bytes (b : BalanceT) : BalanceV := ⟨flat b.account, flat b.quantity, flat b.commodity⟩
def AccrualT.bytes (a : AccrualT) : AccrualV := ⟨flat a.interval, flat a.start, flat a.stop, flat a.account⟩

def DirT.bytes : DirT → DirV
  | .transaction accr perf date desc bs =>
    .transaction (accr.map AccrualT.bytes) (perf.map (·.map flat)) (flat date) (flat desc) (bs.map BookingT.bytes)
  | .open d a => .open (flat d) (flat a)
  | .close d a => .close (flat d) (flat a)
  | .assertion d bs => .assertion (flat d) (bs.map BalanceT.bytes)
  | .price d c p t => .price (flat d) (flat c) (flat p) (flat t)
  | .include p => .include (flat p)

/-- a valid account token list -/
def AccountOK (c : List Tok) : Prop := (∃ m, IsAccount m c) ∧ Valid c
def DateOK (c : List Tok) : Prop := IsDate c ∧ Valid c
def DecimalOK (c : List Tok) : Prop := IsDecimal c ∧ Valid c
def CommodityOK (c : List Tok) : Prop := IsCommodity c ∧ Valid c
def IntervalOK (c : List Tok) : Prop := IsInterval c ∧ Valid c
def ContentOK (c : List Tok) : Prop := IsContent c ∧ Valid c

def BookingT.ok (b : BookingT) : Prop :=
  AccountOK b.credit ∧ AccountOK b.debit ∧ DecimalOK b.quantity ∧ CommodityOK b.commodity
def BalanceT.ok (b : BalanceT) : Prop := AccountOK b.account ∧ DecimalOK b.quantity ∧ CommodityOK b.commodity
def AccrualT.ok (a : AccrualT) : Prop := IntervalOK a.interval ∧ DateOK a.start ∧ DateOK a.stop ∧ AccountOK a.account

def DirT.ok : DirT → Prop
  | .transaction accr perf date desc bs =>
    (∀ a, accr = some a → a.ok) ∧ (∀ ts, perf = some ts → ∀ t ∈ ts, CommodityOK t) ∧ DateOK date ∧ ContentOK desc ∧
      bs ≠ [] ∧ ∀ b ∈ bs, b.ok
  | .open d a => DateOK d ∧ AccountOK a
  | .close d a => DateOK d ∧ AccountOK a
  | .assertion d bs => DateOK d ∧ bs ≠ [] ∧ ∀ b ∈ bs, b.ok
  | .price d c p t => DateOK d ∧ CommodityOK c ∧ DecimalOK p ∧ CommodityOK t
  | .include p => ContentOK p

/-- all tokens canonical: they decode back from their own bytes -/
def Canon (c : List Tok) : Prop := ∀ t ∈ c, t.canon

def BookingT.canon (b : BookingT) : Prop := Canon b.credit ∧ Canon b.debit ∧ Canon b.quantity ∧ Canon b.commodity
def BalanceT.canon (b : BalanceT) : Prop := Canon b.account ∧ Canon b.quantity ∧ Canon b.commodity
def AccrualT.canon (a : AccrualT) : Prop := Canon a.interval ∧ Canon a.start ∧ Canon a.stop ∧ Canon a.account

def DirT.canon : DirT → Prop
  | .transaction accr perf date desc bs =>
    (∀ a, accr = some a → a.canon) ∧ (∀ ts, perf = some ts → ∀ t ∈ ts, Canon t) ∧ Canon date ∧ Canon desc ∧ ∀ b ∈ bs, b.canon
  | .open d a => Canon d ∧ Canon a
  | .close d a => Canon d ∧ Canon a
  | .assertion d bs => Canon d ∧ ∀ b ∈ bs, b.canon
  | .price d c p t => Canon d ∧ Canon c ∧ Canon p ∧ Canon t
  | .include p => Canon p

/-- validly encoded tokens consumed from a scan of `text` are canonical -/
theorem Good.canonOf {text : Bytes} {s s' : St} {c : List Tok} (hG : Good text s) (hc : Consumed s c s') (hv : Valid c) :
    Canon c := fun t ht => hG.canon t (by rw [hc.1]; exact List.mem_append_left _ ht) (hv t ht)

/-- the bytes of consumed tokens are the slice of the text between the two offsets -/
theorem Good.extract {text : Bytes} {s s' : St} {c : List Tok} (hG : Good text s) (hc : Consumed s c s') :
    Range.extract text ⟨s.off, s'.off⟩ = some (flat c) ∧ Good text s' := by
  obtain ⟨G', sl⟩ := hG.consumed hc
  refine ⟨?_, G'⟩
  rw [extract_some (r := ⟨s.off, s'.off⟩) hc.ext.off_le G'.le, sl]

theorem ws_okV {desc : String} {s : St} {r : Range} {s' : St} (h : readWhile1 desc isWhitespace s = .ok r s')
    (hv : HeadValid s.toks) : ∃ c, Consumed s c s' ∧ HeadValid s'.toks := by
  obtain ⟨c, _, hc, _, _, v, _, _⟩ := readWhile1_okV h hv
  exact ⟨c, hc, v⟩

theorem readWhitespace1_okV {s : St} {r : Range} {s' : St} (h : readWhitespace1 s = .ok r s') (hv : HeadValid s.toks) :
    ∃ c, Consumed s c s' ∧ HeadValid s'.toks := by
  unfold readWhitespace1 at h
  split at h
  · cases h
  · obtain ⟨c, hc, _, _, v, _, _⟩ := readWhile_okV h hv
    exact ⟨c, hc, v⟩

theorem readRest_okV {s : St} {r : Range} {s' : St} (h : readRestOfWhitespaceLine s = .ok r s') (hv : HeadValid s.toks) :
    ∃ c, Consumed s c s' ∧ HeadValid s'.toks := by
  unfold readRestOfWhitespaceLine at h
  simp only [Res.bind_eq_ok] at h
  obtain ⟨_, s1, g1, h⟩ := h
  obtain ⟨c, hc, _, _, v, _, _⟩ := readWhile_okV g1 hv
  split at h
  · injection h with _ h2; subst h2
    exact ⟨c, hc, v⟩
  · simp only [Res.bind_eq_ok] at h
    obtain ⟨_, s2, g2, h⟩ := h
    injection h with _ h2; subst h2
    obtain ⟨t, ct, _, _, v2⟩ := readCharacter_okV g2
    exact ⟨c ++ [t], hc.trans ct, v2⟩

theorem parseBooking_sound {text : Bytes} {s : St} {b : Booking} {s' : St} (h : parseBooking s = .ok b s')
    (hG : Good text s) (hv : HeadValid s.toks) :
    ∃ bT : BookingT, (bT.ok ∧ bT.canon) ∧ viewBooking text b = some bT.bytes ∧ HeadValid s'.toks ∧ Good text s' := by
  unfold parseBooking at h
  simp only [Res.bind_eq_ok] at h
  obtain ⟨cr, s1, h1, _, s2, h2, db, s3, h3, _, s4, h4, q, s5, h5, _, s6, h6, cm, s7, h7, h⟩ := h
  injection h with hb hs
  subst hs
  obtain ⟨c1, k1, a1, w1, v1, r1⟩ := parseAccount_sound h1 hv
  obtain ⟨_, k2, v2⟩ := ws_okV h2 v1
  obtain ⟨c3, k3, a3, w3, v3, r3⟩ := parseAccount_sound h3 v2
  obtain ⟨_, k4, v4⟩ := ws_okV h4 v3
  obtain ⟨c5, k5, a5, w5, v5, r5⟩ := parseDecimal_sound h5 v4
  obtain ⟨_, k6, v6⟩ := ws_okV h6 v5
  obtain ⟨c7, k7, a7, w7, v7, r7, _⟩ := parseCommodity_sound h7 v6
  obtain ⟨e1, G1⟩ := hG.extract k1
  obtain ⟨_, G2⟩ := G1.extract k2
  obtain ⟨e3, G3⟩ := G2.extract k3
  obtain ⟨_, G4⟩ := G3.extract k4
  obtain ⟨e5, G5⟩ := G4.extract k5
  obtain ⟨_, G6⟩ := G5.extract k6
  obtain ⟨e7, G7⟩ := G6.extract k7
  refine ⟨⟨c1, c3, c5, c7⟩, ⟨⟨⟨⟨_, a1⟩, w1⟩, ⟨⟨_, a3⟩, w3⟩, ⟨a5, w5⟩, ⟨a7, w7⟩⟩,
    ⟨hG.canonOf k1 w1, G2.canonOf k3 w3, G4.canonOf k5 w5, G6.canonOf k7 w7⟩⟩, ?_, v7, G7⟩
  rw [← hb]
  subst r5 r7
  simp [viewBooking, r1, r3, e1, e3, e5, e7, BookingT.bytes]

theorem parseBalance_sound {text : Bytes} {s : St} {b : Balance} {s' : St} (h : parseBalance s = .ok b s')
    (hG : Good text s) (hv : HeadValid s.toks) :
    ∃ bT : BalanceT, (bT.ok ∧ bT.canon) ∧ viewBalance text b = some bT.bytes ∧ HeadValid s'.toks ∧ Good text s' := by
  unfold parseBalance at h
  simp only [Res.bind_eq_ok] at h
  obtain ⟨ac, s1, h1, _, s2, h2, q, s3, h3, _, s4, h4, cm, s5, h5, h⟩ := h
  injection h with hb hs
  subst hs
  obtain ⟨c1, k1, a1, w1, v1, r1⟩ := parseAccount_sound h1 hv
  obtain ⟨_, k2, v2⟩ := readWhitespace1_okV h2 v1
  obtain ⟨c3, k3, a3, w3, v3, r3⟩ := parseDecimal_sound h3 v2
  obtain ⟨_, k4, v4⟩ := readWhitespace1_okV h4 v3
  obtain ⟨c5, k5, a5, w5, v5, r5, _⟩ := parseCommodity_sound h5 v4
  obtain ⟨e1, G1⟩ := hG.extract k1
  obtain ⟨_, G2⟩ := G1.extract k2
  obtain ⟨e3, G3⟩ := G2.extract k3
  obtain ⟨_, G4⟩ := G3.extract k4
  obtain ⟨e5, G5⟩ := G4.extract k5
  refine ⟨⟨c1, c3, c5⟩, ⟨⟨⟨⟨_, a1⟩, w1⟩, ⟨a3, w3⟩, ⟨a5, w5⟩⟩, ⟨hG.canonOf k1 w1, G2.canonOf k3 w3, G4.canonOf k5 w5⟩⟩, ?_, v5, G5⟩
  rw [← hb]
  subst r3 r5
  simp [viewBalance, r1, e1, e3, e5, BalanceT.bytes]

theorem parseAccrual_sound {text : Bytes} {s : St} {a : Accrual} {s' : St} (h : parseAccrual s = .ok a s')
    (hG : Good text s) (hv : HeadValid s.toks) :
    ∃ aT : AccrualT, (aT.ok ∧ aT.canon) ∧ viewAccrual text a = some aT.bytes ∧ HeadValid s'.toks ∧ Good text s' := by
  unfold parseAccrual at h
  simp only [Res.bind_eq_ok] at h
  obtain ⟨_, s1, h1, iv, s2, h2, _, s3, h3, d0, s4, h4, _, s5, h5, d1, s6, h6, _, s7, h7, ac, s8, h8, h⟩ := h
  injection h with hb hs
  subst hs
  obtain ⟨_, k1, v1⟩ := readWhitespace1_okV h1 hv
  obtain ⟨c2, k2, a2, w2, v2, r2⟩ := parseInterval_sound h2 v1
  obtain ⟨_, k3, v3⟩ := readWhitespace1_okV h3 v2
  obtain ⟨c4, k4, a4, w4, v4, r4⟩ := parseDate_sound h4 v3
  obtain ⟨_, k5, v5⟩ := readWhitespace1_okV h5 v4
  obtain ⟨c6, k6, a6, w6, v6, r6⟩ := parseDate_sound h6 v5
  obtain ⟨_, k7, v7⟩ := readWhitespace1_okV h7 v6
  obtain ⟨c8, k8, a8, w8, v8, r8⟩ := parseAccount_sound h8 v7
  obtain ⟨_, G1⟩ := hG.extract k1
  obtain ⟨e2, G2⟩ := G1.extract k2
  obtain ⟨_, G3⟩ := G2.extract k3
  obtain ⟨e4, G4⟩ := G3.extract k4
  obtain ⟨_, G5⟩ := G4.extract k5
  obtain ⟨e6, G6⟩ := G5.extract k6
  obtain ⟨_, G7⟩ := G6.extract k7
  obtain ⟨e8, G8⟩ := G7.extract k8
  refine ⟨⟨c2, c4, c6, c8⟩, ⟨⟨⟨a2, w2⟩, ⟨a4, w4⟩, ⟨a6, w6⟩, ⟨⟨_, a8⟩, w8⟩⟩,
    ⟨G1.canonOf k2 w2, G3.canonOf k4 w4, G5.canonOf k6 w6, G7.canonOf k8 w8⟩⟩, ?_, v8, G8⟩
  rw [← hb]
  subst r2 r4 r6
  simp [viewAccrual, r8, e2, e4, e6, e8, AccrualT.bytes]

end Knut.Syntax

namespace Knut.Syntax
open Knut.Utf8 Knut.Spec.Syntax
set_option linter.unusedVariables false

theorem perfLoop_sound {text : Bytes} {start : Nat} {acc : List Commodity} {s : St} {ts : List Commodity} {s' : St}
    (h : perfLoop start acc s = .ok ts s') (hG : Good text s) (hv : HeadValid s.toks)
    (accT : List (List Tok)) (hacc : acc.reverse.mapM (fun (c : Commodity) => c.range.extract text) = some (accT.map flat))
    (hok : ∀ t ∈ accT, CommodityOK t ∧ Canon t) :
    ∃ tsT : List (List Tok), ts.mapM (fun (c : Commodity) => c.range.extract text) = some (tsT.map flat) ∧
      (∀ t ∈ tsT, CommodityOK t ∧ Canon t) ∧ HeadValid s'.toks ∧ Good text s' := by
  fun_induction perfLoop start acc s generalizing accT with
  | case1 acc s hc =>
    injection h with h1 h2
    subst h1 h2
    exact ⟨accT, hacc, hok, hv, hG⟩
  | case2 acc s hc e s1 h1 => cases h
  | case3 acc s hc x s1 h1 e s2 h2 => cases h
  | case4 acc s hc x s1 h1 y s2 h2 e s3 h3 => cases h
  | case5 acc s hc x s1 h1 y s2 h2 c s3 h3 e s4 h4 => cases h
  | case6 acc s hc x s1 h1 y s2 h2 c s3 h3 z s4 h4 ih =>
    obtain ⟨t1, k1, _, _, v1⟩ := readCharacter_okV h1
    obtain ⟨_, k2, _, _, v2, _, _⟩ := readWhile_okV h2 v1
    obtain ⟨c3, k3, a3, w3, v3, r3, _⟩ := parseCommodity_sound h3 v2
    obtain ⟨_, k4, _, _, v4, _, _⟩ := readWhile_okV h4 v3
    obtain ⟨_, G1⟩ := hG.extract k1
    obtain ⟨_, G2⟩ := G1.extract k2
    obtain ⟨e3, G3⟩ := G2.extract k3
    obtain ⟨_, G4⟩ := G3.extract k4
    refine ih h G4 v4 (accT ++ [c3]) ?_ ?_
    · subst r3
      simp only [List.reverse_cons, List.mapM_append, hacc, List.mapM_cons, e3, List.mapM_nil, List.map_append,
        List.map_cons, List.map_nil]
      rfl
    · intro t ht
      rcases List.mem_append.mp ht with ht | ht
      · exact hok t ht
      · simp only [List.mem_singleton] at ht; subst ht; exact ⟨⟨a3, w3⟩, G2.canonOf k3 w3⟩

theorem parsePerformance_sound {text : Bytes} {s : St} {p : Performance} {s' : St} (h : parsePerformance s = .ok p s')
    (hG : Good text s) (hv : HeadValid s.toks) :
    ∃ tsT : List (List Tok), p.targets.mapM (fun (c : Commodity) => c.range.extract text) = some (tsT.map flat) ∧
      (∀ t ∈ tsT, CommodityOK t ∧ Canon t) ∧ HeadValid s'.toks ∧ Good text s' ∧ p.range = ⟨s.off, s'.off⟩ := by
  have hr := (parsePerformance_ok h).1
  unfold parsePerformance at h
  simp only [Res.bind_eq_ok] at h
  obtain ⟨_, s1, h1, _, s2, h2, first, s3, h3, ts, s4, h4, _, s5, h5, h⟩ := h
  injection h with hp hs
  subst hs
  obtain ⟨t1, k1, _, _, v1⟩ := readCharacter_okV h1
  obtain ⟨_, k2, _, _, v2, _, _⟩ := readWhile_okV h2 v1
  obtain ⟨_, G1⟩ := hG.extract k1
  obtain ⟨_, G2⟩ := G1.extract k2
  have hfirst : ∃ fT : List (List Tok), first.reverse.mapM (fun (c : Commodity) => c.range.extract text) = some (fT.map flat) ∧
      (∀ t ∈ fT, CommodityOK t ∧ Canon t) ∧ HeadValid s3.toks ∧ Good text s3 := by
    split at h3
    · simp only [Res.bind_eq_ok] at h3
      obtain ⟨c, t1, g1, _, t2, g2, g3⟩ := h3
      injection g3 with ga gb
      subst ga gb
      obtain ⟨c3, k3, a3, w3, v3, r3, _⟩ := parseCommodity_sound g1 v2
      obtain ⟨_, k4, _, _, v4, _, _⟩ := readWhile_okV g2 v3
      obtain ⟨e3, G3⟩ := G2.extract k3
      obtain ⟨_, G4⟩ := G3.extract k4
      subst r3
      exact ⟨[c3], by simp [e3], by intro t ht; simp only [List.mem_singleton] at ht; subst ht; exact ⟨⟨a3, w3⟩, G2.canonOf k3 w3⟩, v4, G4⟩
    · injection h3 with ga gb
      subst ga gb
      exact ⟨[], by simp, by simp, v2, G2⟩
  obtain ⟨fT, f1, f2, v3, G3⟩ := hfirst
  obtain ⟨tsT, t1', t2', v4, G4⟩ := perfLoop_sound h4 G3 v3 fT f1 f2
  obtain ⟨_, k5, _, _, v5⟩ := readCharacter_okV h5
  obtain ⟨_, G5⟩ := G4.extract k5
  refine ⟨tsT, by rw [← hp]; exact t1', t2', v5, G5, hr⟩

/-- the annotations collected so far, with their token views -/
def PerfRel (text : Bytes) (perf : Performance) : Option (List (List Tok)) → Prop
  | none => perf.range.empty = true
  | some ts => perf.range.empty = false ∧
      perf.targets.mapM (fun (c : Commodity) => c.range.extract text) = some (ts.map flat) ∧ ∀ t ∈ ts, CommodityOK t ∧ Canon t

def AccrRel (text : Bytes) (accr : Accrual) : Option AccrualT → Prop
  | none => accr.range.empty = true
  | some a => accr.range.empty = false ∧ viewAccrual text accr = some a.bytes ∧ a.ok ∧ a.canon

theorem consumed_width_pos {text : Bytes} {s s' : St} {c : List Tok} (hG : Good text s) (hc : Consumed s c s')
    (hne : c ≠ []) : s.off < s'.off := by
  have := hG.wsum_pos hc hne
  have := hc.2
  omega

theorem addonStep_sound {text : Bytes} {start : Nat} {perf : Performance} {accr : Accrual} {r0 : Nat} {kw : String}
    {s : St} {p' : Performance} {a' : Accrual} {s' : St} {pT : Option (List (List Tok))} {aT : Option AccrualT}
    (h : addonStep start perf accr ⟨r0, s.off⟩ kw s = .ok (p', a') s') (hG : Good text s) (hv : HeadValid s.toks)
    (hr0 : r0 < s.off) (hp : PerfRel text perf pT) (ha : AccrRel text accr aT) :
    ∃ pT' aT', PerfRel text p' pT' ∧ AccrRel text a' aT' ∧ HeadValid s'.toks ∧ Good text s' := by
  unfold addonStep at h
  simp only at h
  split at h
  · split at h
    · cases h
    · simp only [Res.bind_eq_ok] at h
      obtain ⟨p, s1, g1, g2⟩ := h
      injection g2 with ga gb
      injection ga with ga1 ga2
      subst gb ga2
      obtain ⟨tsT, t1, t2, v1, G1, pr⟩ := parsePerformance_sound g1 hG hv
      have o1 := (parsePerformance_fwd _).2 _ _ g1
      refine ⟨some tsT, aT, ?_, ha, v1, G1⟩
      rw [← ga1]
      refine ⟨?_, t1, t2⟩
      simp only [pr, extend_kw (Nat.le_of_lt hr0) o1, Range.empty, beq_eq_false_iff_ne]
      omega
  · split at h
    · split at h
      · cases h
      · simp only [Res.bind_eq_ok] at h
        obtain ⟨a, s1, g1, g2⟩ := h
        injection g2 with ga gb
        injection ga with ga1 ga2
        subst gb ga1
        obtain ⟨aT', ok', view', v1, G1⟩ := parseAccrual_sound g1 hG hv
        have o1 := (parseAccrual_fwd _).2 _ _ g1
        have pr := (parseAccrual_ok g1).1
        refine ⟨pT, some aT', hp, ?_, v1, G1⟩
        rw [← ga2]
        refine ⟨?_, ?_, ok'⟩
        · simp only [pr, extend_kw (Nat.le_of_lt hr0) o1, Range.empty, beq_eq_false_iff_ne]
          omega
        · simpa [viewAccrual] using view'
    · injection h with ga gb
      injection ga with ga1 ga2
      subst gb ga1 ga2
      exact ⟨pT, aT, hp, ha, hv, hG⟩

theorem addonsLoop_sound {text : Bytes} {start : Nat} {perf : Performance} {accr : Accrual} {s : St} {a : Addons} {s' : St}
    {pT : Option (List (List Tok))} {aT : Option AccrualT}
    (h : addonsLoop start perf accr s = .ok a s') (hG : Good text s) (hv : HeadValid s.toks)
    (hp : PerfRel text perf pT) (ha : AccrRel text accr aT) :
    ∃ pT' aT', PerfRel text a.performance pT' ∧ AccrRel text a.accrual aT' ∧ HeadValid s'.toks ∧ Good text s' := by
  fun_induction addonsLoop start perf accr s generalizing pT aT with
  | case1 perf accr s e s1 h1 => cases h
  | case2 perf accr s r kw s1 h1 e s2 h2 => cases h
  | case3 perf accr s r kw s1 h1 perf' accr' s2 h2 e s3 h3 => cases h
  | case4 perf accr s r kw s1 h1 perf' accr' s2 h2 x s3 h3 hc =>
    obtain ⟨hm, c, kc, hrunes, hr, vc, v1⟩ := readAlternative_okV h1 hv
    subst hr
    obtain ⟨_, G1⟩ := hG.extract kc
    have hne : c ≠ [] := by
      intro e; subst e
      simp only [List.mem_cons, List.not_mem_nil, or_false] at hm
      rcases hm with rfl | rfl <;> simp [runesOf] at hrunes
    have hlt := consumed_width_pos hG kc hne
    obtain ⟨pT', aT', hp', ha', v2, G2⟩ := addonStep_sound h2 G1 v1 hlt hp ha
    obtain ⟨_, k3, v3⟩ := readRest_okV h3 v2
    obtain ⟨_, G3⟩ := G2.extract k3
    injection h with h1' h2'
    subst h2'
    rw [← h1']
    exact ⟨pT', aT', hp', ha', v3, G3⟩
  | case5 perf accr s r kw s1 h1 perf' accr' s2 h2 x s3 h3 hc ih =>
    obtain ⟨hm, c, kc, hrunes, hr, vc, v1⟩ := readAlternative_okV h1 hv
    subst hr
    obtain ⟨_, G1⟩ := hG.extract kc
    have hne : c ≠ [] := by
      intro e; subst e
      simp only [List.mem_cons, List.not_mem_nil, or_false] at hm
      rcases hm with rfl | rfl <;> simp [runesOf] at hrunes
    have hlt := consumed_width_pos hG kc hne
    obtain ⟨pT', aT', hp', ha', v2, G2⟩ := addonStep_sound h2 G1 v1 hlt hp ha
    obtain ⟨_, k3, v3⟩ := readRest_okV h3 v2
    obtain ⟨_, G3⟩ := G2.extract k3
    exact ih h G3 v3 hp' ha'

theorem bookingsLoop_sound {text : Bytes} {start : Nat} {acc : List Booking} {s : St} {bs : List Booking} {s' : St}
    (h : bookingsLoop start acc s = .ok bs s') (hG : Good text s) (hv : HeadValid s.toks)
    (accT : List BookingT) (hacc : acc.reverse.mapM (viewBooking text) = some (accT.map BookingT.bytes))
    (hok : ∀ b ∈ accT, b.ok ∧ b.canon) :
    ∃ bsT : List BookingT, bsT ≠ [] ∧ bs.mapM (viewBooking text) = some (bsT.map BookingT.bytes) ∧ (∀ b ∈ bsT, b.ok ∧ b.canon) ∧
      HeadValid s'.toks ∧ Good text s' := by
  fun_induction bookingsLoop start acc s generalizing accT with
  | case1 acc s e s1 h1 => cases h
  | case2 acc s b s1 h1 e s2 h2 => cases h
  | case3 acc s b s1 h1 x s2 h2 hc =>
    obtain ⟨bT, ok1, view1, v1, G1⟩ := parseBooking_sound h1 hG hv
    obtain ⟨_, k2, v2⟩ := readRest_okV h2 v1
    obtain ⟨_, G2⟩ := G1.extract k2
    injection h with ha hb
    subst ha hb
    refine ⟨accT ++ [bT], by simp, ?_, ?_, v2, G2⟩
    · simp only [List.reverse_cons, List.mapM_append, hacc, List.mapM_cons, view1, List.mapM_nil, List.map_append,
        List.map_cons, List.map_nil]
      rfl
    · intro t ht
      rcases List.mem_append.mp ht with ht | ht
      · exact hok t ht
      · simp only [List.mem_singleton] at ht; subst ht; exact ok1
  | case4 acc s b s1 h1 x s2 h2 hc ih =>
    obtain ⟨bT, ok1, view1, v1, G1⟩ := parseBooking_sound h1 hG hv
    obtain ⟨_, k2, v2⟩ := readRest_okV h2 v1
    obtain ⟨_, G2⟩ := G1.extract k2
    refine ih h G2 v2 (accT ++ [bT]) ?_ ?_
    · simp only [List.reverse_cons, List.mapM_append, hacc, List.mapM_cons, view1, List.mapM_nil, List.map_append,
        List.map_cons, List.map_nil]
      rfl
    · intro t ht
      rcases List.mem_append.mp ht with ht | ht
      · exact hok t ht
      · simp only [List.mem_singleton] at ht; subst ht; exact ok1

theorem balancesLoop_sound {text : Bytes} {start : Nat} {acc : List Balance} {s : St} {bs : List Balance} {s' : St}
    (h : balancesLoop start acc s = .ok bs s') (hG : Good text s) (hv : HeadValid s.toks)
    (accT : List BalanceT) (hacc : acc.reverse.mapM (viewBalance text) = some (accT.map BalanceT.bytes))
    (hok : ∀ b ∈ accT, b.ok ∧ b.canon) :
    ∃ bsT : List BalanceT, bsT ≠ [] ∧ bs.mapM (viewBalance text) = some (bsT.map BalanceT.bytes) ∧ (∀ b ∈ bsT, b.ok ∧ b.canon) ∧
      HeadValid s'.toks ∧ Good text s' := by
  fun_induction balancesLoop start acc s generalizing accT with
  | case1 acc s e s1 h1 => cases h
  | case2 acc s b s1 h1 e s2 h2 => cases h
  | case3 acc s b s1 h1 x s2 h2 hc =>
    obtain ⟨bT, ok1, view1, v1, G1⟩ := parseBalance_sound h1 hG hv
    obtain ⟨_, k2, v2⟩ := readRest_okV h2 v1
    obtain ⟨_, G2⟩ := G1.extract k2
    injection h with ha hb
    subst ha hb
    refine ⟨accT ++ [bT], by simp, ?_, ?_, v2, G2⟩
    · simp only [List.reverse_cons, List.mapM_append, hacc, List.mapM_cons, view1, List.mapM_nil, List.map_append,
        List.map_cons, List.map_nil]
      rfl
    · intro t ht
      rcases List.mem_append.mp ht with ht | ht
      · exact hok t ht
      · simp only [List.mem_singleton] at ht; subst ht; exact ok1
  | case4 acc s b s1 h1 x s2 h2 hc ih =>
    obtain ⟨bT, ok1, view1, v1, G1⟩ := parseBalance_sound h1 hG hv
    obtain ⟨_, k2, v2⟩ := readRest_okV h2 v1
    obtain ⟨_, G2⟩ := G1.extract k2
    refine ih h G2 v2 (accT ++ [bT]) ?_ ?_
    · simp only [List.reverse_cons, List.mapM_append, hacc, List.mapM_cons, view1, List.mapM_nil, List.map_append,
        List.map_cons, List.map_nil]
      rfl
    · intro t ht
      rcases List.mem_append.mp ht with ht | ht
      · exact hok t ht
      · simp only [List.mem_singleton] at ht; subst ht; exact ok1

end Knut.Syntax

namespace Knut.Syntax
open Knut.Utf8 Knut.Spec.Syntax
set_option linter.unusedVariables false

theorem parseTransaction_sound {text : Bytes} {start : Nat} {date : Date} {addons : Addons} {s : St} {t : Transaction}
    {s' : St} (h : parseTransaction start date addons s = .ok t s') (hG : Good text s) (hv : HeadValid s.toks)
    {dT : List Tok} (hd : date.range.extract text = some (flat dT)) (hdo : DateOK dT) (hdc : Canon dT)
    {pT : Option (List (List Tok))} {aT : Option AccrualT}
    (hp : PerfRel text addons.performance pT) (ha : AccrRel text addons.accrual aT) :
    ∃ v : DirT, (v.ok ∧ v.canon) ∧ viewTransaction text t = some v.bytes ∧ HeadValid s'.toks ∧ Good text s' := by
  unfold parseTransaction at h
  simp only [Res.bind_eq_ok] at h
  obtain ⟨q, s1, h1, _, s2, h2, bs, s3, h3, h⟩ := h
  injection h with ht hs
  subst hs
  obtain ⟨q1, c, q2, kq, p1, p2, ic, vq, v1, qr, qc⟩ := parseQuotedString_sound h1 hv
  obtain ⟨_, G1⟩ := hG.extract kq
  -- the content lies between the quotes
  have hcontent : q.content.extract text = some (flat c) := by
    have k1 : Consumed s [q1] ⟨s.off + q1.bytes.length, c ++ [q2] ++ s1.toks⟩ := ⟨by simpa using kq.1, by simp⟩
    obtain ⟨_, Ga⟩ := hG.extract k1
    have k2 : Consumed ⟨s.off + q1.bytes.length, c ++ [q2] ++ s1.toks⟩ c ⟨s.off + q1.bytes.length + wsum c, [q2] ++ s1.toks⟩ :=
      ⟨by simp, rfl⟩
    obtain ⟨e, _⟩ := Ga.extract k2
    rw [qc]; exact e
  obtain ⟨_, k2, v2⟩ := readRest_okV h2 v1
  obtain ⟨_, G2⟩ := G1.extract k2
  obtain ⟨bsT, hne, hb, hbo, v3, G3⟩ := bookingsLoop_sound h3 G2 v2 [] (by simp) (by simp)
  have vc : Valid c := (vq.tail).left
  refine ⟨.transaction aT pT dT c bsT, ?_, ?_, v3, G3⟩
  · have hcc : Canon c := fun t ht => hG.canon t (by rw [kq.1]; simp [ht]) (vc t ht)
    refine ⟨⟨?_, ?_, hdo, ⟨ic, vc⟩, hne, fun b hb' => (hbo b hb').1⟩, ⟨?_, ?_, hdc, hcc, fun b hb' => (hbo b hb').2⟩⟩
    · intro a ea; subst ea; exact ha.2.2.1
    · intro ts ets; subst ets; exact fun t ht => (hp.2.2 t ht).1
    · intro a ea; subst ea; exact ha.2.2.2
    · intro ts ets; subst ets; exact fun t ht => (hp.2.2 t ht).2
  · rw [← ht]
    simp only [viewTransaction, DirT.bytes]
    cases aT with
    | none =>
      simp only [AccrRel] at ha
      cases pT with
      | none => simp only [PerfRel] at hp; simp [ha, hp, hd, hcontent, hb]
      | some ts => simp only [PerfRel] at hp; simp [ha, hp.1, hp.2.1, hd, hcontent, hb]
    | some a =>
      simp only [AccrRel] at ha
      cases pT with
      | none => simp only [PerfRel] at hp; simp [ha.1, ha.2.1, hp, hd, hcontent, hb]
      | some ts => simp only [PerfRel] at hp; simp [ha.1, ha.2.1, hp.1, hp.2.1, hd, hcontent, hb]

theorem parseDirective_sound {text : Bytes} {s : St} {d : Directive} {s' : St} (h : parseDirective s = .ok d s')
    (hG : Good text s) (hv : HeadValid s.toks) :
    ∃ v : DirT, (v.ok ∧ v.canon) ∧ viewDirective text d = some v.bytes ∧ HeadValid s'.toks ∧ Good text s' := by
  unfold parseDirective at h
  simp only [Res.bind_eq_ok] at h
  obtain ⟨addons, s1, h1, body, s2, h2, h⟩ := h
  injection h with hd hs
  subst hs
  -- the optional annotations
  have hA : ∃ pT aT, PerfRel text addons.performance pT ∧ AccrRel text addons.accrual aT ∧ HeadValid s1.toks ∧ Good text s1 := by
    split at h1
    · simp only [Res.bind_eq_ok] at h1
      obtain ⟨a, t1, g1, g2⟩ := h1
      injection g2 with ga gb
      subst ga gb
      exact addonsLoop_sound (pT := none) (aT := none) g1 hG hv (by simp [PerfRel, Performance.zero, Range.empty, Range.zero])
        (by simp [AccrRel, Accrual.zero, Range.empty, Range.zero])
    · injection h1 with ga gb
      subst ga gb
      exact ⟨none, none, by simp [PerfRel, Addons.zero, Performance.zero, Range.empty, Range.zero],
        by simp [AccrRel, Addons.zero, Accrual.zero, Range.empty, Range.zero], hv, hG⟩
  obtain ⟨pT, aT, hp, ha, v1, G1⟩ := hA
  rw [← hd]
  unfold parseDirectiveBody at h2
  simp only at h2
  split at h2
  · -- include
    simp only [Res.bind_eq_ok] at h2
    obtain ⟨i, t1, g1, g2⟩ := h2
    injection g2 with ga gb
    subst ga gb
    unfold parseInclude at g1
    simp only [Res.bind_eq_ok] at g1
    obtain ⟨_, u1, k1, _, u2, k2, q, u3, k3, g1⟩ := g1
    injection g1 with ga gb
    subst ga gb
    obtain ⟨_, c1, _, _, _, w1⟩ := readString_okV k1 v1
    obtain ⟨_, c2, w2⟩ := readWhitespace1_okV k2 w1
    obtain ⟨_, Ga⟩ := G1.extract c1
    obtain ⟨_, Gb⟩ := Ga.extract c2
    obtain ⟨q1, c, q2, kq, p1, p2, ic, vq, w3, qr, qc⟩ := parseQuotedString_sound k3 w2
    obtain ⟨_, Gc⟩ := Gb.extract kq
    have hcontent : q.content.extract text = some (flat c) := by
      have k1' : Consumed u2 [q1] ⟨u2.off + q1.bytes.length, c ++ [q2] ++ u3.toks⟩ := ⟨by simpa using kq.1, by simp⟩
      obtain ⟨_, Gx⟩ := Gb.extract k1'
      have k2' : Consumed ⟨u2.off + q1.bytes.length, c ++ [q2] ++ u3.toks⟩ c ⟨u2.off + q1.bytes.length + wsum c, [q2] ++ u3.toks⟩ :=
        ⟨by simp, rfl⟩
      obtain ⟨e, _⟩ := Gx.extract k2'
      rw [qc]; exact e
    refine ⟨.include c, ⟨⟨ic, (vq.tail).left⟩, fun t ht => Gb.canon t (by rw [kq.1]; simp [ht]) ((vq.tail).left t ht)⟩, ?_, w3, Gc⟩
    simp [viewDirective, hcontent, DirT.bytes]
  · simp only [Res.bind_eq_ok] at h2
    obtain ⟨date, t1, g1, _, t2, g2, h2⟩ := h2
    obtain ⟨dT, kd, idate, vdate, w1, rd⟩ := parseDate_sound g1 v1
    obtain ⟨ed, Ga⟩ := G1.extract kd
    obtain ⟨_, kw, w2⟩ := readWhitespace1_okV g2 w1
    obtain ⟨_, Gb⟩ := Ga.extract kw
    have hde : date.range.extract text = some (flat dT) := by rw [rd]; exact ed
    split at h2
    · -- transaction
      simp only [Res.bind_eq_ok] at h2
      obtain ⟨t, t3, g3, h2⟩ := h2
      injection h2 with ga gb
      subst ga gb
      obtain ⟨v, vok, vview, w3, Gc⟩ := parseTransaction_sound g3 Gb w2 hde ⟨idate, vdate⟩ (G1.canonOf kd vdate) hp ha
      exact ⟨v, vok, by simpa [viewDirective] using vview, w3, Gc⟩
    · simp only [Res.bind_eq_ok] at h2
      obtain ⟨⟨r, kw'⟩, t3, g3, _, t4, g4, h2⟩ := h2
      obtain ⟨_, _, c3, _, _, _, w3⟩ := readAlternative_okV g3 w2
      obtain ⟨_, Gc⟩ := Gb.extract c3
      obtain ⟨_, c4, w4⟩ := readWhitespace1_okV g4 w3
      obtain ⟨_, Gd⟩ := Gc.extract c4
      unfold parseKeyword at h2
      simp only at h2
      split at h2
      · -- open
        simp only [Res.bind_eq_ok] at h2
        obtain ⟨o, t5, g5, h2⟩ := h2
        injection h2 with ga gb
        subst ga gb
        unfold parseOpen at g5
        simp only [Res.bind_eq_ok] at g5
        obtain ⟨acc, t6, g6, g5⟩ := g5
        injection g5 with ga gb
        subst ga gb
        obtain ⟨cA, kA, iA, vA, w5, rA⟩ := parseAccount_sound g6 w4
        obtain ⟨eA, Ge⟩ := Gd.extract kA
        refine ⟨.open dT cA, ⟨⟨⟨idate, vdate⟩, ⟨⟨_, iA⟩, vA⟩⟩, ⟨G1.canonOf kd vdate, Gd.canonOf kA vA⟩⟩, ?_, w5, Ge⟩
        simp [viewDirective, hde, rA, eA, DirT.bytes]
      · split at h2
        · -- close
          simp only [Res.bind_eq_ok] at h2
          obtain ⟨o, t5, g5, h2⟩ := h2
          injection h2 with ga gb
          subst ga gb
          unfold parseClose at g5
          simp only [Res.bind_eq_ok] at g5
          obtain ⟨acc, t6, g6, g5⟩ := g5
          injection g5 with ga gb
          subst ga gb
          obtain ⟨cA, kA, iA, vA, w5, rA⟩ := parseAccount_sound g6 w4
          obtain ⟨eA, Ge⟩ := Gd.extract kA
          refine ⟨.close dT cA, ⟨⟨⟨idate, vdate⟩, ⟨⟨_, iA⟩, vA⟩⟩, ⟨G1.canonOf kd vdate, Gd.canonOf kA vA⟩⟩, ?_, w5, Ge⟩
          simp [viewDirective, hde, rA, eA, DirT.bytes]
        · split at h2
          · -- assertion
            simp only [Res.bind_eq_ok] at h2
            obtain ⟨a, t5, g5, h2⟩ := h2
            injection h2 with ga gb
            subst ga gb
            unfold parseAssertion at g5
            simp only at g5
            split at g5
            · simp only [Res.bind_eq_ok] at g5
              obtain ⟨_, t6, g6, bs, t7, g7, g5⟩ := g5
              injection g5 with ga gb
              subst ga gb
              obtain ⟨_, k6, w6⟩ := readRest_okV g6 w4
              obtain ⟨_, Ge⟩ := Gd.extract k6
              obtain ⟨bsT, hne, hb, hbo, w7, Gf⟩ := balancesLoop_sound g7 Ge w6 [] (by simp) (by simp)
              refine ⟨.assertion dT bsT, ⟨⟨⟨idate, vdate⟩, hne, fun b hb' => (hbo b hb').1⟩, ⟨G1.canonOf kd vdate, fun b hb' => (hbo b hb').2⟩⟩, ?_, w7, Gf⟩
              simp [viewDirective, hde, hb, DirT.bytes]
            · simp only [Res.bind_eq_ok] at g5
              obtain ⟨b, t6, g6, g5⟩ := g5
              injection g5 with ga gb
              subst ga gb
              obtain ⟨bT, bok, bview, w6, Ge⟩ := parseBalance_sound g6 Gd w4
              refine ⟨.assertion dT [bT], ⟨⟨⟨idate, vdate⟩, by simp, by intro x hx; simp only [List.mem_singleton] at hx; subst hx; exact bok.1⟩,
                ⟨G1.canonOf kd vdate, by intro x hx; simp only [List.mem_singleton] at hx; subst hx; exact bok.2⟩⟩, ?_, w6, Ge⟩
              simp [viewDirective, hde, bview, DirT.bytes]
          · -- price
            simp only [Res.bind_eq_ok] at h2
            obtain ⟨p, t5, g5, h2⟩ := h2
            injection h2 with ga gb
            subst ga gb
            unfold parsePrice at g5
            simp only [Res.bind_eq_ok] at g5
            obtain ⟨c, u1, k1, _, u2, k2, pr, u3, k3, _, u4, k4, tg, u5, k5, g5⟩ := g5
            injection g5 with ga gb
            subst ga gb
            obtain ⟨cC, kC, iC, vC, x1, rC, _⟩ := parseCommodity_sound k1 w4
            obtain ⟨_, kW, x2⟩ := readWhitespace1_okV k2 x1
            obtain ⟨cP, kP, iP, vP, x3, rP⟩ := parseDecimal_sound k3 x2
            obtain ⟨_, kW2, x4⟩ := readWhitespace1_okV k4 x3
            obtain ⟨cT, kT, iT, vT, x5, rT, _⟩ := parseCommodity_sound k5 x4
            obtain ⟨eC, H1⟩ := Gd.extract kC
            obtain ⟨_, H2⟩ := H1.extract kW
            obtain ⟨eP, H3⟩ := H2.extract kP
            obtain ⟨_, H4⟩ := H3.extract kW2
            obtain ⟨eT, H5⟩ := H4.extract kT
            subst rC rP rT
            refine ⟨.price dT cC cP cT, ⟨⟨⟨idate, vdate⟩, ⟨iC, vC⟩, ⟨iP, vP⟩, ⟨iT, vT⟩⟩,
              ⟨G1.canonOf kd vdate, Gd.canonOf kC vC, H2.canonOf kP vP, H4.canonOf kT vT⟩⟩, ?_, x5, H5⟩
            simp [viewDirective, hde, eC, eP, eT, DirT.bytes]

end Knut.Syntax
