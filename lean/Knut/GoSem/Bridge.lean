import Knut.GoSem.Basic
import Knut.GoSem.Syntax
import Knut.GoSem.Parse
import Knut.Generated.TransDirectives
/-!
# The border between the two readings of Go (`harness/trans_units_create.go`)

The functions that turn the syntax tree into model directives (`model.ParseDirective`, `*.Create`, `directives.Date.Parse`,
`directives.Decimal.Parse`) are translated in the MODEL LAYER's reading (a `string` is a text, `error` is `Option Error`), but their
input is the syntax tree, which belongs to the SYNTAX LAYER's reading (a `string` is its bytes; the structures of
`Generated/TransDirectives.lean`).  The two meet in `Range.Extract`:

* `Bridge.extract r` is the syntax layer's translated `Range.Extract` (the bytes `r.Text[r.Start:r.End]`, Go's slice-bounds panic
  included) followed by reading the bytes as a text.  A Go string that is not valid UTF-8 has no meaning in the model layer's reading
  (`String` is valid UTF-8 there): that is the distinct outcome `panic "outside the model: …"`, which the agreement theorems exclude by
  hypothesis (the parser only accepts valid UTF-8: `Syntax.Scanner`, C07).
* `Ref.node` is the address of a node of the syntax tree (`&bs[i]`, `&d`, the `t` of `Src: t`): the translated code only copies such
  pointers into `Src` fields and never reads, compares or writes through them, so one constant (≠ nil) stands for all of them; the
  agreement theorems are stated for arbitrary `Src`.
-/
namespace Knut.GoSem

/-- the address of a node of the syntax tree: some non-nil pointer (see above) -/
def Ref.node : Ref := ⟨1⟩

namespace Bridge

def outside : String := "outside the model: a Go string that is not valid UTF-8 read as a text"

/-- bytes read as a text -/
def text (bs : Syn.GoString) : Outcome String :=
  match String.fromUTF8? ⟨bs.toArray⟩ with
  | some s => .ok s
  | none => .panic outside

/-- `r.Extract()` for a range of the syntax tree, read as a text -/
def extract (r : Knut.Generated.Go.directives.Range) : Outcome String :=
  Outcome.bind (Knut.Generated.Go.directives.Range.Extract r) text

end Bridge
end Knut.GoSem
