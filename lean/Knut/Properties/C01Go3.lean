import Knut.FactsAgree.TransBalanceCmdGo
import Knut.Properties.C01Go2
/-!
# C01 (the Delta clause) on the generated definitions, with the query that `knut balance` builds — no hypothesis about `Where`/`Select`

`Properties/C01Go.lean` states `C01_delta_zero_query_go_partial` under `QueryFor cur cfg q w s` ("how `cmd/commands/balance.go` sets up
`Where` and `Select`"), and `Properties/C01Go2.lean` states `C01_delta_zero_process_go` under `ParOK cur cfg P q`, whose field `query`
is `PostingOK cfg cur q` (what the `Posting` closure of a query `q` does).  Both were hypotheses about an arbitrary `journal.Query`.
Since the `journal.Query{…}` literal of `balanceRunner.execute` is translated (fragment `commands.balanceRunner.execute.query`), both are
THEOREMS about the query the command builds: `TransBalanceCmdGo.balance_QueryFor` and `TransBalanceCmd.query_posting_model`.  This module
instantiates them.  The statements mention only

* the FLAGS of the command, read in the model's configuration (`TransBalanceCmd.FlagsOK`: `--remap`, `--mapping`, `--account`,
  `--commodity`, `--val`), and the partition of `cfg.periods` (ends ascending, none the zero date);
* the two registry functions the fragment calls (`reg.SwapType`, `reg.MustGetPath`): one pointer per account name;
* for the process-level theorem: the parameters of the other five processors (`StagesOK` = `ParOK` without its field `query`), and the
  states the six constructors start from (`balanceInit`: those of `TransProcessAll.BalInv_init`, the query stage started by
  `Query.Into` on the query the fragment builds).

The report is laid out over the SAME partition that `Filter` and `Select` use (`partition` of `execute`), as in the Go code.

* `C01_delta_zero_balance_query_go_partial` — `C01Go.C01_delta_zero_query_go_partial` for the command's query; still PARTIAL in `hrel`
  (that the Go transactions reaching the query stage stand for the model's; composed over the journal in the next theorem);
* **`C01_delta_zero_balance_go`** — `C01Go2.C01_delta_zero_process_go` for the command's query and initial states: whenever the
  sequential run of the six translated stages over the Go journal succeeds, `Totals` and `Plus` on the report that the log of the
  translated `Query.Into` leaves give ZERO at every column date and commodity.  Hypotheses that stay (all listed in `C01Go2`): `DaysRel`
  (the loader's output), paired transactions, unfiltered report, `QueryWf`, interned commodities, admissible iteration orders;
  `seqRun` as the meaning of `Journal.Process` (C19).
-/
namespace Knut.C01Go3
open Knut Knut.GoSem Knut.Balance
open Knut.Generated.Go Knut.FactsAgree
open Knut.FactsAgree.TransAmountsSum Knut.FactsAgree.TransReport Knut.FactsAgree.TransProcessAll
open Knut.FactsAgree.TransMapping Knut.FactsAgree.TransBalanceCmd
open Knut.FactsAgree.TransAccount (accountGo)
open Knut.FactsAgree.TransPrice (cGo)
open Knut.FactsAgree.TransProcess (CEquiv)

/-- **every value behind the Delta row is zero**, with the log that the translated `Query.Into` produces for the query that
`execute` builds from the flags.  Partial in `hrel` only (see `C01Go.C01_delta_zero_query_go_partial`). -/
theorem C01_delta_zero_balance_query_go_partial (cur : String → Bool) (byCommodity : Bool)
    (cfg : BalCfg) (hu : Unfiltered cfg) (days : List Day) (hp : C01.PairedDays days) (st : BalState)
    (hrun : Balance.run cfg days = .ok st) (all : List Knut.Transaction) (hall : C01Go.runTxs cfg {} days = .ok all)
    (valuation : commodity.Commodity) (span : Knut.Period) (iv : Knut.Interval)
    (remapFs : List (String → Bool)) (swap : account.Account → account.Account)
    (m : account.Mapping) (getPath : List String → account.Account)
    (accs : Option (List (String → Bool))) (comFs : List (String → Bool))
    (hfl : FlagsOK cfg valuation remapFs m accs comFs)
    (hsorted : List.Pairwise (fun p q : Knut.Period => p.stop ≤ q.stop) cfg.periods) (hstop : ∀ p ∈ cfg.periods, p.stop ≠ 0)
    (hreg : ∀ b : Knut.Account, getPath b.segments = accountGo b)
    (hswap : ∀ b : Knut.Account, swap (accountGo b) = accountGo (swapType b))
    (tgs : List transaction.Transaction) (hrel : Knut.FactsAgree.TransProcess.AllRel (Knut.FactsAgree.TransProcess.TRel cur) tgs all) :
    ∃ q, commands.balanceRunner.execute.query valuation (TransDate.partitionGo ⟨span, iv, cfg.periods⟩) (regsGo remapFs) swap m getPath
          (accs.map regsGo) (regsGo comFs) = GoSem.Outcome.ok q ∧
      ∃ qs, C01Go.queryAllGo (journal.Query.Into.init q) tgs = .ok (qs, none) ∧ esOf qs.c = st.entries ∧
      ((∀ e ∈ qs.c, e.1.Commodity = Knut.FactsAgree.TransPosting.commodityGo cur e.1.Commodity.name ∧ e.1.Commodity.name ≠ "") →
        ∀ (o1 o2 o4 o5 : List String → List amounts.Key) (ord3 ord6 : List String → List String),
          Orders (sec true qs.c) [] (mfR byCommodity) [] (C01Go.reportOf (TransDate.partitionGo ⟨span, iv, cfg.periods⟩) qs.c).AL o1 o2 ord3 →
          Orders (sec false qs.c) [] (mfR byCommodity) [] (C01Go.reportOf (TransDate.partitionGo ⟨span, iv, cfg.periods⟩) qs.c).EIE o4 o5 ord6 →
          ∃ al eie, balance.Report.Totals (C01Go.reportOf (TransDate.partitionGo ⟨span, iv, cfg.periods⟩) qs.c) (pureFn (mfR byCommodity))
                o1 o2 ord3 o4 o5 ord6 =
              GoSem.Outcome.ok (C01Go.reportOf (TransDate.partitionGo ⟨span, iv, cfg.periods⟩) qs.c, al, eie) ∧
            ∀ op : List amounts.Key, op.Perm (AMap.keys eie) →
              ∀ (c : Option Knut.Commodity), (∀ s, c = some s → s ≠ "") → ∀ d : Int, d ≠ 0 →
                AMap.get (amounts.Amounts.Plus al eie op) (amounts.DateCommodityKey d (comGo cur c)) 0 = 0) := by
  obtain ⟨q, hq, hfor⟩ := Knut.FactsAgree.TransBalanceCmdGo.balance_QueryFor cfg cur valuation span iv remapFs swap m getPath accs comFs
    hfl hsorted hstop hreg hswap
  exact ⟨q, hq, C01Go.C01_delta_zero_query_go_partial cur _ byCommodity cfg hu days hp st hrun all hall q _ _ hfor tgs hrel⟩

/-! ## over a whole journal -/

/-- what relates the parameters of the five processors before the query to the model's configuration: `ParOK` without its field
`query` (which is a theorem for the command's query) and with the partition of `Filter`/`CloseAccounts` spelled out -/
structure StagesOK (cur : String → Bool) (cfg : BalCfg) (iv : Knut.Interval) (P : BalPar) : Prop where
  val : P.val = cfg.valuation.map (cGo cur)
  ext1 : ∀ a : Knut.Account, P.ext1 (accountGo a) = accountGo (valuationAccountFor a)
  part : P.part = TransDate.partitionGo ⟨cfg.span, iv, cfg.periods⟩
  close : P.closeOn = cfg.close
  ord : OrdOK P.ord
  fuel : ∀ v, cfg.valuation = some v → FuelOK cur v P.fuel
  oV : ∀ g dg k, (Knut.AMap.find? g.quantities k).isSome → k ∈ P.oV g dg
  oC : ∀ g dg k, (Knut.AMap.find? g.quantities k).isSome → k ∈ P.oC g dg

theorem ParOK_of_stages {cur : String → Bool} {cfg : BalCfg} {iv : Knut.Interval} {P : BalPar} (h : StagesOK cur cfg iv P)
    {q : journal.Query} (hq : PostingOK cfg cur q) : ParOK cur cfg P q :=
  ⟨h.val, h.ext1, ⟨⟨cfg.span, iv, cfg.periods⟩, h.part, rfl⟩, h.close, h.ord, h.fuel, h.oV, h.oC, hq⟩

/-- the captured states the six constructors of `execute` start from (those of `TransProcessAll.BalInv_init`); the query stage is
`Query.Into` of the query `q` -/
def balanceInit (gf : journal.Filter.State) (gc : journal.CloseAccounts.State) (q : journal.Query) : BalGo :=
  ⟨checkInit, ⟨GoZero.zero, []⟩, ⟨GoZero.zero, GoZero.zero, []⟩, gf, gc, journal.Query.Into.init q⟩

/-- **every value behind the Delta row is zero, on the translated pipeline of `knut balance` over a whole journal**, the query being
the one `execute` builds from the flags -/
theorem C01_delta_zero_balance_go (cur : String → Bool) (cfg : BalCfg) (iv : Knut.Interval) (P : BalPar) (hS : StagesOK cur cfg iv P)
    (valuation : commodity.Commodity) (remapFs : List (String → Bool)) (swap : account.Account → account.Account)
    (m : account.Mapping) (getPath : List String → account.Account)
    (accs : Option (List (String → Bool))) (comFs : List (String → Bool))
    (hfl : FlagsOK cfg valuation remapFs m accs comFs)
    (hsorted : List.Pairwise (fun p q : Knut.Period => p.stop ≤ q.stop) cfg.periods) (hstop : ∀ p ∈ cfg.periods, p.stop ≠ 0)
    (hreg : RegistryPath getPath) (hswap : RegistrySwap swap)
    (gf : journal.Filter.State) (gc : journal.CloseAccounts.State)
    (hgc : cfg.close = true → CEquiv cur gc (cfg.periods.map (·.start)) [] [])
    (gdays : List journal.Day) (days : List Day)
    (hdays : DaysRel cur gdays days) (hwf : ∀ d ∈ days, QueryWf cfg d) (hu : Unfiltered cfg) (hp : C01.PairedDays days)
    (byCommodity : Bool) :
    ∃ q, commands.balanceRunner.execute.query valuation P.part (regsGo remapFs) swap m getPath (accs.map regsGo) (regsGo comFs)
          = GoSem.Outcome.ok q ∧
      ∀ out : List journal.Day, processAllBalance P (balanceInit gf gc q) gdays = some out →
      ∃ G', runDays (fusedBalance P) (fusedInit (balanceInit gf gc q)) gdays = .ok (G', out) ∧
      ((∀ e ∈ G'.2.c, e.1.Commodity = Knut.FactsAgree.TransPosting.commodityGo cur e.1.Commodity.name ∧ e.1.Commodity.name ≠ "") →
        ∀ (o1 o2 o4 o5 : List String → List amounts.Key) (ord3 ord6 : List String → List String),
          Orders (sec true G'.2.c) [] (mfR byCommodity) [] (C01Go.reportOf P.part G'.2.c).AL o1 o2 ord3 →
          Orders (sec false G'.2.c) [] (mfR byCommodity) [] (C01Go.reportOf P.part G'.2.c).EIE o4 o5 ord6 →
          ∃ al eie, balance.Report.Totals (C01Go.reportOf P.part G'.2.c) (pureFn (mfR byCommodity)) o1 o2 ord3 o4 o5 ord6 =
              GoSem.Outcome.ok (C01Go.reportOf P.part G'.2.c, al, eie) ∧
            ∀ op : List amounts.Key, op.Perm (AMap.keys eie) →
              ∀ (c : Option Knut.Commodity), (∀ s, c = some s → s ≠ "") → ∀ d : Int, d ≠ 0 →
                AMap.get (amounts.Amounts.Plus al eie op) (amounts.DateCommodityKey d (comGo cur c)) 0 = 0) := by
  obtain ⟨q, hq, hinit, hpost⟩ := query_posting_model cfg cur valuation cfg.span iv remapFs swap m getPath accs comFs hfl hsorted hstop
    hreg hswap
  rw [← hS.part] at hq
  refine ⟨q, hq, fun out hgo => ?_⟩
  have hI : BalInv cur cfg q (fusedInit (balanceInit gf gc q)) {} := by
    unfold balanceInit
    rw [hinit]
    exact BalInv_init cur cfg q gf gc hgc
  exact C01Go2.C01_delta_zero_process_go cur cfg P q (ParOK_of_stages hS hpost) _ hI gdays days hdays hwf out hgo hu hp P.part byCommodity

/-! ### Non-vacuity: the flags of a plain `knut balance` (no `--remap`, `--mapping`, `--account`, `--commodity`, `--val`) are `FlagsOK`
for the configuration `C01Go.cfg0` -/
example : FlagsOK C01Go.cfg0 GoZero.zero [] [] none [] :=
  ⟨fun _ => rfl, fun _ h => (by cases h), rfl, fun _ => rfl, fun _ => rfl, ⟨fun _ => rfl, fun _ => rfl⟩⟩

/-! ### Non-vacuity: the empty journal — the six stages succeed from the command's initial states -/
example (P : BalPar) (q : journal.Query) (gf : journal.Filter.State) (gc : journal.CloseAccounts.State) :
    processAllBalance P (balanceInit gf gc q) [] = some [] := by
  rw [processAllBalance_eq]; rfl

end Knut.C01Go3
