import Knut.Proofs.MTMAccount
import Knut.Model.BalanceReport
import Knut.Proofs.ReportPerm
/-!
# C03: the cumulative value of an account row in terms of the report inserts

`accCum a es D` is what a cumulative valued report shows for account `a` in the column of the period end `D`: the sum of
all inserts on `a` (every commodity) aligned to a column date `≤ D` (`Proofs/MTMRender.lean` proves that this is the
rendered cell).  Here: `accCum` of the inserts of a whole run is the sum over the commodities of the values put on the
position during the days inside the window dated `≤ D`.
-/
namespace Knut.MTM
open Knut Knut.Dec Knut.Spec
open Knut.BalanceReport (sumAmounts)

/-- the inserts on account `a` aligned to a column date `≤ D`, summed -/
def accCum (a : Account) (es : List Entry) (D : Int) : Rat :=
  sumAmounts (es.filter (fun e => decide (e.account = a) &&
    (match e.date with | some D' => decide (D' ≤ D) | none => false)))

/-- all inserts on account `a`, summed -/
def accTotal (a : Account) (es : List Entry) : Rat := sumAmounts (es.filter (fun e => decide (e.account = a)))

theorem sumAmounts_append (xs ys : List Entry) : sumAmounts (xs ++ ys) = sumAmounts xs + sumAmounts ys := by
  unfold sumAmounts
  rw [List.map_append, sum_append_rat]

theorem accCum_append (a : Account) (xs ys : List Entry) (D : Int) :
    accCum a (xs ++ ys) D = accCum a xs D + accCum a ys D := by
  unfold accCum
  rw [List.filter_append, sumAmounts_append]

theorem accCum_zero_of_filter_nil (a : Account) (es : List Entry) (D : Int)
    (h : ∀ e ∈ es, ¬ (e.account = a ∧ ∃ D', e.date = some D' ∧ D' ≤ D)) : accCum a es D = 0 := by
  unfold accCum
  have : es.filter (fun e => decide (e.account = a) &&
      (match e.date with | some D' => decide (D' ≤ D) | none => false)) = [] := by
    rw [List.filter_eq_nil_iff]
    intro e he hc
    simp only [Bool.and_eq_true, decide_eq_true_eq] at hc
    apply h e he
    refine ⟨hc.1, ?_⟩
    cases hd : e.date with
    | none => rw [hd] at hc; cases hc.2
    | some D' =>
      rw [hd] at hc
      simp only [decide_eq_true_eq] at hc
      exact ⟨D', rfl, hc.2⟩
  rw [this]
  rfl

theorem accCum_eq_total (a : Account) (es : List Entry) (D : Int)
    (h : ∀ e ∈ es, ∃ D', e.date = some D' ∧ D' ≤ D) : accCum a es D = accTotal a es := by
  unfold accCum accTotal
  congr 1
  apply List.filter_congr
  intro e he
  obtain ⟨D', h1, h2⟩ := h e he
  rw [h1]
  simp [h2]

theorem sum_map_zero {α : Type} (f : α → Rat) : ∀ (K : List α), (∀ c ∈ K, f c = 0) → (K.map f).sum = 0
  | [], _ => rfl
  | k :: K, h => by
    rw [List.map_cons, List.sum_cons, h k List.mem_cons_self, Rat.zero_add]
    exact sum_map_zero f K (fun c hc => h c (List.mem_cons_of_mem _ hc))

theorem sum_indicator (x : Commodity) (r : Rat) : ∀ (K : List Commodity), K.Nodup → x ∈ K →
    (K.map (fun c => if c = x then r else 0)).sum = r
  | [], _, hx => by cases hx
  | k :: K, hn, hx => by
    rw [List.nodup_cons] at hn
    rw [List.map_cons, List.sum_cons]
    by_cases hk : k = x
    · subst hk
      rw [sum_map_zero _ K (fun c hc => by
        have : c ≠ k := fun e => hn.1 (e ▸ hc)
        simp [this])]
      simp only [if_true, Rat.add_zero]
    · simp only [hk, if_false, Rat.zero_add]
      rcases List.mem_cons.mp hx with e | e
      · exact absurd e.symm hk
      · exact sum_indicator x r K hn.2 e

theorem sum_map_add {α : Type} (f g : α → Rat) : ∀ (K : List α),
    (K.map (fun c => f c + g c)).sum = (K.map f).sum + (K.map g).sum
  | [] => by simp [Rat.add_zero]
  | k :: K => by
    simp only [List.map_cons, List.sum_cons]
    rw [sum_map_add f g K]
    grind

/-- **the account total by commodity**: if `K` lists (without repetition) every commodity of the inserts on `a`, the
total of the inserts on `a` is the sum over `K` of the totals per position -/
theorem accTotal_by_commodity (a : Account) (K : List Commodity) (hK : K.Nodup) : ∀ (es : List Entry),
    (∀ e ∈ es, e.account = a → e.commodity ∈ K) → accTotal a es = (K.map (fun c => entryVal a c es)).sum
  | [], _ => by
    unfold accTotal entryVal sumAmounts
    simp only [List.filter_nil, List.map_nil, List.sum_nil]
    exact (sum_map_zero _ K (fun _ _ => rfl)).symm
  | e :: es, h => by
    have ih := accTotal_by_commodity a K hK es (fun x hx => h x (List.mem_cons_of_mem _ hx))
    have hcons : ∀ c, entryVal a c (e :: es) =
        (if c = e.commodity then (if e.account = a then e.amount else 0) else 0) + entryVal a c es := by
      intro c
      unfold entryVal
      rw [List.filter_cons]
      by_cases h1 : e.account = a <;> by_cases h2 : e.commodity = c
      · subst h2; simp [h1]
      · have : ¬ c = e.commodity := fun x => h2 x.symm
        simp [h1, h2, this, Rat.zero_add]
      · subst h2; simp [h1, Rat.zero_add]
      · have : ¬ c = e.commodity := fun x => h2 x.symm
        simp [h1, h2, this, Rat.zero_add]
    have : (fun c => entryVal a c (e :: es)) =
        (fun c => (if c = e.commodity then (if e.account = a then e.amount else 0) else 0) + entryVal a c es) :=
      funext hcons
    rw [this, sum_map_add, ← ih]
    unfold accTotal sumAmounts
    rw [List.filter_cons]
    by_cases h1 : e.account = a
    · simp only [h1, decide_true, if_true, List.map_cons, List.sum_cons]
      rw [sum_indicator e.commodity e.amount K hK (h e List.mem_cons_self h1)]
    · simp only [h1, decide_false, if_false, Bool.false_eq_true]
      rw [sum_map_zero _ K (fun c _ => by split <;> rfl), Rat.zero_add]

/-- the inserts of a plain valued report: one per posting, with the posting's account, commodity and value, dated by
`Align` of the transaction date -/
theorem mem_entries_plain (cfg : BalCfg) (hp : Plain cfg) (hv : cfg.valuation.isSome = true) (txs : List Transaction)
    (e : Entry) (he : e ∈ txs.flatMap (Balance.queryTx cfg)) :
    ∃ t ∈ txs, ∃ p ∈ t.postings, e = ⟨alignIn cfg.periods t.date, p.account, p.commodity, p.value⟩ := by
  obtain ⟨t, ht, het⟩ := List.mem_flatMap.mp he
  unfold Balance.queryTx at het
  obtain ⟨p, hpt, hq⟩ := List.mem_filterMap.mp het
  rw [queryPosting_plain cfg hp hv t p] at hq
  injection hq with hq
  exact ⟨t, ht, p, hpt, hq.symm⟩

/-! ### splitting a sorted day list at the window start and at a column date -/

theorem sorted_split3 (lo D : Int) (hlo : lo ≤ D + 1) (days : List Day) (hs : Sorted days) :
    days = days.filter (fun d => decide (d.date < lo)) ++
        days.filter (fun d => !decide (d.date < lo) && decide (d.date ≤ D)) ++
        days.filter (fun d => !decide (d.date < lo) && !decide (d.date ≤ D)) ∧
    days.filter (fun d => d.date ≤ D) = days.filter (fun d => decide (d.date < lo)) ++
        days.filter (fun d => !decide (d.date < lo) && decide (d.date ≤ D)) := by
  constructor
  · have h1 := sorted_split lo days hs
    have h2 := sorted_split (D + 1) _ (sorted_filter (fun d => !decide (d.date < lo)) days hs)
    rw [List.filter_filter, List.filter_filter] at h2
    have e1 : (fun d : Day => decide (d.date < D + 1) && !decide (d.date < lo)) =
        (fun d => !decide (d.date < lo) && decide (d.date ≤ D)) := by
      funext d
      by_cases ha : d.date < lo <;> by_cases hb : d.date ≤ D <;> simp [ha, hb] <;> omega
    have e2 : (fun d : Day => !decide (d.date < D + 1) && !decide (d.date < lo)) =
        (fun d => !decide (d.date < lo) && !decide (d.date ≤ D)) := by
      funext d
      by_cases ha : d.date < lo <;> by_cases hb : d.date ≤ D <;> simp [ha, hb] <;> omega
    rw [e1, e2] at h2
    rw [List.append_assoc, ← h2]
    exact h1
  · have h1 := sorted_split lo _ (sorted_filter (fun d => decide (d.date ≤ D)) days hs)
    rw [List.filter_filter, List.filter_filter] at h1
    rw [h1]
    congr 1
    apply List.filter_congr
    intro d _
    by_cases ha : d.date < lo
    · have : d.date ≤ D := by omega
      simp [ha, this]
    · simp [ha]

/-! ### one position over the window up to a column date -/

theorem abs_le_pair {x y : Rat} (h : x.abs ≤ y) : -y ≤ x ∧ x ≤ y := by
  unfold Rat.abs at h
  split at h <;> constructor <;> grind

/-- **one position, window `(F, D]`**: `A` are the days before the window, `B1` the days inside it up to `D`.  The
values put on an asset/liability position `(a, c)`, `c ≠ V`, during `B1` differ from the change of
`quantity × price` (prices looked up in the states reached after `A` and after `B1`; 0 where there is none) by at most
one unit of the 8th decimal per day with a price declaration and per non-zero booking in `B1` -/
theorem window_position_bound (cfg : BalCfg) (v : Commodity) (a : Account) (c : Commodity)
    (hv : cfg.valuation = some v) (hc : c ≠ v) (hal : a.isAL = true)
    (A B1 : List Day) (stA stB : BalState) (tA tB1 : List Transaction)
    (hA : pipelineRun cfg {} A = .ok (stA, tA)) (hB : pipelineRun cfg stA B1 = .ok (stB, tB1))
    (hin : ∀ d ∈ B1, cfg.span.contains d.date = true) (hu : ∀ d ∈ B1, Unvalued a c d.transactions) :
    -(((priceDays B1 + nzCount a c B1 : Nat) : Rat) * ulp 8) ≤
      valOn a c tB1 - (stB.vQty.get (a, c) 0 * priceOr stB.vPrev c 0 - stA.vQty.get (a, c) 0 * priceOr stA.vPrev c 0) ∧
    valOn a c tB1 - (stB.vQty.get (a, c) 0 * priceOr stB.vPrev c 0 - stA.vQty.get (a, c) 0 * priceOr stA.vPrev c 0) ≤
      ((priceDays B1 + nzCount a c B1 : Nat) : Rat) * ulp 8 := by
  have hinv0 : CloseInv {} := by intro k hk; cases hk
  have hn0 : AMap.NodupKeys ({} : BalState).vQty := by unfold AMap.NodupKeys; exact List.nodup_nil
  obtain ⟨_, p2, p3, _⟩ := pipelineRun_any cfg v a c hv hal A {} stA tA hinv0 hA
  have hpi := priceInv_run cfg v hv A [] {} stA tA (priceInv_init v) hA
  rw [List.nil_append] at hpi
  generalize hQF : stA.vQty.get (a, c) 0 = QF
  generalize hpF : priceOr stA.vPrev c 0 = pF
  have hpF' : PriceIs stA.vPrev c pF := by rw [← hpF]; exact priceIs_priceOr _ _ _
  obtain ⟨w1, w2, w3, _, _⟩ := pipelineRun_trace cfg v a c hv hc hal B1 stA stB tB1 pF ⟨0, QF, 0⟩
    (p2 hn0) p3 hin hu hpF' hQF.symm hB
  have hst := traceOfRun_steps_le cfg v a c hv B1 A stA stB tB1 pF ⟨0, QF, 0⟩ hpi hpF' hB
  obtain ⟨b1, b2⟩ := run_bound pF (traceOfRun cfg a c pF stA B1) ⟨0, QF, 0⟩ (consistent_traceOfRun cfg a c B1 pF stA)
  generalize htr : traceOfRun cfg a c pF stA B1 = tr at *
  unfold dev at b1 b2
  rw [w1, w2] at b1 b2
  simp only at b1 b2 hst w1
  -- the price at D
  have hQD : stB.vQty.get (a, c) 0 * lastPrice pF tr = stB.vQty.get (a, c) 0 * priceOr stB.vPrev c 0 := by
    cases hl : Balance.lookupPrice stB.vPrev c with
    | ok x => rw [← w3 x hl, priceOr_of_ok 0 hl]
    | error e =>
      have : stB.vQty.get (a, c) 0 = 0 := by
        apply Classical.byContradiction
        intro hne
        have hAB := pipelineRun_append_ok cfg A B1 {} stA stB tA tB1 hA hB
        have hnil : A ++ B1 ≠ [] := by
          intro he
          rw [he] at hAB
          unfold pipelineRun at hAB
          injection hAB with hAB; injection hAB with e1 e2; subst e1
          exact hne rfl
        obtain ⟨x, hx⟩ := pipelineRun_open_price cfg v a c hv hc hal _ {} stB _ hAB hnil hne
        rw [hl] at hx; cases hx
      rw [this, Rat.zero_mul, Rat.zero_mul]
  rw [hQD] at b1 b2
  have hk : ((run ⟨0, QF, 0⟩ tr).steps : Rat) ≤ ((priceDays B1 + nzCount a c B1 : Nat) : Rat) := by
    have : (run ⟨0, QF, 0⟩ tr).steps ≤ priceDays B1 + nzCount a c B1 := by omega
    exact Rat.natCast_le_natCast.mpr this
  have hu8 := ulp_pos 8
  have hmul : ((run ⟨0, QF, 0⟩ tr).steps : Rat) * ulp 8 ≤ ((priceDays B1 + nzCount a c B1 : Nat) : Rat) * ulp 8 :=
    Rat.mul_le_mul_of_nonneg_right hk (Rat.le_of_lt hu8)
  have e0 : (((0 : Nat) : Rat)) = 0 := rfl
  constructor <;> grind

/-- a position of `a` that is never booked on (before or inside the window) receives no value -/
theorem window_position_idle (cfg : BalCfg) (v : Commodity) (a : Account) (c : Commodity)
    (hv : cfg.valuation = some v) (hal : a.isAL = true)
    (A B1 : List Day) (stA stB : BalState) (tA tB1 : List Transaction)
    (hA : pipelineRun cfg {} A = .ok (stA, tA)) (hB : pipelineRun cfg stA B1 = .ok (stB, tB1))
    (hin : ∀ d ∈ B1, cfg.span.contains d.date = true)
    (hnoA : ∀ d ∈ A, posOn a c d.transactions = []) (hnoB : ∀ d ∈ B1, posOn a c d.transactions = []) :
    valOn a c tB1 = 0 := by
  have hinv0 : CloseInv {} := by intro k hk; cases hk
  have hn0 : AMap.NodupKeys ({} : BalState).vQty := by unfold AMap.NodupKeys; exact List.nodup_nil
  obtain ⟨p1, p2, p3, _⟩ := pipelineRun_any cfg v a c hv hal A {} stA tA hinv0 hA
  have hu : ∀ d ∈ B1, Unvalued a c d.transactions := by
    intro d hd t ht p hp h1 h2 _
    have : p ∈ posOn a c d.transactions := by
      unfold posOn
      rw [List.mem_filter]
      exact ⟨List.mem_flatMap.mpr ⟨t, ht, hp⟩, by unfold onPos; simp [h1, h2]⟩
    rw [hnoB d hd] at this
    cases this
  by_cases hc : c = v
  · subst hc
    rw [pipelineRun_valOn_v cfg c a hv hal B1 stA stB tB1 p3 hin hu hB]
    unfold qtySum
    apply sum_map_zero
    intro d hd
    unfold qtysOn
    rw [hnoB d hd]
    rfl
  · have hQ0 : stA.vQty.get (a, c) 0 = 0 := by
      rw [p1]
      have : ({} : BalState).vQty.get (a, c) 0 = 0 := rfl
      rw [this, Rat.zero_add]
      apply sum_map_zero
      intro d hd
      unfold qtysOn
      rw [hnoA d hd]
      rfl
    obtain ⟨w1, _⟩ := pipelineRun_trace cfg v a c hv hc hal B1 stA stB tB1 (priceOr stA.vPrev c 0) ⟨0, 0, 0⟩
      (p2 hn0) p3 hin hu (priceIs_priceOr _ _ _) hQ0.symm hB
    rw [traceOfRun_idle cfg a c B1 _ stA ⟨0, 0, 0⟩ rfl hnoB] at w1
    simp only [Rat.zero_add] at w1
    exact w1.symm

/-! ### sums of bounds -/

theorem sum_bounds {α : Type} (f g : α → Rat) : ∀ (K : List α), (∀ c ∈ K, -g c ≤ f c ∧ f c ≤ g c) →
    -(K.map g).sum ≤ (K.map f).sum ∧ (K.map f).sum ≤ (K.map g).sum
  | [], _ => by simp only [List.map_nil, List.sum_nil]; constructor <;> grind
  | k :: K, h => by
    obtain ⟨i1, i2⟩ := sum_bounds f g K (fun c hc => h c (List.mem_cons_of_mem _ hc))
    obtain ⟨h1, h2⟩ := h k List.mem_cons_self
    simp only [List.map_cons, List.sum_cons]
    constructor <;> grind

theorem sum_map_sub {α : Type} (f g : α → Rat) : ∀ (K : List α),
    (K.map (fun c => f c - g c)).sum = (K.map f).sum - (K.map g).sum
  | [] => by simp only [List.map_nil, List.sum_nil]; grind
  | k :: K => by
    simp only [List.map_cons, List.sum_cons]
    rw [sum_map_sub f g K]
    grind

theorem natCast_sum_mul (u : Rat) : ∀ (K : List Nat), ((K.sum : Nat) : Rat) * u = (K.map (fun (n : Nat) => (n : Rat) * u)).sum
  | [] => by simp only [List.sum_nil, List.map_nil]; show ((0 : Nat) : Rat) * u = 0; grind
  | k :: K => by
    simp only [List.sum_cons, List.map_cons, Rat.natCast_add]
    rw [← natCast_sum_mul u K]
    grind

/-- **the account row over the window `(F, D]`**, `F` the day before the window start and `D` a column date (period
end) inside the window: the cumulative value of account `a` in column `D` is `Spec.mtm … D − Spec.mtm … F` — the exact
Σ quantity × latest normalised price at `D` minus the same at `F`, both of which exist — up to `Spec.stepBound` units
of the 8th decimal.  For every plain valued configuration, every date-sorted day list whose transactions are filed
under their dates and arrive unvalued, and every window. -/
theorem run_account_window (cfg : BalCfg) (v : Commodity) (a : Account) (days : List Day) (stF : BalState) (D : Int)
    (hv : cfg.valuation = some v) (hal : a.isAL = true) (hpl : Plain cfg) (hs : Sorted days)
    (hcons : ∀ d ∈ days, ∀ t ∈ d.transactions, t.date = d.date)
    (hz : ∀ d ∈ days, ∀ t ∈ d.transactions, ∀ p ∈ t.postings, p.value = 0)
    (hinc : List.Pairwise (· < ·) (cfg.periods.map (·.stop))) (hD : D ∈ cfg.periods.map (·.stop))
    (hDin : cfg.span.contains D = true)
    (h : Balance.run cfg days = .ok stF) :
    ∃ mD mF, Spec.mtm v days a D = some mD ∧ Spec.mtm v days a (cfg.span.start - 1) = some mF ∧
      -((Spec.stepBound v days a (cfg.span.start - 1) D : Rat) * ulp 8) ≤ accCum a stF.entries D - (mD - mF) ∧
      accCum a stF.entries D - (mD - mF) ≤ (Spec.stepBound v days a (cfg.span.start - 1) D : Rat) * ulp 8 := by
  have hvs : cfg.valuation.isSome = true := by rw [hv]; rfl
  have hbnd : ¬ (D < cfg.span.start) ∧ ¬ (D > cfg.span.stop) := by
    unfold Period.contains at hDin
    simpa using hDin
  have hlo : cfg.span.start ≤ D + 1 := by omega
  obtain ⟨hsplit, hpre⟩ := sorted_split3 cfg.span.start D hlo days hs
  generalize hA' : days.filter (fun d => decide (d.date < cfg.span.start)) = A at hsplit hpre
  generalize hB1' : days.filter (fun d => !decide (d.date < cfg.span.start) && decide (d.date ≤ D)) = B1 at hsplit hpre
  generalize hB2' : days.filter (fun d => !decide (d.date < cfg.span.start) && !decide (d.date ≤ D)) = B2 at hsplit
  have hAsub : ∀ d ∈ A, d ∈ days ∧ d.date < cfg.span.start := by
    intro d hd; rw [← hA'] at hd
    have := List.mem_filter.mp hd
    exact ⟨this.1, by simpa using this.2⟩
  have hB1sub : ∀ d ∈ B1, d ∈ days ∧ ¬ d.date < cfg.span.start ∧ d.date ≤ D := by
    intro d hd; rw [← hB1'] at hd
    have := List.mem_filter.mp hd
    exact ⟨this.1, by simpa using this.2⟩
  have hB2sub : ∀ d ∈ B2, d ∈ days ∧ D < d.date := by
    intro d hd; rw [← hB2'] at hd
    have := List.mem_filter.mp hd
    refine ⟨this.1, ?_⟩
    have h2 := this.2
    simp only [Bool.and_eq_true, Bool.not_eq_true', decide_eq_false_iff_not] at h2
    omega
  have hAout : ∀ d ∈ A, cfg.span.contains d.date = false := by
    intro d hd
    have := (hAsub d hd).2
    unfold Period.contains; simp [this]
  have hB1in : ∀ d ∈ B1, cfg.span.contains d.date = true := by
    intro d hd
    obtain ⟨_, h1, h2⟩ := hB1sub d hd
    unfold Period.contains
    have : ¬ d.date > cfg.span.stop := by omega
    simp [h1, this]
  -- the run, split
  obtain ⟨txs, hp, he⟩ := run_pipelineRun cfg days stF h
  rw [hsplit] at hp
  obtain ⟨stB, tAB, tB2, h12, h3, e1⟩ := pipelineRun_append cfg _ _ _ _ _ hp
  obtain ⟨stA, tA, tB1, hA, hB, e2⟩ := pipelineRun_append cfg _ _ _ _ _ h12
  have hAB := pipelineRun_append_ok cfg A B1 {} stA stB tA tB1 hA hB
  have rB : Balance.run cfg (days.filter (fun d => d.date ≤ D)) = .ok stB := by
    rw [hpre]; exact run_of_pipelineRun cfg _ _ _ hAB
  have hFA : days.filter (fun d => d.date ≤ cfg.span.start - 1) = A := by
    rw [← hA']
    apply List.filter_congr
    intro d _
    by_cases hd : d.date < cfg.span.start
    · have : d.date ≤ cfg.span.start - 1 := by omega
      simp [hd, this]
    · have : ¬ d.date ≤ cfg.span.start - 1 := by omega
      simp [hd, this]
  have rA : Balance.run cfg (days.filter (fun d => d.date ≤ cfg.span.start - 1)) = .ok stA := by
    rw [hFA]; exact run_of_pipelineRun cfg _ _ _ hA
  have mD := run_mtm_spec cfg v hv days D hcons a hal stB rB
  have mF := run_mtm_spec cfg v hv days (cfg.span.start - 1) hcons a hal stA rA
  refine ⟨_, _, mD, mF, ?_⟩
  have hinv0 : CloseInv {} := by intro k hk; cases hk
  -- the inserts, split
  have hes : stF.entries = tA.flatMap (Balance.queryTx cfg) ++ tB1.flatMap (Balance.queryTx cfg) ++
      tB2.flatMap (Balance.queryTx cfg) := by
    rw [he, e1, e2, List.flatMap_append, List.flatMap_append]
  have hcA : accCum a (tA.flatMap (Balance.queryTx cfg)) D = 0 := by
    apply accCum_zero_of_filter_nil
    intro e hem hc
    obtain ⟨t, ht, p, hpt, rfl⟩ := mem_entries_plain cfg hpl hvs tA e hem
    obtain ⟨_, _, _, q4⟩ := pipelineRun_any cfg v a p.commodity hv hal A {} stA tA hinv0 hA
    have hnil := q4 hAout
    have : p ∈ posOn a p.commodity tA := by
      unfold posOn
      rw [List.mem_filter]
      have h1 : p.account = a := hc.1
      exact ⟨List.mem_flatMap.mpr ⟨t, ht, hpt⟩, by unfold onPos; simp [h1]⟩
    rw [hnil] at this
    cases this
  have hcB2 : accCum a (tB2.flatMap (Balance.queryTx cfg)) D = 0 := by
    apply accCum_zero_of_filter_nil
    intro e hem hc
    obtain ⟨t, ht, p, hpt, rfl⟩ := mem_entries_plain cfg hpl hvs tB2 e hem
    obtain ⟨d, hd, hdt⟩ := pipelineRun_dates cfg B2 stB stF tB2 (fun d hd => hcons d (hB2sub d hd).1) h3 t ht
    obtain ⟨_, D', h1, h2⟩ := hc
    simp only at h1
    have := alignIn_gt cfg.periods t.date D D' (by rw [hdt]; exact (hB2sub d hd).2) h1
    omega
  have hcB1 : accCum a (tB1.flatMap (Balance.queryTx cfg)) D = accTotal a (tB1.flatMap (Balance.queryTx cfg)) := by
    apply accCum_eq_total
    intro e hem
    obtain ⟨t, ht, p, hpt, rfl⟩ := mem_entries_plain cfg hpl hvs tB1 e hem
    obtain ⟨d, hd, hdt⟩ := pipelineRun_dates cfg B1 stA stB tB1 (fun d hd => hcons d (hB1sub d hd).1) hB t ht
    exact alignIn_le cfg.periods t.date D hinc hD (by rw [hdt]; exact (hB1sub d hd).2.2)
  rw [hes, accCum_append, accCum_append, hcA, hcB2, hcB1, Rat.zero_add, Rat.add_zero]
  -- by commodity
  generalize hEB : tB1.flatMap (Balance.queryTx cfg) = eB1
  generalize hC : Spec.commoditiesOf days a = C at mD mF
  have hCn : C.Nodup := by
    rw [← hC]; unfold Spec.commoditiesOf
    exact ReportPerm.nodup_eraseDups _ _ (Nat.le_refl _)
  let K' := (((eB1.filter (fun e => decide (e.account = a))).map (·.commodity)).eraseDups).filter (fun c => !decide (c ∈ C))
  have hK'n : K'.Nodup :=
    List.Pairwise.sublist List.filter_sublist (ReportPerm.nodup_eraseDups _ _ (Nat.le_refl _))
  have hK'C : ∀ c ∈ K', c ∉ C := by
    intro c hc
    have := (List.mem_filter.mp hc).2
    simpa using this
  have hKn : (C ++ K').Nodup := by
    rw [List.nodup_append]
    refine ⟨hCn, hK'n, ?_⟩
    intro x hx y hy e
    exact hK'C y hy (e ▸ hx)
  have hcover : ∀ e ∈ eB1, e.account = a → e.commodity ∈ C ++ K' := by
    intro e he ha
    by_cases hc : e.commodity ∈ C
    · exact List.mem_append_left _ hc
    · apply List.mem_append_right
      rw [List.mem_filter]
      refine ⟨?_, by simp [hc]⟩
      rw [List.mem_eraseDups]
      exact List.mem_map.mpr ⟨e, List.mem_filter.mpr ⟨he, by simp [ha]⟩, rfl⟩
  rw [accTotal_by_commodity a (C ++ K') hKn eB1 hcover, List.map_append, sum_append_rat]
  have hval : ∀ c, entryVal a c eB1 = valOn a c tB1 := by
    intro c; rw [← hEB]; exact entryVal_flatMap cfg hpl hvs a c tB1
  have hzero : (K'.map (fun c => entryVal a c eB1)).sum = 0 := by
    apply sum_map_zero
    intro c hc
    rw [hval]
    have hcn : c ∉ Spec.commoditiesOf days a := by rw [hC]; exact hK'C c hc
    exact window_position_idle cfg v a c hv hal A B1 stA stB tA tB1 hA hB hB1in
      (fun d hd => posOn_nil_of_not_mem hcn d (hAsub d hd).1)
      (fun d hd => posOn_nil_of_not_mem hcn d (hB1sub d hd).1)
  rw [hzero, Rat.add_zero]
  -- the deviation per commodity
  have hdev : ∀ c ∈ C,
      -((Spec.stepCount v days a (cfg.span.start - 1) D c : Rat) * ulp 8) ≤
        entryVal a c eB1 - (Spec.qtyAt days a c D * specPrice v days D c -
          Spec.qtyAt days a c (cfg.span.start - 1) * specPrice v days (cfg.span.start - 1) c) ∧
      entryVal a c eB1 - (Spec.qtyAt days a c D * specPrice v days D c -
          Spec.qtyAt days a c (cfg.span.start - 1) * specPrice v days (cfg.span.start - 1) c) ≤
        (Spec.stepCount v days a (cfg.span.start - 1) D c : Rat) * ulp 8 := by
    intro c _
    rw [hval]
    have qD := run_qty_spec cfg v hv days D hcons a c hal stB rB
    have qF := run_qty_spec cfg v hv days (cfg.span.start - 1) hcons a c hal stA rA
    have hu : ∀ d ∈ B1, Unvalued a c d.transactions := by
      intro d hd t ht p hp _ _ _
      exact hz d (hB1sub d hd).1 t ht p hp
    obtain ⟨_, _, pA3, _⟩ := pipelineRun_any cfg v a c hv hal A {} stA tA hinv0 hA
    by_cases hc : c = v
    · subst hc
      have e1 : valOn a c tB1 = qtySum a c B1 := pipelineRun_valOn_v cfg c a hv hal B1 stA stB tB1 pA3 hB1in hu hB
      obtain ⟨qB, _⟩ := pipelineRun_any cfg c a c hv hal B1 stA stB tB1 pA3 hB
      unfold specPrice Spec.stepCount
      simp only [if_true, Rat.mul_one]
      rw [← qD, ← qF, qB, e1]
      unfold qtySum
      have e0 : (((0 : Nat) : Rat)) = 0 := rfl
      constructor <;> grind
    · obtain ⟨b1, b2⟩ := window_position_bound cfg v a c hv hc hal A B1 stA stB tA tB1 hA hB hB1in hu
      obtain ⟨_, pvD⟩ := run_prices_spec cfg v hv days D stB rB
      obtain ⟨_, pvF⟩ := run_prices_spec cfg v hv days (cfg.span.start - 1) stA rA
      have hcount : Spec.stepCount v days a (cfg.span.start - 1) D c = priceDays B1 + nzCount a c B1 := by
        unfold Spec.stepCount
        simp only [hc, if_false]
        have hwin : days.filter (fun d => decide (cfg.span.start - 1 < d.date) && decide (d.date ≤ D)) = B1 := by
          rw [← hB1']
          apply List.filter_congr
          intro d _
          by_cases hd : d.date < cfg.span.start
          · have : ¬ cfg.span.start - 1 < d.date := by omega
            simp [hd, this]
          · have : cfg.span.start - 1 < d.date := by omega
            simp [hd, this]
        have e : (fun (x : Int × Posting) => match x with
            | (d, p) => decide (cfg.span.start - 1 < d) && decide (d ≤ D) && decide (p.account = a) &&
                decide (p.commodity = c) && decide (p.quantity ≠ 0)) =
            (fun (x : Int × Posting) => decide (cfg.span.start - 1 < x.1) && decide (x.1 ≤ D) && decide (x.2.account = a) &&
                decide (x.2.commodity = c) && decide (x.2.quantity ≠ 0)) := by
          funext x; obtain ⟨x1, x2⟩ := x; rfl
        rw [e, nzCount_spec a c _ D days hcons, priceDays_spec, hwin]
        omega
      unfold specPrice
      simp only [hc, if_false]
      rw [← qD, ← qF, ← pvD, ← pvF, hcount]
      exact ⟨b1, b2⟩
  obtain ⟨s1, s2⟩ := sum_bounds _ _ C hdev
  rw [sum_map_sub, sum_map_sub] at s1 s2
  unfold Spec.stepBound
  rw [hC, natCast_sum_mul, List.map_map]
  exact ⟨s1, s2⟩

end Knut.MTM
