/-!
# Go's `utf8.DecodeRuneInString`, rune by rune

The scanner of knut walks a Go `string` (arbitrary bytes) with `utf8.DecodeRuneInString`:
a valid encoding gives `(rune, 1..4)`, anything else `(RuneError = U+FFFD, 1)`, the empty string
`(RuneError, 0)`. `decodeRune` is that function (same case split as the Go table `first`/`acceptRanges`),
`decodeAll` cuts a whole byte string into tokens. A token keeps the bytes it was decoded from, so that
byte offsets, slices of the text and token lists can be related without an encoder.
-/
namespace Knut.Utf8

/-- `utf8.RuneError` -/
def runeError : Nat := 0xFFFD

/-- one decoding step: the rune and the bytes it occupies (`w = bytes.length` is Go's width). -/
structure Tok where
  r : Nat
  bytes : List UInt8
  deriving DecidableEq, Repr, Inhabited

/-- Go's width of the decoded rune -/
@[reducible] def Tok.w (t : Tok) : Nat := t.bytes.length

/-- `(RuneError, 1)`: what `Scanner.Advance` reports as "invalid unicode character". A correctly
encoded U+FFFD has width 3 and is an ordinary character. -/
def Tok.invalid (t : Tok) : Bool := t.r == runeError && t.bytes.length == 1

def isCont (b : UInt8) : Bool := 0x80 ≤ b.toNat && b.toNat ≤ 0xBF

/-- second byte of a three-byte form: `acceptRanges` of Go (`E0` needs `A0..BF`, `ED` needs `80..9F`) -/
def accept3 (x : Nat) (b1 : UInt8) : Bool :=
  decide ((if x = 0xE0 then 0xA0 else 0x80) ≤ b1.toNat) && decide (b1.toNat ≤ (if x = 0xED then 0x9F else 0xBF))

/-- second byte of a four-byte form (`F0` needs `90..BF`, `F4` needs `80..8F`) -/
def accept4 (x : Nat) (b1 : UInt8) : Bool :=
  decide ((if x = 0xF0 then 0x90 else 0x80) ≤ b1.toNat) && decide (b1.toNat ≤ (if x = 0xF4 then 0x8F else 0xBF))

/-- `utf8.DecodeRuneInString` on a non-empty string `b0 :: rest` resp. the empty string. -/
def decodeRune : List UInt8 → Tok
  | [] => ⟨runeError, []⟩
  | b0 :: rest =>
    let x := b0.toNat
    let inv : Tok := ⟨runeError, [b0]⟩
    if x < 0x80 then ⟨x, [b0]⟩
    else if x < 0xC2 then inv
    else if x < 0xE0 then
      match rest with
      | b1 :: _ => if isCont b1 then ⟨(x % 32) * 64 + b1.toNat % 64, [b0, b1]⟩ else inv
      | [] => inv
    else if x < 0xF0 then
      match rest with
      | b1 :: b2 :: _ =>
        if accept3 x b1 then
          if isCont b2 then ⟨(x % 16) * 4096 + (b1.toNat % 64) * 64 + b2.toNat % 64, [b0, b1, b2]⟩ else inv
        else inv
      | _ => inv
    else if x < 0xF5 then
      match rest with
      | b1 :: b2 :: b3 :: _ =>
        if accept4 x b1 then
          if isCont b2 then
            if isCont b3 then
              ⟨(x % 8) * 262144 + (b1.toNat % 64) * 4096 + (b2.toNat % 64) * 64 + b3.toNat % 64, [b0, b1, b2, b3]⟩
            else inv
          else inv
        else inv
      | _ => inv
    else inv

theorem decodeRune_bytes_prefix (bs : List UInt8) : (decodeRune bs).bytes = bs.take (decodeRune bs).bytes.length := by
  unfold decodeRune
  split
  · rfl
  · rename_i b0 rest
    simp only
    repeat' split
    all_goals simp

theorem decodeRune_width_pos (b : UInt8) (rest : List UInt8) : 1 ≤ (decodeRune (b :: rest)).bytes.length := by
  unfold decodeRune
  simp only
  repeat' split
  all_goals simp

theorem decodeRune_width_le (bs : List UInt8) : (decodeRune bs).bytes.length ≤ bs.length := by
  have h := decodeRune_bytes_prefix bs
  have : (decodeRune bs).bytes.length = (bs.take (decodeRune bs).bytes.length).length := by rw [← h]
  rw [List.length_take] at this
  omega

/-- tokens of a byte string, accumulator form (the driver decodes megabyte inputs) -/
def decodeAllAcc (bs : List UInt8) (acc : Array Tok) : Array Tok :=
  match bs with
  | [] => acc
  | b :: rest =>
    let t := decodeRune (b :: rest)
    decodeAllAcc ((b :: rest).drop t.bytes.length) (acc.push t)
termination_by bs.length
decreasing_by
  have := decodeRune_width_pos b rest
  simp only [List.length_drop, List.length_cons]
  omega

/-- the text as the scanner sees it: the successive results of `DecodeRuneInString`. -/
def decodeAll (bs : List UInt8) : List Tok := (decodeAllAcc bs #[]).toList

theorem decodeAllAcc_eq_aux (n : Nat) : ∀ (bs : List UInt8) (acc : Array Tok), bs.length ≤ n →
    (decodeAllAcc bs acc).toList = acc.toList ++ (decodeAllAcc bs #[]).toList := by
  induction n with
  | zero =>
    intro bs acc h
    cases bs with
    | nil => simp [decodeAllAcc]
    | cons b rest => simp at h
  | succ n ih =>
    intro bs acc h
    cases bs with
    | nil => simp [decodeAllAcc]
    | cons b rest =>
      have hw := decodeRune_width_pos b rest
      have hl : ((b :: rest).drop (decodeRune (b :: rest)).bytes.length).length ≤ n := by
        simp only [List.length_drop, List.length_cons] at h ⊢
        omega
      rw [decodeAllAcc, decodeAllAcc.eq_def (b :: rest) #[]]
      simp only
      rw [ih _ (acc.push _) hl, ih _ (#[].push _) hl]
      simp

theorem decodeAllAcc_eq (bs : List UInt8) (acc : Array Tok) :
    (decodeAllAcc bs acc).toList = acc.toList ++ (decodeAllAcc bs #[]).toList :=
  decodeAllAcc_eq_aux bs.length bs acc (Nat.le_refl _)

@[simp] theorem decodeAll_nil : decodeAll [] = [] := by simp [decodeAll, decodeAllAcc]

theorem decodeAll_cons (b : UInt8) (rest : List UInt8) :
    decodeAll (b :: rest) =
      decodeRune (b :: rest) :: decodeAll ((b :: rest).drop (decodeRune (b :: rest)).bytes.length) := by
  simp only [decodeAll]
  rw [decodeAllAcc.eq_def (b :: rest) #[]]
  simp only
  rw [decodeAllAcc_eq]
  simp

/-- total width of a token list -/
def wsum : List Tok → Nat
  | [] => 0
  | t :: ts => t.bytes.length + wsum ts

@[simp] theorem wsum_nil : wsum [] = 0 := rfl
@[simp] theorem wsum_cons (t : Tok) (ts : List Tok) : wsum (t :: ts) = t.bytes.length + wsum ts := rfl
@[simp] theorem wsum_append (a b : List Tok) : wsum (a ++ b) = wsum a + wsum b := by
  induction a with
  | nil => simp
  | cons t ts ih => simp [ih]; omega

/-- the bytes of a token list -/
def flat : List Tok → List UInt8
  | [] => []
  | t :: ts => t.bytes ++ flat ts

@[simp] theorem flat_nil : flat [] = [] := rfl
@[simp] theorem flat_cons (t : Tok) (ts : List Tok) : flat (t :: ts) = t.bytes ++ flat ts := rfl
@[simp] theorem flat_append (a b : List Tok) : flat (a ++ b) = flat a ++ flat b := by
  induction a with
  | nil => simp
  | cons t ts ih => simp [ih]

@[simp] theorem flat_length (ts : List Tok) : (flat ts).length = wsum ts := by
  induction ts with
  | nil => simp
  | cons t ts ih => simp [ih]

/-- decoding loses nothing: the tokens' bytes are the text. -/
theorem flat_decodeAll (bs : List UInt8) : flat (decodeAll bs) = bs := by
  match bs with
  | [] => simp
  | b :: rest =>
    rw [decodeAll_cons]
    simp only [flat_cons]
    rw [flat_decodeAll ((b :: rest).drop _)]
    conv => lhs; lhs; rw [decodeRune_bytes_prefix]
    exact List.take_append_drop _ _
termination_by bs.length
decreasing_by
  have := decodeRune_width_pos b rest
  simp only [List.length_drop, List.length_cons]
  omega

theorem wsum_decodeAll (bs : List UInt8) : wsum (decodeAll bs) = bs.length := by
  rw [← flat_length, flat_decodeAll]

/-- every token of a decoded text is at least one byte wide -/
theorem decodeAll_width_pos (bs : List UInt8) : ∀ t ∈ decodeAll bs, 1 ≤ t.bytes.length := by
  match bs with
  | [] => simp
  | b :: rest =>
    rw [decodeAll_cons]
    intro t ht
    rcases List.mem_cons.mp ht with h | h
    · rw [h]; exact decodeRune_width_pos b rest
    · exact decodeAll_width_pos _ t h
termination_by bs.length
decreasing_by
  have := decodeRune_width_pos b rest
  simp only [List.length_drop, List.length_cons]
  omega

/-- a validly decoded rune is decoded again from its own bytes, whatever follows (UTF-8 is self-delimiting) -/
theorem decodeRune_self (b : UInt8) (bs rest : List UInt8) (h : (decodeRune (b :: bs)).invalid = false) :
    decodeRune ((decodeRune (b :: bs)).bytes ++ rest) = decodeRune (b :: bs) := by
  by_cases h1 : b.toNat < 0x80
  · simp [decodeRune, h1]
  by_cases h2 : b.toNat < 0xC2
  · exfalso; simp [decodeRune, h1, h2, Tok.invalid] at h
  by_cases h3 : b.toNat < 0xE0
  · cases bs with
    | nil => exfalso; simp [decodeRune, h1, h2, h3, Tok.invalid] at h
    | cons b1 tl =>
      by_cases hc : isCont b1 = true
      · simp [decodeRune, h1, h2, h3, hc]
      · exfalso; simp [decodeRune, h1, h2, h3, hc, Tok.invalid] at h
  by_cases h4 : b.toNat < 0xF0
  · match bs with
    | [] => exfalso; simp [decodeRune, h1, h2, h3, h4, Tok.invalid] at h
    | [_] => exfalso; simp [decodeRune, h1, h2, h3, h4, Tok.invalid] at h
    | b1 :: b2 :: tl =>
      by_cases ha : accept3 b.toNat b1 = true
      · by_cases hc : isCont b2 = true
        · simp [decodeRune, h1, h2, h3, h4, ha, hc]
        · exfalso; simp [decodeRune, h1, h2, h3, h4, ha, hc, Tok.invalid] at h
      · exfalso; simp [decodeRune, h1, h2, h3, h4, ha, Tok.invalid] at h
  by_cases h5 : b.toNat < 0xF5
  · match bs with
    | [] => exfalso; simp [decodeRune, h1, h2, h3, h4, h5, Tok.invalid] at h
    | [_] => exfalso; simp [decodeRune, h1, h2, h3, h4, h5, Tok.invalid] at h
    | [_, _] => exfalso; simp [decodeRune, h1, h2, h3, h4, h5, Tok.invalid] at h
    | b1 :: b2 :: b3 :: tl =>
      by_cases ha : accept4 b.toNat b1 = true
      · by_cases hc : isCont b2 = true
        · by_cases hd : isCont b3 = true
          · simp [decodeRune, h1, h2, h3, h4, h5, ha, hc, hd]
          · exfalso; simp [decodeRune, h1, h2, h3, h4, h5, ha, hc, hd, Tok.invalid] at h
        · exfalso; simp [decodeRune, h1, h2, h3, h4, h5, ha, hc, Tok.invalid] at h
      · exfalso; simp [decodeRune, h1, h2, h3, h4, h5, ha, Tok.invalid] at h
  · exfalso; simp [decodeRune, h1, h2, h3, h4, h5, Tok.invalid] at h

/-- ASCII runes are single bytes, all other tokens consist of bytes `≥ 0x80` (so an ASCII byte of the text is
always a token of its own, whatever surrounds it). -/
def Tok.wf (t : Tok) : Prop :=
  (t.r < 128 → t.bytes = [UInt8.ofNat t.r]) ∧ (128 ≤ t.r → ∀ b ∈ t.bytes, 128 ≤ b.toNat)

theorem Tok.wf_ascii (b : UInt8) : Tok.wf ⟨b.toNat, [b]⟩ := by
  refine ⟨fun _ => ?_, fun h c hc => ?_⟩
  · simp
  · simp only [List.mem_cons, List.not_mem_nil, or_false] at hc
    subst hc; exact h

theorem Tok.wf_high (r : Nat) (bytes : List UInt8) (h1 : 128 ≤ r) (h2 : ∀ b ∈ bytes, 128 ≤ b.toNat) : Tok.wf ⟨r, bytes⟩ :=
  ⟨fun h => by simp only at h; omega, fun _ => h2⟩

theorem accept3_lo {x : Nat} {b1 : UInt8} (h : accept3 x b1 = true) :
    (0x80 ≤ b1.toNat ∧ b1.toNat ≤ 0xBF) ∧ (x = 0xE0 → 0xA0 ≤ b1.toNat) := by
  simp only [accept3, Bool.and_eq_true, decide_eq_true_eq] at h
  refine ⟨⟨?_, ?_⟩, ?_⟩
  · have := h.1; split at this <;> omega
  · have := h.2; split at this <;> omega
  · intro hx; have := h.1; simp only [hx, if_true] at this; exact this

theorem accept4_lo {x : Nat} {b1 : UInt8} (h : accept4 x b1 = true) :
    (0x80 ≤ b1.toNat ∧ b1.toNat ≤ 0xBF) ∧ (x = 0xF0 → 0x90 ≤ b1.toNat) := by
  simp only [accept4, Bool.and_eq_true, decide_eq_true_eq] at h
  refine ⟨⟨?_, ?_⟩, ?_⟩
  · have := h.1; split at this <;> omega
  · have := h.2; split at this <;> omega
  · intro hx; have := h.1; simp only [hx, if_true] at this; exact this

theorem decodeRune_wf (b : UInt8) (rest : List UInt8) : (decodeRune (b :: rest)).wf := by
  have inv : 128 ≤ b.toNat → Tok.wf ⟨runeError, [b]⟩ := fun hb =>
    Tok.wf_high _ _ (by simp [runeError]) (by simp; omega)
  by_cases h1 : b.toNat < 0x80
  · simp only [decodeRune, h1, if_true]; exact Tok.wf_ascii b
  by_cases h2 : b.toNat < 0xC2
  · simp only [decodeRune, h1, h2, if_true, if_false]; exact inv (by omega)
  by_cases h3 : b.toNat < 0xE0
  · cases rest with
    | nil => simp only [decodeRune, h1, h2, h3, if_true, if_false]; exact inv (by omega)
    | cons b1 tl =>
      by_cases hc : isCont b1 = true
      · simp only [decodeRune, h1, h2, h3, hc, if_true, if_false]
        simp only [isCont, Bool.and_eq_true, decide_eq_true_eq] at hc
        exact Tok.wf_high _ _ (by omega) (by simp; omega)
      · simp only [decodeRune, h1, h2, h3, hc, if_true, if_false]; exact inv (by omega)
  by_cases h4 : b.toNat < 0xF0
  · match rest with
    | [] => simp only [decodeRune, h1, h2, h3, h4, if_true, if_false]; exact inv (by omega)
    | [_] => simp only [decodeRune, h1, h2, h3, h4, if_true, if_false]; exact inv (by omega)
    | b1 :: b2 :: tl =>
      by_cases ha : accept3 b.toNat b1 = true
      · by_cases hc : isCont b2 = true
        · simp only [decodeRune, h1, h2, h3, h4, ha, hc, if_true, if_false]
          have ⟨a1, a2⟩ := accept3_lo ha
          simp only [isCont, Bool.and_eq_true, decide_eq_true_eq] at hc
          refine Tok.wf_high _ _ ?_ (by simp; omega)
          by_cases hx : b.toNat = 0xE0
          · have := a2 hx; omega
          · omega
        · simp only [decodeRune, h1, h2, h3, h4, ha, hc, if_true, if_false]; exact inv (by omega)
      · simp only [decodeRune, h1, h2, h3, h4, ha, if_true, if_false]; exact inv (by omega)
  by_cases h5 : b.toNat < 0xF5
  · match rest with
    | [] => simp only [decodeRune, h1, h2, h3, h4, h5, if_true, if_false]; exact inv (by omega)
    | [_] => simp only [decodeRune, h1, h2, h3, h4, h5, if_true, if_false]; exact inv (by omega)
    | [_, _] => simp only [decodeRune, h1, h2, h3, h4, h5, if_true, if_false]; exact inv (by omega)
    | b1 :: b2 :: b3 :: tl =>
      by_cases ha : accept4 b.toNat b1 = true
      · by_cases hc : isCont b2 = true
        · by_cases hd : isCont b3 = true
          · simp only [decodeRune, h1, h2, h3, h4, h5, ha, hc, hd, if_true, if_false]
            have ⟨a1, a2⟩ := accept4_lo ha
            simp only [isCont, Bool.and_eq_true, decide_eq_true_eq] at hc hd
            refine Tok.wf_high _ _ ?_ (by simp; omega)
            by_cases hx : b.toNat = 0xF0
            · have := a2 hx; omega
            · omega
          · simp only [decodeRune, h1, h2, h3, h4, h5, ha, hc, hd, if_true, if_false]; exact inv (by omega)
        · simp only [decodeRune, h1, h2, h3, h4, h5, ha, hc, if_true, if_false]; exact inv (by omega)
      · simp only [decodeRune, h1, h2, h3, h4, h5, ha, if_true, if_false]; exact inv (by omega)
  · simp only [decodeRune, h1, h2, h3, h4, h5, if_true, if_false]; exact inv (by omega)

theorem decodeAll_wf (bs : List UInt8) : ∀ t ∈ decodeAll bs, t.wf := by
  match bs with
  | [] => simp
  | b :: rest =>
    rw [decodeAll_cons]
    intro t ht
    rcases List.mem_cons.mp ht with h | h
    · rw [h]; exact decodeRune_wf b rest
    · exact decodeAll_wf _ t h
termination_by bs.length
decreasing_by
  have := decodeRune_width_pos b rest
  simp only [List.length_drop, List.length_cons]
  omega

/-- the token is what `decodeRune` returns on its own bytes, whatever follows them, and it is not empty -/
def Tok.canon (t : Tok) : Prop := (∀ rest, decodeRune (t.bytes ++ rest) = t) ∧ 1 ≤ t.bytes.length

theorem decodeAll_canon (bs : List UInt8) : ∀ t ∈ decodeAll bs, t.invalid = false → t.canon := by
  match bs with
  | [] => simp
  | b :: rest =>
    rw [decodeAll_cons]
    intro t ht hv
    rcases List.mem_cons.mp ht with h | h
    · subst h
      exact ⟨fun r => decodeRune_self b rest r hv, decodeRune_width_pos b rest⟩
    · exact decodeAll_canon _ t h hv
termination_by bs.length
decreasing_by
  have := decodeRune_width_pos b rest
  simp only [List.length_drop, List.length_cons]
  omega

/-- decoding the bytes of canonical tokens gives the tokens back, whatever follows -/
theorem decodeAll_flat_append (c : List Tok) (hc : ∀ t ∈ c, t.canon) (rest : List UInt8) :
    decodeAll (flat c ++ rest) = c ++ decodeAll rest := by
  induction c with
  | nil => simp
  | cons t ts ih =>
    have ht := hc t List.mem_cons_self
    obtain ⟨b, bs, hb⟩ : ∃ b bs, t.bytes = b :: bs := by
      cases h : t.bytes with
      | nil => have := ht.2; rw [h] at this; simp at this
      | cons b bs => exact ⟨b, bs, rfl⟩
    have e : flat (t :: ts) ++ rest = b :: (bs ++ (flat ts ++ rest)) := by simp [hb]
    rw [e, decodeAll_cons]
    have e2 : b :: (bs ++ (flat ts ++ rest)) = t.bytes ++ (flat ts ++ rest) := by simp [hb]
    rw [e2, ht.1]
    simp only [List.drop_left, List.cons_append]
    rw [ih (fun x hx => hc x (List.mem_cons_of_mem _ hx))]

theorem decodeAll_flat (c : List Tok) (hc : ∀ t ∈ c, t.canon) : decodeAll (flat c) = c := by
  have := decodeAll_flat_append c hc []
  simpa using this

/-- the token of an ASCII byte -/
def tk (r : Nat) : Tok := ⟨r, [UInt8.ofNat r]⟩

theorem tk_canon {r : Nat} (h : r < 128) : (tk r).canon := by
  refine ⟨fun rest => ?_, by simp [tk]⟩
  have e : (UInt8.ofNat r).toNat = r := by simp [UInt8.toNat_ofNat']; omega
  simp [tk, decodeRune, e, h]

theorem tk_valid {r : Nat} (h : r < 128) : (tk r).invalid = false := by
  simp [tk, Tok.invalid, runeError]; omega

end Knut.Utf8
