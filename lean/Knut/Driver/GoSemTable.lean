import Knut.Wire
import Knut.GoSem.TableFmt
import Knut.GoSem.Csv
/-! Driver ops `gosemtable …`: the primitives that the translation of the table renderers (`lib/common/table`) adds to the prelude
(`Knut/GoSem/TableFmt.lean`: `(*color.Color).Fprintf`, `make([]T, n)`; `Knut/GoSem/Csv.lean`: `encoding/csv.Writer`), evaluated for
the differential stream `gosemtable` of C11 (`harness/gosem_table.go`). -/
namespace Knut.Driver.GoSemTable
open Knut Knut.Wire Knut.GoSem

def parseInts (s : String) : Option (List Int) :=
  if s = "-" then some [] else (splitOn s ',').mapM parseInt

/-- records: `n` = none; `;` between records; a record is `e` (no field) or its hex fields joined by `,` -/
def parseRecs (s : String) : Option (List (List String)) :=
  if s = "n" then some [] else
    (splitOn s ';').mapM (fun rec => if rec = "e" then some [] else (splitOn rec ',').mapM unhexStr)

def handle (fields : List String) : Option String :=
  match fields with
  | ["gosemtable", "colorfprintf", noColor, envNo, attrs, before, text] =>
    match parseInts attrs, unhexStr before, unhexStr text with
    | some ps, some before, some text =>
      let r := Color.Fprintf ⟨noColor == "1", envNo == "1"⟩ (Color.New ps) before text
      some (hexStr r.1 ++ "/" ++ toString r.2.1 ++ "/" ++ (if r.2.2.isNone then "true" else "false"))
    | _, _, _ => some "bad-op"
  | ["gosemtable", "makeslice", n] =>
    match parseInt n with
    | some n =>
      match makeSlice (α := Int) n with
      | .ok xs => some (if xs.all (· == 0) then toString xs.length else "nonzero")
      | .panic _ => some "panic"
      | .outOfFuel => some "outOfFuel"
    | none => some "bad-op"
  | ["gosemtable", "appendcap", n, k] =>
    match parseInt n, parseInt k with
    | some n, some k =>
      match Slices.makeCap n with
      | .ok c =>
        let c := (List.range k.toNat).foldl (fun c (i : Nat) => Slices.appendCap c ((i : Int) + 1)) c
        match Slices.capE c with
        | .ok v => some (toString v)
        | _ => some "unknown"
      | _ => some "panic"
    | _, _ => some "bad-op"
  | ["gosemtable", "csvline", recs] =>
    match parseRecs recs with
    | some [rec] =>
      let r := Csv.Writer.Write (Csv.NewWriter "") rec
      some (hexStr (Csv.Writer.Flush r.1).sink ++ "/" ++ (if r.2.isNone then "true" else "false"))
    | _ => some "bad-op"
  | ["gosemtable", "csvwriter", before, recs] =>
    match unhexStr before, parseRecs recs with
    | some before, some recs =>
      let w := recs.foldl (fun w rec => (Csv.Writer.Write w rec).1) (Csv.NewWriter before)
      let dropped := match Csv.Writer.dropped w with
        | .ok s => hexStr s
        | _ => "passed-on"
      some (hexStr (Csv.Writer.Flush w).sink ++ "/" ++ dropped)
    | _, _ => some "bad-op"
  | _ => none

end Knut.Driver.GoSemTable
