package main

// Differential stream `gosembayes` (run as part of C11, after `gosem`): what lean/Knut/GoSem/SynBayes.lean and the reading of maps in
// harness/trans_syntax_bayes.go add for the translation of lib/syntax/bayes, each against real Go on BYTE strings (invalid UTF-8, prefixes
// of each other, the empty string):
//   cmp         compare.Ordered[string] (= cmp.Compare)                     GoSem.cmpOrdered on List UInt8 (lexicographic on bytes)
//   sortedkeys  dict.SortedKeys(s, compare.Ordered[string]) of a set.Set    GoSem.sortedKeys of the association list that Set.Add builds
//               built by set.New + Add (with repeated elements)
//   rangekeys   `for k := range s` of that set: the order Go happened to     Syn.rangeKeys of that order and the association list is the
//               take visits every key once                                   order itself
//   counts      a program of `m[a]++` and `dict.GetDefault(tm, t, ctor)[a]++`  AMap.set / AMap.get / getDefault as the translator emits them;
//               (the two statements of Model.update)                          every entry of both tables afterwards, keys sorted
// strings.Fields / strings.ToLower are compared on all code points and on random byte strings by C15 (streams unicode, tokens).

import (
	"fmt"
	"sort"
	"strings"

	"github.com/sboehler/knut/lib/common/compare"
	"github.com/sboehler/knut/lib/common/dict"
	"github.com/sboehler/knut/lib/common/set"
)

func gosemBayesList(l []string) string {
	if len(l) == 0 {
		return "-"
	}
	enc := make([]string, len(l))
	for i, s := range l {
		enc[i] = "x" + Hex(s)
	}
	return strings.Join(enc, ",")
}

func gosemBayesNewMap() map[string]int { return make(map[string]int) }

func runGoSemBayesStream(c *Ctx, n int) {
	bt := c.NewBatch()
	defer bt.Flush()
	cmp := func(i int, op string, in map[string]any, impl string, fields ...string) {
		in["op"] = op
		bt.Add(func(model string) { c.Compare("gosembayes", i, "gosembayes "+op, in, impl, model) }, append([]string{"gosembayes"}, fields...)...)
	}
	pieces := []string{"", "a", "b", "A", "Assets", ":", "Bank", "é", "\xc3", "\xa9", "\xff", "\x00", "\x7f", "\x80", "日", "\xe6\x97", "z", "1", " "}
	str := func(r *RNG) string {
		var b strings.Builder
		for k := r.Intn(4); k > 0; k-- {
			b.WriteString(Pick(r, pieces))
		}
		return b.String()
	}
	for i := 0; i < n; i++ {
		if !c.Want("gosembayes", i) {
			continue
		}
		r := c.Rng("gosembayes", i)
		c.Evals++
		a, b := str(r), str(r)
		switch r.Intn(4) {
		case 0:
			b = a + Pick(r, pieces) // a prefix of b (or equal)
		case 1:
			b = a
		}
		got := compare.Ordered(a, b)
		cmp(i, "cmp", map[string]any{"a": Hex(a), "b": Hex(b)}, itoa(got), "cmp", Hex(a), Hex(b))
		c.Class(fmt.Sprintf("gosembayes/cmp/%d/prefix%v", got, strings.HasPrefix(b, a) || strings.HasPrefix(a, b)))
		// a set built by Add, its sorted keys, and the order a range takes
		l := make([]string, r.Intn(9))
		for k := range l {
			if k > 0 && r.Chance(1, 4) {
				l[k] = l[r.Intn(k)]
			} else {
				l[k] = str(r)
			}
		}
		s := set.New[string]()
		for _, x := range l {
			s.Add(x)
		}
		keys := dict.SortedKeys(s, compare.Ordered[string])
		cmp(i, "sortedkeys", map[string]any{"elements": gosemBayesList(l)}, gosemBayesList(keys), "sortedkeys", gosemBayesList(l))
		var ord []string
		for k := range s {
			ord = append(ord, k)
		}
		cmp(i, "rangekeys", map[string]any{"elements": gosemBayesList(l), "order": gosemBayesList(ord)}, gosemBayesList(ord), "rangekeys", gosemBayesList(ord), gosemBayesList(l))
		c.Class(fmt.Sprintf("gosembayes/set/n%d/dups%v", len(s), len(s) < len(l)))
		// the two counting statements of Model.update
		accounts := []string{"", "a", "Assets:Bank", "\xff", "é"}
		tokens := []string{"", "t", "coffee", "\xc3", "é", "a"}
		np := r.Intn(12)
		var prog []string
		m := map[string]int{}
		tm := map[string]map[string]int{}
		for k := 0; k < np; k++ {
			acc, tok := Pick(r, accounts), Pick(r, tokens)
			if r.Chance(1, 3) {
				m[acc]++
				prog = append(prog, "m", acc)
			} else {
				dict.GetDefault(tm, tok, gosemBayesNewMap)[acc]++
				prog = append(prog, tok, acc)
				if tok == "m" {
					panic("gosembayes: token clashes with the opcode")
				}
			}
		}
		var out []string
		for _, k := range dict.SortedKeys(m, compare.Ordered[string]) {
			out = append(out, Hex(k)+"="+itoa(m[k]))
		}
		out = append(out, "|")
		tks := make([]string, 0, len(tm))
		for t := range tm {
			tks = append(tks, t)
		}
		sort.Strings(tks)
		for _, t := range tks {
			for _, k := range dict.SortedKeys(tm[t], compare.Ordered[string]) {
				out = append(out, Hex(t)+"/"+Hex(k)+"="+itoa(tm[t][k]))
			}
		}
		// the opcode "m" is sent as the hex of nothing a token can be: tokens are hex or "-", the opcode is the letter m
		enc := make([]string, len(prog))
		for k, p := range prog {
			if k%2 == 0 && p == "m" {
				enc[k] = "m"
			} else {
				enc[k] = "x" + Hex(p)
			}
		}
		pe := strings.Join(enc, ",")
		if pe == "" {
			pe = "-"
		}
		cmp(i, "counts", map[string]any{"program": pe}, strings.Join(out, " "), "counts", pe)
		c.Class(fmt.Sprintf("gosembayes/counts/n%d/accounts%d/tokens%d", np/4, len(m), len(tm)))
	}
}
