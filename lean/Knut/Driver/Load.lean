import Knut.Wire
import Knut.Model.FromSyntax
import Knut.Model.JournalPrinter
import Knut.Model.Check
import Knut.Driver.C04
/-! Driver op `loadtext`: file bytes → parser model → model directives → builder days, dumped canonically.
The harness dumps the REAL loader's days (journal.FromPath + Build) in the same format. -/
namespace Knut.Driver.Load
open Knut Knut.Wire

def dumpPosting (p : Posting) : String :=
  p.account.name ++ "," ++ p.other.name ++ "," ++ Dec.showDec p.quantity ++ "," ++ p.commodity

def dumpTargets : Option (List Commodity) → String
  | none => "-"
  | some tg => "=" ++ String.intercalate "," tg

def dumpDay (d : Day) : List String :=
  d.prices.map (fun p => s!"p~{p.date}~{p.commodity}~{Dec.showDec p.price}~{p.target}") ++
  d.openings.map (fun o => s!"o~{o.date}~{o.account.name}") ++
  d.transactions.map (fun t => s!"t~{t.date}~{hexStr t.description}~{dumpTargets t.targets}~" ++
    String.intercalate ";" (t.postings.map dumpPosting)) ++
  d.assertions.map (fun a => s!"a~{a.date}~" ++ String.intercalate ";" (a.balances.map (fun b =>
    b.account.name ++ "," ++ Dec.showDec b.quantity ++ "," ++ b.commodity))) ++
  d.closings.map (fun c => s!"c~{c.date}~{c.account.name}")

def dump (days : List Day) : String :=
  let items := days.flatMap dumpDay
  if items.isEmpty then "-" else String.intercalate "|" items

def handle (fields : List String) : Option String :=
  match fields with
  | ["loadtext", bytes] => some (
    match unhexBytes bytes with
    | none => "bad-op"
    | some b =>
      match FromSyntax.loadText "" b.toList with
      | .error => "error"
      | .panic s => "panic " ++ hexStr s
      | .ok ds =>
        let bld := Builder.ofList ds
        s!"ok {bld.min} {bld.max} " ++ dump bld.build)
  | ["c09roundtrip", j] => some (
    -- model-level round trip: print the journal, read the printed text back with the parser model, print again
    match (Knut.Driver.parseJournal j).map Knut.Driver.C04.load with
    | some (.ok ids) =>
      let days := (Builder.ofList (ids.map (·.2))).build
      match Check.run days with
      | .error _ => "rejected"
      | .ok _ =>
        let out := JournalPrinter.print days
        match FromSyntax.loadText "" out.toUTF8.toList with
        | .ok ds2 =>
          let days2 := (Builder.ofList ds2).build
          if (Check.run days2).isOk = false then "fail printed-journal-rejected"
          else if JournalPrinter.print days2 = out then "ok" else "fail not-a-fixpoint"
        | _ => "fail printed-journal-does-not-load"
    | _ => "rejected")
  | _ => none

end Knut.Driver.Load
