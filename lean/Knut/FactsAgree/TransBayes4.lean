import Knut.FactsAgree.TransBayes3
/-!
# The translated `lib/syntax/bayes`, part 4: what can go wrong

For **every** Go model value (also one that `goModel` does not produce), every Go transaction, every family of iteration orders, every
interpretation of the float operations and every external score function, the translated `Update`, `inferAccount`, `scoreCandidate`
and `Infer` end in `ok` or in Go's slice-bounds panic of a `Range.Extract()` (`Post`) — never in another panic (the index expressions
`t.Bookings[i]` are in range, in particular after the tree was written), never out of fuel (there is no `for` loop).  For `Infer` the
postcondition also says what survives: everything but `Bookings`, and the number of bookings (`Infer_total`).
-/
set_option linter.unusedSimpArgs false
set_option linter.unusedVariables false
namespace Knut.FactsAgree.TransBayes
open Knut Knut.GoSem Knut.Syntax
open Knut.Generated.Go
open Knut.FactsAgree.TransPrinter

/-- the outcome is `ok a` with `P a`, or Go's slice-bounds panic -/
def Post {α : Type} (P : α → Prop) : Outcome α → Prop
  | .ok a => P a
  | .panic msg => msg = slicePanic
  | .outOfFuel => False

theorem post_ok {α : Type} {P : α → Prop} {a : α} (h : P a) : Post P (.ok a) := h

theorem post_bind {α β : Type} {Q : α → Prop} {P : β → Prop} {x : Outcome α} {f : α → Outcome β}
    (hx : Post Q x) (hf : ∀ a, Q a → Post P (f a)) : Post P (x.bind f) := by
  cases x with
  | ok a => exact hf a hx
  | panic msg => exact hx
  | outOfFuel => exact hx

theorem post_mono {α : Type} {Q P : α → Prop} {x : Outcome α} (hx : Post Q x) (h : ∀ a, Q a → P a) : Post P x := by
  cases x with
  | ok a => exact h a hx
  | panic msg => exact hx
  | outOfFuel => exact hx

/-- `Range.Extract()`: the bytes or the slice-bounds panic -/
theorem post_Extract (r : directives.Range) : Post (fun _ => True) (directives.Range.Extract r) := by
  unfold directives.Range.Extract slice
  split
  · rfl
  · trivial

theorem tokenize_range1_ok : ∀ (items : List Bytes) (s : set.Set bayes.token), ∃ s', bayes.tokenize.range1 items s = .ok s'
  | [], s => ⟨s, rfl⟩
  | x :: xs, s => by rw [bayes.tokenize.range1]; exact tokenize_range1_ok xs _

theorem post_tokenize (gt : directives.Transaction) (gb : directives.Booking) (other : Bytes) :
    Post (fun _ => True) (bayes.tokenize gt gb other) := by
  unfold bayes.tokenize
  refine post_bind (post_Extract _) fun d _ => post_bind (post_Extract _) fun c _ => post_bind (post_Extract _) fun q _ => ?_
  obtain ⟨s', h⟩ := tokenize_range1_ok (Syn.Strings.Fields d ++ [c, q, other]) (set.New : set.Set bayes.token)
  simp only [h, obind_ok']
  trivial

theorem update_range1_ok (account : Bytes) (order : List Bytes) : ∀ (items : List Bytes) (gm : bayes.Model),
    ∃ gm', bayes.Model.update.range1 account order items gm = .ok gm'
  | [], gm => ⟨gm, rfl⟩
  | x :: xs, gm => by rw [bayes.Model.update.range1]; exact update_range1_ok account order xs _

theorem post_update (gm : bayes.Model) (gt : directives.Transaction) (gb : directives.Booking) (account other : Bytes) (order : List Bytes) :
    Post (fun _ => True) (bayes.Model.update gm gt gb account other order) := by
  unfold bayes.Model.update
  refine post_bind (post_tokenize gt gb other) fun s _ => ?_
  obtain ⟨gm', h⟩ := update_range1_ok account order (Syn.rangeKeys order s)
    { ({ gm with count := gm.count + 1 } : bayes.Model) with
      countByAccount := AMap.set gm.countByAccount account (AMap.get gm.countByAccount account GoZero.zero + 1) }
  simp only [h, obind_ok']
  trivial

theorem post_Update_range1 (gt : directives.Transaction) (o1 o2 : Int → List Bytes) :
    ∀ (items pre : List directives.Booking) (gm : bayes.Model), gt.Bookings = pre ++ items →
      Post (fun _ => True) (bayes.Model.Update.range1 gt o1 o2 items (pre.length : Int) gm)
  | [], _, _, _ => trivial
  | gb :: items, pre, gm, hpre => by
    have ih := fun gm' => post_Update_range1 gt o1 o2 items (pre ++ [gb]) gm' (by simp [hpre])
    simp only [List.length_append, List.length_cons, List.length_nil, Nat.zero_add, Int.natCast_add, Int.natCast_one] at ih
    rw [bayes.Model.Update.range1]
    simp only [hpre, index_append, obind_ok']
    split
    · exact ih gm
    · refine post_bind (post_Extract _) fun credit _ => post_bind (post_Extract _) fun debit _ => ?_
      split
      · exact ih gm
      · split
        · exact ih gm
        · refine post_bind (post_update ..) fun gm1 _ => post_bind (post_update ..) fun gm2 _ => ?_
          exact ih gm2

/-- **`Model.Update` on every Go model and every Go transaction**: `ok` or the slice-bounds panic of an `Extract()` -/
theorem Update_total (gm : bayes.Model) (gt : directives.Transaction) (o1 o2 : Int → List Bytes) :
    Post (fun _ => True) (bayes.Model.Update gm gt o1 o2) := by
  unfold bayes.Model.Update
  have := post_Update_range1 gt o1 o2 gt.Bookings [] gm rfl
  simp only [List.length_nil, Int.natCast_zero] at this
  exact post_bind this fun _ _ => trivial

section
variable {F : Type}

theorem scoreCandidate_range1_ok (fl : Syn.F64 F) (gm : bayes.Model) (cand : Bytes) (count : F) : ∀ (items : List Bytes) (score : F),
    ∃ s, bayes.Model.scoreCandidate.range1 gm cand count fl items score = .ok s
  | [], score => ⟨score, rfl⟩
  | x :: xs, score => by rw [bayes.Model.scoreCandidate.range1]; exact scoreCandidate_range1_ok fl gm cand count xs _

/-- **`Model.scoreCandidate` never panics**, whatever the tables hold -/
theorem scoreCandidate_total (fl : Syn.F64 F) (gm : bayes.Model) (cand : Bytes) (toks : set.Set bayes.token) :
    ∃ s, bayes.Model.scoreCandidate gm cand toks fl = .ok s := by
  unfold bayes.Model.scoreCandidate
  obtain ⟨s, h⟩ := scoreCandidate_range1_ok fl gm cand (fl.ofInt (AMap.get gm.countByAccount cand GoZero.zero)) (sortedKeys toks cmpOrdered)
    (fl.log (fl.div (fl.ofInt (AMap.get gm.countByAccount cand GoZero.zero)) (fl.ofInt gm.count)))
  exact ⟨s, by simp only [h, obind_ok']⟩

theorem inferAccount_range1_ok (fl : Syn.F64 F) (ext : bayes.Model → Bytes → set.Set bayes.token → F) (gm : bayes.Model) (other : Bytes)
    (toks : set.Set bayes.token) : ∀ (items : List Bytes) (mx : F) (best : Bytes),
    ∃ r, bayes.Model.inferAccount.range1 gm other toks fl ext items mx best = .ok r
  | [], mx, best => ⟨(mx, best), rfl⟩
  | x :: xs, mx, best => by
    rw [bayes.Model.inferAccount.range1]
    split
    · exact inferAccount_range1_ok fl ext gm other toks xs _ _
    · exact inferAccount_range1_ok fl ext gm other toks xs _ _

theorem post_inferAccount (fl : Syn.F64 F) (ext : bayes.Model → Bytes → set.Set bayes.token → F) (gm : bayes.Model)
    (gt : directives.Transaction) (gb : directives.Booking) (other : Bytes) :
    Post (fun _ => True) (bayes.Model.inferAccount gm gt gb other fl ext) := by
  unfold bayes.Model.inferAccount
  refine post_bind (post_tokenize gt gb other) fun toks _ => ?_
  obtain ⟨r, h⟩ := inferAccount_range1_ok fl ext gm other toks (sortedKeys gm.countByAccount cmpOrdered) fl.negInf GoZero.zero
  simp only [h, obind_ok']
  split <;> trivial

/-- what `Infer` leaves of a transaction: everything but the bookings, and their number -/
def SameFrame (t t' : directives.Transaction) : Prop :=
  t'.Range = t.Range ∧ t'.Date = t.Date ∧ t'.Description = t.Description ∧ t'.Addons = t.Addons ∧
    t'.Bookings.length = t.Bookings.length

theorem sameFrame_refl (t : directives.Transaction) : SameFrame t t := ⟨rfl, rfl, rfl, rfl, rfl⟩

theorem sameFrame_set (t : directives.Transaction) (done items : List directives.Booking) (gb gb' : directives.Booking)
    (h : t.Bookings = done ++ gb :: items) : SameFrame t { t with Bookings := done ++ gb' :: items } :=
  ⟨rfl, rfl, rfl, rfl, by simp [h]⟩

theorem sameFrame_trans {a b c : directives.Transaction} (h1 : SameFrame a b) (h2 : SameFrame b c) : SameFrame a c :=
  ⟨h2.1.trans h1.1, h2.2.1.trans h1.2.1, h2.2.2.1.trans h1.2.2.1, h2.2.2.2.1.trans h1.2.2.2.1, h2.2.2.2.2.trans h1.2.2.2.2⟩

theorem post_Infer_range1 (fl : Syn.F64 F) (ext : bayes.Model → Bytes → set.Set bayes.token → F) (gm : bayes.Model) :
    ∀ (items done : List directives.Booking) (t : directives.Transaction), t.Bookings = done ++ items →
      Post (SameFrame t) (bayes.Model.Infer.range1 gm fl ext items (done.length : Int) t)
  | [], _, t, _ => sameFrame_refl t
  | gb :: items, done, t, hb => by
    rw [bayes.Model.Infer.range1]
    simp only [hb, index_append, obind_ok', setIndex_append]
    refine post_bind (post_Extract _) fun credit _ => post_bind (post_Extract _) fun debit _ => ?_
    refine post_bind (Q := fun st => SameFrame t st.1 ∧ ∃ gb', st.1.Bookings = done ++ gb' :: items) ?_ ?_
    · split
      · refine post_bind (post_inferAccount ..) fun r _ => ?_
        refine post_bind (Q := fun st => SameFrame t st.1 ∧ ∃ gb', st.1.Bookings = done ++ gb' :: items) ?_ (fun st h => by exact h)
        split
        · exact post_bind (post_Extract _) fun c _ => ⟨sameFrame_set t done items gb _ hb, _, rfl⟩
        · exact ⟨sameFrame_refl t, gb, hb⟩
      · exact ⟨sameFrame_refl t, gb, hb⟩
    · rintro ⟨t1, credit1⟩ ⟨hf1, gb1, h1⟩
      simp only at h1 hf1
      refine post_bind (Q := fun t' => SameFrame t t' ∧ ∃ gb', t'.Bookings = done ++ gb' :: items) ?_ ?_
      · split
        · simp only [h1, index_append, obind_ok', setIndex_append]
          refine post_bind (post_inferAccount ..) fun r _ => ?_
          refine post_bind (Q := fun t' => SameFrame t t' ∧ ∃ gb', t'.Bookings = done ++ gb' :: items) ?_ (fun st h => h)
          split
          · exact ⟨sameFrame_trans hf1 (sameFrame_set t1 done items gb1 _ h1), _, rfl⟩
          · exact ⟨hf1, gb1, h1⟩
        · exact ⟨hf1, gb1, h1⟩
      · rintro t2 ⟨hf2, gb2, h2⟩
        have ih := post_Infer_range1 fl ext gm items (done ++ [gb2]) t2 (by simp [h2])
        simp only [List.length_append, List.length_cons, List.length_nil, Nat.zero_add, Int.natCast_add, Int.natCast_one] at ih
        exact post_mono ih fun t3 h3 => sameFrame_trans hf2 h3

/-- **`Model.Infer` on every Go model and every Go transaction**, for every interpretation of the floats and every external score
function: `ok` — with everything but `Bookings` as before and as many bookings — or the slice-bounds panic of an `Extract()`; never an
index out of range, never out of fuel -/
theorem Infer_total (fl : Syn.F64 F) (ext : bayes.Model → Bytes → set.Set bayes.token → F) (gm : bayes.Model) (gt : directives.Transaction) :
    Post (SameFrame gt) (bayes.Model.Infer gm gt fl ext) := by
  unfold bayes.Model.Infer
  have := post_Infer_range1 fl ext gm gt.Bookings [] gt rfl
  simp only [List.length_nil, Int.natCast_zero] at this
  exact post_bind this fun _ h => h

end

end Knut.FactsAgree.TransBayes
