import Knut.Proofs.LedgerCommand
import Knut.Properties.C05Inserts
/-!
# C02 at the command level — `knut balance` refines the ledger specification

`C02_noclose` / `C02_close` are statements about `Balance.run cfg days` under hypotheses on `cfg` and `days`.
This file discharges those hypotheses for everything the command builds (`BalanceCmd.entries`: `Builder.ofList`,
window clip, `newPartition`, `ensureDays` of the period starts when closing, the `BalCfg`) and states the
refinement for the command.  `cfgOf f part` and `daysOf f ds part` (Proofs/LedgerCommand.lean) are exactly the
configuration and day list `BalanceCmd.entries` passes to the pipeline (`LedgerCommand.entries_eq`, by `rfl`).

Proved, for all flag vectors without `--val` (all windows, intervals, `--last`, `--diff`, `--close` on or off,
filters, mappings, remap) and all directive lists:

* `C02_command_hyps` – the built days are sorted and date-consistent, contain every period start when closing,
  and the period starts are strictly increasing (`C02_startDates_increasing`, all intervals, with and without `--last`);
* `C02_command` – the report inserts are a permutation of `Spec.ledgerEntries (cfgOf f part) (daysOf f ds part)`;
  `C02_command_noclose` – the same list without closing;
* `C02_create_zero`, `C02_loader_zero` – the only hypothesis of `C02_command` on the journal (postings carry
  value 0) holds for everything `transaction.Create` returns and the loader `Driver.C04.load` produces;
  `C02_loaded_journal` – hence no hypothesis is left for loaded journals;
* `C02_command_output` – the output: `BalanceCmd.run f ds = BalanceCmd.runSpec f ds` — the command prints, byte
  for byte, the rendering of the ledger specification, panics alike (zero window start) and fails alike (the only
  failure of an unvalued run is the checker's), for directives on accounts with an account type (`DirsWF`, the
  registry's invariant; needed by `C06.table_perm`, which is how the permutation is turned into equal tables).

Left open: the valued report (`--val`; the property's own exclusion); `DirsWF` for the loader's un-annotated
transactions (the wire loader does not validate account names; `account.Registry` does, in the Go code).
-/
namespace Knut.C02
open Knut Knut.Spec Knut.LedgerCommand Knut.InsertsPerm

/-- **what the command builds satisfies the hypotheses of `C02_close` / `C02_noclose`** (no assumption on
the directives): the days are sorted by date, every transaction sits in the day of its date, with closing every
period start is the date of a day, and the period starts are strictly increasing. -/
theorem C02_command_hyps (f : BalanceFlags) (ds : List Directive) (part : Partition)
    (hpart : newPartition (BalanceCmd.window f (Builder.ofList ds)) f.interval f.last = .ok part) :
    Sorted (daysOf f ds part) ∧ DaysConsistent (daysOf f ds part) ∧
    (f.close = true → ∀ s ∈ (cfgOf f part).periods.map (·.start), s ∈ (daysOf f ds part).map (·.date)) ∧
    List.Pairwise (· < ·) ((cfgOf f part).periods.map (·.start)) :=
  ⟨daysOf_sorted f ds part, daysOf_consistent f ds part, fun hc => daysOf_starts f hc ds part,
    startDates_increasing hpart⟩

/-- the period starts of every partition `NewPartition` returns are strictly increasing -/
theorem C02_startDates_increasing {span : Period} {iv : Interval} {last : Int} {P : Partition}
    (h : newPartition span iv last = .ok P) : List.Pairwise (· < ·) P.startDates :=
  startDates_increasing h

/-- **the refinement at the command level**: for every flag vector without `--val` and every directive list whose
postings carry value 0, whenever `BalanceCmd.entries` (builder, window clip, partition, closing days, pipeline)
succeeds, its report inserts are — as a multiset — the entries of the independent ledger specification on the
configuration and day list the command builds. -/
theorem C02_command (f : BalanceFlags) (hv : f.valuation = none) (ds : List Directive)
    (hz : ∀ t, Directive.tx t ∈ ds → ∀ p ∈ t.postings, p.value = 0)
    (es : List Entry) (part : Partition) (h : BalanceCmd.entries f ds = .ok (es, part)) :
    es.Perm (ledgerEntries (cfgOf f part) (daysOf f ds part)) := by
  obtain ⟨hpart, st, hrun, rfl⟩ := entries_ok h
  by_cases hc : f.close = true
  · exact C02_close (cfgOf f part) hv hc _ (daysOf_sorted f ds part) (daysOf_consistent f ds part)
      (daysOf_zero f ds part hz) (daysOf_starts f hc ds part) (startDates_increasing hpart) st hrun
  · rw [C02_noclose (cfgOf f part) hv (by simpa [cfgOf] using hc) _ (daysOf_consistent f ds part) st hrun]

/-- without `--close` the inserts are the ledger entries as a list, and no hypothesis on the values is needed -/
theorem C02_command_noclose (f : BalanceFlags) (hv : f.valuation = none) (hc : f.close = false) (ds : List Directive)
    (es : List Entry) (part : Partition) (h : BalanceCmd.entries f ds = .ok (es, part)) :
    es = ledgerEntries (cfgOf f part) (daysOf f ds part) := by
  obtain ⟨_, st, hrun, rfl⟩ := entries_ok h
  exact C02_noclose (cfgOf f part) hv hc _ (daysOf_consistent f ds part) st hrun

/-- **everything `transaction.Create` returns carries value 0** (with or without `@accrue`) -/
theorem C02_create_zero (t : Accrual.TxInput) (gen : List Transaction) (h : Accrual.create t = .ok gen) :
    ∀ g ∈ gen, ∀ p ∈ g.postings, p.value = 0 :=
  create_zero t gen h

/-- **everything the loader produces carries value 0**: `Driver.C04.load` turns a generated journal into model
directives (`Transaction.ofBookings` without annotation, `Accrual.create` with one); values are only assigned
by the Valuate stage. -/
theorem C02_loader_zero (raw : List Driver.RawDirective) (ids : List (Nat × Directive))
    (h : Driver.C04.load raw = .ok ids) :
    ∀ t, Directive.tx t ∈ ids.map (·.2) → ∀ p ∈ t.postings, p.value = 0 := by
  intro t ht
  obtain ⟨p, hp, hpt⟩ := List.mem_map.mp ht
  have : IdsZero ids := load_go_zero raw 0 [] ids (by intro p hp; cases hp) h
  exact this p hp t hpt

/-- **end to end, no hypothesis left**: for every journal the loader accepts and every flag vector without `--val`,
the report inserts of the command are the ledger entries as a multiset. -/
theorem C02_loaded_journal (raw : List Driver.RawDirective) (ids : List (Nat × Directive))
    (hload : Driver.C04.load raw = .ok ids) (f : BalanceFlags) (hv : f.valuation = none)
    (es : List Entry) (part : Partition) (h : BalanceCmd.entries f (ids.map (·.2)) = .ok (es, part)) :
    es.Perm (ledgerEntries (cfgOf f part) (daysOf f (ids.map (·.2)) part)) :=
  C02_command f hv _ (C02_loader_zero raw ids hload) es part h



/-- the built days hold postings on accounts with an account type when the directives do -/
theorem daysOf_wf (f : BalanceFlags) (ds : List Directive) (part : Partition) (hwf : DirsWF ds) :
    ∀ d ∈ daysOf f ds part, TxsWF d.transactions := by
  have := daysOf_all (fun _ t => ∀ p ∈ t.postings, p.account.wf = true) f ds part hwf
  exact this

/-- **the output of the command is the rendering of the ledger specification**: `BalanceCmd.run` (pipeline) and
`BalanceCmd.runSpec` (`Spec.ledgerEntries` rendered by the same `BalanceReport.table` / `Table.render`; accepted
iff `Check.run` accepts) agree on every outcome — stdout byte for byte, error, panic. -/
theorem C02_command_output (f : BalanceFlags) (hv : f.valuation = none) (ds : List Directive)
    (hz : ∀ t, Directive.tx t ∈ ds → ∀ p ∈ t.postings, p.value = 0) (hwf : DirsWF ds) :
    BalanceCmd.run f ds = BalanceCmd.runSpec f ds := by
  rw [run_eq, runSpec_eq f hv]
  cases hent : BalanceCmd.entries f ds with
  | error o =>
    rw [entries_eq] at hent
    cases hpart : newPartition (BalanceCmd.window f (Builder.ofList ds)) f.interval f.last with
    | panic s => rw [hpart] at hent; simp only at hent ⊢; injection hent with hent; exact hent.symm
    | ok part =>
      rw [hpart] at hent
      simp only at hent ⊢
      have hok := run_isOk_check (cfgOf f part) hv (daysOf f ds part)
      cases hrun : Balance.run (cfgOf f part) (daysOf f ds part) with
      | ok st => rw [hrun] at hent; cases hent
      | error e =>
        rw [hrun] at hent hok
        simp only at hent
        injection hent with hent
        cases hck : Check.run (daysOf f ds part) with
        | ok s => rw [hck] at hok; cases hok
        | error e' => simp only; exact hent.symm
  | ok r =>
    obtain ⟨es, part⟩ := r
    have hperm := C02_command f hv ds hz es part hent
    obtain ⟨hpart, st, hrun, rfl⟩ := entries_ok hent
    have hok := run_isOk_check (cfgOf f part) hv (daysOf f ds part)
    rw [hpart]
    simp only
    cases hck : Check.run (daysOf f ds part) with
    | error e' => rw [hck, hrun] at hok; cases hok
    | ok s =>
      simp only
      rw [ReportPerm.table_perm_wf _ _ _ hperm
        (C05.C05_inserts_wf (cfgOf f part) hv _ (daysOf_wf f ds part hwf) st hrun)]

/-! ### Non-vacuity: the journal of `C05Inserts` (two monthly periods, closing on, income and expenses booked in the
first period) -/

theorem xDirs_zero : ∀ t, Directive.tx t ∈ C05.xDirs → ∀ p ∈ t.postings, p.value = 0 := by
  intro t ht p hp
  simp only [C05.xDirs, List.mem_cons, List.not_mem_nil, or_false, reduceCtorEq, false_or, Directive.tx.injEq] at ht
  rcases ht with rfl | rfl | rfl <;> exact postingBuild_zero _ _ _ _ p hp

/-- the command succeeds on it, with 10 inserts (6 bookings, 2 closing pairs) that are NOT the ledger's list
(the model emits the closings between the bookings of day 2 and day 40): the permutation in `C02_command`
cannot be an equality … -/
example : (match BalanceCmd.entries C05.xFlags C05.xDirs with
    | .ok (es, part) => decide (es.length = 10 ∧ es ≠ ledgerEntries (cfgOf C05.xFlags part) (daysOf C05.xFlags C05.xDirs part))
    | .error _ => false) = true := by decide +kernel

/-- … `C02_command` applies to it … -/
example (es : List Entry) (part : Partition) (h : BalanceCmd.entries C05.xFlags C05.xDirs = .ok (es, part)) :
    es.Perm (ledgerEntries (cfgOf C05.xFlags part) (daysOf C05.xFlags C05.xDirs part)) :=
  C02_command C05.xFlags rfl _ xDirs_zero es part h

/-- … and the two commands print the same (a table: the entries stage succeeds by the first example, and the
specification's checker accepts) -/
example : BalanceCmd.run C05.xFlags C05.xDirs = BalanceCmd.runSpec C05.xFlags C05.xDirs :=
  C02_command_output C05.xFlags rfl _ xDirs_zero C05.xDirs_wf
example : (match newPartition (BalanceCmd.window C05.xFlags (Builder.ofList C05.xDirs)) .monthly 0 with
    | .ok part => (Check.run (daysOf C05.xFlags C05.xDirs part)).isOk && decide (part.periods.length = 2)
    | .panic _ => false) = true := by decide +kernel

/-- a raw journal the loader accepts (one plain transaction, one `@accrue` transaction between asset accounts) -/
def xRaw : List Driver.RawDirective :=
  [.opening ⟨1, C05.xBank⟩, .opening ⟨1, C05.xSal⟩,
   .tx 2 "salary" none none [⟨C05.xSal, C05.xBank, 100, "CHF"⟩],
   .tx 3 "move" none (some ⟨"monthly", 3, 70, ⟨["Assets", "Accrued"]⟩⟩) [⟨C05.xBank, ⟨["Assets", "Cash"]⟩, 10, "CHF"⟩]]
example : ∃ ids, Driver.C04.load xRaw = .ok ids ∧ ids.length = 5 := ⟨_, rfl, rfl⟩

end Knut.C02
