package main

import (
	"context"
	"fmt"
	"strings"

	"github.com/sboehler/knut/lib/journal"
	"github.com/sboehler/knut/lib/model/registry"
)

// implLoadDump runs the real loader (parser, model.FromStream, journal builder) on a file and dumps
// the built days in the format of lean/Knut/Driver/Load.lean.
func implLoadDump(path string) (res string) {
	defer func() {
		if r := recover(); r != nil {
			res = "panic"
		}
	}()
	reg := registry.New()
	b, err := journal.FromPath(context.Background(), reg, path)
	if err != nil {
		return "error"
	}
	per := b.Period()
	var items []string
	for _, d := range b.Build().Days {
		for _, p := range d.Prices {
			items = append(items, fmt.Sprintf("p~%d~%s~%s~%s", dayNum(p.Date), p.Commodity.Name(), p.Price.String(), p.Target.Name()))
		}
		for _, o := range d.Openings {
			items = append(items, fmt.Sprintf("o~%d~%s", dayNum(o.Date), o.Account.Name()))
		}
		for _, t := range d.Transactions {
			tg := "-"
			if t.Targets != nil {
				var ns []string
				for _, c := range t.Targets {
					ns = append(ns, c.Name())
				}
				tg = "=" + strings.Join(ns, ",")
			}
			var ps []string
			for _, p := range t.Postings {
				ps = append(ps, p.Account.Name()+","+p.Other.Name()+","+p.Quantity.String()+","+p.Commodity.Name())
			}
			items = append(items, fmt.Sprintf("t~%d~%s~%s~%s", dayNum(t.Date), Hex(t.Description), tg, strings.Join(ps, ";")))
		}
		for _, a := range d.Assertions {
			var bs []string
			for _, bal := range a.Balances {
				bs = append(bs, bal.Account.Name()+","+bal.Quantity.String()+","+bal.Commodity.Name())
			}
			items = append(items, fmt.Sprintf("a~%d~%s", dayNum(a.Date), strings.Join(bs, ";")))
		}
		for _, c := range d.Closings {
			items = append(items, fmt.Sprintf("c~%d~%s", dayNum(c.Date), c.Account.Name()))
		}
	}
	dump := "-"
	if len(items) > 0 {
		dump = strings.Join(items, "|")
	}
	return fmt.Sprintf("ok %d %d %s", dayNum(per.Start), dayNum(per.End), dump)
}

// mutateJournalText damages a journal text semantically (still mostly parseable): invalid calendar dates,
// non-ASCII digits, macro accounts, unknown account types, inverted accrual windows.
func mutateJournalText(r *RNG, text string) (string, string) {
	lines := strings.Split(text, "\n")
	var cand []int
	for i, l := range lines {
		if len(l) >= 10 && l[4] == '-' && l[7] == '-' {
			cand = append(cand, i)
		}
	}
	if len(cand) == 0 {
		return text, "none"
	}
	i := Pick(r, cand)
	l := lines[i]
	kind := "none"
	switch r.Intn(8) {
	case 0:
		lines[i] = l[:5] + "02-30" + l[10:]
		kind = "feb-30"
	case 1:
		lines[i] = l[:5] + "13-01" + l[10:]
		kind = "month-13"
	case 2:
		lines[i] = l[:8] + "00" + l[10:]
		kind = "day-00"
	case 3:
		lines[i] = "٢٠٢٠" + l[4:]
		kind = "arabic-digits-in-date"
	case 4:
		lines[i] = strings.Replace(l, "Assets:", "Foo:", 1)
		kind = "unknown-account-type"
	case 5:
		lines[i] = strings.Replace(l, " open ", " open $", 1)
		kind = "macro-account"
	case 6:
		lines[i] = "0000" + l[4:]
		kind = "year-0000"
	case 7:
		lines[i] = l[:5] + "02-29" + l[10:]
		kind = "feb-29"
	}
	return strings.Join(lines, "\n"), kind
}
