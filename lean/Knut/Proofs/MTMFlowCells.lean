import Knut.Proofs.MTMFlows
import Knut.Proofs.MTMRender
import Knut.Proofs.MTMEmpty
/-!
# C03: income/expense/equity bookings are valued at the price of their booking day — helper lemmas

Without closing, on an account `b` that no value adjustment touches (not an asset/liability account and not below
`Income`), the inserts of a plain valued report are the journal's bookings on `b` inside the window, each valued by
`Spec.bookingValue` at the prices of its own day (`flow_window`); the cumulative cell is their sum `Spec.flowAt`.
-/
namespace Knut.MTM
open Knut Knut.Dec Knut.Spec

/-- selects the postings on account `b` -/
def accSel (b : Account) (p : Posting) : Bool := decide (p.account = b)

/-- the value `Valuate.Posting` computes for an unvalued posting under the day's normalised prices -/
def bookVal (v : Commodity) (cur : Option Prices.NPrices) (p : Posting) : Option Rat :=
  if p.quantity = 0 then some 0
  else if p.commodity = v then some p.quantity
  else match cur with
    | none => none
    | some np => (Prices.find p.commodity np).map (fun pr => Prices.multiply p.quantity pr)

theorem bookingValue_eq (v : Commodity) (days : List Day) (d : Int) (p : Posting) :
    Spec.bookingValue v days d p = bookVal v (Spec.pricesAt v days d) p := rfl

theorem valuePosting_bookVal (v : Commodity) (cur : Option Prices.NPrices) (p p' : Posting) (hz : p.value = 0)
    (h : Balance.valuePosting v cur p = .ok p') : p'.account = p.account ∧ bookVal v cur p = some p'.value := by
  unfold Balance.valuePosting at h
  unfold bookVal
  by_cases hq : p.quantity = 0
  · simp only [hq, if_true] at h ⊢
    injection h with h; subst h
    exact ⟨rfl, by rw [hz]⟩
  · simp only [hq, if_false] at h ⊢
    by_cases hc : p.commodity = v
    · simp only [hc, if_true] at h ⊢
      injection h with h; subst h
      exact ⟨rfl, rfl⟩
    · simp only [hc, if_false, bind, Except.bind] at h ⊢
      unfold Balance.lookupPrice at h
      cases hcur : cur with
      | none => rw [hcur] at h; cases h
      | some np =>
        rw [hcur] at h; simp only at h ⊢
        cases hf : Prices.find p.commodity np with
        | none => rw [hf] at h; cases h
        | some pr =>
          rw [hf] at h; simp only at h
          injection h with h; subst h
          exact ⟨rfl, rfl⟩

theorem mapM_valuePosting_flow (v : Commodity) (cur : Option Prices.NPrices) (b : Account) :
    ∀ (ps ps' : List Posting), (∀ p ∈ ps, p.account = b → p.value = 0) → ps.mapM (Balance.valuePosting v cur) = .ok ps' →
      (ps.filter (accSel b)).mapM (bookVal v cur) = some ((ps'.filter (accSel b)).map (·.value))
  | [], ps', _, h => by
    simp only [List.mapM_nil, pure, Except.pure] at h
    injection h with h; subst h
    rfl
  | p :: rest, ps', hz, h => by
    simp only [List.mapM_cons, bind, Except.bind] at h
    cases hp : Balance.valuePosting v cur p with
    | error e => rw [hp] at h; cases h
    | ok p' =>
      rw [hp] at h; simp only at h
      cases hr : rest.mapM (Balance.valuePosting v cur) with
      | error e => rw [hr] at h; cases h
      | ok rest' =>
        rw [hr] at h; simp only [pure, Except.pure] at h
        injection h with h; subst h
        have ih := mapM_valuePosting_flow v cur b rest rest' (fun x hx => hz x (List.mem_cons_of_mem _ hx)) hr
        rw [List.filter_cons, List.filter_cons]
        by_cases hb : p.account = b
        · obtain ⟨h1, h2⟩ := valuePosting_bookVal v cur p p' (hz p List.mem_cons_self hb) hp
          have hb' : p'.account = b := by rw [h1]; exact hb
          simp only [accSel, hb, hb', decide_true, if_true, List.mapM_cons, List.map_cons]
          rw [h2, ih]
          rfl
        · have h1 := (valuePosting_v v cur p p' hp).1
          have hb' : ¬ p'.account = b := by rw [h1]; exact hb
          simp only [accSel, hb, hb', decide_false, Bool.false_eq_true, if_false]
          exact ih

theorem mapM_append_some {α β : Type} (f : α → Option β) : ∀ (l1 l2 : List α) (x y : List β),
    l1.mapM f = some x → l2.mapM f = some y → (l1 ++ l2).mapM f = some (x ++ y)
  | [], l2, x, y, h1, h2 => by
    simp only [List.mapM_nil, pure, Option.some.injEq] at h1
    subst h1
    exact h2
  | a :: l1, l2, x, y, h1, h2 => by
    rw [List.cons_append, List.mapM_cons]
    rw [List.mapM_cons] at h1
    cases ha : f a with
    | none => rw [ha] at h1; cases h1
    | some b =>
      rw [ha] at h1
      simp only [Option.bind_eq_bind, Option.bind_some] at h1 ⊢
      cases hl : l1.mapM f with
      | none => rw [hl] at h1; cases h1
      | some bs =>
        rw [hl] at h1
        simp only [Option.bind_some, pure, Option.some.injEq] at h1
        subst h1
        rw [mapM_append_some f l1 l2 bs y hl h2]
        rfl

theorem mapM_valueTx_flow (v : Commodity) (cur : Option Prices.NPrices) (b : Account) :
    ∀ (ts ts' : List Transaction), (∀ t ∈ ts, ∀ p ∈ t.postings, p.account = b → p.value = 0) →
      ts.mapM (Balance.valueTx v cur) = .ok ts' →
      ((ts.flatMap (·.postings)).filter (accSel b)).mapM (bookVal v cur) =
        some (((ts'.flatMap (·.postings)).filter (accSel b)).map (·.value))
  | [], ts', _, h => by
    simp only [List.mapM_nil, pure, Except.pure] at h
    injection h with h; subst h
    rfl
  | t :: rest, ts', hz, h => by
    simp only [List.mapM_cons, bind, Except.bind] at h
    cases ht : Balance.valueTx v cur t with
    | error e => rw [ht] at h; cases h
    | ok t' =>
      rw [ht] at h; simp only at h
      cases hr : rest.mapM (Balance.valueTx v cur) with
      | error e => rw [hr] at h; cases h
      | ok rest' =>
        rw [hr] at h; simp only [pure, Except.pure] at h
        injection h with h; subst h
        have ih := mapM_valueTx_flow v cur b rest rest' (fun x hx => hz x (List.mem_cons_of_mem _ hx)) hr
        unfold Balance.valueTx at ht
        simp only [bind, Except.bind] at ht
        cases hm : t.postings.mapM (Balance.valuePosting v cur) with
        | error e => rw [hm] at ht; cases ht
        | ok ps =>
          rw [hm] at ht; simp only at ht
          injection ht with ht; subst ht
          have h1 := mapM_valuePosting_flow v cur b t.postings ps (hz t List.mem_cons_self) hm
          rw [List.flatMap_cons, List.flatMap_cons, List.filter_append, List.filter_append, List.map_append]
          exact mapM_append_some _ _ _ _ _ h1 ih

/-- no value adjustment touches an account that is neither asset/liability nor below `Income` -/
theorem adjustments_untouched (v : Commodity) (date : Int) (prev cur : Option Prices.NPrices)
    (q : AMap Position Rat) (adj : List Transaction) (h : Balance.adjustments v date prev cur q = .ok adj)
    (b : Account) (hb1 : b.isAL = false) (hb2 : b.segments.head? ≠ some "Income") :
    ∀ t ∈ adj, ∀ p ∈ t.postings, p.account ≠ b := by
  intro t ht p hp e
  obtain ⟨a, c, g, hal, hps⟩ := adjustments_shape v date prev cur q adj h t ht
  rw [hps] at hp
  rcases build_account _ _ _ _ _ p hp with h1 | h1
  · apply hb2
    rw [← e, h1]
    rfl
  · rw [← e, h1, hal] at hb1
    cases hb1

/-- **the valuation stage on one day, seen from such an account**: the values of the postings on `b` it hands on are the
booking-day values of the day's bookings on `b` -/
theorem valuationStage_flow (cfg : BalCfg) (v : Commodity) (st st' : BalState) (d : Day) (txs : List Transaction)
    (hv : cfg.valuation = some v) (hz : ∀ t ∈ d.transactions, ∀ p ∈ t.postings, p.value = 0)
    (b : Account) (hb1 : b.isAL = false) (hb2 : b.segments.head? ≠ some "Income")
    (h : Balance.valuationStage cfg st d = .ok (st', txs)) :
    ((d.transactions.flatMap (·.postings)).filter (accSel b)).mapM (bookVal v st'.norm) =
      some (((txs.flatMap (·.postings)).filter (accSel b)).map (·.value)) := by
  unfold Balance.valuationStage at h
  rw [hv] at h
  simp only [bind, Except.bind] at h
  cases hp : Balance.pricesDay v st d with
  | error e => rw [hp] at h; cases h
  | ok stp =>
    rw [hp] at h; simp only at h
    unfold Balance.valuateDay at h
    simp only [bind, Except.bind] at h
    cases ha : Balance.adjustments v d.date stp.vPrev stp.norm stp.vQty with
    | error e => rw [ha] at h; cases h
    | ok adj =>
      rw [ha] at h; simp only at h
      cases hm : (d.transactions ++ adj).mapM (Balance.valueTx v stp.norm) with
      | error e => rw [hm] at h; cases h
      | ok txsv =>
        rw [hm] at h; simp only at h
        injection h with h; injection h with h1 h2; subst h1; subst h2
        simp only
        have hun := adjustments_untouched v d.date _ _ _ adj ha b hb1 hb2
        have := mapM_valueTx_flow v stp.norm b (d.transactions ++ adj) txsv (by
          intro t ht p hpp hacc
          rcases List.mem_append.mp ht with ht | ht
          · exact hz t ht p hpp
          · exact absurd hacc (hun t ht p hpp)) hm
        rw [List.flatMap_append, List.filter_append] at this
        have hnil : (adj.flatMap (·.postings)).filter (accSel b) = [] := by
          rw [List.filter_eq_nil_iff]
          intro p hpp hs
          obtain ⟨t, ht, hpt⟩ := List.mem_flatMap.mp hpp
          unfold accSel at hs
          simp only [decide_eq_true_eq] at hs
          exact hun t ht p hpt hs
        rw [hnil, List.append_nil] at this
        exact this

/-- one day through all stages, closing off: the Query stage sees the valuation stage's transactions if the day is inside
the window, nothing otherwise -/
theorem dayQ_noclose (cfg : BalCfg) (hcl : cfg.close = false) (st st' : BalState) (d : Day) (txs : List Transaction)
    (h : dayQ cfg st d = .ok (st', txs)) :
    ∃ stc st1 txs1, Balance.checkStage st d = .ok stc ∧ Balance.valuationStage cfg stc d = .ok (st1, txs1) ∧
      txs = (if cfg.span.contains d.date then txs1 else []) ∧ st'.norm = st1.norm := by
  unfold dayQ at h
  cases hd : Balance.dayTxs cfg st d with
  | error e => rw [hd] at h; cases h
  | ok r =>
    obtain ⟨st3, txs3⟩ := r
    rw [hd] at h; simp only at h
    injection h with h; injection h with h1 h2; subst h1; subst h2
    unfold Balance.dayTxs at hd
    simp only [bind, Except.bind] at hd
    cases hck : Balance.checkStage st d with
    | error e => rw [hck] at hd; cases hd
    | ok stc =>
      rw [hck] at hd; simp only at hd
      cases hvs : Balance.valuationStage cfg stc d with
      | error e => rw [hvs] at hd; cases hd
      | ok r2 =>
        obtain ⟨st1, txs1⟩ := r2
        rw [hvs] at hd; simp only at hd
        injection hd with hd
        unfold Balance.closeStage Balance.filterStage at hd
        simp only [hcl, Bool.false_eq_true, if_false] at hd
        injection hd with a b; subst a; subst b
        exact ⟨stc, st1, txs1, rfl, hvs, rfl, rfl⟩

/-! ### over the days of the window -/

theorem mapM_map_opt {α β γ : Type} (f : α → β) (g : β → Option γ) : ∀ (l : List α),
    (l.map f).mapM g = l.mapM (fun x => g (f x))
  | [] => rfl
  | a :: l => by
    rw [List.map_cons, List.mapM_cons, List.mapM_cons, mapM_map_opt f g l]

theorem dayPosts_eq (dd : Int) : ∀ (ts : List Transaction), (∀ t ∈ ts, t.date = dd) →
    ts.flatMap (fun t => t.postings.map (fun p => (t.date, p))) = (ts.flatMap (·.postings)).map (fun p => (dd, p))
  | [], _ => rfl
  | t :: rest, h => by
    rw [List.flatMap_cons, List.flatMap_cons, List.map_append, dayPosts_eq dd rest (fun x hx => h x (List.mem_cons_of_mem _ hx)),
      h t List.mem_cons_self]

theorem userPostings_append (xs ys : List Day) : userPostings (xs ++ ys) = userPostings xs ++ userPostings ys := by
  unfold userPostings
  rw [List.flatMap_append]

theorem userPostings_dates (L : List Day) (hcons : ∀ d ∈ L, ∀ t ∈ d.transactions, t.date = d.date) :
    ∀ x ∈ userPostings L, ∃ d ∈ L, x.1 = d.date := by
  intro x hx
  unfold userPostings at hx
  obtain ⟨d, hd, hx⟩ := List.mem_flatMap.mp hx
  obtain ⟨t, ht, hx⟩ := List.mem_flatMap.mp hx
  obtain ⟨p, _, rfl⟩ := List.mem_map.mp hx
  exact ⟨d, hd, hcons d hd t ht⟩

/-- **the bookings of the window days are valued at the prices of their own days** (closing off, an account no
adjustment touches): `days = L ++ ds ++ R` is the whole date-sorted journal, `L` the days already processed -/
theorem flow_run (cfg : BalCfg) (v : Commodity) (hv : cfg.valuation = some v) (hcl : cfg.close = false)
    (b : Account) (hb1 : b.isAL = false) (hb2 : b.segments.head? ≠ some "Income")
    (days R : List Day) (hsd : Sorted days) :
    ∀ (ds L : List Day) (st st' : BalState) (txs : List Transaction), days = L ++ ds ++ R → PriceInv v L st →
      (∀ d ∈ ds, cfg.span.contains d.date = true) → (∀ d ∈ ds, ∀ t ∈ d.transactions, t.date = d.date) →
      (∀ d ∈ ds, ∀ t ∈ d.transactions, ∀ p ∈ t.postings, p.value = 0) →
      pipelineRun cfg st ds = .ok (st', txs) →
      ((userPostings ds).filter (fun x => accSel b x.2)).mapM (fun x => Spec.bookingValue v days x.1 x.2) =
        some (((txs.flatMap (·.postings)).filter (accSel b)).map (·.value))
  | [], _, _, _, txs, _, _, _, _, _, h => by
    unfold pipelineRun at h
    injection h with h; injection h with h1 h2; subst h2
    rfl
  | d :: ds, L, st, st', txs, hdays, hpi, hin, hcons, hz, h => by
    unfold pipelineRun at h
    cases hq : dayQ cfg st d with
    | error e => rw [hq] at h; cases h
    | ok r =>
      obtain ⟨sd, td⟩ := r
      rw [hq] at h; simp only at h
      cases hr : pipelineRun cfg sd ds with
      | error e => rw [hr] at h; cases h
      | ok r2 =>
        obtain ⟨s2, rest⟩ := r2
        rw [hr] at h; simp only at h
        injection h with h; injection h with h1 h2; subst h1; subst h2
        have hpi' := priceInv_day cfg v L st sd d td hv hpi hq
        have ih := flow_run cfg v hv hcl b hb1 hb2 days R hsd ds (L ++ [d]) sd s2 rest
          (by rw [hdays]; simp only [List.append_assoc, List.cons_append, List.nil_append]) hpi'
          (fun x hx => hin x (List.mem_cons_of_mem _ hx)) (fun x hx => hcons x (List.mem_cons_of_mem _ hx))
          (fun x hx => hz x (List.mem_cons_of_mem _ hx)) hr
        obtain ⟨stc, st1, txs1, _, hvs, htd, hnorm⟩ := dayQ_noclose cfg hcl st sd d td hq
        simp only [hin d List.mem_cons_self, if_true] at htd
        subst htd
        have hday := valuationStage_flow cfg v stc st1 d td hv (hz d List.mem_cons_self) b hb1 hb2 hvs
        -- the prices of the day are the specification's
        have hprice : st1.norm = Spec.pricesAt v days d.date := by
          rw [← hnorm, hpi'.2.1, pricesAt_eq]
          congr 1
          have : days = L ++ d :: (ds ++ R) := by rw [hdays]; simp only [List.append_assoc, List.cons_append]
          rw [this, sorted_prefix_at L (ds ++ R) d (by rw [← this]; exact hsd)]
        rw [hprice] at hday
        rw [userPostings_cons, List.filter_append, List.flatMap_append, List.filter_append, List.map_append]
        apply mapM_append_some _ _ _ _ _ _ ih
        rw [dayPosts_eq d.date d.transactions (hcons d List.mem_cons_self), List.filter_map, mapM_map_opt]
        exact hday

/-- the inserts on an account of a list of transactions total the values of the postings on it (plain valued report) -/
theorem accTotal_flatMap (cfg : BalCfg) (hp : Plain cfg) (hv : cfg.valuation.isSome = true) (b : Account) :
    ∀ (txs : List Transaction), accTotal b (txs.flatMap (Balance.queryTx cfg)) =
      (((txs.flatMap (·.postings)).filter (accSel b)).map (·.value)).sum
  | [] => rfl
  | t :: rest => by
    have ih := accTotal_flatMap cfg hp hv b rest
    unfold accTotal BalanceReport.sumAmounts at ih ⊢
    rw [List.flatMap_cons, List.flatMap_cons, List.filter_append, List.filter_append, List.map_append, List.map_append,
      sum_append_rat, sum_append_rat, ih]
    congr 1
    unfold Balance.queryTx
    generalize t.postings = ps
    induction ps with
    | nil => rfl
    | cons p ps ihp =>
      rw [List.filterMap_cons, queryPosting_plain cfg hp hv t p]
      simp only [List.filter_cons]
      by_cases hb : p.account = b
      · simp only [accSel, hb, decide_true, if_true, List.map_cons, List.sum_cons]
        rw [ihp]
      · simp only [accSel, hb, decide_false, Bool.false_eq_true, if_false]
        exact ihp

theorem pipelineRun_noclose_out (cfg : BalCfg) (hcl : cfg.close = false) :
    ∀ (ds : List Day) (st st' : BalState) (txs : List Transaction), (∀ d ∈ ds, cfg.span.contains d.date = false) →
      pipelineRun cfg st ds = .ok (st', txs) → txs = []
  | [], _, _, txs, _, h => by
    unfold pipelineRun at h
    injection h with h; injection h with h1 h2; exact h2.symm
  | d :: ds, st, st', txs, hout, h => by
    unfold pipelineRun at h
    cases hq : dayQ cfg st d with
    | error e => rw [hq] at h; cases h
    | ok r =>
      obtain ⟨sd, td⟩ := r
      rw [hq] at h; simp only at h
      cases hr : pipelineRun cfg sd ds with
      | error e => rw [hr] at h; cases h
      | ok r2 =>
        obtain ⟨s2, rest⟩ := r2
        rw [hr] at h; simp only at h
        injection h with h; injection h with h1 h2; subst h1; subst h2
        obtain ⟨_, _, _, _, _, htd, _⟩ := dayQ_noclose cfg hcl st sd d td hq
        simp only [hout d List.mem_cons_self, Bool.false_eq_true, if_false] at htd
        rw [htd, pipelineRun_noclose_out cfg hcl ds sd s2 rest (fun x hx => hout x (List.mem_cons_of_mem _ hx)) hr]
        rfl

/-- **the row of an income/expense/equity account over the window `(F, D]`, closing off**: for an account no value
adjustment touches, the cumulative value in the column of the period end `D` is exactly `Spec.flowAt` — the sum of the
bookings on the account dated inside the window up to `D`, each valued at the normalised price of its own day -/
theorem run_flow_window (cfg : BalCfg) (v : Commodity) (b : Account) (days : List Day) (stF : BalState) (D : Int)
    (hv : cfg.valuation = some v) (hcl : cfg.close = false) (hpl : Plain cfg)
    (hb1 : b.isAL = false) (hb2 : b.segments.head? ≠ some "Income") (hs : Sorted days)
    (hcons : ∀ d ∈ days, ∀ t ∈ d.transactions, t.date = d.date)
    (hz : ∀ d ∈ days, ∀ t ∈ d.transactions, ∀ p ∈ t.postings, p.value = 0)
    (hinc : List.Pairwise (· < ·) (cfg.periods.map (·.stop))) (hD : D ∈ cfg.periods.map (·.stop))
    (hDin : cfg.span.contains D = true)
    (h : Balance.run cfg days = .ok stF) :
    ∃ fl, Spec.flowAt v days b (cfg.span.start - 1) D = some fl ∧ accCum b stF.entries D = fl := by
  have hvs : cfg.valuation.isSome = true := by rw [hv]; rfl
  have hbnd : ¬ (D < cfg.span.start) ∧ ¬ (D > cfg.span.stop) := by
    unfold Period.contains at hDin
    simpa using hDin
  have hlo : cfg.span.start ≤ D + 1 := by omega
  obtain ⟨hsplit, _⟩ := sorted_split3 cfg.span.start D hlo days hs
  generalize hA' : days.filter (fun d => decide (d.date < cfg.span.start)) = A at hsplit
  generalize hB1' : days.filter (fun d => !decide (d.date < cfg.span.start) && decide (d.date ≤ D)) = B1 at hsplit
  generalize hB2' : days.filter (fun d => !decide (d.date < cfg.span.start) && !decide (d.date ≤ D)) = B2 at hsplit
  have hAsub : ∀ d ∈ A, d ∈ days ∧ d.date < cfg.span.start := by
    intro d hd; rw [← hA'] at hd
    have := List.mem_filter.mp hd
    exact ⟨this.1, by simpa using this.2⟩
  have hB1sub : ∀ d ∈ B1, d ∈ days ∧ ¬ d.date < cfg.span.start ∧ d.date ≤ D := by
    intro d hd; rw [← hB1'] at hd
    have := List.mem_filter.mp hd
    exact ⟨this.1, by simpa using this.2⟩
  have hB2sub : ∀ d ∈ B2, d ∈ days ∧ D < d.date := by
    intro d hd; rw [← hB2'] at hd
    have := List.mem_filter.mp hd
    refine ⟨this.1, ?_⟩
    have h2 := this.2
    simp only [Bool.and_eq_true, Bool.not_eq_true', decide_eq_false_iff_not] at h2
    omega
  have hAout : ∀ d ∈ A, cfg.span.contains d.date = false := by
    intro d hd
    have := (hAsub d hd).2
    unfold Period.contains; simp [this]
  have hB1in : ∀ d ∈ B1, cfg.span.contains d.date = true := by
    intro d hd
    obtain ⟨_, h1, h2⟩ := hB1sub d hd
    unfold Period.contains
    have : ¬ d.date > cfg.span.stop := by omega
    simp [h1, this]
  obtain ⟨txs, hp, he⟩ := run_pipelineRun cfg days stF h
  rw [hsplit] at hp
  obtain ⟨stB, tAB, tB2, h12, h3, e1⟩ := pipelineRun_append cfg _ _ _ _ _ hp
  obtain ⟨stA, tA, tB1, hA, hB, e2⟩ := pipelineRun_append cfg _ _ _ _ _ h12
  have htA : tA = [] := pipelineRun_noclose_out cfg hcl A {} stA tA hAout hA
  have hpi := priceInv_run cfg v hv A [] {} stA tA (priceInv_init v) hA
  rw [List.nil_append] at hpi
  have hflow := flow_run cfg v hv hcl b hb1 hb2 days B2 hs B1 A stA stB tB1 hsplit hpi hB1in
    (fun d hd => hcons d (hB1sub d hd).1) (fun d hd => hz d (hB1sub d hd).1) hB
  refine ⟨(((tB1.flatMap (·.postings)).filter (accSel b)).map (·.value)).sum, ?_, ?_⟩
  · -- the specification's flow is the flow of the days B1
    unfold Spec.flowAt
    have hfilt : (Spec.userPostings days).filter (fun (x : Int × Posting) =>
        decide (cfg.span.start - 1 < x.1) && decide (x.1 ≤ D) && decide (x.2.account = b)) =
        (Spec.userPostings B1).filter (fun x => accSel b x.2) := by
      rw [hsplit, userPostings_append, userPostings_append, List.filter_append, List.filter_append]
      have eA : (Spec.userPostings A).filter (fun (x : Int × Posting) =>
          decide (cfg.span.start - 1 < x.1) && decide (x.1 ≤ D) && decide (x.2.account = b)) = [] := by
        rw [List.filter_eq_nil_iff]
        intro x hx
        obtain ⟨d, hd, hxd⟩ := userPostings_dates A (fun d hd => hcons d (hAsub d hd).1) x hx
        have := (hAsub d hd).2
        have : ¬ cfg.span.start - 1 < x.1 := by omega
        simp [this]
      have eB2 : (Spec.userPostings B2).filter (fun (x : Int × Posting) =>
          decide (cfg.span.start - 1 < x.1) && decide (x.1 ≤ D) && decide (x.2.account = b)) = [] := by
        rw [List.filter_eq_nil_iff]
        intro x hx
        obtain ⟨d, hd, hxd⟩ := userPostings_dates B2 (fun d hd => hcons d (hB2sub d hd).1) x hx
        have := (hB2sub d hd).2
        have : ¬ x.1 ≤ D := by omega
        simp [this]
      rw [eA, eB2, List.nil_append, List.append_nil]
      apply List.filter_congr
      intro x hx
      obtain ⟨d, hd, hxd⟩ := userPostings_dates B1 (fun d hd => hcons d (hB1sub d hd).1) x hx
      obtain ⟨_, h1, h2⟩ := hB1sub d hd
      have c1 : cfg.span.start - 1 < x.1 := by omega
      have c2 : x.1 ≤ D := by omega
      simp [c1, c2, accSel]
    rw [hfilt, hflow]
    rfl
  · -- the inserts
    have hes : stF.entries = tB1.flatMap (Balance.queryTx cfg) ++ tB2.flatMap (Balance.queryTx cfg) := by
      rw [he, e1, e2, htA, List.nil_append, List.flatMap_append]
    have hcB2 : accCum b (tB2.flatMap (Balance.queryTx cfg)) D = 0 := by
      apply accCum_zero_of_filter_nil
      intro e hem hc
      obtain ⟨t, ht, p, hpt, rfl⟩ := mem_entries_plain cfg hpl hvs tB2 e hem
      obtain ⟨d, hd, hdt⟩ := pipelineRun_dates cfg B2 stB stF tB2 (fun d hd => hcons d (hB2sub d hd).1) h3 t ht
      obtain ⟨_, D', h1, h2⟩ := hc
      simp only at h1
      have := alignIn_gt cfg.periods t.date D D' (by rw [hdt]; exact (hB2sub d hd).2) h1
      omega
    have hcB1 : accCum b (tB1.flatMap (Balance.queryTx cfg)) D = accTotal b (tB1.flatMap (Balance.queryTx cfg)) := by
      apply accCum_eq_total
      intro e hem
      obtain ⟨t, ht, p, hpt, rfl⟩ := mem_entries_plain cfg hpl hvs tB1 e hem
      obtain ⟨d, hd, hdt⟩ := pipelineRun_dates cfg B1 stA stB tB1 (fun d hd => hcons d (hB1sub d hd).1) hB t ht
      exact alignIn_le cfg.periods t.date D hinc hD (by rw [hdt]; exact (hB1sub d hd).2.2)
    rw [hes, accCum_append, hcB2, hcB1, Rat.add_zero, accTotal_flatMap cfg hpl hvs b tB1]

/-! ### the row in the income/expense/equity section, and the journal's own days -/

open Knut.BalanceReport in
/-- the row of an account that is not asset/liability stands in the second section of the rendered table -/
theorem table_has_row_eie (rc : RenderCfg) (es : List Entry) (e : Entry) (he : e ∈ es) (hal : e.account.isAL = false)
    (hne : e.account.segments ≠ []) :
    ∃ pre post, (table rc es).rows =
      pre ++ nodeRows rc (rc.valuation.isNone || rc.hasShowCommodities) (es.filter (fun e => !e.account.isAL)) true
        (e.account.segments, 2 * (e.account.segments.length - 1)) ++ post := by
  rw [ReportPerm.table_eq]
  simp only
  obtain ⟨pre, post, h⟩ := sect_has_row rc (rc.valuation.isNone || rc.hasShowCommodities)
    (List.replicate (1 + (if (rc.valuation.isNone || rc.hasShowCommodities) = true then 1 else 0) + rc.endDates.length) Table.Cell.empty)
    (es.filter (fun e => !e.account.isAL)) true e (List.mem_filter.mpr ⟨he, by simp [hal]⟩) hne
  iterate 4 apply split_R
  apply split_L
  exact ⟨pre, post, h⟩

theorem accCum_eie (b : Account) (hal : b.isAL = false) (es : List Entry) (D : Int) :
    accCum b (es.filter (fun e => !e.account.isAL)) D = accCum b es D := by
  unfold accCum
  rw [List.filter_filter]
  congr 1
  apply List.filter_congr
  intro e _
  by_cases h : e.account = b
  · simp [h, hal]
  · simp [h]

theorem bookingValue_core (v : Commodity) (days : List Day) (d : Int) (p : Posting) :
    Spec.bookingValue v (core days) d p = Spec.bookingValue v days d p := by
  unfold Spec.bookingValue
  rw [pricesAt_core]

theorem flowAt_core (v : Commodity) (days : List Day) (b : Account) (F D : Int) :
    Spec.flowAt v (core days) b F D = Spec.flowAt v days b F D := by
  unfold Spec.flowAt
  rw [userPostings_core]
  simp only [bookingValue_core]

theorem flowAt_daysOf (f : BalanceFlags) (ds : List Directive) (part : Partition) (v : Commodity) (b : Account)
    (F D : Int) : Spec.flowAt v (LedgerCommand.daysOf f ds part) b F D = Spec.flowAt v (Builder.ofList ds).build b F D := by
  rw [← flowAt_core, core_daysOf, flowAt_core]

/-- without closing, an insert exists only if the window is not empty -/
theorem window_nonempty_noclose (cfg : BalCfg) (hcl : cfg.close = false) (days : List Day) (st : BalState)
    (h : Balance.run cfg days = .ok st) (hne : st.entries ≠ []) : cfg.span.start ≤ cfg.span.stop := by
  apply Classical.byContradiction
  intro hlt
  have hout : ∀ d ∈ days, cfg.span.contains d.date = false := by
    intro d _
    unfold Period.contains
    by_cases h1 : d.date < cfg.span.start
    · simp [h1]
    · have : d.date > cfg.span.stop := by omega
      simp [this]
  obtain ⟨txs, hp, hes⟩ := run_pipelineRun cfg days st h
  rw [pipelineRun_noclose_out cfg hcl days {} st txs hout hp] at hes
  exact hne hes

end Knut.MTM
