import Knut.GoSem.Basic
/-! Lemmas about the Go primitives of `Knut/GoSem` used by the agreement proofs (`FactsAgree/Trans*.lean`). -/
namespace Knut.GoSem

theorem index_ok {α : Type} (xs : List α) (i : Int) (h0 : 0 ≤ i) (h : i.toNat < xs.length) :
    index xs i = .ok xs[i.toNat] := by
  unfold index
  have : ¬ i < 0 := by omega
  simp [this, List.getElem?_eq_getElem h]

theorem setIndex_ok {α : Type} (xs : List α) (i : Int) (v : α) (h0 : 0 ≤ i) (h : i.toNat < xs.length) :
    setIndex xs i v = .ok (xs.set i.toNat v) := by
  unfold setIndex
  have : ¬ (i < 0 ∨ (xs.length : Int) ≤ i) := by omega
  simp [this]

theorem cmpOrdered_string (a b : String) : cmpOrdered a b = ordGo (compare a b) := by
  show cmpOrdered a b = ordGo (compareOfLessAndEq a b)
  unfold cmpOrdered compareOfLessAndEq
  by_cases h1 : a < b
  · simp [h1, ordGo]
  · by_cases h2 : b < a
    · have : a ≠ b := fun e => by subst e; exact String.lt_irrefl _ h2
      simp [h1, h2, this, ordGo]
    · have : a = b := String.le_antisymm (String.not_lt.mp h2) (String.not_lt.mp h1)
      simp [h1, this, ordGo, String.lt_irrefl]

theorem cmpOrdered_int (a b : Int) : cmpOrdered a b = ordGo (compare a b) := by
  unfold cmpOrdered
  rcases Int.lt_trichotomy a b with h | h | h
  · simp [h, Int.compare_eq_lt.mpr h, ordGo]
  · subst h; simp [ordGo]
  · have h1 : ¬ a < b := by omega
    simp [h, h1, Int.compare_eq_gt.mpr h, ordGo]

@[simp] theorem ordGo_eq_zero (o : Ordering) : ordGo o = 0 ↔ o = .eq := by cases o <;> simp [ordGo]

theorem ordGo_then (a b : Ordering) : ordGo (a.then b) = if ordGo a = 0 then ordGo b else ordGo a := by
  cases a <;> simp [Ordering.then, ordGo]

/-- `for _, x := range xs { res = append(res, f(x)) }` -/
theorem foldl_append_singleton {α β : Type} (f : α → β) (xs : List α) (acc : List β) :
    List.foldl (fun st el => st ++ [f el]) acc xs = acc ++ xs.map f := by
  induction xs generalizing acc with
  | nil => simp
  | cons x rest ih => simp [ih]

/-- `for _, x := range xs { res = append(res, f(x)...) }` -/
theorem foldl_append_flat {α β : Type} (f : α → List β) (xs : List α) (acc : List β) :
    List.foldl (fun st el => st ++ f el) acc xs = acc ++ xs.flatMap f := by
  induction xs generalizing acc with
  | nil => simp
  | cons x rest ih => simp [ih]

/-- the in-place reversal idiom `for i, j := 0, len(xs)-1; i < j; i, j = i+1, j-1 { xs[i], xs[j] = xs[j], xs[i] }`
in the shape the translator gives it -/
def swapLoop {α : Type} (fuel : Nat) (xs : List α) (i j : Int) : Outcome (List α × Int × Int) :=
  if decide (i < j) then
    match fuel with
    | 0 => Outcome.outOfFuel
    | fuel + 1 =>
      Outcome.bind (index xs j) (fun a =>
        Outcome.bind (index xs i) (fun b =>
          Outcome.bind (setIndex xs i a) (fun xs1 =>
            Outcome.bind (setIndex xs1 j b) (fun xs2 =>
              swapLoop fuel xs2 (i + 1) (j - 1)))))
  else Outcome.ok (xs, i, j)

theorem swapLoop_inv {α : Type} (orig : List α) :
    ∀ (fuel : Nat) (xs : List α) (i j : Int), 0 ≤ i → i + j = (orig.length : Int) - 1 → xs.length = orig.length →
      (∀ k : Nat, k < orig.length → xs[k]? = if (k : Int) < i ∨ j < (k : Int) then orig[orig.length - 1 - k]? else orig[k]?) →
      (j - i).toNat ≤ fuel →
      ∃ i' j', swapLoop fuel xs i j = .ok (orig.reverse, i', j') := by
  intro fuel
  induction fuel with
  | zero =>
    intro xs i j h0 hsum hlen hinv hf
    have hij : ¬ i < j := by omega
    unfold swapLoop
    simp only [hij, decide_false, Bool.false_eq_true, if_false]
    refine ⟨i, j, ?_⟩
    congr 2
    apply List.ext_getElem?
    intro k
    by_cases hk : k < orig.length
    · rw [hinv k hk, List.getElem?_reverse hk]
      split
      · rfl
      · have : orig.length - 1 - k = k := by omega
        rw [this]
    · have h1 : xs.length ≤ k := by omega
      have h2 : orig.reverse.length ≤ k := by simp; omega
      rw [List.getElem?_eq_none h1, List.getElem?_eq_none h2]
  | succ n ih =>
    intro xs i j h0 hsum hlen hinv hf
    by_cases hij : i < j
    · unfold swapLoop
      simp only [hij, decide_true, if_true]
      have hjn : j.toNat < xs.length := by omega
      have hin : i.toNat < xs.length := by omega
      rw [index_ok xs j (by omega) hjn, index_ok xs i h0 hin]
      simp only [Outcome.bind]
      rw [setIndex_ok xs i _ h0 hin]
      simp only []
      rw [setIndex_ok _ j _ (by omega) (by simpa using hjn)]
      simp only []
      apply ih
      · omega
      · omega
      · simp [hlen]
      · intro k hk
        have e1 := hinv k hk
        have ei := hinv i.toNat (by omega)
        have ej := hinv j.toNat (by omega)
        have ci : ((i.toNat : Nat) : Int) = i := by omega
        have cj : ((j.toNat : Nat) : Int) = j := by omega
        rw [ci] at ei
        rw [cj] at ej
        have ni : ¬ (i < i ∨ j < i) := by omega
        have nj : ¬ (j < i ∨ j < j) := by omega
        simp only [ni, nj, if_false] at ei ej
        rw [List.getElem?_set, List.getElem?_set]
        by_cases kj : j.toNat = k
        · subst kj
          simp only [if_true, List.length_set, hjn]
          have : ((j.toNat : Nat) : Int) < i + 1 ∨ j - 1 < ((j.toNat : Nat) : Int) := by omega
          simp only [this, if_true]
          rw [List.getElem?_eq_getElem hin] at ei
          rw [ei]
          congr 1; omega
        · simp only [kj, if_false]
          by_cases ki : i.toNat = k
          · subst ki
            simp only [if_true, hin]
            have : ((i.toNat : Nat) : Int) < i + 1 ∨ j - 1 < ((i.toNat : Nat) : Int) := by omega
            simp only [this, if_true]
            rw [List.getElem?_eq_getElem hjn] at ej
            rw [ej]
            congr 1; omega
          · simp only [ki, if_false]
            rw [e1]
            have : ((k : Int) < i ∨ j < (k : Int)) ↔ ((k : Int) < i + 1 ∨ j - 1 < (k : Int)) := by omega
            simp only [this]
      · omega
    · unfold swapLoop
      simp only [hij, decide_false, Bool.false_eq_true, if_false]
      refine ⟨i, j, ?_⟩
      congr 2
      apply List.ext_getElem?
      intro k
      by_cases hk : k < orig.length
      · rw [hinv k hk, List.getElem?_reverse hk]
        split
        · rfl
        · have : orig.length - 1 - k = k := by omega
          rw [this]
      · have h1 : xs.length ≤ k := by omega
        have h2 : orig.reverse.length ≤ k := by simp; omega
        rw [List.getElem?_eq_none h1, List.getElem?_eq_none h2]

/-- the reversal idiom reverses, and `fuelLt 0 (len xs - 1)` suffices -/
theorem swapLoop_reverse {α : Type} (xs : List α) :
    ∃ i' j', swapLoop (fuelLt 0 (len xs - 1)) xs 0 (len xs - 1) = .ok (xs.reverse, i', j') := by
  apply swapLoop_inv xs _ xs 0 (len xs - 1) (by omega) (by simp) rfl
  · intro k hk
    have : ¬ ((k : Int) < 0 ∨ len xs - 1 < (k : Int)) := by simp; omega
    simp only [this, if_false]
  · simp [fuelLt]

/-- Go's binary search on a monotone predicate returns the first index at which it holds (or `n`) -/
theorem sortSearchLoop_spec (f : Int → Outcome Bool) (p : Nat → Bool) (n : Nat)
    (hf : ∀ k : Nat, k < n → f (k : Int) = .ok (p k))
    (hmono : ∀ a b : Nat, a ≤ b → b < n → p a = true → p b = true) :
    ∀ (fuel : Nat) (i j : Nat), i ≤ j → j ≤ n → j - i ≤ fuel →
      (∀ k, k < i → p k = false) → (∀ k, j ≤ k → k < n → p k = true) →
      ∃ r : Nat, sortSearchLoop f fuel (i : Int) (j : Int) = .ok (r : Int) ∧ r ≤ n ∧
        (∀ k, k < r → p k = false) ∧ (r < n → p r = true) := by
  intro fuel
  induction fuel with
  | zero =>
    intro i j hij hjn hfu hlo hhi
    have : i = j := by omega
    subst this
    refine ⟨i, ?_, hjn, hlo, fun h => hhi i (Nat.le_refl _) h⟩
    simp [sortSearchLoop]
  | succ m ih =>
    intro i j hij hjn hfu hlo hhi
    by_cases hlt : i < j
    · have hlt' : (i : Int) < (j : Int) := by omega
      have hh : ((i : Int) + (j : Int)) / 2 = (((i + j) / 2 : Nat) : Int) := by omega
      have hi : i ≤ (i + j) / 2 := by omega
      have hj : (i + j) / 2 < j := by omega
      unfold sortSearchLoop
      simp only [hlt', if_true, hh]
      rw [hf _ (by omega)]
      simp only [ok_bind]
      cases hp : p ((i + j) / 2) with
      | false =>
        simp only [Bool.not_false, if_true]
        have e : ((((i + j) / 2 : Nat) : Int) + 1) = (((i + j) / 2 + 1 : Nat) : Int) := by omega
        rw [e]
        apply ih _ _ (by omega) hjn (by omega) _ hhi
        intro k hk
        by_cases hk2 : k < i
        · exact hlo k hk2
        · cases hpk : p k with
          | false => rfl
          | true =>
            have := hmono k ((i + j) / 2) (by omega) (by omega) hpk
            rw [hp] at this; exact absurd this (by simp)
      | true =>
        simp only [Bool.not_true, Bool.false_eq_true, if_false]
        apply ih _ _ hi (by omega) (by omega) hlo
        intro k hk hkn
        exact hmono _ k hk hkn hp
    · have : i = j := by omega
      subst this
      refine ⟨i, ?_, hjn, hlo, fun h => hhi i (Nat.le_refl _) h⟩
      unfold sortSearchLoop
      simp

theorem sortSearch_spec (f : Int → Outcome Bool) (p : Nat → Bool) (n : Nat)
    (hf : ∀ k : Nat, k < n → f (k : Int) = .ok (p k))
    (hmono : ∀ a b : Nat, a ≤ b → b < n → p a = true → p b = true) :
    ∃ r : Nat, sortSearch (n : Int) f = .ok (r : Int) ∧ r ≤ n ∧
      (∀ k, k < r → p k = false) ∧ (r < n → p r = true) := by
  have := sortSearchLoop_spec f p n hf hmono n 0 n (Nat.zero_le _) (Nat.le_refl _) (by omega)
    (fun k hk => absurd hk (Nat.not_lt_zero _)) (fun k hk hkn => absurd hkn (by omega))
  simpa [sortSearch] using this

/-- the first element satisfying `q` is at the index `r` below which `q` fails and at which it holds -/
theorem find?_eq_getElem? {α : Type} (q : α → Bool) : ∀ (xs : List α) (r : Nat), r ≤ xs.length →
    (∀ k (h : k < xs.length), k < r → q xs[k] = false) → (∀ h : r < xs.length, q xs[r] = true) →
    xs.find? q = xs[r]?
  | [], r, _, _, _ => by simp
  | x :: rest, 0, _, _, h1 => by
    have := h1 (by simp)
    simp at this
    simp [List.find?, this]
  | x :: rest, r + 1, hr, h0, h1 => by
    have hx : q x = false := h0 0 (by simp) (by omega)
    simp only [List.find?, hx, List.getElem?_cons_succ]
    apply find?_eq_getElem? q rest r (by simpa using hr)
    · intro k h hk
      have := h0 (k + 1) (by simpa using h) (by omega)
      simpa using this
    · intro h
      have := h1 (by simpa using h)
      simpa using this

end Knut.GoSem
