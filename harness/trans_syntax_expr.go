package main

// Go→Lean translator for the syntax layer: functions and expressions (see trans_syntax.go).

import (
	"fmt"
	"go/ast"
	"go/constant"
	"go/token"
	"go/types"
	"strconv"
	"strings"
)

type tsPre struct {
	name  string
	typ   string
	act   string
	isLet bool // let name := act   (otherwise Outcome.bind act (fun name => …))
}

type tsLoop struct {
	brk   func() trLines
	cont  func() trLines
	depth int // flowDepth at the loop body
}

type tsCtx struct {
	t         *tsT
	fn        *tsFunc
	names     map[types.Object]string
	used      map[string]bool
	pre       []tsPre
	ntmp      int
	nloop     int
	aux       []string
	noHoist   int
	flowDepth int // >0: inside a loop body or a Flow join: `return` yields Flow.ret
	loop      *tsLoop
	inLambda  int
	results   *types.Tuple
	aliasName string // the explicit alias argument of this function ("" if none)
}

func (c *tsCtx) info() *types.Info { return c.fn.pkg.info }
func (c *tsCtx) unit() *tsUnit      { return c.fn.unit }

func (c *tsCtx) fresh(base string) string {
	for {
		c.ntmp++
		n := fmt.Sprintf("%s%d", base, c.ntmp)
		if !c.used[n] {
			c.used[n] = true
			return n
		}
	}
}

func (c *tsCtx) local(obj types.Object) string {
	if n, ok := c.names[obj]; ok {
		return n
	}
	base := trMangle(obj.Name())
	if base == "_" {
		return "_"
	}
	n := base
	for i := 1; c.used[n]; i++ {
		n = fmt.Sprintf("%s_%d", base, i)
	}
	c.used[n] = true
	c.names[obj] = n
	return n
}

func (c *tsCtx) leanType(ty types.Type, pos token.Pos) string {
	return c.t.leanType(c.unit(), ty, pos)
}

func (c *tsCtx) typeOf(e ast.Expr) types.Type {
	tv, ok := c.info().Types[e]
	if !ok || tv.Type == nil || tv.Type == types.Typ[types.Invalid] {
		trFail(e.Pos(), "expression %s has no type here: it uses a declaration outside the prelude and the translated packages", trSrc(e))
	}
	return tv.Type
}

func (c *tsCtx) hoist(act string, pos token.Pos) string {
	if !c.fn.effect {
		trFail(pos, "internal: effectful expression in a function classified as pure")
	}
	if c.noHoist > 0 || c.inLambda > 0 {
		trFail(pos, "a call that can panic inside the right operand of && or || or inside a function literal is outside the subset")
	}
	n := c.fresh("t")
	c.pre = append(c.pre, tsPre{name: n, act: act})
	return n
}

func (c *tsCtx) takePre() []tsPre {
	p := c.pre
	c.pre = nil
	return p
}

func tsWrapPre(pre []tsPre, body trLines) trLines {
	for i := len(pre) - 1; i >= 0; i-- {
		if pre[i].isLet {
			body = trLet(pre[i].name, pre[i].typ, trOne(pre[i].act), body)
		} else {
			body = trBind(pre[i].name, pre[i].act, body)
		}
	}
	return body
}

// ---------------------------------------------------------------------------------------------- functions

func (t *tsT) translateFunc(f *tsFunc) {
	defer func() {
		if r := recover(); r != nil {
			if rj, ok := r.(trReject); ok {
				f.rejected = &rj
				return
			}
			panic(r)
		}
	}()
	if f.decl.Body == nil {
		trFail(f.decl.Pos(), "function without a body")
	}
	if errs := f.pkg.errorsIn(f.decl.Pos(), f.decl.End()); len(errs) > 0 {
		trFail(errs[0].Pos, "uses a declaration outside the prelude and the translated packages: %s", errs[0].Msg)
	}
	c := &tsCtx{t: t, fn: f, names: map[types.Object]string{}, used: map[string]bool{"fuel": true, "n": true}}
	c.tsbBegin() // extra parameters: float operations, external functions, map iteration orders (trans_syntax_bayes.go)
	sig := f.obj.Type().(*types.Signature)
	if sig.Variadic() || sig.TypeParams() != nil || sig.RecvTypeParams() != nil {
		trFail(f.decl.Pos(), "variadic and generic functions are outside the subset")
	}
	var params []string
	if f.fuel {
		params = append(params, "(fuel : Nat)")
	}
	for _, v := range f.params {
		lt := c.leanType(v.Type(), f.decl.Pos())
		n := c.local(v)
		if n == "_" {
			n = c.fresh("unused")
		}
		params = append(params, "("+n+" : "+lt+")")
	}
	if f.alias {
		// the object the alias field of the receiver points to
		a := tsAliasFieldOf(f.params[0].Type())
		st := tsNamedOf(f.params[0].Type()).Underlying().(*types.Struct)
		for i := 0; i < st.NumFields(); i++ {
			if st.Field(i).Name() == a {
				c.aliasName = c.fresh(strings.ToLower(a) + "_")
				params = append(params, "("+c.aliasName+" : "+c.leanType(st.Field(i).Type(), f.decl.Pos())+")")
			}
		}
	}
	params = append(params, c.tsbParams()...)
	results := sig.Results()
	for i := 0; i < results.Len(); i++ {
		if results.At(i).Name() != "" {
			trFail(f.decl.Pos(), "named results are outside the subset")
		}
	}
	c.results = results
	var rts []string
	for _, mi := range f.mut {
		rts = append(rts, c.leanType(f.params[mi].Type(), f.decl.Pos()))
	}
	for i := 0; i < results.Len(); i++ {
		rts = append(rts, c.leanType(results.At(i).Type(), f.decl.Pos()))
	}
	switch len(rts) {
	case 0:
		f.resType = "Unit"
	case 1:
		f.resType = rts[0]
	default:
		f.resType = "(" + strings.Join(rts, " × ") + ")"
	}
	end := func() trLines {
		if results.Len() > 0 {
			trFail(f.decl.End(), "internal: control reaches the end of a function with results")
		}
		return c.returnTerm(nil, f.decl.End())
	}
	term := c.stmts(f.decl.Body.List, end)
	ret := f.resType
	if f.effect {
		ret = "Outcome " + f.resType
	}
	var b strings.Builder
	for _, a := range c.aux {
		b.WriteString(a + "\n")
	}
	fmt.Fprintf(&b, "/-- Go: `%s` (%s) -/\n", trSigText(f.decl), t.l.relPos(f.decl.Pos()))
	fmt.Fprintf(&b, "def %s %s : %s :=\n%s\n", f.leanName, strings.Join(params, " "), ret, term.indent(2).String())
	f.text = b.String()
}

// the scanner (aliased object) that a value with an alias field of type `ty` points to, as seen from this function
func (c *tsCtx) aliasArg(ty types.Type, pos token.Pos) string {
	a := tsAliasFieldOf(ty)
	st := tsNamedOf(ty).Underlying().(*types.Struct)
	var target types.Type
	for i := 0; i < st.NumFields(); i++ {
		if st.Field(i).Name() == a {
			target = st.Field(i).Type()
		}
	}
	tn := tsNamedOf(target)
	if c.aliasName != "" && len(c.fn.params) > 0 && tsNamedOf(c.fn.params[0].Type()) == tsNamedOf(ty) {
		return c.aliasName
	}
	if c.fn.decl.Recv == nil || len(c.fn.params) == 0 {
		trFail(pos, "a %s outside a method: the object its field %s points to is unknown", tsNamedOf(ty).Obj().Name(), a)
	}
	recv := c.fn.params[0]
	rn := tsNamedOf(recv.Type())
	if rn == tn {
		return c.names[recv]
	}
	// the receiver embeds (or has as a field) exactly one value of the aliased type
	if st, ok := rn.Underlying().(*types.Struct); ok {
		found := ""
		for i := 0; i < st.NumFields(); i++ {
			if tsNamedOf(st.Field(i).Type()) == tn {
				if _, isPtr := st.Field(i).Type().(*types.Pointer); isPtr || found != "" {
					trFail(pos, "the receiver has more than one %s (or a pointer to one): outside the subset", tn.Obj().Name())
				}
				found = st.Field(i).Name()
			}
		}
		if found != "" {
			return c.names[recv] + "." + trMangle(found)
		}
	}
	trFail(pos, "the object the field %s of a %s points to cannot be determined here", a, tsNamedOf(ty).Obj().Name())
	return ""
}

// ---------------------------------------------------------------------------------------------- expressions

func (c *tsCtx) constExpr(e ast.Expr, v constant.Value, ty types.Type) string {
	switch {
	case tsIsIntLike(ty):
		n := v.ExactString()
		if v.Kind() != constant.Int {
			trFail(e.Pos(), "constant %s is outside the subset", v)
		}
		return "(" + n + " : Int)"
	case tsIsBool(ty):
		return strconv.FormatBool(constant.BoolVal(v))
	case tsIsString(ty):
		s := constant.StringVal(v)
		if !isValidUTF8(s) {
			trFail(e.Pos(), "string constant that is not valid UTF-8 is outside the subset")
		}
		return "(Syn.lit " + trLeanStr(s) + ")"
	}
	trFail(e.Pos(), "constant of type %s is outside the subset", ty)
	return ""
}

func isValidUTF8(s string) bool {
	for _, r := range s {
		if r == 0xFFFD {
			// either a literal U+FFFD or an invalid byte: check the bytes
			return strings.ToValidUTF8(s, "") == s
		}
	}
	return true
}

func (c *tsCtx) isNil(e ast.Expr) bool {
	id, ok := trUnparen(e).(*ast.Ident)
	if !ok {
		return false
	}
	_, isNil := c.info().Uses[id].(*types.Nil)
	return isNil
}

func (c *tsCtx) goErrorName(ctor string) string {
	c.t.needError(c.fn.decl.Pos())
	return c.t.qname(c.unit(), c.t.dirUnit(), "GoError."+ctor)
}

// exprAs: an expression in a position of type `target` (nil, conversion to an interface, function values)
func (c *tsCtx) exprAs(e ast.Expr, target types.Type) string {
	if target == nil {
		return c.expr(e)
	}
	if c.isNil(e) {
		switch {
		case trIsError(target):
			return c.goErrorName("nil")
		case tsIsProc(target):
			return "(GoZero.zero : Syn.Proc)"
		}
		if _, ok := target.Underlying().(*types.Slice); ok {
			return "([] : " + c.leanType(target, e.Pos()) + ")"
		}
		if tsIsEmptyInterface(target) {
			c.t.needAny(e.Pos())
			return c.t.qname(c.unit(), c.t.dirUnit(), "GoAny.nil")
		}
		trFail(e.Pos(), "nil of type %s is outside the subset", target)
	}
	if trIsError(target) {
		return c.errorValue(e)
	}
	if tsIsEmptyInterface(target) {
		return c.anyValue(c.expr(e), c.typeOf(e), e.Pos())
	}
	if sig, ok := target.Underlying().(*types.Signature); ok {
		return c.funcValue(e, sig)
	}
	return c.expr(e)
}

// anyValue: a value of static type ty stored in an `any`
func (c *tsCtx) anyValue(val string, ty types.Type, pos token.Pos) string {
	if tsIsEmptyInterface(ty) {
		return val
	}
	n, ok := ty.(*types.Named)
	if !ok {
		trFail(pos, "a value of type %s stored in an `any` is outside the subset", ty)
	}
	c.t.needAny(pos)
	for _, a := range c.t.anyTypes {
		if a == n {
			return "(" + c.t.qname(c.unit(), c.t.dirUnit(), "GoAny."+trMangle(n.Obj().Name())) + " " + val + ")"
		}
	}
	trFail(pos, "internal: %s is not a case of GoAny", n)
	return ""
}

// errorValue: an expression used as an `error`
func (c *tsCtx) errorValue(e ast.Expr) string {
	e = trUnparen(e)
	ty := c.typeOf(e)
	if trIsError(ty) {
		return c.expr(e)
	}
	if n := tsNamedOf(ty); n != nil && tsFullName(n) == tsErrorStruct {
		if _, isPtr := ty.(*types.Pointer); isPtr {
			trFail(e.Pos(), "a pointer to directives.Error as an error is outside the subset")
		}
		cl, ok := e.(*ast.CompositeLit)
		if !ok {
			trFail(e.Pos(), "a directives.Error that is not a struct literal, used as an error, is outside the subset")
		}
		fields := c.t.errorFields(e.Pos())
		given := map[string]ast.Expr{}
		for i, el := range cl.Elts {
			if kv, ok := el.(*ast.KeyValueExpr); ok {
				given[kv.Key.(*ast.Ident).Name] = kv.Value
			} else {
				given[fields[i].Name()] = el
			}
		}
		var args []string
		// Go evaluates the elements in source order; they are pure here (effects are hoisted in that order)
		vals := map[string]string{}
		for _, el := range cl.Elts {
			var name string
			var val ast.Expr
			if kv, ok := el.(*ast.KeyValueExpr); ok {
				name, val = kv.Key.(*ast.Ident).Name, kv.Value
			} else {
				continue
			}
			for _, f := range fields {
				if f.Name() == name {
					vals[name] = c.exprAs(val, f.Type())
				}
			}
		}
		for i, f := range fields {
			if v, ok := vals[f.Name()]; ok {
				args = append(args, v)
				continue
			}
			if g, ok := given[f.Name()]; ok {
				args = append(args, c.exprAs(g, fields[i].Type()))
				continue
			}
			if trIsError(f.Type()) {
				args = append(args, c.goErrorName("nil"))
			} else {
				args = append(args, "(GoZero.zero : "+c.leanType(f.Type(), e.Pos())+")")
			}
		}
		return "(" + c.goErrorName("Error") + " " + strings.Join(args, " ") + ")"
	}
	trFail(e.Pos(), "a value of type %s used as an error is outside the subset", ty)
	return ""
}

// funcValue: an expression used as a function value with results (a predicate)
func (c *tsCtx) funcValue(e ast.Expr, sig *types.Signature) string {
	if sig.Results().Len() != 1 {
		trFail(e.Pos(), "a function value without exactly one result is outside the subset here")
	}
	switch x := trUnparen(e).(type) {
	case *ast.FuncLit:
		if len(x.Body.List) != 1 {
			trFail(x.Pos(), "a function literal that is not a single return is outside the subset")
		}
		ret, ok := x.Body.List[0].(*ast.ReturnStmt)
		if !ok || len(ret.Results) != 1 {
			trFail(x.Pos(), "a function literal that is not a single return is outside the subset")
		}
		var ps []string
		for _, fl := range x.Type.Params.List {
			for _, nm := range fl.Names {
				o := c.info().Defs[nm]
				ps = append(ps, "("+c.local(o)+" : "+c.leanType(o.Type(), nm.Pos())+")")
			}
			if len(fl.Names) == 0 {
				trFail(x.Pos(), "a function literal with unnamed parameters is outside the subset")
			}
		}
		c.inLambda++
		body := c.exprAs(ret.Results[0], sig.Results().At(0).Type())
		c.inLambda--
		return "(fun " + strings.Join(ps, " ") + " => " + body + ")"
	case *ast.Ident:
		switch o := c.info().Uses[x].(type) {
		case *types.Func:
			return c.funcName(o, x.Pos())
		case *types.Var:
			if n, ok := c.names[o]; ok {
				return n
			}
		}
	case *ast.SelectorExpr:
		if _, isSel := c.info().Selections[x]; !isSel {
			if o, ok := c.info().Uses[x.Sel].(*types.Func); ok {
				return c.funcName(o, x.Pos())
			}
		}
	}
	trFail(e.Pos(), "this function value (%s) is outside the subset: only parameters, names of translated pure functions, unicode.IsLetter/IsDigit and single-return literals", trSrc(e))
	return ""
}

var tsFuncPrims = map[string]string{
	"unicode.IsLetter": "Syn.IsLetter",
	"unicode.IsDigit":  "Syn.IsDigit",
}

func (c *tsCtx) funcName(o *types.Func, pos token.Pos) string {
	if p, ok := tsFuncPrims[o.FullName()]; ok {
		return p
	}
	tf := c.t.funcs[o.Origin()]
	if tf == nil || tf.effect || len(tf.mut) > 0 || tf.fuel || tf.alias || tf.decl.Recv != nil {
		trFail(pos, "the function value %s is not a translated pure function", o.FullName())
	}
	return c.t.qname(c.unit(), tf.unit, tf.leanName)
}

// fieldPath: the Lean projection path of a field selection (through embedded structs)
func (c *tsCtx) fieldPath(sel *types.Selection, pos token.Pos) []string {
	var path []string
	ty := sel.Recv()
	for _, ix := range sel.Index() {
		if p, ok := ty.Underlying().(*types.Pointer); ok {
			ty = p.Elem()
		}
		st, ok := ty.Underlying().(*types.Struct)
		if !ok {
			trFail(pos, "selection through %s is outside the subset", ty)
		}
		c.leanType(ty, pos)
		f := st.Field(ix)
		path = append(path, f.Name())
		ty = f.Type()
	}
	return path
}

// selectorBase: translate x.f… where the path may run through an alias field (then the alias argument takes over)
func (c *tsCtx) selectPath(base string, baseTy types.Type, path []string, pos token.Pos) string {
	ty := baseTy
	cur := base
	for _, f := range path {
		if p, ok := ty.Underlying().(*types.Pointer); ok {
			ty = p.Elem()
		}
		st := ty.Underlying().(*types.Struct)
		var fld *types.Var
		for i := 0; i < st.NumFields(); i++ {
			if st.Field(i).Name() == f {
				fld = st.Field(i)
			}
		}
		if a := tsAliasFieldOf(ty); a != "" && a == f {
			cur = c.aliasArg(ty, pos)
		} else {
			cur = cur + "." + trMangle(f)
		}
		ty = fld.Type()
	}
	return cur
}

func (c *tsCtx) expr(e ast.Expr) string {
	if tv, ok := c.info().Types[e]; ok && tv.Value != nil {
		return c.constExpr(e, tv.Value, tv.Type)
	}
	switch x := e.(type) {
	case *ast.ParenExpr:
		return c.expr(x.X)
	case *ast.Ident:
		return c.ident(x)
	case *ast.UnaryExpr:
		switch x.Op {
		case token.NOT:
			return "(!" + c.expr(x.X) + ")"
		case token.SUB:
			if tsIsIntLike(c.typeOf(x.X)) {
				return "(-" + c.expr(x.X) + ")"
			}
		case token.AND:
			if _, ok := trUnparen(x.X).(*ast.CompositeLit); ok {
				return c.expr(x.X) // &T{…}: the struct value
			}
			if s, ok := c.tsbAddrOf(x); ok {
				return s
			}
			trFail(x.Pos(), "taking the address of %s is outside the subset", trSrc(x.X))
		}
		trFail(x.Pos(), "unary operator %s on %s is outside the subset", x.Op, c.typeOf(x.X))
	case *ast.BinaryExpr:
		return c.binary(x)
	case *ast.SelectorExpr:
		if sel, ok := c.info().Selections[x]; ok {
			if sel.Kind() != types.FieldVal {
				trFail(x.Pos(), "method value %s is outside the subset", trSrc(x))
			}
			return c.selectPath(c.expr(x.X), sel.Recv(), c.fieldPath(sel, x.Pos()), x.Pos())
		}
		switch o := c.info().Uses[x.Sel].(type) {
		case *types.Var:
			if o.Pkg() != nil && o.Pkg().Path() == "io" && o.Name() == "EOF" {
				return c.goErrorName("io_EOF")
			}
			trFail(x.Pos(), "package variable %s is outside the subset", trSrc(x))
		case nil:
			trFail(x.Pos(), "%s is not declared in the prelude or in a translated package", trSrc(x))
		}
		trFail(x.Pos(), "selector %s is outside the subset", trSrc(x))
	case *ast.CallExpr:
		return c.call(x)
	case *ast.CompositeLit:
		return c.composite(x)
	case *ast.SliceExpr:
		tx := c.typeOf(x.X)
		if x.Slice3 || !(tsIsString(tx) || isSlice(tx)) {
			trFail(x.Pos(), "slicing a value of type %s is outside the subset", tx)
		}
		xs := c.expr(x.X)
		lo, hi := "(0 : Int)", "(len "+xs+")"
		if x.Low != nil {
			lo = c.expr(x.Low)
		}
		if x.High != nil {
			hi = c.expr(x.High)
		}
		return c.hoist("slice "+xs+" "+lo+" "+hi, x.Pos())
	case *ast.StarExpr:
		c.leanType(c.typeOf(x.X), x.Pos())
		return c.expr(x.X)
	case *ast.IndexExpr:
		if s, ok := c.tsbIndex(x); ok {
			return s
		}
		return c.tspIndex(x)
	}
	trFail(e.Pos(), "expression %T is outside the subset", e)
	return ""
}

func isSlice(ty types.Type) bool {
	_, ok := ty.Underlying().(*types.Slice)
	return ok
}

func (c *tsCtx) ident(x *ast.Ident) string {
	obj := c.info().Uses[x]
	if obj == nil {
		obj = c.info().Defs[x]
	}
	switch o := obj.(type) {
	case *types.Var:
		if o.Pkg() != nil && o.Parent() == o.Pkg().Scope() {
			trFail(x.Pos(), "package variable %s is outside the subset", x.Name)
		}
		if n, ok := c.names[o]; ok {
			return n
		}
		trFail(x.Pos(), "variable %s is used before the translator saw its declaration", x.Name)
	case *types.Nil:
		trFail(x.Pos(), "nil in a position whose type the translator does not know is outside the subset")
	}
	trFail(x.Pos(), "identifier %s (%T) is outside the subset here", x.Name, obj)
	return ""
}

func (c *tsCtx) binary(x *ast.BinaryExpr) string {
	if s, ok := c.tsbBinary(x); ok {
		return s
	}
	switch x.Op {
	case token.LAND, token.LOR:
		a := c.expr(x.X)
		c.noHoist++
		b := c.expr(x.Y)
		c.noHoist--
		if x.Op == token.LAND {
			return "(" + a + " && " + b + ")"
		}
		return "(" + a + " || " + b + ")"
	}
	if x.Op == token.EQL || x.Op == token.NEQ {
		var other ast.Expr
		if c.isNil(x.Y) {
			other = x.X
		} else if c.isNil(x.X) {
			other = x.Y
		}
		if other != nil {
			ty := c.typeOf(other)
			var r string
			switch {
			case trIsError(ty):
				r = "(decide (" + c.expr(other) + " = " + c.goErrorName("nil") + "))"
			case tsIsProc(ty):
				r = "(!" + c.expr(other) + ".nonNil)"
			default:
				trFail(x.Pos(), "comparison of %s with nil is outside the subset", ty)
			}
			if x.Op == token.NEQ {
				return "(!" + r + ")"
			}
			return r
		}
	}
	tx, ty := c.typeOf(x.X), c.typeOf(x.Y)
	a, b := c.expr(x.X), c.expr(x.Y)
	switch x.Op {
	case token.EQL, token.NEQ:
		if !(tsIsIntLike(tx) || tsIsString(tx) || tsIsBool(tx)) {
			trFail(x.Pos(), "comparison of values of type %s is outside the subset", tx)
		}
		if x.Op == token.EQL {
			return "(decide (" + a + " = " + b + "))"
		}
		return "(!decide (" + a + " = " + b + "))"
	case token.LSS, token.LEQ, token.GTR, token.GEQ:
		if !(tsIsIntLike(tx) && tsIsIntLike(ty)) {
			trFail(x.Pos(), "ordering %s on %s is outside the subset", x.Op, tx)
		}
		op := map[token.Token]string{token.LSS: "<", token.LEQ: "≤", token.GTR: ">", token.GEQ: "≥"}[x.Op]
		return "(decide (" + a + " " + op + " " + b + "))"
	case token.ADD:
		if tsIsString(tx) {
			return "(" + a + " ++ " + b + ")"
		}
		fallthrough
	case token.SUB, token.MUL:
		if !tsIsIntLike(tx) || !tsIsIntLike(ty) {
			trFail(x.Pos(), "operator %s on %s is outside the subset", x.Op, tx)
		}
		return "(" + a + " " + x.Op.String() + " " + b + ")"
	}
	trFail(x.Pos(), "operator %s is outside the subset", x.Op)
	return ""
}

func (c *tsCtx) composite(x *ast.CompositeLit) string {
	ty := c.typeOf(x)
	if n := tsNamedOf(ty); n != nil && tsFullName(n) == tsErrorStruct {
		trFail(x.Pos(), "a directives.Error literal outside a position of type error is outside the subset")
	}
	lt := c.leanType(ty, x.Pos())
	under := ty.Underlying()
	if p, ok := under.(*types.Pointer); ok {
		under = p.Elem().Underlying()
	}
	switch u := under.(type) {
	case *types.Struct:
		alias := tsAliasFieldOf(ty)
		given := map[string]string{}
		for i, el := range x.Elts {
			var name string
			var val ast.Expr
			if kv, ok := el.(*ast.KeyValueExpr); ok {
				name, val = kv.Key.(*ast.Ident).Name, kv.Value
			} else {
				name, val = u.Field(i).Name(), el
			}
			if name == alias && alias != "" {
				// the alias must be the object this method works on
				want := c.aliasArg(ty, x.Pos())
				got := c.expr(val)
				if got != want {
					trFail(val.Pos(), "the field %s is set to %s, not to the receiver of this method: outside the subset", alias, trSrc(val))
				}
				continue
			}
			var fty types.Type
			for j := 0; j < u.NumFields(); j++ {
				if u.Field(j).Name() == name {
					fty = u.Field(j).Type()
				}
			}
			given[name] = c.exprAs(val, fty)
		}
		var parts []string
		for i := 0; i < u.NumFields(); i++ {
			f := u.Field(i)
			if f.Name() == alias && alias != "" {
				if _, set := given[f.Name()]; !set && len(x.Elts) > 0 {
					// a value whose alias field is nil would be a different thing: only full literals
					found := false
					for _, el := range x.Elts {
						if kv, ok := el.(*ast.KeyValueExpr); ok && kv.Key.(*ast.Ident).Name == alias {
							found = true
						}
					}
					if !found {
						trFail(x.Pos(), "a literal of %s that leaves the field %s nil is outside the subset", ty, alias)
					}
				}
				continue
			}
			v, ok := given[f.Name()]
			if !ok {
				v = "GoZero.zero"
			}
			parts = append(parts, trMangle(f.Name())+" := "+v)
		}
		return "({ " + strings.Join(parts, ", ") + " } : " + lt + ")"
	case *types.Slice:
		var parts []string
		for _, el := range x.Elts {
			if _, ok := el.(*ast.KeyValueExpr); ok {
				trFail(el.Pos(), "keyed slice literal is outside the subset")
			}
			parts = append(parts, c.exprAs(el, u.Elem()))
		}
		return "([" + strings.Join(parts, ", ") + "] : " + lt + ")"
	}
	trFail(x.Pos(), "composite literal of type %s is outside the subset", ty)
	return ""
}

// recvOf: the receiver expression of a method call, with the path through embedded structs
func (c *tsCtx) recvOf(f *ast.SelectorExpr, sel *types.Selection) (string, types.Type) {
	idx := sel.Index()
	ty := sel.Recv()
	cur := c.expr(f.X)
	for _, ix := range idx[:len(idx)-1] {
		if p, ok := ty.Underlying().(*types.Pointer); ok {
			ty = p.Elem()
		}
		st := ty.Underlying().(*types.Struct)
		c.leanType(ty, f.Pos())
		fld := st.Field(ix)
		if a := tsAliasFieldOf(ty); a != "" && a == fld.Name() {
			cur = c.aliasArg(ty, f.Pos())
		} else {
			cur = cur + "." + trMangle(fld.Name())
		}
		ty = fld.Type()
	}
	return cur, ty
}

// recvFields: the names of the embedded fields between the receiver expression and the method's receiver
func (c *tsCtx) recvFields(sel *types.Selection) []string {
	var path []string
	ty := sel.Recv()
	idx := sel.Index()
	for _, ix := range idx[:len(idx)-1] {
		if p, ok := ty.Underlying().(*types.Pointer); ok {
			ty = p.Elem()
		}
		st := ty.Underlying().(*types.Struct)
		path = append(path, st.Field(ix).Name())
		ty = st.Field(ix).Type()
	}
	return path
}

type tsCallInfo struct {
	fobj   *types.Func
	tf     *tsFunc
	recv   string     // translated receiver ("" for functions)
	recvTy types.Type // static type of the receiver expression after the embedded path
	sel    *ast.SelectorExpr
	selObj *types.Selection
}

func (c *tsCtx) resolveCall(x *ast.CallExpr) tsCallInfo {
	var ci tsCallInfo
	switch f := trUnparen(x.Fun).(type) {
	case *ast.Ident:
		ci.fobj, _ = c.info().Uses[f].(*types.Func)
	case *ast.SelectorExpr:
		if sel, ok := c.info().Selections[f]; ok {
			if sel.Kind() == types.MethodVal {
				ci.fobj, _ = sel.Obj().(*types.Func)
				ci.sel, ci.selObj = f, sel
			}
		} else {
			ci.fobj, _ = c.info().Uses[f.Sel].(*types.Func)
		}
	}
	if ci.fobj != nil {
		ci.tf = c.t.funcs[ci.fobj.Origin()]
	}
	return ci
}

// appOf: the application of a translated function to the translated arguments (without the handling of its results)
func (c *tsCtx) appOf(ci tsCallInfo, x *ast.CallExpr) string {
	tf := ci.tf
	if tf.rejected != nil {
		trFail(x.Pos(), "calls %s, which is rejected", tf.leanName)
	}
	var args []string
	if tf.fuel {
		if !c.fn.fuel {
			trFail(x.Pos(), "internal: call of a function with fuel from one without")
		}
		args = append(args, "fuel")
	}
	sig := ci.fobj.Type().(*types.Signature)
	if ci.sel != nil {
		recv, rty := c.recvOf(ci.sel, ci.selObj)
		args = append(args, recv)
		ci.recvTy = rty
		c.checkAliasCall(ci, x)
	}
	if x.Ellipsis != token.NoPos {
		trFail(x.Pos(), "call with … is outside the subset")
	}
	for i, a := range x.Args {
		pt := sig.Params().At(i).Type()
		if tsAliasFieldOf(pt) != "" {
			// a value with an alias field travels to a method of the same receiver only
			ok := ci.sel != nil && c.fn.decl.Recv != nil
			if ok {
				id := tsBaseIdent(ci.sel.X)
				ok = id != nil && c.info().Uses[id] == types.Object(c.fn.params[0])
			}
			if !ok {
				trFail(a.Pos(), "a %s is passed to a function that is not a method of the receiver of this method: outside the subset", tsNamedOf(pt).Obj().Name())
			}
		}
		args = append(args, c.exprAs(a, pt))
	}
	if tf.alias {
		args = append(args, c.aliasArg(tf.params[0].Type(), x.Pos()))
	}
	args = append(args, c.tsbCallExtras(tf, x)...)
	name := c.t.qname(c.unit(), tf.unit, tf.leanName)
	if len(args) == 0 {
		return name
	}
	return name + " " + strings.Join(args, " ")
}

// a method of a struct with an alias field is called on a value that belongs to this method's object: nothing to check beyond
// aliasArg; a method of the aliased type called on something else than this method's object is fine (it takes no alias)
func (c *tsCtx) checkAliasCall(ci tsCallInfo, x *ast.CallExpr) {}

func (c *tsCtx) call(x *ast.CallExpr) string {
	if s, ok := c.tsbCall(x); ok {
		return s
	}
	// conversion T(e)
	if tv, ok := c.info().Types[x.Fun]; ok && tv.IsType() {
		from, to := c.typeOf(x.Args[0]), tv.Type
		if tsIsIntLike(from) && tsIsIntLike(to) {
			return c.expr(x.Args[0])
		}
		if s, ok := c.tspConversion(from, to, x); ok {
			return s
		}
		if types.Identical(from.Underlying(), to.Underlying()) {
			c.leanType(to, x.Pos())
			return c.expr(x.Args[0])
		}
		trFail(x.Pos(), "conversion from %s to %s is outside the subset", from, to)
	}
	if id, ok := trUnparen(x.Fun).(*ast.Ident); ok {
		if b, ok := c.info().Uses[id].(*types.Builtin); ok {
			return c.builtin(b.Name(), x)
		}
		// a call of a function-typed parameter
		if v, ok := c.info().Uses[id].(*types.Var); ok {
			if sig, ok := v.Type().Underlying().(*types.Signature); ok && sig.Results().Len() == 1 {
				if n, ok := c.names[v]; ok {
					args := []string{n}
					for i, a := range x.Args {
						args = append(args, c.exprAs(a, sig.Params().At(i).Type()))
					}
					return "(" + strings.Join(args, " ") + ")"
				}
			}
			trFail(x.Pos(), "call of the function value %s is outside the subset", id.Name)
		}
	}
	ci := c.resolveCall(x)
	if ci.fobj == nil {
		trFail(x.Pos(), "call of %s: not a function of the prelude or of a translated package", trSrc(x.Fun))
	}
	full := ci.fobj.FullName()
	if s, ok := c.tspPreludeCall(full, x); ok {
		return s
	}
	switch full {
	case "fmt.Sprintf":
		return c.sprintf(x)
	case "unicode/utf8.DecodeRuneInString":
		return "(Syn.DecodeRuneInString " + c.expr(x.Args[0]) + ")"
	case "unicode.IsLetter", "unicode.IsDigit":
		return "(" + tsFuncPrims[full] + " " + c.expr(x.Args[0]) + ")"
	case "(*strings.Builder).String":
		return "(Syn.Builder.String " + c.expr(ci.sel.X) + ")"
	}
	if _, ok := tsPinned[ci.fobj.Origin().FullName()]; ok && ci.fobj.Name() == "SetRange" && ci.sel == nil {
		return c.setRange(ci, x)
	}
	if ci.tf == nil {
		trFail(x.Pos(), "call of %s, which is neither in the prelude nor in the list of translated functions", full)
	}
	if len(ci.tf.mut) > 0 {
		trFail(x.Pos(), "call of %s (assigns through its receiver) inside an expression is outside the subset", full)
	}
	app := c.appOf(ci, x)
	if ci.tf.effect {
		return c.hoist(app, x.Pos())
	}
	return "(" + app + ")"
}

// directives.SetRange(&x, r): x.Range = r, value x (pinned source)
func (c *tsCtx) setRange(ci tsCallInfo, x *ast.CallExpr) string {
	c.t.checkPinned(ci.fobj.Origin().FullName(), x.Pos())
	c.t.checkPinned("(*"+trKnutPath+"lib/syntax/directives.Range).SetRange", x.Pos())
	u, ok := trUnparen(x.Args[0]).(*ast.UnaryExpr)
	if !ok || u.Op != token.AND {
		trFail(x.Pos(), "directives.SetRange with a first argument that is not &variable is outside the subset")
	}
	lv := c.lvalOf(u.X)
	if lv == nil || len(lv.path) != 0 {
		trFail(x.Pos(), "directives.SetRange with a first argument that is not &variable is outside the subset")
	}
	// the method set of *T must reach SetRange through the embedded field Range
	ty := c.typeOf(u.X)
	st, ok := ty.Underlying().(*types.Struct)
	if !ok {
		trFail(x.Pos(), "directives.SetRange on %s is outside the subset", ty)
	}
	obj, idx, _ := types.LookupFieldOrMethod(types.NewPointer(ty), true, c.fn.pkg.tpkg, "SetRange")
	fo, _ := obj.(*types.Func)
	if fo == nil || fo.FullName() != "(*"+trKnutPath+"lib/syntax/directives.Range).SetRange" || len(idx) != 2 || st.Field(idx[0]).Name() != "Range" {
		trFail(x.Pos(), "SetRange of %s is not the method promoted from its embedded Range: outside the subset", ty)
	}
	r := c.exprAs(x.Args[1], st.Field(idx[0]).Type())
	name := c.names[lv.base]
	c.pre = append(c.pre, tsPre{name: name, typ: c.leanType(ty, x.Pos()), act: "{ " + name + " with Range := " + r + " }", isLet: true})
	return name
}

func (c *tsCtx) builtin(name string, x *ast.CallExpr) string {
	switch name {
	case "len":
		ty := c.typeOf(x.Args[0])
		if isSlice(ty) || tsIsString(ty) {
			return "(len " + c.expr(x.Args[0]) + ")"
		}
		trFail(x.Pos(), "len of %s is outside the subset", ty)
	case "append":
		if x.Ellipsis != token.NoPos {
			trFail(x.Pos(), "append with … is outside the subset")
		}
		st, ok := c.typeOf(x.Args[0]).Underlying().(*types.Slice)
		if !ok {
			trFail(x.Pos(), "append to %s is outside the subset", c.typeOf(x.Args[0]))
		}
		first := c.exprAs(x.Args[0], c.typeOf(x.Args[0])) // Go evaluates the operands from left to right
		var els []string
		for _, a := range x.Args[1:] {
			els = append(els, c.exprAs(a, st.Elem()))
		}
		return "(" + first + " ++ [" + strings.Join(els, ", ") + "])"
	}
	trFail(x.Pos(), "builtin %s in expression position is outside the subset", name)
	return ""
}

// fmt.Sprintf with %s (string), %c (rune), %d (int), %q (string; in the Outcome monad: see Syn.Fmt.q)
func (c *tsCtx) sprintf(x *ast.CallExpr) string {
	tv := c.info().Types[x.Args[0]]
	if tv.Value == nil {
		trFail(x.Pos(), "fmt.Sprintf with a non-constant format is outside the subset")
	}
	format := constant.StringVal(tv.Value)
	var parts []string
	arg := 1
	lit := ""
	flush := func() {
		if lit != "" {
			parts = append(parts, "Syn.lit "+trLeanStr(lit))
			lit = ""
		}
	}
	for i := 0; i < len(format); i++ {
		if format[i] != '%' {
			lit += string(format[i])
			continue
		}
		i++
		if i >= len(format) {
			trFail(x.Pos(), "fmt.Sprintf: format ends in %%")
		}
		if format[i] == '%' {
			lit += "%"
			continue
		}
		if arg >= len(x.Args) {
			trFail(x.Pos(), "fmt.Sprintf: missing operand")
		}
		ty := c.typeOf(x.Args[arg])
		isRune := false
		if b, ok := ty.(*types.Basic); ok && (b.Kind() == types.Int32 || b.Kind() == types.UntypedRune) {
			isRune = true
		}
		flush()
		switch {
		case format[i] == 's' && tsIsString(ty):
			parts = append(parts, "Syn.Fmt.s "+c.expr(x.Args[arg]))
		case format[i] == 'c' && isRune:
			parts = append(parts, "Syn.Fmt.c "+c.expr(x.Args[arg]))
		case format[i] == 'd' && tsIsIntLike(ty) && !isRune:
			parts = append(parts, "Syn.Fmt.d "+c.expr(x.Args[arg]))
		case format[i] == 'q' && tsIsString(ty):
			parts = append(parts, c.hoist("Syn.Fmt.q "+c.expr(x.Args[arg]), x.Pos()))
		default:
			trFail(x.Args[arg].Pos(), "fmt.Sprintf: verb %%%c with an operand of type %s is outside the subset", format[i], ty)
		}
		arg++
	}
	flush()
	if arg != len(x.Args) {
		trFail(x.Pos(), "fmt.Sprintf: extra operands")
	}
	if len(parts) == 0 {
		return "(Syn.lit \"\")"
	}
	return "(" + strings.Join(parts, " ++ ") + ")"
}
