package main

// Universe files (`knut portfolio weights --universe FILE`) of odd but legal shapes, and universe files the loader has to
// reject as a whole.  The generator knows which class every commodity was put in: the monitors of the streams `universe`
// (the command) and `universe-reader` (performance.LoadUniverse in-process, over readers that deliver the text in odd
// pieces or fail part-way) evaluate the property against the generator's own universe, never against what knut loaded.

import (
	"errors"
	"fmt"
	"io"
	"math"
	"sort"
	"strings"

	"github.com/sboehler/knut/lib/journal/performance"
	"github.com/sboehler/knut/lib/model/commodity"
)

type c20UClass struct {
	Path    string   // "A:B:C"
	Members []string // in file order
}

type c20UFile struct {
	Text     string
	Classes  []c20UClass // what the file declares, in file order
	Invalid  string      // "" = a legal file; otherwise why the loader has to reject it
	Shape    []string    // how the text was laid out (for the finding)
	LongLine int         // bytes of the longest line
	BodyEnd  int         // offset of the document end marker, if there is one, else the length of the text
	Profile  string
}

// sizes around which the file length / line length is placed: the initial and the maximal buffer of a bufio.Scanner,
// page and pipe sizes, and "large"
var c20USizesQuick = []int{1 << 10, 4 << 10, 4 << 10, 9 << 10, 40 << 10, 64 << 10, 64 << 10, 64 << 10, 70 << 10, 130 << 10, 260 << 10}
var c20USizesThorough = []int{1 << 20, 1 << 20, 2<<20 + 100, 5 << 20}

var c20USegs = []string{"Equity", "US", "CH", "Cash", "Foreign", "Near", "Alt", "Metal", "Gold", "Phys", "Bonds", "Gov", "Other", "World",
	"Fixed Income", "Real-Estate", "Länder", "Aktien", "株式", "Ré", "EM", "X1", "x"}

func c20UTarget(r *RNG, thorough bool) int {
	if thorough && r.Chance(1, 8) {
		return Pick(r, c20USizesThorough) + r.Range(-40, 4000)
	}
	if r.Chance(1, 30) {
		return 1<<20 + r.Range(-40, 4000)
	}
	return Pick(r, c20USizesQuick) + r.Range(-40, 2000)
}

// c20UBoundary: a length at or next to one of the buffer sizes
func c20UBoundary(r *RNG, thorough bool) int {
	b := Pick(r, []int{4096, 4096, 65536, 65536, 65536, 65536, 16384, 32768, 131072})
	if thorough && r.Chance(1, 3) {
		b = Pick(r, []int{1 << 20, 1 << 20, 2 << 20})
	} else if r.Chance(1, 30) {
		b = 1 << 20
	}
	return b + r.Range(-3, 3)
}

func c20UQuote(r *RNG, s string, plainOK bool) string {
	k := r.Intn(8)
	if !plainOK && k > 1 {
		k = r.Intn(2)
	}
	switch k {
	case 0:
		return "\"" + s + "\""
	case 1:
		return "'" + s + "'"
	}
	return s
}

func c20UPlainMember(s string) bool {
	switch strings.ToLower(s) {
	case "null", "":
		return false // a plain null is the empty string for the decoder
	}
	return true
}

// c20GenUniverseFile lays out a universe over the commodities `coms` of a journal (each is put into one class or left
// unclassified) and any number of other commodities.
func c20GenUniverseFile(r *RNG, coms []string, thorough bool, invalidOdds int) *c20UFile {
	u := &c20UFile{}
	note := func(format string, a ...any) { u.Shape = append(u.Shape, fmt.Sprintf(format, a...)) }
	profile := Pick(r, []string{"small", "small", "long-list", "long-list", "long-list", "long-list", "big-file", "big-file", "many-classes", "many-classes",
		"long-pad", "long-pad", "long-pad", "one-line-file", "one-line-file"})
	u.Profile = profile
	target := c20UTarget(r, thorough)

	// ---- classes
	nClasses := r.Range(1, 6)
	switch profile {
	case "many-classes":
		nClasses = max(8, target/Pick(r, []int{30, 60, 200}))
	case "big-file", "long-list", "one-line-file":
		nClasses = r.Range(1, 12)
	}
	seenPath := map[string]bool{}
	extra := 0
	for len(u.Classes) < nClasses {
		depth := Pick(r, []int{1, 1, 2, 2, 2, 3, 3, 4, 5, 8, 12})
		if r.Chance(1, 30) {
			depth = r.Range(20, 60)
		}
		segs := make([]string, depth)
		for k := range segs {
			segs[k] = Pick(r, c20USegs)
			if r.Chance(1, 3) || len(u.Classes) > 40 {
				extra++
				segs[k] = fmt.Sprintf("S%d", r.Intn(50+extra))
			}
		}
		p := strings.Join(segs, ":")
		if seenPath[p] {
			continue
		}
		seenPath[p] = true
		u.Classes = append(u.Classes, c20UClass{Path: p})
	}

	// ---- members: the journal's commodities …
	taken := map[string]bool{}
	for _, com := range coms {
		taken[com] = true
	}
	where := make([][]string, nClasses)
	for _, com := range coms {
		if r.Chance(4, 5) {
			k := r.Intn(nClasses)
			if r.Chance(1, 3) {
				k = nClasses - 1 - r.Intn(min(2, nClasses)) // declared late in the file
			}
			where[k] = append(where[k], com)
		}
	}
	// … among other commodities
	fill := 0
	filler := func() string {
		for {
			fill++
			s := fmt.Sprintf("%s%d", Pick(r, []string{"Zq", "F", "W0", "IDX", "É", "Zq"}), fill)
			if r.Chance(1, 5) {
				s += Pick(r, []string{"x", "ABCDEFGHIJ", "é", "0", "Ω9"})
			}
			if !taken[s] {
				taken[s] = true
				return s
			}
		}
	}
	fillers := make([]int, nClasses)
	for k := range fillers {
		fillers[k] = Pick(r, []int{0, 0, 1, 2, 5})
	}
	long := r.Intn(nClasses) // the class with the long list
	switch profile {
	case "long-list":
		fillers[long] = target / 7
	case "big-file", "one-line-file":
		for k := range fillers {
			fillers[k] = target / 7 / nClasses
		}
	}
	for k := range u.Classes {
		ms := make([]string, 0, fillers[k]+len(where[k]))
		for n := 0; n < fillers[k]; n++ {
			ms = append(ms, filler())
		}
		// the journal's commodities at random positions of the list, often first or last
		for _, com := range where[k] {
			pos := r.Intn(len(ms) + 1)
			switch r.Intn(4) {
			case 0:
				pos = 0
			case 1:
				pos = len(ms)
			}
			ms = append(ms, "")
			copy(ms[pos+1:], ms[pos:])
			ms[pos] = com
		}
		u.Classes[k].Members = ms
	}

	// ---- a file the loader has to reject
	badAt, badKind := -1, ""
	if invalidOdds > 0 && r.Chance(1, invalidOdds) {
		badAt = r.Intn(nClasses)
		if r.Chance(1, 2) {
			badAt = nClasses - 1
		}
		kinds := []string{"member-twice", "member-twice", "member-in-two-classes", "member-in-two-classes", "invalid-name", "class-twice",
			"unclosed-list", "tab-indentation", "scalar-for-list", "map-for-list"}
		badKind = Pick(r, kinds)
		if profile == "one-line-file" && badKind == "tab-indentation" {
			badKind = "unclosed-list" // a tab between the entries of a flow mapping is legal
		}
		cl := &u.Classes[badAt]
		switch badKind {
		case "member-twice":
			if len(cl.Members) == 0 {
				cl.Members = append(cl.Members, filler())
			}
			cl.Members = append(cl.Members, Pick(r, cl.Members))
		case "member-in-two-classes":
			var pool []string
			for k := range u.Classes {
				if k != badAt {
					pool = append(pool, u.Classes[k].Members...)
				}
			}
			if len(pool) == 0 {
				badKind = "invalid-name"
				cl.Members = append(cl.Members, "A-B")
			} else {
				cl.Members = append(cl.Members, Pick(r, pool))
			}
		case "invalid-name":
			cl.Members = append(cl.Members, Pick(r, []string{"A-B", "A B", "", "A.B", "~", "A_B", "$"}))
		}
		u.Invalid = fmt.Sprintf("%s (class %d of %d, %q)", badKind, badAt+1, nClasses, c20Clip(cl.Path, 60))
	}

	// ---- layout
	nl := "\n"
	if r.Chance(1, 5) {
		nl = "\r\n"
		note("CRLF line ends")
	}
	var b strings.Builder
	if r.Chance(1, 6) {
		b.WriteString("\ufeff")
		note("byte order mark")
	}
	comment := func() string {
		return "#" + Pick(r, []string{"", " classes", " [not, a, list]", " key: value", "\t", " ---", " ä: [ö]"})
	}
	if r.Chance(1, 6) {
		b.WriteString("%YAML 1.1" + nl + "---" + nl)
		note("%%YAML directive")
	} else if r.Chance(1, 5) {
		b.WriteString("---" + Pick(r, []string{"", " ", " " + comment()}) + nl)
		note("document start marker")
	}
	for k := r.Intn(3) * r.Intn(2); k > 0; k-- {
		b.WriteString(Pick(r, []string{comment(), "", "  ", "  " + comment()}) + nl)
	}

	member := func(s string) string {
		if s == "~" {
			return s
		}
		plain := c20UPlainMember(s) && s != "A B" && s != "$"
		if plain && r.Chance(1, 40) {
			return "!!str " + s
		}
		return c20UQuote(r, s, plain)
	}
	flowList := func(ms []string, wrap int, indent string, closeIt bool) string {
		var f strings.Builder
		f.WriteString("[" + Pick(r, []string{"", "", " ", "  "}))
		sep := Pick(r, []string{", ", ", ", ",", " , ", ",\t", ",  "})
		for k, m := range ms {
			if k > 0 {
				if wrap > 0 && k%wrap == 0 {
					f.WriteString(strings.TrimRight(sep, " \t"))
					if r.Chance(1, 10) {
						f.WriteString(" " + comment())
					}
					f.WriteString(nl + indent)
				} else {
					f.WriteString(sep)
				}
			}
			f.WriteString(member(m))
		}
		if len(ms) > 0 && r.Chance(1, 8) {
			f.WriteString(",")
		}
		if closeIt {
			f.WriteString(Pick(r, []string{"", "", " "}) + "]")
		}
		return f.String()
	}
	padTo := func(line string, n int, ch string) string {
		if len(line) >= n {
			return line
		}
		return line + strings.Repeat(ch, n-len(line))
	}

	padAt, padKind, padLen := -1, "", 0
	if profile == "long-pad" {
		padAt = r.Intn(nClasses + 1)
		padKind = Pick(r, []string{"comment-line", "comment-line", "blank-line", "trailing-blanks", "trailing-comment", "blanks-after-colon"})
		padLen = c20UBoundary(r, thorough)
		if r.Chance(1, 3) {
			padLen = target
		}
		note("%s of %d bytes before class %d of %d", padKind, padLen, padAt+1, nClasses)
	}
	padLine := func() {
		switch padKind {
		case "comment-line":
			b.WriteString(padTo("# ", padLen, "x") + nl)
		case "blank-line":
			b.WriteString(strings.Repeat(" ", padLen) + nl)
		}
	}

	if profile == "one-line-file" {
		// the whole universe as one flow mapping
		wrapAll := r.Chance(1, 3)
		note("flow mapping, wrapped=%v", wrapAll)
		b.WriteString("{" + Pick(r, []string{"", " "}))
		for k, cl := range u.Classes {
			if k > 0 {
				b.WriteString(",")
				if wrapAll {
					b.WriteString(nl + "  ")
				} else {
					b.WriteString(" ")
				}
			}
			b.WriteString(c20UQuote(r, cl.Path, false) + ": ")
			switch {
			case k == badAt && badKind == "scalar-for-list":
				b.WriteString("X")
			case k == badAt && badKind == "map-for-list":
				b.WriteString("{Sub: [X]}")
			case k == badAt && badKind == "class-twice":
				b.WriteString(flowList(cl.Members, 0, "", true) + ", " + c20UQuote(r, cl.Path, false) + ": []")
			default:
				b.WriteString(flowList(cl.Members, 0, "", !(k == badAt && badKind == "unclosed-list")))
			}
		}
		b.WriteString("}")
		if r.Chance(4, 5) {
			b.WriteString(nl)
		}
	} else {
		for k, cl := range u.Classes {
			if k == padAt {
				padLine()
			}
			for n := r.Intn(3) * r.Intn(2) * r.Intn(2); n > 0; n-- {
				b.WriteString(Pick(r, []string{comment(), "", "   ", " " + comment()}) + nl)
			}
			explicit := r.Chance(1, 10) || len(cl.Path) > 900
			key := c20UQuote(r, cl.Path, true)
			if explicit {
				key = "? " + key + nl
			}
			colon := ":" + Pick(r, []string{" ", " ", " ", "  ", "\t", " \t"})
			if explicit {
				colon = ":" + Pick(r, []string{" ", "  "}) // (the decoder rejects a tab after the colon of an explicit key)
			}
			if k == padAt && padKind == "blanks-after-colon" {
				colon = ":" + strings.Repeat(" ", max(1, padLen-len(key)-1))
			}
			deco := ""
			if r.Chance(1, 12) {
				deco = fmt.Sprintf("&a%d ", k)
			}
			if r.Chance(1, 20) {
				deco += "!!seq "
			}
			style := Pick(r, []string{"flow", "flow", "flow", "wrapped", "block", "block"})
			switch {
			case k == badAt && badKind == "tab-indentation":
				style = "block"
			case k == badAt && badKind == "unclosed-list":
				style = Pick(r, []string{"flow", "wrapped"})
			case k == long && profile == "long-list":
				style = "flow"
			case profile == "big-file" && style == "flow":
				style = "wrapped"
			case k == padAt && padKind == "blanks-after-colon":
				style = "flow"
			case len(cl.Members) > 200 && profile != "long-list" && style == "flow":
				style = "wrapped"
			}
			var entry string
			switch {
			case k == badAt && badKind == "scalar-for-list":
				entry = key + colon + "X"
			case k == badAt && badKind == "map-for-list":
				entry = key + ":" + nl + "  Sub: [X]"
			case len(cl.Members) == 0 && !(k == badAt && badKind == "unclosed-list"):
				entry = key + colon + strings.Replace(deco, "!!seq ", "", 1) + Pick(r, []string{"[]", "[ ]", "[]", "~", ""})
				if strings.HasSuffix(entry, "\t") || strings.HasSuffix(entry, " ") {
					entry = strings.TrimRight(entry, " \t")
				}
			case style == "flow":
				entry = key + colon + deco + flowList(cl.Members, 0, "", !(k == badAt && badKind == "unclosed-list"))
			case style == "wrapped":
				ind := strings.Repeat(" ", r.Range(1, 6))
				wrap := Pick(r, []int{1, 3, 8, 8, 20})
				head := key + colon + deco
				if r.Chance(1, 4) {
					head = key + ":" + nl + ind + deco
				}
				entry = head + flowList(cl.Members, wrap, ind, !(k == badAt && badKind == "unclosed-list"))
			default:
				ind := strings.Repeat(" ", Pick(r, []int{0, 1, 2, 2, 4}))
				var e strings.Builder
				e.WriteString(key + ":")
				if deco != "" {
					e.WriteString(" " + strings.TrimRight(deco, " "))
				}
				for n, m := range cl.Members {
					e.WriteString(nl)
					if k == badAt && badKind == "tab-indentation" && n == len(cl.Members)/2 {
						e.WriteString("\t")
					} else {
						e.WriteString(ind)
					}
					e.WriteString("-" + Pick(r, []string{" ", " ", "  ", "   "}) + member(m)) // (the decoder rejects a tab after the dash)
					if r.Chance(1, 12) {
						e.WriteString(" " + comment())
					}
				}
				entry = e.String()
			}
			if k == badAt && badKind == "tab-indentation" && len(cl.Members) == 0 {
				entry = key + ":" + nl + "\t- " + filler()
			}
			if k == padAt && (padKind == "trailing-blanks" || padKind == "trailing-comment") {
				last := entry[strings.LastIndex(entry, "\n")+1:]
				if padKind == "trailing-comment" {
					entry = entry + " " + padTo("#", padLen-len(last)-1, "c")
				} else {
					entry = padTo(entry, len(entry)+padLen-len(last), " ")
				}
			}
			if r.Chance(1, 15) && !strings.HasSuffix(entry, "~") && !(explicit && strings.HasSuffix(entry, ":")) {
				entry += Pick(r, []string{" ", "\t", "   ", " " + comment()})
			}
			b.WriteString(entry)
			if k == badAt && badKind == "class-twice" {
				b.WriteString(nl + c20UQuote(r, cl.Path, true) + ": []")
			}
			if k < len(u.Classes)-1 || padAt == nClasses || r.Chance(9, 10) {
				b.WriteString(nl)
			}
		}
		if padAt == nClasses {
			padLine()
		}
		if r.Chance(1, 10) {
			if !strings.HasSuffix(b.String(), "\n") {
				b.WriteString(nl)
			}
			u.BodyEnd = b.Len()
			b.WriteString("..." + nl)
			note("document end marker")
		}
	}
	u.Text = b.String()
	if u.BodyEnd == 0 {
		u.BodyEnd = len(u.Text)
	}
	for _, l := range strings.Split(u.Text, "\n") {
		u.LongLine = max(u.LongLine, len(l))
	}
	members := 0
	for _, cl := range u.Classes {
		members += len(cl.Members)
	}
	note("profile %s: %d classes, %d members, %d bytes, longest line %d bytes", profile, nClasses, members, len(u.Text), u.LongLine)
	return u
}

func c20Clip(s string, n int) string {
	if len(s) > n {
		return strings.ToValidUTF8(s[:n], "") + "…"
	}
	return s
}

// c20UElide shortens a universe text for a finding: long lines keep their ends, long files their first and last lines.
func c20UElide(text string) string {
	if len(text) <= 6000 {
		return text
	}
	lines := strings.SplitAfter(text, "\n")
	short := func(l string) string {
		if len(l) > 400 {
			return fmt.Sprintf("%s…[%d bytes]…%s", strings.ToValidUTF8(l[:150], ""), len(l)-300, strings.ToValidUTF8(l[len(l)-150:], ""))
		}
		return l
	}
	var b strings.Builder
	for k, l := range lines {
		if len(lines) > 50 && k == 25 {
			fmt.Fprintf(&b, "…[%d lines]…\n", len(lines)-50)
		}
		if len(lines) > 50 && k >= 25 && k < len(lines)-25 {
			continue
		}
		b.WriteString(short(l))
	}
	return b.String()
}

func c20USizeClass(n int) string {
	switch {
	case n < 4096:
		return "<4K"
	case n < 65536:
		return "<64K"
	case n < 1<<20:
		return "<1M"
	}
	return ">=1M"
}

// c20ApplyUniverse gives a generated case a generated universe file.
func c20ApplyUniverse(c *Ctx, tc *c20Case) {
	r := c.Rng(tc.Stream+"/file", tc.Idx)
	_, coms := journalNames(tc.J)
	if r.Chance(3, 4) {
		tc.F.Map = nil
	}
	u := c20GenUniverseFile(r, coms, c.Thorough(), 5)
	tc.U = u
	tc.F.UniText = u.Text
	tc.F.Universe = nil
	inJournal := map[string]bool{}
	for _, com := range coms {
		inJournal[com] = true
	}
	for _, cl := range u.Classes {
		x := c20Uni{Class: cl.Path}
		for _, m := range cl.Members {
			if inJournal[m] {
				x.Coms = append(x.Coms, m)
			}
		}
		if len(x.Coms) > 0 {
			tc.F.Universe = append(tc.F.Universe, x)
		}
	}
	if u.Invalid != "" {
		tc.Tags = append(tc.Tags, "universe-invalid")
	}
	tc.Tags = append(tc.Tags, "universe-"+u.Profile, "universe-file"+c20USizeClass(len(u.Text)), "universe-line"+c20USizeClass(u.LongLine))
}

// c20CheckDeclaredGroups evaluates "every group's weight is the sum of its members" against the universe the generator
// wrote: a commodity's place is the class the FILE declares for it (Other when it declares none), a group's members are
// the commodities declared below it.  Without -m only.
func c20CheckDeclaredGroups(c *Ctx, tc *c20Case, in map[string]any, wdates []int, rows []c20Row, paths []string, children func(int) []int, tol float64) {
	declared := map[string]string{} // commodity -> declared path, joined by \x1f
	for _, u := range tc.F.Universe {
		for _, com := range u.Coms {
			declared[com] = strings.Join(append(strings.Split(u.Class, ":"), com), "\x1f")
		}
	}
	place := func(com string) string {
		if p, ok := declared[com]; ok {
			return p
		}
		return "Other\x1f" + com
	}
	_, coms := journalNames(tc.J)
	// only when no declared place lies below another one (then a row is either a commodity or a group)
	for _, a := range coms {
		for _, b := range coms {
			if a != b && strings.HasPrefix(place(b), place(a)+"\x1f") {
				c.Tag("universe-places-nested")
				return
			}
		}
	}
	var bad []string
	leafAt := map[string]int{} // declared place -> row
	for i := range rows {
		if len(children(i)) > 0 {
			continue
		}
		want := place(rows[i].Name)
		if paths[i] != want {
			bad = append(bad, fmt.Sprintf("%s is reported at %s, the universe file puts it at %s", rows[i].Name,
				c20Clip(strings.ReplaceAll(paths[i], "\x1f", ":"), 200), c20Clip(strings.ReplaceAll(want, "\x1f", ":"), 200)))
		}
		leafAt[want] = i
	}
	for i := range rows {
		if len(children(i)) == 0 {
			continue
		}
		for k := range wdates {
			sum, n := 0.0, 0
			for _, com := range coms {
				if li, ok := leafAt[place(com)]; ok && rows[li].Name == com && strings.HasPrefix(place(com), paths[i]+"\x1f") {
					sum += c20Cell(rows[li].Cells[k])
					n++
				}
			}
			if math.Abs(sum-c20Cell(rows[i].Cells[k])) > tol*float64(n+1) {
				bad = append(bad, fmt.Sprintf("group %s on %s: %s, the members the universe file declares sum to %f", c20Clip(strings.ReplaceAll(paths[i], "\x1f", ":"), 200),
					fmtDate(wdates[k]), rows[i].Cells[k], sum))
			}
		}
	}
	if len(bad) > 6 {
		bad = append(bad[:6], fmt.Sprintf("… %d more", len(bad)-6))
	}
	c.Tag("declared-groups-checked")
	c.Monitor(tc.Stream, tc.Idx, "group_weight_is_sum_of_declared_members", in, len(bad) == 0, strings.Join(bad, "; ")+"\n"+tc.WCsv)
}

// ---------------------------------------------------------------- performance.LoadUniverse over odd readers

type c20UReader struct {
	data   []byte
	pos    int
	chunks func() int // size of the next piece
	failAt int        // -1: never; otherwise an offset inside the text: the bytes before it are delivered, the next read fails
	err    error
	eofNow bool // deliver the last piece together with io.EOF
}

func (x *c20UReader) Read(p []byte) (int, error) {
	if len(p) == 0 {
		return 0, nil
	}
	limit := len(x.data)
	if x.failAt >= 0 {
		limit = min(limit, x.failAt) // failAt < len(data): the bytes before it are delivered, then the error
	}
	if x.pos >= limit {
		if x.failAt >= 0 {
			return 0, x.err
		}
		return 0, io.EOF
	}
	n := min(len(p), limit-x.pos, max(1, x.chunks()))
	copy(p, x.data[x.pos:x.pos+n])
	x.pos += n
	if x.pos == len(x.data) && x.eofNow && x.failAt < 0 {
		return n, io.EOF
	}
	return n, nil
}

type c20URCase struct {
	idx  int
	u    *c20UFile
	kind string
	desc string
	in   map[string]any
	reg  *commodity.Registry
	got  performance.Universe
	err  error
	pan  any
}

func runC20UniverseReader(c *Ctx, n int) {
	for a := 0; a < n; a += 400 { // in portions: the texts are large
		runC20UniverseReaderRange(c, a, min(a+400, n))
	}
}

func runC20UniverseReaderRange(c *Ctx, lo, hi int) {
	const stream = "universe-reader"
	var cases []*c20URCase
	for i := lo; i < hi; i++ {
		if c.Want(stream, i) {
			cases = append(cases, &c20URCase{idx: i})
		}
	}
	parallelFor(len(cases), 16, func(k int) {
		x := cases[k]
		i := x.idx
		r := c.Rng(stream, i)
		var coms []string
		for k := r.Range(1, 6); k > 0; k-- {
			coms = append(coms, Pick(r, []string{"CHF", "USD", "EUR", "AAPL", "BND", "GLD", "MSFT", "VT", "ÖL", "X9"}))
		}
		sort.Strings(coms)
		coms = c20UniqStrings(coms)
		u := c20GenUniverseFile(r, coms, c.Thorough(), 6)
		rd := &c20UReader{data: []byte(u.Text), failAt: -1}
		kind := Pick(r, []string{"whole", "pieces", "pieces", "one-byte", "eof-with-data", "fails", "fails", "fails", "fails"})
		if len(u.Text) > 300000 && kind == "one-byte" {
			kind = "pieces"
		}
		piece := Pick(r, []int{1, 7, 512, 4096, 4096, 65536})
		switch kind {
		case "whole":
			rd.chunks = func() int { return 1 << 30 }
		case "one-byte":
			rd.chunks = func() int { return 1 }
		case "eof-with-data":
			rd.chunks = func() int { return 1 << 30 }
			rd.eofNow = true
		default:
			rr := c.Rng(stream+"/pieces", i)
			rd.chunks = func() int { return 1 + rr.Intn(piece) }
			rd.eofNow = r.Chance(1, 4)
		}
		desc := kind
		if kind == "fails" {
			rd.err = errors.New("input/output error")
			if r.Chance(1, 6) {
				rd.err = io.ErrUnexpectedEOF
			}
			// somewhere before the end of the document (what follows a document end marker need not be read)
			end := u.BodyEnd
			switch r.Intn(5) {
			case 0:
				rd.failAt = r.Intn(min(end, 100))
			case 1:
				rd.failAt = end - 1 - r.Intn(min(end, 100))
			case 2:
				rd.failAt = min(end-1, Pick(r, []int{4096, 4097, 8192, 65536, 65537})+r.Range(-2, 2))
			default:
				rd.failAt = r.Intn(end)
			}
			desc = fmt.Sprintf("fails with %q once %d of %d bytes are delivered", rd.err.Error(), rd.failAt, len(u.Text))
		}
		x.u, x.kind, x.desc = u, kind, desc
		x.in = map[string]any{"universe": c20UElide(u.Text), "universe_bytes": len(u.Text), "universe_longest_line": u.LongLine, "universe_shape": u.Shape,
			"universe_must_be_rejected": u.Invalid, "reader": desc, "reader_piece_bytes_up_to": piece}
		x.reg = commodity.NewCommodities()
		func() {
			defer func() {
				if p := recover(); p != nil {
					x.pan, x.err = p, fmt.Errorf("panic: %v", p)
				}
			}()
			x.got, x.err = performance.LoadUniverse(x.reg, rd)
		}()
	})
	for _, x := range cases {
		i, u, kind, in, got, err := x.idx, x.u, x.kind, x.in, x.got, x.err
		c.Evals++
		c.Class(fmt.Sprintf("c20/%s/%s/%s/file%s/line%s/invalid=%v", stream, kind, u.Profile, c20USizeClass(len(u.Text)), c20USizeClass(u.LongLine), u.Invalid != ""))
		if x.pan != nil {
			c.Monitor(stream, i, "universe_loader_does_not_panic", in, false, fmt.Sprint(x.pan))
			continue
		}
		mustReject := u.Invalid != "" || kind == "fails"
		if err != nil {
			// a legal file over a reader that delivers all of it has to load (correspondence with the file's own meaning)
			if !mustReject {
				c.Compare(stream, i, "universe-load", in, "error: "+err.Error(), "ok")
			} else {
				c.Monitor(stream, i, "universe_is_the_whole_file_or_rejected", in, true, "")
			}
			continue
		}
		// accepted: then it is the universe the file declares, all of it
		var bad []string
		why := ""
		if u.Invalid != "" {
			why = "the file has to be rejected: " + u.Invalid
		} else if kind == "fails" {
			why = "the reader " + x.desc
		}
		if why != "" {
			bad = append(bad, "loaded without an error although "+why)
		}
		nDecl := 0
		for _, cl := range u.Classes {
			for _, m := range cl.Members {
				nDecl++
				com, gerr := x.reg.Get(m)
				if gerr != nil {
					continue
				}
				want := strings.Join(append(strings.Split(cl.Path, ":"), m), ":")
				if have := strings.Join(got.Locate(com), ":"); have != want && len(bad) < 6 {
					bad = append(bad, fmt.Sprintf("%s is located at %s, the file puts it at %s", m, c20Clip(have, 200), c20Clip(want, 200)))
				}
			}
		}
		if u.Invalid == "" && len(got) != nDecl {
			bad = append(bad, fmt.Sprintf("the file classifies %d commodities, the loaded universe %d", nDecl, len(got)))
		}
		if !mustReject {
			c.Compare(stream, i, "universe-load", in, "ok", "ok")
		}
		c.Monitor(stream, i, "universe_is_the_whole_file_or_rejected", in, len(bad) == 0, strings.Join(bad, "; "))
		x.got, x.reg, x.u = nil, nil, nil
	}
}

func c20UniqStrings(xs []string) []string {
	var out []string
	for k, x := range xs {
		if k == 0 || x != xs[k-1] {
			out = append(out, x)
		}
	}
	return out
}
