import Knut.Proofs.BeancountLifecycle
/-!
# C16 — transcode emits a balanced, self-consistent beancount ledger

`Beancount.transcodeEntries v days` is the entry list `knut transcode -v v` writes for the built journal `days`
(model of `Sort, ComputePrices, check, Valuate` followed by `beancount.Transcode`); `Beancount.render` is its text,
compared byte for byte with the real command on every run.  The predicates (`BeancountSpec`) are the ones the
harness evaluates on the entries it reads from the REAL output.

All theorems hold for **every** journal and **every** valuation commodity for which the command succeeds
("accepted journals with sufficient prices"): no bound on days, transactions, accounts or amounts.

* `C16_balanced`             – every emitted transaction sums to exactly zero in the valuation commodity;
* `C16_chronological`        – entry dates never decrease;
* `C16_open_before_use_partial` – every account used by a posting is open on the day of use (an open on or before
                               that day which no close before that day follows), EXCEPT the generated valuation
                               account of a value adjustment (see the comment at the theorem: the full statement
                               is false on the code; `C16_valuation_account_not_opened` is the witness);
* `C16_openOn_meaning`, `C16_not_after_close` – what "open on the day of use" says in terms of open/close entries;
* `C16_tx_bijection`         – the emitted transactions are a permutation of the valued transactions of the
                               processed journal (no loss, no duplication);
* `C16_valued_transactions`  – and those are, per day, the user's transactions (valued, otherwise unchanged)
                               followed by one value adjustment per re-priced open position.
-/
namespace Knut.C16
open Knut Knut.Beancount Knut.BeancountSpec

/-- days as the journal builder produces them: sorted by date, every directive filed under its own date -/
structure WFDays (days : List Day) : Prop where
  sorted : Sorted days
  dates : ∀ d ∈ days, DayDates d

/-- days all of whose transactions are made of posting pairs (everything the loader produces) -/
def PairedDays (days : List Day) : Prop := ∀ d ∈ days, ∀ t ∈ d.transactions, TxPaired t

/-- what `journal.Builder` makes of any list of directives is well-formed in this sense -/
theorem wf_ofList (ds : List Directive) : WFDays (Builder.ofList ds).build :=
  ⟨(ofList_spec openKind ds).1, ofList_dayDates ds⟩

/-- the processed days behind a successful run -/
theorem entries_of_ok {v : Commodity} {days : List Day} {es : List BEntry} (h : transcodeEntries v days = .ok es) :
    ∃ pds, process v days = .ok pds ∧ es = entries pds := by
  unfold transcodeEntries at h
  cases hpr : process v days with
  | error e => rw [hpr] at h; cases h
  | ok pds =>
    rw [hpr] at h; simp only [Except.map] at h
    injection h with h
    exact ⟨pds, rfl, h.symm⟩

/-- **balanced**: the postings of every emitted transaction sum to exactly zero in the valuation commodity -/
theorem C16_balanced (v : Commodity) (days : List Day) (hp : PairedDays days) (es : List BEntry)
    (h : transcodeEntries v days = .ok es) : balanced es = true := by
  obtain ⟨pds, hpr, rfl⟩ := entries_of_ok h
  unfold balanced entries
  rw [txsOf_entriesFrom, List.all_eq_true]
  intro t ht
  obtain ⟨pd, hpd, ht⟩ := List.mem_flatMap.mp ht
  have := processFrom_paired days {} pds hp hpr pd hpd t ((mem_sortTxs _ _).mp ht)
  exact decide_eq_true (sum_values_paired this)

/-- **chronological**: entries appear in date order -/
theorem C16_chronological (v : Commodity) (days : List Day) (hw : WFDays days) (es : List BEntry)
    (h : transcodeEntries v days = .ok es) : chronological es = true := by
  obtain ⟨pds, hpr, rfl⟩ := entries_of_ok h
  have hP := processFrom_processed days {} pds hpr
  exact chronological_of_pairwise _
    (entriesFrom_pairwise pds (processed_sorted hP hw.sorted) (processed_dates hP hw.dates) [])

/-- what `openOn` says: an open of the account on or before the day, and no close of the account from that open up to
(excluding) the day -/
theorem C16_openOn_meaning (es : List BEntry) (a : Account) (D : Int) :
    openOn es a D = true ↔
      ∃ o ∈ opensOf es, o.account = a ∧ o.date ≤ D ∧ ∀ c ∈ closesOf es, c.account = a → o.date ≤ c.date → ¬ c.date < D :=
  openOnL_iff _ _ _ _

/-- **not used after its close**: if an account open on day `D` was closed before `D`, it was opened again after that close -/
theorem C16_not_after_close (es : List BEntry) (a : Account) (D : Int) (h : openOn es a D = true)
    (c : Close) (hc : c ∈ closesOf es) (hca : c.account = a) (hcd : c.date < D) :
    ∃ o ∈ opensOf es, o.account = a ∧ c.date < o.date ∧ o.date ≤ D := by
  obtain ⟨o, ho, hoa, hod, hcl⟩ := (C16_openOn_meaning es a D).mp h
  refine ⟨o, ho, hoa, ?_, hod⟩
  apply Classical.byContradiction
  intro hn
  exact hcl c hc hca (by omega) hcd

/-- **open before use / not used after close** — PARTIAL.

Full statement of the property clause: `transcodeEntries v days = .ok es → lifecycleOK es = true`
(every account used by a posting has an open directive dated on or before its use and is not used after its close).
It is FALSE on the code: `Valuate` books value adjustments against generated `Income:<path>` accounts, while
`beancount.Transcode` synthesises opens only for account names starting with `Equity:Valuation:`
(`C16_valuation_account_not_opened` below; known finding `valuation-account-not-opened`).

Proved for all journals: every use of an account that is not open on the day of use is the generated valuation
account of a value adjustment. In particular every account the user books on, and the asset/liability side of every
value adjustment, is open on the day of use. -/
theorem C16_open_before_use_partial (v : Commodity) (days : List Day) (hw : WFDays days) (es : List BEntry)
    (h : transcodeEntries v days = .ok es) : lifecycleOKExceptValuation es = true := by
  obtain ⟨pds, hpr, rfl⟩ := entries_of_ok h
  have hP := processFrom_processed days {} pds hpr
  obtain ⟨_, fo, fc⟩ := processed_fields hP
  -- the environment of the whole journal
  let lo : Int := match days with | [] => 0 | d :: _ => d.date
  have env : Env (days.flatMap (·.openings)) (days.flatMap (·.closings)) lo days := by
    refine ⟨fun d hd o ho => List.mem_flatMap.mpr ⟨d, hd, ho⟩, ?_, ?_, hw.sorted, hw.dates⟩
    · intro c hc
      obtain ⟨d, hd, hcd⟩ := List.mem_flatMap.mp hc
      exact Or.inr ⟨d, hd, hcd⟩
    · intro d hd
      cases days with
      | nil => cases hd
      | cons d0 rest =>
        rcases List.mem_cons.mp hd with rfl | hd
        · exact Int.le_refl _
        · have := (List.pairwise_cons.mp hw.sorted).1 d hd
          show d0.date ≤ d.date
          omega
  have inv : AccInv ({} : BalState).chk.accounts (days.flatMap (·.openings)) (days.flatMap (·.closings)) lo := by
    intro a ha; cases ha
  have hq : QInv {} := ⟨fun _ => rfl, fun _ _ => rfl, List.Pairwise.nil⟩
  have huses := uses_from _ _ days {} pds lo hpr env inv hq
  unfold lifecycleOKExceptValuation unopenedUses
  rw [List.all_eq_true]
  intro u hu
  obtain ⟨t, ht, hu⟩ := List.mem_flatMap.mp hu
  obtain ⟨p, hp, rfl⟩ := List.mem_map.mp hu
  obtain ⟨hp, hnot⟩ := List.mem_filter.mp hp
  unfold entries at ht
  rw [txsOf_entriesFrom] at ht
  obtain ⟨pd, hpd, ht⟩ := List.mem_flatMap.mp ht
  rcases huses pd hpd t ((mem_sortTxs _ _).mp ht) p.account (List.mem_map.mpr ⟨p, hp, rfl⟩) with hopen | hadj
  · -- open in the journal, hence open in the ledger
    exfalso
    have : openOn (entries pds) p.account t.date = true := by
      unfold openOn entries
      rw [closesOf_entriesFrom, fc]
      apply openOnL_mono _ hopen
      intro o ho
      rw [← fo] at ho
      exact opensOf_entriesFrom_sub [] pds o ho
    rw [this] at hnot
    cases hnot
  · exact hadj

/-- **transaction bijection**: the emitted transactions are exactly the transactions of the processed journal
(`Valuate`'s output: the valued user transactions and the value adjustments), each once -/
theorem C16_tx_bijection (v : Commodity) (days : List Day) (es : List BEntry)
    (h : transcodeEntries v days = .ok es) :
    ∃ pds, process v days = .ok pds ∧ (txsOf es).Perm (pds.flatMap (·.transactions)) ∧
      sameTxs (txsOf es) (pds.flatMap (·.transactions)) = true := by
  obtain ⟨pds, hpr, rfl⟩ := entries_of_ok h
  have hperm : (txsOf (entries pds)).Perm (pds.flatMap (·.transactions)) := by
    unfold entries
    rw [txsOf_entriesFrom]
    exact perm_flatMap_congr _ _ _ (fun d _ => sortTxs_perm d.transactions)
  refine ⟨pds, hpr, hperm, ?_⟩
  unfold sameTxs
  rw [List.isPerm_iff]
  exact hperm.map _

/-- **the valued transactions of the journal**: each processed day holds the user's transactions of that day (sorted),
valued at the day's prices and otherwise unchanged (same date, description and posting accounts, as many as the user
wrote), followed by the value adjustments `Valuate` derives from the positions held so far -/
theorem C16_valued_transactions (v : Commodity) (days : List Day) (pds : List ProcDay) (h : process v days = .ok pds) :
    Processed v days pds ∧
    ∀ (d : Day) (pd : ProcDay) (s s' : BalState), processDay v s d = .ok (s', pd) →
      ∃ (user adjs : List Transaction), pd.transactions = user ++ adjs ∧
        user.length = d.transactions.length ∧
        (∀ t' ∈ user, ∃ t ∈ d.transactions, t'.date = t.date ∧ t'.description = t.description ∧
            t'.postings.map (·.account) = t.postings.map (·.account)) ∧
        (∀ t' ∈ adjs, ∃ t, (∃ e ∈ s.vQty, IsAdjOf d.date e t) ∧ t'.date = t.date ∧ t'.description = t.description ∧
            t'.postings.map (·.account) = t.postings.map (·.account)) := by
  refine ⟨processFrom_processed days {} pds h, ?_⟩
  intro d pd s s' hd
  obtain ⟨adj, cur, _, hadj, hm, _⟩ := processDay_parts2 hd
  obtain ⟨r1, r2, h1, h2, h3⟩ := mapM_append_ok _ _ _ _ hm
  refine ⟨r1, r2, h3, ?_, ?_, ?_⟩
  · rw [mapM_length _ _ _ h1]; exact (sortTxs_perm d.transactions).length_eq
  · intro t' ht'
    obtain ⟨t, ht, hv⟩ := mapM_mem _ _ _ h1 t' ht'
    exact ⟨t, (mem_sortTxs _ _).mp ht, valueTx_keeps hv⟩
  · intro t' ht'
    obtain ⟨t, ht, hv⟩ := mapM_mem _ _ _ h2 t' ht'
    exact ⟨t, hadj t ht, valueTx_keeps hv⟩

/-! ### The defect the partial theorem excludes, as a checked witness

The ledger `knut transcode -v CHF` writes for

```
2020-01-01 price USD 0.95 CHF
2020-01-01 open Assets:Bank
2020-01-01 open Equity:E
2020-01-01 "start"
Equity:E Assets:Bank 100 USD
2020-01-02 price USD 0.97 CHF
```

(the harness runs this journal against the real binary on every run and compares the entries read with `witness`). -/

def bank : Account := ⟨["Assets", "Bank"]⟩
def equity : Account := ⟨["Equity", "E"]⟩
def incomeBank : Account := ⟨["Income", "Bank"]⟩

def adjTx : Transaction :=
  { date := 737426, description := "Adjust value of " ++ "USD" ++ " in account " ++ bank.name,
    postings := [{ account := incomeBank, other := bank, commodity := "USD", quantity := 0, value := -2 },
                 { account := bank, other := incomeBank, commodity := "USD", quantity := 0, value := 2 }],
    targets := some ["USD"] }

def witness : List BEntry := [
  .opening ⟨737425, bank⟩,
  .opening ⟨737425, equity⟩,
  .tx { date := 737425, description := "start",
        postings := [{ account := equity, other := bank, commodity := "USD", quantity := -100, value := -95 },
                     { account := bank, other := equity, commodity := "USD", quantity := 100, value := 95 }] },
  .tx adjTx]

/-- the generated valuation account `Income:Bank` is used but never opened: the full clause fails … -/
theorem C16_valuation_account_not_opened : lifecycleOK witness = false ∧ unopenedUses witness = [(adjTx, incomeBank)] := by
  decide

/-- … while what the partial theorem claims holds, and so do the other clauses -/
theorem C16_witness_otherwise_fine :
    lifecycleOKExceptValuation witness = true ∧ balanced witness = true ∧ chronological witness = true := by
  refine ⟨?_, by decide +kernel, by decide⟩
  unfold lifecycleOKExceptValuation
  rw [C16_valuation_account_not_opened.2]
  simp only [List.all_cons, List.all_nil, Bool.and_true]
  unfold adjustmentLeg
  rw [List.any_eq_true]
  refine ⟨{ account := bank, other := incomeBank, commodity := "USD", quantity := 0, value := 2 }, by simp [adjTx], ?_⟩
  simp only [Bool.and_eq_true, decide_eq_true_eq]
  exact ⟨⟨by decide, by decide⟩, adjDesc_built "USD" bank⟩

/-! ### Non-vacuity -/

example : WFDays (Builder.ofList [.opening ⟨3, bank⟩, .tx (Transaction.ofBookings 3 "x" none [⟨equity, bank, 5, "CHF"⟩])]).build :=
  wf_ofList _

example : PairedDays [{ date := 3, transactions := [Transaction.ofBookings 3 "x" none [⟨equity, bank, 5, "CHF"⟩]] }] := by
  intro d hd t ht
  simp at hd; subst hd; simp at ht; subst ht
  exact ofBookings_paired _ _ _ _

/-- a use that IS open: the witness' asset account on the day of the adjustment -/
example : openOn witness bank 737426 = true := by decide

end Knut.C16
