import Knut.Proofs.InferStruct
import Knut.Proofs.SyntaxFormat
/-!
# `infer`'s output is the formatter's output on edited fields (helper lemmas for C15)

`formatWith edit` is `Syntax.format` with the extracted fields passed through `edit` before the padding is computed
and the directives are rendered: with `edit = id` it *is* `Syntax.format` (`formatWith_id`), it fails exactly when
`Syntax.format` fails (`formatWith_isSome`), and its output consists of the same gaps (`formatWith_shape`).
-/
namespace Knut.Infer
open Knut Knut.Syntax Knut.Spec.Syntax

theorem mapM_cons_some {α β : Type} (f : α → Option β) (a : α) (l : List α) (r : List β) :
    (a :: l).mapM f = some r ↔ ∃ b bs, f a = some b ∧ l.mapM f = some bs ∧ r = b :: bs := by
  rw [List.mapM_cons]
  cases f a with
  | none => simp
  | some b =>
    cases l.mapM f with
    | none => simp
    | some bs => simp [eq_comm]

theorem mapM_length {α β : Type} (f : α → Option β) : ∀ (l : List α) (r : List β), l.mapM f = some r → r.length = l.length
  | [], r, h => by simp at h; subst h; rfl
  | a :: l, r, h => by
    obtain ⟨b, bs, _, h2, rfl⟩ := (mapM_cons_some f a l r).mp h
    simp [mapM_length f l bs h2]

/-- the loop of `Printer.Format` is the loop on extracted fields -/
theorem formatLoop_eq (text : Bytes) (padding : Nat) : ∀ (ds : List Directive) (vs : List DirV) (pos : Nat),
    ds.mapM (viewDirective text) = some vs → formatLoop text padding pos ds = formatLoopV text padding pos (ds.zip vs)
  | [], vs, pos, h => by simp at h; subst h; rfl
  | d :: ds, vs, pos, h => by
    obtain ⟨v, vs', h1, h2, rfl⟩ := (mapM_cons_some _ d ds vs).mp h
    simp only [formatLoop, List.zip_cons_cons, formatLoopV, printDirective, h1, Option.map_some]
    rw [formatLoop_eq text padding ds vs' d.range.stop h2]
    cases sliceChecked text pos d.range.start <;> rfl

/-- **with no edit, `formatWith` is the formatter** -/
theorem formatWith_id (text : Bytes) (f : File) : formatWith id text f = format text f := by
  unfold formatWith format initPadding
  cases h : f.directives.mapM (viewDirective text) with
  | none => rfl
  | some vs =>
    simp only [Option.bind_eq_bind, Option.bind_some, Option.map_some, List.map_id]
    rw [formatLoop_eq text _ f.directives vs 0 h]
    rfl

/-- whether the loop succeeds depends on the directive ranges only -/
theorem formatLoopV_isSome (text : Bytes) (p q : Nat) : ∀ (ds : List Directive) (vs ws : List DirV) (pos : Nat),
    vs.length = ds.length → ws.length = ds.length →
    (formatLoopV text p pos (ds.zip vs)).isSome = (formatLoopV text q pos (ds.zip ws)).isSome
  | [], _, _, _, _, _ => by simp [formatLoopV]
  | d :: ds, [], _, _, h, _ => by simp at h
  | d :: ds, _ :: _, [], _, _, h => by simp at h
  | d :: ds, v :: vs, w :: ws, pos, h1, h2 => by
    simp only [List.zip_cons_cons, formatLoopV]
    have := formatLoopV_isSome text p q ds vs ws d.range.stop (by simpa using h1) (by simpa using h2)
    cases sliceChecked text pos d.range.start with
    | none => rfl
    | some gap =>
      simp only [Option.bind_eq_bind, Option.bind_some]
      cases h3 : formatLoopV text p d.range.stop (ds.zip vs) <;> cases h4 : formatLoopV text q d.range.stop (ds.zip ws) <;>
        simp_all

/-- **`infer` reaches a slice-bounds panic exactly when the formatter does on the untouched tree** -/
theorem formatWith_isSome (edit : DirV → DirV) (text : Bytes) (f : File) :
    (formatWith edit text f).isSome = (format text f).isSome := by
  rw [← formatWith_id]
  unfold formatWith
  cases h : f.directives.mapM (viewDirective text) with
  | none => rfl
  | some vs =>
    simp only [Option.bind_eq_bind, Option.bind_some]
    have hl := mapM_length _ _ _ h
    exact formatLoopV_isSome text _ _ f.directives _ _ 0 (by simp [hl]) (by simp [hl])

theorem formatLoopV_shape (text : Bytes) (padding : Nat) : ∀ (ds : List Directive) (ws : List DirV) (pos : Nat) (out : Bytes),
    ws.length = ds.length → formatLoopV text padding pos (ds.zip ws) = some out →
    out = interleave (gapsOf text pos (ds.map (·.range))) (ws.map (renderDir padding))
  | [], ws, pos, out, hl, h => by
    simp only [List.zip_nil_left, formatLoopV] at h
    have := (sliceChecked_eq h).1
    cases ws with
    | nil => simp [gapsOf, interleave, this]
    | cons _ _ => simp at hl
  | d :: ds, [], _, _, hl, _ => by simp at hl
  | d :: ds, w :: ws, pos, out, hl, h => by
    simp only [List.zip_cons_cons, formatLoopV, Option.bind_eq_bind, Option.bind_eq_some_iff, Option.pure_def,
      Option.some.injEq] at h
    obtain ⟨gap, hg, tail, ht, hout⟩ := h
    have := formatLoopV_shape text padding ds ws d.range.stop tail (by simpa using hl) ht
    rw [← hout, this, (sliceChecked_eq hg).1]
    simp [gapsOf, interleave]

/-- **gaps verbatim**: the output of `formatWith edit` is the text between the directives of the input, interleaved with
the renderings of the edited fields, all with the padding the edited fields imply -/
theorem formatWith_shape {edit : DirV → DirV} {text : Bytes} {f : File} {out : Bytes} (h : formatWith edit text f = some out) :
    ∃ vs, f.directives.mapM (viewDirective text) = some vs ∧
      out = interleave (gapsOf text 0 (f.directives.map (·.range))) ((vs.map edit).map (renderDir (paddingOf (vs.map edit)))) := by
  unfold formatWith at h
  cases hv : f.directives.mapM (viewDirective text) with
  | none => simp [hv] at h
  | some vs =>
    simp only [hv, Option.bind_eq_bind, Option.bind_some] at h
    exact ⟨vs, rfl, formatLoopV_shape text _ f.directives _ 0 out (by simp [mapM_length _ _ _ hv]) h⟩

theorem formatWith_congr {e₁ e₂ : DirV → DirV} (h : e₁ = e₂) (text : Bytes) (f : File) :
    formatWith e₁ text f = formatWith e₂ text f := by rw [h]

end Knut.Infer
