import Knut.Properties.C17
import Knut.FactsAgree.TransTable
/-!
# C17 (numbers) on the generated definitions

The number clauses of `Properties/C17.lean` are about the model `Table.numToString`; `FactsAgree/TransTable.lean` proves the
functions translated from `/repo`'s `lib/common/table/table.go` — `TextRenderer.numToString` (`Shift(-3)`, `StringFixed(r.Round)`) and
`addThousandsSep` (a byte-indexed `range` over the string with `break`, `strings.Builder`, `e[i:]`, `strings.Index`,
`unicode.IsDigit`) — equal to it.  This module composes them: every clause is stated about the text `s` that
`Go.table.TextRenderer.numToString tr d` returns, for every renderer value `tr` (any `Round : int`, `Thousands` on and off; the fields
`table` and `Color` are not read) and every amount `d`.  No hypothesis stays: `numToString_total` shows that the translated function
never panics (no slice bound in `e[i:]`, no cut inside a UTF-8 sequence) and never runs out of fuel.

The layout clauses of C17 (`C17_rectangular`, `C17_separators_aligned`, …) are about `TextRenderer.Render`, `renderCell` and
`minLengthCell`, which are not translated (a type switch on an interface, `io.Writer`): they stay tied by the differential runs only.
-/
namespace Knut.C17Go
open Knut Knut.Dec Knut.Table Knut.Table.Spec
open Knut.Generated.Go
open Knut.FactsAgree.TransTable

/-- the two fields of the Go renderer that `numToString` reads -/
def rOf (tr : table.TextRenderer) : Renderer := ⟨tr.Thousands, tr.Round⟩

/-- **the bridge** -/
theorem numToString_ok (tr : table.TextRenderer) (d : Rat) :
    table.TextRenderer.numToString tr d = GoSem.Outcome.ok (String.ofList (numToString (rOf tr) d)) :=
  numToString_agrees tr d

/-- the translated `numToString` returns a text for every renderer and every amount: no panic, no `outOfFuel` -/
theorem numToString_total (tr : table.TextRenderer) (d : Rat) :
    ∃ s, table.TextRenderer.numToString tr d = GoSem.Outcome.ok s := ⟨_, numToString_ok tr d⟩

theorem text_eq {tr : table.TextRenderer} {d : Rat} {s : String}
    (h : table.TextRenderer.numToString tr d = GoSem.Outcome.ok s) : s.toList = numToString (rOf tr) d := by
  rw [numToString_ok] at h
  injection h with h
  rw [← h, String.toList_ofList]

/-- **numeric value**: without the separators the text reads as the amount — divided by 1000 EXACTLY with `--thousands` — rounded
half away from zero to `Round` digits -/
theorem C17_num_value_go {tr : table.TextRenderer} {d : Rat} {s : String}
    (h : table.TextRenderer.numToString tr d = GoSem.Outcome.ok s) :
    parseDec (String.ofList (stripCommas s.toList))
      = some (roundPlaces tr.Round (if tr.Thousands then d / 1000 else d)) := by
  rw [text_eq h]
  exact C17.C17_num_value_exact_all (rOf tr) d

/-- **minus sign**: the text starts with `-` exactly when the displayed (rounded) value is negative -/
theorem C17_sign_go {tr : table.TextRenderer} {d : Rat} {s : String}
    (h : table.TextRenderer.numToString tr d = GoSem.Outcome.ok s) :
    s.toList.head? = some '-' ↔ roundPlaces tr.Round (if tr.Thousands then d / 1000 else d) < 0 := by
  rw [text_eq h]
  exact C17.C17_sign (rOf tr) d

/-- **negative amounts**: a negative amount is displayed with a minus sign, or (when it rounds to zero) as an unsigned zero -/
theorem C17_negative_minus_or_zero_go {tr : table.TextRenderer} {d : Rat} {s : String}
    (h : table.TextRenderer.numToString tr d = GoSem.Outcome.ok s) (hd : d < 0) :
    s.toList.head? = some '-' ∨ roundPlaces tr.Round (if tr.Thousands then d / 1000 else d) = 0 := by
  rw [text_eq h]
  exact C17.C17_negative_minus_or_zero (rOf tr) d hd

/-- **grouping**: the integer part is the digit string with a comma before every group of three, the fraction has digits only … -/
theorem C17_grouping_go {tr : table.TextRenderer} {d : Rat} {s : String}
    (h : table.TextRenderer.numToString tr d = GoSem.Outcome.ok s) : groupedOK s.toList = true := by
  rw [text_eq h]
  exact C17.C17_grouping (rOf tr) d

/-- … and exactly `Round` of them (none, and no point, for `Round ≤ 0`) -/
theorem C17_fraction_digits_go {tr : table.TextRenderer} {d : Rat} {s : String}
    (h : table.TextRenderer.numToString tr d = GoSem.Outcome.ok s) : fracOK tr.Round s.toList = true := by
  rw [text_eq h]
  exact C17.C17_fraction_digits (rOf tr) d

/-- the separators are commas only: removing them gives back `StringFixed` verbatim -/
theorem C17_only_commas_inserted_go {tr : table.TextRenderer} {d : Rat} {s : String}
    (h : table.TextRenderer.numToString tr d = GoSem.Outcome.ok s) :
    String.ofList (stripCommas s.toList) = showFixed tr.Round (if tr.Thousands then d / 1000 else d) := by
  rw [text_eq h]
  exact C17.C17_only_commas_inserted (rOf tr) d

/-- all four number clauses as the one predicate the monitor evaluates per numeric cell, on the text of the translated function -/
theorem C17_num_shown_go {tr : table.TextRenderer} {d : Rat} {s : String}
    (h : table.TextRenderer.numToString tr d = GoSem.Outcome.ok s) :
    numShownAs tr.Round (roundPlaces tr.Round (if tr.Thousands then d / 1000 else d)) s.toList = true := by
  rw [text_eq h]
  exact C17.C17_num_shown (rOf tr) d

/-- `addThousandsSep` on its own: on every text `StringFixed` can produce it returns (no panic) a text that differs by commas only -/
theorem C17_addThousandsSep_go (p : Int) (x : Rat) :
    ∃ s, table.addThousandsSep (GoSem.Decimal.StringFixed x p) = GoSem.Outcome.ok s ∧
      String.ofList (stripCommas s.toList) = showFixed p x := by
  have := addThousandsSep_agrees (Dec.showFixed p x).toList (showFixed_ascii _ _)
  rw [String.ofList_toList] at this
  refine ⟨_, this, ?_⟩
  rw [String.toList_ofList]
  have := C17.C17_only_commas_inserted ⟨false, p⟩ x
  simpa [numToString, scaled] using this

/-! ### Non-vacuity: the translated function on −1234567.895 with two digits, and with `--thousands` -/
example : ∃ s, table.TextRenderer.numToString ⟨GoSem.GoZero.zero, false, false, 2⟩ (mkRat (-1234567895) 1000) = GoSem.Outcome.ok s ∧
    s = "-1,234,567.90" := by
  refine ⟨_, numToString_ok _ _, ?_⟩
  decide +kernel
example : ∃ s, table.TextRenderer.numToString ⟨GoSem.GoZero.zero, false, true, 2⟩ (mkRat (-1234567895) 1000) = GoSem.Outcome.ok s ∧
    s = "-1,234.57" := by
  refine ⟨_, numToString_ok _ _, ?_⟩
  decide +kernel

end Knut.C17Go
