import Knut.Spec.Lifecycle
import Knut.Proofs.Sim

namespace List
/-- pointwise relation of two lists (core has no `List.Forall₂`; same definition as Mathlib's) -/
inductive Forall₂ {α β : Type} (R : α → β → Prop) : List α → List β → Prop
  | nil : Forall₂ R [] []
  | cons {a b l₁ l₂} : R a b → Forall₂ R l₁ l₂ → Forall₂ R (a :: l₁) (b :: l₂)
end List

namespace Knut.Spec
open Knut

/-! ### Generic: folds of commuting steps over permuted lists -/

/-- outcomes agree up to `R`; the error values are ignored -/
abbrev PSim {σ ε : Type} (R : σ → σ → Prop) (x y : Except ε σ) : Prop := Sim R (fun _ _ => True) x y

theorem psim_trans {σ ε : Type} {R : σ → σ → Prop} (ht : ∀ a b c, R a b → R b c → R a c)
    {x y z : Except ε σ} (h1 : PSim R x y) (h2 : PSim R y z) : PSim R x z := by
  cases x <;> cases y <;> cases z <;> simp only [PSim, Sim] at h1 h2 ⊢
  exact ht _ _ _ h1 h2

theorem psim_isOk {σ ε : Type} {R : σ → σ → Prop} {x y : Except ε σ} (h : PSim R x y) : x.isOk = y.isOk := by
  cases x <;> cases y <;> simp only [PSim, Sim] at h <;> rfl

theorem foldlM_perm_sim {α σ ε : Type} (R : σ → σ → Prop)
    (hr : ∀ a, R a a) (ht : ∀ a b c, R a b → R b c → R a c)
    (f : σ → α → Except ε σ)
    (hresp : ∀ s s' x, R s s' → PSim R (f s x) (f s' x))
    (hcomm : ∀ s x y, PSim R (f s x >>= fun s1 => f s1 y) (f s y >>= fun s1 => f s1 x))
    {l l' : List α} (hp : l.Perm l') : ∀ s s', R s s' → PSim R (l.foldlM f s) (l'.foldlM f s') := by
  induction hp with
  | nil => intro s s' h; exact h
  | cons x _ ih =>
    intro s s' h
    simp only [List.foldlM_cons]
    exact bind_sim (hresp s s' x h) ih
  | swap x y l =>
    intro s s' h
    simp only [List.foldlM_cons, ← bind_assoc]
    refine bind_sim (R := R) ?_ (foldlM_sim R _ f f l (fun s t x _ h => hresp s t x h))
    exact psim_trans ht (hcomm s y x) (bind_sim (hresp s s' x h) (fun a b h => hresp a b y h))
  | trans _ _ ih1 ih2 =>
    intro s s' h
    exact psim_trans ht (ih1 s s' h) (ih2 s' s' (hr s'))

/-! ### State equivalence -/

/-- same set of open accounts, same multiset of logged postings -/
def LEquiv (s s' : LState) : Prop := (∀ a, a ∈ s.opened ↔ a ∈ s'.opened) ∧ s.log.Perm s'.log

theorem LEquiv.refl (s : LState) : LEquiv s s := ⟨fun _ => Iff.rfl, List.Perm.refl _⟩
theorem LEquiv.trans (a b c : LState) (h1 : LEquiv a b) (h2 : LEquiv b c) : LEquiv a c :=
  ⟨fun x => (h1.1 x).trans (h2.1 x), h1.2.trans h2.2⟩

theorem contains_congr {l l' : List Account} (h : ∀ a, a ∈ l ↔ a ∈ l') (x : Account) : l.contains x = l'.contains x := by
  rw [Bool.eq_iff_iff, List.contains_iff_mem, List.contains_iff_mem]; exact h x

theorem sum_perm : ∀ {l l' : List Rat}, l.Perm l' → l.sum = l'.sum := by
  intro l l' h
  induction h with
  | nil => rfl
  | cons x _ ih => simp only [List.sum_cons, ih]
  | swap x y l => simp only [List.sum_cons, ← Rat.add_assoc, Rat.add_comm x y]
  | trans _ _ ih1 ih2 => exact ih1.trans ih2

theorem qtyOf_perm {log log' : List Posting} (h : log.Perm log') (a : Account) (c : Commodity) :
    qtyOf log a c = qtyOf log' a c := by
  unfold qtyOf
  exact sum_perm ((h.filter _).map _)

theorem allZero_perm {log log' : List Posting} (h : log.Perm log') (a : Account) :
    allZero log a = allZero log' a := by
  unfold allZero
  have : (fun p : Posting => decide (qtyOf log a p.commodity = 0)) = (fun p => decide (qtyOf log' a p.commodity = 0)) := by
    funext p; rw [qtyOf_perm h]
  rw [this]
  exact (h.filter _).all_eq

/-! ### Every step respects the equivalence -/

theorem stepOpen_resp (s s' : LState) (o : Open) (h : LEquiv s s') : PSim LEquiv (stepOpen s o) (stepOpen s' o) := by
  unfold stepOpen
  rw [contains_congr h.1]
  split
  · trivial
  · refine ⟨?_, h.2⟩
    intro a; simp only [List.mem_cons, h.1 a]

theorem stepPosting_resp (t : Transaction) (s s' : LState) (p : Posting) (h : LEquiv s s') :
    PSim LEquiv (stepPosting s t p) (stepPosting s' t p) := by
  unfold stepPosting
  rw [contains_congr h.1]
  split
  · trivial
  · split
    · exact ⟨h.1, h.2.append (List.Perm.refl _)⟩
    · exact h

theorem stepBalance_resp (strict : Bool) (a : Assertion) (s s' : LState) (b : Balance) (h : LEquiv s s') :
    PSim LEquiv (stepBalance strict s a b) (stepBalance strict s' a b) := by
  unfold stepBalance
  rw [contains_congr h.1, qtyOf_perm h.2]
  repeat' split
  all_goals first | trivial | exact h

theorem stepClose_resp (s s' : LState) (c : Close) (h : LEquiv s s') : PSim LEquiv (stepClose s c) (stepClose s' c) := by
  unfold stepClose
  rw [contains_congr h.1, allZero_perm h.2]
  repeat' split
  all_goals first | trivial | skip
  refine ⟨?_, h.2⟩
  intro a; simp only [List.mem_filter, h.1 a]
