import Knut.Proofs.LedgerCommand
import Knut.Spec.MTM
/-!
# C03: the days the command adds are invisible to the specification

With `--close` the command makes sure a day exists for every period start (`Builder.Days(partition.StartDates())`): days
without any directive.  `Spec.mtm`, `Spec.qtyAt`, `Spec.pricesAt`, `Spec.stepBound` do not see days without transactions
and price declarations, so they may be evaluated on the journal's own days `(Builder.ofList ds).build` (what the driver
op `c03mtm` does) instead of `LedgerCommand.daysOf f ds part`.
-/
namespace Knut.MTM
open Knut Knut.Spec Knut.LedgerCommand

/-- a day without transactions and without price declarations -/
def blank (d : Day) : Bool := d.prices.isEmpty && d.transactions.isEmpty

/-- the days that carry a transaction or a price declaration -/
def core (days : List Day) : List Day := days.filter (fun d => !blank d)

theorem userPostings_core : ∀ (days : List Day), userPostings (core days) = userPostings days
  | [] => rfl
  | d :: ds => by
    have ih := userPostings_core ds
    unfold core at ih ⊢
    unfold userPostings at ih ⊢
    rw [List.filter_cons]
    by_cases hb : blank d = true
    · simp only [hb, Bool.not_true, Bool.false_eq_true, if_false, List.flatMap_cons]
      have : d.transactions = [] := by
        unfold blank at hb
        simp only [Bool.and_eq_true, List.isEmpty_iff] at hb
        exact hb.2
      rw [this, ih]
      rfl
    · simp only [hb, Bool.not_false, if_true, List.flatMap_cons, ih]

theorem qtyAt_core (days : List Day) (a : Account) (c : Commodity) (D : Int) :
    qtyAt (core days) a c D = qtyAt days a c D := by
  unfold qtyAt; rw [userPostings_core]

theorem commoditiesOf_core (days : List Day) (a : Account) : commoditiesOf (core days) a = commoditiesOf days a := by
  unfold commoditiesOf; rw [userPostings_core]

theorem foldlM_skip {α β : Type} (step : β → α → Option β) (q : α → Bool)
    (hq : ∀ x, q x = false → ∀ g, step g x = some g) : ∀ (L : List α) (g : β),
    (L.filter q).foldlM step g = L.foldlM step g
  | [], _ => rfl
  | x :: L, g => by
    rw [List.filter_cons]
    cases hx : q x
    · simp only [Bool.false_eq_true, if_false, List.foldlM_cons, hq x hx g, Option.bind_eq_bind, Option.bind_some]
      exact foldlM_skip step q hq L g
    · simp only [if_true, List.foldlM_cons]
      cases step g x with
      | none => rfl
      | some g' => simp only [Option.bind_eq_bind, Option.bind_some]; exact foldlM_skip step q hq L g'

theorem blank_prices {d : Day} (h : (!blank d) = false) : d.prices = [] := by
  unfold blank at h
  simp only [Bool.not_eq_false', Bool.and_eq_true, List.isEmpty_iff] at h
  exact h.1

theorem graphAt_core (days : List Day) (D : Int) : graphAt (core days) D = graphAt days D := by
  unfold graphAt core
  rw [List.filter_filter]
  have : (fun d : Day => decide (d.date ≤ D) && !blank d) = (fun d => (!blank d) && decide (d.date ≤ D)) := by
    funext d; rw [Bool.and_comm]
  rw [this, ← List.filter_filter]
  apply foldlM_skip
  intro d hd g
  rw [blank_prices hd]
  rfl

theorem pricesAt_core (v : Commodity) (days : List Day) (D : Int) : pricesAt v (core days) D = pricesAt v days D := by
  unfold pricesAt
  rw [graphAt_core]
  have : ((core days).filter (fun d => d.date ≤ D)).all (fun d => d.prices.isEmpty) =
      (days.filter (fun d => d.date ≤ D)).all (fun d => d.prices.isEmpty) := by
    unfold core
    induction days with
    | nil => rfl
    | cons d ds ih =>
      simp only [List.filter_cons]
      by_cases hb : blank d = true
      · have hp : d.prices.isEmpty = true := by
          unfold blank at hb
          simp only [Bool.and_eq_true] at hb
          exact hb.1
        simp only [hb, Bool.not_true, Bool.false_eq_true, if_false]
        rw [ih]
        split
        · simp only [List.all_cons, hp, Bool.true_and]
        · rfl
      · simp only [hb, Bool.not_false, if_true, List.filter_cons]
        split
        · simp only [List.all_cons, ih]
        · exact ih
  rw [this]

theorem mtm_core (v : Commodity) (days : List Day) (a : Account) (D : Int) : mtm v (core days) a D = mtm v days a D := by
  unfold mtm
  simp only [commoditiesOf_core, qtyAt_core, pricesAt_core]

theorem stepCount_core (v : Commodity) (days : List Day) (a : Account) (F D : Int) (c : Commodity) :
    stepCount v (core days) a F D c = stepCount v days a F D c := by
  unfold stepCount
  rw [userPostings_core]
  have : ((core days).filter (fun d => decide (F < d.date) && decide (d.date ≤ D) && !d.prices.isEmpty)).length =
      (days.filter (fun d => decide (F < d.date) && decide (d.date ≤ D) && !d.prices.isEmpty)).length := by
    unfold core
    rw [List.filter_filter]
    congr 1
    apply List.filter_congr
    intro d _
    by_cases hb : blank d = true
    · have hp : d.prices.isEmpty = true := by
        unfold blank at hb
        simp only [Bool.and_eq_true] at hb
        exact hb.1
      simp [hb, hp]
    · simp [hb]
  rw [this]

theorem stepBound_core (v : Commodity) (days : List Day) (a : Account) (F D : Int) :
    stepBound v (core days) a F D = stepBound v days a F D := by
  unfold stepBound
  rw [commoditiesOf_core]
  congr 1
  apply List.map_congr_left
  intro c _
  exact stepCount_core v days a F D c

/-! ### the days of the command -/

theorem core_insertDay : ∀ (days : List Day) (x : Int), core (insertDay days x) = core days
  | [], x => rfl
  | d :: rest, x => by
    unfold insertDay
    split
    · unfold core
      rw [List.filter_cons]
      simp [blank]
    · split
      · rfl
      · have ih := core_insertDay rest x
        unfold core at ih ⊢
        rw [List.filter_cons, List.filter_cons, ih]

theorem core_ensureDays (dates : List Int) : ∀ (days : List Day), core (dates.foldl insertDay days) = core days := by
  induction dates with
  | nil => intro days; rfl
  | cons x rest ih => intro days; rw [List.foldl_cons, ih, core_insertDay]

/-- the day list the command runs the pipeline on has the same core as the journal's own days -/
theorem core_daysOf (f : BalanceFlags) (ds : List Directive) (part : Partition) :
    core (daysOf f ds part) = core (Builder.ofList ds).build := by
  unfold daysOf Builder.build
  split
  · exact core_ensureDays _ _
  · rfl

theorem mtm_daysOf (f : BalanceFlags) (ds : List Directive) (part : Partition) (v : Commodity) (a : Account) (D : Int) :
    mtm v (daysOf f ds part) a D = mtm v (Builder.ofList ds).build a D := by
  rw [← mtm_core, core_daysOf, mtm_core]

theorem pricesAt_daysOf (f : BalanceFlags) (ds : List Directive) (part : Partition) (v : Commodity) (D : Int) :
    pricesAt v (daysOf f ds part) D = pricesAt v (Builder.ofList ds).build D := by
  rw [← pricesAt_core, core_daysOf, pricesAt_core]

theorem qtyAt_daysOf (f : BalanceFlags) (ds : List Directive) (part : Partition) (a : Account) (c : Commodity) (D : Int) :
    qtyAt (daysOf f ds part) a c D = qtyAt (Builder.ofList ds).build a c D := by
  rw [← qtyAt_core, core_daysOf, qtyAt_core]

theorem commoditiesOf_daysOf (f : BalanceFlags) (ds : List Directive) (part : Partition) (a : Account) :
    commoditiesOf (daysOf f ds part) a = commoditiesOf (Builder.ofList ds).build a := by
  rw [← commoditiesOf_core, core_daysOf, commoditiesOf_core]

theorem stepBound_daysOf (f : BalanceFlags) (ds : List Directive) (part : Partition) (v : Commodity) (a : Account)
    (F D : Int) : stepBound v (daysOf f ds part) a F D = stepBound v (Builder.ofList ds).build a F D := by
  rw [← stepBound_core, core_daysOf, stepBound_core]

end Knut.MTM
