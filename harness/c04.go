package main

import (
	"bytes"
	"context"
	"errors"
	"fmt"
	"os"
	"os/exec"
	"path/filepath"
	"regexp"
	"runtime"
	"sort"
	"strings"
	"sync"
	"time"

	"github.com/shopspring/decimal"

	"github.com/sboehler/knut/lib/journal"
	"github.com/sboehler/knut/lib/journal/check"
	"github.com/sboehler/knut/lib/model"
	"github.com/sboehler/knut/lib/model/registry"
)

func init() { runners["C04"] = runC04 }

// srcStart returns the byte offset of the source of a model directive (-1 if unknown).
func srcStart(d model.Directive) int {
	switch t := d.(type) {
	case *model.Open:
		if t.Src != nil {
			return t.Src.Start
		}
	case *model.Close:
		if t.Src != nil {
			return t.Src.Start
		}
	case *model.Price:
		if t.Src != nil {
			return t.Src.Start
		}
	case *model.Assertion:
		if t.Src != nil {
			return t.Src.Start
		}
	case *model.Transaction:
		if t.Src != nil {
			return t.Src.Start
		}
	}
	return -1
}

// implCheck runs the real loader and checker in-process on the file.
// Returns "ok" / "error" and the index of the offending directive (-1: not a check.Error).
func implCheck(path string, offsets []int) (verdict string, offender int, msg string) {
	defer func() {
		if r := recover(); r != nil {
			verdict, offender, msg = "panic", -1, fmt.Sprint(r)
		}
	}()
	reg := registry.New()
	b, err := journal.FromPath(context.Background(), reg, path)
	if err != nil {
		return "load-error", -1, err.Error()
	}
	err = b.Build().Process(check.Check())
	if err == nil {
		return "ok", -1, ""
	}
	var ce check.Error
	if errors.As(err, &ce) {
		off := srcStart(ce.Directive)
		for i, o := range offsets {
			if o == off {
				return "error", i, ce.Msg
			}
		}
		return "error", -1, ce.Msg
	}
	return "error", -1, err.Error()
}

// runKnut runs the knut binary; returns exit code, stdout, stderr.
func runKnut(bin string, timeout time.Duration, env []string, args ...string) (int, string, string) {
	ctx, cancel := context.WithTimeout(context.Background(), timeout)
	defer cancel()
	cmd := exec.CommandContext(ctx, bin, args...)
	var so, se bytes.Buffer
	cmd.Stdout, cmd.Stderr = &so, &se
	cmd.Env = append(os.Environ(), childTZ(env, args)...)
	err := cmd.Run()
	if ctx.Err() != nil {
		return -2, so.String(), se.String() + "\nTIMEOUT"
	}
	if err != nil {
		if ee, ok := err.(*exec.ExitError); ok {
			return ee.ExitCode(), so.String(), se.String()
		}
		return -1, so.String(), se.String() + err.Error()
	}
	return 0, so.String(), se.String()
}

// childTZ adds a time zone to the environment of a knut run (unless the caller set one): knut's dates are UTC midnights
// and nothing it prints may depend on the zone of the machine, but a date parsed or compared in time.Local shifts period
// boundaries east or west of Greenwich (seeded change C11-d parsed --from/--to in the local zone).  The zone is a function
// of the arguments, so repeated runs of one case use the same one.
var childZones = []string{"", "UTC", "Pacific/Kiritimati", "Pacific/Pago_Pago", "Europe/Zurich", "Asia/Kolkata", "America/St_Johns"}

func childTZ(env []string, args []string) []string {
	for _, e := range env {
		if strings.HasPrefix(e, "TZ=") {
			return env
		}
	}
	h := uint32(2166136261)
	for _, a := range args {
		if strings.HasPrefix(a, "/") {
			a = filepath.Base(a) // scratch directories differ from run to run
		}
		for i := 0; i < len(a); i++ {
			h = (h ^ uint32(a[i])) * 16777619
		}
	}
	z := childZones[int(h%uint32(len(childZones)))]
	if z == "" {
		return env
	}
	if _, err := os.Stat("/usr/share/zoneinfo/" + z); err != nil {
		return env
	}
	return append(append([]string{}, env...), "TZ="+z)
}

func canonPanic(m string) string {
	if strings.HasPrefix(m, "panic") {
		return "panic"
	}
	return m
}

func runC04(c *Ctx) {
	n := c.N(6000, 120000)
	bt := c.NewBatch()
	defer bt.Flush()
	dir := filepath.Join(c.WorkDir, "c04")
	os.MkdirAll(dir, 0o755)
	subEvery := 40
	nre := c.N(2000, 40000)
	ndis := c.N(4000, 80000)
	for ii := 0; ii < n+nre+ndis; ii++ {
		stream, i := "journal", ii
		if ii >= n+nre {
			stream, i = "disorder", ii-n-nre
		} else if ii >= n {
			stream, i = "reopen", ii-n
		}
		if !c.Want(stream, i) {
			continue
		}
		r := c.Rng(stream, i)
		var j *Journal
		var tags []string
		if stream == "journal" {
			opts := JGenOpts{MaxAccounts: r.Range(2, 6), MaxDays: r.Range(1, 5), Mutate: true, Unicode: true, Accruals: r.Chance(1, 3), BaseDay: 737000 + r.Intn(2000), SpanDays: r.Range(0, 10)}
			if ii%subEvery == 0 {
				opts.Prices, opts.Valuation = true, "CHF" // the windowed, valued report of the CLI stream needs prices
			}
			j, tags = GenJournal(r, opts)
			if r.Chance(1, 6) && WidenDates(r, j) {
				tags = append(tags, "wide-dates")
			}
		} else if stream == "reopen" {
			j, tags = c04ReopenJournal(r)
		} else {
			// the file order is not the date order: the verdict is a function of the set of directives per date (and of the
			// file order within one date), never of where in the file a date first appears
			switch r.Intn(4) {
			case 0:
				j, tags = c04ReopenJournal(r)
			case 1:
				j, tags = GenJournal(r, JGenOpts{MaxAccounts: r.Range(2, 5), MaxDays: r.Range(2, 6), Mutate: true, Prices: r.Chance(1, 3), Valuation: "CHF", Accruals: r.Chance(1, 4), BaseDay: 737000 + r.Intn(2000), SpanDays: r.Range(1, 12)})
			default:
				j, tags = c04TimelineJournal(r)
			}
		}
		// the accounts of every stream take minimal and odd shapes as well (a bare root account, digits, very deep, ...):
		// the lifecycle and the tracked positions of an account never depend on the shape of its name
		shaped := c04Reshape(r, j)
		tags = append(tags, shaped...)
		// one case in three of every stream sits on calendar corners (Feb 29 of 1600 / 2000 / 2024, Feb 28 / Mar 1 of 1900 / 2100,
		// month ends, Dec 31 / Jan 1, the years 0001 and 9999): the order of the days, hence the verdict of the specification, is
		// untouched; every such date is a date of the calendar and the loader has to take it (a generator of its own, so that
		// the other choices of the case stay what they were)
		rc := c.Rng(stream+"/calendar", i)
		cal := "plain-dates"
		if rc.Chance(1, 3) {
			if t := CornerDates(rc, j); t != "" {
				tags, cal = append(tags, t), t
			}
		}
		if stream == "disorder" {
			tags = append(tags, "disorder:"+c04Disorder(r, j))
			if c04Chronological(j) {
				tags = append(tags, "file-chronological")
			} else {
				tags = append(tags, "file-out-of-order")
			}
		}
		text, offsets := j.Text()
		path := filepath.Join(dir, fmt.Sprintf("j%d.knut", i%64))
		if err := os.WriteFile(path, []byte(text), 0o644); err != nil {
			fatalf("%v", err)
		}
		c.Evals++
		verdict, offender, msg := implCheck(path, offsets)
		in := map[string]any{"journal": text, "wire": j.Wire()}
		implStr := verdict
		if verdict == "error" {
			implStr = fmt.Sprintf("error %d", offender)
		}
		for _, t := range tags {
			c.Tag(t)
		}
		mut := "none"
		for _, t := range tags {
			if strings.HasPrefix(t, "mutated:") || strings.HasPrefix(t, "disorder:") {
				mut = t
			}
		}
		shp := "plain"
		if len(shaped) > 0 {
			shp = "shaped"
			if contains(shaped, "shape:bare-root-AL") {
				shp = "bare-AL"
			}
		}
		c.Class(fmt.Sprintf("c04/%s/%s/%s/n%s/%s/%s", stream, verdict, mut, bucket(len(j.Dirs)), shp, cal))
		if i < 2 {
			c.Sample(map[string]any{"journal": text, "impl": implStr, "detail": msg})
		}
		wire := j.Wire()
		bt.Add(func(model string) {
			// model answers "ok" | "error <kind> <index>": compare verdict and the named directive (as wire tokens,
			// so that identical duplicate directives compare equal)
			mv := model
			if f := strings.Fields(model); len(f) == 3 && f[0] == "error" {
				var mi int
				fmt.Sscan(f[2], &mi)
				if mi >= 0 && mi < len(j.Dirs) && offender >= 0 && j.Dirs[mi].Wire() == j.Dirs[offender].Wire() {
					mv = fmt.Sprintf("error %d", offender)
				} else {
					mv = fmt.Sprintf("error %d", mi)
				}
			}
			c.Compare(stream, i, "check", in, implStr, mv)
		}, "check", wire)
		off := "-"
		if offender >= 0 {
			off = itoa(offender)
		}
		bt.Add(func(mon string) {
			switch {
			case mon == "ok":
				c.Monitored++
			case strings.HasPrefix(mon, "known "):
				c.MonitorKnown(stream, i, "accept_iff_wellformed", in, implStr+" / "+msg+" => "+mon, strings.TrimPrefix(mon, "known "))
			default:
				c.Monitor(stream, i, "accept_iff_wellformed", in, false, implStr+" / "+msg+" => "+mon)
			}
		}, "c04mon", wire, verdict, off)
		// the whole text -> parser -> model directive -> builder path against the Lean parser + FromSyntax + Accrual + Builder
		{
			ltext, kind := text, "none"
			if i%3 == 0 {
				ltext, kind = mutateJournalText(r, text)
				if rc.Chance(1, 2) {
					// one date of the text (a directive's or an accrual bound) replaced by a date that is not in the calendar,
					// or by a corner date that is: Lean's own calendar (FromSyntax.parseDate) decides which
					if t, k := c04CalendarText(rc, text); k != "" {
						ltext, kind = t, k
					}
				}
				lp := filepath.Join(dir, fmt.Sprintf("l%d.knut", i%64))
				os.WriteFile(lp, []byte(ltext), 0o644)
				path2 := lp
				implDump := implLoadDump(path2)
				lin := map[string]any{"journal": ltext, "mutation": kind}
				c.Tag("loadtext:" + strings.SplitN(kind, "=", 2)[0])
				cli := strings.HasPrefix(kind, "calendar:") && i%24 == 0 && c.KnutBin != ""
				bt.Add(func(m string) {
					c.Compare(stream, i, "loadtext", lin, implDump, canonPanic(m))
					if cli && m == "error" {
						// the specification's loader rejects the text (the date is not a date): so do check, print and balance
						cp := filepath.Join(dir, "cal.knut")
						os.WriteFile(cp, []byte(ltext), 0o644)
						for _, cmd := range []string{"check", "print", "balance"} {
							code, stdout, stderr := runKnut(c.KnutBin, 10*time.Second, nil, cmd, cp)
							c.Monitor(stream, i, "calendar_unloadable_rejected_"+cmd, lin, code == 1 && strings.TrimSpace(stderr) != "" && stdout == "",
								fmt.Sprintf("knut %s: exit %d on a journal the specification's loader rejects (%s); stdout %q stderr %q", cmd, code, kind, clip(stdout), clip(stderr)))
						}
					}
				}, "loadtext", Hex(ltext))
			} else {
				implDump := implLoadDump(path)
				lin := map[string]any{"journal": ltext}
				bt.Add(func(m string) { c.Compare(stream, i, "loadtext", lin, implDump, canonPanic(m)) }, "loadtext", Hex(ltext))
			}
		}
		// the CLI gives the same verdict for check, print and balance, with a diagnostic naming the directive
		if i%subEvery == 0 && c.KnutBin != "" {
			for _, cmd := range []string{"check", "print", "balance"} {
				code, stdout, stderr := runKnut(c.KnutBin, 10*time.Second, nil, cmd, path)
				okCLI := (code == 0) == (verdict == "ok")
				detail := fmt.Sprintf("knut %s: exit %d, in-process verdict %s; stderr %q", cmd, code, verdict, clip(stderr))
				if verdict != "ok" {
					okCLI = okCLI && code == 1 && strings.TrimSpace(stderr) != "" && stdout == ""
					if offender >= 0 && cmd == "check" {
						first := strings.SplitN(j.Dirs[offender].Text(), "\n", 2)[0]
						if j.Dirs[offender].Kind == 't' {
							first = fmtDate(j.Dirs[offender].Date) + " \"" + strings.SplitN(j.Dirs[offender].Desc, "\n", 2)[0]
							if j.Dirs[offender].Accrual != nil {
								// the named directive is one of the expanded transactions: other date, description + " (accrual i/n)"
								first = "\"" + strings.SplitN(j.Dirs[offender].Desc, "\n", 2)[0]
							}
						}
						okCLI = okCLI && strings.Contains(stderr, first)
					}
				}
				c.Monitor(stream, i, "cli_verdict_"+cmd, in, okCLI, detail)
				// the verdict of the command line against the specification itself (not only against the in-process verdict)
				if cmd == "check" && (verdict == "ok" || verdict == "error") && (code == 0 || code == 1) {
					cv := "ok"
					if code != 0 {
						cv = "error"
					}
					bt.Add(func(mon string) {
						if mon == "ok" || strings.HasPrefix(mon, "known ") {
							c.Monitored++
							return
						}
						c.Monitor(stream, i, "cli_accept_iff_wellformed", in, false, fmt.Sprintf("knut check: exit %d, stderr %q => %s", code, clip(stderr), mon))
					}, "c04mon", wire, cv, "-")
				}
			}
			// a rejected journal is rejected whatever part of it the report shows: a window that ends before the offending
			// directive, a valuation, an interval (seeded change C04-e cut the journal at --to before the checker ran when -v is given)
			if verdict != "ok" && len(j.Dirs) > 0 {
				lo, hi := j.Dirs[0].Date, j.Dirs[0].Date
				for _, d := range j.Dirs {
					if d.Date < lo {
						lo = d.Date
					}
					if d.Date > hi {
						hi = d.Date
					}
				}
				for _, extra := range [][]string{{"--to", fmtDate(lo + r.Intn(hi-lo+1))}, {"-v", "CHF", "--to", fmtDate(lo + r.Intn(hi-lo+1))}, {"-v", "CHF", "--months", "--last", "1"}, {"--from", fmtDate(hi + 1)}} {
					args := append(append([]string{"balance"}, extra...), path)
					code, stdout, stderr := runKnut(c.KnutBin, 10*time.Second, nil, args...)
					c.Monitor(stream, i, "cli_rejects_whatever_the_window", map[string]any{"journal": text, "args": strings.Join(args[:len(args)-1], " ")}, code != 0 && stdout == "",
						fmt.Sprintf("knut %s: exit %d although the journal is ill-formed (in-process verdict %s); stdout %q stderr %q", strings.Join(args[:len(args)-1], " "), code, verdict, clip(stdout), clip(stderr)))
				}
			}
		}
	}
	// the journal as an include TREE (harness/c04trees.go): many files, big members, faults in members, perturbed schedules
	bt.Flush()
	// `knut balance` under full flag vectors: the exit status is the specification's verdict whatever the report shows
	runC04BalFlags(c)
	// shared registries under concurrent look-ups; journals dealt over many include files, loaded repeatedly
	runC04Concur(c)
	runC04Trees(c)
}

var c04DateRe = regexp.MustCompile(`[0-9]{4}-[0-9]{2}-[0-9]{2}`)

// c04CalendarText replaces one date of a journal text (the date of a directive or a bound of an @accrue window) by a date
// at a corner of the calendar: mostly one that does not exist (Feb 29 of a non-leap or century year, Feb 30 / 31, the 31st
// of a 30-day month, month 00 / 13, day 00 / 32), now and then one that does (Feb 29 of 1600 / 2000 / 2400 / 2024, the
// last day of a month, the ends of the four-digit range).  The year is the date's own or a corner year.
func c04CalendarText(r *RNG, text string) (string, string) {
	locs := c04DateRe.FindAllStringIndex(text, -1)
	if len(locs) == 0 {
		return text, ""
	}
	loc := Pick(r, locs)
	year := text[loc[0] : loc[0]+4]
	var date string
	kind, own := r.Intn(8), false
	if ls := strings.LastIndexByte(text[:loc[0]], '\n') + 1; strings.HasPrefix(text[ls:], "@accrue") {
		// a bound of an accrual window keeps its year (a window of centuries is millions of periods)
		kind, own = []int{1, 2, 3, 4, 6, 7, 7, 7}[kind], true
	}
	switch kind {
	case 0: // Feb 29 of a year that has none
		date = Pick(r, []string{"1900", "2100", "2023", "2001", "1700", "1800", "2200", "0100", "0001", "9999", "2300", "1999"}) + "-02-29"
	case 1:
		if !own && r.Bool() {
			year = Pick(r, []string{"2000", "2024", "1600", "2400", "1900", "2023", "0004", "9996"})
		}
		date = year + Pick(r, []string{"-02-30", "-02-31", "-02-30"})
	case 2:
		date = year + Pick(r, []string{"-04-31", "-06-31", "-09-31", "-11-31"})
	case 3:
		date = year + Pick(r, []string{"-13-01", "-00-15", "-00-00", "-13-31", "-20-01", "-99-01"})
	case 4:
		date = year + Pick(r, []string{"-01-00", "-01-32", "-12-32", "-10-00", "-02-00", "-03-32", "-12-99", "-08-40"})
	case 5: // Feb 29 that exists
		date = Pick(r, []string{"2000", "1600", "2400", "2024", "1996", "2000", "0004", "0400", "9996", "2004"}) + "-02-29"
	case 6:
		if !own && r.Bool() {
			year = Pick(r, []string{"0001", "0099", "1000", "9999", "1900", "2100", "2000"})
		}
		date = year + Pick(r, []string{"-01-31", "-03-31", "-04-30", "-05-31", "-06-30", "-07-31", "-08-31", "-09-30", "-10-31", "-11-30", "-12-31", "-01-01", "-02-28", "-03-01"})
	default: // Feb 29 of the date's own year: the calendar decides
		date = year + "-02-29"
	}
	return text[:loc[0]] + date + text[loc[1]:], "calendar:" + date[4:] + "=" + date
}

// c04ReopenJournal walks a few asset/liability accounts through long lives: opened, booked in one or two commodities with
// amounts that often return a position to exactly zero, closed, opened again, booked again in the SAME commodities, closed
// again (with or without a remaining position), asserted in between.  Mostly valid steps, some invalid ones; the model
// decides the verdict.  (Seeded change C04-d kept a per-account index of positions that forgot a commodity after a
// close/re-open cycle, so that a later close with a non-zero position in it was accepted.)
func c04ReopenJournal(r *RNG) (*Journal, []string) {
	accs := []string{"Assets:A", "Liabilities:L", "Assets:A:Sub"}[:r.Range(1, 3)]
	coms := []string{"X", "Y"}[:r.Range(1, 2)]
	j := &Journal{}
	day := 737000 + r.Intn(1000)
	j.Dirs = append(j.Dirs, JDir{Kind: 'o', Date: day, Account: "Equity:E"})
	open := map[string]bool{}
	pos := map[[2]string]decimal.Decimal{}
	cycles := 0
	tagset := map[string]bool{}
	ndays := r.Range(3, 14)
	for d := 0; d < ndays; d++ {
		day += r.Range(1, 3)
		for _, a := range accs {
			if !open[a] {
				if r.Chance(3, 4) {
					j.Dirs = append(j.Dirs, JDir{Kind: 'o', Date: day, Account: a})
					open[a] = true
				}
				if r.Chance(1, 12) { // booking on a closed / not yet opened account
					j.Dirs = append(j.Dirs, JDir{Kind: 't', Date: day, Desc: "ghost", Bookings: []JBook{{Credit: "Equity:E", Debit: a, Qty: "1", Com: Pick(r, coms)}}})
					tagset["booking-on-closed"] = true
				}
				continue
			}
			if r.Chance(1, 15) {
				j.Dirs = append(j.Dirs, JDir{Kind: 'o', Date: day, Account: a}) // opened twice
				tagset["double-open"] = true
			}
			nb := r.Range(0, 3)
			for k := 0; k < nb; k++ {
				c := Pick(r, coms)
				key := [2]string{a, c}
				var q decimal.Decimal
				if !pos[key].IsZero() && r.Chance(1, 2) {
					q = pos[key].Neg() // back to exactly zero
				} else {
					q = decimal.RequireFromString(Pick(r, []string{"1", "2", "-1", "0.5", "-0.5", "10", "0"}))
				}
				pos[key] = pos[key].Add(q)
				j.Dirs = append(j.Dirs, JDir{Kind: 't', Date: day, Desc: "move", Bookings: []JBook{{Credit: "Equity:E", Debit: a, Qty: q.String(), Com: c}}})
			}
			if r.Chance(1, 5) {
				c := Pick(r, coms)
				q := pos[[2]string{a, c}]
				if r.Chance(1, 8) {
					q = q.Add(decimal.New(1, 0))
					tagset["wrong-assertion"] = true
				}
				j.Dirs = append(j.Dirs, JDir{Kind: 'a', Date: day, Balances: []JBal{{Account: a, Qty: q.String(), Com: c}}})
			}
			zero := true
			for _, c := range coms {
				if !pos[[2]string{a, c}].IsZero() {
					zero = false
				}
			}
			if (zero && r.Chance(1, 2)) || r.Chance(1, 10) {
				j.Dirs = append(j.Dirs, JDir{Kind: 'c', Date: day, Account: a})
				if !zero {
					tagset["close-with-position"] = true
				} else {
					cycles++
				}
				open[a] = false
			}
		}
	}
	tags := []string{fmt.Sprintf("reopen-cycles:%d", min(cycles, 4))}
	for t := range tagset {
		tags = append(tags, t)
	}
	sort.Strings(tags)
	return j, tags
}

// c04TimelineJournal writes the lives of one to three asset/liability accounts as a sparse timeline: one event per step
// (open, booking, assertion, close, price, now and then an invalid one), most of them on a date of their own, so that many
// dates hold nothing but an open, an assertion or a close and the verdict depends on the order of almost any two dates.
func c04TimelineJournal(r *RNG) (*Journal, []string) {
	accs := []string{"Assets:A", "Liabilities:L", "Assets:A:Sub", "Assets:B"}[:r.Range(1, 4)]
	coms := []string{"X", "Y"}[:r.Range(1, 2)]
	j := &Journal{}
	day := 737000 + r.Intn(3000)
	j.Dirs = append(j.Dirs, JDir{Kind: 'o', Date: day, Account: "Equity:E"})
	open := map[string]bool{}
	pos := map[[2]string]decimal.Decimal{}
	tagset := map[string]bool{}
	steps := r.Range(3, 18)
	txDensity := Pick(r, []int{1, 2, 4}) // out of 6
	book := func(a string) {
		c := Pick(r, coms)
		key := [2]string{a, c}
		var q decimal.Decimal
		if !pos[key].IsZero() && r.Chance(1, 2) {
			q = pos[key].Neg()
		} else {
			q = decimal.RequireFromString(Pick(r, []string{"1", "2", "-1", "0.5", "10", "0"}))
		}
		pos[key] = pos[key].Add(q)
		j.Dirs = append(j.Dirs, JDir{Kind: 't', Date: day, Desc: "move", Bookings: []JBook{{Credit: "Equity:E", Debit: a, Qty: q.String(), Com: c}}})
	}
	for s := 0; s < steps; s++ {
		if !r.Chance(1, 5) {
			day += r.Range(1, 4)
		}
		a := Pick(r, accs)
		if !open[a] {
			switch {
			case r.Chance(1, 12):
				j.Dirs = append(j.Dirs, JDir{Kind: 't', Date: day, Desc: "ghost", Bookings: []JBook{{Credit: "Equity:E", Debit: a, Qty: "1", Com: Pick(r, coms)}}})
				tagset["booking-on-closed"] = true
			case r.Chance(1, 12):
				j.Dirs = append(j.Dirs, JDir{Kind: 'a', Date: day, Balances: []JBal{{Account: a, Qty: "0", Com: Pick(r, coms)}}})
				tagset["assertion-on-closed"] = true
			default:
				j.Dirs = append(j.Dirs, JDir{Kind: 'o', Date: day, Account: a})
				open[a] = true
			}
			continue
		}
		zero := true
		for _, c := range coms {
			if !pos[[2]string{a, c}].IsZero() {
				zero = false
			}
		}
		switch x := r.Intn(6); {
		case x < txDensity:
			book(a)
		case r.Chance(1, 10):
			j.Dirs = append(j.Dirs, JDir{Kind: 'p', Date: day, Com: Pick(r, coms), Price: "1.5", Target: "CHF"})
		case r.Chance(1, 2):
			c := Pick(r, coms)
			q := pos[[2]string{a, c}]
			if r.Chance(1, 12) {
				q = q.Add(decimal.New(1, 0))
				tagset["wrong-assertion"] = true
			}
			j.Dirs = append(j.Dirs, JDir{Kind: 'a', Date: day, Balances: []JBal{{Account: a, Qty: q.String(), Com: c}}})
		case zero || r.Chance(1, 8):
			j.Dirs = append(j.Dirs, JDir{Kind: 'c', Date: day, Account: a})
			if !zero {
				tagset["close-with-position"] = true
			}
			open[a] = false
			for _, c := range coms {
				delete(pos, [2]string{a, c})
			}
		default:
			book(a)
		}
	}
	tags := []string{"timeline"}
	for t := range tagset {
		tags = append(tags, t)
	}
	sort.Strings(tags)
	return j, tags
}

// c04Chronological: the dates of the directives never decrease along the file.
func c04Chronological(j *Journal) bool {
	for i := 1; i < len(j.Dirs); i++ {
		if j.Dirs[i].Date < j.Dirs[i-1].Date {
			return false
		}
	}
	return true
}

// c04Disorder rearranges the file order of the directives (never their dates): a few displaced directives or days in an
// otherwise chronological file, neighbouring days swapped, whole days permuted, everything shuffled, the file grouped by
// kind of directive (accounts file, transactions file, assertions file), several chronological files concatenated, a
// chronological head with a shuffled tail, the file reversed.  Returns the name of the rearrangement.
func c04Disorder(r *RNG, j *Journal) string {
	n := len(j.Dirs)
	if n < 2 {
		return "none"
	}
	chrono := func() { sort.SliceStable(j.Dirs, func(a, b int) bool { return j.Dirs[a].Date < j.Dirs[b].Date }) }
	days := func() [][]JDir { // whole days, ascending
		chrono()
		var res [][]JDir
		for _, d := range j.Dirs {
			if len(res) > 0 && res[len(res)-1][0].Date == d.Date {
				res[len(res)-1] = append(res[len(res)-1], d)
			} else {
				res = append(res, []JDir{d})
			}
		}
		return res
	}
	flat := func(bs [][]JDir) {
		j.Dirs = j.Dirs[:0:0]
		for _, b := range bs {
			j.Dirs = append(j.Dirs, b...)
		}
	}
	shuffle := func(lo, hi int, swap func(a, b int)) {
		for k := hi - 1; k > lo; k-- {
			swap(k, lo+r.Intn(k-lo+1))
		}
	}
	move := func(from, to int) { // directive at from ends up at index to
		d := j.Dirs[from]
		rest := append(append([]JDir{}, j.Dirs[:from]...), j.Dirs[from+1:]...)
		j.Dirs = append(append(append([]JDir{}, rest[:to]...), d), rest[to:]...)
	}
	switch r.Intn(12) {
	case 0:
		if r.Bool() {
			chrono()
		}
		return "as-generated"
	case 1: // one to three directives move anywhere
		chrono()
		for k := r.Range(1, 3); k > 0; k-- {
			move(r.Intn(n), r.Intn(n))
		}
		return "directives-displaced"
	case 2: // one to three directives move by one to three places
		chrono()
		for k := r.Range(1, 3); k > 0; k-- {
			from := r.Intn(n)
			to := from + Pick(r, []int{-3, -2, -1, 1, 2, 3})
			move(from, max(0, min(n-1, to)))
		}
		return "directives-nudged"
	case 3: // two neighbouring days change places (once or twice)
		bs := days()
		for k := r.Range(1, 2); k > 0 && len(bs) > 1; k-- {
			i := r.Intn(len(bs) - 1)
			bs[i], bs[i+1] = bs[i+1], bs[i]
		}
		flat(bs)
		return "adjacent-days-swapped"
	case 4: // one whole day moves anywhere
		bs := days()
		if len(bs) > 1 {
			from, to := r.Intn(len(bs)), r.Intn(len(bs))
			b := bs[from]
			rest := append(append([][]JDir{}, bs[:from]...), bs[from+1:]...)
			bs = append(append(append([][]JDir{}, rest[:to]...), b), rest[to:]...)
		}
		flat(bs)
		return "day-displaced"
	case 5: // whole days permuted
		bs := days()
		shuffle(0, len(bs), func(a, b int) { bs[a], bs[b] = bs[b], bs[a] })
		flat(bs)
		return "days-permuted"
	case 6: // chronological head, permuted tail of days
		bs := days()
		if len(bs) > 1 {
			shuffle(r.Intn(len(bs)-1), len(bs), func(a, b int) { bs[a], bs[b] = bs[b], bs[a] })
		}
		flat(bs)
		return "tail-days-permuted"
	case 7: // every directive anywhere
		shuffle(0, n, func(a, b int) { j.Dirs[a], j.Dirs[b] = j.Dirs[b], j.Dirs[a] })
		return "directives-shuffled"
	case 8: // one part of the file per kind of directive, each part chronological
		chrono()
		kinds := []byte{'o', 'p', 't', 'a', 'c'}
		shuffle(0, len(kinds), func(a, b int) { kinds[a], kinds[b] = kinds[b], kinds[a] })
		merged := r.Intn(3) // 0: five parts; 1, 2: the first two / three kinds share a part
		rank := map[byte]int{}
		for k, c := range kinds {
			rank[c] = max(0, k-merged)
		}
		sort.SliceStable(j.Dirs, func(a, b int) bool { return rank[j.Dirs[a].Kind] < rank[j.Dirs[b].Kind] })
		return "grouped-by-kind"
	case 9: // two or three chronological files, one after the other
		chrono()
		parts := r.Range(2, 3)
		part := make([]int, n)
		for k := range part {
			part[k] = r.Intn(parts)
		}
		idx := make([]int, n)
		for k := range idx {
			idx[k] = k
		}
		sort.SliceStable(idx, func(a, b int) bool { return part[idx[a]] < part[idx[b]] })
		old := append([]JDir{}, j.Dirs...)
		for k, o := range idx {
			j.Dirs[k] = old[o]
		}
		return "files-concatenated"
	case 10: // the last directives of the file (mostly the latest dates) come in any order
		chrono()
		shuffle(max(0, n-r.Range(2, 5)), n, func(a, b int) { j.Dirs[a], j.Dirs[b] = j.Dirs[b], j.Dirs[a] })
		return "tail-directives-shuffled"
	default: // latest first
		if r.Bool() {
			bs := days()
			for a, b := 0, len(bs)-1; a < b; a, b = a+1, b-1 {
				bs[a], bs[b] = bs[b], bs[a]
			}
			flat(bs)
			return "days-reversed"
		}
		chrono()
		for a, b := 0, n-1; a < b; a, b = a+1, b-1 {
			j.Dirs[a], j.Dirs[b] = j.Dirs[b], j.Dirs[a]
		}
		return "directives-reversed"
	}
}

// c04Accounts lists the account names of the journal in the order of their first appearance.
func c04Accounts(j *Journal) []string {
	var res []string
	seen := map[string]bool{}
	add := func(a string) {
		if a != "" && !seen[a] {
			seen[a] = true
			res = append(res, a)
		}
	}
	for _, d := range j.Dirs {
		add(d.Account)
		for _, b := range d.Balances {
			add(b.Account)
		}
		if d.Accrual != nil {
			add(d.Accrual.Account)
		}
		for _, b := range d.Bookings {
			add(b.Credit)
			add(b.Debit)
		}
	}
	return res
}

// c04Reshape renames some or all accounts of the journal, consistently and injectively, to minimal and odd but valid
// names of the SAME account type: the bare root account (`Assets`, `Liabilities`, `Equity`, `Income`, `Expenses` alone are
// account names), segments of digits only, segments that are account type words, very deep names, non-ASCII letters and
// digits, one very long segment, one-letter segments, the parent / a child / a string-prefix sibling of another account of
// the journal, the leaf of another account under a different parent.  Whatever the journal does with an account (open,
// book, assert, close, re-open, the invalid steps of the generators and the mutations) it now does with the renamed one;
// dates, quantities and the order of the directives do not change, and the specification decides the verdict as before.
// (Seeded change C04-g cached the asset/liability classification when an account is created below a root and built the
// five root accounts by another path: bookings on the bare account `Assets` were not tracked.)  Three cases in five stay
// as generated.  Returns the tags of the shapes used.
func c04Reshape(r *RNG, j *Journal) []string {
	if r.Intn(5) < 3 {
		return nil
	}
	accs := c04Accounts(j)
	if len(accs) == 0 {
		return nil
	}
	all := r.Chance(1, 3)
	must := r.Intn(len(accs)) // at least this one
	taken := map[string]bool{}
	for _, a := range accs {
		taken[a] = true
	}
	short := []string{"a", "Z", "x", "I", "O", "l", "q", "B"}
	digits := []string{"0", "1", "7", "00", "007", "2024", "12", "9999999999", "٣", "४२", "1a", "a1"}
	uni := []string{"Ä", "é", "ß", "Ω", "Żółć", "日本", "東京", "가", "ñandú", "Ünï", "ǅ", "ª"}
	rename := map[string]string{}
	tagset := map[string]bool{}
	for k, a := range accs {
		if !all && k != must && !r.Chance(1, 2) {
			continue
		}
		typ := strings.SplitN(a, ":", 2)[0]
		if !contains(typeNames, typ) {
			continue // not an account name the loader accepts (a mutation): left alone
		}
		var same []string // other accounts of the same type, by their current (possibly new) name
		for _, o := range accs {
			if o != a && strings.SplitN(o, ":", 2)[0] == typ {
				if n, ok := rename[o]; ok {
					o = n
				}
				same = append(same, o)
			}
		}
		for try := 0; try < 4; try++ {
			var n, shape string
			switch x := r.Intn(16); {
			case x < 4:
				n, shape = typ, "bare-root"
			case x < 6:
				n, shape = typ, "digits"
				for q := r.Range(1, 3); q > 0; q-- {
					n += ":" + Pick(r, digits)
				}
			case x < 8:
				n, shape = typ, "type-word-segment"
				for q := r.Range(1, 3); q > 0; q-- {
					n += ":" + Pick(r, []string{typ, Pick(r, typeNames), strings.ToLower(typ), "Assets", "Liabilities"})
				}
			case x < 10:
				n, shape = typ, "very-deep"
				for q := Pick(r, []int{6, 9, 16, 33, 64}) + r.Intn(3); q > 0; q-- {
					n += ":" + Pick(r, [][]string{short, short, digits, uni})[r.Intn(8)]
				}
			case x < 11:
				n, shape = typ, "unicode"
				for q := r.Range(1, 3); q > 0; q-- {
					n += ":" + Pick(r, uni)
				}
			case x < 12:
				n, shape = typ+":"+strings.Repeat(Pick(r, short), Pick(r, []int{31, 64, 65, 120, 257})), "long-segment"
			case x < 13:
				n, shape = typ+":"+Pick(r, short), "one-letter"
			default: // related to another account of the same type
				if len(same) == 0 {
					continue
				}
				o := Pick(r, same)
				segs := strings.Split(o, ":")
				switch r.Intn(4) {
				case 0:
					n, shape = o+":"+Pick(r, short), "child-of-other"
				case 1:
					n, shape = strings.Join(segs[:max(1, len(segs)-1)], ":"), "parent-of-other"
				case 2:
					if len(segs) < 2 {
						continue // (a longer first segment is no account type)
					}
					n, shape = o+Pick(r, short), "prefix-sibling-of-other"
				default:
					n, shape = typ+":"+Pick(r, short)+":"+segs[len(segs)-1], "leaf-of-other"
				}
			}
			if taken[n] {
				continue
			}
			taken[n] = true
			rename[a] = n
			tagset["shape:"+shape] = true
			if n == typ && (typ == "Assets" || typ == "Liabilities") {
				tagset["shape:bare-root-AL"] = true
			}
			break
		}
	}
	if len(rename) == 0 {
		return nil
	}
	rn := func(a string) string {
		if n, ok := rename[a]; ok {
			return n
		}
		return a
	}
	// (directives duplicated by a mutation may share their slices: every slice is rebuilt, never edited in place)
	for i := range j.Dirs {
		d := &j.Dirs[i]
		d.Account = rn(d.Account)
		if d.Balances != nil {
			bs := make([]JBal, len(d.Balances))
			for k, b := range d.Balances {
				b.Account = rn(b.Account)
				bs[k] = b
			}
			d.Balances = bs
		}
		if d.Bookings != nil {
			bs := make([]JBook, len(d.Bookings))
			for k, b := range d.Bookings {
				b.Credit, b.Debit = rn(b.Credit), rn(b.Debit)
				bs[k] = b
			}
			d.Bookings = bs
		}
		if d.Accrual != nil {
			ac := *d.Accrual
			ac.Account = rn(ac.Account)
			d.Accrual = &ac
		}
	}
	tags := []string{"reshaped"}
	for t := range tagset {
		tags = append(tags, t)
	}
	sort.Strings(tags)
	return tags
}

// ---------------------------------------------------------------- stream "balflags"
//
// `knut balance` accepts a journal exactly when the specification does, WHATEVER report flags are given: the flags
// select, map, window and value what the report shows, never what the checker sees.  Every case is one generated journal
// (re-open cycles, sparse timeline, lifecycle automaton with mutations, a ledger of several accounts per type with
// assertions and closes on each; reshaped accounts as everywhere) and two to four full flag vectors drawn by the
// generator C01-C03 use for balance (GenBalFlags: --account / --commodity / -m / --remap / --close=false / -v / -s /
// intervals / --diff / --last / --from / --to / --csv / -a / -k / --digits), on which zero to three features are then
// forced on, so that flags the generator rarely draws together do meet: --account, --commodity and --close=false weigh
// double, and one vector in four is a filter with --close=false and without -v.  The exit status of every run is
// evaluated against the Lean specification (`c04mon`): 0 iff well-formed; a rejecting run prints a diagnostic and no
// report.  A valued run that stops on a missing / invalid price says nothing about the lifecycle and is not counted.
// (Seeded change C04-j dropped, for --account/--commodity with --close=false and without -v, the postings the filter
// does not select IN FRONT of the checker.)

type c04BFRun struct {
	f              BalFlags
	forced         []string
	args           []string
	code           int
	stdout, stderr string
}

type c04BFCase struct {
	i             int
	gen           string
	text, wire    string
	path, verdict string
	runs          []*c04BFRun
}

// c04LedgerJournal: two to three accounts of several types (always two or more asset/liability accounts), one to three
// commodities, every account opened, booked against ANY other open account (so that transactions between two filtered
// accounts, between a filtered and an unfiltered one and between two unfiltered ones all occur), asserted (right, now and
// then wrong) and closed (at zero, now and then with a position) on its own schedule; now and then a booking on an
// account that is not open.  The specification decides the verdict.
func c04LedgerJournal(r *RNG) (*Journal, []string) {
	pool := []string{"Assets:Bank", "Assets:Cash", "Liabilities:Card", "Assets:Bank:Savings", "Liabilities:Loan", "Expenses:Food", "Income:Salary", "Equity:Opening", "Expenses:Rent"}
	// two or more A/L accounts first, then any
	accs := []string{pool[0], Pick(r, []string{pool[1], pool[2], pool[3]})}
	for _, a := range pool[2:] {
		if !contains(accs, a) && r.Chance(1, 2) && len(accs) < 6 {
			accs = append(accs, a)
		}
	}
	coms := []string{"CHF", "USD", "AAPL"}[:r.Range(1, 3)]
	j := &Journal{}
	day := 737000 + r.Intn(2500)
	open := map[string]bool{}
	pos := map[[2]string]decimal.Decimal{}
	tagset := map[string]bool{}
	isAL := func(a string) bool { return strings.HasPrefix(a, "Assets") || strings.HasPrefix(a, "Liabilities") }
	for _, a := range accs {
		if r.Chance(4, 5) {
			j.Dirs = append(j.Dirs, JDir{Kind: 'o', Date: day, Account: a})
			open[a] = true
		}
	}
	if r.Chance(1, 3) {
		for _, c := range coms {
			if c != "CHF" {
				j.Dirs = append(j.Dirs, JDir{Kind: 'p', Date: day, Com: c, Price: Pick(r, []string{"1.5", "0.9", "120"}), Target: "CHF"})
			}
		}
	}
	steps := r.Range(3, 24)
	for s := 0; s < steps; s++ {
		if !r.Chance(1, 3) {
			day += r.Range(1, 40)
		}
		a := Pick(r, accs)
		if !open[a] {
			if r.Chance(1, 8) {
				o := Pick(r, accs)
				if o != a {
					j.Dirs = append(j.Dirs, JDir{Kind: 't', Date: day, Desc: "ghost", Bookings: []JBook{{Credit: o, Debit: a, Qty: "1", Com: Pick(r, coms)}}})
					tagset["booking-on-closed"] = true
					continue
				}
			}
			j.Dirs = append(j.Dirs, JDir{Kind: 'o', Date: day, Account: a})
			open[a] = true
			continue
		}
		switch x := r.Intn(10); {
		case x < 5: // a booking against any other account
			o := Pick(r, accs)
			if o == a || (!open[o] && !r.Chance(1, 10)) {
				continue
			}
			c := Pick(r, coms)
			q := decimal.RequireFromString(Pick(r, []string{"1", "2", "5", "0.5", "10", "100", "0", "12.25"}))
			if p := pos[[2]string{a, c}]; !p.IsZero() && r.Chance(1, 3) {
				q = p.Neg() // a back to exactly zero
			}
			pos[[2]string{a, c}] = pos[[2]string{a, c}].Add(q)
			pos[[2]string{o, c}] = pos[[2]string{o, c}].Sub(q)
			j.Dirs = append(j.Dirs, JDir{Kind: 't', Date: day, Desc: Pick(r, []string{"move", "pay", "salary", "x"}), Bookings: []JBook{{Credit: o, Debit: a, Qty: q.String(), Com: c}}})
		case x < 8: // an assertion (asset/liability accounts mostly: the checker tracks these)
			if !isAL(a) && !r.Chance(1, 6) {
				continue
			}
			c := Pick(r, coms)
			q := pos[[2]string{a, c}]
			if !isAL(a) {
				q = decimal.Zero // (a non-zero assertion on another account is the known finding)
			}
			if r.Chance(1, 10) {
				q = q.Add(decimal.New(1, 0))
				tagset["wrong-assertion"] = true
			}
			j.Dirs = append(j.Dirs, JDir{Kind: 'a', Date: day, Balances: []JBal{{Account: a, Qty: q.String(), Com: c}}})
		default: // a close
			zero := true
			for _, c := range coms {
				if !pos[[2]string{a, c}].IsZero() {
					zero = false
				}
			}
			if !zero && isAL(a) && !r.Chance(1, 6) {
				continue
			}
			if !zero && isAL(a) {
				tagset["close-with-position"] = true
			}
			j.Dirs = append(j.Dirs, JDir{Kind: 'c', Date: day, Account: a})
			open[a] = false
			for _, c := range coms {
				delete(pos, [2]string{a, c})
			}
		}
	}
	tags := []string{"ledger"}
	for t := range tagset {
		tags = append(tags, t)
	}
	sort.Strings(tags)
	return j, tags
}

// the features forced onto a drawn vector (the filters and --close=false weigh double)
var c04BFFeatures = []string{"acc", "acc", "com", "com", "noclose", "noclose", "map0", "mapN", "remap", "val", "noval", "window", "last", "interval", "diff", "csv"}

// c04BalVector draws one flag vector for the journal.
func c04BalVector(r *RNG, j *Journal, val string) (BalFlags, []string) {
	f := GenBalFlags(r, j, val, BalGenOpts{Valued: val != "" && r.Bool()})
	accounts, coms := journalNames(j)
	lo, hi := 1<<30, 0
	for _, d := range j.Dirs {
		lo, hi = min(lo, d.Date), max(hi, d.Date)
	}
	if hi == 0 {
		lo, hi = 737000, 737100
	}
	pat := func() string { return genPattern(r, accounts) }
	compat := func() string {
		if len(coms) == 0 {
			return "^CHF$"
		}
		return "^" + Pick(r, coms) + "$"
	}
	several := func(one func() string) []string {
		ps := []string{one()}
		for r.Chance(1, 3) && len(ps) < 3 {
			ps = append(ps, one())
		}
		return ps
	}
	var forced []string
	chosen := map[string]bool{}
	if r.Chance(1, 4) {
		// a filter, no closing transactions, no valuation: nothing is derived from the postings
		chosen["noclose"], chosen["noval"] = true, true
		switch r.Intn(3) {
		case 0:
			chosen["acc"] = true
		case 1:
			chosen["com"] = true
		default:
			chosen["acc"], chosen["com"] = true, true
		}
	}
	for k := Pick(r, []int{0, 0, 1, 2, 2, 3}); k > 0; k-- {
		chosen[Pick(r, c04BFFeatures)] = true
	}
	if chosen["noval"] {
		chosen["val"] = false
	}
	seen := map[string]bool{}
	for _, ft := range c04BFFeatures { // (in the fixed order of the list: replayable)
		if !chosen[ft] || seen[ft] {
			continue
		}
		seen[ft] = true
		forced = append(forced, ft)
		switch ft {
		case "acc":
			f.Acc = several(pat)
		case "com":
			f.Com = several(compat)
		case "noclose":
			f.NoClose = true
		case "map0":
			m := MapRuleF{Level: 0}
			if r.Chance(3, 4) {
				m.Regex = pat()
			}
			f.Map = append([]MapRuleF{m}, f.Map...)
		case "mapN":
			m := MapRuleF{Level: r.Range(1, 3), Suffix: r.Intn(3)}
			if r.Chance(3, 4) {
				m.Regex = pat()
			}
			f.Map = append(f.Map, m)
		case "remap":
			f.Remap = several(pat)
		case "val":
			if f.Val == "" {
				f.Val = Pick(r, append([]string{"CHF"}, coms...))
			}
		case "noval":
			f.Val, f.Show = "", nil
		case "window":
			f.From, f.To = lo+r.Range(-5, (hi-lo)/2+3), hi+r.Range(-(hi-lo)/2-3, 40)
		case "last":
			f.Last = r.Range(1, 4)
		case "interval":
			f.Interval = r.Range(1, 5)
		case "diff":
			f.Diff = true
		case "csv":
			f.CSV, f.Thousands, f.Digits = true, false, 0
		}
	}
	if f.From < 0 || f.From > maxDay {
		f.From = 1
	}
	if f.To < 0 || f.To > maxDay {
		f.To = maxDay
	}
	// a moderate number of periods (the report is as wide as the window has periods)
	start, end := lo, max(hi, today())
	if f.From != 0 {
		start = f.From
	}
	if f.To != 0 {
		end = f.To
	}
	if span := end - start; (f.Interval == 1 && span > 1500) || (f.Interval == 2 && span > 10000) {
		f.Interval = 3
	}
	return f, forced
}

func runC04BalFlags(c *Ctx) {
	if c.KnutBin == "" {
		return
	}
	n := c.N(1200, 12000)
	dir := filepath.Join(c.WorkDir, "c04", "balflags")
	os.MkdirAll(dir, 0o755)
	defer os.RemoveAll(dir)
	t0 := time.Now()
	defer func() { c.Extra["balflags_wall_s"] = fmt.Sprintf("%.1f", time.Since(t0).Seconds()) }()
	bt := c.NewBatch()
	defer bt.Flush()
	const chunk = 64
	for base := 0; base < n; base += chunk {
		var cases []*c04BFCase
		type job struct {
			tc *c04BFCase
			ru *c04BFRun
		}
		var jobs []job
		for i := base; i < min(n, base+chunk); i++ {
			if !c.Want("balflags", i) {
				continue
			}
			r := c.Rng("balflags", i)
			var j *Journal
			var tags []string
			val := ""
			tc := &c04BFCase{i: i}
			switch r.Intn(6) {
			case 0:
				j, tags = c04ReopenJournal(r)
				tc.gen = "reopen"
			case 1:
				j, tags = c04TimelineJournal(r)
				tc.gen = "timeline"
				if r.Chance(1, 4) {
					val = "CHF"
				}
			case 2, 3:
				opts := JGenOpts{MaxAccounts: r.Range(2, 6), MaxDays: r.Range(1, 5), Mutate: true, Unicode: true, Accruals: r.Chance(1, 3), BaseDay: 737000 + r.Intn(2000), SpanDays: r.Range(0, 10)}
				if r.Bool() {
					opts.Prices, opts.Valuation = true, "CHF"
					val = "CHF"
				}
				j, tags = GenJournal(r, opts)
				tc.gen = "automaton"
			default:
				j, tags = c04LedgerJournal(r)
				tc.gen = "ledger"
				if r.Chance(1, 3) {
					val = "CHF"
				}
			}
			tags = append(tags, c04Reshape(r, j)...)
			text, offsets := j.Text()
			tc.text, tc.wire = text, j.Wire()
			tc.path = filepath.Join(dir, fmt.Sprintf("b%d.knut", i%chunk))
			if err := os.WriteFile(tc.path, []byte(text), 0o644); err != nil {
				fatalf("%v", err)
			}
			c.Evals++
			tc.verdict, _, _ = implCheck(tc.path, offsets)
			for _, t := range tags {
				c.Tag(t)
			}
			c.Tag("balflags:journal:" + tc.gen)
			for k := r.Range(2, 4); k > 0; k-- {
				f, forced := c04BalVector(r, j, val)
				ru := &c04BFRun{f: f, forced: forced, args: append(append([]string{"balance"}, f.Args()...), tc.path)}
				tc.runs = append(tc.runs, ru)
				jobs = append(jobs, job{tc, ru})
			}
			cases = append(cases, tc)
		}
		parallelFor(len(jobs), 4, func(k int) {
			ru := jobs[k].ru
			ru.code, ru.stdout, ru.stderr = runKnut(c.KnutBin, 60*time.Second, nil, ru.args...)
		})
		for _, tc := range cases {
			i := tc.i
			for _, ru := range tc.runs {
				ru := ru
				f := ru.f
				shown := strings.Join(ru.args[:len(ru.args)-1], " ")
				in := map[string]any{"journal": tc.text, "wire": tc.wire, "args": shown}
				for _, ft := range ru.forced {
					c.Tag("balflags:forced:" + ft)
				}
				filt := "nofilter"
				if len(f.Acc) > 0 && len(f.Com) > 0 {
					filt = "acc+com"
				} else if len(f.Acc) > 0 {
					filt = "acc"
				} else if len(f.Com) > 0 {
					filt = "com"
				}
				c.Class(fmt.Sprintf("c04/balflags/%s/%s/exit%d/%s/close%s/val%s/map%d/remap%s/iv%d", tc.gen, tc.verdict, ru.code, filt, b2s(!f.NoClose), b2s(f.Val != ""), min(len(f.Map), 2), b2s(len(f.Remap) > 0), f.Interval))
				if i < 2 && ru == tc.runs[0] {
					c.Sample(map[string]any{"stream": "balflags", "journal": tc.text, "args": shown, "exit": ru.code, "in_process_verdict": tc.verdict})
				}
				if ru.code != 0 && ru.code != 1 {
					c.Monitor("balflags", i, "balance_flags_exit_status", in, false, fmt.Sprintf("knut %s: exit %d (neither a report nor a diagnostic); stderr %q", shown, ru.code, clip(ru.stderr)))
					continue
				}
				if ru.code == 1 {
					c.Monitor("balflags", i, "balance_flags_rejection_has_diagnostic_and_no_report", in, strings.TrimSpace(ru.stderr) != "" && ru.stdout == "",
						fmt.Sprintf("knut %s: exit 1, stdout %q stderr %q", shown, clip(ru.stdout), clip(ru.stderr)))
				}
				cv := "ok"
				if ru.code != 0 {
					cv = "error"
				}
				priceErr := f.Val != "" && ru.code == 1 && (strings.Contains(ru.stderr, "no price found") || strings.Contains(ru.stderr, "invalid price"))
				bt.Add(func(mon string) {
					switch {
					case mon == "ok" || strings.HasPrefix(mon, "known "):
						c.Monitored++
					case mon == "fail spec=load-error" && ru.code == 1:
						c.Monitored++ // the loader rejects the journal (an accrual that cannot be expanded)
					case mon == "fail spec=ok" && priceErr:
						c.Tag("balflags:valued-run-stopped-on-a-price") // says nothing about the lifecycle
					default:
						c.Monitor("balflags", i, "balance_flags_accept_iff_wellformed", in, false,
							fmt.Sprintf("knut %s: exit %d (in-process check.Check without flags: %s), stderr %q => %s", shown, ru.code, tc.verdict, clip(ru.stderr), mon))
					}
				}, "c04mon", tc.wire, cv, "-")
			}
		}
	}
}

// ---------------------------------------------------------------- streams "regrace" and "multifile"
//
// The checker keeps ONE running quantity per account and commodity, and accounts and commodities are compared by
// identity: the verdict is the specification's only if every mention of a name, in whatever file and on whatever
// goroutine of the loader it is converted, yields the same value.  The loader converts every file of a journal on a
// goroutine of its own against shared registries, so this is a statement about schedules, which single-file journals and
// the (mostly sequentially arriving) members of the include trees never exercise.
//
//   - "regrace": fresh commodity and account registries per round; 2-32 goroutines, released together by closing a
//     channel after all of them have reported ready, ask for the same small set of names (1-4 commodities, 0-4 accounts,
//     nested ones that share parents, bare roots) through Get / MustGet / GetPath, each in an order of its own (same,
//     rotated, reversed, shuffled), some names registered beforehand (control), with or without a yield after the
//     barrier, under GOMAXPROCS default / 2 / 4 / 8.  Statement: every caller gets the identical value per name, it is the
//     value a later look-up returns, and no look-up of a valid name fails.  A case is 100 rounds (2 000 in a replay: the
//     schedule is not a function of the input).
//   - "multifile": a ledger / re-open / timeline journal (reshaped accounts as everywhere) dealt over 8-16 (thorough -32)
//     include files (round robin, uniformly, by kind of directive, by account), two cases in three with the same price
//     directives at the head of every member so that all members first mention the same commodities at the same moment;
//     assertions end up in other files than the bookings they are about.  Loaded 8 times (80 in a replay) through
//     journal.FromPath with fresh registries under GOMAXPROCS default / 2 / 4 / 16.  Statements: in the loaded journal
//     every account / commodity name stands for one value, and the verdict of check.Check is the Lean specification's
//     verdict on the union of the directives (`c04mon`).
//
// (Seeded change C04-k moved the allocation in commodity.Registry.Get in front of the write lock and dropped the second
// look-up under it: two goroutines that both miss get a commodity of their own for the same name.)

var c04RaceComs = []string{"CHF", "USD", "AAPL", "X", "Y", "EUR", "BTC", "A1", "Ünï", "日本", "VWRL", "x"}
var c04RaceAccs = []string{"Assets:Bank", "Assets:Bank:Savings", "Assets:Bank:Savings:2024", "Assets", "Liabilities", "Liabilities:Card", "Equity:Opening", "Expenses:Food", "Expenses:TBD", "Income:Salary", "Income:Bank", "Assets:A", "Assets:A:Sub", "Assets:Ax", "Equity"}

type c04RaceReq struct {
	kind byte // 'c' commodity, 'a' account by name, 'p' account by path
	name string
}

func runC04Concur(c *Ctx) {
	t0 := time.Now()
	defer func() { c.Extra["concur_wall_s"] = fmt.Sprintf("%.1f", time.Since(t0).Seconds()) }()
	c04RegRace(c)
	c04MultiFile(c)
}

func c04Distinct(r *RNG, pool []string, k int) []string {
	var res []string
	for len(res) < k {
		n := Pick(r, pool)
		if !contains(res, n) {
			res = append(res, n)
		}
	}
	return res
}

func c04RegRace(c *Ctx) {
	n := c.N(300, 4000)
	for i := 0; i < n; i++ {
		if !c.Want("regrace", i) {
			continue
		}
		r := c.Rng("regrace", i)
		rounds := 100
		if c.Replay {
			rounds = 2000
		}
		var reqs []c04RaceReq
		for _, nm := range c04Distinct(r, c04RaceComs, r.Range(1, 4)) {
			reqs = append(reqs, c04RaceReq{'c', nm})
		}
		pathAPI := r.Chance(1, 3)
		for _, nm := range c04Distinct(r, c04RaceAccs, r.Range(0, 4)) {
			k := byte('a')
			if pathAPI && r.Bool() {
				k = 'p'
			}
			reqs = append(reqs, c04RaceReq{k, nm})
		}
		// (accounts first, commodities first or mixed)
		switch r.Intn(3) {
		case 0:
			sort.SliceStable(reqs, func(a, b int) bool { return reqs[a].kind != 'c' && reqs[b].kind == 'c' })
		case 1:
			for k := len(reqs) - 1; k > 0; k-- {
				q := r.Intn(k + 1)
				reqs[k], reqs[q] = reqs[q], reqs[k]
			}
		}
		g := Pick(r, []int{2, 2, 3, 4, 8, 16, 32})
		orderKind := Pick(r, []string{"same", "same", "rotated", "reversed-odd", "shuffled"})
		orders := make([][]int, g)
		for w := range orders {
			o := make([]int, len(reqs))
			for k := range o {
				o[k] = k
			}
			switch orderKind {
			case "rotated":
				for k := range o {
					o[k] = (k + w) % len(reqs)
				}
			case "reversed-odd":
				if w%2 == 1 {
					for a, b := 0, len(o)-1; a < b; a, b = a+1, b-1 {
						o[a], o[b] = o[b], o[a]
					}
				}
			case "shuffled":
				for k := len(o) - 1; k > 0; k-- {
					q := r.Intn(k + 1)
					o[k], o[q] = o[q], o[k]
				}
			}
			orders[w] = o
		}
		var warm []int // registered before the barrier (control)
		if r.Chance(1, 4) {
			for k := range reqs {
				if r.Chance(1, 3) {
					warm = append(warm, k)
				}
			}
		}
		must := r.Chance(1, 4)
		yield := r.Chance(1, 3)
		procs := Pick(r, []int{0, 0, 0, 2, 4, 8})
		var names []string
		for _, q := range reqs {
			names = append(names, string(q.kind)+":"+q.name)
		}
		in := map[string]any{"requests": names, "goroutines": g, "orders": orderKind, "registered_before": warm, "must_get": must, "yield": yield, "gomaxprocs": procs, "rounds": rounds,
			"how": "fresh registry.New() per round; every goroutine waits for the close of one channel, then asks reg.Commodities().Get / reg.Accounts().Get / GetPath for the requests in its order"}
		c.Evals++
		get := func(reg *registry.Registry, q c04RaceReq) (res any, err error) {
			defer func() {
				if p := recover(); p != nil {
					err = fmt.Errorf("panic: %v", p)
				}
			}()
			switch q.kind {
			case 'c':
				if must {
					return reg.Commodities().MustGet(q.name), nil
				}
				return reg.Commodities().Get(q.name)
			case 'p':
				return reg.Accounts().GetPath(strings.Split(q.name, ":"))
			}
			if must {
				return reg.Accounts().MustGet(q.name), nil
			}
			return reg.Accounts().Get(q.name)
		}
		old := 0
		if procs > 0 {
			old = runtime.GOMAXPROCS(procs)
		}
		fail := ""
		failRound := -1
		for rd := 0; rd < rounds && fail == ""; rd++ {
			reg := registry.New()
			for _, k := range warm {
				get(reg, reqs[k])
			}
			got := make([][]any, g)
			errs := make([][]error, g)
			start := make(chan struct{})
			var ready, done sync.WaitGroup
			ready.Add(g)
			done.Add(g)
			for w := 0; w < g; w++ {
				w := w
				got[w], errs[w] = make([]any, len(reqs)), make([]error, len(reqs))
				go func() {
					defer done.Done()
					ready.Done()
					<-start
					if yield && w%2 == 0 {
						runtime.Gosched()
					}
					for _, k := range orders[w] {
						got[w][k], errs[w][k] = get(reg, reqs[k])
					}
				}()
			}
			ready.Wait()
			close(start)
			done.Wait()
			for k, q := range reqs {
				after, err := get(reg, q)
				if err != nil {
					fail = fmt.Sprintf("look-up of %s %q after the round fails: %v", string(q.kind), q.name, err)
					break
				}
				for w := 0; w < g && fail == ""; w++ {
					if errs[w][k] != nil {
						fail = fmt.Sprintf("goroutine %d: look-up of %q fails: %v", w, q.name, errs[w][k])
					} else if got[w][k] != after {
						{
							fail = fmt.Sprintf("%q: goroutine %d of %d holds a value (%p) that is not the one the registry returns afterwards (%p): a booking converted on that goroutine and an assertion converted on another one refer to different positions of the checker", q.name, w, g, got[w][k], after)
						}
					}
				}
				if fail != "" {
					break
				}
			}
			if fail != "" {
				failRound = rd
			}
		}
		if procs > 0 {
			runtime.GOMAXPROCS(old)
		}
		for _, q := range reqs {
			c.Tag("regrace:kind:" + string(q.kind))
		}
		c.Class(fmt.Sprintf("c04/regrace/g%d/%s/req%d/warm%s/must%s/yield%s/procs%d/path%s", g, orderKind, len(reqs), b2s(len(warm) > 0), b2s(must), b2s(yield), procs, b2s(pathAPI)))
		if i < 1 {
			c.Sample(map[string]any{"stream": "regrace", "input": in, "failed": fail})
		}
		detail := ""
		if fail != "" {
			detail = fmt.Sprintf("round %d of %d: %s", failRound, rounds, fail)
		}
		c.Monitor("regrace", i, "registry_one_value_per_name", in, fail == "", detail)
	}
}

// c04NameValues collects, for every account and commodity name of the loaded journal, the distinct values that stand for it.
func c04NameValues(jn *journal.Journal) (string, int) {
	coms := map[string]map[any]bool{}
	accs := map[string]map[any]bool{}
	add := func(m map[string]map[any]bool, name string, v any) {
		if m[name] == nil {
			m[name] = map[any]bool{}
		}
		m[name][v] = true
	}
	mentions := 0
	for _, d := range jn.Days {
		for _, p := range d.Prices {
			add(coms, p.Commodity.Name(), p.Commodity)
			add(coms, p.Target.Name(), p.Target)
			mentions += 2
		}
		for _, o := range d.Openings {
			add(accs, o.Account.Name(), o.Account)
			mentions++
		}
		for _, o := range d.Closings {
			add(accs, o.Account.Name(), o.Account)
			mentions++
		}
		for _, a := range d.Assertions {
			for _, b := range a.Balances {
				add(accs, b.Account.Name(), b.Account)
				add(coms, b.Commodity.Name(), b.Commodity)
				mentions += 2
			}
		}
		for _, t := range d.Transactions {
			for _, p := range t.Postings {
				add(accs, p.Account.Name(), p.Account)
				add(accs, p.Other.Name(), p.Other)
				add(coms, p.Commodity.Name(), p.Commodity)
				mentions += 3
			}
		}
	}
	var bad []string
	for n, vs := range coms {
		if len(vs) > 1 {
			bad = append(bad, fmt.Sprintf("commodity %q stands for %d distinct values", n, len(vs)))
		}
	}
	for n, vs := range accs {
		if len(vs) > 1 {
			bad = append(bad, fmt.Sprintf("account %q stands for %d distinct values", n, len(vs)))
		}
	}
	sort.Strings(bad)
	return strings.Join(bad, "; "), mentions
}

func c04MultiFile(c *Ctx) {
	n := c.N(120, 1200)
	dir := filepath.Join(c.WorkDir, "c04", "multifile")
	defer os.RemoveAll(dir)
	for i := 0; i < n; i++ {
		if !c.Want("multifile", i) {
			continue
		}
		r := c.Rng("multifile", i)
		var j *Journal
		var tags []string
		gen := "ledger"
		switch r.Intn(5) {
		case 0:
			j, tags = c04ReopenJournal(r)
			gen = "reopen"
		case 1:
			j, tags = c04TimelineJournal(r)
			gen = "timeline"
		default:
			j, tags = c04LedgerJournal(r)
		}
		tags = append(tags, c04Reshape(r, j)...)
		k := r.Range(8, 16)
		if c.Thorough() && r.Chance(1, 4) {
			k = r.Range(17, 32)
		}
		deal := Pick(r, []string{"round-robin", "uniform", "by-kind", "by-account"})
		files := make([][]JDir, k+1) // 0: the root
		accIdx := map[string]int{}
		for q, d := range j.Dirs {
			f := 0
			switch deal {
			case "round-robin":
				f = 1 + q%k
			case "uniform":
				f = r.Intn(k + 1)
			case "by-kind": // accounts file(s), transactions spread, assertions and closes elsewhere
				switch d.Kind {
				case 'o':
					f = 1 + r.Intn(2)
				case 'a':
					f = k - r.Intn(2)
				case 'c':
					f = k - 2
				case 'p':
					f = 3
				default:
					f = 1 + r.Intn(k)
				}
			default: // the bookings of an account in one file, what is asserted about it in the next one
				a := d.Account
				if d.Kind == 't' && len(d.Bookings) > 0 {
					a = d.Bookings[0].Debit
				} else if d.Kind == 'a' && len(d.Balances) > 0 {
					a = d.Balances[0].Account
				}
				if _, ok := accIdx[a]; !ok {
					accIdx[a] = len(accIdx)
				}
				f = 1 + (2*accIdx[a])%k
				if d.Kind == 'a' || d.Kind == 'c' {
					f = 1 + (2*accIdx[a]+1)%k
				}
			}
			files[f] = append(files[f], d)
		}
		// the same first mentions at the head of every member
		head := "none"
		if r.Chance(2, 3) {
			head = "prices"
			_, coms := journalNames(j)
			day := 737000
			if len(j.Dirs) > 0 {
				day = j.Dirs[0].Date
			}
			var pre []JDir
			for _, cm := range coms {
				if cm != "CHF" {
					pre = append(pre, JDir{Kind: 'p', Date: day, Com: cm, Price: "1.5", Target: "CHF"})
				}
			}
			if len(pre) == 0 {
				pre = append(pre, JDir{Kind: 'p', Date: day, Com: "USD", Price: "0.9", Target: "CHF"})
			}
			for f := 1; f <= k; f++ {
				files[f] = append(append([]JDir{}, pre...), files[f]...)
			}
		}
		incPos := Pick(r, []string{"top", "top", "bottom", "scattered"})
		os.RemoveAll(dir)
		os.MkdirAll(dir, 0o755)
		union := &Journal{Dirs: append([]JDir{}, files[0]...)}
		texts := map[string]string{}
		var root strings.Builder
		rootDirs := files[0]
		if incPos == "bottom" {
			for _, d := range rootDirs {
				root.WriteString(d.Text() + "\n")
			}
			rootDirs = nil
		}
		for f := 1; f <= k; f++ {
			name := fmt.Sprintf("m%02d.knut", f)
			root.WriteString("include \"" + name + "\"\n\n")
			if incPos == "scattered" && len(rootDirs) > 0 && r.Bool() {
				root.WriteString(rootDirs[0].Text() + "\n")
				rootDirs = rootDirs[1:]
			}
			m := &Journal{Dirs: files[f]}
			t, _ := m.Text()
			texts[name] = t
			union.Dirs = append(union.Dirs, files[f]...)
			if err := os.WriteFile(filepath.Join(dir, name), []byte(t), 0o644); err != nil {
				fatalf("%v", err)
			}
		}
		for _, d := range rootDirs {
			root.WriteString(d.Text() + "\n")
		}
		texts["main.knut"] = root.String()
		rootPath := filepath.Join(dir, "main.knut")
		if err := os.WriteFile(rootPath, []byte(root.String()), 0o644); err != nil {
			fatalf("%v", err)
		}
		wire := union.Wire()
		procs := Pick(r, []int{0, 0, 2, 4, 16})
		loads := 8
		if c.Replay {
			loads = 80
		}
		in := map[string]any{"files": texts, "wire": wire, "gomaxprocs": procs, "loads": loads, "how": "journal.FromPath(main.knut) with a fresh registry.New(), Build(), Process(check.Check())"}
		c.Evals++
		for _, t := range tags {
			c.Tag(t)
		}
		c.Tag("multifile:deal:" + deal)
		c.Tag("multifile:head:" + head)
		old := 0
		if procs > 0 {
			old = runtime.GOMAXPROCS(procs)
		}
		verdicts := map[string]string{}
		split := ""
		for l := 0; l < loads; l++ {
			func() {
				defer func() {
					if p := recover(); p != nil {
						verdicts["panic"] = fmt.Sprint(p)
					}
				}()
				reg := registry.New()
				b, err := journal.FromPath(context.Background(), reg, rootPath)
				if err != nil {
					verdicts["load-error"] = err.Error()
					return
				}
				jn := b.Build()
				if s, _ := c04NameValues(jn); s != "" && split == "" {
					split = fmt.Sprintf("load %d of %d: %s", l, loads, s)
				}
				if err := jn.Process(check.Check()); err != nil {
					verdicts["error"] = err.Error()
				} else {
					verdicts["ok"] = ""
				}
			}()
		}
		if procs > 0 {
			runtime.GOMAXPROCS(old)
		}
		c.Monitor("multifile", i, "loaded_journal_one_value_per_name", in, split == "", split+": the checker keeps one position per account and commodity VALUE")
		var vs []string
		for v := range verdicts {
			vs = append(vs, v)
		}
		sort.Strings(vs)
		for _, v := range vs {
			mon := c.Drv.Ask("c04mon", wire, v, "-")
			switch {
			case v != "panic" && (mon == "ok" || strings.HasPrefix(mon, "known ")):
				c.Monitored++
			default:
				c.Monitor("multifile", i, "multifile_accept_iff_wellformed", in, false, fmt.Sprintf("in-process verdict %s (%s) in at least one of %d loads (verdicts seen: %s) => %s", v, clip2(verdicts[v], 300), loads, strings.Join(vs, ","), mon))
			}
		}
		c.Class(fmt.Sprintf("c04/multifile/%s/%s/%s/head-%s/inc-%s/files%s/procs%d", gen, strings.Join(vs, "+"), deal, head, incPos, bucket(k), procs))
		if i < 1 {
			c.Sample(map[string]any{"stream": "multifile", "files": k + 1, "deal": deal, "head": head, "verdicts": vs})
		}
	}
}
