import Knut.Spec.ImportSpec
import Knut.Model.Import.Brokers
/-!
# C13: how each statement format is read (the specification side)

For every supported format: which records are booking rows, what their date, currency and signed amount are
(sign = the change of the *import account*: a card charge lowers the card account, a `Gutschrift` raises it, …),
and which balances / prices the statement carries.  These readers are total and ignore anything they cannot
read; they interpret field texts with the library models of `Model/Import/Common.lean`
(`decimal.NewFromString`, `time.Parse`).  Where an importer nets or rounds by design the reader says so.
-/
namespace Knut.Spec.Import
open Knut Knut.Import

def num (s : String) : Rat := (newFromString s).getD 0
def numApos (s : String) : Rat := (parseDecimalApos s).getD 0
def numComma (s : String) : Rat := (parseDecimalComma s).getD 0
def dateOf (layout : List LEl) (s : String) : Int := (parseDate layout s).getD 0
def nonEmpty (s : String) : Bool := s.utf8ByteSize > 0

/-! ### `ch.swisscard2`: every record after the header is a charge of `Betrag` (col 5) `Währung` (col 4) on `Transaktionsdatum` (col 0) -/
def swisscard2Row (r : Rec) : List Item := [.booking (dateOf layoutDMYdot (fldD r 0)) [(fldD r 4, -num (fldD r 5))]]
def swisscard2 (recs : List Rec) : List Item := (recs.drop 1).flatMap swisscard2Row

/-! ### `ch.swisscard`: records whose first two fields hold dates are charges of `Billing Amount` (col 3, `CHF1'234.50`) -/
def swisscardRow (r : Rec) : List Item :=
  if dateRe (fldD r 0) && dateRe (fldD r 1) then
    [.booking (dateOf layoutDMYdot (fldD r 0)) [("CHF", -num (String.ofList (Swisscard.stripChf (fldD r 3).toList)))]]
  else []
def swisscard (recs : List Rec) : List Item := recs.flatMap swisscardRow

/-! ### `ch.supercard`: after `sep=` and the header, records with an account number (col 0) other than `Saldovortrag`
lines; `Gutschrift` (col 11) raises, `Belastung` (col 10) lowers the account, in `Währung` (col 9), on `Einkaufsdatum` (col 3) -/
def supercardRow (r : Rec) : List Item :=
  if fldD r 4 = "Saldovortrag" || r.length = 11 || fldD r 0 = "" then []
  else [.booking (dateOf layoutDMYdot (fldD r 3))
    [(fldD r 9, if nonEmpty (fldD r 11) then num (fldD r 11) else -num (fldD r 10))]]
def supercard (recs : List Rec) : List Item := (recs.drop 2).flatMap supercardRow

/-! ### `ch.cumulus`: rounding lines (date, `Rundungskorrektur`, Gutschrift, Belastung) and booking lines
(two dates, text, Gutschrift, Belastung); FX comment lines only extend the previous description -/
def cumulusAmount (belastung gutschrift : String) : Rat :=
  if nonEmpty belastung then -numApos belastung else numApos gutschrift
def cumulusRow (r : Rec) : List Item :=
  if dateRe (fldD r 0) && fldD r 1 = "Rundungskorrektur" then
    [.booking (dateOf layoutDMYdot (fldD r 0)) [("CHF", cumulusAmount (fldD r 3) (fldD r 2))]]
  else if Cumulus.isFxComment r then []
  else if dateRe (fldD r 0) && dateRe (fldD r 1) then
    [.booking (dateOf layoutDMYdot (fldD r 0)) [("CHF", cumulusAmount (fldD r 4) (fldD r 3))]]
  else []
def cumulus (recs : List Rec) : List Item := recs.flatMap cumulusRow

/-! ### `ch.postfinance`: after the key/value block and the header, records of 7–8 fields are bookings of
`Gutschrift` (col 2) or the already negative `Lastschrift` (col 3) in the statement's `Währung:` (default CHF) -/
def postfinanceCurrency : Option String → List Rec → Commodity × List Rec
  | cur, [] => ((cur.map (trimCutset ['=', '"'])).getD "CHF", [])
  | cur, r :: rs =>
    if r.length ≠ 2 then ((cur.map (trimCutset ['=', '"'])).getD "CHF", rs)
    else postfinanceCurrency (if fldD r 0 = "Währung:" then some (fldD r 1) else cur) rs
def postfinanceRows (cur : Commodity) : List Rec → List Item
  | [] => []
  | r :: rs =>
    if r.length < 7 || r.length > 8 then []
    else .booking (dateOf layoutDMYdot (fldD r 0))
      [(cur, if nonEmpty (fldD r 2) then numApos (fldD r 2) else numApos (fldD r 3))] :: postfinanceRows cur rs
def postfinance (recs : List Rec) : List Item :=
  let (cur, rest) := postfinanceCurrency none recs
  postfinanceRows cur rest

/-! ### `revolut2`: rows with a completed date change the account by `Amount` (col 5) minus `Fee` (col 6) in `Currency`
(col 7); the statement carries, per day and currency, the `Balance` (col 9) of the last such row -/
def dateOf10 (layout : List LEl) (s : String) : Int :=
  match parseDatePrefix10 layout s with
  | .ok d => d
  | _ => 0
def revolut2Row (r : Rec) : List Item :=
  if fldD r 3 = "" then []
  else [.booking (dateOf10 layoutYMD (fldD r 3)) [(fldD r 7, num (fldD r 5)), (fldD r 7, -num (fldD r 6))]]
def revolut2Balances : List ((Int × Commodity) × Rat) → List Rec → List ((Int × Commodity) × Rat)
  | m, [] => m
  | m, r :: rs =>
    if fldD r 3 = "" then revolut2Balances m rs
    else revolut2Balances (Revolut2.setBalance m (dateOf10 layoutYMD (fldD r 3), fldD r 7) (num (fldD r 9))) rs
def revolut2 (recs : List Rec) : List Item :=
  (recs.drop 1).flatMap revolut2Row ++
    (Revolut2.sortKeys (revolut2Balances [] (recs.drop 1))).map (fun e => .assertion e.1.1 e.2 e.1.2)

/-! ### `revolut`: the currency stands in the header (`Paid Out (EUR)`); every row pays out (col 2) or in (col 3); exchange
rows (`Sold X to Y` / `Bought X from Y`) also move the other currency (cols 4 / 5); the first row of each run of equal
dates carries the day's balance (col 6) -/
def combiOf (f : String) : Commodity × Rat :=
  match fields f with
  | [c, a] => (c, numApos a)
  | _ => ("", 0)
def revolutRows (cur : Commodity) : Int → List Rec → List Item
  | _, [] => []
  | prev, r :: rs =>
    let d := dateOf layoutDMonY (fldD r 0)
    let q := if nonEmpty (fldD r 2) then -numApos (fldD r 2) else numApos (fldD r 3)
    let other : List (Commodity × Rat) :=
      if fxSellRe (fldD r 1) then [((combiOf (fldD r 4)).1, (combiOf (fldD r 4)).2)]
      else if fxBuyRe (fldD r 1) then [((combiOf (fldD r 5)).1, -(combiOf (fldD r 5)).2)]
      else []
    (if d ≠ prev then [Item.assertion d (numApos (fldD r 6)) cur] else []) ++
      Item.booking d ((cur, q) :: other) :: revolutRows cur d rs
def revolut (recs : List Rec) : List Item :=
  match recs with
  | [] => []
  | h :: rs => revolutRows ((paidOutRe (fldD h 2)).getD "") 0 rs

/-! ### `com.wise`: a row that is not cancelled; fees (cols 5–8) leave the account.  With equal source and target
currency the source amount (col 10) leaves (`OUT`) or enters (`IN`) the account.  With different currencies the row is
a conversion (source amount out, target amount (col 13) in) followed, for `OUT`/`IN`, by the payment of the target
amount — the importer books these as **two** transactions. -/
def wiseFee (amount currency : String) : List (Commodity × Rat) :=
  if nonEmpty currency then [(currency, -num amount)] else []
def wiseRow (r : Rec) : List Item :=
  let d := dateOf10 layoutYMD (fldD r 3)
  let fees := wiseFee (fldD r 5) (fldD r 6) ++ wiseFee (fldD r 7) (fldD r 8)
  let sa := num (fldD r 10)
  let ta := num (fldD r 13)
  let sc := fldD r 11
  let tc := fldD r 14
  let dir := fldD r 2
  if fldD r 1 = "CANCELLED" then []
  else if sc ≠ tc then
    .booking d (fees ++ [(sc, -sa), (tc, ta)]) ::
      (if dir = "OUT" then [.booking d [(tc, -ta)]] else if dir = "IN" then [.booking d [(tc, ta)]] else [])
  else if dir = "OUT" then [.booking d (fees ++ [(sc, -sa)])]
  else if dir = "IN" then [.booking d (fees ++ [(sc, sa)])]
  else []
def wise (recs : List Rec) : List Item := (recs.drop 1).flatMap wiseRow

/-! ### `ch.viac`: every daily value on or after `--from` that is not zero is a price of the portfolio commodity in CHF,
rounded to cents -/
def viacEntry (com : Commodity) (fromDay : Int) (e : String × String) : List Item :=
  if dateOf layoutYMD e.1 < fromDay || num e.2 = 0 then []
  else [.price (dateOf layoutYMD e.1) com (Dec.roundHalfAway 2 (num e.2)) "CHF"]
def viac (com : Commodity) (fromDay : Int) (es : List (String × String)) : List Item := es.flatMap (viacEntry com fromDay)

/-! ### `ch.swissquote`: `Nettobetrag` (col 10) in `Währung` (col 12) is the change of the cash account for every row
type; trades also move `Anzahl` (col 6) of `Symbol` (col 3): in for a `Kauf`, out for a `Verkauf`; the two halves of a
forex pair are two rows booked as **one** transaction on the second row's date; dividends are booked as
`Stückpreis` (col 7, the gross amount) minus `Kosten` (col 8, the tax withheld). -/
def swissquoteRows : Option Rec → List Rec → List Item
  | _, [] => []
  | last, l :: ls =>
    let d := dateOf10 layoutDMYdash (fldD l 0)
    let ty := fldD l 2
    let cur := fldD l 12
    let net := numApos (fldD l 10)
    let fee := numApos (fldD l 8)
    if ty = "Kauf" || ty = "Verkauf" then
      .booking d [(fldD l 3, if ty = "Verkauf" then -numApos (fldD l 6) else numApos (fldD l 6)), (cur, net)] ::
        swissquoteRows last ls
    else if Swissquote.forexTypes.contains ty then
      match last with
      | none => swissquoteRows (some l) ls
      | some f => .booking d [(fldD f 12, numApos (fldD f 10)), (cur, net)] :: swissquoteRows none ls
    else if Swissquote.dividendTypes.contains ty then
      .booking d [(cur, numApos (fldD l 7)), (cur, -fee)] :: swissquoteRows last ls
    else .booking d [(cur, net)] :: swissquoteRows last ls
def swissquote (recs : List Rec) : List Item := swissquoteRows none (recs.drop 1)

/-! ### `us.interactivebrokers`: trades, deposits/withdrawals, dividends, interest and withholding tax rows are bookings;
the open positions and forex balances are balances at the end of the statement period.  The importer rounds trade
quantities, proceeds, forex fees, deposits and forex balances to two decimals — the reader states the amounts
**as rounded**. -/
def round2 (s : String) : Rat := Dec.roundHalfAway 2 (numComma s)
def isTrue : Res Bool → Bool
  | .ok b => b
  | _ => false
/-- what a reader of one record kind says: `some` = the record is of that kind (new reader state, items) -/
abbrev SOut := Option (IB.St × List Item)

def ibBaseCurrency (st : IB.St) (r : Rec) : SOut :=
  if isTrue (IB.condEq r [(0, "Account Information"), (1, "Data"), (2, "Base Currency")]) then
    some ({ st with base := some (fldD r 3) }, [])
  else none

/-- the statement period `<from> - <to>`: balances are stated for its last day -/
def ibPeriod (st : IB.St) (r : Rec) : SOut :=
  if isTrue (IB.condEq r [(0, "Statement"), (1, "Data"), (2, "Period")]) then
    some ({ st with dateTo := dateOf layoutLong (fldD ((IB.splitOnChars " - ".toList (fldD r 3).toList).map String.ofList) 1) }, [])
  else none

/-- a forex trade moves `Quantity` (col 7) of the first currency of the pair (col 5), `Proceeds` (col 10) of `Currency`
(col 4) and the commission (col 11) in the base currency -/
def ibForex (st : IB.St) (r : Rec) : SOut :=
  if isTrue (IB.condEq r [(0, "Trades"), (1, "Data"), (2, "Order"), (3, "Forex")]) then
    some (st, [.booking (dateOf10 layoutYMD (fldD r 6))
      ([(String.ofList ((fldD r 5).toList.takeWhile (· != '.')), round2 (fldD r 7)), (fldD r 4, round2 (fldD r 10))] ++
        (if round2 (fldD r 11) = 0 then [] else [(st.base.getD "", round2 (fldD r 11))]))])
  else none

/-- a stock trade moves `Quantity` of `Symbol` (col 5) and `Proceeds` plus `Comm/Fee` (col 11) of `Currency` -/
def ibTrade (st : IB.St) (r : Rec) : SOut :=
  if isTrue (IB.condEq r [(0, "Trades"), (1, "Data"), (2, "Order"), (3, "Stocks")]) then
    some (st, [.booking (dateOf10 layoutYMD (fldD r 6))
      [(fldD r 5, round2 (fldD r 7)), (fldD r 4, round2 (fldD r 10)), (fldD r 4, num (fldD r 11))]])
  else none

def ibDeposit (st : IB.St) (r : Rec) : SOut :=
  if isTrue (IB.condDeposit r) then
    some (st, [.booking (dateOf layoutYMD (fldD r 3)) [(fldD r 2, round2 (fldD r 5))]])
  else none

/-- dividends, interest and withholding tax rows: `Amount` (col 5) of `Currency` (col 2) on `Date` (col 3) -/
def ibCash (sec : String) (six : Bool) (st : IB.St) (r : Rec) : SOut :=
  if isTrue (IB.condSection sec r) && (!six || r.length == 6) then
    some (st, [.booking (dateOf layoutYMD (fldD r 3)) [(fldD r 2, numComma (fldD r 5))]])
  else none

def ibPositions (st : IB.St) (r : Rec) : SOut :=
  if isTrue (IB.condEq r [(0, "Open Positions"), (1, "Data"), (2, "Summary")]) then
    some (st, [.assertion st.dateTo (num (fldD r 6)) (fldD r 5)])
  else none

def ibForexBalances (st : IB.St) (r : Rec) : SOut :=
  if isTrue (IB.condEq r [(0, "Forex Balances"), (1, "Data"), (2, "Forex")]) then
    some (st, [.assertion st.dateTo (round2 (fldD r 5)) (fldD r 4)])
  else none

/-- the first reader that recognises the record -/
def firstSome : List (IB.St → Rec → SOut) → IB.St → Rec → IB.St × List Item
  | [], st, _ => (st, [])
  | p :: ps, st, r =>
    match p st r with
    | some x => x
    | none => firstSome ps st r

def ibReaders : List (IB.St → Rec → SOut) :=
  [ibBaseCurrency, ibPeriod, ibForex, ibTrade, ibDeposit, ibCash "Dividends" true, ibCash "Interest" true,
   ibCash "Withholding Tax" false, ibPositions, ibForexBalances]

def ibRows : IB.St → List Rec → List Item
  | _, [] => []
  | st, r :: rs => (firstSome ibReaders st r).2 ++ ibRows (firstSome ibReaders st r).1 rs

def interactivebrokers (recs : List Rec) : List Item := ibRows {} recs

end Knut.Spec.Import
