import Knut.Basic.Dec
import Knut.Model.Core
/-!
# Model of `lib/model/price/prices.go` and of `journal.ComputePrices`

Go maps are association lists (`AMap`) accessed only through `find` (lookup), `set`
(functional update) and `keys` (the keys *in the list's order*, which stands for Go's
unspecified iteration order).  `Prices.normalize` ranges over `dict.SortedKeys`, i.e. it
sorts the keys by commodity name before use; the model does the same (`sortedKeys`), and
`Proofs/Prices*.lean` shows that the result is therefore the same for every order of the
association lists.

A commodity is its name (the registry interns commodities by name, so pointer equality
in Go is name equality here).
-/
namespace Knut.Prices
open Knut Knut.Dec

/-- association list standing for a Go map keyed by commodity -/
abbrev AMap (β : Type) := List (Commodity × β)

/-- `m[k]` with the `ok` flag -/
def find {β : Type} (k : Commodity) : AMap β → Option β
  | [] => none
  | (a, b) :: rest => if a = k then some b else find k rest

/-- `delete(m, k)` -/
def del {β : Type} (k : Commodity) : AMap β → AMap β
  | [] => []
  | (a, b) :: rest => if a = k then del k rest else (a, b) :: del k rest

/-- `m[k] = v` -/
def set {β : Type} (m : AMap β) (k : Commodity) (v : β) : AMap β := (k, v) :: del k m

/-- the keys in map-iteration order -/
def keys {β : Type} (m : AMap β) : List Commodity := m.map (·.1)

/-- `price.NormalizedPrices` -/
abbrev NPrices := AMap Rat
/-- `price.Prices`: outer key = target commodity, inner key = commodity, value = price of the
inner commodity in the outer one -/
abbrev Prices := AMap NPrices

/-- the argument of `Truncate` in `price.Multiply` (tied to the source by `FactsAgree/C12.lean`) -/
def multiplyPlaces : Nat := 8
/-- the argument of `Truncate` in `Prices.Insert` -/
def insertPlaces : Nat := 8
/-- `normalize` ranges over `dict.SortedKeys(ps[c], commodity.Compare)`, not over the map itself -/
def sortsNeighbors : Bool := true

/-- `price.Multiply`: `n1.Mul(n2).Truncate(8)` -/
def multiply (a b : Rat) : Rat := trunc multiplyPlaces (a * b)

/-- the reciprocal stored by `Insert`: `one.Div(price).Truncate(8)` -/
def recip (p : Rat) : Rat := trunc insertPlaces (div16 1 p)

/-- `Prices.addPrice`: `dict.GetDefault(ps, target, newNormalizedPrices)[commodity] = price` -/
def addPrice (ps : Prices) (target commodity : Commodity) (price : Rat) : Prices :=
  set ps target (set ((find target ps).getD []) commodity price)

/-- one price declaration `price <commodity> <price> <target>` -/
structure Decl where
  commodity : Commodity
  price : Rat
  target : Commodity
  deriving DecidableEq, Repr, Inhabited

/-- `Prices.Insert`; `none` is the "invalid price" error -/
def insert (ps : Prices) (d : Decl) : Option Prices :=
  if d.price = 0 then none
  else some (addPrice (addPrice ps d.target d.commodity d.price) d.commodity d.target (recip d.price))

/-- a sequence of `Insert` calls, stopping at the first error -/
def insertAll (ps : Prices) : List Decl → Option Prices
  | [] => some ps
  | d :: ds => match insert ps d with
    | none => none
    | some ps' => insertAll ps' ds

/-- `ps[a][b]` with presence: the stored price of `b` in `a` -/
def edge (ps : Prices) (a b : Commodity) : Option Rat := (find a ps).bind (find b)

/-- `ps[c][n]` as Go evaluates it (zero value when absent) -/
def price (ps : Prices) (c n : Commodity) : Rat := (edge ps c n).getD 0

/-- `compare.Sort(keys, commodity.Compare)`: ascending by name (byte order = code point order) -/
def sortNames (ks : List Commodity) : List Commodity := ks.mergeSort (fun a b => decide (a ≤ b))

/-- `dict.SortedKeys(ps[c], commodity.Compare)` -/
def neighbors (ps : Prices) (c : Commodity) : List Commodity :=
  sortNames (keys ((find c ps).getD []))

/-- body of the inner `for … range` of `normalize` for one neighbour `n` of `c`;
state = (queue, res) -/
def visit (ps : Prices) (c : Commodity) (st : List Commodity × NPrices) (n : Commodity) :
    List Commodity × NPrices :=
  if (find n st.2).isSome then st
  else (st.1 ++ [n], set st.2 n (multiply (price ps c n) ((find c st.2).getD 0)))

/-- every commodity that occurs as an inner key -/
def allNames (ps : Prices) : List Commodity := ps.flatMap (fun e => keys e.2)

/-- number of (occurrences of) commodities that have no price yet: the termination measure -/
def unvisited (ps : Prices) (res : NPrices) : Nat :=
  ((allNames ps).filter (fun k => (find k res).isNone)).length

theorem find_set_self {β : Type} (m : AMap β) (k : Commodity) (v : β) : find k (set m k v) = some v := by
  simp [set, find]

theorem find_del_ne {β : Type} (m : AMap β) (k d : Commodity) (h : d ≠ k) :
    find d (del k m) = find d m := by
  induction m with
  | nil => rfl
  | cons e rest ih =>
    obtain ⟨a, b⟩ := e
    by_cases hak : a = k
    · subst hak
      have : a ≠ d := fun x => h x.symm
      simp [del, find, this, ih]
    · by_cases had : a = d
      · subst had
        simp [del, find, hak]
      · simp [del, find, hak, had, ih]

theorem find_del_self {β : Type} (m : AMap β) (k : Commodity) : find k (del k m) = none := by
  induction m with
  | nil => rfl
  | cons e rest ih =>
    obtain ⟨a, b⟩ := e
    by_cases hak : a = k
    · simp [del, hak, ih]
    · simp [del, find, hak, ih]

theorem find_set_ne {β : Type} (m : AMap β) (k d : Commodity) (v : β) (h : d ≠ k) :
    find d (set m k v) = find d m := by
  have : k ≠ d := fun x => h x.symm
  simp [set, find, this, find_del_ne m k d h]

theorem mem_keys_of_find {β : Type} {m : AMap β} {k : Commodity} {v : β} (h : find k m = some v) :
    k ∈ keys m := by
  induction m with
  | nil => simp [find] at h
  | cons e rest ih =>
    obtain ⟨a, b⟩ := e
    by_cases hak : a = k
    · simp [keys, hak]
    · simp only [find, hak, if_false] at h
      have := ih h
      simp only [keys, List.map_cons, List.mem_cons] at this ⊢
      exact Or.inr this

theorem find_isSome_of_mem_keys {β : Type} {m : AMap β} {k : Commodity} (h : k ∈ keys m) :
    (find k m).isSome := by
  induction m with
  | nil => simp [keys] at h
  | cons e rest ih =>
    obtain ⟨a, b⟩ := e
    by_cases hak : a = k
    · simp [find, hak]
    · simp only [keys, List.map_cons, List.mem_cons] at h
      rcases h with h | h
      · exact absurd h.symm hak
      · simp only [find, hak, if_false]; exact ih h

theorem mem_of_find {β : Type} {m : AMap β} {k : Commodity} {v : β} (h : find k m = some v) :
    (k, v) ∈ m := by
  induction m with
  | nil => simp [find] at h
  | cons e rest ih =>
    obtain ⟨a, b⟩ := e
    by_cases hak : a = k
    · simp only [find, hak, if_true, Option.some.injEq] at h
      subst hak; subst h; simp
    · simp only [find, hak, if_false] at h
      exact List.mem_cons_of_mem _ (ih h)

theorem sortNames_perm (ks : List Commodity) : (sortNames ks).Perm ks := List.mergeSort_perm _ _

theorem mem_sortNames {ks : List Commodity} {k : Commodity} : k ∈ sortNames ks ↔ k ∈ ks :=
  (sortNames_perm ks).mem_iff

/-- a neighbour of `c` is an inner key of the outer entry of `c`, hence in the allNames -/
theorem neighbors_sub_universe (ps : Prices) (c n : Commodity) (h : n ∈ neighbors ps c) :
    n ∈ allNames ps := by
  unfold neighbors at h
  rw [mem_sortNames] at h
  cases hf : find c ps with
  | none => simp [hf, keys] at h
  | some m =>
    simp only [hf, Option.getD_some] at h
    have := mem_of_find hf
    unfold allNames
    exact List.mem_flatMap.mpr ⟨(c, m), this, h⟩

theorem filter_length_lt {α : Type} (p q : α → Bool) (l : List α) (himp : ∀ a, q a = true → p a = true)
    (n : α) (hn : n ∈ l) (hp : p n = true) (hq : q n = false) :
    (l.filter q).length < (l.filter p).length := by
  induction l with
  | nil => simp at hn
  | cons a rest ih =>
    have hle : (rest.filter q).length ≤ (rest.filter p).length := by
      clear ih hn
      induction rest with
      | nil => simp
      | cons b r ih2 =>
        simp only [List.filter]
        cases hqb : q b <;> cases hpb : p b <;> simp <;> try omega
        have := himp b hqb; simp [hpb] at this
    rcases List.mem_cons.mp hn with rfl | hn'
    · simp only [List.filter, hp, hq, List.length_cons]; omega
    · have := ih hn'
      simp only [List.filter]
      cases hqa : q a <;> cases hpa : p a <;> simp <;> try omega
      have := himp a hqa; simp [hpa] at this

/-- giving a price to a commodity of the allNames that had none decreases the measure -/
theorem unvisited_set_lt (ps : Prices) (res : NPrices) (n : Commodity) (x : Rat)
    (hn : n ∈ allNames ps) (hnone : (find n res).isSome = false) :
    unvisited ps (set res n x) < unvisited ps res := by
  unfold unvisited
  apply filter_length_lt _ _ _ _ n hn
  · simpa using hnone
  · simp [find_set_self]
  · intro a ha
    by_cases han : a = n
    · subst han; simpa using hnone
    · rw [find_set_ne _ _ _ _ han] at ha; exact ha

/-- one `visit` never increases `unvisited + queue length` -/
theorem visit_measure (ps : Prices) (c n : Commodity) (st : List Commodity × NPrices) (hn : n ∈ allNames ps) :
    unvisited ps (visit ps c st n).2 + (visit ps c st n).1.length ≤ unvisited ps st.2 + st.1.length := by
  unfold visit
  split
  · exact Nat.le_refl _
  · rename_i h
    have := unvisited_set_lt ps st.2 n (multiply (price ps c n) ((find c st.2).getD 0)) hn (by simpa using h)
    simp only [List.length_append, List.length_cons, List.length_nil]
    omega

theorem visitAll_measure (ps : Prices) (c : Commodity) (ns : List Commodity) (st : List Commodity × NPrices)
    (hns : ∀ n ∈ ns, n ∈ allNames ps) :
    unvisited ps (ns.foldl (visit ps c) st).2 + (ns.foldl (visit ps c) st).1.length
      ≤ unvisited ps st.2 + st.1.length := by
  induction ns generalizing st with
  | nil => exact Nat.le_refl _
  | cons n rest ih =>
    simp only [List.foldl_cons]
    have h1 := ih (visit ps c st n) (fun m hm => hns m (List.mem_cons_of_mem _ hm))
    have h2 := visit_measure ps c n st (hns n (List.mem_cons_self))
    omega

/-- the `for len(queue) > 0` loop of `Prices.normalize`.  Terminates because every pass either
gives a price to a commodity that had none (there are finitely many) or shortens the queue. -/
def normLoop (ps : Prices) (queue : List Commodity) (res : NPrices) : NPrices :=
  match queue with
  | [] => res
  | c :: rest =>
    normLoop ps ((neighbors ps c).foldl (visit ps c) (rest, res)).1
      ((neighbors ps c).foldl (visit ps c) (rest, res)).2
termination_by unvisited ps res + queue.length
decreasing_by
  have := visitAll_measure ps c (neighbors ps c) (rest, res) (neighbors_sub_universe ps c)
  simp only [List.length_cons] at this ⊢
  omega

/-- `Prices.Normalize(t)` -/
def normalize (ps : Prices) (t : Commodity) : NPrices := normLoop ps [t] [(t, 1)]

/-- `NormalizedPrices.Price`; `none` is the "no price found" error -/
def npPrice (np : NPrices) (c : Commodity) : Option Rat := find c np

/-- `NormalizedPrices.Valuate`; `none` is the "no price found" error -/
def npValuate (np : NPrices) (c : Commodity) (a : Rat) : Option Rat :=
  match find c np with
  | none => none
  | some p => some (multiply a p)

/-! ## `journal.ComputePrices` -/

/-- the prices of one journal day, in file order -/
structure Day where
  date : Int
  prices : List Decl
  deriving Repr, Inhabited

/-- state of the `ComputePrices` processor: the price map and the last normalisation
(`none` = Go's nil map, in which no commodity has a price) -/
structure CPState where
  prc : Prices := []
  previous : Option NPrices := none
  deriving Repr, Inhabited

/-- `Processor.Process` for one day with the callbacks of `ComputePrices(v)`: `Price` for every price
of the day, then `DayEnd`.  Result: the new state and `d.Normalized`; `none` = the error of `Insert`. -/
def cpDay (v : Commodity) (st : CPState) (d : Day) : Option (CPState × Option NPrices) :=
  match insertAll st.prc d.prices with
  | none => none
  | some prc =>
    let previous := if d.prices.length > 0 then some (normalize prc v) else st.previous
    some ({ prc := prc, previous := previous }, previous)

/-- `Journal.Process(ComputePrices(v))` over the days in date order: `d.Normalized` of every day -/
def computePrices (v : Commodity) (st : CPState) : List Day → Option (List (Int × Option NPrices))
  | [] => some []
  | d :: ds => match cpDay v st d with
    | none => none
    | some (st', n) => match computePrices v st' ds with
      | none => none
      | some rest => some ((d.date, n) :: rest)

/-- `journal.Builder.Add` + `Build`: directives are grouped by date (file order kept within a date),
days sorted by date.  `insertDay` is the grouping of one directive: a price (`some d`) or any other
directive (`none`), which only makes the day exist. -/
def insertDay (days : List Day) (date : Int) (d : Option Decl) : List Day :=
  match days with
  | [] => [{ date := date, prices := d.toList }]
  | x :: rest =>
    if date < x.date then { date := date, prices := d.toList } :: x :: rest
    else if date = x.date then { x with prices := x.prices ++ d.toList } :: rest
    else x :: insertDay rest date d

/-- the journal's days from dated directives in file order -/
def buildDays (ds : List (Int × Option Decl)) : List Day := ds.foldl (fun acc e => insertDay acc e.1 e.2) []

end Knut.Prices
