import Knut.Generated.TransWeights
import Knut.FactsAgree.TransWeights
import Knut.FactsAgree.TransWeightsTree
import Knut.FactsAgree.TransMapping
import Knut.Model.Weights
/-!
# `weights.Query.Execute` (the DayEnd closure: the per-day part of `knut portfolio weights`) against the model's `Weights.queryDay`

`Query.Execute` as a whole is outside the translator's subset (a set of `*journal.Day` pointers, a closure that assigns through the
captured `r`, an `append` onto a sub-slice that writes into the universe).  `harness/trans_units_weightsquery.go` translates two
FRAGMENTS of the DayEnd closure and PINS THE REST BY SOURCE TEXT:

| part of the closure | how it is tied | here |
|---|---|---|
| `var total float64; for _, com := range dict.SortedKeys(d.Performance.V1, …) { total += d.Performance.V1[com] }` | translated: `Query.Execute.total` | `Query_total_agrees` (= `sumVals v1`) |
| `v := d.Performance.V1[com]; ss := q.Universe.Locate(com); level, suffix, ok := q.Mapping.Level(strings.Join(ss, ":"))` | translated: `Query.Execute.locate` | `Query_locate_agrees` (`locate`, `mappingLevel`) |
| `if ok && level < len(ss)-suffix { ss = append(ss[:level], ss[len(ss)-suffix:]...) }` | pinned text (`pins`), meaning by hand: `shortenGo` + `writeU` | `shortenGo_agrees`, `goStep_agrees` (`shortenPath`) |
| `r.Add(ss, d.Date, v/total)` | pinned text; meaning: the TRANSLATED `Report.Add` on `F64.divE v total` | `goStep` |
| the loop header, `if !days.Has(d) { return nil }`, `days := set.FromSlice(j.Days(q.Partition.EndDates()))`, the final `return nil` | pinned text; meaning by hand: `goDay` (a `foldlE` over `sortedKeys`; `days.Has(d)` ⇔ the day's date is an end date: the builder holds one `*Day` per date) | `Query_DayEnd_agrees_of_order` (`queryDay`) |

**The hand reading of the in-place `append`** (`shortenGo`): with `0 ≤ level < len(ss) - suffix` and `0 ≤ suffix` the result
`ss[:level] ++ ss[len(ss)-suffix:]` has `level + suffix < len(ss) ≤ cap(ss[:level])` elements, so Go's `append` never reallocates: it
copies the tail into the array behind `ss` from index `level` on and leaves the rest of that array alone.  The array is the one
`Universe.Locate` returned: the map entry itself when the commodity is classified (the translated `Universe.Locate` returns `class_`),
a fresh literal otherwise (`writeU`).  A change of any pinned statement breaks `pins`; a change of the translated fragments breaks the
agreement theorems.
-/
namespace Knut.FactsAgree.TransWeightsQuery
open Knut Knut.GoSem Knut.MapSum
open Knut.Generated.Go
open Knut.FactsAgree.TransPosting (commodityGo)
open Knut.FactsAgree.TransPerformance
open Knut.FactsAgree.TransMapping

/-- the statements of `Query.Execute` that are not translated, by their source text; no call of an untranslated function inside the
translated fragments -/
theorem pins :
    weights.Query.Execute.days.text = "days := set.FromSlice(j.Days(q.Partition.EndDates()))" ∧
    weights.Query.Execute.guard.text = "if !days.Has(d) { return nil }" ∧
    weights.Query.Execute.loop.text = "for _, com := range dict.SortedKeys(d.Performance.V1, commodity.Compare)" ∧
    weights.Query.Execute.shorten.text = "if ok && level < len(ss)-suffix { ss = append(ss[:level], ss[len(ss)-suffix:]...) }" ∧
    weights.Query.Execute.add.text = "r.Add(ss, d.Date, v/total)" ∧
    weights.Query.Execute.end.text = "return nil" ∧
    weights.Query.Execute.total.externals = [] ∧
    weights.Query.Execute.locate.externals = [] :=
  ⟨rfl, rfl, rfl, rfl, rfl, rfl, rfl, rfl⟩

@[simp] theorem bind_ok' {α β : Type} (a : α) (f : α → GoSem.Outcome β) : GoSem.Outcome.bind (.ok a) f = f a := rfl
@[simp] theorem bind_panic' {α β : Type} (m : String) (f : α → GoSem.Outcome β) : GoSem.Outcome.bind (GoSem.Outcome.panic m : GoSem.Outcome α) f = .panic m := rfl

theorem foldlE_pure {σ α : Type} (f : σ → α → σ) (l : List α) (s : σ) :
    foldlE (fun s a => GoSem.Outcome.ok (f s a)) s l = .ok (l.foldl f s) := by
  induction l generalizing s with
  | nil => rfl
  | cons a l ih => simp only [foldlE, GoSem.Outcome.bind, List.foldl_cons, ih]

/-! ## the translated fragments -/

/-- **fragment `total`** = `performance.sum` of the day's `V1` (the same loop); a nil `d.Performance` is Go's nil-pointer panic -/
theorem Query_total_eq (d : journal.Day) (p : journal.Performance) (hp : d.Performance = some p) :
    weights.Query.Execute.total d = .ok (performance.sum p.V1) := by
  unfold weights.Query.Execute.total performance.sum
  simp only [hp, derefE_some, bind_ok']
  rw [foldlE_pure (fun (st : Rat) (com : commodity.Commodity) => st + AMap.get p.V1 com (GoZero.zero : Rat))]
  rfl

theorem Query_total_nil (d : journal.Day) (hp : d.Performance = none) : weights.Query.Execute.total d = .panic nilDeref := by
  unfold weights.Query.Execute.total
  simp only [hp, derefE_none, bind_panic']

/-- against the model: the total is `sumVals` of the model's `v1` -/
theorem Query_total_agrees (cur : String → Bool) (d : journal.Day) (p : journal.Performance) (hp : d.Performance = some p)
    {v1 : AMap Knut.Commodity Rat} (hv : PEq cur p.V1 v1) :
    weights.Query.Execute.total d = .ok (Performance.sumVals v1) := by
  rw [Query_total_eq d p hp, sum_model cur hv]

/-- **fragment `locate`**: the value, the path `Universe.Locate` finds and the answer of the mapping, as the model computes them -/
theorem Query_locate_agrees (cur : String → Bool) (q : weights.Query) (u : Weights.Universe) (hu : UEq cur q.Universe u)
    (hm : ∀ r ∈ q.Mapping, RuleOK r) (d : journal.Day) (p : journal.Performance) (hp : d.Performance = some p) (c : Knut.Commodity) :
    weights.Query.Execute.locate q d (commodityGo cur c) =
      .ok (AMap.get p.V1 (commodityGo cur c) 0, Weights.locate u c,
           levelGo (mappingLevel (q.Mapping.map ruleOf) (String.intercalate ":" (Weights.locate u c)))) := by
  unfold weights.Query.Execute.locate
  simp only [hp, derefE_some, bind_ok', Locate_agrees cur hu c, Mapping_Level_agrees _ _ hm, Strings.Join]
  rfl

/-! ## the pinned statements, read by hand -/

/-- `if ok && level < len(ss)-suffix { ss = append(ss[:level], ss[len(ss)-suffix:]...) }`: the new `ss`, and — when the branch is
taken — the new content of the array behind the old `ss[0:len(ss)]` (the `append` is in place, see the header) -/
def shortenGo (ss : List String) (level suffix : Int) (ok : Bool) : GoSem.Outcome (List String × Option (List String)) :=
  if ok && decide (level < len ss - suffix) then
    GoSem.Outcome.bind (slice ss 0 level) (fun a =>
      GoSem.Outcome.bind (slice ss (len ss - suffix) (len ss)) (fun b =>
        .ok (a ++ b, some (a ++ b ++ ss.drop (a ++ b).length))))
  else .ok (ss, none)

/-- the write of the in-place `append` as the universe sees it: `Universe.Locate` returned the map entry itself when there is one -/
def writeU (g : performance.Universe) (com : commodity.Commodity) (wr : Option (List String)) : performance.Universe :=
  match wr, AMap.find? g com with
  | some arr, some _ => AMap.set g com arr
  | _, _ => g

/-- the model's `shortenPath` on an already located path -/
def shortenModel (ss : List String) (o : Option (Nat × Nat)) : List String × Option (List String) :=
  match o with
  | none => (ss, none)
  | some (level, suffix) =>
    if level < ss.length - suffix ∧ suffix ≤ ss.length then
      (ss.take level ++ ss.drop (ss.length - suffix), some (ss.take level ++ ss.drop (ss.length - suffix) ++ ss.drop (level + suffix)))
    else (ss, none)

/-- **the pinned `if`** computes what the model's `shortenPath` computes (levels and suffixes of the mapping are not negative) -/
theorem shortenGo_agrees (ss : List String) (o : Option (Nat × Nat)) :
    shortenGo ss (levelGo o).1 (levelGo o).2.1 (levelGo o).2.2 = .ok (shortenModel ss o) := by
  cases o with
  | none => simp [shortenGo, shortenModel, levelGo]
  | some pr =>
    obtain ⟨level, suffix⟩ := pr
    simp only [shortenGo, shortenModel, levelGo, Bool.true_and, len]
    by_cases h : level < ss.length - suffix ∧ suffix ≤ ss.length
    · have h1 : ((level : Int) < (ss.length : Int) - (suffix : Int)) := by omega
      simp only [h1, decide_true, if_true, h, and_self]
      have hs1 : slice ss 0 (level : Int) = .ok (ss.take level) := by
        unfold slice
        have : ¬ ((0 : Int) < 0 ∨ (level : Int) < 0 ∨ (ss.length : Int) < (level : Int)) := by omega
        simp only [this, if_false, Int.toNat_natCast, Int.toNat_zero, List.drop_zero]
      have hs2 : slice ss ((ss.length : Int) - (suffix : Int)) (ss.length : Int) = .ok (ss.drop (ss.length - suffix)) := by
        unfold slice
        have : ¬ ((ss.length : Int) - (suffix : Int) < 0 ∨ (ss.length : Int) < (ss.length : Int) - (suffix : Int) ∨
            (ss.length : Int) < (ss.length : Int)) := by omega
        have e : ((ss.length : Int) - (suffix : Int)).toNat = ss.length - suffix := by omega
        simp only [this, if_false, e, Int.toNat_natCast, List.take_length]
      rw [hs1, hs2]
      simp only [bind_ok']
      have hl : (ss.take level ++ ss.drop (ss.length - suffix)).length = level + suffix := by
        simp only [List.length_append, List.length_take, List.length_drop]; omega
      rw [hl]
    · have h1 : ¬ ((level : Int) < (ss.length : Int) - (suffix : Int)) := by omega
      simp [h1, h]

/-- the model's `shortenPath` through `shortenModel` -/
theorem shortenPath_eq (mapping : List MapRule) (u : Weights.Universe) (c : Knut.Commodity) :
    Weights.shortenPath mapping u c =
      ((shortenModel (Weights.locate u c) (mappingLevel mapping (String.intercalate ":" (Weights.locate u c)))).1,
       match (shortenModel (Weights.locate u c) (mappingLevel mapping (String.intercalate ":" (Weights.locate u c)))).2, AMap.find? u c with
       | some arr, some _ => AMap.set u c arr
       | _, _ => u) := by
  unfold Weights.shortenPath
  dsimp only
  generalize mappingLevel mapping (String.intercalate ":" (Weights.locate u c)) = o
  cases o with
  | none => cases AMap.find? u c <;> rfl
  | some pr =>
    obtain ⟨level, suffix⟩ := pr
    simp only [shortenModel]
    by_cases h : level < (Weights.locate u c).length - suffix ∧ suffix ≤ (Weights.locate u c).length
    · simp only [h, and_self, if_true]
      cases AMap.find? u c <;> rfl
    · simp only [h, if_false]

/-- the universes stay related under the write -/
theorem UEq_write (cur : String → Bool) {g : performance.Universe} {u : Weights.Universe} (hu : UEq cur g u) (c : Knut.Commodity)
    (wr : Option (List String)) :
    UEq cur (writeU g (commodityGo cur c) wr)
      (match wr, AMap.find? u c with
       | some arr, some _ => AMap.set u c arr
       | _, _ => u) := by
  unfold writeU
  rw [hu c]
  cases wr with
  | none => exact hu
  | some arr =>
    cases AMap.find? u c with
    | none => exact hu
    | some _ =>
      intro c'
      simp only [AMap.find?_set]
      by_cases e : c = c'
      · subst e; simp
      · have : commodityGo cur c ≠ commodityGo cur c' := fun h => e (cinj cur _ _ h)
        simp [e, this, hu c']

/-- one iteration of the second loop: the translated fragment `locate`, the pinned `if` (`shortenGo`, `writeU`), the pinned
`r.Add(ss, d.Date, v/total)` through the translated `Report.Add` -/
def goStep (d : journal.Day) (total : Rat) (st : weights.Query × weights.Report) (com : commodity.Commodity) :
    GoSem.Outcome (weights.Query × weights.Report) :=
  GoSem.Outcome.bind (weights.Query.Execute.locate st.1 d com) (fun t =>
    GoSem.Outcome.bind (shortenGo t.2.1 t.2.2.1 t.2.2.2.1 t.2.2.2.2) (fun s =>
      GoSem.Outcome.bind (F64.divE t.1 total) (fun w =>
        GoSem.Outcome.bind (weights.Report.Add st.2 s.1 d.Date w) (fun ra =>
          .ok ({ st.1 with Universe := writeU st.1.Universe com s.2 }, ra.1)))))

/-- the DayEnd closure: the pinned guard (`inDays` = `days.Has(d)`), the translated fragment `total`, the pinned loop over
`dict.SortedKeys(d.Performance.V1, commodity.Compare)` of `goStep`, `return nil` -/
def goDay (inDays : Bool) (d : journal.Day) (st : weights.Query × weights.Report) : GoSem.Outcome (weights.Query × weights.Report) :=
  if !inDays then .ok st
  else
    GoSem.Outcome.bind (weights.Query.Execute.total d) (fun total =>
      GoSem.Outcome.bind (derefE d.Performance) (fun p =>
        foldlE (goStep d total) st (sortedKeys p.V1 commodity.Compare)))

/-- the model's step of `queryDay` on the Go side's terms: the add it makes and the universe after it -/
theorem goStep_agrees (cur : String → Bool) (q : weights.Query) (r : weights.Report) (u : Weights.Universe) (hu : UEq cur q.Universe u)
    (hm : ∀ r ∈ q.Mapping, RuleOK r) (d : journal.Day) (p : journal.Performance) (hp : d.Performance = some p)
    (total : Rat) (ht : total ≠ 0) (c : Knut.Commodity) :
    ∃ q', goStep d total (q, r) (commodityGo cur c) =
        GoSem.Outcome.bind (weights.Report.Add r (Weights.shortenPath (q.Mapping.map ruleOf) u c).1 d.Date
          (AMap.get p.V1 (commodityGo cur c) 0 / total)) (fun ra => .ok (q', ra.1)) ∧
      UEq cur q'.Universe (Weights.shortenPath (q.Mapping.map ruleOf) u c).2 ∧ q'.Mapping = q.Mapping ∧ q'.Partition = q.Partition := by
  let wr := (shortenModel (Weights.locate u c) (mappingLevel (q.Mapping.map ruleOf) (String.intercalate ":" (Weights.locate u c)))).2
  let q' : weights.Query := { Partition := q.Partition, Universe := writeU q.Universe (commodityGo cur c) wr, Mapping := q.Mapping }
  refine ⟨q', ?_, ?_, rfl, rfl⟩
  · unfold goStep
    simp only [Query_locate_agrees cur q u hu hm d p hp c, bind_ok', shortenGo_agrees, F64.divE_ne ht, shortenPath_eq]
    rfl
  · rw [shortenPath_eq]
    exact UEq_write cur hu c _

/-! ## the whole day -/

/-- the model's loop of `queryDay`, element first: the adds of the entries `l` from the universe `u`, and the universe after them -/
def dayAdds (mapping : List MapRule) (date : Int) (T : Rat) : Weights.Universe → List (Knut.Commodity × Rat) → List Weights.Add × Weights.Universe
  | u, [] => ([], u)
  | u, e :: l =>
    ({ path := (Weights.shortenPath mapping u e.1).1, date := date, weight := e.2 / T } ::
        (dayAdds mapping date T (Weights.shortenPath mapping u e.1).2 l).1,
      (dayAdds mapping date T (Weights.shortenPath mapping u e.1).2 l).2)

theorem foldl_dayAdds (mapping : List MapRule) (date : Int) (T : Rat) (l : List (Knut.Commodity × Rat)) :
    ∀ (acc : List Weights.Add) (u : Weights.Universe),
      l.foldl (fun (acc : List Weights.Add × Weights.Universe) e =>
        let r := Weights.shortenPath mapping acc.2 e.1
        (acc.1 ++ [{ path := r.1, date := date, weight := e.2 / T }], r.2)) (acc, u) =
      (acc ++ (dayAdds mapping date T u l).1, (dayAdds mapping date T u l).2) := by
  induction l with
  | nil => intro acc u; simp [dayAdds]
  | cons e l ih => intro acc u; simp only [List.foldl_cons, dayAdds, ih]; simp

/-- `queryDay` through `dayAdds` -/
theorem queryDay_eq (mapping : List MapRule) (u : Weights.Universe) (date : Int) (v1 : AMap Knut.Commodity Rat) :
    Weights.queryDay mapping u date v1 =
      if v1.isEmpty then some ([], u)
      else if Performance.sumVals v1 = 0 then none
      else some (dayAdds mapping date (Performance.sumVals v1) u v1) := by
  unfold Weights.queryDay
  simp only [foldl_dayAdds, List.nil_append]

/-- the second loop against the model's: the report gets the model's adds in the model's order, the universe ends related -/
theorem goLoop_agrees (cur : String → Bool) (d : journal.Day) (p : journal.Performance) (hp : d.Performance = some p)
    (T : Rat) (hT : T ≠ 0) (l : List (Knut.Commodity × Rat)) :
    ∀ (q : weights.Query) (r : weights.Report) (u : Weights.Universe), UEq cur q.Universe u → (∀ r ∈ q.Mapping, RuleOK r) →
      (∀ e ∈ l, AMap.get p.V1 (commodityGo cur e.1) 0 = e.2) →
      ∃ q', foldlE (goStep d T) (q, r) (l.map (fun e => commodityGo cur e.1)) =
          GoSem.Outcome.bind (TransWeights.addAll r (dayAdds (q.Mapping.map ruleOf) d.Date T u l).1) (fun r' => .ok (q', r')) ∧
        UEq cur q'.Universe (dayAdds (q.Mapping.map ruleOf) d.Date T u l).2 ∧ q'.Mapping = q.Mapping ∧ q'.Partition = q.Partition := by
  induction l with
  | nil => intro q r u hu _ _; exact ⟨q, rfl, hu, rfl, rfl⟩
  | cons e l ih =>
    intro q r u hu hm hl
    obtain ⟨q1, h1, hu1, hm1, hp1⟩ := goStep_agrees cur q r u hu hm d p hp T hT e.1
    rw [hl e (List.mem_cons_self ..)] at h1
    simp only [List.map_cons, foldlE, h1, dayAdds, TransWeights.addAll, TransWeights.Add_agrees, bind_ok']
    obtain ⟨q', h2, hu2, hm2, hp2⟩ := ih q1 _ _ hu1 (by rw [hm1]; exact hm) (fun e' he' => hl e' (List.mem_cons_of_mem _ he'))
    rw [hm1] at h2 hu2
    exact ⟨q', h2, hu2, hm2.trans hm1, hp2.trans hp1⟩

theorem get_of_mem (cur : String → Bool) {g : AMap commodity.Commodity Rat} {v1 : AMap Knut.Commodity Rat} (hv : PEq cur g v1) :
    ∀ e ∈ v1, AMap.get g (commodityGo cur e.1) 0 = e.2 := by
  intro e he
  have hn := hv.mnodup
  have key : ∀ (m : AMap Knut.Commodity Rat), NodupKeys m → e ∈ m → AMap.find? m e.1 = some e.2 := by
    intro m
    induction m with
    | nil => intro _ h; cases h
    | cons x rest ih =>
      intro hn h
      obtain ⟨a, b⟩ := x
      have hn' : a ∉ rest.map Prod.fst ∧ NodupKeys rest := by simpa [NodupKeys] using hn
      rcases List.mem_cons.mp h with h | h
      · subst h; simp [AMap.find?]
      · have : a ≠ e.1 := fun e' => hn'.1 (e' ▸ List.mem_map_of_mem h)
        simp only [AMap.find?, this, if_false]
        exact ih hn'.2 h
  simp only [AMap.get, hv.lookup e.1, key v1 hn he, Option.getD_some]

/-- **the DayEnd closure on a period-end day** (`goDay`: the translated fragments and the pinned statements as read in the header)
against the model's `queryDay`: the same adds in the same order reach the report through the translated `Report.Add`, the universe
ends as the model's (the in-place `append` included); a zero total — Go computes `±Inf`/`NaN` weights — is the distinct outcome
`F64.undefined`, the model's `none`.  HYPOTHESIS `hord`: the model lists `v1` in the order of `commodity.Compare`, the order in which
the Go loop visits the keys (the model's fold is over the list as it stands). -/
theorem Query_DayEnd_agrees_of_order (cur : String → Bool) (q : weights.Query) (r : weights.Report) (u : Weights.Universe)
    (hu : UEq cur q.Universe u) (hm : ∀ r ∈ q.Mapping, RuleOK r) (d : journal.Day) (p : journal.Performance)
    (hp : d.Performance = some p) {v1 : AMap Knut.Commodity Rat} (hv : PEq cur p.V1 v1)
    (hord : sortedKeys p.V1 commodity.Compare = v1.map (fun e => commodityGo cur e.1)) :
    match Weights.queryDay (q.Mapping.map ruleOf) u d.Date v1 with
    | none => goDay true d (q, r) = .panic F64.undefined
    | some (adds, u') =>
      ∃ q', goDay true d (q, r) = GoSem.Outcome.bind (TransWeights.addAll r adds) (fun r' => .ok (q', r')) ∧
        UEq cur q'.Universe u' ∧ q'.Mapping = q.Mapping ∧ q'.Partition = q.Partition := by
  rw [queryDay_eq]
  unfold goDay
  simp only [Bool.not_true, Bool.false_eq_true, if_false, Query_total_agrees cur d p hp hv, hp, derefE_some, bind_ok', hord]
  cases v1 with
  | nil => exact ⟨q, rfl, hu, rfl, rfl⟩
  | cons e l =>
    simp only [List.isEmpty_cons, Bool.false_eq_true, if_false]
    by_cases hT : Performance.sumVals (e :: l) = 0
    · simp only [hT, if_true]
      simp only [List.map_cons, foldlE, goStep, Query_locate_agrees cur q u hu hm d p hp e.1, bind_ok', shortenGo_agrees,
        F64.divE_zero, bind_panic']
    · simp only [hT, if_false]
      exact goLoop_agrees cur d p hp _ hT (e :: l) q r u hu hm (get_of_mem cur hv)

/-- a day that is no period end: nothing happens -/
theorem Query_DayEnd_other (d : journal.Day) (st : weights.Query × weights.Report) : goDay false d st = .ok st := rfl

end Knut.FactsAgree.TransWeightsQuery
