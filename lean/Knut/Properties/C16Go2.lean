import Knut.Properties.C16Go
import Knut.FactsAgree.TransProcessAllTranscode
import Knut.Proofs.BeancountLifecycle
/-!
# C16 on the generated definitions, over a WHOLE journal — without the relational hypothesis `PDayRel` of `C16Go`

`Properties/C16Go.lean` left `hj : AllRel (PDayRel cur) j.Days pds` open: that the Go journal handed to `beancount.Transcode` stands for
the model's processed days.  `FactsAgree/TransProcessAllTranscode.lean` composes the per-day stage theorems over a journal:
`processAllTranscode` — the sequential meaning (`Pipeline.seqRun`, justified by `C19_confluent`; that `cpr.Seq` itself is not translated
stays a stated modelling step) of `j.Process(Sort(), ComputePrices(v), check.Check(), Valuate(reg, v))` on the translated closures —
delivers days that stand for the processed days of a run `ProcOrd` of the model (`Beancount.processFrom`, the association list that
`Valuate.DayStart` ranges over re-listed before each day in the order Go iterates).  Here:

* `ProcOrd_of_processFrom`: `Beancount.process` is the run that re-lists nothing;
* `procOrd_paired`, `procOrd_processed`, `procOrd_uses`: the lemmas behind C16 hold for every re-listed run — i.e. for EVERY family of
  map iteration orders —, hence the four clauses on `Beancount.entries pds` (`balanced_of_procOrd`, `chronological_of_procOrd`,
  `open_before_use_of_procOrd`, `tx_bijection_entries`);
* **`Transcode_writes_go`** and the clauses **`C16_balanced_go`**, **`C16_chronological_go`**, **`C16_open_before_use_go`** (partial in
  the MODEL as `C16.C16_open_before_use_partial` is: the generated valuation account, known finding), **`C16_tx_bijection_go`**: about
  the text the translated `beancount.Transcode` writes for the journal `⟨out⟩` that the translated stages deliver
  (`processAllTranscode P G0 gdays = some out`).

Hypotheses (`Pipe`): the Go days stand for the model days, descriptions exact (`DayRelS`: what the loader builds, every `Src`
arbitrary); the parameters are admissible (`TrParOK`: every fuel that suffices, every iteration order that reaches each key once);
`srt` returns a sorted permutation of each day's transactions (`SortOK`) and `sort1` has the guarantee of `sort.Slice` on the
transactions of every day it is handed (`SortSliceOn`, a hypothesis of each theorem); per model day `TrDayOK` (`TargetsOK`, `AccountsByName`: the unstable sort cannot show; `DescOK`: no `"` in the
descriptions `Valuate` builds); `DayOK` of the model's processed days (years ≥ 0, one account per name — as in `Transcode_agrees`);
`v ≠ ""`.  No hypothesis relates the PROCESSED Go journal to the model any more.
-/
namespace Knut.C16Go2
open Knut Knut.Beancount Knut.BeancountSpec
open Knut.Generated.Go
open Knut.FactsAgree.TransBeancount Knut.FactsAgree.TransProcess Knut.FactsAgree.TransPosting
open Knut.FactsAgree.TransProcessAll
open Knut.C16Go (SortAlg)

/-! ### the lemmas behind C16 for every re-listed run of the model -/

theorem qinv_relist {st : BalState} (hq : QInv st) {vq : AMap Position Rat} (hr : Relist st.vQty vq) (hn : AMap.NodupKeys vq) :
    QInv { st with vQty := vq } := by
  refine ⟨?_, ?_, hn⟩
  · intro k
    have := hq.same k
    unfold AMap.get at this ⊢
    show (AMap.find? st.chk.quantities k).getD 0 = (AMap.find? vq k).getD 0
    rw [hr k]; exact this
  · intro k hk
    have := hq.closed k hk
    unfold AMap.get at this ⊢
    show (AMap.find? vq k).getD 0 = 0
    rw [hr k]; exact this

/-- `Beancount.processFrom` is the run that re-lists nothing -/
theorem ProcOrd_of_processFrom (v : Commodity) : ∀ (days : List Day) (st : BalState) (pds : List ProcDay), QInv st →
    processFrom v st days = .ok pds → ProcOrd v st days pds := by
  intro days
  induction days with
  | nil => intro st pds _ h; simp only [processFrom] at h; injection h with h; subst h; exact .nil st
  | cons d rest ih =>
    intro st pds hq h
    simp only [processFrom, bind, Except.bind] at h
    cases hd : processDay v st d with
    | error e => rw [hd] at h; cases h
    | ok r =>
      obtain ⟨st1, pd⟩ := r
      rw [hd] at h; simp only at h
      cases hr : processFrom v st1 rest with
      | error e => rw [hr] at h; cases h
      | ok pds' =>
        rw [hr] at h; simp only at h
        injection h with h; subst h
        exact .cons st.vQty (fun _ => rfl) hq.nodup hd (ih st1 pds' (qinv_step hq hd) hr)

theorem ProcOrd_of_process (v : Commodity) (days : List Day) (pds : List ProcDay) (h : process v days = .ok pds) :
    ProcOrd v {} days pds :=
  ProcOrd_of_processFrom v days {} pds ⟨fun _ => rfl, fun _ _ => rfl, List.Pairwise.nil⟩ h

theorem procOrd_paired {v : Commodity} {days : List Day} {st : BalState} {pds : List ProcDay} (h : ProcOrd v st days pds) :
    (∀ d ∈ days, ∀ t ∈ d.transactions, TxPaired t) → ∀ pd ∈ pds, ∀ t ∈ pd.transactions, TxPaired t := by
  induction h with
  | nil st => intro _ pd hpd; cases hpd
  | cons vq _ _ hday _ ih =>
    intro hp pd' hpd'
    rcases List.mem_cons.mp hpd' with rfl | hpd'
    · exact processDay_paired (hp _ List.mem_cons_self) hday
    · exact ih (fun d' hd' => hp d' (List.mem_cons_of_mem _ hd')) pd' hpd'

theorem procOrd_processed {v : Commodity} {days : List Day} {st : BalState} {pds : List ProcDay} (h : ProcOrd v st days pds) :
    Processed v days pds := by
  induction h with
  | nil st => exact .nil
  | cons vq _ _ hday _ ih => exact .cons ⟨_, _, hday⟩ ih

theorem procOrd_uses {v : Commodity} (O : List Open) (C : List Close) {days : List Day} {st : BalState} {pds : List ProcDay}
    (h : ProcOrd v st days pds) : ∀ (lo : Int), Env O C lo days → AccInv st.chk.accounts O C lo → QInv st →
    ∀ pd ∈ pds, ∀ t ∈ pd.transactions, ∀ a ∈ t.postings.map (·.account),
      openOnL O C a t.date = true ∨ adjustmentLeg t a = true := by
  induction h with
  | nil st => intro _ _ _ _ pd hpd; cases hpd
  | @cons st st1 d ds pd pds vq hr hn hday _ ih =>
    intro lo env inv hq pd' hpd'
    have hq' := qinv_relist hq hr hn
    rcases List.mem_cons.mp hpd' with rfl | hpd'
    · exact day_uses (st := { st with vQty := vq }) env inv hq' hday
    · obtain ⟨_, _, hc, _, _, _⟩ := processDay_parts2 hday
      obtain ⟨_, k2, _, _⟩ := checkDay_ok hc
      simp only at k2
      exact ih (d.date + 1) (env_step env) (accInv_step env inv k2) (qinv_step hq' hday) pd' hpd'

/-! ### the clauses of C16 on the entries of every re-listed run -/

theorem balanced_of_procOrd {v : Commodity} {days : List Day} {pds : List ProcDay} (h : ProcOrd v {} days pds)
    (hp : C16.PairedDays days) : balanced (entries pds) = true := by
  unfold balanced entries
  rw [txsOf_entriesFrom, List.all_eq_true]
  intro t ht
  obtain ⟨pd, hpd, ht⟩ := List.mem_flatMap.mp ht
  have := procOrd_paired h hp pd hpd t ((mem_sortTxs _ _).mp ht)
  exact decide_eq_true (sum_values_paired this)

theorem chronological_of_procOrd {v : Commodity} {days : List Day} {pds : List ProcDay} (h : ProcOrd v {} days pds)
    (hw : C16.WFDays days) : chronological (entries pds) = true := by
  have hP := procOrd_processed h
  exact chronological_of_pairwise _
    (entriesFrom_pairwise pds (processed_sorted hP hw.sorted) (processed_dates hP hw.dates) [])

theorem open_before_use_of_procOrd {v : Commodity} {days : List Day} {pds : List ProcDay} (h : ProcOrd v {} days pds)
    (hw : C16.WFDays days) : lifecycleOKExceptValuation (entries pds) = true := by
  have hP := procOrd_processed h
  obtain ⟨_, fo, fc⟩ := processed_fields hP
  let lo : Int := match days with | [] => 0 | d :: _ => d.date
  have env : Env (days.flatMap (·.openings)) (days.flatMap (·.closings)) lo days := by
    refine ⟨fun d hd o ho => List.mem_flatMap.mpr ⟨d, hd, ho⟩, ?_, ?_, hw.sorted, hw.dates⟩
    · intro c hc
      obtain ⟨d, hd, hcd⟩ := List.mem_flatMap.mp hc
      exact Or.inr ⟨d, hd, hcd⟩
    · intro d hd
      cases days with
      | nil => cases hd
      | cons d0 rest =>
        rcases List.mem_cons.mp hd with rfl | hd
        · exact Int.le_refl _
        · have := (List.pairwise_cons.mp hw.sorted).1 d hd
          show d0.date ≤ d.date
          omega
  have inv : AccInv ({} : BalState).chk.accounts (days.flatMap (·.openings)) (days.flatMap (·.closings)) lo := by
    intro a ha; cases ha
  have hq : QInv {} := ⟨fun _ => rfl, fun _ _ => rfl, List.Pairwise.nil⟩
  have huses := procOrd_uses _ _ h lo env inv hq
  unfold lifecycleOKExceptValuation unopenedUses
  rw [List.all_eq_true]
  intro u hu
  obtain ⟨t, ht, hu⟩ := List.mem_flatMap.mp hu
  obtain ⟨p, hp, rfl⟩ := List.mem_map.mp hu
  obtain ⟨hp, hnot⟩ := List.mem_filter.mp hp
  unfold entries at ht
  rw [txsOf_entriesFrom] at ht
  obtain ⟨pd, hpd, ht⟩ := List.mem_flatMap.mp ht
  rcases huses pd hpd t ((mem_sortTxs _ _).mp ht) p.account (List.mem_map.mpr ⟨p, hp, rfl⟩) with hopen | hadj
  · exfalso
    have : openOn (entries pds) p.account t.date = true := by
      unfold openOn entries
      rw [closesOf_entriesFrom, fc]
      apply openOnL_mono _ hopen
      intro o ho
      rw [← fo] at ho
      exact opensOf_entriesFrom_sub [] pds o ho
    rw [this] at hnot
    cases hnot
  · exact hadj

theorem tx_bijection_entries (pds : List ProcDay) :
    (txsOf (entries pds)).Perm (pds.flatMap (·.transactions)) ∧
      sameTxs (txsOf (entries pds)) (pds.flatMap (·.transactions)) = true := by
  have hperm : (txsOf (entries pds)).Perm (pds.flatMap (·.transactions)) := by
    unfold entries
    rw [txsOf_entriesFrom]
    exact perm_flatMap_congr _ _ _ (fun d _ => sortTxs_perm d.transactions)
  refine ⟨hperm, ?_⟩
  unfold sameTxs
  rw [List.isPerm_iff]
  exact hperm.map _

/-! ### on the text the translated `Transcode` writes after the translated stages ran over the journal -/

/-- the hypotheses shared by the theorems below (see the header) -/
structure Pipe (cur : String → Bool) (v : Commodity) (P : TrPar) (G0 : TrGo) (gdays : List journal.Day) (days : List Day) :
    Prop where
  par : TrParOK cur v P
  init : TrInv cur (tFusedInit G0) {}
  rel : AllRel (DayRelS cur) gdays days
  srt : ∀ g ∈ gdays, Knut.FactsAgree.TransJPrinter2.SortOK P.srt g.Transactions
  dayOK : ∀ d ∈ days, TrDayOK v d
  procOK : ∀ pds, ProcOrd v {} days pds → ∀ d ∈ pds, DayOK d
  vne : v ≠ ""

/-- **the bridge**: what the translated `Transcode` writes for the journal the translated stages deliver is the rendering of the
entry list of a (re-listed) run of the model over the journal; no error, no panic -/
theorem Transcode_writes_go (cur : String → Bool) (w : String) (v : Commodity) (P : TrPar) (G0 : TrGo) (gdays : List journal.Day)
    (days : List Day) (sort1 : SortAlg) (H : Pipe cur v P G0 gdays days) (out : List journal.Day)
    (hgo : processAllTranscode P G0 gdays = some out)
    (hs1 : ∀ g ∈ out, GoSem.SortSliceOn sort1 transaction.Compare (GoSem.Outcome.ok (-1)) g.Transactions) :
    ∃ pds, ProcOrd v {} days pds ∧
      beancount.Transcode w ⟨out⟩ (commodityGo cur v) sort1 = .ok (w ++ render v (entries pds), none) := by
  obtain ⟨pds, hpo, hrel⟩ := processAllTranscode_ok cur v P H.par G0 H.init gdays days H.rel H.srt H.dayOK out hgo
  exact ⟨pds, hpo, Transcode_agrees cur w ⟨out⟩ pds v sort1 hs1 hrel (H.procOK pds hpo) H.vne⟩

/-- when the translated stages fail, the model's (re-listed) run fails: no ledger is written on either side -/
theorem Transcode_not_reached_go (cur : String → Bool) (v : Commodity) (P : TrPar) (G0 : TrGo) (gdays : List journal.Day)
    (days : List Day) (H : Pipe cur v P G0 gdays days)
    (hgo : processAllTranscode P G0 gdays = none) : ProcFail v {} days :=
  processAllTranscode_fails cur v P H.par G0 H.init gdays days H.rel H.srt H.dayOK hgo

/-- **balanced** -/
theorem C16_balanced_go (cur : String → Bool) (w : String) (v : Commodity) (P : TrPar) (G0 : TrGo) (gdays : List journal.Day)
    (days : List Day) (sort1 : SortAlg) (H : Pipe cur v P G0 gdays days) (out : List journal.Day)
    (hgo : processAllTranscode P G0 gdays = some out)
    (hs1 : ∀ g ∈ out, GoSem.SortSliceOn sort1 transaction.Compare (GoSem.Outcome.ok (-1)) g.Transactions) (hpaired : C16.PairedDays days) :
    ∃ es, beancount.Transcode w ⟨out⟩ (commodityGo cur v) sort1 = .ok (w ++ render v es, none) ∧ balanced es = true := by
  obtain ⟨pds, hpo, ht⟩ := Transcode_writes_go cur w v P G0 gdays days sort1 H out hgo hs1
  exact ⟨_, ht, balanced_of_procOrd hpo hpaired⟩

/-- **chronological** -/
theorem C16_chronological_go (cur : String → Bool) (w : String) (v : Commodity) (P : TrPar) (G0 : TrGo) (gdays : List journal.Day)
    (days : List Day) (sort1 : SortAlg) (H : Pipe cur v P G0 gdays days) (out : List journal.Day)
    (hgo : processAllTranscode P G0 gdays = some out)
    (hs1 : ∀ g ∈ out, GoSem.SortSliceOn sort1 transaction.Compare (GoSem.Outcome.ok (-1)) g.Transactions) (hw : C16.WFDays days) :
    ∃ es, beancount.Transcode w ⟨out⟩ (commodityGo cur v) sort1 = .ok (w ++ render v es, none) ∧ chronological es = true := by
  obtain ⟨pds, hpo, ht⟩ := Transcode_writes_go cur w v P G0 gdays days sort1 H out hgo hs1
  exact ⟨_, ht, chronological_of_procOrd hpo hw⟩

/-- **open before use** (partial in the model as `C16.C16_open_before_use_partial` is: the generated valuation account of a value
adjustment is excepted, known finding `valuation-account-not-opened`; nothing is missing on the Go side) -/
theorem C16_open_before_use_go (cur : String → Bool) (w : String) (v : Commodity) (P : TrPar) (G0 : TrGo) (gdays : List journal.Day)
    (days : List Day) (sort1 : SortAlg) (H : Pipe cur v P G0 gdays days) (out : List journal.Day)
    (hgo : processAllTranscode P G0 gdays = some out)
    (hs1 : ∀ g ∈ out, GoSem.SortSliceOn sort1 transaction.Compare (GoSem.Outcome.ok (-1)) g.Transactions) (hw : C16.WFDays days) :
    ∃ es, beancount.Transcode w ⟨out⟩ (commodityGo cur v) sort1 = .ok (w ++ render v es, none) ∧
      lifecycleOKExceptValuation es = true := by
  obtain ⟨pds, hpo, ht⟩ := Transcode_writes_go cur w v P G0 gdays days sort1 H out hgo hs1
  exact ⟨_, ht, open_before_use_of_procOrd hpo hw⟩

/-- **transaction bijection**: the transactions of the ledger written are exactly the transactions of the processed journal, each once -/
theorem C16_tx_bijection_go (cur : String → Bool) (w : String) (v : Commodity) (P : TrPar) (G0 : TrGo) (gdays : List journal.Day)
    (days : List Day) (sort1 : SortAlg) (H : Pipe cur v P G0 gdays days) (out : List journal.Day)
    (hgo : processAllTranscode P G0 gdays = some out)
    (hs1 : ∀ g ∈ out, GoSem.SortSliceOn sort1 transaction.Compare (GoSem.Outcome.ok (-1)) g.Transactions) :
    ∃ es pds, ProcOrd v {} days pds ∧ beancount.Transcode w ⟨out⟩ (commodityGo cur v) sort1 = .ok (w ++ render v es, none) ∧
      (txsOf es).Perm (pds.flatMap (·.transactions)) ∧ sameTxs (txsOf es) (pds.flatMap (·.transactions)) = true := by
  obtain ⟨pds, hpo, ht⟩ := Transcode_writes_go cur w v P G0 gdays days sort1 H out hgo hs1
  exact ⟨_, pds, hpo, ht, tx_bijection_entries pds⟩

/-! ### Non-vacuity: the empty journal (the command on a file without directives) — every hypothesis of `Pipe` holds, the four stages
succeed on no day, the translated `Transcode` writes the header only -/
example (P : TrPar) (hP : TrParOK (fun _ => true) "CHF" P) (so : journal.Sort_.State) :
    ∃ es, beancount.Transcode "" ⟨[]⟩ (commodityGo (fun _ => true) "CHF") (fun _ xs => xs) =
      .ok ("" ++ render "CHF" es, none) ∧ balanced es = true :=
  C16_balanced_go (fun _ => true) "" "CHF" P ⟨so, ⟨GoSem.GoZero.zero, []⟩, checkInit, ⟨GoSem.GoZero.zero, GoSem.GoZero.zero, []⟩⟩ [] []
    (fun _ xs => xs)
    ⟨hP, TrInv_init _ so, .nil, (by intro g hg; cases hg), (by intro d hd; cases hd),
      (by intro pds h; cases h; intro d hd; cases hd), (by decide)⟩
    [] (by rw [processAllTranscode_eq]; rfl) (by intro g hg; cases hg) (by intro d hd; cases hd)

end Knut.C16Go2
