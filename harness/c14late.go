package main

// Stream "late" of C14: journals that fail LATE, after a long valid prefix.
//
// C14 says that a failing report command (balance, print, transcode, infer, check --write) leaves standard output
// empty. The other streams fail on small journals: whatever a command writes before it notices the error stays in
// an output buffer (bufio: 4096 bytes) that is dropped at exit, so that a command which starts to write while it
// still processes the journal looks clean on them. Here the valid prefix of the journal is long enough for its
// report to exceed 4 KiB, 64 KiB (the capacity of a pipe) and 1 MiB, and the directive that fails comes after it:
// every rule of the checker (failed assertion, booking on an account never opened / closed, second open, close
// with a position, assertion on / close of an account never opened), a booking without a price for the valued
// commands, and, at the end of the last file, of the root or of an included file of its own, a syntax error, an
// impossible date, an invalid account, an inverted accrual window, a missing include and an include cycle.
//
// Every case is two runs of the real binary: the journal with the failing directive (monitor: the Lean predicates
// failsCleanly and includedErrorFails through c14mon, as on every run of C14), and the valid prefix alone (the same
// predicate; its report is the measure of how much output had been produced when the failure is reached: the
// size class of the case). Small cases are also compared with the model's outcome class (c14run).

import (
	"bytes"
	"context"
	"fmt"
	"os"
	"os/exec"
	"path/filepath"
	"strings"
	"syscall"
	"time"
)

// a failing run of a large journal may take a while on a loaded machine
const c14LateTimeout = 120 * time.Second

// c14LateForms: the command forms of the stream.
var c14LateForms = []string{"check-write", "print", "transcode", "balance", "check-write-nocheck", "balance-valued", "infer", "check"}

// failure kinds. checker: found while the days are processed, in date order (a command that writes day by day has
// written the days before it); price: found by the valued commands only; load: found while the files are read and
// elaborated.
var c14LateChecker = []string{"failed-assertion", "unopened-account", "closed-account", "second-open", "close-with-position", "assertion-unopened", "close-unopened"}
var c14LateLoad = []string{"syntax", "bad-date", "bad-account", "accrual-inverted", "missing-include", "include-cycle"}

type c14LatePlan struct {
	Form    string       `json:"form"`
	Tier    int          `json:"size_tier"` // intended report size of the valid prefix: -1 below 4 KiB, 0 above 4 KiB, 1 above 64 KiB, 2 above 1 MiB, 3 several MiB
	Days    int          `json:"days"`
	Accts   int          `json:"accounts"`
	PerDay  int          `json:"transactions_per_day"`
	Coms    int          `json:"commodities"`
	Step    int          `json:"days_between_dates"`
	Base    int          `json:"first_day"`
	Val     string       `json:"valuation"`
	Fail    string       `json:"failure"`
	At      int          `json:"failing_directive_after_day"` // index of the last valid day before the failing directive
	Where   string       `json:"failing_directive_in"`        // chrono | root-head | root-tail | own-file | last-file-tail | target-tail
	NFiles  int          `json:"included_files"`
	IncHead bool         `json:"includes_before_opens"`
	Bal     *BalFlags    `json:"balance_flags,omitempty"`
	Wide    *c14LateWide `json:"failing_directive_wide,omitempty"`
}

// c14LateWide: the failing directive written at full width (an error message that quotes, aligns or pads the
// offending directive meets what a journal may hold, not the everyday `1 CHF`): a quantity of 9..40 characters
// (around the printer's column of 10 and far beyond it, with up to 24 fractional digits, negative or not), long and
// non-ASCII account and commodity names, a long / non-ASCII / empty description, further bookings around the
// offending one. Drawn from its own generator ("late/wide"), so that the other choices of a case stay what they were.
type c14LateWide struct {
	Qty    string   `json:"quantity"`
	Com    string   `json:"commodity,omitempty"` // "" = the valuation commodity
	Acct   string   `json:"account"`             // the account that is not open
	Desc   string   `json:"description"`
	Before []string `json:"bookings_before,omitempty"` // quantities of further bookings (between open accounts) of the failing transaction
	After  []string `json:"bookings_after,omitempty"`
	Debit  bool     `json:"offending_account_is_debit"`
}

var c14LateSegs = []string{"Bank", "B", "Bänk", "Ключ", "口座", "حساب", "Ǆungla", "Savings2024", "x", "ÅÄÖåäö", "Ελληνικά", "𝔘𝔫𝔦"}
var c14LateComs = []string{"SAT", "X", "Ünit", "1INCH", "chf", "ДЕНЬГИ", "円", "𝔘", "AVERYLONGCOMMODITYNAMEWITHFORTYCHARACTERS", "A1B2C3D4E5F6G7H8I9J0K1L2M3N4O5P6Q7R8S9T0U1V2W3X4Y5Z6A7B8C9D0E1F2G3H4"}
var c14LateDescs = []string{"", "late", "ü", "Überweisung — Miete Jänner", "給料 🎉 ボーナス", "e\u0301 combining ̈a", "tab\there", "'single' `back` \\ back\\slash %d %s %!v(x)", "مرتب", "<nul>"}

// c14LateQty draws a decimal of exactly n characters (n >= 1): sign, integer digits, fractional digits.
func c14LateQty(r *RNG, n int) string {
	neg := n >= 2 && r.Chance(1, 4)
	if neg {
		n--
	}
	frac := 0
	if n >= 3 && r.Chance(2, 3) {
		frac = r.Range(1, min(n-2, 24))
	}
	digits := func(k int, first bool) string {
		b := make([]byte, k)
		for j := range b {
			b[j] = byte('0' + r.Intn(10))
			if j == 0 && first && k > 1 {
				b[j] = byte('1' + r.Intn(9))
			}
		}
		return string(b)
	}
	q := ""
	if frac > 0 {
		q = digits(n-frac-1, true) + "." + digits(frac, false)
	} else {
		q = digits(n, true)
	}
	if strings.Trim(q, "0.") == "" {
		q = q[:len(q)-1] + "7" // (a booking of zero is legal, but keep the position non-trivial)
	}
	if neg {
		q = "-" + q
	}
	return q
}

func c14LateWideOf(c *Ctx, i int) *c14LateWide {
	r := c.Rng("late/wide", i)
	if r.Chance(1, 5) {
		return nil // the everyday directive of before
	}
	lens := []int{9, 10, 11, 11, 12, 13, 16, 18, 21, 27, 33, 40}
	w := &c14LateWide{Qty: c14LateQty(r, Pick(r, lens)), Debit: r.Chance(3, 4)}
	if r.Chance(1, 2) {
		w.Com = Pick(r, c14LateComs)
	}
	// the account: 1..12 segments below a type
	w.Acct = Pick(r, []string{"Assets", "Assets", "Expenses", "Liabilities", "Income", "Equity"})
	if r.Chance(1, 4) {
		w.Acct += ":NeverOpened"
	} else {
		for k, n := 0, Pick(r, []int{1, 1, 2, 3, 5, 12}); k < n; k++ {
			w.Acct += ":" + Pick(r, c14LateSegs)
		}
		if r.Chance(1, 4) {
			w.Acct += ":" + strings.Repeat("Long", r.Range(3, 40))
		}
		w.Acct += ":Z9" // (never one of the accounts the journal opens)
	}
	w.Desc = Pick(r, c14LateDescs)
	if r.Chance(1, 4) {
		w.Desc = strings.Repeat(w.Desc+" lorem ipsum ", r.Range(2, 60))
	}
	if r.Chance(1, 3) {
		for k, n := 0, r.Range(1, 3); k < n; k++ {
			w.Before = append(w.Before, c14LateQty(r, Pick(r, lens)))
		}
	}
	if r.Chance(1, 3) {
		for k, n := 0, r.Range(1, 3); k < n; k++ {
			w.After = append(w.After, c14LateQty(r, Pick(r, lens)))
		}
	}
	return w
}

// tx writes a transaction dated d whose offending booking moves qty between Income:Salary and acct.
func (w *c14LateWide) tx(p *c14LatePlan, d int, acct, com string) string {
	var b strings.Builder
	fmt.Fprintf(&b, "%s \"%s\"\n", fmtDate(d), w.Desc)
	for _, q := range w.Before {
		fmt.Fprintf(&b, "Income:Salary %s %s %s\n", p.acct(0), q, p.Val)
	}
	if w.Debit {
		fmt.Fprintf(&b, "Income:Salary %s %s %s\n", acct, w.Qty, com)
	} else {
		fmt.Fprintf(&b, "%s Income:Salary %s %s\n", acct, w.Qty, com)
	}
	for _, q := range w.After {
		fmt.Fprintf(&b, "Equity:Opening %s %s %s\n", p.acct(0), q, p.Val)
	}
	return b.String()
}

type c14LateCase struct {
	plan    c14LatePlan
	run     *c14Case // the journal with the failing directive
	control *c14Case // the valid prefix
	total   int      // bytes of the files of the failing run
	outLen  [2]int   // bytes on standard output: failing run, control
	input   [2]map[string]any
}

// c14LateShape draws days / accounts / transactions per day for a form and a size tier.
func c14LateShape(r *RNG, form string, tier int) (days, accts, perDay int) {
	switch form {
	case "check-write", "check-write-nocheck":
		// one assertion per day listing every position so far
		switch tier {
		case -1:
			return r.Range(3, 18), r.Range(1, 3), 1
		case 0:
			if r.Bool() {
				return r.Range(120, 240), r.Range(1, 3), r.Range(1, 2)
			}
			return r.Range(30, 60), r.Range(8, 20), r.Range(1, 2)
		case 1:
			if r.Bool() {
				return r.Range(400, 650), r.Range(8, 14), r.Range(1, 2)
			}
			return r.Range(2800, 4000), r.Range(1, 2), 1
		case 2:
			return r.Range(1000, 1400), r.Range(36, 50), r.Range(1, 3)
		}
		return r.Range(2000, 2600), r.Range(50, 70), r.Range(1, 3)
	case "balance", "balance-valued":
		// rows = accounts, columns = periods
		switch tier {
		case -1:
			return r.Range(3, 30), r.Range(2, 5), 1
		case 0:
			return r.Range(30, 80), r.Range(90, 170), r.Range(3, 5)
		case 1:
			return r.Range(45, 70), r.Range(45, 75), r.Range(1, 2)
		case 2:
			return r.Range(180, 230), r.Range(170, 220), r.Range(1, 2)
		}
		return r.Range(330, 400), r.Range(260, 320), r.Range(1, 2)
	}
	// print, transcode, infer, check: the report grows with the number of transactions
	switch tier {
	case -1:
		return r.Range(2, 14), r.Range(1, 4), r.Range(1, 2)
	case 0:
		return r.Range(80, 170), r.Range(2, 9), r.Range(1, 2)
	case 1:
		return r.Range(550, 900), r.Range(3, 30), r.Range(2, 4)
	case 2:
		return r.Range(1300, 1700), r.Range(5, 60), r.Range(12, 16)
	}
	return r.Range(2500, 3200), r.Range(5, 80), r.Range(14, 18)
}

func c14LatePlanOf(c *Ctx, i int) (c14LatePlan, *RNG) {
	r := c.Rng("late", i)
	p := c14LatePlan{Form: c14LateForms[i%len(c14LateForms)]}
	// size tiers: every form meets every tier within 8 rounds (quick tier: 8 rounds); several MiB only in the thorough tier
	tiers := []int{0, 1, 2, 0, -1, 1, 0, 2}
	p.Tier = tiers[(i/len(c14LateForms))%len(tiers)]
	if c.Thorough() && r.Chance(1, 12) {
		p.Tier = 3
	}
	p.Days, p.Accts, p.PerDay = c14LateShape(r, p.Form, p.Tier)
	p.Coms = r.Range(0, 3)
	p.Step = Pick(r, []int{3, 3, 4, 7})
	if strings.HasPrefix(p.Form, "balance") && p.Tier >= 1 {
		p.Step = Pick(r, []int{3, 4, 5}) // --days: a column per calendar day
	}
	p.Base = 730500 + r.Intn(6000)
	p.Val = c14Val(r)
	// the failure
	var checker []string
	for _, k := range c14LateChecker {
		if k == "failed-assertion" && p.Form == "check-write-nocheck" {
			continue // assertions are not checked; the other rules are
		}
		checker = append(checker, k)
	}
	kinds := append(append(append([]string{}, checker...), checker...), c14LateLoad...) // the checker's rules: half of the draws
	switch p.Form {
	case "transcode", "balance-valued":
		kinds = append(kinds, "missing-price", "missing-price", "missing-price")
	case "infer":
		// infer parses: the training files recursively, the target file alone
		kinds = []string{"syntax", "syntax", "target-syntax", "target-syntax", "missing-include", "include-cycle"}
	}
	kinds = append(kinds, "none")
	if len(kinds) > 12 {
		kinds = append(kinds, "none")
	}
	p.Fail = Pick(r, kinds)
	p.At = p.Days - 1
	if r.Chance(2, 5) {
		p.At = r.Range(p.Days*3/5, p.Days-1)
	}
	p.NFiles = Pick(r, []int{0, 0, 1, 3, 12, 40})
	if p.NFiles > p.Days {
		p.NFiles = p.Days
	}
	p.IncHead = r.Chance(1, 3)
	if strings.HasPrefix(p.Form, "balance") {
		f := &BalFlags{Interval: 1} // --days: a column per calendar day
		if p.Tier <= 0 {
			f.Interval = Pick(r, []int{0, 0, 3, 4, 5})
		}
		if p.Form == "balance-valued" {
			f.Val = p.Val
		}
		f.CSV, f.Diff, f.SortAlpha, f.Thousands, f.NoClose = r.Chance(1, 3), r.Chance(1, 4), r.Chance(1, 4), r.Chance(1, 5), r.Chance(1, 4)
		p.Bal = f
	}
	dated := p.Fail == "missing-price"
	for _, k := range c14LateChecker {
		dated = dated || k == p.Fail
	}
	switch {
	case dated:
		p.Where = Pick(r, []string{"chrono", "chrono", "root-head", "root-tail", "own-file"})
	case p.Fail == "target-syntax":
		p.Where = "target-tail"
	case p.Fail == "none":
		p.Where = "-"
	default:
		p.Where = Pick(r, []string{"last-file-tail", "last-file-tail", "root-tail", "own-file"})
		p.At = p.Days - 1 // found when the files are read: the prefix is the whole journal
	}
	if p.Fail == "target-syntax" || p.Fail == "none" {
		p.At = p.Days - 1
	}
	if dated {
		p.Wide = c14LateWideOf(c, i)
	}
	return p, r
}

func (p *c14LatePlan) date(d int) int { return p.Base + 1 + d*p.Step }

func (p *c14LatePlan) acct(k int) string { return fmt.Sprintf("Assets:Bank:Acct%03d", k) }

// failText is the text of the failing directive(s); fd is the day after the last valid day of the prefix (the dates of
// the journal are at least three days apart).
func (p *c14LatePlan) failText() string {
	fd := p.date(p.At) + 1
	if w := p.Wide; w != nil {
		com := p.Val
		if w.Com != "" {
			com = w.Com
		}
		switch p.Fail {
		case "failed-assertion":
			return fmt.Sprintf("%s balance %s %s %s\n", fmtDate(fd), p.acct(0), w.Qty, com)
		case "unopened-account":
			return w.tx(p, fd, w.Acct, com)
		case "closed-account":
			// (an account of its own, opened and closed again, or the spare account of every journal)
			if strings.HasSuffix(w.Acct, ":Z9") {
				return fmt.Sprintf("%s open %s\n\n%s close %s\n\n%s", fmtDate(fd), w.Acct, fmtDate(fd+1), w.Acct, w.tx(p, fd+2, w.Acct, com))
			}
			return fmt.Sprintf("%s close Assets:Spare\n\n%s", fmtDate(fd), w.tx(p, fd+1, "Assets:Spare", com))
		case "second-open":
			if strings.HasSuffix(w.Acct, ":Z9") {
				return fmt.Sprintf("%s open %s\n\n%s open %s\n", fmtDate(fd), w.Acct, fmtDate(fd+1), w.Acct)
			}
		case "close-with-position":
			if strings.HasSuffix(w.Acct, ":Z9") {
				// the position: the offending booking on the account, opened for it (the checker keeps the positions
				// of assets and liabilities)
				a := w.Acct
				if !strings.HasPrefix(a, "Assets:") && !strings.HasPrefix(a, "Liabilities:") {
					a = "Liabilities" + a[strings.Index(a, ":"):]
				}
				return fmt.Sprintf("%s open %s\n\n%s\n%s close %s\n", fmtDate(fd), a, w.tx(p, fd, a, p.Val), fmtDate(fd+1), a)
			}
		case "assertion-unopened":
			return fmt.Sprintf("%s balance %s %s %s\n", fmtDate(fd), w.Acct, w.Qty, com)
		case "close-unopened":
			return fmt.Sprintf("%s close %s\n", fmtDate(fd), w.Acct)
		case "missing-price":
			if w.Com == "" || w.Com == p.Val {
				com = "NOPRICE"
			}
			return w.tx(p, fd, p.acct(0), com)
		}
	}
	switch p.Fail {
	case "failed-assertion":
		return fmt.Sprintf("%s balance %s -987654321.5 %s\n", fmtDate(fd), p.acct(0), p.Val)
	case "unopened-account":
		return fmt.Sprintf("%s \"late\"\nIncome:Salary Assets:NeverOpened 1 %s\n", fmtDate(fd), p.Val)
	case "closed-account":
		return fmt.Sprintf("%s close Assets:Spare\n\n%s \"late\"\nIncome:Salary Assets:Spare 1 %s\n", fmtDate(fd), fmtDate(fd+1), p.Val)
	case "second-open":
		return fmt.Sprintf("%s open %s\n", fmtDate(fd), p.acct(0))
	case "close-with-position":
		return fmt.Sprintf("%s close %s\n", fmtDate(fd), p.acct(0))
	case "assertion-unopened":
		return fmt.Sprintf("%s balance Assets:NeverOpened 0 %s\n", fmtDate(fd), p.Val)
	case "close-unopened":
		return fmt.Sprintf("%s close Assets:NeverOpened\n", fmtDate(fd))
	case "missing-price":
		return fmt.Sprintf("%s \"late\"\nIncome:Salary %s 1 NOPRICE\n", fmtDate(fd), p.acct(0))
	case "syntax", "target-syntax":
		return fmt.Sprintf("%s open\n", fmtDate(fd))
	case "bad-date":
		return fmt.Sprintf("%s-13-45 open Assets:Q\n", fmtDate(fd)[:4])
	case "bad-account":
		return fmt.Sprintf("%s open Foo:Bar\n", fmtDate(fd))
	case "accrual-inverted":
		return fmt.Sprintf("@accrue monthly %s %s Assets:Spare\n%s \"late\"\nIncome:Salary %s 12 %s\n", fmtDate(fd+400), fmtDate(fd), fmtDate(fd), p.acct(0), p.Val)
	case "missing-include":
		return "include \"nothere.knut\"\n"
	case "include-cycle":
		return "include \"main.knut\"\n" // every file of the case lies in the directory of main.knut
	}
	return ""
}

// c14LateFiles writes out the journal: days 0..upTo (all days if the failing directive is included), spread in
// chronological runs over the included files; with the failing directive or without it.
func c14LateFiles(p *c14LatePlan, seedR *RNG, withFail bool) []c14File {
	// the amounts come from a generator of their own, so that prefix and failing journal agree on the common days
	r := &RNG{s: seedR.s}
	coms := []string{p.Val}
	for k := 0; k < p.Coms; k++ {
		coms = append(coms, fmt.Sprintf("C%d", k))
	}
	lastDay := p.At
	if withFail {
		lastDay = p.Days - 1
	}
	fail := ""
	if withFail {
		fail = p.failText()
	}
	var root strings.Builder
	b0 := fmtDate(p.Base)
	var head strings.Builder
	fmt.Fprintf(&head, "%s open Income:Salary\n%s open Equity:Opening\n%s open Assets:Spare\n", b0, b0, b0)
	for k := 0; k < 4; k++ {
		fmt.Fprintf(&head, "%s open Expenses:E%d\n", b0, k)
	}
	for k := 0; k < p.Accts; k++ {
		fmt.Fprintf(&head, "%s open %s\n", b0, p.acct(k))
	}
	for k := 1; k < len(coms); k++ {
		fmt.Fprintf(&head, "%s price %s %d.%02d %s\n", b0, coms[k], r.Range(1, 300), r.Intn(100), p.Val)
	}
	head.WriteString("\n")
	// the days
	nchunks := max(1, p.NFiles)
	chunks := make([]strings.Builder, nchunks)
	var target strings.Builder
	for d := 0; d < p.Days; d++ {
		var day strings.Builder
		dt := fmtDate(p.date(d))
		for t := 0; t < p.PerDay; t++ {
			n := d*p.PerDay + t
			k := n % p.Accts
			com := coms[k%len(coms)]
			amt := fmt.Sprintf("%d.%02d", r.Range(1, 5000), 25*r.Intn(4))
			if k > 0 && r.Chance(1, 5) {
				fmt.Fprintf(&day, "%s \"spend %d.%d\"\n%s Expenses:E%d %s %s\n\n", dt, d, t, p.acct(k), r.Intn(4), amt, com)
			} else {
				fmt.Fprintf(&day, "%s \"pay %d.%d\"\nIncome:Salary %s %s %s\n\n", dt, d, t, p.acct(k), amt, com)
			}
		}
		if len(coms) > 1 && r.Chance(1, 10) {
			fmt.Fprintf(&day, "%s price %s %d.%02d %s\n\n", dt, coms[1+r.Intn(len(coms)-1)], r.Range(1, 300), r.Intn(100), p.Val)
		}
		if d > lastDay {
			break // (up to here the generator has drawn the same numbers as for the longer journal)
		}
		ch := &chunks[d*nchunks/p.Days]
		ch.WriteString(day.String())
		if p.Form == "infer" {
			target.WriteString(strings.ReplaceAll(day.String(), "Income:Salary", "Expenses:TBD"))
		}
		if d == p.At && fail != "" && p.Where == "chrono" {
			ch.WriteString(fail + "\n")
		}
	}
	var files []c14File
	var incs strings.Builder
	for k := 0; k < p.NFiles; k++ {
		name := fmt.Sprintf("part%02d.knut", k)
		fmt.Fprintf(&incs, "include \"%s\"\n", name)
		text := chunks[k].String()
		if k == p.NFiles-1 && fail != "" && p.Where == "last-file-tail" {
			text += fail
		}
		files = append(files, c14File{Rel: name, Data: text})
	}
	if fail != "" && p.Where == "own-file" {
		files = append(files, c14File{Rel: "late.knut", Data: fail})
		incs.WriteString("include \"late.knut\"\n")
	}
	if incs.Len() > 0 {
		incs.WriteString("\n")
	}
	if p.IncHead {
		root.WriteString(incs.String())
	}
	root.WriteString(head.String())
	if fail != "" && p.Where == "root-head" {
		root.WriteString(fail + "\n")
	}
	if p.NFiles == 0 {
		root.WriteString(chunks[0].String())
	}
	if !p.IncHead {
		root.WriteString(incs.String())
	}
	if fail != "" && (p.Where == "root-tail" || (p.Where == "last-file-tail" && p.NFiles == 0)) {
		root.WriteString(fail)
	}
	files = append([]c14File{{Rel: "main.knut", Data: root.String()}}, files...)
	if p.Form == "infer" {
		t := target.String()
		if fail != "" && p.Where == "target-tail" {
			t += fail
		}
		files = append(files, c14File{Rel: "target.knut", Data: t})
	}
	return files
}

func c14LateGen(c *Ctx, i int) *c14LateCase {
	p, r := c14LatePlanOf(c, i)
	lc := &c14LateCase{plan: p}
	mk := func(withFail bool) *c14Case {
		tc := &c14Case{Stream: "late", Index: i, Kind: p.Fail, Path: "main.knut", Model: true}
		tc.Files = c14LateFiles(&p, r, withFail)
		switch p.Form {
		case "check-write-nocheck":
			tc.Cmd, tc.Model = "check-write", false
			tc.Argv = []string{"check", "--write", "--no-check", "main.knut"}
		case "balance", "balance-valued":
			tc.Cmd = "balance"
			tc.Bal = p.Bal
			tc.buildArgv()
		case "transcode":
			tc.Cmd, tc.Val = "transcode", p.Val
			tc.buildArgv()
		case "infer":
			tc.Cmd, tc.Train, tc.Path = "infer", "main.knut", "target.knut"
			tc.buildArgv()
		default:
			tc.Cmd = p.Form
			tc.buildArgv()
		}
		return tc
	}
	lc.run, lc.control = mk(true), mk(false)
	sr := c.Rng("late/schedule", i)
	lc.run.Sched = Pick(sr, []int{0, 0, 1 + sr.Intn(1000)})
	lc.run.Procs = Pick(sr, []int{0, 0, 1, 2, 16})
	lc.run.ExpectFail = p.Fail != "none"
	for _, f := range lc.run.Files {
		lc.total += len(f.Data)
	}
	return lc
}

// Input of a finding: the plan and the command; the files themselves when they are small (the case is rebuilt from
// stream, index and seed).
func (lc *c14LateCase) Input(tc *c14Case) map[string]any {
	in := map[string]any{"plan": lc.plan, "argv": tc.Argv, "sched_seed": tc.Sched, "gomaxprocs": tc.Procs,
		"how": "write the files into an empty directory, cd into it, run knut with argv (files over 48 KiB in all are summarised: replay regenerates them from stream, index and seed)"}
	if tc == lc.control {
		in["run"] = "the valid prefix of the journal alone"
	} else {
		in["run"] = "the journal with the failing directive"
	}
	total := 0
	for _, f := range tc.Files {
		total += len(f.Data)
	}
	if total <= 48<<10 {
		in["files"] = tc.Files
		return in
	}
	var sum []map[string]any
	for _, f := range tc.Files {
		m := map[string]any{"rel": f.Rel, "bytes": len(f.Data)}
		if len(f.Data) > 700 {
			m["begins"], m["ends"] = f.Data[:350], f.Data[len(f.Data)-350:]
		} else {
			m["data"] = f.Data
		}
		if len(sum) < 6 || f.Rel == "late.knut" || f.Rel == "target.knut" {
			sum = append(sum, m)
		}
	}
	in["files_summary"], in["files_count"], in["files_bytes"] = sum, len(tc.Files), total
	return in
}

// c14LateCount counts what is written and keeps the beginning.
type c14LateCount struct {
	buf bytes.Buffer
	n   int
}

func (w *c14LateCount) Write(p []byte) (int, error) {
	w.n += len(p)
	if room := 64<<10 - w.buf.Len(); room > 0 {
		w.buf.Write(p[:min(room, len(p))])
	}
	return len(p), nil
}

// c14LateExec runs knut in dir (c14Exec with the stream's own time limit and the full count of the output).
func c14LateExec(bin, dir string, tc *c14Case) int {
	ctx, cancel := context.WithTimeout(context.Background(), c14LateTimeout)
	defer cancel()
	script := fmt.Sprintf("ulimit -v %d; exec \"$0\" \"$@\"", c14VMemKB)
	cmd := exec.CommandContext(ctx, "/bin/sh", append([]string{"-c", script, bin}, tc.Argv...)...)
	cmd.Dir = dir
	var so, se c14LateCount
	cmd.Stdout, cmd.Stderr = &so, &se
	cmd.Env = append(os.Environ(), "NO_COLOR=1")
	if tc.Sched != 0 {
		cmd.Env = append(cmd.Env, fmt.Sprintf("KNUT_VERIF_SEED=%d", tc.Sched))
	}
	if tc.Procs != 0 {
		cmd.Env = append(cmd.Env, fmt.Sprintf("GOMAXPROCS=%d", tc.Procs))
	}
	cmd.SysProcAttr = &syscall.SysProcAttr{Setpgid: true}
	cmd.Cancel = func() error { return syscall.Kill(-cmd.Process.Pid, syscall.SIGKILL) }
	t0 := time.Now()
	err := cmd.Run()
	tc.wall = time.Since(t0)
	tc.stdout, tc.stderr = so.buf.String(), se.buf.String()
	if cmd.ProcessState != nil {
		if ru, ok := cmd.ProcessState.SysUsage().(*syscall.Rusage); ok {
			tc.maxRSSKB = ru.Maxrss
		}
	}
	switch {
	case ctx.Err() != nil:
		tc.ending = "timeout"
	case err == nil:
		tc.ending = "e0"
	default:
		tc.ending = "killed"
		if ee, ok := err.(*exec.ExitError); ok {
			if ws, ok := ee.Sys().(syscall.WaitStatus); !ok || !ws.Signaled() {
				tc.ending = fmt.Sprintf("e%d", ee.ExitCode())
			}
		} else {
			tc.stderr += "\nharness: " + err.Error()
		}
	}
	return so.n
}

// c14LateCrash: a crash trace on standard error, or the mark fmt leaves where a panic inside an Error / String method
// was swallowed while the diagnostic (or the report) was formatted: `%!v(PANIC=Error method: …)`.
func c14LateCrash(tc *c14Case) bool {
	if c14Crash(tc.stderr) {
		return true
	}
	for _, s := range []string{tc.stderr, tc.stdout} {
		if strings.Contains(s, "(PANIC=") && strings.Contains(s, "%!") {
			return true
		}
	}
	return false
}

func c14LateSize(n int) string {
	switch {
	case n == 0:
		return "empty"
	case n <= 4096:
		return "upto4KiB"
	case n <= 64<<10:
		return "4KiB-64KiB"
	case n <= 1<<20:
		return "64KiB-1MiB"
	}
	return "over1MiB"
}

func runC14Late(c *Ctx) {
	if c.KnutBin == "" {
		return
	}
	// `-only-stream late -only-index -1` runs the stream alone
	all := c.Replay && c.OnlyStr == "late" && c.OnlyIndex < 0
	if c.Replay && c.OnlyStr != "late" {
		return
	}
	root, _ := filepath.Abs(filepath.Join(c.WorkDir, "c14late"))
	os.MkdirAll(root, 0o755)
	knut, _ := filepath.Abs(c.KnutBin)
	n := c.N(64, 800)
	var idx []int
	for i := 0; i < n; i++ {
		if all || c.Want("late", i) {
			idx = append(idx, i)
		}
	}
	td := today()
	bt := c.NewBatch()
	bt.Limit = 200
	var maxWall time.Duration
	var maxRSS int64
	slowest := ""
	sizes := map[string]int{}
	const chunk = 16 // the texts of the cases that run together are in memory together
	for start := 0; start < len(idx); start += chunk {
		part := idx[start:min(start+chunk, len(idx))]
		cases := make([]*c14LateCase, len(part))
		parallelFor(len(part), 8, func(k int) {
			lc := c14LateGen(c, part[k])
			cases[k] = lc
			for q, tc := range []*c14Case{lc.run, lc.control} {
				if q == 1 && lc.plan.Fail == "none" {
					// the journal is its own prefix
					lc.control = nil
					lc.outLen[1] = lc.outLen[0]
					break
				}
				dir := filepath.Join(root, fmt.Sprintf("late%d-%d", lc.run.Index, q))
				os.RemoveAll(dir)
				tc.dir = dir
				c14Materialize(dir, tc.Files)
				if q == 0 && tc.Model && lc.total <= 40<<10 {
					rootsOf, single := []string{tc.Path}, []string(nil)
					if tc.Cmd == "infer" {
						rootsOf, single = []string{tc.Train}, []string{tc.Path}
					}
					tc.fsWire, tc.fsOK = c14FS(dir, rootsOf, single)
				}
				lc.outLen[q] = c14LateExec(knut, dir, tc)
				os.RemoveAll(dir)
				lc.input[q] = lc.Input(tc)
				tc.Files = nil // (large: the harness stays small)
			}
		})
		for _, lc := range cases {
			lc := lc
			p := lc.plan
			ctlClass, ctlSize := lc.run.implClass(), c14LateSize(lc.outLen[1])
			if lc.control != nil {
				ctlClass = lc.control.implClass()
			}
			if ctlClass != "ok" {
				ctlSize = "prefix-" + ctlClass
				c.Tag("late:prefix-not-ok")
			}
			sizes[ctlSize]++
			for q, tc := range []*c14Case{lc.run, lc.control} {
				if tc == nil {
					continue
				}
				tc := tc
				c.Evals++
				in := lc.input[q]
				cls := tc.implClass()
				if tc.wall > maxWall {
					maxWall = tc.wall
					slowest = fmt.Sprintf("late/%d %s %s (%d bytes of files)", tc.Index, p.Fail, strings.Join(tc.Argv, " "), lc.total)
				}
				maxRSS = max(maxRSS, tc.maxRSSKB)
				detail := fmt.Sprintf("%s after %.2fs, max RSS %d KB\nstdout (%d bytes): %q\nstderr: %s\nreport of the valid prefix alone: %d bytes", tc.ending, tc.wall.Seconds(), tc.maxRSSKB, lc.outLen[q],
					clip(tc.stdout)[:min(len(tc.stdout), 200)], clip(tc.stderr)[:min(len(tc.stderr), 1500)], lc.outLen[1])
				pre := ""
				if q == 1 {
					pre = "prefix_"
					c.Class(fmt.Sprintf("c14/late/%s/prefix/%s/%s", p.Form, ctlSize, cls))
				} else {
					c.Class(fmt.Sprintf("c14/late/%s/%s/%s/%s/%s", p.Form, p.Fail, p.Where, ctlSize, cls))
					c.Tag("late:cmd:" + p.Form)
					c.Tag("late:failure:" + p.Fail)
					c.Tag("late:class:" + cls)
					if cls == "error" {
						c.Tag("late:failed-after-report-of:" + ctlSize)
					}
					if tc.Index < 2 {
						c.Sample(map[string]any{"stream": "late", "plan": p, "argv": tc.Argv, "ending": tc.ending, "prefix_report_bytes": lc.outLen[1], "stderr": clip(tc.stderr)[:min(len(tc.stderr), 300)]})
					}
				}
				so, se, cr, ef := b2s(lc.outLen[q] == 0), b2s(strings.TrimSpace(tc.stderr) == ""), b2s(c14LateCrash(tc)), b2s(tc.ExpectFail)
				mon := func() {
					bt.Add(func(ans string) {
						if ans == "ok" {
							c.Monitored++
							return
						}
						c.Monitor("late", tc.Index, pre+strings.ReplaceAll(strings.TrimPrefix(ans, "fail "), "-", "_"), in, false, detail+"\n=> "+ans)
					}, "c14mon", b2s(tc.report()), tc.ending, so, se, cr, ef)
				}
				if q == 1 || !tc.Model || !tc.fsOK || tc.fsWire == "" {
					mon()
					continue
				}
				mcmd, _ := c14ModelCmd(tc.Cmd)
				bal := "-"
				if tc.Bal != nil && tc.Cmd == "balance" {
					bal = tc.Bal.Wire(td)
				}
				c.Tag("late:model-compared")
				bt.Add(func(ans string) {
					c.Compare("late", tc.Index, "outcome_class_"+tc.Cmd, in, cls, strings.Fields(ans + " x")[0])
					mon()
				}, "c14run", mcmd, Hex(tc.Path), bal, tc.extraWire(), tc.fsWire)
			}
		}
		bt.Flush()
		bt.Flush() // the monitors queued by the answers of the model
	}
	c.Extra["late_prefix_report_sizes"] = sizes
	c.Extra["late_max_wall_s"] = maxWall.Seconds()
	c.Extra["late_slowest_case"] = slowest
	c.Extra["late_max_rss_kb"] = maxRSS
	c.Extra["late_timeout_s"] = c14LateTimeout.Seconds()
}
