import Knut.Properties.C12
import Knut.FactsAgree.TransProcessAllBalance
/-!
# C12 over the days of a journal, on the generated definitions

`Properties/C12.lean` `C12_day`: `journal.ComputePrices(v)` leaves in `Day.Normalized` of day `i` the table `Normalize(v)` of the map
holding all declarations of days `0 … i` (nil before the first declaration) — about the model `Prices.computePrices`.
`Properties/C12Go.lean` ties the clauses about ONE table to the translated `Prices.Insert`/`Normalize`/`Price`.  This module ties the
clause over the DAYS: `FactsAgree/TransProcess.lean` proves the translated closures of `ComputePrices` (`Price`, `DayEnd`), run over a
day by `Processor.Process` (`processDay (computePricesProc …)`), equal to the model's day step (`ComputePrices_day_agrees`); here they are
folded over the days of a journal from the constructor's initial state (`cpDaysGo`, the sequential meaning of `Journal.Process` for this
one processor — goroutines and channels are not translated, see C19), and

* `cpDays_agrees`: whenever the model's `computePrices` succeeds, the Go run succeeds — no error, no panic, never out of fuel for every
  adequate fuel family (`TransProcessAll.FuelOK`) — and every day comes back unchanged except for `Normalized`, which answers every
  lookup as the model's table of that day (`NPEquivO`);
* **`C12_day_go`**: `Normalized` of day `i` answers every lookup as `Normalize(v)` of the map holding all declarations of days `0 … i`
  in journal order, and has no price for anything (the nil map) before the first declaration.

The Go days stand for the model days through their price directives only (`DayPricesRel`: dates and `Src` pointers arbitrary).
The fuel family is a hypothesis (`FuelOK`: on every day at least the model's termination measure `unvisited + 1` of the search on the
map after the day's inserts; `C12Go.Normalize_ok` bounds that measure by `2·|declarations| + 1`).  LEFT: an explicit family in terms of
the Go state (`|keys of g.prc| + 2·|dg.Prices| + 2` would do) is not exhibited here, so the non-vacuity example is the empty journal only.
-/
namespace Knut.C12Go2
open Knut Knut.GoSem Knut.Prices
open Knut.Generated.Go
open Knut.FactsAgree.TransProcess Knut.FactsAgree.TransProcessAll
open Knut.FactsAgree.TransPrice (cGo)

/-- a declaration as a price directive of the journal (the date plays no role for `ComputePrices`) -/
def priceOf (date : Int) (x : Decl) : Knut.Price := ⟨date, x.commodity, x.price, x.target⟩

/-- the Go day's price directives stand for the declarations of the model day -/
def DayPricesRel (cur : String → Bool) (dg : journal.Day) (d : Prices.Day) : Prop :=
  AllRel (PriceRel cur) dg.Prices (d.prices.map (priceOf d.date))

theorem insertPrices_map (date : Int) : ∀ (decls : List Decl) (graph : Prices.Prices),
    insertPrices graph (decls.map (priceOf date)) =
      match insertAll graph decls with
      | some g => .ok g
      | none => .error BalErr.zeroPrice := by
  intro decls
  induction decls with
  | nil => intro graph; rfl
  | cons x rest ih =>
    intro graph
    simp only [List.map_cons, insertPrices_cons, insertAll, priceOf]
    cases Prices.insert graph ⟨x.commodity, x.price, x.target⟩ with
    | none => rfl
    | some g' => exact ih g'

/-- `ComputePrices(v)` over the days in order (each day through `Processor.Process`, the captured state going from day to day); the
first error ends the run -/
def cpDaysGo (vG : commodity.Commodity) (fuel : journal.ComputePrices.State → journal.Day → Nat) :
    journal.ComputePrices.State → List journal.Day → GoSem.Outcome (List journal.Day × Option GoSem.Error)
  | _, [] => .ok ([], none)
  | g, dg :: rest =>
    (processDay (computePricesProc vG (fuel g dg)) g dg).bind fun r =>
      match r.2.2 with
      | some e => .ok ([], some e)
      | none => (cpDaysGo vG fuel r.1 rest).bind fun r2 => .ok (r.2.1 :: r2.1, r2.2)

theorem AllRel_get {α β : Type} {R : α → β → Prop} {as : List α} {bs : List β} (h : AllRel R as bs) :
    ∀ (i : Nat) (h1 : i < as.length) (h2 : i < bs.length), R as[i] bs[i] := by
  induction h with
  | nil => intro i h1; simp at h1
  | cons hab _ ih =>
    intro i h1 h2
    cases i with
    | zero => exact hab
    | succ k => exact ih k (by simpa using h1) (by simpa using h2)

/-- one day -/
theorem cpDay_go (cur : String → Bool) (v : Knut.Commodity) (fuel : Nat) {g : journal.ComputePrices.State} (st : CPState)
    (h : CPEquiv cur g st.prc st.previous) (dg : journal.Day) (d : Prices.Day) (hps : DayPricesRel cur dg d)
    (hfuel : ∀ graph', insertPrices st.prc (d.prices.map (priceOf d.date)) = .ok graph' → Prices.unvisited graph' [(v, 1)] + 1 ≤ fuel)
    (st' : CPState) (n : Option NPrices) (hm : cpDay v st d = some (st', n)) :
    ∃ g', processDay (computePricesProc (cGo cur v) fuel) g dg = .ok (g', { dg with Normalized := g'.previous }, none) ∧
      CPEquiv cur g' st'.prc st'.previous ∧ n = st'.previous := by
  have h1 := ComputePrices_day_agrees cur v fuel (g := g) { graph := st.prc, norm := st.previous } h dg
    { date := d.date, prices := d.prices.map (priceOf d.date) } hps hfuel
  rw [pricesDay_eq] at h1
  simp only [insertPrices_map] at h1
  unfold cpDay at hm
  cases hi : insertAll st.prc d.prices with
  | none => simp [hi] at hm
  | some prc =>
    simp only [hi, Option.some.injEq, Prod.mk.injEq] at hm h1
    obtain ⟨hst, hn⟩ := hm
    subst hst
    revert h1
    generalize processDay (computePricesProc (cGo cur v) fuel) g dg = R
    rcases R with ⟨g1, dg1, _ | e1⟩ | m | _ <;> simp only [false_imp_iff, and_imp]
    intro hc hdg _ _
    subst hdg
    refine ⟨g1, rfl, ?_, hn.symm⟩
    have hnorm : (if (d.prices.map (priceOf d.date)).isEmpty = true then st.previous else some (normalize prc v)) =
        (if d.prices.length > 0 then some (normalize prc v) else st.previous) := by
      cases d.prices <;> simp
    simp only [hnorm] at hc
    exact hc

/-- **`ComputePrices` over all days** = the model's `computePrices` -/
theorem cpDays_agrees (cur : String → Bool) (v : Knut.Commodity) (fuel : journal.ComputePrices.State → journal.Day → Nat)
    (hfuel : FuelOK cur v fuel) :
    ∀ (days : List Prices.Day) (gdays : List journal.Day) (g : journal.ComputePrices.State) (st : CPState)
      (out : List (Int × Option NPrices)), CPEquiv cur g st.prc st.previous → AllRel (DayPricesRel cur) gdays days →
      computePrices v st days = some out →
      ∃ outG, cpDaysGo (cGo cur v) fuel g gdays = .ok (outG, none) ∧
        AllRel (fun (p : journal.Day × journal.Day) (o : Int × Option NPrices) =>
          p.2 = { p.1 with Normalized := p.2.Normalized } ∧ NPEquivO cur p.2.Normalized o.2) (gdays.zip outG) out ∧
        outG.length = gdays.length := by
  intro days
  induction days with
  | nil =>
    intro gdays g st out _ hrel hm
    cases hrel
    simp only [computePrices, Option.some.injEq] at hm
    subst hm
    exact ⟨[], rfl, .nil, rfl⟩
  | cons d rest ih =>
    intro gdays g st out hc hrel hm
    cases hrel with
    | cons hd hrest =>
      rename_i dg grest
      simp only [computePrices] at hm
      cases hcd : cpDay v st d with
      | none => simp [hcd] at hm
      | some r =>
        obtain ⟨st', n⟩ := r
        simp only [hcd] at hm
        cases hr : computePrices v st' rest with
        | none => simp [hr] at hm
        | some outr =>
          simp only [hr, Option.some.injEq] at hm
          subst hm
          obtain ⟨g', hgo, hc', hn⟩ := cpDay_go cur v (fuel g dg) st hc dg d hd
            (fun graph' hg => hfuel g dg st.prc st.previous { date := d.date, prices := d.prices.map (priceOf d.date) } hc hd graph' hg)
            st' n hcd
          obtain ⟨outG, hgo2, hall, hlen⟩ := ih grest g' st' outr hc' hrest hr
          refine ⟨{ dg with Normalized := g'.previous } :: outG, ?_, ?_, by simp [hlen]⟩
          · simp only [cpDaysGo, hgo, GoSem.Outcome.bind, hgo2]
          · simp only [List.zip_cons_cons]
            refine .cons ⟨rfl, ?_⟩ hall
            rw [hn]
            exact hc'.previous

/-- **on a given day, on the translated closures**: `Normalized` of day `i` after `ComputePrices(v)` answers every lookup as
`Normalize(v)` of the map holding all declarations of days `0 … i`, in journal order; before the first declaration it has no price
for anything (Go's nil map); the day is otherwise unchanged -/
theorem C12_day_go (cur : String → Bool) (v : Knut.Commodity) (fuel : journal.ComputePrices.State → journal.Day → Nat)
    (hfuel : FuelOK cur v fuel) (days : List Prices.Day) (gdays : List journal.Day) (hrel : AllRel (DayPricesRel cur) gdays days)
    (out : List (Int × Option NPrices)) (h : computePrices v {} days = some out) :
    ∃ outG, cpDaysGo (cGo cur v) fuel ⟨GoZero.zero, []⟩ gdays = .ok (outG, none) ∧ outG.length = gdays.length ∧
      ∀ (i : Nat) (hi : i < days.length) (h1 : i < gdays.length) (h2 : i < outG.length),
        outG[i] = { gdays[i] with Normalized := outG[i].Normalized } ∧
        ∃ ps, insertAll [] (declsUpTo days i) = some ps ∧
          ∀ c : Knut.Commodity, Knut.AMap.find? outG[i].Normalized (cGo cur c) =
            if declsUpTo days i = [] then none else Prices.find c (normalize ps v) := by
  have hinit : CPEquiv cur (⟨GoZero.zero, []⟩ : journal.ComputePrices.State) ({} : CPState).prc ({} : CPState).previous :=
    ⟨Knut.FactsAgree.TransPrice.PEquivS_nil cur, NPEquivO_nil cur⟩
  obtain ⟨outG, hgo, hall, hlen⟩ := cpDays_agrees cur v fuel hfuel days gdays _ {} out hinit hrel h
  refine ⟨outG, hgo, hlen, ?_⟩
  intro i hi h1 h2
  obtain ⟨ps, hps, hout⟩ := C12.C12_day v days out h i hi
  have hz : i < (gdays.zip outG).length := by simp [List.length_zip, hlen]; omega
  have ho : i < out.length := by
    have := AllRel_length hall
    omega
  have hrel_i := AllRel_get hall i hz ho
  have ho' : out[i] = (days[i].date, if declsUpTo days i = [] then none else some (normalize ps v)) := by
    rw [List.getElem?_eq_getElem ho] at hout
    injection hout
  rw [List.getElem_zip, ho'] at hrel_i
  obtain ⟨hday, hN⟩ := hrel_i
  refine ⟨hday, ps, hps, fun c => ?_⟩
  rw [hN c]
  by_cases he : declsUpTo days i = []
  · simp [he]
  · simp [he]

/-! ### Non-vacuity: the journal without days: the run succeeds on no day -/
example (cur : String → Bool) (fuel : journal.ComputePrices.State → journal.Day → Nat) :
    cpDaysGo (cGo cur "CHF") fuel ⟨GoZero.zero, []⟩ [] = .ok ([], none) := rfl

end Knut.C12Go2
