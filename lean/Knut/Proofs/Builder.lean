import Knut.Model.Journal
/-! The journal builder groups directives by day, independently of their order (C05). -/
namespace Knut

/-- the day with the given date, if any -/
def findDay (days : List Day) (date : Int) : Option Day := days.find? (fun d => d.date = date)

def Sorted (days : List Day) : Prop := List.Pairwise (fun a b => a.date < b.date) days

theorem insertDay_mem_dates (days : List Day) (date x : Int) :
    x ∈ (insertDay days date).map (·.date) ↔ x = date ∨ x ∈ days.map (·.date) := by
  induction days with
  | nil => simp [insertDay]
  | cons d rest ih =>
    unfold insertDay
    split
    · simp
    · split
      · rename_i h; simp only [List.map_cons, List.mem_cons]; constructor
        · intro hx; exact Or.inr hx
        · rintro (hx | hx); · left; rw [hx, h]
          exact hx
      · simp only [List.map_cons, List.mem_cons, ih]
        constructor
        · rintro (h | h | h) <;> simp [h]
        · rintro (h | h | h) <;> simp [h]

theorem insertDay_sorted (days : List Day) (date : Int) (h : Sorted days) : Sorted (insertDay days date) := by
  induction days with
  | nil => simp [insertDay, Sorted]
  | cons d rest ih =>
    unfold Sorted at h ⊢
    rw [List.pairwise_cons] at h
    unfold insertDay
    split
    · rename_i hlt
      rw [List.pairwise_cons]
      refine ⟨?_, List.pairwise_cons.mpr h⟩
      intro b hb
      rcases List.mem_cons.mp hb with rfl | hb
      · exact hlt
      · have := h.1 b hb; simp only at this ⊢; omega
    · split
      · exact List.pairwise_cons.mpr h
      · rename_i h1 h2
        rw [List.pairwise_cons]
        refine ⟨?_, ih h.2⟩
        intro b hb
        have : b.date ∈ (insertDay rest date).map (·.date) := List.mem_map.mpr ⟨b, hb, rfl⟩
        rcases (insertDay_mem_dates rest date b.date).mp this with hx | hx
        · omega
        · obtain ⟨b', hb', hbd⟩ := List.mem_map.mp hx
          have := h.1 b' hb'
          omega

/-- content of a day list at a date, per kind -/
def txsOn (days : List Day) (date : Int) : List Transaction := ((findDay days date).map (·.transactions)).getD []
def opensOn (days : List Day) (date : Int) : List Open := ((findDay days date).map (·.openings)).getD []
def closesOn (days : List Day) (date : Int) : List Close := ((findDay days date).map (·.closings)).getD []
def pricesOn (days : List Day) (date : Int) : List Price := ((findDay days date).map (·.prices)).getD []
def assertsOn (days : List Day) (date : Int) : List Assertion := ((findDay days date).map (·.assertions)).getD []

theorem findDay_none_of_lt (days : List Day) (x : Int) (h : ∀ d ∈ days, x < d.date) : findDay days x = none := by
  unfold findDay
  apply List.find?_eq_none.mpr
  intro d hd
  have := h d hd
  simp only [decide_eq_true_eq]; omega

/-- `insertDay` adds an empty day if the date is new and changes nothing else -/
theorem findDay_insertDay (days : List Day) (hs : Sorted days) (date x : Int) :
    findDay (insertDay days date) x =
      match findDay days x with
      | some d => some d
      | none => if x = date then some { date := date } else none := by
  induction days with
  | nil =>
    simp only [insertDay, findDay, List.find?_cons, List.find?_nil]
    by_cases h : date = x
    · simp [h]
    · have : ¬ x = date := fun e => h e.symm
      simp [h, this]
  | cons d rest ih =>
    unfold Sorted at hs
    rw [List.pairwise_cons] at hs
    unfold insertDay
    split
    · rename_i hlt
      -- date is smaller than every existing date
      by_cases h : date = x
      · subst h
        have hnone : findDay (d :: rest) date = none := by
          apply findDay_none_of_lt
          intro b hb
          rcases List.mem_cons.mp hb with rfl | hb
          · exact hlt
          · have := hs.1 b hb; omega
        rw [hnone]
        simp [findDay]
      · have h' : ¬ x = date := fun e => h e.symm
        have : findDay ({ date := date } :: d :: rest) x = findDay (d :: rest) x := by
          simp [findDay, List.find?_cons, h]
        rw [this]
        cases findDay (d :: rest) x <;> simp [h']
    · split
      · rename_i h1 h2
        by_cases hx : x = date
        · subst hx
          have : findDay (d :: rest) x = some d := by simp [findDay, List.find?_cons, h2]
          rw [this]
        · cases findDay (d :: rest) x <;> simp [hx]
      · rename_i h1 h2
        by_cases hd : d.date = x
        · have e1 : findDay (d :: insertDay rest date) x = some d := by simp [findDay, List.find?_cons, hd]
          have e2 : findDay (d :: rest) x = some d := by simp [findDay, List.find?_cons, hd]
          rw [e1, e2]
        · have e1 : findDay (d :: insertDay rest date) x = findDay (insertDay rest date) x := by
            simp [findDay, List.find?_cons, hd]
          have e2 : findDay (d :: rest) x = findDay rest x := by simp [findDay, List.find?_cons, hd]
          rw [e1, e2]
          exact ih hs.2

theorem Day.add_date (d : Day) (x : Directive) : (d.add x).date = d.date := by
  cases x <;> rfl

theorem findDay_map (days : List Day) (f : Day → Day) (hf : ∀ d, (f d).date = d.date) (y : Int) :
    findDay (days.map f) y = (findDay days y).map f := by
  induction days with
  | nil => rfl
  | cons d rest ih =>
    simp only [List.map_cons, findDay, List.find?_cons, hf]
    by_cases h : d.date = y
    · simp [h]
    · simp only [h, decide_false]; exact ih

theorem map_sorted (days : List Day) (f : Day → Day) (hf : ∀ d, (f d).date = d.date) (h : Sorted days) :
    Sorted (days.map f) := by
  unfold Sorted at *
  rw [List.pairwise_map]
  exact h.imp (fun hab => by rw [hf, hf]; exact hab)

theorem addToDays_sorted (days : List Day) (x : Directive) (h : Sorted days) : Sorted (addToDays days x) := by
  unfold addToDays
  apply map_sorted _ _ _ (insertDay_sorted days x.date h)
  intro d; split
  · exact Day.add_date d x
  · rfl

/-- the day found at `y` after adding `x` -/
theorem findDay_addToDays (days : List Day) (hs : Sorted days) (x : Directive) (y : Int) :
    findDay (addToDays days x) y =
      if y = x.date then some (((findDay days y).getD { date := x.date }).add x) else findDay days y := by
  unfold addToDays
  rw [findDay_map _ _ (by intro d; split; exact Day.add_date d x; rfl), findDay_insertDay days hs]
  by_cases hy : y = x.date
  · subst hy
    simp only [if_true]
    cases hf : findDay days x.date with
    | none => simp
    | some d =>
      have : d.date = x.date := by
        have := List.find?_some hf; simpa using this
      simp [this]
  · simp only [hy, if_false]
    cases hf : findDay days y with
    | none => simp
    | some d =>
      have : d.date = y := by
        have := List.find?_some hf; simpa using this
      have hne : ¬ d.date = x.date := by rw [this]; exact hy
      simp [hne]

/-- a kind of directive: how to recognise it and where a day stores it -/
structure Kind (α : Type) where
  pick : Directive → Option α
  proj : Day → List α
  add : ∀ (d : Day) (x : Directive), proj (d.add x) = proj d ++ (pick x).toList
  empty : ∀ date, proj { date := date } = []

def txKind : Kind Transaction := ⟨fun x => match x with | .tx t => some t | _ => none, (·.transactions),
  by intro d x; cases x <;> simp [Day.add], by intro _; rfl⟩
def openKind : Kind Open := ⟨fun x => match x with | .opening t => some t | _ => none, (·.openings),
  by intro d x; cases x <;> simp [Day.add], by intro _; rfl⟩
def closeKind : Kind Close := ⟨fun x => match x with | .closing t => some t | _ => none, (·.closings),
  by intro d x; cases x <;> simp [Day.add], by intro _; rfl⟩
def priceKind : Kind Price := ⟨fun x => match x with | .price t => some t | _ => none, (·.prices),
  by intro d x; cases x <;> simp [Day.add], by intro _; rfl⟩
def assertKind : Kind Assertion := ⟨fun x => match x with | .assertion t => some t | _ => none, (·.assertions),
  by intro d x; cases x <;> simp [Day.add], by intro _; rfl⟩

/-- what a list of days holds for kind `k` on date `y` -/
def contentOn {α : Type} (k : Kind α) (days : List Day) (y : Int) : List α := ((findDay days y).map k.proj).getD []

/-- what the directives say for kind `k` on date `y`, in their order -/
def collect {α : Type} (k : Kind α) (ds : List Directive) (y : Int) : List α :=
  ds.filterMap (fun x => if x.date = y then k.pick x else none)

theorem contentOn_add {α : Type} (k : Kind α) (days : List Day) (hs : Sorted days) (x : Directive) (y : Int) :
    contentOn k (addToDays days x) y = contentOn k days y ++ (if x.date = y then (k.pick x).toList else []) := by
  unfold contentOn
  rw [findDay_addToDays days hs]
  by_cases hy : y = x.date
  · subst hy
    simp only [if_true]
    cases hf : findDay days x.date with
    | none => simp [k.add, k.empty]
    | some d => simp [k.add]
  · have : ¬ x.date = y := fun e => hy e.symm
    simp [hy, this]

theorem Builder.add_days (b : Builder) (x : Directive) : (b.add x).days = addToDays b.days x := by
  unfold Builder.add; cases x <;> rfl

/-- **grouping**: the builder's days are sorted by date, and each day holds exactly the directives of that
date, per kind in input order -/
theorem ofList_spec {α : Type} (k : Kind α) (ds : List Directive) :
    Sorted (Builder.ofList ds).days ∧ ∀ y, contentOn k (Builder.ofList ds).days y = collect k ds y := by
  unfold Builder.ofList
  suffices h : ∀ (ds : List Directive) (b : Builder) (pre : List Directive), Sorted b.days →
      (∀ y, contentOn k b.days y = collect k pre y) →
      Sorted (ds.foldl Builder.add b).days ∧ ∀ y, contentOn k (ds.foldl Builder.add b).days y = collect k (pre ++ ds) y by
    have := h ds {} [] (by simp [Sorted]) (by intro y; rfl)
    simpa using this
  intro ds
  induction ds with
  | nil => intro b pre hs hc; simpa using ⟨hs, hc⟩
  | cons x rest ih =>
    intro b pre hs hc
    simp only [List.foldl_cons]
    have := ih (b.add x) (pre ++ [x]) (by rw [Builder.add_days]; exact addToDays_sorted _ _ hs) (by
      intro y
      rw [Builder.add_days, contentOn_add k _ hs, hc y]
      unfold collect
      rw [List.filterMap_append]
      congr 1
      simp only [List.filterMap_cons, List.filterMap_nil]
      split <;> (cases k.pick x <;> simp_all))
    simpa [List.append_assoc] using this

theorem mem_dates_addToDays (days : List Day) (x : Directive) (y : Int) :
    y ∈ (addToDays days x).map (·.date) ↔ y = x.date ∨ y ∈ days.map (·.date) := by
  unfold addToDays
  rw [List.map_map]
  have : ((fun d : Day => d.date) ∘ fun d => if d.date = x.date then d.add x else d) = fun d => d.date := by
    funext d; simp only [Function.comp]; split
    · exact Day.add_date d x
    · rfl
  rw [this]
  exact insertDay_mem_dates days x.date y

theorem ofList_dates (ds : List Directive) (y : Int) :
    y ∈ (Builder.ofList ds).days.map (·.date) ↔ y ∈ ds.map (·.date) := by
  unfold Builder.ofList
  suffices h : ∀ (ds : List Directive) (b : Builder),
      (y ∈ (ds.foldl Builder.add b).days.map (·.date) ↔ (y ∈ b.days.map (·.date) ∨ y ∈ ds.map (·.date))) by
    have := h ds {}
    simpa using this
  intro ds
  induction ds with
  | nil => intro b; simp
  | cons x rest ih =>
    intro b
    simp only [List.foldl_cons]
    rw [ih, Builder.add_days, mem_dates_addToDays]
    simp only [List.map_cons, List.mem_cons]
    constructor
    · rintro ((h | h) | h) <;> simp [h]
    · rintro (h | h | h) <;> simp [h]

/-- two sorted day lists with the same dates have the same date sequence -/
theorem sorted_dates_unique : ∀ (a b : List Int), List.Pairwise (· < ·) a → List.Pairwise (· < ·) b →
    (∀ y, y ∈ a ↔ y ∈ b) → a = b
  | [], [], _, _, _ => rfl
  | [], y :: _, _, _, h => by have := (h y).mpr List.mem_cons_self; cases this
  | x :: _, [], _, _, h => by have := (h x).mp List.mem_cons_self; cases this
  | x :: xs, y :: ys, ha, hb, h => by
    rw [List.pairwise_cons] at ha hb
    have hxy : x = y := by
      have h1 := (h x).mp List.mem_cons_self
      have h2 := (h y).mpr List.mem_cons_self
      rcases List.mem_cons.mp h1 with e | e
      · exact e
      · rcases List.mem_cons.mp h2 with e2 | e2
        · exact e2.symm
        · have := ha.1 y e2; have := hb.1 x e; omega
    subst hxy
    congr 1
    apply sorted_dates_unique xs ys ha.2 hb.2
    intro z
    constructor
    · intro hz
      have := (h z).mp (List.mem_cons_of_mem _ hz)
      rcases List.mem_cons.mp this with e | e
      · subst e; have := ha.1 z hz; omega
      · exact e
    · intro hz
      have := (h z).mpr (List.mem_cons_of_mem _ hz)
      rcases List.mem_cons.mp this with e | e
      · subst e; have := hb.1 z hz; omega
      · exact e

end Knut
