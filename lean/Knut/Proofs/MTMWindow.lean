import Knut.Proofs.MTMBridge
import Knut.Proofs.Builder
/-!
# C03: days outside the reporting window (`--from` / `--to`)

`Proofs/MTMBridge.lean` projects `Balance.dayTxs` on one position for days INSIDE the window.  Here the rest:

* `pipelineRun_append` – the fold over `xs ++ ys` is the fold over `xs` followed by the fold over `ys`;
* `dayQ_outside` / `pipelineRun_outside` – on a day outside the window nothing reaches the Query stage on an
  asset/liability account (Filter drops the day's transactions, closings never touch A/L accounts), while the
  Valuate state (quantities, previous prices) evolves exactly as inside;
* `dayQ_vQty` / `pipelineRun_vQty` – the quantity of ANY asset/liability position (also in the valuation commodity)
  after a list of days is the start quantity plus the quantities booked on it;
* `sorted_split` – a date-sorted day list is `filter (date < x) ++ filter (¬ date < x)`;
* `dayQ_dates` / `pipelineRun_dates` – every transaction handed to the Query stage on a day carries the day's date.
-/
namespace Knut.MTM
open Knut Knut.Dec

/-! ### splitting the fold -/

theorem pipelineRun_append (cfg : BalCfg) : ∀ (xs ys : List Day) (st st' : BalState) (txs : List Transaction),
    pipelineRun cfg st (xs ++ ys) = .ok (st', txs) →
    ∃ st1 t1 t2, pipelineRun cfg st xs = .ok (st1, t1) ∧ pipelineRun cfg st1 ys = .ok (st', t2) ∧ txs = t1 ++ t2
  | [], ys, st, st', txs, h => ⟨st, [], txs, rfl, h, rfl⟩
  | d :: xs, ys, st, st', txs, h => by
    rw [List.cons_append] at h
    unfold pipelineRun at h
    cases hq : dayQ cfg st d with
    | error e => rw [hq] at h; cases h
    | ok r =>
      obtain ⟨sd, td⟩ := r
      rw [hq] at h; simp only at h
      cases hr : pipelineRun cfg sd (xs ++ ys) with
      | error e => rw [hr] at h; cases h
      | ok r2 =>
        obtain ⟨s2, rest⟩ := r2
        rw [hr] at h; simp only at h
        injection h with h; injection h with h1 h2; subst h1; subst h2
        obtain ⟨st1, t1, t2, a1, a2, a3⟩ := pipelineRun_append cfg xs ys sd s2 rest hr
        refine ⟨st1, td ++ t1, t2, ?_, a2, ?_⟩
        · unfold pipelineRun
          rw [hq]; simp only
          rw [a1]
        · rw [a3, List.append_assoc]

theorem pipelineRun_append_ok (cfg : BalCfg) : ∀ (xs ys : List Day) (st st1 st' : BalState) (t1 t2 : List Transaction),
    pipelineRun cfg st xs = .ok (st1, t1) → pipelineRun cfg st1 ys = .ok (st', t2) →
    pipelineRun cfg st (xs ++ ys) = .ok (st', t1 ++ t2)
  | [], ys, st, st1, st', t1, t2, h1, h2 => by
    unfold pipelineRun at h1
    injection h1 with h1; injection h1 with a b; subst a; subst b
    exact h2
  | d :: xs, ys, st, st1, st', t1, t2, h1, h2 => by
    rw [List.cons_append]
    unfold pipelineRun at h1 ⊢
    cases hq : dayQ cfg st d with
    | error e => rw [hq] at h1; cases h1
    | ok r =>
      obtain ⟨sd, td⟩ := r
      rw [hq] at h1; simp only at h1 ⊢
      cases hr : pipelineRun cfg sd xs with
      | error e => rw [hr] at h1; cases h1
      | ok r2 =>
        obtain ⟨s2, rest⟩ := r2
        rw [hr] at h1; simp only at h1
        injection h1 with h1; injection h1 with a b; subst a; subst b
        rw [pipelineRun_append_ok cfg xs ys sd s2 st' rest t2 hr h2]
        simp only [List.append_assoc]

/-- `Balance.run` on a list of days is `pipelineRun` from the empty state -/
theorem run_of_pipelineRun (cfg : BalCfg) (days : List Day) (st : BalState) (txs : List Transaction)
    (h : pipelineRun cfg {} days = .ok (st, txs)) : Balance.run cfg days = .ok st := by
  unfold Balance.run
  rw [foldlM_day_eq, h]
  rfl

/-! ### sorted day lists -/

theorem sorted_split (x : Int) : ∀ (days : List Day), Sorted days →
    days = days.filter (fun d => decide (d.date < x)) ++ days.filter (fun d => !decide (d.date < x))
  | [], _ => rfl
  | d :: ds, h => by
    unfold Sorted at h
    rw [List.pairwise_cons] at h
    have ih := sorted_split x ds h.2
    by_cases hd : d.date < x
    · simp only [List.filter_cons, hd, decide_true, if_true, Bool.not_true, Bool.false_eq_true, if_false, List.cons_append]
      exact congrArg _ ih
    · have hall : ds.filter (fun d => decide (d.date < x)) = [] := by
        rw [List.filter_eq_nil_iff]
        intro b hb
        have := h.1 b hb
        simp only [decide_eq_true_eq]; omega
      have hall2 : ds.filter (fun d => !decide (d.date < x)) = ds := by
        rw [List.filter_eq_self]
        intro b hb
        have := h.1 b hb
        simp only [Bool.not_eq_true', decide_eq_false_iff_not]; omega
      simp only [List.filter_cons, hd, decide_false, Bool.false_eq_true, if_false, Bool.not_false, if_true, hall, hall2,
        List.nil_append]

theorem sorted_filter (p : Day → Bool) (days : List Day) (h : Sorted days) : Sorted (days.filter p) :=
  List.Pairwise.sublist List.filter_sublist h

/-! ### dates of the transactions handed to the Query stage -/

theorem postingsOnly_date {t t' : Transaction} {v : Commodity} {cur : Option Prices.NPrices}
    (h : Balance.valueTx v cur t = .ok t') : t'.date = t.date := by
  unfold Balance.valueTx at h
  simp only [bind, Except.bind] at h
  split at h
  · cases h
  · injection h with h; subst h; rfl

theorem mapM_valueTx_dates (v : Commodity) (cur : Option Prices.NPrices) (D : Int) :
    ∀ (ts ts' : List Transaction), ts.mapM (Balance.valueTx v cur) = .ok ts' → (∀ t ∈ ts, t.date = D) → ∀ t ∈ ts', t.date = D
  | [], ts', h, _ => by
    simp only [List.mapM_nil, pure, Except.pure] at h
    injection h with h; subst h
    intro t ht; cases ht
  | t :: rest, ts', h, hd => by
    simp only [List.mapM_cons, bind, Except.bind] at h
    cases ht : Balance.valueTx v cur t with
    | error e => rw [ht] at h; cases h
    | ok t' =>
      rw [ht] at h; simp only at h
      cases hr : rest.mapM (Balance.valueTx v cur) with
      | error e => rw [hr] at h; cases h
      | ok rest' =>
        rw [hr] at h; simp only [pure, Except.pure] at h
        injection h with h; subst h
        intro x hx
        rcases List.mem_cons.mp hx with rfl | hx
        · rw [postingsOnly_date ht]; exact hd t List.mem_cons_self
        · exact mapM_valueTx_dates v cur D rest rest' hr (fun y hy => hd y (List.mem_cons_of_mem _ hy)) x hx

theorem adjustStep_dates (v : Commodity) (date : Int) (prev cur : Option Prices.NPrices)
    (acc res : List Transaction) (e : Position × Rat) (h : Balance.adjustStep v date prev cur acc e = .ok res)
    (hacc : ∀ t ∈ acc, t.date = date) : ∀ t ∈ res, t.date = date := by
  unfold Balance.adjustStep at h
  split at h
  · injection h with h; subst h; exact hacc
  · simp only [bind, Except.bind] at h
    split at h
    · cases h
    · split at h
      · cases h
      · split at h
        · injection h with h; subst h; exact hacc
        · injection h with h; subst h
          intro t ht
          rcases List.mem_append.mp ht with ht | ht
          · exact hacc t ht
          · simp only [List.mem_cons, List.not_mem_nil, or_false] at ht
            subst ht; rfl

theorem adjustments_dates (v : Commodity) (date : Int) (prev cur : Option Prices.NPrices) :
    ∀ (q : AMap Position Rat) (acc res : List Transaction), q.foldlM (Balance.adjustStep v date prev cur) acc = .ok res →
      (∀ t ∈ acc, t.date = date) → ∀ t ∈ res, t.date = date
  | [], acc, res, h, hacc => by
    simp only [List.foldlM_nil, pure, Except.pure] at h
    injection h with h; subst h; exact hacc
  | e :: rest, acc, res, h, hacc => by
    simp only [List.foldlM_cons, bind, Except.bind] at h
    cases hs : Balance.adjustStep v date prev cur acc e with
    | error x => rw [hs] at h; cases h
    | ok acc' =>
      rw [hs] at h; simp only at h
      exact adjustments_dates v date prev cur rest acc' res h (adjustStep_dates v date prev cur acc acc' e hs hacc)

theorem closings_dates (date : Int) (cQty cVal : AMap Position Rat) :
    ∀ t ∈ Balance.closings date cQty cVal, t.date = date := by
  intro t ht
  unfold Balance.closings at ht
  rw [List.mem_filterMap] at ht
  obtain ⟨⟨⟨a', c'⟩, q⟩, _, h⟩ := ht
  simp only at h
  split at h
  · cases h
  · injection h with h; subst h; rfl

/-- every transaction a day hands to the Query stage carries the day's date -/
theorem dayQ_dates (cfg : BalCfg) (st st' : BalState) (d : Day) (txs : List Transaction)
    (hd : ∀ t ∈ d.transactions, t.date = d.date) (h : dayQ cfg st d = .ok (st', txs)) :
    ∀ t ∈ txs, t.date = d.date := by
  unfold dayQ at h
  cases hdt : Balance.dayTxs cfg st d with
  | error e => rw [hdt] at h; cases h
  | ok r =>
    obtain ⟨st3, txs3⟩ := r
    rw [hdt] at h; simp only at h
    injection h with h; injection h with h1 h2; subst h1; subst h2
    unfold Balance.dayTxs at hdt
    simp only [bind, Except.bind] at hdt
    cases hck : Balance.checkStage st d with
    | error e => rw [hck] at hdt; cases hdt
    | ok stc =>
      rw [hck] at hdt; simp only at hdt
      cases hvs : Balance.valuationStage cfg stc d with
      | error e => rw [hvs] at hdt; cases hdt
      | ok r2 =>
        obtain ⟨st1, txs1⟩ := r2
        rw [hvs] at hdt; simp only at hdt
        injection hdt with hdt
        have h1 : ∀ t ∈ txs1, t.date = d.date := by
          unfold Balance.valuationStage at hvs
          split at hvs
          · injection hvs with hvs; injection hvs with a b; subst b; exact hd
          · rename_i v _
            simp only [bind, Except.bind] at hvs
            cases hp : Balance.pricesDay v stc d with
            | error e => rw [hp] at hvs; cases hvs
            | ok stp =>
              rw [hp] at hvs; simp only at hvs
              unfold Balance.valuateDay at hvs
              simp only [bind, Except.bind] at hvs
              cases ha : Balance.adjustments v d.date stp.vPrev stp.norm stp.vQty with
              | error e => rw [ha] at hvs; cases hvs
              | ok adj =>
                rw [ha] at hvs; simp only at hvs
                cases hm : (d.transactions ++ adj).mapM (Balance.valueTx v stp.norm) with
                | error e => rw [hm] at hvs; cases hvs
                | ok txsv =>
                  rw [hm] at hvs; simp only at hvs
                  injection hvs with hvs; injection hvs with a b; subst b
                  apply mapM_valueTx_dates v stp.norm d.date _ _ hm
                  intro t ht
                  rcases List.mem_append.mp ht with ht | ht
                  · exact hd t ht
                  · unfold Balance.adjustments at ha
                    exact adjustments_dates v d.date _ _ _ [] adj ha (fun t ht => by cases ht) t ht
        unfold Balance.closeStage Balance.filterStage at hdt
        intro t ht
        split at hdt
        · injection hdt with a b; subst b
          rcases List.mem_append.mp ht with ht | ht
          · split at ht
            · exact h1 t ht
            · cases ht
          · split at ht
            · exact closings_dates _ _ _ t ht
            · cases ht
        · injection hdt with a b; subst b
          split at ht
          · exact h1 t ht
          · cases ht

theorem pipelineRun_dates (cfg : BalCfg) : ∀ (ds : List Day) (st st' : BalState) (txs : List Transaction),
    (∀ d ∈ ds, ∀ t ∈ d.transactions, t.date = d.date) → pipelineRun cfg st ds = .ok (st', txs) →
    ∀ t ∈ txs, ∃ d ∈ ds, t.date = d.date
  | [], st, st', txs, _, h => by
    unfold pipelineRun at h
    injection h with h; injection h with h1 h2; subst h2
    intro t ht; cases ht
  | d :: ds, st, st', txs, hd, h => by
    unfold pipelineRun at h
    cases hq : dayQ cfg st d with
    | error e => rw [hq] at h; cases h
    | ok r =>
      obtain ⟨sd, td⟩ := r
      rw [hq] at h; simp only at h
      cases hr : pipelineRun cfg sd ds with
      | error e => rw [hr] at h; cases h
      | ok r2 =>
        obtain ⟨s2, rest⟩ := r2
        rw [hr] at h; simp only at h
        injection h with h; injection h with h1 h2; subst h1; subst h2
        intro t ht
        rcases List.mem_append.mp ht with ht | ht
        · exact ⟨d, List.mem_cons_self, dayQ_dates cfg st sd d td (hd d List.mem_cons_self) hq t ht⟩
        · obtain ⟨d', hd', e⟩ := pipelineRun_dates cfg ds sd s2 rest (fun x hx => hd x (List.mem_cons_of_mem _ hx)) hr t ht
          exact ⟨d', List.mem_cons_of_mem _ hd', e⟩

/-! ### the Valuate state over arbitrary days (inside or outside the window, any commodity) -/

theorem adjustStep_qtyZero (v : Commodity) (date : Int) (prev cur : Option Prices.NPrices)
    (acc res : List Transaction) (e : Position × Rat) (h : Balance.adjustStep v date prev cur acc e = .ok res)
    (hacc : QtyZero acc) : QtyZero res := by
  unfold Balance.adjustStep at h
  split at h
  · injection h with h; subst h; exact hacc
  · simp only [bind, Except.bind] at h
    split at h
    · cases h
    · split at h
      · cases h
      · split at h
        · injection h with h; subst h; exact hacc
        · injection h with h; subst h
          intro t ht
          rcases List.mem_append.mp ht with ht | ht
          · exact hacc t ht
          · simp only [List.mem_cons, List.not_mem_nil, or_false] at ht
            subst ht
            exact build_qty_zero _ _ _ _

theorem adjustments_qtyZero (v : Commodity) (date : Int) (prev cur : Option Prices.NPrices)
    (q : AMap Position Rat) (adj : List Transaction) (h : Balance.adjustments v date prev cur q = .ok adj) :
    QtyZero adj := by
  unfold Balance.adjustments at h
  suffices hs : ∀ (q : AMap Position Rat) (acc res : List Transaction),
      q.foldlM (Balance.adjustStep v date prev cur) acc = .ok res → QtyZero acc → QtyZero res from
    hs q [] adj h (fun t ht => by cases ht)
  intro q
  induction q with
  | nil =>
    intro acc res h hacc
    simp only [List.foldlM_nil, pure, Except.pure] at h
    injection h with h; subst h; exact hacc
  | cons e rest ih =>
    intro acc res h hacc
    simp only [List.foldlM_cons, bind, Except.bind] at h
    cases hs : Balance.adjustStep v date prev cur acc e with
    | error x => rw [hs] at h; cases h
    | ok acc' =>
      rw [hs] at h; simp only at h
      exact ih acc' res h (adjustStep_qtyZero v date prev cur acc acc' e hs hacc)

/-- the quantity map after one day of the valuation stage, at any asset/liability position -/
theorem valuationStage_vQty (cfg : BalCfg) (v : Commodity) (st st' : BalState) (d : Day) (txs : List Transaction)
    (a : Account) (c : Commodity) (hv : cfg.valuation = some v) (hal : a.isAL = true)
    (h : Balance.valuationStage cfg st d = .ok (st', txs)) :
    st'.vQty.get (a, c) 0 = st.vQty.get (a, c) 0 + (qtysOn a c d.transactions).sum ∧
    (AMap.NodupKeys st.vQty → AMap.NodupKeys st'.vQty) := by
  unfold Balance.valuationStage at h
  rw [hv] at h
  simp only [bind, Except.bind] at h
  cases hp : Balance.pricesDay v st d with
  | error e => rw [hp] at h; cases h
  | ok stp =>
    rw [hp] at h; simp only at h
    obtain ⟨f1, _⟩ := pricesDay_frame v st stp d hp
    unfold Balance.valuateDay at h
    simp only [bind, Except.bind] at h
    cases ha : Balance.adjustments v d.date stp.vPrev stp.norm stp.vQty with
    | error e => rw [ha] at h; cases h
    | ok adj =>
      rw [ha] at h; simp only at h
      cases hm : (d.transactions ++ adj).mapM (Balance.valueTx v stp.norm) with
      | error e => rw [hm] at h; cases h
      | ok txsv =>
        rw [hm] at h; simp only at h
        injection h with h; injection h with h1 h2; subst h1
        have a2 := adjustments_qtyZero v d.date _ _ _ adj ha
        simp only
        rw [f1]
        refine ⟨?_, fun hn => addQty_nodup _ _ hn⟩
        rw [addQty_get _ _ _ _ hal, qtysOn_append, sum_append_rat, qtysOn_qtyZero a c adj a2, Rat.add_zero]

/-- Filter and CloseAccounts on ANY day: the Valuate state is untouched, `CloseInv` is kept, and on an asset/liability
position the Query stage sees the valuation stage's postings if the day is inside the window, nothing otherwise -/
theorem closeStage_position_any (cfg : BalCfg) (st st' : BalState) (d : Day) (txs txs' : List Transaction)
    (a : Account) (c : Commodity) (hal : a.isAL = true) (hinv : CloseInv st)
    (h : Balance.closeStage cfg st d (Balance.filterStage cfg d txs) = (st', txs')) :
    SameVal st' st ∧ CloseInv st' ∧
    posOn a c txs' = (if cfg.span.contains d.date = true then posOn a c txs else []) := by
  by_cases hspan : cfg.span.contains d.date = true
  · obtain ⟨h1, h2, h3⟩ := closeStage_position cfg st st' d txs txs' a c hal hinv hspan h
    simp only [hspan, if_true]
    exact ⟨h1, h2, h3⟩
  · unfold Balance.closeStage Balance.filterStage at h
    simp only [hspan] at h ⊢
    simp only [Bool.false_eq_true, if_false] at h
    split at h
    · injection h with h1 h2; subst h1; subst h2
      refine ⟨accumulate_sameVal _ _, accumulate_closeInv _ _ hinv, ?_⟩
      rw [List.nil_append]
      split
      · exact posOn_closings a c _ _ _ hal hinv
      · rfl
    · injection h with h1 h2; subst h1; subst h2
      exact ⟨⟨rfl, rfl⟩, hinv, rfl⟩

/-- one day through all stages: the state invariants, the quantity of any A/L position, and (outside the window)
that nothing reaches the Query stage on an A/L position -/
theorem dayQ_any (cfg : BalCfg) (v : Commodity) (st st' : BalState) (d : Day) (txs : List Transaction)
    (a : Account) (c : Commodity) (hv : cfg.valuation = some v) (hal : a.isAL = true) (hinv : CloseInv st)
    (h : dayQ cfg st d = .ok (st', txs)) :
    st'.vQty.get (a, c) 0 = st.vQty.get (a, c) 0 + (qtysOn a c d.transactions).sum ∧
    (AMap.NodupKeys st.vQty → AMap.NodupKeys st'.vQty) ∧ CloseInv st' ∧
    (cfg.span.contains d.date = false → posOn a c txs = []) := by
  unfold dayQ at h
  cases hd : Balance.dayTxs cfg st d with
  | error e => rw [hd] at h; cases h
  | ok r =>
    obtain ⟨st3, txs3⟩ := r
    rw [hd] at h; simp only at h
    injection h with h; injection h with h1 h2; subst h1; subst h2
    unfold Balance.dayTxs at hd
    simp only [bind, Except.bind] at hd
    cases hck : Balance.checkStage st d with
    | error e => rw [hck] at hd; cases hd
    | ok stc =>
      rw [hck] at hd; simp only at hd
      cases hvs : Balance.valuationStage cfg stc d with
      | error e => rw [hvs] at hd; cases hd
      | ok r2 =>
        obtain ⟨st1, txs1⟩ := r2
        rw [hvs] at hd; simp only at hd
        injection hd with hd
        obtain ⟨⟨c1, c2⟩, c3⟩ := checkStage_frame st stc d hck
        have hinv1 : CloseInv st1 := by
          unfold CloseInv
          rw [(valuationStage_frame cfg stc st1 d txs1 hvs).1, c3]
          exact hinv
        obtain ⟨⟨k1, k2⟩, k3, k4⟩ := closeStage_position_any cfg st1 st3 d txs1 txs3 a c hal hinv1 hd
        obtain ⟨q1, q2⟩ := valuationStage_vQty cfg v stc st1 d txs1 a c hv hal hvs
        simp only
        rw [k1, q1, c1]
        refine ⟨rfl, fun hn => q2 (by rw [c1]; exact hn), k3, ?_⟩
        intro hout
        rw [k4]
        simp only [hout, Bool.false_eq_true, if_false]

theorem pipelineRun_any (cfg : BalCfg) (v : Commodity) (a : Account) (c : Commodity)
    (hv : cfg.valuation = some v) (hal : a.isAL = true) :
    ∀ (ds : List Day) (st st' : BalState) (txs : List Transaction), CloseInv st →
      pipelineRun cfg st ds = .ok (st', txs) →
      st'.vQty.get (a, c) 0 = st.vQty.get (a, c) 0 + (ds.map (fun d => (qtysOn a c d.transactions).sum)).sum ∧
      (AMap.NodupKeys st.vQty → AMap.NodupKeys st'.vQty) ∧ CloseInv st' ∧
      ((∀ d ∈ ds, cfg.span.contains d.date = false) → posOn a c txs = [])
  | [], st, st', txs, hinv, h => by
    unfold pipelineRun at h
    injection h with h; injection h with h1 h2; subst h1; subst h2
    exact ⟨by simp [Rat.add_zero], fun x => x, hinv, fun _ => rfl⟩
  | d :: ds, st, st', txs, hinv, h => by
    unfold pipelineRun at h
    cases hq : dayQ cfg st d with
    | error e => rw [hq] at h; cases h
    | ok r =>
      obtain ⟨sd, td⟩ := r
      rw [hq] at h; simp only at h
      cases hr : pipelineRun cfg sd ds with
      | error e => rw [hr] at h; cases h
      | ok r2 =>
        obtain ⟨s2, rest⟩ := r2
        rw [hr] at h; simp only at h
        injection h with h; injection h with h1 h2; subst h1; subst h2
        obtain ⟨a1, a2, a3, a4⟩ := dayQ_any cfg v st sd d td a c hv hal hinv hq
        obtain ⟨b1, b2, b3, b4⟩ := pipelineRun_any cfg v a c hv hal ds sd s2 rest a3 hr
        refine ⟨?_, fun hn => b2 (a2 hn), b3, ?_⟩
        · rw [b1, a1, List.map_cons, List.sum_cons]; grind
        · intro hout
          rw [posOn_append, a4 (hout d List.mem_cons_self), b4 (fun x hx => hout x (List.mem_cons_of_mem _ hx))]
          rfl

/-! ### the window of a sorted day list -/

/-- a date-sorted day list is: the days before the window, the days inside, the days after -/
theorem sorted_window_split (span : Period) (days : List Day) (hs : Sorted days) :
    days = days.filter (fun d => decide (d.date < span.start)) ++ days.filter (fun d => span.contains d.date) ++
      days.filter (fun d => !decide (d.date < span.start) && decide (d.date > span.stop)) := by
  have h1 := sorted_split span.start days hs
  have hs2 : Sorted (days.filter (fun d => !decide (d.date < span.start))) := sorted_filter _ _ hs
  have h2 := sorted_split (span.stop + 1) _ hs2
  rw [List.filter_filter, List.filter_filter] at h2
  have e1 : (fun d : Day => decide (d.date < span.stop + 1) && !decide (d.date < span.start)) =
      (fun d => span.contains d.date) := by
    funext d
    unfold Period.contains
    by_cases ha : d.date < span.start <;> by_cases hb : d.date > span.stop <;> simp [ha, hb] <;> omega
  have e2 : (fun d : Day => !decide (d.date < span.stop + 1) && !decide (d.date < span.start)) =
      (fun d => !decide (d.date < span.start) && decide (d.date > span.stop)) := by
    funext d
    by_cases ha : d.date < span.start <;> by_cases hb : d.date > span.stop <;> simp [ha, hb] <;> omega
  rw [e1, e2] at h2
  rw [List.append_assoc, ← h2]
  exact h1

theorem window_pre_out (span : Period) (days : List Day) :
    ∀ d ∈ days.filter (fun d => decide (d.date < span.start)), span.contains d.date = false := by
  intro d hd
  have := (List.mem_filter.mp hd).2
  simp only [decide_eq_true_eq] at this
  unfold Period.contains
  simp [this]

theorem window_mid_in (span : Period) (days : List Day) :
    ∀ d ∈ days.filter (fun d => span.contains d.date), span.contains d.date = true :=
  fun _ hd => (List.mem_filter.mp hd).2

theorem window_post_out (span : Period) (days : List Day) :
    ∀ d ∈ days.filter (fun d => !decide (d.date < span.start) && decide (d.date > span.stop)),
      span.contains d.date = false := by
  intro d hd
  have := (List.mem_filter.mp hd).2
  simp only [Bool.and_eq_true, Bool.not_eq_true', decide_eq_false_iff_not, decide_eq_true_eq] at this
  unfold Period.contains
  simp [this.2]

/-! ### vocabulary of `Properties/C03Window.lean` -/

/-- the days before / inside / after the window of a configuration -/
def preDays (cfg : BalCfg) (days : List Day) : List Day := days.filter (fun d => decide (d.date < cfg.span.start))
def midDays (cfg : BalCfg) (days : List Day) : List Day := days.filter (fun d => cfg.span.contains d.date)
def postDays (cfg : BalCfg) (days : List Day) : List Day :=
  days.filter (fun d => !decide (d.date < cfg.span.start) && decide (d.date > cfg.span.stop))

/-- the price of `c` carried into the window: its price in the normalised prices of the last day before the window
(0 if it has none yet) -/
def startPrice (stP : BalState) (c : Commodity) : Rat := priceOr stP.vPrev c 0

/-- the single-position trace of `(a, c)` over the days inside the window, starting from the state `stP` reached on the
days before it -/
def windowTrace (cfg : BalCfg) (a : Account) (c : Commodity) (stP : BalState) (days : List Day) : List DayStep :=
  traceOfRun cfg a c (startPrice stP c) stP (midDays cfg days)

end Knut.MTM
