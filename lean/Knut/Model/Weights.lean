import Knut.Model.Performance
/-!
# Model of `lib/reports/weights` and `knut portfolio weights` (exact arithmetic)

On every period end day the query adds, for each commodity `c` with value `v` in `V1`, the weight `v / Σ V1` under the
path `Universe.Locate(c)` shortened by the `-m` mapping. The report is the multiset of these adds; a node of the rendered
tree is a path prefix, its weight on a date is the sum of the adds below it (`PropagateWeights`).

`Universe.Locate` returns the slice stored in the universe; `append(ss[:level], ss[len(ss)-suffix:]...)` writes into it.
The model keeps the universe as state and reproduces that write.
-/
namespace Knut.Weights
open Knut Knut.Performance

/-- `performance.Universe`: commodity ↦ class segments followed by the commodity name -/
abbrev Universe := AMap Commodity (List String)

/-- `Universe.Locate` -/
def locate (u : Universe) (c : Commodity) : List String :=
  match u.find? c with
  | some p => p
  | none => ["Other", c]

/-- one `Report.Add` -/
structure Add where
  path : List String
  date : Int
  weight : Rat
  deriving Repr, DecidableEq

/-- the body of the query's loop for one commodity: the shortened path, and the universe after the in-place `append` -/
def shortenPath (mapping : List MapRule) (u : Universe) (c : Commodity) : List String × Universe :=
  let ss := locate u c
  match mappingLevel mapping (String.intercalate ":" ss) with
  | none => (ss, u)
  | some (level, suffix) =>
    if level < ss.length - suffix ∧ suffix ≤ ss.length then
      let tail := ss.drop (ss.length - suffix)
      let res := ss.take level ++ tail
      -- the write lands in the universe's own slice (not in the fresh slice of an unclassified commodity)
      let u' := match u.find? c with
        | some _ => u.set c (res ++ ss.drop (level + suffix))
        | none => u
      (res, u')
    else (ss, u)

/-- the query on one period end day: `none` when the total value is zero (the weights are `±Inf`/`NaN` in Go) -/
def queryDay (mapping : List MapRule) (u : Universe) (date : Int) (v1 : AMap Commodity Rat) : Option (List Add × Universe) :=
  let total := sumVals v1
  if v1.isEmpty then some ([], u)
  else if total = 0 then none
  else some (v1.foldl (fun (acc : List Add × Universe) e =>
    let r := shortenPath mapping acc.2 e.1
    (acc.1 ++ [{ path := r.1, date := date, weight := e.2 / total }], r.2)) ([], u))

/-- the query over all days -/
def queryFrom (mapping : List MapRule) (endDates : List Int) : Universe → List DayPerf → Option (List Add)
  | _, [] => some []
  | u, p :: rest =>
    if endDates.contains p.date then
      match queryDay mapping u p.date p.v1 with
      | none => none
      | some (adds, u') => (queryFrom mapping endDates u' rest).map (adds ++ ·)
    else queryFrom mapping endDates u rest

/-! ### the report tree -/

/-- the adds at or below node `π` -/
def below (adds : List Add) (π : List String) : List Add := adds.filter (fun a => π.isPrefixOf a.path)

/-- a node's weight on a date (`none`: the node's `Weights` map has no entry for the date) -/
def nodeWeight (adds : List Add) (π : List String) (date : Int) : Option Rat :=
  let xs := (below adds π).filter (fun a => a.date = date)
  if xs.isEmpty then none else some ((xs.map (·.weight)).sum)

/-- remove repetitions (first occurrence kept) -/
def dedup : List String → List String
  | [] => []
  | x :: xs => x :: (dedup xs).filter (· ≠ x)

/-- the next path segment of an add below node `π` (`none` for an add at `π` itself) -/
def nextSeg (π : List String) (a : Add) : Option String := (a.path.drop π.length).head?

/-- the segments of the children of node `π` (map keys: each once) -/
def childSegs (adds : List Add) (π : List String) : List String :=
  dedup ((below adds π).filterMap (nextSeg π))

/-- `SortWeighted`: the sort key of a node is minus the sum of its weights over all dates -/
def sortKey (adds : List Add) (π : List String) : Rat := -(((below adds π).map (·.weight)).sum)

def cmpStr (a b : String) : Ordering := compare a b

/-- `multimap.Node.Sort` with `SortAlpha` or the weighted comparison (ties broken by name) -/
def sortedChildren (adds : List Add) (alpha : Bool) (π : List String) : List String :=
  let segs := childSegs adds π
  if alpha then segs.mergeSort (fun a b => cmpStr a b != .gt)
  else segs.mergeSort (fun a b =>
    let ka := sortKey adds (π ++ [a])
    let kb := sortKey adds (π ++ [b])
    if ka < kb then true else if kb < ka then false else cmpStr a b != .gt)

/-- a rendered row: depth, segment, and per date column the weight (`none` = empty cell: no entry or zero) -/
structure Row where
  depth : Nat
  segment : String
  cells : List (Option Rat)
  deriving Repr, DecidableEq

def cellOf (w : Option Rat) : Option Rat :=
  match w with
  | some x => if x = 0 then none else some x
  | none => none

/-- `Renderer.renderNode` for the children of `π`, depth first; `fuel` bounds the depth (the longest path) -/
def renderNodes (adds : List Add) (alpha : Bool) (dates : List Int) : Nat → List String → Nat → List Row
  | 0, _, _ => []
  | fuel + 1, π, depth =>
    (sortedChildren adds alpha π).flatMap (fun s =>
      { depth := depth, segment := s, cells := dates.map (fun d => cellOf (nodeWeight adds (π ++ [s]) d)) } ::
        renderNodes adds alpha dates fuel (π ++ [s]) (depth + 1))

def insertSorted (x : Int) : List Int → List Int
  | [] => [x]
  | y :: rest => if x < y then x :: y :: rest else if x = y then y :: rest else y :: insertSorted x rest

/-- the report's date columns: the dates of the adds, ascending -/
def reportDates (adds : List Add) : List Int := (adds.map (·.date)).foldl (fun acc d => insertSorted d acc) []

def maxDepth (adds : List Add) : Nat := (adds.map (·.path.length)).foldl max 0

/-- the rendered report: date columns and rows -/
def report (adds : List Add) (alpha : Bool) : List Int × List Row :=
  let dates := reportDates adds
  (dates, renderNodes adds alpha dates (maxDepth adds) [] 0)

structure WFlags extends Flags where
  classes : Universe := []
  mapping : List MapRule := []
  sortAlpha : Bool := false

/-- no add path is a proper prefix of another: no node carries own weight besides that of its children -/
def prefixFree (adds : List Add) : Bool :=
  adds.all (fun a => adds.all (fun b => !(a.path.isPrefixOf b.path && decide (a.path.length < b.path.length))))

/-- no add has the empty path (which would put weight on the root, which is not rendered) -/
def rooted (adds : List Add) : Bool := adds.all (fun a => !a.path.isEmpty)

/-- the adds of `knut portfolio weights`; `ok none` = some weight is undefined (zero total) -/
def weightAdds (f : WFlags) (ds : List Directive) : Res (Option (List Add)) :=
  match setup f.toFlags ds with
  | .panic s => .panic s
  | .error e => .error e
  | .ok (part, days) =>
    match perfFrom f.toFlags.cfg {} days with
    | .error _ => .error "processing"
    | .ok perfs => .ok (queryFrom f.mapping part.endDates f.classes perfs)

/-- `knut portfolio weights`: the date columns and the rows; `ok none` = some weight is undefined (zero total) -/
def weights (f : WFlags) (ds : List Directive) : Res (Option (List Int × List Row)) :=
  match setup f.toFlags ds with
  | .panic s => .panic s
  | .error e => .error e
  | .ok (part, days) =>
    match perfFrom f.toFlags.cfg {} days with
    | .error _ => .error "processing"
    | .ok perfs =>
      match queryFrom f.mapping part.endDates f.classes perfs with
      | none => .ok none
      | some adds => .ok (some (report adds f.sortAlpha))

end Knut.Weights
