import Knut.Proofs.SyntaxDirComplete
/-!
# The whole file: what the main loop did, and doing it again on the formatted text (C08 round trip)
-/
namespace Knut.Syntax
open Knut.Utf8 Knut.Spec.Syntax
set_option linter.unusedVariables false

/-- a comment: one of the leaders `*`, `//`, `#` and the rest of the line -/
def CommentToks (c : List Tok) : Prop :=
  ∃ lead body kw, c = lead ++ body ∧ kw ∈ ["*", "//", "#"] ∧ lead.map (·.r) = runesOf kw ∧
    All (fun r => !isNewlineOrEOF r) body

theorem readComment_sound {s : St} {x : Range} {s' : St} (h : readComment s = .ok x s') (hv : HeadValid s.toks) :
    ∃ c, Consumed s c s' ∧ CommentToks c ∧ Valid c ∧ HeadValid s'.toks ∧ HeadNot (fun r => !isNewlineOrEOF r) s'.toks := by
  unfold readComment at h
  simp only [Res.bind_eq_ok] at h
  obtain ⟨⟨r, kw⟩, s1, h1, _, s2, h2, h⟩ := h
  injection h with _ hs
  subst hs
  obtain ⟨hm, lead, kl, hr, _, vl, v1⟩ := readAlternative_okV h1 hv
  obtain ⟨body, kb, pb, vb, v2, _, hn⟩ := readWhile_okV h2 v1
  exact ⟨lead ++ body, kl.trans kb, ⟨lead, body, kw, rfl, hm, hr, pb⟩, vl.append vb, v2, hn⟩

theorem readAlt_comment (kw : String) (hk : kw ∈ ["*", "//", "#"]) (lead : List Tok) (hl : lead.map (·.r) = runesOf kw)
    (hv : Valid lead) (off : Nat) (x : List Tok) (hx : HeadValid x) :
    readAlternative ["*", "//", "#"] ⟨off, lead ++ x⟩ = .ok (⟨off, off + wsum lead⟩, kw) ⟨off + wsum lead, x⟩ := by
  have hit := readString_complete kw off lead x hl hv hx
  simp only [List.mem_cons, List.not_mem_nil, or_false] at hk
  unfold readAlternative
  rcases hk with rfl | rfl | rfl
  · have ⟨_, he⟩ := cur_of_runes (off := off) (r := x) (hl.trans (by decide : runesOf "*" = 42 :: []))
    rw [he]; simp only [Bool.false_eq_true, if_false]
    exact readAltL_hit _ _ _ _ _ _ hit
  · have ⟨hc0, he⟩ := cur_of_runes (off := off) (r := x) (hl.trans (by decide : runesOf "//" = 47 :: [47]))
    rw [he]; simp only [Bool.false_eq_true, if_false]
    rw [readAltL_skip _ _ _ _ (readString_mismatch "*" _ 42 [] (by decide) (by rw [hc0]; decide))]
    exact readAltL_hit _ _ _ _ _ _ hit
  · have ⟨hc0, he⟩ := cur_of_runes (off := off) (r := x) (hl.trans (by decide : runesOf "#" = 35 :: []))
    rw [he]; simp only [Bool.false_eq_true, if_false]
    rw [readAltL_skip _ _ _ _ (readString_mismatch "*" _ 42 [] (by decide) (by rw [hc0]; decide))]
    rw [readAltL_skip _ _ _ _ (readString_mismatch "//" _ 47 [47] (by decide) (by rw [hc0]; decide))]
    exact readAltL_hit _ _ _ _ _ _ hit

theorem readComment_complete {c : List Tok} (hc : CommentToks c) (hv : Valid c) (off : Nat) (x : List Tok)
    (hx : HeadValid x) (hn : HeadNot (fun r => !isNewlineOrEOF r) x) :
    readComment ⟨off, c ++ x⟩ = .ok ⟨off, off + wsum c⟩ ⟨off + wsum c, x⟩ := by
  obtain ⟨lead, body, kw, rfl, hk, hl, pb⟩ := hc
  unfold readComment
  simp only [Res.bind, List.append_assoc]
  rw [readAlt_comment kw hk lead hl hv.left off (body ++ x) (HeadValid.append hv.right hx)]
  simp only
  rw [readWhile_complete _ _ body x pb hv.right hx hn]
  simp [rng, wsum_append, Nat.add_assoc]

/-- the first rune of a comment is one of its leaders' first characters -/
theorem CommentToks.first {c : List Tok} (h : CommentToks c) (off : Nat) (x : List Tok) :
    (cur ⟨off, c ++ x⟩ == 42 || cur ⟨off, c ++ x⟩ == 35 || cur ⟨off, c ++ x⟩ == 47) = true ∧ c ≠ [] := by
  obtain ⟨lead, body, kw, rfl, hk, hl, _⟩ := h
  simp only [List.mem_cons, List.not_mem_nil, or_false] at hk
  rcases hk with rfl | rfl | rfl
  · have ⟨hc, _⟩ := cur_of_runes (off := off) (r := body ++ x) (hl.trans (by decide : runesOf "*" = 42 :: []))
    simp only [List.append_assoc, hc]
    exact ⟨by decide, by intro e; simp only [List.append_eq_nil_iff] at e; rw [e.1] at hl; simp [runesOf] at hl⟩
  · have ⟨hc, _⟩ := cur_of_runes (off := off) (r := body ++ x) (hl.trans (by decide : runesOf "//" = 47 :: [47]))
    simp only [List.append_assoc, hc]
    exact ⟨by decide, by intro e; simp only [List.append_eq_nil_iff] at e; rw [e.1] at hl; simp [runesOf] at hl⟩
  · have ⟨hc, _⟩ := cur_of_runes (off := off) (r := body ++ x) (hl.trans (by decide : runesOf "#" = 35 :: []))
    simp only [List.append_assoc, hc]
    exact ⟨by decide, by intro e; simp only [List.append_eq_nil_iff] at e; rw [e.1] at hl; simp [runesOf] at hl⟩

/-- one round of the main loop: a comment or nothing (`c`), or a directive (`D` parsed to `d` with fields `v`),
then the rest of the line: blanks `w` and the line break `nl` (`[]` at the end of the text) -/
inductive Item where
  | gap (c w nl : List Tok)
  | dir (D : List Tok) (d : Directive) (v : DirT) (w nl : List Tok)

def NlOK (nl : List Tok) : Prop := nl = [] ∨ ∃ t, nl = [t] ∧ t.r = 10

def Item.orig : Item → List Tok
  | .gap c w nl => c ++ (w ++ nl)
  | .dir D _ _ w nl => D ++ (w ++ nl)

def Item.out (padding : Nat) : Item → List Tok
  | .gap c w nl => c ++ (w ++ nl)
  | .dir _ _ v w nl => renderT padding v ++ (w ++ nl)

def origToks : List Item → List Tok
  | [] => []
  | i :: is => i.orig ++ origToks is

def outToks (padding : Nat) : List Item → List Tok
  | [] => []
  | i :: is => i.out padding ++ outToks padding is

def dirsOf : List Item → List Directive
  | [] => []
  | .gap _ _ _ :: is => dirsOf is
  | .dir _ d _ _ _ :: is => d :: dirsOf is

def viewsOf : List Item → List DirT
  | [] => []
  | .gap _ _ _ :: is => viewsOf is
  | .dir _ _ v _ _ :: is => v :: viewsOf is

/-- the items describe a run of the main loop over `text` from offset `off` -/
def ItemsOK (text : Bytes) : Nat → List Item → Prop
  | _, [] => True
  | off, .gap c w nl :: rest =>
    (c = [] ∨ CommentToks c) ∧ (c ≠ [] → w = []) ∧ All isWhitespace w ∧ NlOK nl ∧ Valid (c ++ (w ++ nl)) ∧
      Canon (c ++ (w ++ nl)) ∧ c ++ (w ++ nl) ≠ [] ∧ (nl = [] → rest = []) ∧ ItemsOK text (off + wsum (c ++ (w ++ nl))) rest
  | off, .dir D d v w nl :: rest =>
    d.range = ⟨off, off + wsum D⟩ ∧ D ≠ [] ∧ v.ok ∧ v.canon ∧ viewDirective text d = some v.bytes ∧
      All isWhitespace w ∧ NlOK nl ∧ Valid (w ++ nl) ∧ Canon (w ++ nl) ∧ (nl = [] → rest = []) ∧
      ItemsOK text (off + wsum D + wsum (w ++ nl)) rest

/-- `readRestOfWhitespaceLine` at token level -/
theorem readRest_sound {s : St} {x : Range} {s' : St} (h : readRestOfWhitespaceLine s = .ok x s') (hv : HeadValid s.toks) :
    ∃ w nl, Consumed s (w ++ nl) s' ∧ All isWhitespace w ∧ NlOK nl ∧ Valid (w ++ nl) ∧ HeadValid s'.toks ∧
      (nl = [] → atEOF s' = true) := by
  unfold readRestOfWhitespaceLine at h
  simp only [Res.bind_eq_ok] at h
  obtain ⟨_, s1, g1, h⟩ := h
  obtain ⟨w, kw, pw, vw, v1, _, _⟩ := readWhile_okV g1 hv
  split at h
  · rename_i hE
    injection h with _ h2; subst h2
    exact ⟨w, [], by simpa using kw, pw, Or.inl rfl, by simpa using vw, v1, fun _ => hE⟩
  · simp only [Res.bind_eq_ok] at h
    obtain ⟨_, s2, g2, h⟩ := h
    injection h with _ h2; subst h2
    obtain ⟨t, kt, pt, _, v2⟩ := readCharacter_okV g2
    exact ⟨w, [t], kw.trans kt, pw, Or.inr ⟨t, rfl, pt⟩, vw.append (Valid.cons (v1 t _ kt.1) Valid.nil), v2,
      fun e => by cases e⟩

/-- the three branches of the `switch` in the main loop, at token level -/
theorem fileItem_sound {text : Bytes} {s : St} {d : Option Directive} {s' : St} (h : fileItem s = .ok d s')
    (hG : Good text s) (hv : HeadValid s.toks) :
    (d = none ∧ s' = s ∧ (cur s == 42 || cur s == 35 || cur s == 47) = false ∧ (isAlphanumeric (cur s) || cur s == 64) = false) ∨
    (d = none ∧ ∃ c, Consumed s c s' ∧ CommentToks c ∧ Valid c ∧ HeadValid s'.toks ∧
      HeadNot (fun r => !isNewlineOrEOF r) s'.toks) ∨
    (∃ (dir : Directive) (D : List Tok) (v : DirT), d = some dir ∧ Consumed s D s' ∧ D ≠ [] ∧ v.ok ∧ v.canon ∧ viewDirective text dir = some v.bytes ∧
      dir.range = ⟨s.off, s'.off⟩ ∧ HeadValid s'.toks) := by
  unfold fileItem at h
  split at h
  · simp only [Res.bind_eq_ok] at h
    obtain ⟨x, s1, h1, h⟩ := h
    injection h with ha hb
    subst ha hb
    obtain ⟨c, kc, cc, vc, v1, hn⟩ := readComment_sound h1 hv
    exact Or.inr (Or.inl ⟨rfl, c, kc, cc, vc, v1, hn⟩)
  · rename_i hc1
    split at h
    · simp only [Res.bind_eq_ok] at h
      obtain ⟨dir, s1, h1, h⟩ := h
      injection h with ha hb
      subst ha hb
      obtain ⟨v, ⟨vok, vcan⟩, vview, v1, _⟩ := parseDirective_sound h1 hG hv
      obtain ⟨D, hne, kD⟩ := (parseDirective_prog s).of_ok h1
      exact Or.inr (Or.inr ⟨dir, D, v, rfl, kD, hne, vok, vcan, vview, (parseDirective_ok h1).1, v1⟩)
    · rename_i hc2
      injection h with ha hb
      subst ha hb
      exact Or.inl ⟨rfl, rfl, by simpa using hc1, by simpa using hc2⟩

theorem origToks_nil_of_ok {text : Bytes} {off : Nat} {items : List Item} (h : ItemsOK text off items)
    (he : origToks items = []) : items = [] := by
  cases items with
  | nil => rfl
  | cons i rest =>
    exfalso
    cases i with
    | gap c w nl =>
      simp only [ItemsOK] at h
      simp only [origToks, Item.orig, List.append_eq_nil_iff] at he
      exact h.2.2.2.2.2.2.1 (by simp [he.1.1, he.1.2.1, he.1.2.2])
    | dir D d v w nl =>
      simp only [ItemsOK] at h
      simp only [origToks, Item.orig, List.append_eq_nil_iff] at he
      exact h.2.1 he.1.1

theorem atEOF_iff {s : St} : atEOF s = true ↔ s.toks = [] := by simp [atEOF]

/-- **soundness of the main loop at token level**: a successful run from `s` is a sequence of items -/
theorem fileLoop_items {text : Bytes} {path : String} {start : Nat} {acc : List Directive} {s : St} {f : File} {s' : St}
    (h : fileLoop path start acc s = .ok f s') (hG : Good text s) (hv : HeadValid s.toks) :
    ∃ items, s.toks = origToks items ∧ f.directives = acc.reverse ++ dirsOf items ∧ ItemsOK text s.off items := by
  fun_induction fileLoop path start acc s with
  | case1 acc s hE =>
    injection h with ha hb
    subst hb
    exact ⟨[], by simpa [origToks] using atEOF_iff.mp hE, by rw [← ha]; simp [dirsOf], trivial⟩
  | case2 acc s hE e s1 h1 => cases h
  | case3 acc s hE d s1 h1 hE1 =>
    injection h with ha hb
    subst hb
    have e1 := atEOF_iff.mp hE1
    rcases fileItem_sound h1 hG hv with ⟨_, hs, _, _⟩ | ⟨hd, c, kc, cc, vc, v1, hn⟩ | ⟨dir, D, v, hd, kD, hne, vok, vcan, vview, hr, v1⟩
    · rw [hs] at hE1; exact absurd hE1 hE
    · subst hd
      have hcan := hG.canonOf kc vc
      have hcne : c ≠ [] := by
        intro e; rw [e] at cc; obtain ⟨l, b, kw, e2, hk, hl, _⟩ := cc
        have : l = [] := by simpa using (List.append_eq_nil_iff.mp e2.symm).1
        rw [this] at hl
        simp only [List.mem_cons, List.not_mem_nil, or_false] at hk
        rcases hk with rfl | rfl | rfl <;> simp [runesOf] at hl
      refine ⟨[.gap c [] []], ?_, by rw [← ha]; simp [dirsOf, pushOpt], ?_⟩
      · rw [kc.1, e1]; simp [origToks, Item.orig]
      · unfold ItemsOK
        exact ⟨Or.inr cc, fun _ => rfl, All.nil, Or.inl rfl, by simpa using vc, by simpa using hcan,
          by simpa using hcne, fun _ => rfl, (by unfold ItemsOK; trivial)⟩
    · subst hd
      refine ⟨[.dir D dir v [] []], ?_, by rw [← ha]; simp [dirsOf, pushOpt], ?_⟩
      · rw [kD.1, e1]; simp [origToks, Item.orig]
      · unfold ItemsOK
        refine ⟨?_, hne, vok, vcan, vview, All.nil, Or.inl rfl, Valid.nil, (by intro t ht; cases ht), fun _ => rfl, (by unfold ItemsOK; trivial)⟩
        rw [hr, kD.2]
  | case4 acc s hE d s1 h1 hE1 e s2 h2 => cases h
  | case5 acc s hE d s1 h1 hE1 x s2 h2 ih =>
    have hE' : atEOF s = false := by simpa using hE
    have hE1' : atEOF s1 = false := by simpa using hE1
    have G1 := hG.ext (ext_of_ok (fileItem_ext _) h1)
    have G2 := G1.ext (ext_of_ok (readRestOfWhitespaceLine_ext _) h2)
    rcases fileItem_sound h1 hG hv with ⟨hd, hs, hc1, hc2⟩ | ⟨hd, c, kc, cc, vc, v1, hn⟩ | ⟨dir, D, v, hd, kD, hne, vok, vcan, vview, hr, v1⟩
    · -- a blank line
      subst hd
      rw [hs] at h2
      obtain ⟨w, nl, kr, pw, onl, vr, v2, heof⟩ := readRest_sound h2 hv
      obtain ⟨items, i1, i2, i3⟩ := ih h G2 v2
      have hne : w ++ nl ≠ [] := by
        intro e
        have := (readRestOfWhitespaceLine_extS s s2 x hE' h2).length_lt
        rw [kr.1, e] at this
        simp at this
      refine ⟨.gap [] w nl :: items, ?_, by rw [i2]; simp [dirsOf, pushOpt], ?_⟩
      · rw [kr.1, i1]; simp [origToks, Item.orig]
      · unfold ItemsOK
        refine ⟨Or.inl rfl, fun h => absurd rfl h, pw, onl, by simpa using vr, by simpa using hG.canonOf kr vr,
          by simpa using hne, ?_, ?_⟩
        · intro e
          exact origToks_nil_of_ok i3 (by rw [← i1]; exact atEOF_iff.mp (heof e))
        · have : s2.off = s.off + wsum ([] ++ (w ++ nl)) := by simpa using kr.2
          rw [← this]; exact i3
    · -- a comment line
      subst hd
      obtain ⟨w, nl, kr, pw, onl, vr, v2, heof⟩ := readRest_sound h2 v1
      obtain ⟨items, i1, i2, i3⟩ := ih h G2 v2
      have hw : w = [] := by
        cases w with
        | nil => rfl
        | cons t ts =>
          exfalso
          have h1' := hn t (ts ++ nl ++ s2.toks) (by rw [kr.1]; simp)
          have h2' := pw t List.mem_cons_self
          simp only [isWhitespace, Bool.or_eq_true, beq_iff_eq] at h2'
          simp only [isNewlineOrEOF, EOF, Bool.not_eq_eq_eq_not, Bool.not_false, Bool.or_eq_true, beq_iff_eq] at h1'
          omega
      subst hw
      have hcne : c ≠ [] := by
        intro e; rw [e] at cc; obtain ⟨l, b, kw, e2, hk, hl, _⟩ := cc
        have : l = [] := by simpa using (List.append_eq_nil_iff.mp e2.symm).1
        rw [this] at hl
        simp only [List.mem_cons, List.not_mem_nil, or_false] at hk
        rcases hk with rfl | rfl | rfl <;> simp [runesOf] at hl
      refine ⟨.gap c [] nl :: items, ?_, by rw [i2]; simp [dirsOf, pushOpt], ?_⟩
      · rw [kc.1, kr.1, i1]; simp [origToks, Item.orig]
      · unfold ItemsOK
        have vall : Valid (c ++ ([] ++ nl)) := vc.append vr
        have kall : Consumed s (c ++ ([] ++ nl)) s2 := kc.trans kr
        refine ⟨Or.inr cc, fun _ => rfl, All.nil, onl, vall, hG.canonOf kall vall, ?_, ?_, ?_⟩
        · intro e; exact hcne (List.append_eq_nil_iff.mp e).1
        · intro e
          exact origToks_nil_of_ok i3 (by rw [← i1]; exact atEOF_iff.mp (heof e))
        · rw [← kall.2]; exact i3
    · -- a directive and the rest of its line
      subst hd
      obtain ⟨w, nl, kr, pw, onl, vr, v2, heof⟩ := readRest_sound h2 v1
      obtain ⟨items, i1, i2, i3⟩ := ih h G2 v2
      have G0 := hG.ext kD.ext
      refine ⟨.dir D dir v w nl :: items, ?_, by rw [i2]; simp [dirsOf, pushOpt], ?_⟩
      · rw [kD.1, kr.1, i1]; simp [origToks, Item.orig]
      · unfold ItemsOK
        refine ⟨by rw [hr, kD.2], hne, vok, vcan, vview, pw, onl, vr, G0.canonOf kr vr, ?_, ?_⟩
        · intro e
          exact origToks_nil_of_ok i3 (by rw [← i1]; exact atEOF_iff.mp (heof e))
        · have : s2.off = s.off + wsum D + wsum (w ++ nl) := by
            have a := kD.2; have b := kr.2; omega
          rw [← this]; exact i3

theorem alnum_star : isAlphanumeric 42 = false := by decide +kernel
theorem alnum_hash : isAlphanumeric 35 = false := by decide +kernel
theorem alnum_slash : isAlphanumeric 47 = false := by decide +kernel

/-- what the main loop sees at the start of a directive: a letter, a digit or `@`, none of the comment leaders -/
def DirStart (t : Tok) : Prop :=
  t.invalid = false ∧ (isAlphanumeric t.r || t.r == 64) = true ∧ (t.r == 42 || t.r == 35 || t.r == 47) = false

theorem dirStart_of_alnum {t : Tok} (hv : t.invalid = false) (h : isAlphanumeric t.r = true) : DirStart t := by
  refine ⟨hv, by simp [h], ?_⟩
  simp only [Bool.or_eq_false_iff, beq_eq_false_iff_ne]
  refine ⟨⟨?_, ?_⟩, ?_⟩ <;> intro e <;> rw [e] at h
  · rw [alnum_star] at h; cases h
  · rw [alnum_hash] at h; cases h
  · rw [alnum_slash] at h; cases h

theorem DateOK.dirStart {d : List Tok} (h : DateOK d) : ∃ t rest, d = t :: rest ∧ DirStart t := by
  obtain ⟨⟨d1, d2, d3, d4, h1, d5, d6, h2, d7, d8, rfl, p1, _⟩, hv⟩ := h
  exact ⟨d1, _, rfl, dirStart_of_alnum (hv d1 List.mem_cons_self) (alnum_of_digit p1)⟩

theorem renderT_head (padding : Nat) (v : DirT) (hok : v.ok) : ∃ t, (renderT padding v).head? = some t ∧ DirStart t := by
  have hat : DirStart (tk 64) := ⟨tk_valid (by decide), by decide, by decide⟩
  cases v with
  | transaction aT pT d desc bs =>
    obtain ⟨_, _, hd, _⟩ := hok
    cases aT with
    | some a => exact ⟨tk 64, by simp [renderT, renderAccrualT, lits], hat⟩
    | none =>
      cases pT with
      | some ts => exact ⟨tk 64, by simp [renderT, renderPerformanceT, lits], hat⟩
      | none =>
        obtain ⟨t, rest, e, ht⟩ := hd.dirStart
        exact ⟨t, by simp [renderT, e], ht⟩
  | «open» d a => obtain ⟨t, rest, e, ht⟩ := hok.1.dirStart; exact ⟨t, by simp [renderT, e], ht⟩
  | close d a => obtain ⟨t, rest, e, ht⟩ := hok.1.dirStart; exact ⟨t, by simp [renderT, e], ht⟩
  | price d c p t' => obtain ⟨t, rest, e, ht⟩ := hok.1.dirStart; exact ⟨t, by simp [renderT, e], ht⟩
  | «include» p => exact ⟨tk 105, by simp [renderT, lits], tk_valid (by decide), by decide +kernel, by decide⟩
  | assertion d bs =>
    obtain ⟨t, rest, e, ht⟩ := hok.1.dirStart
    match bs with
    | [] => exact ⟨t, by simp [renderT, e], ht⟩
    | [b] => exact ⟨t, by simp [renderT, e], ht⟩
    | b1 :: b2 :: bs' => exact ⟨t, by simp [renderT, e], ht⟩

theorem renderT_first (padding : Nat) (v : DirT) (hok : v.ok) : ∃ t rest, renderT padding v = t :: rest ∧ DirStart t := by
  obtain ⟨t, h, ht⟩ := renderT_head padding v hok
  cases hr : renderT padding v with
  | nil => rw [hr] at h; simp at h
  | cons a rest =>
    rw [hr] at h
    simp only [List.head?_cons, Option.some.injEq] at h
    exact ⟨a, rest, rfl, by rw [h]; exact ht⟩

/-- the first token of the output of a run is validly encoded -/
theorem outToks_headValid {text : Bytes} {off : Nat} {items : List Item} (padding : Nat) (h : ItemsOK text off items) :
    HeadValid (outToks padding items) := by
  cases items with
  | nil => exact HeadValid.nil
  | cons i rest =>
    cases i with
    | gap c w nl =>
      unfold ItemsOK at h
      obtain ⟨_, _, _, _, hv, _, hne, _, _⟩ := h
      simp only [outToks, Item.out]
      cases hc : c ++ (w ++ nl) with
      | nil => exact absurd hc hne
      | cons t ts =>
        rw [hc] at hv
        exact HeadValid.cons hv.head
    | dir D d v w nl =>
      unfold ItemsOK at h
      obtain ⟨_, _, vok, _⟩ := h
      obtain ⟨t, r, e, ht⟩ := renderT_first padding v vok
      simp only [outToks, Item.out, e, List.cons_append]
      exact HeadValid.cons ht.1

/-- a blank round: the line starts with white space or a line break -/
theorem fileItem_blank (off : Nat) (t : Tok) (x : List Tok) (h : isWhitespaceOrNewline t.r = true) :
    fileItem ⟨off, t :: x⟩ = .ok none ⟨off, t :: x⟩ := by
  unfold fileItem
  have c1 : (cur ⟨off, t :: x⟩ == 42 || cur ⟨off, t :: x⟩ == 35 || cur ⟨off, t :: x⟩ == 47) = false := by
    simp only [cur_cons]
    rcases ws_cases h with e | e | e | e <;> rw [e] <;> decide
  have c2 : (isAlphanumeric (cur ⟨off, t :: x⟩) || cur ⟨off, t :: x⟩ == 64) = false := by
    simp only [cur_cons, ws_not_alnum h, Bool.false_or]
    rcases ws_cases h with e | e | e | e <;> rw [e] <;> decide
  simp only [c1, c2, Bool.false_eq_true, if_false]

theorem fileItem_comment {c : List Tok} (hc : CommentToks c) (hv : Valid c) (off : Nat) (x : List Tok) (hx : HeadValid x)
    (hn : HeadNot (fun r => !isNewlineOrEOF r) x) :
    fileItem ⟨off, c ++ x⟩ = .ok none ⟨off + wsum c, x⟩ := by
  unfold fileItem
  simp only [(hc.first off x).1, if_true, Res.bind, readComment_complete hc hv off x hx hn]

theorem fileItem_dir (off : Nat) (t : Tok) (x : List Tok) (ht : DirStart t) :
    fileItem ⟨off, t :: x⟩ = (parseDirective ⟨off, t :: x⟩).bind (fun e _ => e) fun d s => .ok (some d) s := by
  unfold fileItem
  simp only [cur_cons, ht.2.2, ht.2.1, Bool.false_eq_true, if_false, if_true]

/-- the same run with every directive replaced by its rendering (and whatever directive value the parser builds for it) -/
inductive Rendered (padding : Nat) : List Item → List Item → Prop where
  | nil : Rendered padding [] []
  | gap (c w nl : List Tok) {is js : List Item} : Rendered padding is js →
      Rendered padding (.gap c w nl :: is) (.gap c w nl :: js)
  | dir (D : List Tok) (d : Directive) (v : DirT) (w nl : List Tok) (d2 : Directive) {is js : List Item} :
      Rendered padding is js → Rendered padding (.dir D d v w nl :: is) (.dir (renderT padding v) d2 v w nl :: js)

/-- the rest of a line and what follows, for the replay: the state after the item proper is `⟨o, w ++ nl ++ X⟩` -/
theorem rest_replay (path : String) (start : Nat) (acc : List Directive) (o : Nat) (w nl X : List Tok)
    (pw : All isWhitespace w) (onl : NlOK nl) (vr : Valid (w ++ nl)) (hX : HeadValid X) (hlast : nl = [] → X = []) :
    (if atEOF ⟨o, w ++ (nl ++ X)⟩ then Res.ok ⟨rng start ⟨o, w ++ (nl ++ X)⟩, acc.reverse⟩ ⟨o, w ++ (nl ++ X)⟩
     else (readRestOfWhitespaceLine ⟨o, w ++ (nl ++ X)⟩).bind (annotate (fileDesc path) start) fun _ s2 =>
       fileLoop path start acc s2) = fileLoop path start acc ⟨o + wsum (w ++ nl), X⟩ := by
  rcases onl with rfl | ⟨t, rfl, ht⟩
  · have hx := hlast rfl
    subst hx
    simp only [List.append_nil, List.nil_append]
    cases w with
    | nil =>
      simp only [atEOF, List.isEmpty_nil, if_true, wsum_nil, Nat.add_zero]
      rw [fileLoop_eq]
      simp [atEOF]
    | cons a as =>
      have : atEOF ⟨o, a :: as⟩ = false := rfl
      rw [this]
      simp only [Bool.false_eq_true, if_false]
      rw [readRest_complete_eof o (a :: as) pw (by simpa using vr)]
      simp only [Res.bind]
  · have hE : atEOF ⟨o, w ++ ([t] ++ X)⟩ = false := by
      cases w <;> rfl
    rw [hE]
    simp only [Bool.false_eq_true, if_false, List.singleton_append]
    rw [readRest_complete_nl o w t X pw vr.left ht (vr.right.head) hX]
    simp only [Res.bind, wsum_append, wsum_cons, wsum_nil, Nat.add_zero, Nat.add_assoc]

theorem Res.bind_ok {α β} (a : α) (s : St) (onErr : Err → St → Err) (f : α → St → Res β) :
    (Res.ok a s).bind onErr f = f a s := rfl

theorem gapStart_of_rest (w nl X : List Tok) (pw : All isWhitespace w) (onl : NlOK nl) (vr : Valid (w ++ nl))
    (hlast : nl = [] → X = []) : GapStart (w ++ (nl ++ X)) := by
  cases w with
  | cons a as =>
    right
    refine ⟨a, as ++ (nl ++ X), rfl, ?_, vr.head⟩
    have := pw a List.mem_cons_self
    simp [isWhitespaceOrNewline, this]
  | nil =>
    rcases onl with rfl | ⟨t, rfl, ht⟩
    · left; simp [hlast rfl]
    · right
      exact ⟨t, X, rfl, by rw [ht]; decide, by simpa using vr.head⟩

/-- **replaying the main loop on the formatted tokens** -/
theorem fileLoop_replay (padding : Nat) (path : String) (text : Bytes) (items : List Item) (off : Nat)
    (hok : ItemsOK text off items) (start2 : Nat) (acc2 : List Directive) (o2 : Nat) :
    ∃ items2 f2 s2', Rendered padding items items2 ∧
      fileLoop path start2 acc2 ⟨o2, outToks padding items⟩ = .ok f2 s2' ∧
      f2.directives = acc2.reverse ++ dirsOf items2 ∧
      ∀ text2, Good text2 ⟨o2, outToks padding items⟩ → ItemsOK text2 o2 items2 := by
  induction items generalizing off acc2 o2 with
  | nil =>
    refine ⟨[], ⟨rng start2 ⟨o2, []⟩, acc2.reverse⟩, ⟨o2, []⟩, Rendered.nil, ?_, by simp [dirsOf], fun _ _ => by unfold ItemsOK; trivial⟩
    rw [fileLoop_eq]
    simp [outToks, atEOF]
  | cons i rest ih =>
    cases i with
    | gap c w nl =>
      unfold ItemsOK at hok
      obtain ⟨hc, hcw, pw, onl, vall, call, hne, hlast, hrest⟩ := hok
      have hXv : HeadValid (outToks padding rest) := outToks_headValid padding hrest
      have hlastX : nl = [] → outToks padding rest = [] := fun e => by rw [hlast e]; rfl
      obtain ⟨items2, f2, s2', hr, hrun, hdirs, hview⟩ := ih _ hrest acc2 (o2 + wsum c + wsum (w ++ nl))
      refine ⟨.gap c w nl :: items2, f2, s2', Rendered.gap c w nl hr, ?_, by simpa [dirsOf] using hdirs, ?_⟩
      · have e : outToks padding (.gap c w nl :: rest) = c ++ (w ++ (nl ++ outToks padding rest)) := by
          simp [outToks, Item.out]
        rw [e, fileLoop_eq]
        have hE : atEOF ⟨o2, c ++ (w ++ (nl ++ outToks padding rest))⟩ = false := by
          cases hcc : c ++ (w ++ nl) with
          | nil => exact absurd hcc hne
          | cons t ts =>
            have : c ++ (w ++ (nl ++ outToks padding rest)) = t :: (ts ++ outToks padding rest) := by
              have := congrArg (· ++ outToks padding rest) hcc
              simpa using this
            rw [this]; rfl
        rw [hE]
        simp only [Bool.false_eq_true, if_false]
        rcases hc with hc | hc
        · -- blank round
          subst hc
          have hfirst : ∃ t x, w ++ (nl ++ outToks padding rest) = t :: x ∧ isWhitespaceOrNewline t.r = true := by
            cases w with
            | cons a as =>
              exact ⟨a, _, rfl, by have := pw a List.mem_cons_self; simp [isWhitespaceOrNewline, this]⟩
            | nil =>
              rcases onl with rfl | ⟨t, rfl, ht⟩
              · exact absurd rfl hne
              · exact ⟨t, _, rfl, by rw [ht]; decide⟩
          obtain ⟨t, x, ex, ht⟩ := hfirst
          simp only [List.nil_append]
          rw [ex, fileItem_blank o2 t x ht, ← ex]
          simp only [Res.bind_ok, pushOpt]
          rw [rest_replay path start2 acc2 o2 w nl _ pw onl (by simpa using vall) hXv hlastX]
          simpa using hrun
        · -- comment round
          have hw := hcw (hc.first 0 []).2
          subst hw
          simp only [List.nil_append] at vall ⊢
          have hn : HeadNot (fun r => !isNewlineOrEOF r) (nl ++ outToks padding rest) := by
            rcases onl with rfl | ⟨t, rfl, ht⟩
            · rw [hlastX rfl]; exact HeadNot.nil
            · exact HeadNot.cons (by rw [ht]; decide)
          have hvx : HeadValid (nl ++ outToks padding rest) := HeadValid.append vall.right hXv
          rw [fileItem_comment hc vall.left o2 _ hvx hn]
          simp only [Res.bind_ok, pushOpt]
          have := rest_replay path start2 acc2 (o2 + wsum c) [] nl _ All.nil onl (by simpa using vall.right) hXv hlastX
          simp only [List.nil_append] at this
          rw [this]
          simpa using hrun
      · intro text2 hG
        have e : outToks padding (.gap c w nl :: rest) = (c ++ (w ++ nl)) ++ outToks padding rest := by
          simp [outToks, Item.out]
        rw [e] at hG
        have G2 := hG.step.2
        unfold ItemsOK
        refine ⟨hc, hcw, pw, onl, vall, call, hne, ?_, ?_⟩
        · intro e2
          have := hlast e2
          subst this
          cases hr
          rfl
        · have := hview text2 (by simpa [wsum_append, Nat.add_assoc] using G2)
          simpa [wsum_append, Nat.add_assoc] using this
    | dir D d v w nl =>
      unfold ItemsOK at hok
      obtain ⟨hrange, hDne, vok, vcan, vview, pw, onl, vr, cr, hlast, hrest⟩ := hok
      have hXv : HeadValid (outToks padding rest) := outToks_headValid padding hrest
      have hlastX : nl = [] → outToks padding rest = [] := fun e => by rw [hlast e]; rfl
      have hgap := gapStart_of_rest w nl (outToks padding rest) pw onl vr hlastX
      obtain ⟨d2, off', hparse, hview2⟩ := parseDirective_complete padding v vok vcan o2 (w ++ (nl ++ outToks padding rest)) hgap
      -- the offset after the rendered directive
      have hoff : off' = o2 + wsum (renderT padding v) := by
        obtain ⟨cc, hc1, hc2⟩ := ext_of_ok (parseDirective_prog _).ext hparse
        simp only at hc1 hc2
        have := List.append_cancel_right hc1
        rw [hc2, ← this]
      subst hoff
      obtain ⟨items2, f2, s2', hr, hrun, hdirs, hview⟩ := ih _ hrest (d2 :: acc2) (o2 + wsum (renderT padding v) + wsum (w ++ nl))
      obtain ⟨t, rt, ert, hds⟩ := renderT_first padding v vok
      refine ⟨.dir (renderT padding v) d2 v w nl :: items2, f2, s2', Rendered.dir D d v w nl d2 hr, ?_,
        by rw [hdirs]; simp [dirsOf], ?_⟩
      · have e : outToks padding (.dir D d v w nl :: rest) = renderT padding v ++ (w ++ (nl ++ outToks padding rest)) := by
          simp [outToks, Item.out]
        rw [e, fileLoop_eq]
        have hE : atEOF ⟨o2, renderT padding v ++ (w ++ (nl ++ outToks padding rest))⟩ = false := by rw [ert]; rfl
        rw [hE]
        simp only [Bool.false_eq_true, if_false]
        have hfi : fileItem ⟨o2, renderT padding v ++ (w ++ (nl ++ outToks padding rest))⟩ =
            .ok (some d2) ⟨o2 + wsum (renderT padding v), w ++ (nl ++ outToks padding rest)⟩ := by
          have := fileItem_dir o2 t (rt ++ (w ++ (nl ++ outToks padding rest))) hds
          rw [ert] at hparse ⊢
          simp only [List.cons_append] at hparse ⊢
          rw [this, hparse]
          rfl
        rw [hfi]
        simp only [Res.bind_ok, pushOpt]
        rw [rest_replay path start2 (d2 :: acc2) _ w nl _ pw onl vr hXv hlastX]
        exact hrun
      · intro text2 hG
        have e : outToks padding (.dir D d v w nl :: rest) = renderT padding v ++ ((w ++ nl) ++ outToks padding rest) := by
          simp [outToks, Item.out]
        have hG' := hG
        rw [e] at hG'
        have G1 := hG'.step.2
        have G2 := G1.step.2
        unfold ItemsOK
        have e2 : outToks padding (.dir D d v w nl :: rest) = renderT padding v ++ (w ++ (nl ++ outToks padding rest)) := by
          simp [outToks, Item.out]
        refine ⟨?_, by rw [ert]; simp, vok, vcan, hview2 text2 (by rw [← e2]; exact hG), pw, onl, vr, cr, ?_, hview text2 G2⟩
        · have := (parseDirective_ok hparse).1
          simpa using this
        · intro e3
          have := hlast e3
          subst this
          cases hr
          rfl

theorem lit_append_flat (s : String) : lit s = flat (lits s) := (flat_lits s).symm

theorem flat_renderAccrualT (a : AccrualT) : flat (renderAccrualT a) = renderAccrual a.bytes := by
  have e : lit "@accrue " = flat (lits "@accrue") ++ [32] := by decide
  simp only [renderAccrualT, renderAccrual, AccrualT.bytes, flat_append, flat_cons, flat_nil, e, lit_space, lit_nl]
  simp [tk]

theorem flat_renderPerformanceT (ts : List (List Tok)) : flat (renderPerformanceT ts) = renderPerformance (ts.map flat) := by
  have e : lit "@performance(" = flat (lits "@performance") ++ [40] := by decide
  have e2 : lit ")\n" = [41, 10] := by decide
  simp only [renderPerformanceT, renderPerformance, flat_append, flat_cons, flat_nil, e, e2, flat_joinCommaT]
  simp [tk]

theorem flat_renderBookingsT (padding : Nat) (bs : List BookingT) (hc : ∀ b ∈ bs, b.canon) :
    flat (renderBookingsT padding bs) = ((bs.map BookingT.bytes).map (renderBooking padding)).flatten := by
  induction bs with
  | nil => rfl
  | cons b rest ih =>
    have hb := hc b List.mem_cons_self
    have := flat_renderBookingT padding b hb.1 hb.2.1 hb.2.2.1
    simp only [renderBookingsT, flat_append, flat_cons, List.map_cons, List.flatten_cons] at this ⊢
    rw [ih (fun x hx => hc x (List.mem_cons_of_mem _ hx)), ← this]
    simp

theorem flat_renderBalanceT (b : BalanceT) : flat (renderBalanceT b) = renderBalance b.bytes := by
  simp only [renderBalanceT, renderBalance, BalanceT.bytes, flat_append, flat_cons, lit_space]
  simp [tk]

theorem flat_renderBalancesT (bs : List BalanceT) :
    flat (renderBalancesT bs) = ((bs.map BalanceT.bytes).map fun b => renderBalance b ++ lit "\n").flatten := by
  induction bs with
  | nil => rfl
  | cons b rest ih =>
    simp only [renderBalancesT, flat_append, flat_cons, List.map_cons, List.flatten_cons, flat_renderBalanceT, ih, lit_nl]
    simp [tk]

/-- the bytes of the token-level rendering are what `renderDir` prints -/
theorem flat_renderT (padding : Nat) (v : DirT) (hc : v.canon) : flat (renderT padding v) = renderDir padding v.bytes := by
  cases v with
  | transaction aT pT d desc bs =>
    obtain ⟨_, _, _, _, hb⟩ := hc
    have e1 : lit " \"" = [32, 34] := by decide
    have e2 : lit "\"" = [34] := by decide
    simp only [renderT, renderDir, DirT.bytes, flat_append, flat_cons, flat_renderBookingsT padding bs hb, e1, e2, lit_nl]
    cases aT <;> cases pT <;> simp [flat_renderAccrualT, flat_renderPerformanceT, tk]
  | «open» d a => simp [renderT, renderDir, DirT.bytes, flat_lits]
  | close d a => simp [renderT, renderDir, DirT.bytes, flat_lits]
  | price d c p t => simp [renderT, renderDir, DirT.bytes, flat_lits, lit_space, tk]
  | «include» p =>
    have e2 : lit "\"" = [34] := by decide
    simp [renderT, renderDir, DirT.bytes, flat_lits, e2, tk]
  | assertion d bs =>
    match bs with
    | [] => simp [renderT, renderDir, DirT.bytes, flat_lits, renderBalancesT, lit_nl, tk]
    | [b] =>
      have e : lit " balance " = lit " balance" ++ [32] := by decide
      simp [renderT, renderDir, DirT.bytes, flat_lits, flat_renderBalanceT, lit_space, e]
    | b1 :: b2 :: rest =>
      simp only [renderT, renderDir, DirT.bytes, flat_append, flat_cons, flat_lits, flat_renderBalancesT, lit_nl, List.map_cons]
      simp [tk]

theorem Canon.nil : Canon [] := by intro t h; cases h
theorem Canon.append {a b : List Tok} (h1 : Canon a) (h2 : Canon b) : Canon (a ++ b) := by
  intro x hx
  rcases List.mem_append.mp hx with h | h
  · exact h1 x h
  · exact h2 x h
theorem Canon.cons {t : Tok} {c : List Tok} (h1 : t.canon) (h2 : Canon c) : Canon (t :: c) := by
  intro x hx
  rcases List.mem_cons.mp hx with h | h
  · rw [h]; exact h1
  · exact h2 x h
theorem Canon.left {a b : List Tok} (h : Canon (a ++ b)) : Canon a := fun t ht => h t (List.mem_append_left _ ht)
theorem Canon.right {a b : List Tok} (h : Canon (a ++ b)) : Canon b := fun t ht => h t (List.mem_append_right _ ht)

theorem canon_lits (s : String) (h : ∀ c ∈ s.toList, c.toNat < 128) : Canon (lits s) := by
  intro t ht
  simp only [lits, List.mem_map] at ht
  obtain ⟨c, hc, rfl⟩ := ht
  exact tk_canon (h c hc)

theorem canon_spacesT (n : Nat) : Canon (spacesT n) := by
  intro t ht
  simp only [spacesT, List.mem_replicate] at ht
  rw [ht.2]; exact tk_canon (by decide)

theorem c32 : (tk 32).canon := tk_canon (by decide)
theorem c10 : (tk 10).canon := tk_canon (by decide)
theorem c34 : (tk 34).canon := tk_canon (by decide)
theorem c40 : (tk 40).canon := tk_canon (by decide)
theorem c41 : (tk 41).canon := tk_canon (by decide)
theorem c44 : (tk 44).canon := tk_canon (by decide)

theorem canon_append_iff {a b : List Tok} : Canon (a ++ b) ↔ Canon a ∧ Canon b :=
  ⟨fun h => ⟨h.left, h.right⟩, fun h => h.1.append h.2⟩
theorem canon_cons_iff {t : Tok} {c : List Tok} : Canon (t :: c) ↔ t.canon ∧ Canon c :=
  ⟨fun h => ⟨h t List.mem_cons_self, fun x hx => h x (List.mem_cons_of_mem _ hx)⟩, fun h => Canon.cons h.1 h.2⟩
theorem canon_nil_iff : Canon [] ↔ True := ⟨fun _ => trivial, fun _ => Canon.nil⟩

theorem canon_joinCommaT (ts : List (List Tok)) (h : ∀ t ∈ ts, Canon t) : Canon (joinCommaT ts) := by
  match ts with
  | [] => exact Canon.nil
  | [a] => simpa [joinCommaT] using h a (by simp)
  | a :: b :: rest =>
    have ih := canon_joinCommaT (b :: rest) (fun t ht => h t (by simp [ht]))
    simp only [joinCommaT, canon_append_iff, canon_cons_iff]
    exact ⟨h a (by simp), c44, ih⟩

theorem canon_renderBookingsT (padding : Nat) (bs : List BookingT) (h : ∀ b ∈ bs, b.canon) : Canon (renderBookingsT padding bs) := by
  induction bs with
  | nil => exact Canon.nil
  | cons b rest ih =>
    obtain ⟨h1, h2, h3, h4⟩ := h b List.mem_cons_self
    have ih' := ih (fun x hx => h x (List.mem_cons_of_mem _ hx))
    simp only [renderBookingsT, renderBookingT, canon_append_iff, canon_cons_iff]
    simp [h1, h2, h3, h4, c32, c10, ih', canon_spacesT]

theorem canon_renderBalanceT (b : BalanceT) (h : b.canon) : Canon (renderBalanceT b) := by
  obtain ⟨h1, h2, h3⟩ := h
  simp only [renderBalanceT, canon_append_iff, canon_cons_iff]
  simp [h1, h2, h3, c32]

theorem canon_renderBalancesT (bs : List BalanceT) (h : ∀ b ∈ bs, b.canon) : Canon (renderBalancesT bs) := by
  induction bs with
  | nil => exact Canon.nil
  | cons b rest ih =>
    simp only [renderBalancesT, canon_append_iff, canon_cons_iff]
    exact ⟨canon_renderBalanceT b (h b List.mem_cons_self), c10, ih (fun x hx => h x (List.mem_cons_of_mem _ hx))⟩

theorem canon_renderT (padding : Nat) (v : DirT) (hc : v.canon) : Canon (renderT padding v) := by
  cases v with
  | transaction aT pT d desc bs =>
    obtain ⟨ha, hp, hd, hdesc, hb⟩ := hc
    have hB := canon_renderBookingsT padding bs hb
    cases aT with
    | none =>
      cases pT with
      | none => simp [renderT, canon_append_iff, canon_cons_iff, hd, hdesc, hB, c32, c34, c10, canon_nil_iff]
      | some ts =>
        have hJ := canon_joinCommaT ts (hp ts rfl)
        simp [renderT, renderPerformanceT, canon_append_iff, canon_cons_iff, hd, hdesc, hB, c32, c34, c10, c40, c41, hJ,
          canon_lits "@performance" (by decide), canon_nil_iff]
    | some a =>
      obtain ⟨a1, a2, a3, a4⟩ := ha a rfl
      cases pT with
      | none =>
        simp [renderT, renderAccrualT, canon_append_iff, canon_cons_iff, hd, hdesc, hB, c32, c34, c10, a1, a2, a3, a4,
          canon_lits "@accrue" (by decide), canon_nil_iff]
      | some ts =>
        have hJ := canon_joinCommaT ts (hp ts rfl)
        simp [renderT, renderAccrualT, renderPerformanceT, canon_append_iff, canon_cons_iff, hd, hdesc, hB, c32, c34, c10, c40,
          c41, hJ, a1, a2, a3, a4, canon_lits "@accrue" (by decide), canon_lits "@performance" (by decide), canon_nil_iff]
  | «open» d a => simp [renderT, canon_append_iff, hc.1, hc.2, canon_lits " open " (by decide)]
  | close d a => simp [renderT, canon_append_iff, hc.1, hc.2, canon_lits " close " (by decide)]
  | price d c p t =>
    obtain ⟨h1, h2, h3, h4⟩ := hc
    simp [renderT, canon_append_iff, canon_cons_iff, h1, h2, h3, h4, c32, canon_lits " price " (by decide)]
  | «include» p =>
    have : Canon p := hc
    simp [renderT, canon_append_iff, canon_cons_iff, this, c34, canon_lits "include \"" (by decide), canon_nil_iff]
  | assertion d bs =>
    obtain ⟨hd, hb⟩ := hc
    match bs with
    | [] => simp [renderT, renderBalancesT, canon_append_iff, canon_cons_iff, hd, c10, canon_lits " balance" (by decide), canon_nil_iff]
    | [b] =>
      have := canon_renderBalanceT b (hb b (by simp))
      simp [renderT, canon_append_iff, hd, this, canon_lits " balance " (by decide)]
    | b1 :: b2 :: rest =>
      have := canon_renderBalancesT (b1 :: b2 :: rest) hb
      simp [renderT, canon_append_iff, canon_cons_iff, hd, this, c10, canon_lits " balance" (by decide)]

theorem items_canon {text : Bytes} {off : Nat} {items : List Item} (padding : Nat) (h : ItemsOK text off items) :
    Canon (outToks padding items) := by
  induction items generalizing off with
  | nil => exact Canon.nil
  | cons i rest ih =>
    cases i with
    | gap c w nl =>
      unfold ItemsOK at h
      obtain ⟨_, _, _, _, _, hc, _, _, hrest⟩ := h
      simp only [outToks, Item.out]
      exact hc.append (ih hrest)
    | dir D d v w nl =>
      unfold ItemsOK at h
      obtain ⟨_, _, _, vcan, _, _, _, _, cr, _, hrest⟩ := h
      simp only [outToks, Item.out]
      exact ((canon_renderT padding v vcan).append cr).append (ih hrest)

/-- the views of the directives of a run -/
theorem items_views {text : Bytes} {off : Nat} {items : List Item} (h : ItemsOK text off items) :
    (dirsOf items).mapM (viewDirective text) = some ((viewsOf items).map DirT.bytes) := by
  induction items generalizing off with
  | nil => rfl
  | cons i rest ih =>
    cases i with
    | gap c w nl =>
      unfold ItemsOK at h
      exact ih h.2.2.2.2.2.2.2.2
    | dir D d v w nl =>
      unfold ItemsOK at h
      obtain ⟨_, _, _, _, vview, _, _, _, _, _, hrest⟩ := h
      simp [dirsOf, viewsOf, List.mapM_cons, vview, ih hrest]

/-- the padding `Printer.Initialize` computes, from the views -/
def padOf (vs : List DirV) : Nat := vs.foldl (fun m v => max m (paddingV v)) 0

theorem items_padding {text : Bytes} {off : Nat} {items : List Item} (h : ItemsOK text off items) :
    initPadding text (dirsOf items) = some (padOf ((viewsOf items).map DirT.bytes)) := by
  simp [initPadding, items_views h, padOf]

/-- the gaps of a run: the text between its directives, starting with the pending piece `pre` -/
def gapBytes : List UInt8 → List Item → List (List UInt8)
  | pre, [] => [pre]
  | pre, .gap c w nl :: rest => gapBytes (pre ++ flat (c ++ (w ++ nl))) rest
  | pre, .dir _ _ _ w nl :: rest => pre :: gapBytes (flat (w ++ nl)) rest

theorem items_format {text : Bytes} {padding : Nat} {items : List Item} {off : Nat}
    (hG : Good text ⟨off, origToks items⟩) (h : ItemsOK text off items) (pos : Nat) (hpos : pos ≤ off) :
    formatLoop text padding pos (dirsOf items) = some (slice text pos off ++ flat (outToks padding items)) ∧
    gapsOf text pos ((dirsOf items).map (·.range)) = gapBytes (slice text pos off) items := by
  induction items generalizing off pos with
  | nil =>
    have e := hG.eof (by simp [atEOF, origToks])
    simp only at e
    simp [dirsOf, formatLoop, outToks, sliceChecked_some (Nat.le_trans hpos hG.le) (Nat.le_refl _), gapsOf, gapBytes, e]
  | cons i rest ih =>
    cases i with
    | gap c w nl =>
      unfold ItemsOK at h
      obtain ⟨_, _, _, _, _, _, _, _, hrest⟩ := h
      have e : origToks (.gap c w nl :: rest) = (c ++ (w ++ nl)) ++ origToks rest := by simp [origToks, Item.orig]
      rw [e] at hG
      obtain ⟨ex, G2⟩ := hG.step
      have hs : slice text off (off + wsum (c ++ (w ++ nl))) = flat (c ++ (w ++ nl)) := by
        have := (hG.consumed (consumed_mk off (c ++ (w ++ nl)) (origToks rest))).2
        simpa using this
      have := ih G2 hrest pos (by omega)
      rw [slice_append text hpos (Nat.le_add_right off _), hs] at this
      constructor
      · simp only [dirsOf, outToks, Item.out, flat_append]
        rw [this.1]
        simp [flat_append]
      · simp only [dirsOf, gapBytes]
        rw [this.2]
    | dir D d v w nl =>
      unfold ItemsOK at h
      obtain ⟨hrange, hDne, vok, vcan, vview, _, _, _, _, _, hrest⟩ := h
      have e : origToks (.dir D d v w nl :: rest) = D ++ ((w ++ nl) ++ origToks rest) := by simp [origToks, Item.orig]
      rw [e] at hG
      obtain ⟨_, G1⟩ := hG.step
      obtain ⟨_, G2⟩ := G1.step
      have hs : slice text (off + wsum D) (off + wsum D + wsum (w ++ nl)) = flat (w ++ nl) := by
        have := (G1.consumed (consumed_mk (off + wsum D) (w ++ nl) (origToks rest))).2
        simpa using this
      have := ih G2 hrest (off + wsum D) (Nat.le_add_right _ _)
      rw [hs] at this
      have hprint : printDirective text padding d = some (flat (renderT padding v)) := by
        simp [printDirective, vview, flat_renderT padding v vcan]
      constructor
      · simp only [dirsOf, formatLoop, hrange, Option.bind_eq_bind]
        rw [sliceChecked_some hpos hG.le, hprint, this.1]
        simp [outToks, Item.out, flat_append]
      · simp only [dirsOf, List.map_cons, gapsOf, hrange, gapBytes]
        rw [this.2]

theorem Rendered.facts {padding : Nat} {items items2 : List Item} (h : Rendered padding items items2) :
    origToks items2 = outToks padding items ∧ outToks padding items2 = outToks padding items ∧
    viewsOf items2 = viewsOf items ∧ ∀ pre, gapBytes pre items2 = gapBytes pre items := by
  induction h with
  | nil => exact ⟨rfl, rfl, rfl, fun _ => rfl⟩
  | gap c w nl hr ih =>
    obtain ⟨i1, i2, i3, i4⟩ := ih
    exact ⟨by simp [origToks, outToks, Item.orig, Item.out, i1], by simp [outToks, i2], by simp [viewsOf, i3],
      fun pre => by simp [gapBytes, i4]⟩
  | dir D d v w nl d2 hr ih =>
    obtain ⟨i1, i2, i3, i4⟩ := ih
    exact ⟨by simp [origToks, outToks, Item.orig, Item.out, i1], by simp [outToks, Item.out, i2], by simp [viewsOf, i3],
      fun pre => by simp [gapBytes, i4]⟩

theorem start_complete (toks : List Tok) (h : HeadValid toks) : start toks = .ok () ⟨0, toks⟩ := by
  unfold start
  cases toks with
  | nil => rfl
  | cons u r => simp [h u r rfl]

theorem start_headValid {toks : List Tok} {u : Unit} {s : St} (h : start toks = .ok u s) : HeadValid toks := by
  unfold start at h
  cases toks with
  | nil => exact HeadValid.nil
  | cons t r =>
    simp only at h
    split at h
    · cases h
    · rename_i hx; exact HeadValid.cons (by simpa using hx)

/-- **the print-then-parse round trip**: formatting a file that parses never hits a slice bound; the result parses
again to directives with exactly the same fields; the text between the directives is the same; and formatting
the result once more reproduces it. -/
theorem roundtrip {path : String} {text : Bytes} {f : File} (h : parseText path text = .ok f) :
    ∃ out f2, format text f = some out ∧ parseText path out = .ok f2 ∧
      f2.directives.mapM (viewDirective out) = f.directives.mapM (viewDirective text) ∧
      (f.directives.mapM (viewDirective text)).isSome = true ∧
      gapsOf out 0 (f2.directives.map (·.range)) = gapsOf text 0 (f.directives.map (·.range)) ∧
      format out f2 = some out := by
  unfold parseText at h
  split at h
  · cases h
  · rename_i u s0 hs
    have e0 := start_ok hs
    have hv0 := start_headValid hs
    subst e0
    split at h
    · rename_i f' s' hp
      injection h with h
      subst h
      unfold parseFile at hp
      obtain ⟨items, i1, i2, i3⟩ := fileLoop_items hp (good_start text) hv0
      simp only [List.reverse_nil, List.nil_append] at i2
      simp only at i1 i3
      -- the padding and the formatted text
      let padding := padOf ((viewsOf items).map DirT.bytes)
      have hG0 : Good text ⟨0, origToks items⟩ := by rw [← i1]; exact good_start text
      obtain ⟨hfmt, hgaps⟩ := items_format (padding := padding) hG0 i3 0 (Nat.le_refl _)
      simp only [slice_self, List.nil_append] at hfmt hgaps
      have hformat : format text f' = some (flat (outToks padding items)) := by
        simp only [format, i2, items_padding i3, Option.bind_eq_bind, Option.bind_some]
        exact hfmt
      -- the tokens of the formatted text
      have hdec : decodeAll (flat (outToks padding items)) = outToks padding items :=
        decodeAll_flat _ (items_canon padding i3)
      obtain ⟨items2, f2, s2', hr, hrun, hdirs, hitems2⟩ := fileLoop_replay padding path text items 0 i3 0 [] 0
      simp only [List.reverse_nil, List.nil_append] at hdirs
      obtain ⟨r1, r2, r3, r4⟩ := hr.facts
      have hG2 : Good (flat (outToks padding items)) ⟨0, outToks padding items⟩ := by
        have := good_start (flat (outToks padding items))
        rwa [hdec] at this
      have i3' := hitems2 _ hG2
      have hparse2 : parseText path (flat (outToks padding items)) = .ok f2 := by
        unfold parseText
        rw [hdec, start_complete _ (outToks_headValid padding i3)]
        simp only [parseFile, hrun]
      have hG2' : Good (flat (outToks padding items)) ⟨0, origToks items2⟩ := by rw [r1]; exact hG2
      obtain ⟨hfmt2, hgaps2⟩ := items_format (padding := padding) hG2' i3' 0 (Nat.le_refl _)
      simp only [slice_self, List.nil_append] at hfmt2 hgaps2
      refine ⟨flat (outToks padding items), f2, hformat, hparse2, ?_, ?_, ?_, ?_⟩
      · rw [hdirs, i2, items_views i3', items_views i3, r3]
      · rw [i2, items_views i3]; rfl
      · rw [hdirs, i2, hgaps2, hgaps, r4]
      · have hpad : initPadding (flat (outToks padding items)) (dirsOf items2) = some padding := by
          rw [items_padding i3', r3]
        simp only [format, hdirs, hpad, Option.bind_eq_bind, Option.bind_some]
        rw [hfmt2, r2]
    · cases h

end Knut.Syntax
