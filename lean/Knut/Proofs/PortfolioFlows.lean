import Knut.Proofs.Portfolio
import Knut.Proofs.Check
import Knut.Proofs.Balance
/-! Lemmas for C20: with unchanged prices and un-annotated transactions the change of the portfolio value on a day
equals the day's net external flow. -/
namespace Knut.Performance
open Knut

/-! ### sums over association lists -/

theorem sumVals_set (m : AMap Commodity Rat) (k : Commodity) (v : Rat) :
    sumVals (m.set k v) = sumVals m - m.get k 0 + v := by
  induction m with
  | nil => simp [AMap.set, sumVals, AMap.get, AMap.find?]; grind
  | cons p rest ih =>
    obtain ⟨a, b⟩ := p
    by_cases h : a = k
    · subst h
      simp only [AMap.set, if_true, sumVals, List.map_cons, List.sum_cons, AMap.get, AMap.find?, Option.getD_some]
      grind
    · have hg : AMap.get ((a, b) :: rest) k 0 = AMap.get rest k 0 := by
        simp [AMap.get, AMap.find?, h]
      simp only [AMap.set, h, if_false, hg]
      unfold sumVals at ih ⊢
      simp only [List.map_cons, List.sum_cons, ih]
      grind

theorem erase_of_not_mem (m : AMap Commodity Rat) (k : Commodity) (h : k ∉ m.map (·.1)) : m.erase k = m := by
  induction m with
  | nil => rfl
  | cons p rest ih =>
    obtain ⟨a, b⟩ := p
    simp only [List.map_cons, List.mem_cons, not_or] at h
    have : ¬ a = k := fun e => h.1 e.symm
    simp only [AMap.erase, this, if_false, ih h.2]

theorem get_of_not_mem (m : AMap Commodity Rat) (k : Commodity) (h : k ∉ m.map (·.1)) : m.get k 0 = 0 := by
  induction m with
  | nil => rfl
  | cons p rest ih =>
    obtain ⟨a, b⟩ := p
    simp only [List.map_cons, List.mem_cons, not_or] at h
    have : ¬ a = k := fun e => h.1 e.symm
    have := ih h.2
    simp only [AMap.get, AMap.find?] at this ⊢
    simp [*]

theorem sumVals_erase (m : AMap Commodity Rat) (hn : AMap.NodupKeys m) (k : Commodity) :
    sumVals (m.erase k) = sumVals m - m.get k 0 := by
  induction m with
  | nil => simp [AMap.erase, sumVals, AMap.get, AMap.find?]; grind
  | cons p rest ih =>
    obtain ⟨a, b⟩ := p
    unfold AMap.NodupKeys at hn
    simp only [List.map_cons, List.nodup_cons] at hn
    by_cases h : a = k
    · subst h
      simp only [AMap.erase, if_true, erase_of_not_mem rest a hn.1, sumVals, List.map_cons, List.sum_cons, AMap.get,
        AMap.find?, Option.getD_some]
      grind
    · have hg : AMap.get ((a, b) :: rest) k 0 = AMap.get rest k 0 := by
        simp [AMap.get, AMap.find?, h]
      simp only [AMap.erase, h, if_false, hg]
      have := ih hn.2
      unfold sumVals at this ⊢
      simp only [List.map_cons, List.sum_cons, this]
      grind

theorem keys_erase_sub (m : AMap Commodity Rat) (k : Commodity) : List.Sublist ((m.erase k).map (·.1)) (m.map (·.1)) := by
  induction m with
  | nil => exact List.Sublist.slnil
  | cons p rest ih =>
    obtain ⟨a, b⟩ := p
    simp only [AMap.erase]
    split
    · exact List.Sublist.cons _ ih
    · simp only [List.map_cons]; exact List.Sublist.cons₂ _ ih

theorem nodup_erase {m : AMap Commodity Rat} (hn : AMap.NodupKeys m) (k : Commodity) : AMap.NodupKeys (m.erase k) :=
  List.Nodup.sublist (keys_erase_sub m k) hn

/-! ### the portfolio value through a day -/

/-- what a posting adds to the portfolio value -/
def inV (cfg : Cfg) (p : Posting) : Rat :=
  if cfg.commodityFilter p.commodity = true ∧ isPortfolio cfg p.account = true then p.value else 0

theorem valuesStep_sum (cfg : Cfg) (vals : AMap Commodity Rat) (hn : AMap.NodupKeys vals) (p : Posting) :
    AMap.NodupKeys (valuesStep cfg vals p) ∧ sumVals (valuesStep cfg vals p) = sumVals vals + inV cfg p := by
  unfold valuesStep inV
  by_cases hc : cfg.commodityFilter p.commodity = true
  · by_cases hp : isPortfolio cfg p.account = true
    · simp only [hc, hp, Bool.not_true, Bool.false_eq_true, if_false, and_self, if_true]
      split
      · rename_i hz
        refine ⟨nodup_erase hn _, ?_⟩
        rw [sumVals_erase _ hn]
        grind
      · refine ⟨AMap.nodup_set hn _ _, ?_⟩
        rw [sumVals_set]
        grind
    · have hp' : isPortfolio cfg p.account = false := by simpa using hp
      simp only [hc, hp', Bool.not_true, Bool.not_false, Bool.false_eq_true, if_false, if_true, and_false, Rat.add_zero]
      exact ⟨hn, trivial⟩
  · have hc' : cfg.commodityFilter p.commodity = false := by simpa using hc
    simp only [hc', Bool.not_false, if_true, Bool.false_eq_true, false_and, if_false, Rat.add_zero]
    exact ⟨hn, trivial⟩

def sumOver (f : Posting → Rat) (ps : List Posting) : Rat := (ps.map f).sum

theorem sumOver_append (f : Posting → Rat) (a b : List Posting) : sumOver f (a ++ b) = sumOver f a + sumOver f b := by
  simp [sumOver, List.sum_append]

theorem valuesPostings_sum (cfg : Cfg) : ∀ (ps : List Posting) (vals : AMap Commodity Rat), AMap.NodupKeys vals →
    AMap.NodupKeys (ps.foldl (valuesStep cfg) vals) ∧
    sumVals (ps.foldl (valuesStep cfg) vals) = sumVals vals + sumOver (inV cfg) ps := by
  intro ps
  induction ps with
  | nil => intro vals hn; exact ⟨hn, by simp [sumOver, Rat.add_zero]⟩
  | cons p rest ih =>
    intro vals hn
    obtain ⟨h1, h2⟩ := valuesStep_sum cfg vals hn p
    obtain ⟨i1, i2⟩ := ih _ h1
    refine ⟨i1, ?_⟩
    simp only [List.foldl_cons, i2, h2, sumOver, List.map_cons, List.sum_cons]
    grind

theorem valuesDay_sum (cfg : Cfg) : ∀ (txs : List Transaction) (vals : AMap Commodity Rat), AMap.NodupKeys vals →
    AMap.NodupKeys (valuesDay cfg vals txs) ∧
    sumVals (valuesDay cfg vals txs) = sumVals vals + sumOver (inV cfg) (txs.flatMap (·.postings)) := by
  intro txs
  induction txs with
  | nil => intro vals hn; exact ⟨hn, by simp [valuesDay, sumOver, Rat.add_zero]⟩
  | cons t rest ih =>
    intro vals hn
    obtain ⟨h1, h2⟩ := valuesPostings_sum cfg t.postings vals hn
    have := ih _ h1
    unfold valuesDay at this ⊢
    obtain ⟨i1, i2⟩ := this
    refine ⟨i1, ?_⟩
    simp only [List.foldl_cons, i2, h2, List.flatMap_cons, sumOver_append]
    grind

/-- what a posting adds to the value recorded for commodity `c` -/
def inVc (cfg : Cfg) (c : Commodity) (p : Posting) : Rat :=
  if cfg.commodityFilter p.commodity = true ∧ isPortfolio cfg p.account = true ∧ p.commodity = c then p.value else 0

theorem valuesStep_get (cfg : Cfg) (vals : AMap Commodity Rat) (p : Posting) (c : Commodity) :
    (valuesStep cfg vals p).get c 0 = vals.get c 0 + inVc cfg c p := by
  unfold valuesStep inVc
  by_cases hc : cfg.commodityFilter p.commodity = true
  · by_cases hp : isPortfolio cfg p.account = true
    · simp only [hc, hp, Bool.not_true, Bool.false_eq_true, if_false, true_and]
      split
      · rename_i hz
        rw [AMap.get_erase]
        split
        · rename_i hk; subst hk; exact hz.symm
        · rename_i hk; simp only [hk, if_false, Rat.add_zero]
      · rw [AMap.get_set]
        split
        · rename_i hk; subst hk; rfl
        · rename_i hk; simp only [hk, if_false, Rat.add_zero]
    · have hp' : isPortfolio cfg p.account = false := by simpa using hp
      simp [hc, hp', Rat.add_zero]
  · have hc' : cfg.commodityFilter p.commodity = false := by simpa using hc
    simp [hc', Rat.add_zero]

/-- **values are sums of posting values**: the value `ComputeValues` holds for commodity `c` is the sum of the values of
the portfolio accounts' postings in `c` -/
theorem valuesDay_get (cfg : Cfg) (c : Commodity) : ∀ (txs : List Transaction) (vals : AMap Commodity Rat),
    (valuesDay cfg vals txs).get c 0 = vals.get c 0 + sumOver (inVc cfg c) (txs.flatMap (·.postings)) := by
  intro txs
  induction txs with
  | nil => intro vals; simp [valuesDay, sumOver, Rat.add_zero]
  | cons t rest ih =>
    intro vals
    have hps : ∀ (ps : List Posting) (v : AMap Commodity Rat),
        (ps.foldl (valuesStep cfg) v).get c 0 = v.get c 0 + sumOver (inVc cfg c) ps := by
      intro ps
      induction ps with
      | nil => intro v; simp [sumOver, Rat.add_zero]
      | cons p ps' ihp =>
        intro v
        simp only [List.foldl_cons, ihp, valuesStep_get, sumOver, List.map_cons, List.sum_cons]
        grind
    have := ih (t.postings.foldl (valuesStep cfg) vals)
    unfold valuesDay at this ⊢
    simp only [List.foldl_cons, this, hps, List.flatMap_cons, sumOver_append]
    grind

/-! ### the flows of a day -/

/-- what a posting of an un-annotated transaction contributes to the flows -/
def flowV (cfg : Cfg) (p : Posting) : Rat :=
  if isPortfolio cfg p.account = true ∧ isPortfolio cfg p.other = false then p.value else 0

theorem txFlowStep_none (cfg : Cfg) (acc : AMap Commodity Rat × Rat) (p : Posting) :
    sumVals (txFlowStep cfg none acc p).1 = sumVals acc.1 + flowV cfg p ∧ (txFlowStep cfg none acc p).2 = acc.2 := by
  unfold txFlowStep flowV
  by_cases hp : isPortfolio cfg p.account = true
  · by_cases ho : isPortfolio cfg p.other = true
    · simp [hp, ho, Rat.add_zero]
    · have ho' : isPortfolio cfg p.other = false := by simpa using ho
      simp only [hp, ho', Bool.not_true, Bool.false_eq_true, if_false, and_self, if_true]
      have : ¬ (none : Option (List Commodity)) = some [p.commodity] := by simp
      simp only [this, if_false]
      refine ⟨?_, trivial⟩
      rw [sumVals_set]
      grind
  · have hp' : isPortfolio cfg p.account = false := by simpa using hp
    simp [hp', Rat.add_zero]

theorem txFlows_none (cfg : Cfg) (t : Transaction) (ht : t.targets = none) :
    sumVals (txFlows cfg t).1 = sumOver (flowV cfg) t.postings ∧ (txFlows cfg t).2 = 0 := by
  unfold txFlows pickTargets
  rw [ht]
  suffices hgen : ∀ (ps : List Posting) (acc : AMap Commodity Rat × Rat),
      sumVals (ps.foldl (txFlowStep cfg none) acc).1 = sumVals acc.1 + sumOver (flowV cfg) ps ∧
      (ps.foldl (txFlowStep cfg none) acc).2 = acc.2 by
    have := hgen t.postings ([], 0)
    simpa [sumVals, Rat.zero_add] using this
  intro ps
  induction ps with
  | nil => intro acc; simp [sumOver, Rat.add_zero]
  | cons p rest ih =>
    intro acc
    obtain ⟨h1, h2⟩ := txFlowStep_none cfg acc p
    obtain ⟨i1, i2⟩ := ih (txFlowStep cfg none acc p)
    simp only [List.foldl_cons]
    refine ⟨?_, by rw [i2, h2]⟩
    rw [i1, h1]
    simp only [sumOver, List.map_cons, List.sum_cons]
    grind

theorem pos_neg_sum (l : List Rat) :
    (l.filter (fun f => decide (0 < f))).sum + (l.filter (fun f => decide (f < 0))).sum = l.sum := by
  induction l with
  | nil => simp [Rat.add_zero]
  | cons x xs ih =>
    simp only [List.filter_cons, List.sum_cons]
    by_cases h1 : 0 < x
    · have h2 : ¬ x < 0 := by grind
      simp only [h1, h2, decide_true, decide_false, if_true, Bool.false_eq_true, if_false, List.sum_cons]
      grind
    · by_cases h2 : x < 0
      · simp only [h1, h2, decide_true, decide_false, if_true, Bool.false_eq_true, if_false, List.sum_cons]
        grind
      · have : x = 0 := by grind
        simp only [h1, h2, decide_false, Bool.false_eq_true, if_false]
        grind

theorem posPart_negPart (m : AMap Commodity Rat) : posPart m + negPart m = sumVals m := pos_neg_sum _

/-- the flows of a day of un-annotated transactions: inflow + outflow is the sum of the flow contributions -/
theorem dayFlows_plain (cfg : Cfg) : ∀ (txs : List Transaction), (∀ t ∈ txs, t.targets = none) →
    ∀ (acc : Rat × Rat × Rat),
      let r := txs.foldl (fun (acc : Rat × Rat × Rat) t =>
        let f := txFlows cfg t
        (acc.1 + posPart f.1, acc.2.1 + negPart f.1, acc.2.2 + f.2)) acc
      r.1 + r.2.1 = acc.1 + acc.2.1 + sumOver (flowV cfg) (txs.flatMap (·.postings)) ∧ r.2.2 = acc.2.2 := by
  intro txs
  induction txs with
  | nil => intro _ acc; simp [sumOver, Rat.add_zero]
  | cons t rest ih =>
    intro hplain acc
    obtain ⟨h1, h2⟩ := txFlows_none cfg t (hplain t List.mem_cons_self)
    have := ih (fun t' ht' => hplain t' (List.mem_cons_of_mem _ ht'))
      (acc.1 + posPart (txFlows cfg t).1, acc.2.1 + negPart (txFlows cfg t).1, acc.2.2 + (txFlows cfg t).2)
    simp only at this
    simp only [List.foldl_cons, List.flatMap_cons, sumOver_append]
    obtain ⟨i1, i2⟩ := this
    refine ⟨?_, ?_⟩
    · rw [i1]
      have := posPart_negPart (txFlows cfg t).1
      grind
    · rw [i2, h2, Rat.add_zero]

/-! ### internal transfers cancel -/

/-- a list of posting pairs as `posting.Builder.Build` makes them: opposite values, mirrored account/other, same commodity -/
inductive Mirrored : List Posting → Prop
  | nil : Mirrored []
  | cons (a b : Posting) (rest : List Posting) (hc : b.commodity = a.commodity) (hv : b.value = -a.value)
      (h1 : b.account = a.other) (h2 : b.other = a.account) (h : Mirrored rest) : Mirrored (a :: b :: rest)

theorem Mirrored.append {xs ys : List Posting} (hx : Mirrored xs) (hy : Mirrored ys) : Mirrored (xs ++ ys) := by
  induction hx with
  | nil => simpa using hy
  | cons a b rest hc hv h1 h2 _ ih => exact Mirrored.cons a b _ hc hv h1 h2 ih

/-- over mirrored pairs (and no commodity filter) the value contributions and the flow contributions have the same sum -/
theorem mirrored_in_eq_flow (cfg : Cfg) (hf : ∀ c, cfg.commodityFilter c = true) {ps : List Posting} (h : Mirrored ps) :
    sumOver (inV cfg) ps = sumOver (flowV cfg) ps := by
  induction h with
  | nil => rfl
  | cons a b rest hc hv h1 h2 _ ih =>
    simp only [sumOver, List.map_cons, List.sum_cons] at ih ⊢
    rw [ih]
    have e : inV cfg a + inV cfg b = flowV cfg a + flowV cfg b := by
      unfold inV flowV
      simp only [hf, true_and, h1, h2, hv]
      cases isPortfolio cfg a.account <;> cases isPortfolio cfg a.other <;> simp <;> grind
    grind

/-! ### what valuation keeps of a transaction -/

/-- account/other of consecutive postings mirror each other -/
inductive AccMirror : List (Account × Account) → Prop
  | nil : AccMirror []
  | cons (a b : Account × Account) (rest : List (Account × Account)) (h1 : b.1 = a.2) (h2 : b.2 = a.1)
      (h : AccMirror rest) : AccMirror (a :: b :: rest)

def accPair (p : Posting) : Account × Account := (p.account, p.other)

theorem AccMirror.append {xs ys : List (Account × Account)} (hx : AccMirror xs) (hy : AccMirror ys) : AccMirror (xs ++ ys) := by
  induction hx with
  | nil => simpa using hy
  | cons a b rest h1 h2 _ ih => exact AccMirror.cons a b _ h1 h2 ih

theorem mirrored_of_paired : ∀ {ps : List Posting}, Paired ps → AccMirror (ps.map accPair) → Mirrored ps := by
  intro ps hp
  induction hp with
  | nil => intro _; exact Mirrored.nil
  | cons a b rest hc hq hv _ ih =>
    intro hm
    simp only [List.map_cons] at hm
    cases hm with
    | cons _ _ _ h1 h2 h => exact Mirrored.cons a b rest hc hv h1 h2 (ih h)

theorem accMirror_postingBuild (cr dr : Account) (c : Commodity) (q v : Rat) :
    AccMirror ((postingBuild cr dr c q v).map accPair) := by
  unfold postingBuild
  exact AccMirror.cons _ _ [] rfl rfl AccMirror.nil

theorem valuePosting_pair {v : Commodity} {cur : Option Prices.NPrices} {p p' : Posting}
    (h : Balance.valuePosting v cur p = .ok p') : accPair p' = accPair p := by
  unfold Balance.valuePosting at h
  split at h
  · injection h with h; subst h; rfl
  · split at h
    · injection h with h; subst h; rfl
    · simp only [bind, Except.bind] at h
      split at h
      · cases h
      · injection h with h; subst h; rfl

theorem mapM_value_pairs {v : Commodity} {cur : Option Prices.NPrices} :
    ∀ (ps qs : List Posting), ps.mapM (Balance.valuePosting v cur) = .ok qs → qs.map accPair = ps.map accPair := by
  intro ps
  induction ps with
  | nil => intro qs h; simp [List.mapM_nil, pure, Except.pure] at h; subst h; rfl
  | cons p rest ih =>
    intro qs h
    simp only [List.mapM_cons, bind, Except.bind] at h
    cases hp : Balance.valuePosting v cur p with
    | error e => rw [hp] at h; cases h
    | ok p' =>
      rw [hp] at h; simp only at h
      cases hr : rest.mapM (Balance.valuePosting v cur) with
      | error e => rw [hr] at h; cases h
      | ok rest' =>
        rw [hr] at h; simp only [pure, Except.pure] at h
        injection h with h; subst h
        simp [ih rest' hr, valuePosting_pair hp]

/-- an un-annotated transaction made of mirrored posting pairs -/
structure Plain (t : Transaction) : Prop where
  targets : t.targets = none
  paired : Paired t.postings
  mirror : AccMirror (t.postings.map accPair)

theorem plain_ofBookings (date : Int) (desc : String) (bks : List Booking) :
    Plain (Transaction.ofBookings date desc none bks) := by
  refine ⟨rfl, ?_, ?_⟩
  · unfold Transaction.ofBookings
    simp only
    induction bks with
    | nil => exact Paired.nil
    | cons b rest ih => simp only [List.flatMap_cons]; exact (paired_postingBuild _ _ _ _ _).append ih
  · unfold Transaction.ofBookings
    simp only
    induction bks with
    | nil => exact AccMirror.nil
    | cons b rest ih =>
      simp only [List.flatMap_cons, List.map_append]
      exact (accMirror_postingBuild _ _ _ _ _).append ih

theorem plain_valueTx {v : Commodity} {cur : Option Prices.NPrices} {t t' : Transaction} (h : Plain t)
    (hv : Balance.valueTx v cur t = .ok t') : Plain t' := by
  have hp := paired_valueTx h.paired hv
  unfold Balance.valueTx at hv
  cases hm : t.postings.mapM (Balance.valuePosting v cur) with
  | error e => rw [hm] at hv; cases hv
  | ok ps =>
    rw [hm] at hv; simp only [bind, Except.bind] at hv
    injection hv with hv; subst hv
    refine ⟨h.targets, hp, ?_⟩
    simp only
    rw [mapM_value_pairs _ _ hm]
    exact h.mirror

theorem plain_mapM {v : Commodity} {cur : Option Prices.NPrices} : ∀ (ts ts' : List Transaction),
    (∀ t ∈ ts, Plain t) → ts.mapM (Balance.valueTx v cur) = .ok ts' → ∀ t ∈ ts', Plain t := by
  intro ts
  induction ts with
  | nil => intro ts' _ h; simp [List.mapM_nil, pure, Except.pure] at h; subst h; intro t ht; cases ht
  | cons x rest ih =>
    intro ts' hall h
    simp only [List.mapM_cons, bind, Except.bind] at h
    cases hx : Balance.valueTx v cur x with
    | error e => rw [hx] at h; cases h
    | ok x' =>
      rw [hx] at h; simp only at h
      cases hr : rest.mapM (Balance.valueTx v cur) with
      | error e => rw [hr] at h; cases h
      | ok rest' =>
        rw [hr] at h; simp only [pure, Except.pure] at h
        injection h with h; subst h
        intro t ht
        rcases List.mem_cons.mp ht with rfl | ht'
        · exact plain_valueTx (hall x List.mem_cons_self) hx
        · exact ih rest' (fun t ht => hall t (List.mem_cons_of_mem _ ht)) hr t ht'

/-! ### no value adjustments while prices do not change -/

theorem adjustments_same_prices (v : Commodity) (date : Int) (np : Option Prices.NPrices) (qty : AMap Position Rat)
    (adj : List Transaction) (h : Balance.adjustments v date np np qty = .ok adj) : adj = [] := by
  unfold Balance.adjustments at h
  suffices hgen : ∀ (q : AMap Position Rat) (res : List Transaction),
      q.foldlM (Balance.adjustStep v date np np) [] = .ok res → res = [] from hgen qty adj h
  intro q
  induction q with
  | nil => intro res h; simp only [List.foldlM_nil, pure, Except.pure] at h; injection h with h; exact h.symm
  | cons e rest ih =>
    intro res h
    simp only [List.foldlM_cons, bind, Except.bind] at h
    cases hs : Balance.adjustStep v date np np [] e with
    | error x => rw [hs] at h; cases h
    | ok acc' =>
      rw [hs] at h; simp only at h
      have : acc' = [] := by
        unfold Balance.adjustStep at hs
        split at hs
        · injection hs with hs; exact hs.symm
        · simp only [bind, Except.bind] at hs
          cases hl : Balance.lookupPrice np e.1.2 with
          | error x => rw [hl] at hs; cases hs
          | ok pp =>
            rw [hl] at hs; simp only at hs
            rw [if_pos Rat.sub_self] at hs
            injection hs with hs; exact hs.symm
      subst this
      exact ih res h

/-- the state `Valuate` needs for producing no adjustment on the next day -/
def Calm (st : BalState) : Prop := st.vQty = [] ∨ st.vPrev = st.norm

theorem pricesDay_frame2 {v : Commodity} {st s1 : BalState} {d : Day} (h : Balance.pricesDay v st d = .ok s1) :
    s1.vPrev = st.vPrev ∧ s1.vQty = st.vQty ∧ (d.prices = [] → s1.norm = st.norm) := by
  unfold Balance.pricesDay at h
  simp only [bind, Except.bind] at h
  split at h
  · cases h
  · injection h with h; subst h
    refine ⟨rfl, rfl, ?_⟩
    intro hp
    simp [hp]

theorem checkStage_frame2 {s1 s2 : BalState} {d : Day} (h : Balance.checkStage s1 d = .ok s2) :
    s2.vPrev = s1.vPrev ∧ s2.vQty = s1.vQty ∧ s2.norm = s1.norm := by
  unfold Balance.checkStage at h
  split at h
  · injection h with h; subst h; exact ⟨rfl, rfl, rfl⟩
  · cases h

/-- **a calm day**: no price is declared (or nothing is held yet), so the day's valued transactions are the user's -/
theorem valuedDay_calm {cfg : Cfg} {st st' : BalState} {d : Day} {txs : List Transaction}
    (hc : st.vQty = [] ∨ (st.vPrev = st.norm ∧ d.prices = [])) (hplain : ∀ t ∈ d.transactions, Plain t)
    (h : valuedDay cfg st d = .ok (st', txs)) : (∀ t ∈ txs, Plain t) ∧ Calm st' := by
  unfold valuedDay at h
  cases hv : cfg.valuation with
  | none =>
    rw [hv] at h
    simp only [bind, Except.bind] at h
    cases hcs : Balance.checkStage st d with
    | error e => rw [hcs] at h; cases h
    | ok s2 =>
      rw [hcs] at h; simp only at h
      injection h with h; injection h with h1 h2; subst h1; subst h2
      obtain ⟨f1, f2, f3⟩ := checkStage_frame2 hcs
      refine ⟨hplain, ?_⟩
      unfold Calm
      rcases hc with hc | ⟨hc, _⟩
      · left; rw [f2, hc]
      · right; rw [f1, f3, hc]
  | some v =>
    rw [hv] at h
    simp only [bind, Except.bind] at h
    cases hp : Balance.pricesDay v st d with
    | error e => rw [hp] at h; cases h
    | ok s1 =>
      rw [hp] at h; simp only at h
      cases hcs : Balance.checkStage s1 d with
      | error e => rw [hcs] at h; cases h
      | ok s2 =>
        rw [hcs] at h; simp only at h
        obtain ⟨p1, p2, p3⟩ := pricesDay_frame2 hp
        obtain ⟨f1, f2, f3⟩ := checkStage_frame2 hcs
        unfold Balance.valuateDay at h
        simp only [bind, Except.bind] at h
        cases ha : Balance.adjustments v d.date s2.vPrev s2.norm s2.vQty with
        | error e => rw [ha] at h; cases h
        | ok adj =>
          rw [ha] at h; simp only at h
          have hadj : adj = [] := by
            rcases hc with hc | ⟨hc, hpr⟩
            · rw [f2, p2, hc] at ha
              unfold Balance.adjustments at ha
              simp only [List.foldlM_nil, pure, Except.pure] at ha
              injection ha with ha; exact ha.symm
            · rw [f1, f3, p1, p3 hpr, hc] at ha
              exact adjustments_same_prices v d.date _ _ adj ha
          subst hadj
          simp only [List.append_nil] at h
          cases hm : d.transactions.mapM (Balance.valueTx v s2.norm) with
          | error e => rw [hm] at h; cases h
          | ok txsv =>
            rw [hm] at h; simp only at h
            injection h with h; injection h with h1 h2; subst h1; subst h2
            exact ⟨plain_mapM _ _ hplain hm, Or.inr rfl⟩

/-- **the day equation**: on a calm day of plain transactions (and without commodity filter) the change of the portfolio
value equals the net external flow, and nothing is booked as an unallocated portfolio effect -/
theorem perfDay_net_flow {cfg : Cfg} (hf : ∀ c, cfg.commodityFilter c = true) {ps ps' : PState} {d : Day} {p : DayPerf}
    (hc : ps.bal.vQty = [] ∨ (ps.bal.vPrev = ps.bal.norm ∧ d.prices = [])) (hplain : ∀ t ∈ d.transactions, Plain t)
    (hprev : ps.prev = ps.values) (hn : AMap.NodupKeys ps.values)
    (h : perfDay cfg ps d = .ok (ps', p)) :
    p.portfolioFlows = 0 ∧ sumVals p.v1 - sumVals p.v0 = p.inflow + p.outflow ∧
    Calm ps'.bal ∧ ps'.prev = ps'.values ∧ AMap.NodupKeys ps'.values := by
  unfold perfDay at h
  simp only [bind, Except.bind] at h
  cases hv : valuedDay cfg ps.bal d with
  | error e => rw [hv] at h; cases h
  | ok r =>
    obtain ⟨bal, txs⟩ := r
    rw [hv] at h; simp only at h
    injection h with h; injection h with h1 h2; subst h1; subst h2
    obtain ⟨hpl, hcalm⟩ := valuedDay_calm hc hplain hv
    obtain ⟨v1, v2⟩ := valuesDay_sum cfg txs ps.values hn
    have hfl := dayFlows_plain cfg txs (fun t ht => (hpl t ht).targets) (0, 0, 0)
    simp only at hfl
    obtain ⟨fl1, fl2⟩ := hfl
    have hcancel : sumOver (inV cfg) (txs.flatMap (·.postings)) = sumOver (flowV cfg) (txs.flatMap (·.postings)) := by
      have hall : ∀ t ∈ txs, Plain t := hpl
      clear v1 v2 fl1 fl2 hv hpl
      induction txs with
      | nil => rfl
      | cons t rest ih =>
        simp only [List.flatMap_cons, sumOver_append]
        rw [ih (fun t' ht' => hall t' (List.mem_cons_of_mem _ ht')),
          mirrored_in_eq_flow cfg hf (mirrored_of_paired (hall t List.mem_cons_self).paired (hall t List.mem_cons_self).mirror)]
    refine ⟨?_, ?_, hcalm, rfl, v1⟩
    · simp only [dayFlows]; exact fl2
    · simp only [dayFlows, hprev, v2, hcancel]
      rw [fl1]
      grind

/-- the whole run: every day satisfies the day equation when prices are declared on the first day only -/
theorem perfFrom_net_flow {cfg : Cfg} (hf : ∀ c, cfg.commodityFilter c = true) : ∀ (days : List Day) (ps : PState)
    (perfs : List DayPerf), perfFrom cfg ps days = .ok perfs →
    (∀ d ∈ days, ∀ t ∈ d.transactions, Plain t) →
    (ps.bal.vQty = [] ∨ ps.bal.vPrev = ps.bal.norm) → (ps.bal.vQty ≠ [] → ∀ d ∈ days, d.prices = []) →
    (∀ d ∈ days.tail, d.prices = []) →
    ps.prev = ps.values → AMap.NodupKeys ps.values →
    ∀ p ∈ perfs, p.portfolioFlows = 0 ∧ sumVals p.v1 - sumVals p.v0 = p.inflow + p.outflow := by
  intro days
  induction days with
  | nil => intro ps perfs h _ _ _ _ _ _; simp only [perfFrom] at h; injection h with h; subst h; intro p hp; cases hp
  | cons d rest ih =>
    intro ps perfs h hplain hcalm hheld htail hprev hn
    simp only [perfFrom, bind, Except.bind] at h
    cases hd : perfDay cfg ps d with
    | error e => rw [hd] at h; cases h
    | ok r =>
      obtain ⟨ps1, p⟩ := r
      rw [hd] at h; simp only at h
      cases hr : perfFrom cfg ps1 rest with
      | error e => rw [hr] at h; cases h
      | ok perfs' =>
        rw [hr] at h; simp only at h
        injection h with h; subst h
        have hc : ps.bal.vQty = [] ∨ (ps.bal.vPrev = ps.bal.norm ∧ d.prices = []) := by
          by_cases hq : ps.bal.vQty = []
          · exact Or.inl hq
          · rcases hcalm with h1 | h1
            · exact absurd h1 hq
            · exact Or.inr ⟨h1, hheld hq d List.mem_cons_self⟩
        obtain ⟨e1, e2, e3, e4, e5⟩ := perfDay_net_flow hf hc (hplain d List.mem_cons_self) hprev hn hd
        intro q hq
        rcases List.mem_cons.mp hq with rfl | hq
        · exact ⟨e1, e2⟩
        · simp only [List.tail_cons] at htail
          exact ih ps1 perfs' hr (fun d' hd' => hplain d' (List.mem_cons_of_mem _ hd')) e3
            (fun _ d' hd' => htail d' hd') (fun d' hd' => htail d' (List.mem_of_mem_tail hd')) e4 e5 q hq

end Knut.Performance
