package main

import (
	"go/ast"
	"path/filepath"
)

// extractFactsC19: the statement shape of the get-or-create functions of the shared registries
// (lib/model/commodity/registry.go Get, lib/model/account/registry.go getOrCreatePath). Lean's FactsAgree/C19 checks
// that the write-locked section looks the name up again before it writes (the `recheck = true` of Model/Registry).
func extractFactsC19(o *factOut, repo string) {
	for _, x := range []struct{ fact, file, fn string }{
		{"commodityGetShape", "lib/model/commodity/registry.go", "Get"},
		{"accountGetShape", "lib/model/account/registry.go", "Get"},
		{"accountGetOrCreateShape", "lib/model/account/registry.go", "getOrCreatePath"},
	} {
		ff, err := parseGo(filepath.Join(repo, x.file))
		if err != nil {
			o.missing(x.fact, err.Error())
			continue
		}
		fd := ff.funcDecl(x.fn)
		if fd == nil || fd.Body == nil {
			o.missing(x.fact, "no function "+x.fn)
			continue
		}
		o.def(x.fact, "List String", leanStrList(c19Shape(fd.Body.List)))
	}
}

func c19IsLookup(e ast.Expr) bool {
	switch v := e.(type) {
	case *ast.IndexExpr:
		return true
	case *ast.CallExpr:
		if s, ok := v.Fun.(*ast.SelectorExpr); ok && (s.Sel.Name == "GetPath" || s.Sel.Name == "Get") {
			return true
		}
	}
	return false
}

func c19Writes(n ast.Node) bool {
	w := false
	ast.Inspect(n, func(n ast.Node) bool {
		switch v := n.(type) {
		case *ast.AssignStmt:
			for _, l := range v.Lhs {
				if _, ok := l.(*ast.IndexExpr); ok {
					w = true
				}
			}
		case *ast.CallExpr:
			switch f := v.Fun.(type) {
			case *ast.SelectorExpr:
				if f.Sel.Name == "insert" || f.Sel.Name == "Create" {
					w = true
				}
			case *ast.Ident:
				if f.Name == "insert" {
					w = true
				}
			}
		}
		return true
	})
	return w
}

func c19Returns(b *ast.BlockStmt) bool {
	if b == nil || len(b.List) == 0 {
		return false
	}
	_, ok := b.List[len(b.List)-1].(*ast.ReturnStmt)
	return ok
}

func c19Shape(stmts []ast.Stmt) []string {
	var res []string
	for _, st := range stmts {
		tok := "other"
		switch v := st.(type) {
		case *ast.ExprStmt:
			if c, ok := v.X.(*ast.CallExpr); ok {
				if s, ok := c.Fun.(*ast.SelectorExpr); ok {
					switch s.Sel.Name {
					case "RLock", "RUnlock", "Lock", "Unlock":
						tok = s.Sel.Name
					}
				}
			}
		case *ast.DeferStmt:
			if s, ok := v.Call.Fun.(*ast.SelectorExpr); ok && s.Sel.Name == "Unlock" {
				tok = "deferUnlock"
			}
		case *ast.AssignStmt:
			if len(v.Rhs) == 1 && c19IsLookup(v.Rhs[0]) && !c19Writes(v) {
				tok = "lookup"
			}
		case *ast.IfStmt:
			if a, ok := v.Init.(*ast.AssignStmt); ok && len(a.Rhs) == 1 && c19IsLookup(a.Rhs[0]) && c19Returns(v.Body) && !c19Writes(v) {
				tok = "lookup-return"
			} else if id, ok := v.Cond.(*ast.Ident); ok && id.Name == "ok" && v.Init == nil && c19Returns(v.Body) && !c19Writes(v) {
				tok = "return-if-found"
			} else if !c19Writes(v) {
				tok = "check"
			}
		case *ast.ReturnStmt:
			tok = "return"
			if len(v.Results) > 0 {
				if c, ok := v.Results[0].(*ast.CallExpr); ok {
					tok = "return " + callName(c)
				}
			}
		}
		if tok == "other" || tok == "check" {
			if c19Writes(st) {
				tok = "write"
			}
		}
		if tok == "return-if-found" && len(res) > 0 && res[len(res)-1] == "lookup" {
			res[len(res)-1] = "lookup-return"
			continue
		}
		res = append(res, tok)
	}
	return res
}
