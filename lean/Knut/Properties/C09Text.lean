import Knut.Proofs.PrintParseTx
import Knut.Proofs.PrintLoaded
/-!
# C09 (text level) — what `journal.Print` writes is read back by the loader as the same directive

`loadText path bytes` (`Model/FromSyntax.lean`) is the parser model (C07) followed by the elaboration of every
directive (`time.Parse`, `decimal.NewFromString`, the account registry, `transaction.Create`);
`printOpen`/`printClose`/`printPrice`/`printAssertions` are the printer model (`Model/JournalPrinter.lean`).
`strBytes s` is the UTF-8 encoding of the Lean string `s` (`strBytes_toUTF8 : s.toUTF8.data.toList = strBytes s`).

Proved here, for EVERY printable directive (no bound on sizes, any Unicode letters/digits in names):
a printed `open`, `close`, `price`, single- or multi-balance `balance` directive loads back to exactly that
directive. `Printable…` are decidable and state what the real scanner needs:
* dates 0000-01-01 … 9999-12-31, the range of `time.Parse("2006-01-02")` (`PrintableDate`);
* accounts: first segment an account type, every segment non-empty and of `unicode.IsLetter/IsDigit` characters
  (`PrintableAccount`); commodities likewise one non-empty run (`okName`);
* amounts: decimal rationals (`PrintableQty`: the denominator divides a power of ten), as `String()` prints exactly those;
* assertions: at least one balance (the printer writes `balance` and nothing else for an empty list, which does not parse).

`C09_text_items` is the engine for whole files: a text that is a rendering of *items* (directives in canonical layout,
comment and blank lines) parses, and loads to the elaboration of the items' field views, in order.

`C09_text_transaction`: a printed transaction (any padding, with or without `@performance` targets, any Unicode
description without `"`) loads back to exactly that transaction, provided it is in the booking normal form of
`C09_booking_normal_form` (its posting list is what the printed bookings rebuild; negative bookings are thereby
covered: the printer writes the swapped accounts and the positive amount). The printer's `"`→`'` replacement
(`JournalPrinter.descText`, character-wise as Go's `strings.ReplaceAll` on one ASCII byte) is the identity on such a
description (`descText_id`); `PrintableTx` is decidable.

**Whole journals** (`C09_text_journal_fixpoint`): for every printable journal `j` (`PrintableJournal`, decidable: days in
strictly increasing date order, no day empty, every directive filed under its own date and printable) the text
`journal.Print` writes is loaded back - parser model, elaboration, `transaction.Create` - as exactly the directives of `j`,
day by day in print order; `journal.Builder` makes of them the days of `j` with the transactions in `journal.Sort` order;
and printing that journal gives the same text again. Ingredients (`Proofs/PrintJournal.lean`, `PrintRebuild.lean`,
`PrintSort.lean`, `PrintLoaded.lean`): `print j` is a rendering of items (one `dir` item per directive, `gap` items for the
blank lines; a multi-balance assertion is closed by the blank line that follows it), `transaction.Compare` is a total
preorder (`Std.TransCmp`), so the stable sort is idempotent, and the padding is a maximum over all postings.
The hypothesis is what the builder produces (`C09_text_built_printable`, `C09_text_built_shape`) and what
`transaction.Create` builds (`C09_text_created_normal_form`, `C09_text_loaded_normal_form`).
-/
namespace Knut.C09
open Knut Knut.FromSyntax Knut.JournalPrinter Knut.Utf8 Knut.Syntax

/-- `open` -/
theorem C09_text_open (path : String) (o : Open) (hd : PrintableDate o.date) (ha : PrintableAccount o.account = true) :
    loadText path (strBytes (printOpen o)) = .ok [.opening o] := load_open path o hd ha

/-- `close` -/
theorem C09_text_close (path : String) (c : Close) (hd : PrintableDate c.date) (ha : PrintableAccount c.account = true) :
    loadText path (strBytes (printClose c)) = .ok [.closing c] := load_close path c hd ha

/-- `price` -/
theorem C09_text_price (path : String) (p : Price) (hd : PrintableDate p.date) (hc : okName p.commodity = true)
    (hq : PrintableQty p.price) (ht : okName p.target = true) :
    loadText path (strBytes (printPrice p)) = .ok [.price p] := load_price path p hd hc hq ht

/-- `balance`, one balance on the line or several on the following lines, as `printAssertions` writes it -/
theorem C09_text_assertion (path : String) (a : Assertion) (h : PrintableAssertion a) :
    loadText path (strBytes (printAssertions [a])) = .ok [.assertion a] := load_assertion path a h

/-- a transaction as `printTx` writes it, for every padding -/
theorem C09_text_transaction (pad : Nat) (path : String) (t : Transaction) (h : PrintableTx t) :
    loadText path (strBytes (printTx pad t)) = .ok [.tx t] := load_tx pad path t h

/-- the engine for whole files: a rendering of items parses and loads to the elaboration of the items' views -/
theorem C09_text_items (padding : Nat) (path : String) (items : List Syntax.Item) (h : ItemsShape items) :
    loadText path (flat (outToks padding items)) =
      (match (viewsOf items).mapM (fun v => itemV v.bytes) with
       | none => loadFailed (okPrefix (fun v => itemV v.bytes) (viewsOf items))
       | some its => loadItems its) := loadText_rendered padding path items h

/-- the scanner sees a Lean string as its characters, for every string (UTF-8 decoding inverts `String.utf8EncodeChar`) -/
theorem C09_text_decode (s : String) : decodeAll (strBytes s) = s.toList.map charTok := decodeAll_strBytes s

/-- the bytes `loadText` gets from the driver are `strBytes` -/
theorem C09_text_bytes (s : String) : s.toUTF8.data.toList = strBytes s := strBytes_toUTF8 s

/-- **the text-level fixpoint of `knut print` for whole journals**: the printed text of a printable journal loads back to
the directives of the journal (day by day, in print order), the builder groups them into the same days with the
transactions in sort order, and printing again reproduces the text -/
theorem C09_text_journal_fixpoint (path : String) (j : List Day) (h : PrintableJournal j) :
    ∃ ds, loadText path (strBytes (print j)) = .ok ds ∧
      ds = j.flatMap (fun d => d.prices.map .price ++ d.openings.map .opening ++ (sortTxs d.transactions).map .tx ++
                              d.assertions.map .assertion ++ d.closings.map .closing) ∧
      (Builder.ofList ds).build = j.map (fun d => { d with transactions := sortTxs d.transactions }) ∧
      print (Builder.ofList ds).build = print j := by
  refine ⟨journalDirs j, load_print path j h.dirs, rfl, rebuild j h.shape, ?_⟩
  rw [rebuild j h.shape]
  exact print_normDays j

/-- `journal.Sort` is idempotent (`transaction.Compare` is a total preorder; the model sorts stably) -/
theorem C09_sort_idempotent (ts : List Transaction) : sortTxs (sortTxs ts) = sortTxs ts := sortTxs_idem ts

/-- the hypothesis is not vacuous, structural part: EVERY journal the builder produces - from any directives, in any
order - has its days in strictly increasing date order, no empty day, every directive under its own date -/
theorem C09_text_built_shape (ds : List Directive) : JournalShape (Builder.ofList ds).build := built_shape ds

/-- … and it is printable if the directives are -/
theorem C09_text_built_printable (ds : List Directive) (h : ∀ x ∈ ds, PrintableDir x) :
    PrintableJournal (Builder.ofList ds).build := printable_built ds h

/-- the directives `journal.Print` writes are a permutation of the directives the journal was built from -/
theorem C09_text_printed_perm (ds : List Directive) :
    ((Builder.ofList ds).build.flatMap (fun d => d.prices.map .price ++ d.openings.map .opening ++
      (sortTxs d.transactions).map .tx ++ d.assertions.map .assertion ++ d.closings.map .closing)).Perm ds :=
  journalDirs_built_perm ds

/-- the booking normal form `PrintableTx` asks for is what `transaction.Create` builds, with or without `@accrue` -/
theorem C09_text_created_normal_form (ti : Accrual.TxInput) (txs : List Transaction) (h : Accrual.create ti = .ok txs) :
    ∀ t ∈ txs, t.postings = (everyOther t.postings).flatMap (fun p => postingBuild p.other p.account p.commodity p.quantity) :=
  create_nf ti txs h

/-- hence every transaction the loader returns, from any text, is in booking normal form -/
theorem C09_text_loaded_normal_form (path : String) (text : List UInt8) (ds : List Directive)
    (h : loadText path text = .ok ds) (t : Transaction) (ht : Directive.tx t ∈ ds) :
    t.postings = (everyOther t.postings).flatMap (fun p => postingBuild p.other p.account p.commodity p.quantity) :=
  loadText_nf path text ds h t ht

/-! ## Non-vacuity -/

example : PrintableAccount ⟨["Assets", "Bank", "Ünïcode7"]⟩ = true := by decide +kernel
example : PrintableAccount ⟨["Bank"]⟩ = false := by decide +kernel
example : PrintableAccount ⟨["Assets", "a b"]⟩ = false := by decide +kernel
example : PrintableQty (mkRat (-5) 4) := by decide
example : ¬ PrintableQty (mkRat 1 3) := by decide
example : PrintableDate 737424 := by decide
example : PrintableDate (-366) ∧ ¬ PrintableDate (-367) ∧ PrintableDate 3652058 ∧ ¬ PrintableDate 3652059 := by decide
example : printOpen ⟨-366, ⟨["Assets", "Bank"]⟩⟩ = "0000-01-01 open Assets:Bank" := by decide

example : printOpen ⟨737424, ⟨["Assets", "Bank"]⟩⟩ = "2020-01-01 open Assets:Bank" := by decide

/-- a concrete instance of each theorem -/
example : loadText "j" (strBytes (printOpen ⟨737424, ⟨["Assets", "Bänk"]⟩⟩)) = .ok [.opening ⟨737424, ⟨["Assets", "Bänk"]⟩⟩] :=
  C09_text_open _ _ (by decide) (by decide +kernel)

example : loadText "j" (strBytes (printPrice ⟨737424, "AAPL", mkRat 12345 100, "USD"⟩)) =
    .ok [.price ⟨737424, "AAPL", mkRat 12345 100, "USD"⟩] :=
  C09_text_price _ _ (by decide) (by decide +kernel) (by decide) (by decide +kernel)

example : loadText "j" (strBytes (printAssertions [⟨737424, [⟨⟨["Assets", "A"]⟩, mkRat (-5) 2, "CHF"⟩, ⟨⟨["Liabilities", "B"]⟩, 0, "USD"⟩]⟩])) =
    .ok [.assertion ⟨737424, [⟨⟨["Assets", "A"]⟩, mkRat (-5) 2, "CHF"⟩, ⟨⟨["Liabilities", "B"]⟩, 0, "USD"⟩]⟩] :=
  C09_text_assertion _ _ ⟨by decide, by simp, by
    intro b hb
    simp only [List.mem_cons, List.not_mem_nil, or_false] at hb
    rcases hb with rfl | rfl
    · exact ⟨by decide +kernel, by decide, by decide +kernel⟩
    · exact ⟨by decide +kernel, by decide, by decide +kernel⟩⟩

/-- a transaction with a Unicode description, `@performance` targets and a negative booking (printed swapped, as 12.5) -/
def exTx : Transaction :=
  { date := 737424, description := "Café – Miete",
    postings := postingBuild ⟨["Assets", "Bank"]⟩ ⟨["Expenses", "Wohnen"]⟩ "CHF" (mkRat (-25) 2),
    targets := some ["USD", "CHF"] }

example : PrintableTx exTx := by decide +kernel

example : loadText "j" (strBytes (printTx 14 exTx)) = .ok [.tx exTx] :=
  C09_text_transaction 14 "j" exTx (by decide +kernel)

/-! ### a whole journal -/

def aBank : Account := ⟨["Assets", "Bank"]⟩
def aDepot : Account := ⟨["Assets", "Depot", "Ünïcode7"]⟩
def aSal : Account := ⟨["Income", "Salary"]⟩
def aRent : Account := ⟨["Expenses", "Wohnen"]⟩

/-- three days, every kind of directive. 2020-01-01: a price, four openings; 2020-01-02: a price, three transactions
(stored out of sort order; one booking negative, one transaction with two bookings, a two-line description and
`@performance` targets), a single-balance and then a multi-balance assertion; 2020-02-01: a multi-balance assertion
followed by a single-balance one, a closing. `knut print` of the real binary reproduces the printed text of this
journal byte for byte. -/
def exJournal : List Day :=
  [ { date := 737424, prices := [⟨737424, "AAPL", mkRat 12345 100, "USD"⟩],
      openings := [⟨737424, aBank⟩, ⟨737424, aDepot⟩, ⟨737424, aSal⟩, ⟨737424, aRent⟩] },
    { date := 737425,
      prices := [⟨737425, "USD", mkRat 9 10, "CHF"⟩],
      transactions :=
        [ { date := 737425, description := "Miete – Januar", postings := postingBuild aRent aBank "CHF" (mkRat (-25) 2) },
          { date := 737425, description := "Lohn", postings := postingBuild aSal aBank "CHF" 5000 },
          { date := 737425, description := "Kauf\nzweite Zeile", targets := some ["AAPL", "USD"],
            postings := postingBuild aBank aDepot "AAPL" 3 ++ postingBuild aBank aDepot "USD" (mkRat 37035 100) } ],
      assertions := [⟨737425, [⟨aBank, mkRat 9975 2, "CHF"⟩]⟩,
                     ⟨737425, [⟨aDepot, 3, "AAPL"⟩, ⟨aBank, mkRat (-37035) 100, "USD"⟩]⟩] },
    { date := 737455,
      assertions := [⟨737455, [⟨aDepot, 3, "AAPL"⟩, ⟨aDepot, mkRat 37035 100, "USD"⟩]⟩, ⟨737455, [⟨aBank, mkRat 9975 2, "CHF"⟩]⟩],
      closings := [⟨737455, aSal⟩] } ]

theorem exJournal_printable : PrintableJournal exJournal := by decide +kernel

/-- the theorem applies: the printed text of `exJournal` loads, rebuilds and prints to itself -/
example : ∃ ds, loadText "j" (strBytes (print exJournal)) = .ok ds ∧ ds.length = 14 ∧ print (Builder.ofList ds).build = print exJournal := by
  obtain ⟨ds, h1, h2, _, h4⟩ := C09_text_journal_fixpoint "j" exJournal exJournal_printable
  refine ⟨ds, h1, ?_, h4⟩
  rw [h2]
  simp [exJournal, sortTxs]

/-- an empty day, a directive under a wrong date, days out of order: not printable journals -/
example : ¬ PrintableJournal [{ date := 737424 }] := by decide +kernel
example : ¬ PrintableJournal [{ date := 737424, openings := [⟨737425, aBank⟩] }] := by decide +kernel
example : ¬ PrintableJournal [{ date := 737425, openings := [⟨737425, aBank⟩] }, { date := 737424, openings := [⟨737424, aSal⟩] }] := by
  decide +kernel

end Knut.C09
