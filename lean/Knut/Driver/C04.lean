import Knut.Driver.JournalWire
import Knut.Model.Check
import Knut.Spec.Lifecycle
import Knut.Model.Accrual
/-! Driver ops for C04: the checker model and the lifecycle specification on wire journals. -/
namespace Knut.Driver.C04
open Knut Knut.Wire Knut.Driver

/-- outcome of turning the loaded syntax into model directives (`model.FromStream`) -/
inductive Loaded where
  | ok (ds : List (Nat × Directive))   -- each model directive with the index of its source directive
  | error
  | panic (site : String)

def parseIv (s : String) : Option Interval :=
  if s = "daily" then some .daily else if s = "weekly" then some .weekly
  else if s = "monthly" then some .monthly else if s = "quarterly" then some .quarterly else none

/-- model directives of a raw journal: transactions go through `transaction.Create` (accrual expansion, Model/Accrual) -/
def load (raw : List RawDirective) : Loaded :=
  let rec go (i : Nat) (rest : List RawDirective) (acc : List (Nat × Directive)) : Loaded :=
    match rest with
    | [] => .ok acc.reverse
    | d :: tl =>
      match d with
      | .price p => go (i + 1) tl ((i, Directive.price p) :: acc)
      | .opening o => go (i + 1) tl ((i, .opening o) :: acc)
      | .closing c => go (i + 1) tl ((i, .closing c) :: acc)
      | .assertion a => go (i + 1) tl ((i, .assertion a) :: acc)
      | .tx date desc tg none bks => go (i + 1) tl ((i, .tx (plainTx date desc tg bks)) :: acc)
      | .tx date desc tg (some ac) bks =>
        match parseIv ac.interval with
        | none => .error
        | some iv =>
          match Accrual.create { date := date, description := desc, targets := tg,
                                 bookings := bks.map (fun b => ⟨b.credit, b.debit, b.quantity, b.commodity⟩),
                                 accrual := some ⟨iv, ac.start, ac.stop, ac.account⟩ } with
          | .ok txs => go (i + 1) tl ((txs.map (fun t => (i, Directive.tx t))).reverse ++ acc)
          | .error => .error
          | .panic s => .panic s
  go 0 raw []

/-- the directives only; `none` on a load error or panic -/
def toDirectives (raw : List RawDirective) : Option (List Directive) :=
  match load raw with
  | .ok ds => some (ds.map (·.2))
  | _ => none

def kindName : CheckErrKind → String
  | .alreadyOpen => "already-open" | .notOpen => "not-open"
  | .failedAssertion => "failed-assertion" | .nonzeroPosition => "nonzero-position"

def indexOfDir (ds : List Directive) (d : Directive) : Nat := (ds.findIdx (· == d))

def hasNonzeroNonALAssertion (ds : List Directive) : Bool :=
  ds.any (fun d => match d with
    | .assertion a => a.balances.any (fun b => !b.account.isAL && b.quantity ≠ 0)
    | _ => false)

def handle (fields : List String) : Option String :=
  match fields with
  | ["check", j] => some (
    match (parseJournal j).map load with
    | none => "bad-journal"
    | some .error => "load-error"
    | some (.panic s) => "panic " ++ s
    | some (.ok ids) =>
      let ds := ids.map (·.2)
      let days := (Builder.ofList ds).build
      match Check.run days with
      | .ok _ => "ok"
      | .error e => s!"error {kindName e.kind} {(ids[indexOfDir ds e.directive]?.map (·.1)).getD 0}")
  | ["c04mon", j, verdict, offender] => some (
    -- property predicate on the implementation's verdict: accepted ⇔ well-formed (lenient spec), and the
    -- named directive is the specification's offender
    match (parseJournal j).map load with
    | none => "bad-journal"
    | some .error => (if verdict == "load-error" then "ok" else "fail spec=load-error")
    | some (.panic s) => "fail spec=panic " ++ s
    | some (.ok ids) =>
      let ds := ids.map (·.2)
      let srcIdx (d : Directive) : Nat := (ids[indexOfDir ds d]?.map (·.1)).getD 0
      let days := (Builder.ofList ds).build
      let lenient := Spec.verdict false days
      let strict := Spec.verdict true days
      let toks := splitOn j '|'
      -- the named directive is compared as a wire token, so that identical duplicates count as the same
      let sameDir (i : Nat) (d : Directive) : Bool := toks[i]? == toks[srcIdx d]?
      let agrees (v : Except Directive Spec.LState) : Bool :=
        match v with
        | .ok _ => verdict == "ok"
        | .error d => verdict == "error" && (match offender.toNat? with | some i => sameDir i d | none => offender == "-")
      if agrees lenient then "ok"
      else if agrees strict && hasNonzeroNonALAssertion ds then "known assertion-on-non-AL-account"
      else
        match lenient with
        | .ok _ => "fail spec=ok"
        | .error d => s!"fail spec=error {srcIdx d}")
  | _ => none

end Knut.Driver.C04
