import Knut.FactsAgree.TransWeightsQueryDays
import Knut.FactsAgree.TransProcessAllWeights
/-!
# The ORDER hypothesis of `Query_days_agrees_of_order` discharged

`TransWeightsQuery.Query_DayEnd_agrees_of_order` assumed `hord`: `dict.SortedKeys(d.Performance.V1, commodity.Compare)` visits the
commodities in the order in which the model lists `v1`.  The model's `v1` (`Performance.valuesDay`: `AMap.set`/`erase` posting by
posting) is in INSERTION order, not sorted by name, so `hord` is false in general for the days of `perfDaysV` (two postings in the
commodities `B`, `A` in this order: the model lists `[B, A]`, Go visits `[A, B]`).  What holds instead, and is proved here:

* **`sortedKeys_V1`**: from what the composition knows about the `V1` that reaches the query (`PEq`: lookups agree, keys are converted
  model keys, no key twice) the sorted key list IS the model's `v1` re-listed by commodity name (`sortV`), converted;
* **`queryFrom_perm`**: the model's `queryFrom` on days whose `v1` are re-listed (any permutation; keys are distinct) from universes with
  the same lookups yields a PERMUTATION of the adds (day by day: `dayAdds_perm`), and fails (zero total) on the same inputs.  The reason:
  one step of the day's loop (`shortenPath`) reads and writes the universe at its own commodity only (`shortenPath_fst_congr`,
  `shortenPath_snd_other`, `shortenPath_snd_self`), and every commodity occurs once per day;
* **`Query_days_agrees`**: hence for days related by `DayRelW` (what `processAllWeights_agrees` delivers) WITHOUT any order hypothesis:
  the Go query hands to the translated `Report.Add` the adds of the model's `queryFrom` on the re-listed days — a permutation `adds'` of
  the model's `adds` (each day's adds in the order of `commodity.Compare`); the model fails with a zero total iff Go's run is
  `F64.undefined`.
-/
namespace Knut.FactsAgree.TransWeightsQueryOrder
open Knut Knut.GoSem Knut.MapSum
open Knut.Generated.Go
open Knut.FactsAgree.TransPosting (commodityGo)
open Knut.FactsAgree.TransPerformance
open Knut.FactsAgree.TransMapping
open Knut.FactsAgree.TransProcess (AllRel)
open Knut.FactsAgree.TransProcessAllWeights (DayRelW)
open Knut.FactsAgree.TransWeights (addAll)
open Knut.FactsAgree.TransWeightsQuery

/-! ## the Go side: the sorted keys of `V1` are the model's `v1` re-listed by name -/

/-- the model's per-commodity map re-listed by commodity name -/
def sortV (v1 : AMap Knut.Commodity Rat) : AMap Knut.Commodity Rat := v1.mergeSort (fun a b => decide (a.1 ≤ b.1))

theorem sortV_perm (v1 : AMap Knut.Commodity Rat) : (sortV v1).Perm v1 := List.mergeSort_perm _ _

theorem find?_of_mem {κ ν : Type} [DecidableEq κ] : ∀ (m : AMap κ ν), NodupKeys m → ∀ e ∈ m, AMap.find? m e.1 = some e.2 := by
  intro m
  induction m with
  | nil => intro _ e h; cases h
  | cons x rest ih =>
    intro hn e h
    obtain ⟨a, b⟩ := x
    have hn' : a ∉ rest.map Prod.fst ∧ NodupKeys rest := by simpa [NodupKeys] using hn
    rcases List.mem_cons.mp h with h | h
    · subst h; simp [AMap.find?]
    · have : a ≠ e.1 := fun e' => hn'.1 (e' ▸ List.mem_map_of_mem h)
      simp only [AMap.find?, this, if_false]
      exact ih hn'.2 e h

theorem mem_of_find? {κ ν : Type} [DecidableEq κ] : ∀ (m : AMap κ ν) (k : κ) (v : ν), AMap.find? m k = some v → (k, v) ∈ m := by
  intro m
  induction m with
  | nil => intro k v h; simp [AMap.find?] at h
  | cons x rest ih =>
    intro k v h
    obtain ⟨a, b⟩ := x
    simp only [AMap.find?] at h
    by_cases hk : a = k
    · simp only [hk, if_true, Option.some.injEq] at h; subst hk; subst h; exact List.mem_cons_self
    · simp only [hk, if_false] at h; exact List.mem_cons_of_mem _ (ih k v h)

/-- lookups do not see the listing order of a map without repeated keys -/
theorem find?_perm {κ ν : Type} [DecidableEq κ] {m m' : AMap κ ν} (hp : m.Perm m') (hn : NodupKeys m) (k : κ) :
    AMap.find? m k = AMap.find? m' k := by
  have hn' : NodupKeys m' := (hp.map Prod.fst).nodup_iff.mp hn
  cases h : AMap.find? m k with
  | none =>
    have : k ∉ m'.map Prod.fst := by
      intro hk
      have hk' : k ∈ m.map Prod.fst := (hp.map Prod.fst).mem_iff.mpr hk
      have := find?_isSome_of_mem_keys hk'
      rw [h] at this
      cases this
    exact (find?_eq_none_of_not_mem m' k this).symm
  | some v =>
    have := find?_of_mem m' hn' (k, v) (hp.mem_iff.mp (mem_of_find? m k v h))
    exact this.symm

theorem PEq_sortV (cur : String → Bool) {g : AMap commodity.Commodity Rat} {v1 : AMap Knut.Commodity Rat} (h : PEq cur g v1) :
    PEq cur g (sortV v1) :=
  ⟨fun c => (h.lookup c).trans (find?_perm (sortV_perm v1).symm h.mnodup c), h.keys, h.gnodup,
    ((sortV_perm v1).map Prod.fst).nodup_iff.mpr h.mnodup⟩

/-- the keys of the Go map are the converted keys of the model's -/
theorem keys_perm (cur : String → Bool) {g : AMap commodity.Commodity Rat} {v1 : AMap Knut.Commodity Rat} (h : PEq cur g v1) :
    (g.map Prod.fst).Perm (v1.map (fun e => commodityGo cur e.1)) := by
  have hn2 : (v1.map (fun e => commodityGo cur e.1)).Nodup := by
    have : (v1.map (fun e => commodityGo cur e.1)) = (v1.map Prod.fst).map (commodityGo cur) := by
      rw [List.map_map]; rfl
    rw [this]
    have hm : (v1.map Prod.fst).Nodup := h.mnodup
    unfold List.Nodup at hm ⊢
    rw [List.pairwise_map]
    exact hm.imp (fun hne e => hne (cinj cur _ _ e))
  rw [List.perm_ext_iff_of_nodup h.gnodup hn2]
  intro k
  constructor
  · intro hk
    have hs := find?_isSome_of_mem_keys hk
    obtain ⟨c, rfl⟩ := h.keys k hs
    rw [h.lookup c] at hs
    have hc := mem_keys_of_find? hs
    obtain ⟨e, he, rfl⟩ := List.mem_map.mp hc
    exact List.mem_map.mpr ⟨e, he, rfl⟩
  · intro hk
    obtain ⟨e, he, rfl⟩ := List.mem_map.mp hk
    apply mem_keys_of_find?
    rw [h.lookup e.1]
    exact find?_isSome_of_mem_keys (List.mem_map.mpr ⟨e, he, rfl⟩)

theorem Compare_le (a b : commodity.Commodity) : decide (commodity.Compare a b ≠ 1) = decide (a.name ≤ b.name) := by
  unfold commodity.Compare commodity.Commodity.Name cmpOrdered
  by_cases h1 : a.name < b.name
  · have : a.name ≤ b.name := String.not_lt.mp (String.lt_asymm h1)
    simp [h1, this]
  · by_cases h2 : b.name < a.name
    · have : ¬ a.name ≤ b.name := fun x => (String.not_lt.mpr x) h2
      simp [h1, h2, this]
    · have : a.name ≤ b.name := String.not_lt.mp h2
      simp [h1, h2, this]

/-- **`dict.SortedKeys(d.Performance.V1, commodity.Compare)`** is the model's `v1` re-listed by name — from `PEq` alone -/
theorem sortedKeys_V1 (cur : String → Bool) {g : AMap commodity.Commodity Rat} {v1 : AMap Knut.Commodity Rat} (h : PEq cur g v1) :
    sortedKeys g commodity.Compare = (sortV v1).map (fun e => commodityGo cur e.1) := by
  unfold sortedKeys
  have hle : (fun a b : commodity.Commodity => decide (commodity.Compare a b ≠ 1)) = (fun a b => decide (a.name ≤ b.name)) := by
    funext a b; exact Compare_le a b
  rw [hle]
  have htrans : ∀ a b c : commodity.Commodity, decide (a.name ≤ b.name) = true → decide (b.name ≤ c.name) = true →
      decide (a.name ≤ c.name) = true := by
    intro a b c h1 h2
    simp only [decide_eq_true_eq] at h1 h2 ⊢
    exact String.le_trans h1 h2
  have htotal : ∀ a b : commodity.Commodity, (decide (a.name ≤ b.name) || decide (b.name ≤ a.name)) = true := by
    intro a b
    simp only [Bool.or_eq_true, decide_eq_true_eq]
    exact String.le_total _ _
  have htrans' : ∀ a b c : Knut.Commodity × Rat, decide (a.1 ≤ b.1) = true → decide (b.1 ≤ c.1) = true → decide (a.1 ≤ c.1) = true := by
    intro a b c h1 h2
    simp only [decide_eq_true_eq] at h1 h2 ⊢
    exact String.le_trans h1 h2
  have htotal' : ∀ a b : Knut.Commodity × Rat, (decide (a.1 ≤ b.1) || decide (b.1 ≤ a.1)) = true := by
    intro a b
    simp only [Bool.or_eq_true, decide_eq_true_eq]
    exact String.le_total a.1 b.1
  have hperm : ((g.map Prod.fst).mergeSort (fun a b => decide (a.name ≤ b.name))).Perm
      ((sortV v1).map (fun e => commodityGo cur e.1)) :=
    ((List.mergeSort_perm _ _).trans (keys_perm cur h)).trans ((sortV_perm v1).map _).symm
  apply List.Perm.eq_of_pairwise (le := fun a b : commodity.Commodity => decide (a.name ≤ b.name) = true) _ _ _ hperm
  · intro a b ha hb h1 h2
    have ha' : a ∈ (sortV v1).map (fun e => commodityGo cur e.1) := hperm.mem_iff.mp ha
    obtain ⟨x, _, rfl⟩ := List.mem_map.mp ha'
    obtain ⟨y, _, rfl⟩ := List.mem_map.mp hb
    have : x.1 = y.1 := String.le_antisymm (of_decide_eq_true h1) (of_decide_eq_true h2)
    simp only [this]
  · exact List.pairwise_mergeSort htrans htotal _
  · rw [List.pairwise_map]
    exact List.pairwise_mergeSort htrans' htotal' _

/-! ## the model side: `queryFrom` does not depend on the listing order of `v1`, up to a permutation of the adds -/

/-- universes with the same lookups -/
def UExt (u u' : Weights.Universe) : Prop := ∀ c, AMap.find? u c = AMap.find? u' c

theorem locate_congr {u u' : Weights.Universe} (c : Knut.Commodity) (h : AMap.find? u c = AMap.find? u' c) :
    Weights.locate u c = Weights.locate u' c := by
  unfold Weights.locate; rw [h]

/-- the path of a commodity depends on the universe's entry for THIS commodity only -/
theorem shortenPath_fst_congr (m : List MapRule) {u u' : Weights.Universe} (c : Knut.Commodity)
    (h : AMap.find? u c = AMap.find? u' c) : (Weights.shortenPath m u c).1 = (Weights.shortenPath m u' c).1 := by
  rw [shortenPath_eq, shortenPath_eq, locate_congr c h]

/-- the write goes to the entry of THIS commodity only -/
theorem shortenPath_snd_other (m : List MapRule) (u : Weights.Universe) (c c' : Knut.Commodity) (hne : c ≠ c') :
    AMap.find? (Weights.shortenPath m u c).2 c' = AMap.find? u c' := by
  rw [shortenPath_eq]
  simp only
  split
  · rw [AMap.find?_set]; simp [hne]
  · rfl

/-- and what is written depends on that entry only -/
theorem shortenPath_snd_self (m : List MapRule) {u u' : Weights.Universe} (c : Knut.Commodity)
    (h : AMap.find? u c = AMap.find? u' c) :
    AMap.find? (Weights.shortenPath m u c).2 c = AMap.find? (Weights.shortenPath m u' c).2 c := by
  rw [shortenPath_eq, shortenPath_eq, locate_congr c h]
  simp only
  generalize (shortenModel (Weights.locate u' c) (mappingLevel m (String.intercalate ":" (Weights.locate u' c)))).2 = wr
  cases wr with
  | none => simpa using h
  | some arr =>
    cases h1 : AMap.find? u c with
    | none =>
      rw [h1] at h
      rw [← h]
      simp only [h1, ← h]
    | some x =>
      rw [h1] at h
      rw [← h]
      simp only [AMap.find?_set, if_true]

/-- the adds of a day in closed form: every path is computed from the universe at the START of the day -/
theorem dayAdds_fst (m : List MapRule) (date : Int) (T : Rat) : ∀ (l : List (Knut.Commodity × Rat)) (u : Weights.Universe),
    NodupKeys l →
    (dayAdds m date T u l).1 = l.map (fun e => ({ path := (Weights.shortenPath m u e.1).1, date := date, weight := e.2 / T } : Weights.Add)) := by
  intro l
  induction l with
  | nil => intro u _; rfl
  | cons e l ih =>
    intro u hn
    have hn' : e.1 ∉ l.map Prod.fst ∧ NodupKeys l := by simpa [NodupKeys] using hn
    simp only [dayAdds, List.map_cons, List.cons.injEq, true_and]
    rw [ih _ hn'.2]
    apply List.map_congr_left
    intro e' he'
    have hne : e.1 ≠ e'.1 := fun h => hn'.1 (h ▸ List.mem_map_of_mem he')
    rw [shortenPath_fst_congr m e'.1 (shortenPath_snd_other m u e.1 e'.1 hne)]

/-- the universe after a day in closed form -/
theorem dayAdds_snd (m : List MapRule) (date : Int) (T : Rat) : ∀ (l : List (Knut.Commodity × Rat)) (u : Weights.Universe),
    NodupKeys l → ∀ c, AMap.find? (dayAdds m date T u l).2 c =
      if c ∈ l.map Prod.fst then AMap.find? (Weights.shortenPath m u c).2 c else AMap.find? u c := by
  intro l
  induction l with
  | nil => intro u _ c; simp [dayAdds]
  | cons e l ih =>
    intro u hn c
    have hn' : e.1 ∉ l.map Prod.fst ∧ NodupKeys l := by simpa [NodupKeys] using hn
    simp only [dayAdds]
    rw [ih _ hn'.2 c]
    by_cases hc : c = e.1
    · subst hc
      simp [hn'.1]
    · have hne : e.1 ≠ c := fun h => hc h.symm
      by_cases hm : c ∈ l.map Prod.fst
      · have : c ∈ (e :: l).map Prod.fst := List.mem_cons_of_mem _ hm
        simp only [hm, this, if_true]
        exact shortenPath_snd_self m c (shortenPath_snd_other m u e.1 c hne)
      · have : c ∉ (e :: l).map Prod.fst := by
          simp only [List.map_cons, List.mem_cons, not_or]; exact ⟨hc, hm⟩
        simp only [hm, this, if_false]
        exact shortenPath_snd_other m u e.1 c hne

/-- **a day's loop over a re-listed `v1`**: the adds are permuted, the universe ends with the same lookups -/
theorem dayAdds_perm (m : List MapRule) (date : Int) (T : Rat) {l l' : List (Knut.Commodity × Rat)} (hp : l.Perm l')
    (hn : NodupKeys l) {u u' : Weights.Universe} (hu : UExt u u') :
    (dayAdds m date T u l).1.Perm (dayAdds m date T u' l').1 ∧ UExt (dayAdds m date T u l).2 (dayAdds m date T u' l').2 := by
  have hn' : NodupKeys l' := (hp.map Prod.fst).nodup_iff.mp hn
  constructor
  · rw [dayAdds_fst m date T l u hn, dayAdds_fst m date T l' u' hn']
    have : (fun e : Knut.Commodity × Rat => ({ path := (Weights.shortenPath m u e.1).1, date := date, weight := e.2 / T } : Weights.Add)) =
        (fun e => { path := (Weights.shortenPath m u' e.1).1, date := date, weight := e.2 / T }) := by
      funext e; rw [shortenPath_fst_congr m e.1 (hu e.1)]
    rw [this]
    exact hp.map _
  · intro c
    rw [dayAdds_snd m date T l u hn, dayAdds_snd m date T l' u' hn']
    have hiff : c ∈ l.map Prod.fst ↔ c ∈ l'.map Prod.fst := (hp.map Prod.fst).mem_iff
    by_cases hc : c ∈ l.map Prod.fst
    · simp only [hc, hiff.mp hc, if_true]
      exact shortenPath_snd_self m c (hu c)
    · have : c ∉ l'.map Prod.fst := fun h => hc (hiff.mpr h)
      simp only [hc, this, if_false]
      exact hu c

/-- the outcomes of the model's query on two inputs: both undefined, or the adds permuted -/
def OutRel {β : Type} (R : β → β → Prop) : Option β → Option β → Prop
  | some a, some b => R a b
  | none, none => True
  | _, _ => False

theorem queryDay_perm (m : List MapRule) (date : Int) {v v' : AMap Knut.Commodity Rat} (hp : v.Perm v') (hn : NodupKeys v)
    {u u' : Weights.Universe} (hu : UExt u u') :
    OutRel (fun a b => a.1.Perm b.1 ∧ UExt a.2 b.2) (Weights.queryDay m u date v) (Weights.queryDay m u' date v') := by
  rw [queryDay_eq, queryDay_eq]
  have hs : Performance.sumVals v = Performance.sumVals v' := sum_perm (hp.map _)
  have he : v.isEmpty = v'.isEmpty := by
    have := hp.length_eq
    cases v <;> cases v' <;> simp at this ⊢
  rw [← he, ← hs]
  by_cases h1 : v.isEmpty = true
  · simp only [h1, if_true]
    exact ⟨List.Perm.refl _, hu⟩
  · simp only [h1, Bool.false_eq_true, if_false]
    by_cases h2 : Performance.sumVals v = 0
    · simp only [h2, if_true]; trivial
    · simp only [h2, if_false]
      exact dayAdds_perm m date _ hp hn hu

/-- two model days with the same date whose `v1` are listings of the same map -/
def VRel (dp dp' : Performance.DayPerf) : Prop := dp.date = dp'.date ∧ dp.v1.Perm dp'.v1 ∧ NodupKeys dp.v1

/-- **the model's `queryFrom` over re-listed days**: undefined on the same inputs, otherwise the adds are permuted -/
theorem queryFrom_perm (m : List MapRule) (endDates : List Int) {ps ps' : List Performance.DayPerf} (h : AllRel VRel ps ps') :
    ∀ (u u' : Weights.Universe), UExt u u' →
      OutRel List.Perm (Weights.queryFrom m endDates u ps) (Weights.queryFrom m endDates u' ps') := by
  induction h with
  | nil => intro u u' _; exact List.Perm.refl _
  | @cons dp dp' ps ps' hd _ ih =>
    intro u u' hu
    obtain ⟨hdate, hp, hn⟩ := hd
    unfold Weights.queryFrom
    rw [← hdate]
    by_cases hc : endDates.contains dp.date = true
    · simp only [hc, if_true]
      have key := queryDay_perm m dp.date hp hn hu
      cases h1 : Weights.queryDay m u dp.date dp.v1 with
      | none =>
        cases h2 : Weights.queryDay m u' dp.date dp'.v1 with
        | none => trivial
        | some b => rw [h1, h2] at key; exact key.elim
      | some a =>
        cases h2 : Weights.queryDay m u' dp.date dp'.v1 with
        | none => rw [h1, h2] at key; exact key.elim
        | some b =>
          rw [h1, h2] at key
          obtain ⟨a1, w⟩ := a
          obtain ⟨b1, w'⟩ := b
          have ih' := ih w w' key.2
          simp only
          cases h3 : Weights.queryFrom m endDates w ps with
          | none =>
            cases h4 : Weights.queryFrom m endDates w' ps' with
            | none => trivial
            | some y => rw [h3, h4] at ih'; exact ih'.elim
          | some x =>
            cases h4 : Weights.queryFrom m endDates w' ps' with
            | none => rw [h3, h4] at ih'; exact ih'.elim
            | some y =>
              rw [h3, h4] at ih'
              exact List.Perm.append key.1 ih'
    · simp only [hc, Bool.false_eq_true, if_false]
      exact ih u u' hu

/-! ## together -/

/-- a model day with `v1` re-listed by commodity name -/
def sortDP (dp : Performance.DayPerf) : Performance.DayPerf := { dp with v1 := sortV dp.v1 }

/-- the days `DayRelW` relates to the model's days are related, WITH the order clause, to the re-listed days -/
theorem allRel_sorted (cur : String → Bool) {out : List journal.Day} {perfs : List Performance.DayPerf}
    (h : AllRel (DayRelW cur) out perfs) :
    AllRel (DayRelQ cur) out (perfs.map sortDP) ∧ AllRel VRel perfs (perfs.map sortDP) := by
  induction h with
  | nil => exact ⟨.nil, .nil⟩
  | cons hab _ ih =>
    obtain ⟨hd, p, hp, _, hv1⟩ := hab
    exact ⟨.cons ⟨hd, p, hp, PEq_sortV cur hv1, sortedKeys_V1 cur hv1⟩ ih.1,
      .cons ⟨rfl, (sortV_perm _).symm, hv1.mnodup⟩ ih.2⟩

/-- **`weights.Query.Execute` over the days of a journal against the model's `queryFrom`, WITHOUT an order hypothesis**: on days that
carry the model's `v1` by lookups (`DayRelW`), the report receives through the translated `Report.Add` a permutation `adds'` of the
model's adds — the adds of the model's own `queryFrom` on the days re-listed by commodity name — and the model is undefined (zero
total on a period-end day) exactly when the Go run is `F64.undefined` -/
theorem Query_days_agrees (cur : String → Bool) (endDates : List Int) (days : List journal.Day)
    (perfs : List Performance.DayPerf) (hrel : AllRel (DayRelW cur) days perfs)
    (q : weights.Query) (r : weights.Report) (u : Weights.Universe) (hu : UEq cur q.Universe u) (hm : ∀ r ∈ q.Mapping, RuleOK r) :
    match Weights.queryFrom (q.Mapping.map ruleOf) endDates u perfs with
    | none => goQuery endDates (q, r) days = .panic F64.undefined
    | some adds => ∃ q' adds', adds'.Perm adds ∧
        Weights.queryFrom (q.Mapping.map ruleOf) endDates u (perfs.map sortDP) = some adds' ∧
        goQuery endDates (q, r) days = GoSem.Outcome.bind (addAll r adds') (fun r' => .ok (q', r')) ∧
        q'.Mapping = q.Mapping ∧ q'.Partition = q.Partition := by
  obtain ⟨hq, hv⟩ := allRel_sorted cur hrel
  have key := Query_days_agrees_of_order cur endDates days _ hq q r u hu hm
  have hperm := queryFrom_perm (q.Mapping.map ruleOf) endDates hv u u (fun _ => rfl)
  cases h1 : Weights.queryFrom (q.Mapping.map ruleOf) endDates u perfs with
  | none =>
    cases h2 : Weights.queryFrom (q.Mapping.map ruleOf) endDates u (perfs.map sortDP) with
    | none => rw [h2] at key; exact key
    | some b => rw [h1, h2] at hperm; exact hperm.elim
  | some adds =>
    cases h2 : Weights.queryFrom (q.Mapping.map ruleOf) endDates u (perfs.map sortDP) with
    | none => rw [h1, h2] at hperm; exact hperm.elim
    | some adds' =>
      rw [h1, h2] at hperm
      rw [h2] at key
      obtain ⟨q', hgo, hm', hp'⟩ := key
      exact ⟨q', adds', hperm.symm, rfl, hgo, hm', hp'⟩

end Knut.FactsAgree.TransWeightsQueryOrder
