import Knut.FactsAgree.TransReportTotals
import Knut.FactsAgree.TransPrice
/-!
# `Report.SortWeighted`: the weights (translated `computeWeights` under `PostOrder`) are the model's `weight`

`computeWeights` runs in post-order: a node's weight is minus the absolute value of the sum of its own VALUED amounts
(`SumOver(k.Valuation != nil)`) plus the weights of its children (a `range` over the map of children).  Two iteration orders
per node and the order of the children of every node are parameters of the translated function.  `weights_agrees`: for EVERY
such orders, the traversal changes nothing but the weights, and the weight of the node of a path is
`BalanceReport.weight valued es fuel path` for every fuel that is at least the node's height.
-/
namespace Knut.FactsAgree.TransReport
open Knut Knut.GoSem
open Knut.Generated.Go
open Knut.FactsAgree.TransAmountsSum
open Knut.FactsAgree.TransQuery (entryOf)

/-- the node of a path, whatever its account and weight (`Report.SetAccounts`, which is not translated, gives the nodes without
inserts of their own the account of their path before the weights are computed) -/
structure Local0 (L : Log) (p : List String) (n : Node) : Prop where
  segment : n.Segment = p.getLast?.getD ""
  amounts : n.Value.Amounts = amountsOf (ownL L p)
  nodup : (AMap.keys n.Children).Nodup
  children : ∀ s, s ∈ AMap.keys n.Children ↔ ∃ e ∈ L, (p ++ [s]).isPrefixOf e.1.Account.segments = true

def RepAt0 (L : Log) (p : List String) (n : Node) : Prop := ∀ q m, MNode.nodeAt? n q = some m → Local0 L (p ++ q) m

theorem RepAt.to0 {L : Log} {p : List String} {n : Node} (h : RepAt L p n) : RepAt0 L p n :=
  fun q m hm => let l := h q m hm; ⟨l.segment, l.amounts, l.nodup, l.children⟩

theorem RepAt0_child {L : Log} {p : List String} {n : Node} (h : RepAt0 L p n) {s : String} {c : Node}
    (hc : AMap.find? n.Children s = some c) : RepAt0 L (p ++ [s]) c := by
  intro q m hm
  have : MNode.nodeAt? n (s :: q) = some m := by rw [MNode.nodeAt?_cons, hc]; exact hm
  simpa [List.append_assoc] using h (s :: q) m this

/-- the accounts of `n'` are those of `n` -/
def AccSame (n n' : Node) : Prop :=
  ∀ q m', MNode.nodeAt? n' q = some m' → ∃ m, MNode.nodeAt? n q = some m ∧ m'.Value.Account = m.Value.Account

theorem AccSame_refl (n : Node) : AccSame n n := fun _ m' h => ⟨m', h, rfl⟩

/-- the node of a path after the weights have been computed: the weight is the model's -/
structure LocalW (valued : Bool) (L : Log) (p : List String) (n : Node) : Prop where
  segment : n.Segment = p.getLast?.getD ""
  amounts : n.Value.Amounts = amountsOf (ownL L p)
  nodup : (AMap.keys n.Children).Nodup
  children : ∀ s, s ∈ AMap.keys n.Children ↔ ∃ e ∈ L, (p ++ [s]).isPrefixOf e.1.Account.segments = true
  weight : ∀ f, MNode.height n ≤ f → n.Value.Weight = BalanceReport.weight valued (esOf L) f p

def RepAtW (valued : Bool) (L : Log) (p : List String) (n : Node) : Prop :=
  ∀ q m, MNode.nodeAt? n q = some m → LocalW valued L (p ++ q) m

theorem RepAtW_child {valued : Bool} {L : Log} {p : List String} {n : Node} (h : RepAtW valued L p n) {s : String} {c : Node}
    (hc : AMap.find? n.Children s = some c) : RepAtW valued L (p ++ [s]) c := by
  intro q m hm
  have : MNode.nodeAt? n (s :: q) = some m := by rw [MNode.nodeAt?_cons, hc]; exact hm
  simpa [List.append_assoc] using h (s :: q) m this

theorem abs_eq (a : Rat) : GoSem.Decimal.Abs a = Rat.abs a := by
  unfold Rat.abs
  simp only [GoSem.Decimal.Abs]
  by_cases h : a < 0
  · have : ¬ 0 ≤ a := Rat.not_le.2 h
    simp [h, this]
  · have : 0 ≤ a := Rat.not_lt.1 h
    simp [h, this]

/-- the loop of `computeWeights` over the children: the weights of the children that exist, in the given order -/
theorem range2_eq (n : Node) (items : List String) (w : Rat) :
    balance.Report.SortWeighted.post1.range2 n items w =
      GoSem.Outcome.ok (w + ((items.filter (fun s => decide (s ∈ AMap.keys n.Children))).map
        (fun s => (AMap.get n.Children s (GoZero.zero : Node)).Value.Weight)).sum) := by
  induction items generalizing w with
  | nil => simp [balance.Report.SortWeighted.post1.range2, Rat.add_zero]
  | cons s rest ih =>
    simp only [balance.Report.SortWeighted.post1.range2, find?_isSome, List.filter_cons]
    by_cases hs : s ∈ AMap.keys n.Children
    · simp only [hs, decide_true, Bool.not_true, Bool.false_eq_true, if_false, if_true, ih, GoSem.Decimal.Add, List.map_cons, List.sum_cons]
      congr 1; grind
    · simp only [hs, decide_false, Bool.not_false, if_true, ih, Bool.false_eq_true, if_false]

theorem heightL_set {cs : List (String × Node)} {k : String} {c c' : Node} (h : AMap.find? cs k = some c)
    (hh : MNode.height c' = MNode.height c) : MNode.heightL (AMap.set cs k c') = MNode.heightL cs := by
  induction cs with
  | nil => simp [AMap.find?] at h
  | cons e rest ih =>
    obtain ⟨a, b⟩ := e
    by_cases hak : a = k
    · simp only [AMap.find?, hak, if_true, Option.some.injEq] at h
      subst h
      simp only [AMap.set, hak, if_true, MNode.heightL_cons, hh]
    · simp only [AMap.find?, hak, if_false] at h
      simp only [AMap.set, hak, if_false, MNode.heightL_cons, ih h]

theorem keys_set_of_mem {κ ν : Type} [DecidableEq κ] (m : AMap κ ν) (k : κ) (v : ν) (h : k ∈ AMap.keys m) :
    AMap.keys (AMap.set m k v) = AMap.keys m := by
  rw [keys_set]; simp [h]


/-- the iteration orders of the traversal that computes the weights: every node's amounts and (twice: `PostOrder` itself and
the loop of `computeWeights`) children exactly once -/
structure WOrders (p : List String) (n : Node) (o1 : List String → List amounts.Key) (o2 ord : List String → List String) : Prop where
  amounts : ∀ q m, MNode.nodeAt? n q = some m → (o1 (p ++ q)).Perm (AMap.keys m.Value.Amounts)
  children : ∀ q m, MNode.nodeAt? n q = some m → (ord (p ++ q)).Perm (AMap.keys m.Children)
  inner : ∀ q m, MNode.nodeAt? n q = some m → (o2 (p ++ q)).Perm (AMap.keys m.Children)

theorem WOrders_child {p : List String} {n : Node} {o1 : List String → List amounts.Key} {o2 ord : List String → List String}
    (h : WOrders p n o1 o2 ord) {s : String} {c : Node} (hc : AMap.find? n.Children s = some c) : WOrders (p ++ [s]) c o1 o2 ord := by
  have key : ∀ q m, MNode.nodeAt? c q = some m → MNode.nodeAt? n (s :: q) = some m := by
    intro q m hm; rw [MNode.nodeAt?_cons, hc]; exact hm
  exact ⟨fun q m hm => by simpa [List.append_assoc] using h.amounts (s :: q) m (key q m hm),
    fun q m hm => by simpa [List.append_assoc] using h.children (s :: q) m (key q m hm),
    fun q m hm => by simpa [List.append_assoc] using h.inner (s :: q) m (key q m hm)⟩

/-- the children while the traversal runs: those already done carry their weights, the others are untouched -/
structure ChildInv (valued : Bool) (L : Log) (p : List String) (cs : List (String × Node)) (done : List String)
    (cs' : List (String × Node)) : Prop where
  keys : AMap.keys cs' = AMap.keys cs
  height : MNode.heightL cs' = MNode.heightL cs
  child : ∀ s c, AMap.find? cs s = some c → ∃ c', AMap.find? cs' s = some c' ∧ MNode.height c' = MNode.height c ∧
    AccSame c c' ∧ (s ∈ done → RepAtW valued L (p ++ [s]) c') ∧ (s ∉ done → c' = c)

theorem valuedSum (valued : Bool) (L : Log) (hL : ∀ e ∈ L, e.1.Account ≠ GoZero.zero)
    (hval : ∀ e ∈ L, (!decide (e.1.Valuation = (GoZero.zero : commodity.Commodity))) = valued) (p : List String) :
    logSum (ownL L p) (fun k => !decide (k.Valuation = (GoZero.zero : commodity.Commodity))) =
      if valued then BalanceReport.sumAmounts (BalanceReport.own (esOf L) p) else 0 := by
  have hown : ∀ e ∈ ownL L p, e ∈ L := fun e he => (List.mem_filter.1 he).1
  unfold logSum
  cases valued with
  | true =>
    have : (ownL L p).filter (fun e => !decide (e.1.Valuation = (GoZero.zero : commodity.Commodity))) = ownL L p :=
      List.filter_eq_self.2 (fun e he => hval e (hown e he))
    rw [this, sumAmounts_esOf _ (fun e he => hL e (hown e he)), own_esOf]; rfl
  | false =>
    have : (ownL L p).filter (fun e => !decide (e.1.Valuation = (GoZero.zero : commodity.Commodity))) = [] :=
      List.filter_eq_nil_iff.2 (fun e he => by simp [hval e (hown e he)])
    rw [this]; rfl

/-- **the traversal of a subtree**: only the weights change; they are the model's -/
theorem weights_postOrderF (valued : Bool) (L : Log) (hL : ∀ e ∈ L, e.1.Account ≠ GoZero.zero)
    (hval : ∀ e ∈ L, (!decide (e.1.Valuation = (GoZero.zero : commodity.Commodity))) = valued)
    (o1 : List String → List amounts.Key) (o2 ord : List String → List String) (fuel : Nat) :
    ∀ (p : List String) (n : Node), MNode.height n ≤ fuel → RepAt0 L p n → WOrders p n o1 o2 ord →
      ∃ n', MNode.postOrderF (balance.Report.SortWeighted.post1 o1 o2) ord fuel p () n = GoSem.Outcome.ok ((), n') ∧
        MNode.height n' = MNode.height n ∧ AccSame n n' ∧ RepAtW valued L p n' := by
  induction fuel with
  | zero =>
    intro p n hh
    obtain ⟨seg, v, cs, so⟩ := n
    rw [MNode.height_mk] at hh; omega
  | succ fuel ih =>
    intro p n hh hrep hord
    rw [MNode.postOrderF_succ]
    have hloc : Local0 L p n := by simpa using hrep [] n rfl
    have hfold : ∀ (ks done : List String) (cs' : List (String × Node)), ks.Nodup → (∀ s ∈ ks, s ∉ done) →
        ChildInv valued L p n.Children done cs' →
        ∃ cs'', GoSem.foldlE (MNode.childStep (balance.Report.SortWeighted.post1 o1 o2) ord fuel p) ((), cs') ks =
            GoSem.Outcome.ok ((), cs'') ∧ ChildInv valued L p n.Children (done ++ ks) cs'' := by
      intro ks
      induction ks with
      | nil => intro done cs' _ _ hinv; exact ⟨cs', rfl, by simpa using hinv⟩
      | cons s rest ihk =>
        intro done cs' hnd hdis hinv
        have hnd' := List.nodup_cons.1 hnd
        have hsd : s ∉ done := hdis s List.mem_cons_self
        simp only [GoSem.foldlE]
        cases hc : AMap.find? n.Children s with
        | none =>
          have hs : s ∉ AMap.keys n.Children := (find?_eq_none _ _).1 hc
          have hc' : AMap.find? cs' s = none := by rw [find?_eq_none, hinv.keys]; exact hs
          rw [MNode.childStep_none _ _ _ _ _ _ hc']
          have hinv' : ChildInv valued L p n.Children (done ++ [s]) cs' := by
            refine ⟨hinv.keys, hinv.height, fun t c ht => ?_⟩
            obtain ⟨c', h1, h2, ha, h3, h4⟩ := hinv.child t c ht
            have hts : t ≠ s := fun e => by rw [e, hc] at ht; cases ht
            exact ⟨c', h1, h2, ha, fun hm => h3 (by simpa [hts] using hm), fun hm => h4 (fun hd => hm (List.mem_append_left _ hd))⟩
          obtain ⟨cs'', g1, g2⟩ := ihk (done ++ [s]) cs' hnd'.2
            (fun t ht hm => by
              rcases List.mem_append.1 hm with hm | hm
              · exact hdis t (List.mem_cons_of_mem _ ht) hm
              · simp only [List.mem_singleton] at hm; subst hm; exact hnd'.1 ht) hinv'
          exact ⟨cs'', by simpa [GoSem.Outcome.bind] using g1, by simpa [List.append_assoc] using g2⟩
        | some c =>
          obtain ⟨c0, h1, _, _, _, h4⟩ := hinv.child s c hc
          have hc0 : c0 = c := h4 hsd
          subst hc0
          have hhc : MNode.height c0 ≤ fuel := Nat.le_of_lt_succ (Nat.lt_of_lt_of_le (MNode.height_child_lt hc) hh)
          obtain ⟨c1, e1, e2, ea, e3⟩ := ih (p ++ [s]) c0 hhc (RepAt0_child hrep hc) (WOrders_child hord hc)
          rw [MNode.childStep_some _ _ _ _ _ _ c0 h1]
          simp only [e1, GoSem.Outcome.bind]
          have hinv' : ChildInv valued L p n.Children (done ++ [s]) (AMap.set cs' s c1) := by
            refine ⟨?_, ?_, fun t c ht => ?_⟩
            · rw [keys_set_of_mem _ _ _ (mem_keys_of_find? h1)]; exact hinv.keys
            · rw [heightL_set h1 e2]; exact hinv.height
            · by_cases hts : t = s
              · subst hts
                rw [hc] at ht; cases ht
                exact ⟨c1, MNode.find?_set_self _ _ _, e2, ea, fun _ => e3, fun hm => absurd (List.mem_append_right _ List.mem_cons_self) hm⟩
              · obtain ⟨c', g1, g2, ga, g3, g4⟩ := hinv.child t c ht
                have hst : ¬ s = t := fun e => hts e.symm
                refine ⟨c', by rw [AMap.find?_set]; simp [hst, g1], g2, ga, fun hm => g3 (by simpa [hts] using hm),
                  fun hm => g4 (fun hd => hm (List.mem_append_left _ hd))⟩
          obtain ⟨cs'', g1, g2⟩ := ihk (done ++ [s]) (AMap.set cs' s c1) hnd'.2
            (fun t ht hm => by
              rcases List.mem_append.1 hm with hm | hm
              · exact hdis t (List.mem_cons_of_mem _ ht) hm
              · simp only [List.mem_singleton] at hm; subst hm; exact hnd'.1 ht) hinv'
          exact ⟨cs'', g1, by simpa [List.append_assoc] using g2⟩
    have hperm : (ord p).Perm (AMap.keys n.Children) := by simpa using hord.children [] n rfl
    have hinv0 : ChildInv valued L p n.Children [] n.Children :=
      ⟨rfl, rfl, fun s c hc => ⟨c, hc, rfl, AccSame_refl c, fun h => by simp at h, fun _ => rfl⟩⟩
    obtain ⟨cs', f1, f2⟩ := hfold (ord p) [] n.Children (hperm.nodup_iff.2 hloc.nodup) (by simp) hinv0
    rw [f1]
    simp only [GoSem.Outcome.bind, List.nil_append] at f2 ⊢
    -- the node itself
    have ho1 : (o1 p).Perm (AMap.keys (amountsOf (ownL L p))) := by
      have := hord.amounts [] n rfl; rw [hloc.amounts] at this; simpa using this
    have ho2 : (o2 p).Perm (AMap.keys n.Children) := by simpa using hord.inner [] n rfl
    have hsum := SumOver_amountsOf (ownL L p) (fun k => !decide (k.Valuation = (GoZero.zero : commodity.Commodity))) ho1
    unfold balance.Report.SortWeighted.post1
    simp only [hloc.amounts]
    have hpf : (some fun (k : amounts.Key) => GoSem.Outcome.ok (!decide (k.Valuation = (GoZero.zero : commodity.Commodity)))) =
        pureFn (fun k : amounts.Key => !decide (k.Valuation = (GoZero.zero : commodity.Commodity))) := rfl
    rw [hpf, hsum]
    simp only [GoSem.Outcome.bind, range2_eq]
    -- every child is done
    have hdone : ∀ s c, AMap.find? n.Children s = some c → ∃ c', AMap.find? cs' s = some c' ∧ MNode.height c' = MNode.height c ∧
        AccSame c c' ∧ RepAtW valued L (p ++ [s]) c' := by
      intro s c hc
      obtain ⟨c', g1, g2, ga, g3, _⟩ := f2.child s c hc
      exact ⟨c', g1, g2, ga, g3 (hperm.mem_iff.2 (mem_keys_of_find? hc))⟩
    refine ⟨_, rfl, ?_, ?_, ?_⟩
    · rw [MNode.height_mk, f2.height]
      obtain ⟨seg, v, cs, so⟩ := n
      rw [MNode.height_mk]
    · intro q m' hm'
      cases q with
      | nil =>
        simp only [MNode.nodeAt?_nil, Option.some.injEq] at hm'
        subst hm'
        exact ⟨n, rfl, rfl⟩
      | cons s q' =>
        rw [MNode.nodeAt?_cons] at hm'
        cases hc' : AMap.find? cs' s with
        | none => simp [hc'] at hm'
        | some c' =>
          simp only [hc', Option.bind_some] at hm'
          have hs : s ∈ AMap.keys n.Children := by rw [← f2.keys]; exact mem_keys_of_find? hc'
          have : (AMap.find? n.Children s).isSome := by rw [find?_isSome]; simpa using hs
          cases hc : AMap.find? n.Children s with
          | none => simp [hc] at this
          | some c =>
            obtain ⟨c'', g1, _, ga, _⟩ := hdone s c hc
            rw [hc'] at g1; cases g1
            obtain ⟨m, hm, hacc⟩ := ga q' m' hm'
            exact ⟨m, by rw [MNode.nodeAt?_cons, hc]; exact hm, hacc⟩
    · 
      intro q m hm
      cases q with
      | nil =>
        simp only [MNode.nodeAt?_nil, Option.some.injEq] at hm
        subst hm
        simp only [List.append_nil]
        refine ⟨hloc.segment, rfl, by simpa [f2.keys] using hloc.nodup,
          fun s => by simpa [f2.keys] using hloc.children s, fun f hf => ?_⟩
        rw [MNode.height_mk] at hf
        obtain ⟨f', rfl⟩ : ∃ f', f = f' + 1 := ⟨f - 1, by omega⟩
        rw [ReportPerm.weight_eq, valuedSum valued L hL hval p]
        simp only [GoSem.Decimal.Neg, abs_eq]
        -- the children's weights, in any order
        have hkeys : ((o2 p).filter (fun s => decide (s ∈ AMap.keys cs'))) = o2 p := by
          apply List.filter_eq_self.2; intro s hs; rw [f2.keys]; simpa using ho2.mem_iff.1 hs
        have hcs : (AMap.keys n.Children).Perm (BalanceReport.childSegs (esOf L) p) := by
          have hnd : (BalanceReport.childSegs (esOf L) p).Nodup := ReportPerm.nodup_eraseDups _ _ (Nat.le_refl _)
          rw [List.perm_ext_iff_of_nodup hloc.nodup hnd]
          intro s; rw [hloc.children s, mem_childSegs L hL]
        have hw : ∀ s ∈ AMap.keys n.Children, (AMap.get cs' s (GoZero.zero : Node)).Value.Weight =
            BalanceReport.weight valued (esOf L) f' (p ++ [s]) := by
          intro s hs
          have : (AMap.find? n.Children s).isSome := by rw [find?_isSome]; simpa using hs
          cases hc : AMap.find? n.Children s with
          | none => simp [hc] at this
          | some c =>
            obtain ⟨c', g1, _, _, g3⟩ := hdone s c hc
            have hl := g3 [] c' rfl
            have hle : MNode.height c' ≤ f' := by
              have := MNode.height_le_heightL (MNode.mem_of_find?' g1)
              omega
            simpa [AMap.get, g1] using hl.weight f' hle
        rw [hkeys, ReportPerm.sum_perm (ho2.map _), ← ReportPerm.sum_perm (hcs.map _)]
        have : (AMap.keys n.Children).map (fun s => (AMap.get cs' s (GoZero.zero : Node)).Value.Weight) =
            (AMap.keys n.Children).map (fun s => BalanceReport.weight valued (esOf L) f' (p ++ [s])) :=
          List.map_congr_left hw
        rw [this]
        cases valued <;> simp
      | cons s q' =>
        rw [MNode.nodeAt?_cons] at hm
        cases hc' : AMap.find? cs' s with
        | none => simp [hc'] at hm
        | some c' =>
          simp only [hc', Option.bind_some] at hm
          have hs : s ∈ AMap.keys n.Children := by rw [← f2.keys]; exact mem_keys_of_find? hc'
          have : (AMap.find? n.Children s).isSome := by rw [find?_isSome]; simpa using hs
          cases hc : AMap.find? n.Children s with
          | none => simp [hc] at this
          | some c =>
            obtain ⟨c'', g1, _, _, g3⟩ := hdone s c hc
            rw [hc'] at g1; cases g1
            simpa [List.append_assoc] using g3 q' m hm


/-! ## `SortWeighted`: weights, then the siblings sorted -/

/-- **`Report.SortWeighted`** on a report whose trees represent the inserts `La`, `Le` (whatever the accounts of the nodes), for
EVERY iteration order: the result is the two trees with the model's weights (`RepAtW`), the accounts untouched, each sorted with
the comparator of the Go code (`cmp3`: level 1 by account type, below by weight then name) -/
theorem SortWeighted_agrees (valued : Bool) (r : balance.Report) (La Le : Log)
    (hLa : ∀ e ∈ La, e.1.Account ≠ GoZero.zero) (hLe : ∀ e ∈ Le, e.1.Account ≠ GoZero.zero)
    (hva : ∀ e ∈ La, (!decide (e.1.Valuation = (GoZero.zero : commodity.Commodity))) = valued)
    (hve : ∀ e ∈ Le, (!decide (e.1.Valuation = (GoZero.zero : commodity.Commodity))) = valued)
    (ha : RepAt0 La [] r.AL) (he : RepAt0 Le [] r.EIE)
    (o1 o4 : List String → List amounts.Key) (o2 o3 o5 o6 : List String → List String)
    (h1 : WOrders [] r.AL o1 o2 o3) (h2 : WOrders [] r.EIE o4 o5 o6) :
    ∃ Ta Te, balance.Report.SortWeighted r o1 o2 o3 o4 o5 o6 =
        GoSem.Outcome.ok { r with AL := MNode.sort balance.Report.SortWeighted.cmp3 Ta, EIE := MNode.sort balance.Report.SortWeighted.cmp3 Te } ∧
      AccSame r.AL Ta ∧ RepAtW valued La [] Ta ∧ AccSame r.EIE Te ∧ RepAtW valued Le [] Te := by
  obtain ⟨Ta, g1, _, g3, g4⟩ := weights_postOrderF valued La hLa hva o1 o2 o3 (MNode.height r.AL) [] r.AL (Nat.le_refl _) ha h1
  obtain ⟨Te, e1, _, e3, e4⟩ := weights_postOrderF valued Le hLe hve o4 o5 o6 (MNode.height r.EIE) [] r.EIE (Nat.le_refl _) he h2
  refine ⟨Ta, Te, ?_, g3, g4, e3, e4⟩
  unfold balance.Report.SortWeighted MNode.postOrder
  simp only [g1, e1, GoSem.Outcome.bind]

/-- what `Report.SetAccounts` (not translated: it recurses over the tree and asks the registry) establishes before the
sorting: every node below the root carries the account of its path -/
def HasAccounts (n : Node) : Prop :=
  ∀ q m, MNode.nodeAt? n q = some m → q ≠ [] → m.Value.Account = TransAccount.accountGo ⟨q⟩

theorem HasAccounts_of_AccSame {n n' : Node} (h : AccSame n n') (ha : HasAccounts n) : HasAccounts n' := by
  intro q m' hm' hq
  obtain ⟨m, hm, hacc⟩ := h q m' hm'
  rw [hacc]; exact ha q m hm hq

theorem cmp3_sort (a b : Node) :
    balance.Report.SortWeighted.cmp3 (MNode.sort balance.Report.SortWeighted.cmp3 a) (MNode.sort balance.Report.SortWeighted.cmp3 b) =
      balance.Report.SortWeighted.cmp3 a b := by
  unfold balance.Report.SortWeighted.cmp3 MNode.sortAlpha
  simp only [MNode.sort_Value, MNode.sort_Segment]

theorem mergeSort_congr {α : Type} (l : List α) (r s : α → α → Bool) (h : ∀ a ∈ l, ∀ b ∈ l, r a b = s a b) :
    l.mergeSort r = l.mergeSort s := by
  have := List.map_mergeSort (r := r) (s := s) (f := id) (l := l) (by simpa using h)
  simpa using this

theorem Type_accountGo_top (a : String) : account.Account.Type_ (TransAccount.accountGo ⟨[a]⟩) = (BalanceReport.typeOrd a : Int) := by
  simp only [account.Account.Type_, TransAccount.accountGo, BalanceReport.typeOrd, Knut.Account.type?]
  cases h : AccountType.ofName a with
  | none => simp
  | some t => simp [TransAccount.typeGo_ord]

/-- the comparator of the Go code on two children of the node of a path = the model's sibling order -/
theorem cmp3_sibLE (rc : RenderCfg) (hrc : rc.sortAlpha = false) (L : Log) (f : Nat) (P : List String) (a b : String) (ca cb : Node)
    (hsa : ca.Segment = a) (hsb : cb.Segment = b)
    (haa : ca.Value.Account = TransAccount.accountGo ⟨P ++ [a]⟩) (hab : cb.Value.Account = TransAccount.accountGo ⟨P ++ [b]⟩)
    (hwa : ca.Value.Weight = BalanceReport.weight rc.valuation.isSome (esOf L) f (P ++ [a]))
    (hwb : cb.Value.Weight = BalanceReport.weight rc.valuation.isSome (esOf L) f (P ++ [b])) :
    decide (balance.Report.SortWeighted.cmp3 ca cb ≠ 1) = BalanceReport.sibLE rc (esOf L) f P a b := by
  unfold balance.Report.SortWeighted.cmp3 BalanceReport.sibLE
  simp only [haa, hab, TransAccount.Level_agrees, Knut.Account.level, List.length_append, List.length_cons, List.length_nil]
  cases P with
  | nil =>
    simp only [List.nil_append, List.length_nil, Nat.zero_add, Type_accountGo_top, List.isEmpty_nil]
    simp only [Int.natCast_one, decide_true, Bool.and_self, if_true]
    unfold cmpOrdered
    by_cases h1 : (BalanceReport.typeOrd a : Int) < BalanceReport.typeOrd b
    · have : BalanceReport.typeOrd a ≤ BalanceReport.typeOrd b := by omega
      simp [h1, this]
    · by_cases h2 : (BalanceReport.typeOrd b : Int) < BalanceReport.typeOrd a
      · have : ¬ BalanceReport.typeOrd a ≤ BalanceReport.typeOrd b := by omega
        simp [h1, h2, this]
      · have : BalanceReport.typeOrd a ≤ BalanceReport.typeOrd b := by omega
        simp [h1, h2, this]
  | cons x rest =>
    have hl : ¬ ((((x :: rest).length + 1 : Nat) : Int) = 1) := by simp; omega
    simp only [hl, decide_false, Bool.false_and, Bool.false_eq_true, if_false, List.isEmpty_cons, hrc, hwa, hwb,
      TransPrice.compare_Decimal_eq, MNode.sortAlpha, hsa, hsb]
    generalize BalanceReport.weight rc.valuation.isSome (esOf L) f (x :: rest ++ [a]) = wa
    generalize BalanceReport.weight rc.valuation.isSome (esOf L) f (x :: rest ++ [b]) = wb
    by_cases h1 : wa < wb
    · simp [h1]
    · by_cases h2 : wa = wb
      · subst h2
        simp only [Rat.lt_irrefl, if_false, if_true, decide_true, Bool.not_true, Bool.false_eq_true]
        unfold cmpOrdered
        by_cases h3 : a < b
        · have : a ≤ b := String.not_lt.1 (String.lt_asymm h3)
          simp [h3, this]
        · by_cases h4 : b < a
          · have : ¬ a ≤ b := String.not_le.2 h4
            simp [h3, h4, this]
          · have : a ≤ b := String.not_lt.1 h4
            simp [h3, h4, this]
      · have h3 : wb < wa := Rat.lt_of_le_of_ne (Rat.not_lt.1 h1) (fun e => h2 e.symm)
        simp [h1, h2, h3]

/-- **the siblings in sorted order**: in the report sorted by `SortWeighted` (weights as the model's, accounts as
`SetAccounts` leaves them, inserts on accounts with an account type), the keys of the children of the node of every path,
in the order of `Sorted`, are the model's `sortedChildren` of the path — for every fuel that covers the node's height -/
theorem sortedKeys_agrees (rc : RenderCfg) (hrc : rc.sortAlpha = false) (L : Log) (hL : ∀ e ∈ L, e.1.Account ≠ GoZero.zero)
    (hwf : ReportPerm.WF (esOf L)) (T : Node) (hw : RepAtW rc.valuation.isSome L [] T) (hacc : HasAccounts T)
    (p : List String) (m : Node) (hm : MNode.nodeAt? T p = some m) (f : Nat) (hf : MNode.height m ≤ f + 1) :
    MNode.nodeAt? (MNode.sort balance.Report.SortWeighted.cmp3 T) p = some (MNode.sort balance.Report.SortWeighted.cmp3 m) ∧
    (MNode.sort balance.Report.SortWeighted.cmp3 m).SortedKeys = BalanceReport.sortedChildren rc (esOf L) f p := by
  refine ⟨by rw [MNode.nodeAt?_sort, hm]; rfl, ?_⟩
  have hloc : LocalW rc.valuation.isSome L p m := by simpa using hw p m hm
  rw [MNode.sort_SortedKeys_eq _ cmp3_sort m hloc.nodup]
  -- the comparator on the members
  have hle : ∀ a ∈ AMap.keys m.Children, ∀ b ∈ AMap.keys m.Children,
      decide (balance.Report.SortWeighted.cmp3 ((AMap.find? m.Children a).getD m) ((AMap.find? m.Children b).getD m) ≠ 1) =
        BalanceReport.sibLE rc (esOf L) f p a b := by
    intro a ha b hb
    have child : ∀ s, s ∈ AMap.keys m.Children → ∃ c, AMap.find? m.Children s = some c ∧ c.Segment = s ∧
        c.Value.Account = TransAccount.accountGo ⟨p ++ [s]⟩ ∧
        c.Value.Weight = BalanceReport.weight rc.valuation.isSome (esOf L) f (p ++ [s]) := by
      intro s hs
      have : (AMap.find? m.Children s).isSome := by rw [find?_isSome]; simpa using hs
      cases hc : AMap.find? m.Children s with
      | none => simp [hc] at this
      | some c =>
        have hat : MNode.nodeAt? T (p ++ [s]) = some c := by
          rw [MNode.nodeAt?_append, hm]; simp [MNode.nodeAt?_cons, hc]
        have hl : LocalW rc.valuation.isSome L (p ++ [s]) c := by simpa using hw (p ++ [s]) c hat
        refine ⟨c, rfl, by simpa using hl.segment, hacc _ c hat (by simp), ?_⟩
        apply hl.weight
        have := MNode.height_child_lt hc
        omega
    obtain ⟨ca, h1, h2, h3, h4⟩ := child a ha
    obtain ⟨cb, g1, g2, g3, g4⟩ := child b hb
    rw [h1, g1]
    exact cmp3_sibLE rc hrc L f p a b ca cb h2 g2 h3 g3 h4 g4
  rw [mergeSort_congr _ _ _ hle]
  unfold BalanceReport.sortedChildren
  have hcs : (AMap.keys m.Children).Perm (BalanceReport.childSegs (esOf L) p) := by
    have hnd : (BalanceReport.childSegs (esOf L) p).Nodup := ReportPerm.nodup_eraseDups _ _ (Nat.le_refl _)
    rw [List.perm_ext_iff_of_nodup hloc.nodup hnd]
    intro s; rw [hloc.children s, mem_childSegs L hL]
  cases p with
  | nil =>
    have : BalanceReport.sibLE rc (esOf L) f [] = fun a b => decide (BalanceReport.typeOrd a ≤ BalanceReport.typeOrd b) := by
      funext a b; unfold BalanceReport.sibLE; simp
    rw [this]
    apply ReportPerm.mergeSort_perm_eq _ _ _ _ _ _ hcs
    · intro a b c; simp only [decide_eq_true_eq]; omega
    · intro a b; simp only [Bool.or_eq_true, decide_eq_true_eq]; omega
    · intro a b ha hb; simp only [decide_eq_true_eq]
      intro h1 h2
      exact ReportPerm.typeOrd_inj (ReportPerm.top_isType hwf (hcs.mem_iff.1 ha)) (ReportPerm.top_isType hwf (hcs.mem_iff.1 hb)) (by omega)
  | cons x rest =>
    rw [ReportPerm.sibLE_nonempty rc (esOf L) f (x :: rest) (by simp)]
    simp only [hrc, Bool.false_eq_true, if_false]
    exact ReportPerm.sort_perm_eq _ (ReportPerm.lexLE_trans _) (ReportPerm.lexLE_total _) (ReportPerm.lexLE_antisymm _) _ _ hcs

/-! ## `SortAlpha` -/

theorem SortAlpha_agrees (r : balance.Report) :
    balance.Report.SortAlpha r =
      { r with AL := MNode.sort balance.Report.SortAlpha.cmp1 r.AL, EIE := MNode.sort balance.Report.SortAlpha.cmp1 r.EIE } := rfl

theorem cmp1_sort (a b : Node) :
    balance.Report.SortAlpha.cmp1 (MNode.sort balance.Report.SortAlpha.cmp1 a) (MNode.sort balance.Report.SortAlpha.cmp1 b) =
      balance.Report.SortAlpha.cmp1 a b := by
  unfold balance.Report.SortAlpha.cmp1 MNode.sortAlpha
  simp only [MNode.sort_Value, MNode.sort_Segment]

theorem cmp1_sibLE (rc : RenderCfg) (hrc : rc.sortAlpha = true) (es : List Knut.Entry) (f : Nat) (P : List String) (a b : String) (ca cb : Node)
    (hsa : ca.Segment = a) (hsb : cb.Segment = b)
    (haa : ca.Value.Account = TransAccount.accountGo ⟨P ++ [a]⟩) (hab : cb.Value.Account = TransAccount.accountGo ⟨P ++ [b]⟩) :
    decide (balance.Report.SortAlpha.cmp1 ca cb ≠ 1) = BalanceReport.sibLE rc es f P a b := by
  unfold balance.Report.SortAlpha.cmp1 BalanceReport.sibLE
  simp only [haa, hab, TransAccount.Level_agrees, Knut.Account.level, List.length_append, List.length_cons, List.length_nil]
  cases P with
  | nil =>
    simp only [List.nil_append, List.length_nil, Nat.zero_add, Type_accountGo_top, List.isEmpty_nil]
    simp only [Int.natCast_one, decide_true, Bool.and_self, if_true]
    unfold cmpOrdered
    by_cases h1 : (BalanceReport.typeOrd a : Int) < BalanceReport.typeOrd b
    · have : BalanceReport.typeOrd a ≤ BalanceReport.typeOrd b := by omega
      simp [h1, this]
    · by_cases h2 : (BalanceReport.typeOrd b : Int) < BalanceReport.typeOrd a
      · have : ¬ BalanceReport.typeOrd a ≤ BalanceReport.typeOrd b := by omega
        simp [h1, h2, this]
      · have : BalanceReport.typeOrd a ≤ BalanceReport.typeOrd b := by omega
        simp [h1, h2, this]
  | cons x rest =>
    have hl : ¬ ((((x :: rest).length + 1 : Nat) : Int) = 1) := by simp; omega
    simp only [hl, decide_false, Bool.false_and, Bool.false_eq_true, if_false, List.isEmpty_cons, hrc, if_true, MNode.sortAlpha, hsa, hsb]
    unfold cmpOrdered
    by_cases h3 : a < b
    · have : a ≤ b := String.not_lt.1 (String.lt_asymm h3)
      simp [h3, this]
    · by_cases h4 : b < a
      · have : ¬ a ≤ b := String.not_le.2 h4
        simp [h3, h4, this]
      · have : a ≤ b := String.not_lt.1 h4
        simp [h3, h4, this]

/-- **the siblings in alphabetical order** (`-a`): as `sortedKeys_agrees`, for every fuel -/
theorem sortedKeys_alpha_agrees (rc : RenderCfg) (hrc : rc.sortAlpha = true) (L : Log) (hL : ∀ e ∈ L, e.1.Account ≠ GoZero.zero)
    (hwf : ReportPerm.WF (esOf L)) (T : Node) (hw : RepAt0 L [] T) (hacc : HasAccounts T)
    (p : List String) (m : Node) (hm : MNode.nodeAt? T p = some m) (f : Nat) :
    MNode.nodeAt? (MNode.sort balance.Report.SortAlpha.cmp1 T) p = some (MNode.sort balance.Report.SortAlpha.cmp1 m) ∧
    (MNode.sort balance.Report.SortAlpha.cmp1 m).SortedKeys = BalanceReport.sortedChildren rc (esOf L) f p := by
  refine ⟨by rw [MNode.nodeAt?_sort, hm]; rfl, ?_⟩
  have hloc : Local0 L p m := by simpa using hw p m hm
  rw [MNode.sort_SortedKeys_eq _ cmp1_sort m hloc.nodup]
  have hle : ∀ a ∈ AMap.keys m.Children, ∀ b ∈ AMap.keys m.Children,
      decide (balance.Report.SortAlpha.cmp1 ((AMap.find? m.Children a).getD m) ((AMap.find? m.Children b).getD m) ≠ 1) =
        BalanceReport.sibLE rc (esOf L) f p a b := by
    intro a ha b hb
    have child : ∀ s, s ∈ AMap.keys m.Children → ∃ c, AMap.find? m.Children s = some c ∧ c.Segment = s ∧
        c.Value.Account = TransAccount.accountGo ⟨p ++ [s]⟩ := by
      intro s hs
      have : (AMap.find? m.Children s).isSome := by rw [find?_isSome]; simpa using hs
      cases hc : AMap.find? m.Children s with
      | none => simp [hc] at this
      | some c =>
        have hat : MNode.nodeAt? T (p ++ [s]) = some c := by
          rw [MNode.nodeAt?_append, hm]; simp [MNode.nodeAt?_cons, hc]
        have hl : Local0 L (p ++ [s]) c := by simpa using hw (p ++ [s]) c hat
        exact ⟨c, rfl, by simpa using hl.segment, hacc _ c hat (by simp)⟩
    obtain ⟨ca, h1, h2, h3⟩ := child a ha
    obtain ⟨cb, g1, g2, g3⟩ := child b hb
    rw [h1, g1]
    exact cmp1_sibLE rc hrc (esOf L) f p a b ca cb h2 g2 h3 g3
  rw [mergeSort_congr _ _ _ hle]
  unfold BalanceReport.sortedChildren
  have hcs : (AMap.keys m.Children).Perm (BalanceReport.childSegs (esOf L) p) := by
    have hnd : (BalanceReport.childSegs (esOf L) p).Nodup := ReportPerm.nodup_eraseDups _ _ (Nat.le_refl _)
    rw [List.perm_ext_iff_of_nodup hloc.nodup hnd]
    intro s; rw [hloc.children s, mem_childSegs L hL]
  cases p with
  | nil =>
    have : BalanceReport.sibLE rc (esOf L) f [] = fun a b => decide (BalanceReport.typeOrd a ≤ BalanceReport.typeOrd b) := by
      funext a b; unfold BalanceReport.sibLE; simp
    rw [this]
    apply ReportPerm.mergeSort_perm_eq _ _ _ _ _ _ hcs
    · intro a b c; simp only [decide_eq_true_eq]; omega
    · intro a b; simp only [Bool.or_eq_true, decide_eq_true_eq]; omega
    · intro a b ha hb; simp only [decide_eq_true_eq]
      intro h1 h2
      exact ReportPerm.typeOrd_inj (ReportPerm.top_isType hwf (hcs.mem_iff.1 ha)) (ReportPerm.top_isType hwf (hcs.mem_iff.1 hb)) (by omega)
  | cons x rest =>
    rw [ReportPerm.sibLE_nonempty rc (esOf L) f (x :: rest) (by simp)]
    simp only [hrc, if_true]
    exact ReportPerm.sort_perm_eq _ ReportPerm.strLE_trans ReportPerm.strLE_total ReportPerm.strLE_antisymm _ _ hcs

/-! ## non-vacuity -/

private def exK' (a : Knut.Account) (d : Int) : amounts.Key :=
  { Date := d, Account := TransAccount.accountGo a, Other := GoZero.zero, Commodity := ⟨"CHF", false⟩,
    Valuation := ⟨"CHF", false⟩, Description := "" }

private def exR : balance.Report :=
  [(exK' ⟨["Assets", "Bank"]⟩ 5, (3 : Rat)), (exK' ⟨["Assets"]⟩ 5, -4)].foldl (fun r e => balance.Report.Insert r e.1 e.2) (balance.NewReport GoZero.zero)

private def exOrd : List String → List String := fun _ => ["Bank", "Assets"]
private def exKeys' : List String → List amounts.Key := fun _ => [exK' ⟨["Assets", "Bank"]⟩ 5, exK' ⟨["Assets"]⟩ 5]

/-- the weights of a valued report: minus the absolute own sum plus the children (`Bank`: −3, `Assets`: −4 − 3) -/
example :
    (match MNode.postOrder (balance.Report.SortWeighted.post1 exKeys' exOrd) exOrd () exR.AL with
      | .ok r => ((MNode.nodeAt? r.2 ["Assets"]).map (fun n => n.Value.Weight),
                  (MNode.nodeAt? r.2 ["Assets", "Bank"]).map (fun n => n.Value.Weight))
      | _ => (none, none)) = (some (-7), some (-3)) := by decide +kernel

end Knut.FactsAgree.TransReport
