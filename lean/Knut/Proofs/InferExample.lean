import Knut.Proofs.InferViews
import Knut.Proofs.SyntaxExamples
/-!
# A worked run of `knut infer` on a concrete text (for the non-vacuity example of `Properties/C15Parse.lean`)

The parser loops are defined by well-founded recursion, which the kernel does not unfold; instead of evaluating the
parser, the text is given as the rendering of a hand-written run (`exItems`), for which the print-then-parse lemmas say
how it parses (`parse_rendered`), and training and inference are computed on the views (`fileTxs_of_views`).
-/
namespace Knut.Infer
open Knut Knut.Syntax Knut.Spec.Syntax Knut.Spec.Infer Knut.Utf8

/-- the rendering of a well-formed run parses, to directives with the views of the run and the gaps of the run -/
theorem parse_rendered (padding : Nat) (path : String) (items : List Item) (hR : ItemsR items) :
    ∃ f, parseText path (flat (outToks padding items)) = .ok f ∧
      f.directives.mapM (viewDirective (flat (outToks padding items))) = some ((viewsOf items).map DirT.bytes) ∧
      gapsOf (flat (outToks padding items)) 0 (f.directives.map (·.range)) = gapBytes [] items := by
  have hdec : decodeAll (flat (outToks padding items)) = outToks padding items :=
    decodeAll_flat _ (items_canonR padding hR)
  obtain ⟨items2, f2, s2', hr, hrun, hdirs, hitems2⟩ := fileLoop_replayR padding path items hR 0 [] 0
  simp only [List.reverse_nil, List.nil_append] at hdirs
  obtain ⟨r1, r2, r3, r4⟩ := hr.facts
  have hG2 : Good (flat (outToks padding items)) ⟨0, outToks padding items⟩ := by
    have := good_start (flat (outToks padding items))
    rwa [hdec] at this
  have i3' := hitems2 _ hG2
  have hparse2 : parseText path (flat (outToks padding items)) = .ok f2 := by
    unfold parseText
    rw [hdec, start_complete _ (outToks_headValidR padding hR)]
    simp only [parseFile, hrun]
  have hG2' : Good (flat (outToks padding items)) ⟨0, origToks items2⟩ := by rw [r1]; exact hG2
  obtain ⟨_, hgaps2⟩ := items_format (padding := padding) hG2' i3' 0 (Nat.le_refl _)
  simp only [slice_self] at hgaps2
  exact ⟨f2, hparse2, by rw [hdirs, items_views i3', r3], by rw [hdirs, hgaps2, r4]⟩

/-- a booking without the placeholder is left alone -/
theorem inferBooking_no_placeholder {S : Type} (sc : Scorer S) (m : Model) (hne : [] ∉ m.countByAccount.keys) (desc : Bytes)
    (b : BookingV) (h1 : b.credit ≠ m.account) (h2 : b.debit ≠ m.account) : m.inferBooking sc desc b = b := by
  have spec := inferBooking_spec sc m desc b hne
  have e1 := spec.credit_other h1
  have e2 := spec.debit_other h2
  have e3 := spec.quantity
  have e4 := spec.commodity
  cases hr : m.inferBooking sc desc b
  cases b
  rw [hr] at e1 e2 e3 e4
  simp only at e1 e2 e3 e4
  rw [e1, e2, e3, e4]

/-- with exactly two learnable accounts `x ≠ y`: a placeholder on the debit side of a booking from `x` becomes `y`,
whatever the score function -/
theorem inferBooking_debit_two {S : Type} (sc : Scorer S) {ph : Bytes} {txs : List TTx} {x y : Bytes}
    (ht : ∀ a, a ∈ trainingAccounts ph txs ↔ a = x ∨ a = y) (hx : x ≠ ph) (hxy : y ≠ x) (desc : Bytes) (q c : Bytes) :
    (train ph txs).inferBooking sc desc ⟨x, ph, q, c⟩ = ⟨x, y, q, c⟩ := by
  have hne : [] ∉ (train ph txs).countByAccount.keys := by
    intro h
    obtain ⟨_, _, _, _, _, _, _, _, _, h1, _⟩ := trainingAccounts_spec ((mem_keys_train _ _ _).mp h)
    exact h1 rfl
  have spec := inferBooking_spec sc (train ph txs) desc ⟨x, ph, q, c⟩ hne
  rw [train_account] at spec
  have e1 := spec.credit_other hx
  have e3 := spec.quantity
  have e4 := spec.commodity
  have hy : y ∈ (train ph txs).countByAccount.keys := (mem_keys_train _ _ _).mpr ((ht y).mpr (Or.inr rfl))
  obtain ⟨n1, n2⟩ := spec.debit_new rfl ⟨y, hy, by rw [e1]; exact hxy⟩
  have e2 : ((train ph txs).inferBooking sc desc ⟨x, ph, q, c⟩).debit = y := by
    rcases (ht _).mp ((mem_keys_train _ _ _).mp n1) with e | e
    · exact absurd (e.trans e1.symm) n2
    · exact e
  cases hr : (train ph txs).inferBooking sc desc ⟨x, ph, q, c⟩
  rw [hr] at e1 e2 e3 e4
  simp only at e1 e2 e3 e4
  rw [e1, e2, e3, e4]

/-! ### the example: one transaction, a learnable booking `B F 1 C` and a booking `B T 1 C` with the placeholder `T` -/

namespace Ex

def date : List Tok := toksOf "2020-01-02"
def bk (debit : String) : BookingT := ⟨toksOf "B", toksOf debit, toksOf "1", toksOf "C"⟩
/-- the token-level view of the transaction whose second booking has `debit` on the debit side -/
def trx (debit : String) : DirT := .transaction none none date (toksOf "m") [bk "F", bk debit]
/-- the run: the transaction (which ends with the line break of its last booking), then the end of the text -/
def items (debit : String) : List Item := [.dir [] default (trx debit) [] []]
/-- the text: the run rendered with the width of its accounts -/
def text (debit : String) : Bytes := flat (outToks 1 (items debit))

theorem text_T : text "T" = bytesOf "2020-01-02 \"m\"\nB F          1 C\nB T          1 C\n" := by decide
theorem text_F : text "F" = bytesOf "2020-01-02 \"m\"\nB F          1 C\nB F          1 C\n" := by decide

theorem valid_toksOf (s : String) (h : ∀ c ∈ s.toList, c.toNat < 128) : Valid (toksOf s) := by
  intro t ht
  simp only [toksOf, List.mem_map] at ht
  obtain ⟨c, hc, rfl⟩ := ht
  exact tk_valid (h c hc)

theorem canon_toksOf (s : String) (h : ∀ c ∈ s.toList, c.toNat < 128) : Canon (toksOf s) := canon_lits s h

theorem all_toksOf (p : Nat → Bool) (s : String) (h : ∀ c ∈ s.toList, p c.toNat = true) : All p (toksOf s) := by
  intro t ht
  simp only [toksOf, List.mem_map] at ht
  obtain ⟨c, hc, rfl⟩ := ht
  exact h c hc

theorem accountOK1 (s : String) (hne : toksOf s ≠ []) (h : ∀ c ∈ s.toList, c.toNat < 128)
    (ha : ∀ c ∈ s.toList, isAlphanumeric c.toNat = true) : AccountOK (toksOf s) :=
  ⟨⟨false, by
    simp only [IsAccount, Bool.false_eq_true, if_false]
    exact ⟨toksOf s, [], by simp, hne, all_toksOf _ s ha, SegTail.nil⟩⟩, valid_toksOf s h⟩

theorem alnum_B : isAlphanumeric 66 = true := by decide +kernel
theorem alnum_F : isAlphanumeric 70 = true := by decide +kernel
theorem alnum_T : isAlphanumeric 84 = true := by decide +kernel
theorem alnum_C : isAlphanumeric 67 = true := by decide +kernel
theorem digit_0 : isDigit 48 = true := by decide +kernel
theorem digit_1 : isDigit 49 = true := by decide +kernel
theorem digit_2 : isDigit 50 = true := by decide +kernel

theorem date_ok : DateOK date := by
  refine ⟨⟨tk 50, tk 48, tk 50, tk 48, tk 45, tk 48, tk 49, tk 45, tk 48, tk 50, by decide, ?_⟩, valid_toksOf _ (by decide)⟩
  simp [tk, digit_0, digit_1, digit_2]

theorem decimal_1 : DecimalOK (toksOf "1") :=
  ⟨⟨[], toksOf "1", [], by simp, Or.inl rfl, by decide, all_toksOf _ "1" (by simp [digit_1]), Or.inl rfl⟩,
    valid_toksOf _ (by decide)⟩
theorem commodity_C : CommodityOK (toksOf "C") :=
  ⟨⟨by decide, all_toksOf _ "C" (by simp [alnum_C])⟩, valid_toksOf _ (by decide)⟩

theorem bk_ok (debit : String) (hd : AccountOK (toksOf debit)) : (bk debit).ok :=
  ⟨accountOK1 "B" (by decide) (by decide) (by simp [alnum_B]), hd, decimal_1, commodity_C⟩

theorem bk_canon (debit : String) (hd : ∀ c ∈ debit.toList, c.toNat < 128) : (bk debit).canon :=
  ⟨canon_toksOf _ (by decide), canon_toksOf _ hd, canon_toksOf _ (by decide), canon_toksOf _ (by decide)⟩

theorem okF : AccountOK (toksOf "F") := accountOK1 "F" (by decide) (by decide) (by simp [alnum_F])
theorem okT : AccountOK (toksOf "T") := accountOK1 "T" (by decide) (by decide) (by simp [alnum_T])

theorem trx_ok (debit : String) (hd : AccountOK (toksOf debit)) : (trx debit).ok := by
  refine ⟨(fun a h => by cases h), (fun ts h => by cases h), date_ok,
    ⟨all_toksOf _ "m" (by decide), valid_toksOf _ (by decide)⟩, (by simp), ?_⟩
  intro b hb
  simp only [List.mem_cons, List.not_mem_nil, or_false] at hb
  rcases hb with rfl | rfl
  · exact bk_ok "F" okF
  · exact bk_ok debit hd

theorem trx_canon (debit : String) (hd : ∀ c ∈ debit.toList, c.toNat < 128) : (trx debit).canon := by
  refine ⟨(fun a h => by cases h), (fun ts h => by cases h), canon_toksOf _ (by decide), canon_toksOf _ (by decide), ?_⟩
  intro b hb
  simp only [List.mem_cons, List.not_mem_nil, or_false] at hb
  rcases hb with rfl | rfl
  · exact bk_canon "F" (by decide)
  · exact bk_canon debit hd

theorem itemsR (debit : String) (hd : AccountOK (toksOf debit)) (hc : ∀ c ∈ debit.toList, c.toNat < 128) :
    ItemsR (items debit) := by
  unfold items ItemsR
  exact ⟨trx_ok debit hd, trx_canon debit hc, All.nil, Or.inl rfl, Valid.nil, Canon.nil, (fun _ => rfl), trivial⟩

/-- the placeholder of the example: `T` -/
def ph : Bytes := bytesOf "T"

theorem views_T : (viewsOf (items "T")).map DirT.bytes =
    [.transaction none none (bytesOf "2020-01-02") (bytesOf "m")
      [⟨bytesOf "B", bytesOf "F", bytesOf "1", bytesOf "C"⟩, ⟨bytesOf "B", bytesOf "T", bytesOf "1", bytesOf "C"⟩]] := by decide

theorem training_T : ∀ a, a ∈ trainingAccounts ph (txsOfViews ((viewsOf (items "T")).map DirT.bytes)) ↔
    a = bytesOf "B" ∨ a = bytesOf "F" := by
  have : trainingAccounts ph (txsOfViews ((viewsOf (items "T")).map DirT.bytes)) = [bytesOf "B", bytesOf "F"] := by decide
  intro a
  rw [this]
  simp

/-- **the command on the example**: with the text as its own training file and `T` as placeholder, `knut infer` writes the
text with the placeholder replaced by `F` (the only learnable account other than `B`), for every score function -/
theorem infer_example {S : Type} (sc : Scorer S) :
    inferCmd sc ph [("j.knut", text "T")] "j.knut" (text "T") = .written (text "F") := by
  obtain ⟨f, hp, hv, hg⟩ := parse_rendered 1 "j.knut" (items "T") (itemsR "T" okT (by decide))
  have hp' : parseText "j.knut" (text "T") = .ok f := hp
  have hv' : f.directives.mapM (viewDirective (text "T")) = some ((viewsOf (items "T")).map DirT.bytes) := hv
  have htx := fileTxs_of_views hp' hv'
  have htrain : trainingTxs [("j.knut", text "T")] = some (txsOfViews ((viewsOf (items "T")).map DirT.bytes)) := by
    simp [trainingTxs, hp', Except.toOption, htx]
  -- what `infer` writes
  have hsome : (inferFormat sc (train ph (txsOfViews ((viewsOf (items "T")).map DirT.bytes))) (text "T") f).isSome = true := by
    unfold inferFormat
    rw [formatWith_isSome]
    obtain ⟨_, _, h1, _⟩ := roundtrip hp'
    rw [h1]; rfl
  obtain ⟨out, hout⟩ := Option.isSome_iff_exists.mp hsome
  refine (inferCmd_of sc htrain hp' hout).trans ?_
  congr 1
  obtain ⟨vs, hvs, hshape⟩ := formatWith_shape hout
  rw [hv'] at hvs
  injection hvs with hvs
  subst hvs
  have hg' : gapsOf (text "T") 0 (f.directives.map (·.range)) = gapBytes [] (items "T") := hg
  -- the edited fields
  have hne : [] ∉ (train ph (txsOfViews ((viewsOf (items "T")).map DirT.bytes))).countByAccount.keys := by
    intro h
    obtain ⟨_, _, _, _, _, _, _, _, _, h1, _⟩ := trainingAccounts_spec ((mem_keys_train _ _ _).mp h)
    exact h1 rfl
  have b1 := inferBooking_no_placeholder sc (train ph (txsOfViews ((viewsOf (items "T")).map DirT.bytes))) hne (bytesOf "m")
    ⟨bytesOf "B", bytesOf "F", bytesOf "1", bytesOf "C"⟩ (by rw [train_account]; decide) (by rw [train_account]; decide)
  rw [hshape, hg', views_T]
  have b2 := inferBooking_debit_two sc training_T (by decide : bytesOf "B" ≠ ph) (by decide) (bytesOf "m") (bytesOf "1") (bytesOf "C")
  have b2' : (train ph (txsOfViews ((viewsOf (items "T")).map DirT.bytes))).inferBooking sc (bytesOf "m")
      ⟨bytesOf "B", bytesOf "T", bytesOf "1", bytesOf "C"⟩ = ⟨bytesOf "B", bytesOf "F", bytesOf "1", bytesOf "C"⟩ := b2
  rw [views_T] at b1 b2'
  simp only [List.map_cons, List.map_nil, Model.inferDir, b1, b2']
  -- the rendering
  have hviews : (.transaction none none (bytesOf "2020-01-02") (bytesOf "m")
      [⟨bytesOf "B", bytesOf "F", bytesOf "1", bytesOf "C"⟩, ⟨bytesOf "B", bytesOf "F", bytesOf "1", bytesOf "C"⟩] : DirV) =
      (trx "F").bytes := by decide
  rw [hviews]
  have hpad : paddingOf [(trx "F").bytes] = 1 := by
    have r : runeCount (flat (toksOf "B")) = 1 := runeCount_flat (canon_toksOf _ (by decide))
    have r' : runeCount (flat (toksOf "F")) = 1 := runeCount_flat (canon_toksOf _ (by decide))
    simp [paddingOf, paddingV, trx, bk, DirT.bytes, BookingT.bytes, r, r']
  rw [hpad, ← flat_renderT 1 (trx "F") (trx_canon "F" (by decide))]
  decide

end Ex

end Knut.Infer
