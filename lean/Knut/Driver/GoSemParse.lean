import Knut.Wire
import Knut.GoSem.Bridge
/-! Driver ops `gosemparse …`: what the translation of the model layer's conversion (`harness/trans_units_create.go`) adds to the
prelude — `Time.ParseISO` (`time.Parse("2006-01-02", ·)`), `Decimal.NewFromString` (`GoSem/Parse.lean`) and `Bridge.extract`
(`Range.Extract` read as a text, `GoSem/Bridge.lean`) — evaluated for the differential stream `gosemparse` of C11
(`harness/gosem_parse.go`), which compares each with the real Go function on arbitrary BYTE strings: a string that is not valid
UTF-8 has no meaning in the model layer's reading (`outside`). -/
namespace Knut.Driver.GoSemParse
open Knut Knut.Wire Knut.GoSem

def handle (fields : List String) : Option String :=
  match fields with
  | ["gosemparse", "date", s] =>
    match unhexBytes s with
    | none => some "bad-op"
    | some b =>
      match Bridge.text b.data.toList with
      | .ok t =>
        match Time.ParseISO t with
        | (d, none) => some s!"ok {d}"
        | (d, some _) => some s!"err {d}"
      | _ => some "outside"
  | ["gosemparse", "dec", s] =>
    match unhexBytes s with
    | none => some "bad-op"
    | some b =>
      match Bridge.text b.data.toList with
      | .ok t =>
        match Decimal.NewFromString t with
        | (r, none) => some s!"ok {r.num}/{r.den}"
        | (r, some _) => some s!"err {r.num}/{r.den}"
      | _ => some "outside"
  | ["gosemparse", "extract", text, lo, hi] =>
    match unhexBytes text, parseInt lo, parseInt hi with
    | some b, some lo, some hi =>
      match Bridge.extract { Start := lo, End := hi, Path := [], Text := b.data.toList } with
      | .ok t => some ("ok " ++ hexStr t)
      | .panic m => some (if m = Bridge.outside then "outside" else "panic")
      | .outOfFuel => some "out-of-fuel"
    | _, _, _ => some "bad-op"
  | _ => none

end Knut.Driver.GoSemParse
