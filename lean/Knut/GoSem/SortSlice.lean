import Knut.GoSem.Basic
/-!
# `compare.Sort(xs, cmp)` = `sort.Slice(xs, func(i, j) { return cmp(xs[i], xs[j]) == Smaller })`: an UNSTABLE sort

Used by the translation of `lib/journal/beancount` (`harness/trans_units_beancount.go`; the text of `compare.Sort` is pinned).

`sort.Slice` does not say in which order it leaves elements that compare equal, so the translated code does not compute the
sorted slice: the sorting algorithm is an explicit extra parameter `sort : (T → T → R) → List T → List T` of the translated
function (Go's pdqsort is a deterministic function of the answers of `less`, hence of the comparator and the elements) and the
generated term is `sort cmp xs`.  `SortSliceSpec sort cmp smaller` is what `sort.Slice` guarantees when
`less a b := (cmp a b = smaller)` is a strict weak order: the result is a permutation of the argument in which no element is
`smaller` than one before it.  Agreement theorems quantify over every `sort` with this property for the comparator of the Go text (`SortSliceOn`: on the slices
that are actually sorted).
The stream `gosembean` of C11 (`harness/gosem_bean.go`) decides the two clauses on the output of the real `compare.Sort` for
random slices with many ties, below and above the insertion-sort threshold of pdqsort.
-/
namespace Knut.GoSem

/-- the guarantee of `sort.Slice` on one slice `xs`, for the strict weak order `less a b := (cmp a b = smaller)` -/
def SortSliceOn {T R : Type} (sort : (T → T → R) → List T → List T) (cmp : T → T → R) (smaller : R) (xs : List T) : Prop :=
  (sort cmp xs).Perm xs ∧ (sort cmp xs).Pairwise (fun a b => cmp b a ≠ smaller)

/-- the guarantee on every slice -/
def SortSliceSpec {T R : Type} (sort : (T → T → R) → List T → List T) (cmp : T → T → R) (smaller : R) : Prop :=
  ∀ xs : List T, SortSliceOn sort cmp smaller xs

end Knut.GoSem
