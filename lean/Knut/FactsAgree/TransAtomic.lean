import Knut.Generated.TransAtomic
import Knut.Proofs.AtomicWrite
/-!
# `natefinch/atomic.WriteFile`: the definition translated from the library's SOURCE equals C18's protocol model

`harness/trans_units_atomic.go` translates `atomic.WriteFile` and `atomic.ReplaceFile` — from the source that /repo's go.mod selects —
into `Knut.Generated.Go.atomic.WriteFile/ReplaceFile` on every run of `bin/check`: every `os`/`io`/`ioutil` call is an operation on an
explicit world (`GoSem/OsWorld.lean`: the model's file system, the model's fault `Scenario` as the failure oracle, the fresh temp name, the
log of all file-system states), the named result `err` is a variable, and at every `return` the function-level defer list runs in reverse
(`f.Close()` with the receiver bound where the `defer` stands, then the closure `if err != nil { os.Remove(f.Name()) }` reading the
named result as the `return` has just set it).

Proved here, for every scenario, file system, content, target and temp name with `tmp ≠ target` (the model's assumption: `O_EXCL`):

* `WriteFile_agrees`   the run of the translated function from the world `(fs, scenario)` ends in the model's final file system
                       (`AtomicWrite.writeFile … .final`) with the model's outcome (`nil` ↦ `ok`, an error ↦ `error op` for the operation
                       whose failure it reports), and its state log is a SUBLIST of the model's states containing every one of them:
                       the same states in the same order — the model lists the state before `Chmod` twice when the modes are equal
                       and no `Chmod` is made (`states_mem`: membership is the same, which is what `C18_invariant` quantifies over)
* `ReplaceFile_agrees` `ReplaceFile` is `os.Rename`
* `WriteFile_ok_iff`   the translated function returns nil exactly when the model says `ok`

A change of the order of the operations, of an error check, of the defer list or of the condition of the clean-up in atomic.go changes the
generated definition, and these proofs are re-checked against it.
-/

set_option linter.unusedSimpArgs false
set_option linter.unusedVariables false
namespace Knut.FactsAgree.TransAtomic
open Knut Knut.GoSem Knut.AtomicWrite Knut.Generated.Go.atomic

/-- what the model calls the outcome of a Go `error` value: nil is `ok`, an error reports the failed operation it carries -/
def outcomeOf (e : Option Os.Err) : Option Outcome :=
  match e with
  | none => some .ok
  | some e => e.op.map Outcome.error

theorem del_del (fs : FS) (p : Path) : FS.del (FS.del fs p) p = FS.del fs p := by
  induction fs with
  | nil => rfl
  | cons x rest ih =>
    obtain ⟨q, f⟩ := x
    by_cases h : q = p <;> simp [FS.del, h, ih]

theorem del_set (fs : FS) (p : Path) (f : File) : FS.del (FS.set fs p f) p = FS.del fs p := by
  simp [FS.set, FS.del, del_del]

theorem set_set (fs : FS) (p : Path) (a b : File) : FS.set (FS.set fs p a) p b = FS.set fs p b := by
  simp [FS.set, FS.del, del_del]

/-- the world after `TempFile` and `io.Copy` of the translated code: the model's `fs2` and `copyStates` -/
theorem temp_world (sc : Scenario) (tmp : Path) (fs : FS) (hc : sc.fault ≠ some .createTemp) (d p : String) :
    Os.TempFile (Os.World.init sc tmp fs) d p = ((Os.World.init sc tmp fs).step (FS.set fs tmp ⟨[], 0o600⟩), ⟨tmp⟩, none) := by
  simp [Os.TempFile, Os.World.init, hc]

theorem copy_world (sc : Scenario) (tmp : Path) (new : Bytes) (fs : FS) (hc : sc.fault ≠ some .createTemp) :
    Os.Copy ((Os.World.init sc tmp fs).step (FS.set fs tmp ⟨[], 0o600⟩)) ⟨tmp⟩ new =
      ({ fs := FS.set fs tmp ⟨new.take (written sc new), 0o600⟩, sc := sc, tmp := tmp, states := copyStates sc tmp new fs },
        (written sc new : Int),
        if written sc new < new.length ∨ sc.fault = some .write then Os.Err.sys .write else none) := by
  simp [Os.Copy, Os.World.init, Os.World.step, Os.modeOf, get_set_same, set_set, copyStates]
  by_cases h : written sc new < List.length new ∨ sc.fault = some Op.write <;> simp [h]


/-- the run of the translated `atomic.WriteFile` from the world `(fs, scenario)` -/
def goRun (sc : Scenario) (tmp target : Path) (new : Bytes) (fs : FS) : Os.World × Option Os.Err :=
  WriteFile (Os.World.init sc tmp fs) target new

theorem WriteFile_agrees_aux (sc : Scenario) {tmp target : Path} (new : Bytes) (fs : FS) (hne : tmp ≠ target) :
    (goRun sc tmp target new fs).1.fs = (writeFile sc tmp target new fs).final ∧
    outcomeOf (goRun sc tmp target new fs).2 = some (writeFile sc tmp target new fs).outcome ∧
    (goRun sc tmp target new fs).1.states.Sublist ((writeFile sc tmp target new fs).states ()) ∧
    (∀ st, st ∈ (writeFile sc tmp target new fs).states () → st ∈ (goRun sc tmp target new fs).1.states) := by
  have hnt : target ≠ tmp := fun h => hne h.symm
  by_cases hc : sc.fault = some .createTemp
  · simp [goRun, WriteFile, writeFile, Os.TempFile, Os.World.init, outcomeOf, Os.Errorf, Os.Err.sys, hc]
  · have hcw := copy_world sc tmp new fs hc
    have htw := temp_world sc tmp fs hc
    by_cases hk : written sc new < new.length
    · simp only [goRun, WriteFile, writeFile, htw, hcw]
      cases hu : sc.unlinkFails <;>
        simp [hk, hc, hu, cleanup, Os.File.Close, WriteFile.defer1, Os.Remove, Os.Errorf,
          Os.Err.sys, outcomeOf, Os.World.step, Os.File.Name]
    · have htake : List.take (written sc new) new = new := List.take_of_length_le (by omega)
      simp only [goRun, WriteFile, writeFile, htw, hcw]
      have hlast : FS.set fs tmp ⟨new, 0o600⟩ ∈ copyStates sc tmp new fs := by
        unfold copyStates
        apply List.mem_append_right
        exact List.mem_map.mpr ⟨written sc new, by simp, by rw [htake]⟩
      cases hu : sc.unlinkFails
      · rcases hg : FS.get fs target with _ | old
        · rcases hf : sc.fault with _ | op
          case' some => cases op
          all_goals first | exact absurd hf hc | simp [hk, hf, hu, hg, htake, hne, hnt, cleanup, Os.File.Close, Os.File.Sync, Os.Stat, Os.Chmod, Os.Rename, ReplaceFile, WriteFile.defer1, Os.Remove, Os.Errorf,
              Os.Err.sys, outcomeOf, Os.World.step, Os.File.Name, Os.IsNotExist, Os.FileInfo.Mode, get_set_same, get_set_other, del_set, set_set]
        · by_cases hm : old.mode = 384
          · rcases hf : sc.fault with _ | op
            case' some => cases op
            all_goals first | exact absurd hf hc | simp [hk, hf, hu, hg, htake, hne, hnt, cleanup, Os.File.Close, Os.File.Sync, Os.Stat, Os.Chmod, Os.Rename, ReplaceFile, WriteFile.defer1, Os.Remove, Os.Errorf,
              Os.Err.sys, outcomeOf, Os.World.step, Os.File.Name, Os.IsNotExist, Os.FileInfo.Mode, get_set_same, get_set_other, del_set, set_set, hm]
            all_goals (intro st h; rcases h with h | rfl | h <;> simp_all)
          · have hm' : ¬ 384 = old.mode := fun h => hm h.symm
            rcases hf : sc.fault with _ | op
            case' some => cases op
            all_goals first | exact absurd hf hc | simp [hk, hf, hu, hg, htake, hne, hnt, cleanup, Os.File.Close, Os.File.Sync, Os.Stat, Os.Chmod, Os.Rename, ReplaceFile, WriteFile.defer1, Os.Remove, Os.Errorf,
              Os.Err.sys, outcomeOf, Os.World.step, Os.File.Name, Os.IsNotExist, Os.FileInfo.Mode, get_set_same, get_set_other, del_set, set_set, hm, hm']
      · rcases hg : FS.get fs target with _ | old
        · rcases hf : sc.fault with _ | op
          case' some => cases op
          all_goals first | exact absurd hf hc | simp [hk, hf, hu, hg, htake, hne, hnt, cleanup, Os.File.Close, Os.File.Sync, Os.Stat, Os.Chmod, Os.Rename, ReplaceFile, WriteFile.defer1, Os.Remove, Os.Errorf,
              Os.Err.sys, outcomeOf, Os.World.step, Os.File.Name, Os.IsNotExist, Os.FileInfo.Mode, get_set_same, get_set_other, del_set, set_set]
        · by_cases hm : old.mode = 384
          · rcases hf : sc.fault with _ | op
            case' some => cases op
            all_goals first | exact absurd hf hc | simp [hk, hf, hu, hg, htake, hne, hnt, cleanup, Os.File.Close, Os.File.Sync, Os.Stat, Os.Chmod, Os.Rename, ReplaceFile, WriteFile.defer1, Os.Remove, Os.Errorf,
              Os.Err.sys, outcomeOf, Os.World.step, Os.File.Name, Os.IsNotExist, Os.FileInfo.Mode, get_set_same, get_set_other, del_set, set_set, hm]
            all_goals (intro st h; rcases h with h | rfl | h <;> simp_all)
          · have hm' : ¬ 384 = old.mode := fun h => hm h.symm
            rcases hf : sc.fault with _ | op
            case' some => cases op
            all_goals first | exact absurd hf hc | simp [hk, hf, hu, hg, htake, hne, hnt, cleanup, Os.File.Close, Os.File.Sync, Os.Stat, Os.Chmod, Os.Rename, ReplaceFile, WriteFile.defer1, Os.Remove, Os.Errorf,
              Os.Err.sys, outcomeOf, Os.World.step, Os.File.Name, Os.IsNotExist, Os.FileInfo.Mode, get_set_same, get_set_other, del_set, set_set, hm, hm']

/-- **agreement**: final file system, outcome and intermediate states of the translated `atomic.WriteFile` are the model's. -/
theorem WriteFile_agrees (sc : Scenario) {tmp target : Path} (new : Bytes) (fs : FS) (hne : tmp ≠ target) :
    (goRun sc tmp target new fs).1.fs = (writeFile sc tmp target new fs).final ∧
    outcomeOf (goRun sc tmp target new fs).2 = some (writeFile sc tmp target new fs).outcome ∧
    (goRun sc tmp target new fs).1.states.Sublist ((writeFile sc tmp target new fs).states ()) ∧
    (∀ st, st ∈ (writeFile sc tmp target new fs).states () → st ∈ (goRun sc tmp target new fs).1.states) :=
  WriteFile_agrees_aux sc new fs hne

/-- the translated code passes through exactly the states of the model -/
theorem states_mem (sc : Scenario) {tmp target : Path} (new : Bytes) (fs : FS) (hne : tmp ≠ target) (st : FS) :
    st ∈ (goRun sc tmp target new fs).1.states ↔ st ∈ (writeFile sc tmp target new fs).states () :=
  ⟨fun h => (WriteFile_agrees sc new fs hne).2.2.1.subset h, (WriteFile_agrees sc new fs hne).2.2.2 st⟩

theorem WriteFile_ok_iff (sc : Scenario) {tmp target : Path} (new : Bytes) (fs : FS) (hne : tmp ≠ target) :
    (goRun sc tmp target new fs).2 = none ↔ (writeFile sc tmp target new fs).outcome = .ok := by
  have h := (WriteFile_agrees sc new fs hne).2.1
  constructor
  · intro hn
    rw [hn] at h
    simpa [outcomeOf] using h.symm
  · intro ho
    rw [ho] at h
    cases he : (goRun sc tmp target new fs).2 with
    | none => rfl
    | some e =>
      rw [he] at h
      cases hop : e.op <;> simp [outcomeOf, hop] at h

/-- an error of the translated code reports the operation the model names -/
theorem WriteFile_error (sc : Scenario) {tmp target : Path} (new : Bytes) (fs : FS) (hne : tmp ≠ target) {e : Os.Err}
    (he : (goRun sc tmp target new fs).2 = some e) : ∃ op, e.op = some op ∧ (writeFile sc tmp target new fs).outcome = .error op := by
  have h := (WriteFile_agrees sc new fs hne).2.1
  rw [he] at h
  cases hop : e.op with
  | none => simp [outcomeOf, hop] at h
  | some op => exact ⟨op, rfl, by simpa [outcomeOf, hop] using h.symm⟩

theorem ReplaceFile_agrees (w : Os.World) (src dst : String) : ReplaceFile w src dst = Os.Rename w src dst := rfl

/-- non-vacuity: a run through the translated code — target present with mode 0644, no fault: nil, the new bytes under the old mode, no temp file -/
example :
    let r := goRun {} "j.knut123" "j.knut" [1, 2, 3] [("j.knut", ⟨[9], 0o644⟩)]
    r.2 = none ∧ r.1.fs = [("j.knut", ⟨[1, 2, 3], 0o644⟩)] ∧ r.1.states.length = 8 := by decide

/-- non-vacuity: the file-size limit cuts the write after one byte: an error that reports `write`, the directory as before -/
example :
    let r := goRun { limit := some 1 } "j.knut123" "j.knut" [1, 2, 3] [("j.knut", ⟨[9], 0o644⟩)]
    (r.2.map (·.msg)) = some "cannot write data to tempfile %q: %v" ∧ (r.2.bind (·.op)) = some .write ∧
      r.1.fs = [("j.knut", ⟨[9], 0o644⟩)] := by decide

end Knut.FactsAgree.TransAtomic
