package main

import (
	"fmt"
	"sort"
	"strings"
)

// ---------------------------------------------------------------- dust stream: positions that are closed and leave residues
//
// The journals of the trace / race / grow / quote streams book whole numbers at prices with two decimals: a position that is
// sold is gone, every value the portfolio stages hand from day to day is a round number, and a per-commodity value is either
// a real holding or absent. Here the portfolio lives on the 8-digit truncation of price.Multiply: commodities are quoted with
// 2-8 decimals and re-quoted on most days, positions are built up in several lots of fractional quantities (0-8 decimals) on
// consecutive days, held over price changes and period ends, and then CLOSED - sold completely in one or two sales (the lots
// were each truncated, the sale is truncated once: a residue of a few 1e-8 stays behind as the value of a position whose
// quantity is zero), sold except for a last 1e-8 .. 1e-5 of a unit (a genuine position worth next to nothing), or moved to
// another portfolio account - and some are taken up again later. Cash moves through the portfolio on (nearly) every day, so
// that the day after every period end touches the portfolio again while the later stages still work on the period end day.
// The journals are run through every pipeline command, mostly `portfolio weights` / `portfolio returns` with every interval,
// --last, --from / --to, mappings, account / commodity filters, under the race detector (three of four jobs) and on the normal
// binary with perturbed schedules; all monitors of the trace / race streams apply. Half of the journals are split over
// several files (prices, one commodity's bookings in a sub-directory).

var c19dNames = []string{"XYZ", "ABC", "USD", "BTC", "GLD", "T1", "NESN", "Q2X", "EUR", "VTI"}

// c19dQty prints v (in units of 1e-8) as a decimal number without trailing zeros.
func c19dQty(v int64) string {
	s := fmt.Sprintf("%d.%08d", v/100000000, v%100000000)
	s = strings.TrimRight(s, "0")
	return strings.TrimSuffix(s, ".")
}

// c19dRound keeps dec decimals of v (units of 1e-8), at least one unit of the last kept decimal.
func c19dRound(v int64, dec int) int64 {
	step := int64(1)
	for k := dec; k < 8; k++ {
		step *= 10
	}
	v -= v % step
	if v <= 0 {
		v = step
	}
	return v
}

func genDustJournal(r *RNG, fault string, thorough bool) genJournal {
	type line struct {
		day  int
		file int // 0 root, 1 prices, 2 sub-directory file
		text string
	}
	var lines []line
	ndays := map[int]bool{}
	add := func(d, file int, format string, a ...any) {
		lines = append(lines, line{d, file, fmt.Sprintf(format, a...)})
		ndays[d] = true
	}
	start := r.Range(0, 45) // month and week ends fall on different days of the journal
	span := r.Range(12, 60)
	if thorough && r.Chance(1, 4) {
		span = r.Range(60, 150)
	}
	end := start + span
	names := append([]string{}, c19dNames...)
	for i := len(names) - 1; i > 0; i-- {
		j := r.Intn(i + 1)
		names[i], names[j] = names[j], names[i]
	}
	ncom := r.Range(1, 6)
	coms := names[:ncom]
	multi := r.Bool()
	subCom := ""
	if multi && r.Bool() {
		subCom = coms[r.Intn(ncom)]
	}
	fileOf := func(com string) int {
		if com != "" && com == subCom {
			return 2
		}
		return 0
	}
	pfile := 0
	if multi {
		pfile = 1
	}
	pf := []string{"Assets:Portfolio", "Assets:Broker:Depot", "Assets:Broker:Depot:Sub"}
	for _, a := range append([]string{"Equity:Equity", "Assets:Bank", "Expenses:Fees", "Income:Gains"}, pf...) {
		add(start, 0, "%s open %s\n", c19Date(start), a)
	}
	txn := 0
	tx := func(d, file int, postings ...string) {
		txn++
		add(d, file, "%s \"t%d\"\n%s\n", c19Date(d), txn, strings.Join(postings, "\n"))
	}
	post := func(credit, debit string, q int64, com string) string {
		return fmt.Sprintf("%s %s %s %s", credit, debit, c19dQty(q), com)
	}
	// prices: 2-8 decimals, re-quoted on most days
	pdec := map[string]int{}
	cur := map[string]int64{}
	quote := func(d int, com string) {
		if cur[com] == 0 {
			cur[com] = int64(r.Range(1, 2000)) * 100000000 / int64(Pick(r, []int{1, 1, 3, 7, 10, 100}))
			cur[com] += int64(r.Intn(100000000))
		} else {
			cur[com] += (int64(r.Intn(2001)) - 1000) * (cur[com]/20000 + 1)
		}
		cur[com] = c19dRound(cur[com], pdec[com])
		add(d, pfile, "%s price %s %s CHF\n", c19Date(d), com, c19dQty(cur[com]))
	}
	// the life of every commodity: lots, holding, closing, perhaps a second life
	type ev struct {
		kind int // 0 buy a lot, 1 sell everything (perhaps in two sales), 2 sell all but a tiny rest, 3 move to another account
		com  string
	}
	evs := map[int][]ev{}
	for _, com := range coms {
		pdec[com] = Pick(r, []int{2, 4, 6, 8, 8, 8, 8, 7})
		d := start + r.Range(0, max(1, span/3))
		for life := 0; life < 3 && d < end-1; life++ {
			for lots := r.Range(1, 4); lots > 0 && d < end-1; lots-- {
				evs[d] = append(evs[d], ev{0, com})
				d += Pick(r, []int{0, 1, 1, 1, 2, 3})
			}
			d += r.Range(1, max(2, span/4))
			if d >= end || r.Chance(1, 8) {
				break // held until the end
			}
			evs[d] = append(evs[d], ev{Pick(r, []int{1, 1, 1, 2, 3}), com})
			d += r.Range(1, max(2, span/4))
			if r.Chance(1, 2) {
				break
			}
		}
	}
	quoted := map[string]bool{}
	held := map[string]map[string]int64{} // commodity -> account -> quantity
	qdec := map[string]int{}
	for _, com := range coms {
		held[com] = map[string]int64{}
		qdec[com] = Pick(r, []int{0, 1, 3, 3, 3, 4, 6, 8})
	}
	busy := r.Range(2, 4) // out of 4 days without an event have a cash booking in the portfolio
	for d := start; d <= end; d++ {
		if d == start {
			tx(d, 0, post("Equity:Equity", "Assets:Portfolio", int64(r.Range(1000, 100000))*100000000, "CHF"))
		}
		for _, com := range coms {
			first := false
			for _, e := range evs[d] {
				first = first || (e.com == com && !quoted[com])
			}
			if first || (quoted[com] && r.Chance(3, 5)) {
				quote(d, com)
				quoted[com] = true
			}
		}
		for _, e := range evs[d] {
			com, h, f := e.com, held[e.com], fileOf(e.com)
			var accs []string
			for a, q := range h {
				if q > 0 {
					accs = append(accs, a)
				}
			}
			sort.Strings(accs)
			switch {
			case e.kind == 0 || len(accs) == 0:
				q := c19dRound(int64(r.Range(1, 300000))*int64(Pick(r, []int{1, 1000, 100000, 1000000})), qdec[com])
				a := Pick(r, pf)
				if len(accs) > 0 && r.Chance(2, 3) {
					a = accs[0] // further lots of one position
				}
				h[a] += q
				tx(d, f, post("Equity:Equity", a, q, com))
			case e.kind == 3:
				a := accs[0]
				b := Pick(r, pf)
				for b == a {
					b = Pick(r, pf)
				}
				tx(d, f, post(a, b, h[a], com))
				h[b] += h[a]
				h[a] = 0
			default:
				for _, a := range accs {
					q := h[a]
					if e.kind == 2 {
						q -= int64(Pick(r, []int{1, 1, 2, 10, 100, 1000})) // a last 1e-8 .. 1e-5 of a unit stays
					}
					if q <= 0 {
						continue
					}
					var ps []string
					if q > 1 && r.Chance(1, 3) {
						q1 := c19dRound(q/int64(r.Range(2, 5)), qdec[com])
						if q1 < q {
							ps = append(ps, post(a, "Equity:Equity", q1, com))
							q -= q1
							h[a] -= q1
						}
					}
					ps = append(ps, post(a, "Equity:Equity", q, com))
					h[a] -= q
					if r.Bool() {
						ps = append(ps, post("Equity:Equity", a, int64(r.Range(1, 5000))*1000000, "CHF")) // the proceeds
					}
					if r.Chance(1, 3) && len(ps) > 1 {
						for _, p := range ps {
							tx(d, f, p)
						}
					} else {
						tx(d, f, ps...)
					}
				}
			}
		}
		if len(evs[d]) == 0 && r.Intn(4) < busy || r.Chance(1, 4) {
			switch r.Intn(4) {
			case 0:
				tx(d, 0, post("Assets:Portfolio", "Assets:Bank", int64(r.Range(1, 50000))*1000000, "CHF"))
			case 1:
				tx(d, 0, post("Assets:Portfolio", "Expenses:Fees", int64(r.Range(1, 9999))*10000, "CHF"))
			case 2:
				tx(d, 0, post("Income:Gains", Pick(r, pf), int64(r.Range(1, 99999))*1000, "CHF"))
			default:
				tx(d, 0, post("Equity:Equity", "Assets:Portfolio", int64(r.Range(1, 2000))*100000000, "CHF"))
			}
		}
	}
	if fault == "unopened" {
		tx(r.Range(start, end), 0, "Assets:Bank Expenses:Ghost 1 CHF")
	}
	for i := len(lines) - 1; i > 0; i-- {
		j := r.Intn(i + 1)
		if r.Chance(1, 3) && lines[i].day != lines[j].day && lines[i].file == lines[j].file {
			lines[i], lines[j] = lines[j], lines[i]
		}
	}
	var bs [3]strings.Builder
	if multi {
		bs[0].WriteString("include \"prices.knut\"\n\n")
		if subCom != "" {
			bs[0].WriteString("include \"depot/" + strings.ToLower(subCom) + ".knut\"\n\n")
		}
	}
	for _, l := range lines {
		bs[l.file].WriteString(l.text)
		bs[l.file].WriteString("\n")
	}
	jr := genJournal{Text: bs[0].String(), Days: len(ndays), Fault: fault, Span: end, Coms: append([]string{}, coms...), Groups: []string{"Portfolio", "Broker", "Bank", "Depot"}}
	if multi {
		jr.Files = map[string]string{"prices.knut": bs[1].String()}
		if subCom != "" {
			jr.Files["depot/"+strings.ToLower(subCom)+".knut"] = bs[2].String()
		}
	}
	return jr
}

// genDustCmd draws a `portfolio weights` (kind 0) or `portfolio returns` (kind 1) command line: every interval, --last,
// --from / --to inside the journal, mappings, account and commodity filters, the renderer's flags.
func genDustCmd(r *RNG, jr genJournal, kind int) procCmd {
	pc := procCmd{Name: "weights", Args: []string{"portfolio", "weights", "--color=false", "-v", "CHF"}, Stages: []int{5}, Valued: true}
	if kind == 1 {
		pc = procCmd{Name: "returns", Args: []string{"portfolio", "returns", "-v", "CHF"}, Stages: []int{6}, Valued: true}
	}
	iv := Pick(r, []string{"--days", "--days", "--days", "--weeks", "--weeks", "--months", "--months", "--quarters", ""})
	if iv != "" {
		pc.Args = append(pc.Args, iv)
	}
	if iv != "" && r.Chance(1, 4) {
		pc.Args = append(pc.Args, "--last", itoa(r.Range(1, 12)))
	}
	first := jr.Span - 150
	if r.Chance(1, 5) {
		pc.Args = append(pc.Args, "--from", c19Date(r.Range(max(0, first), jr.Span)))
	}
	if r.Chance(1, 5) {
		pc.Args = append(pc.Args, "--to", c19Date(r.Range(max(0, first), jr.Span+3)))
	}
	if r.Chance(1, 4) {
		pc.Args = append(pc.Args, "--account", Pick(r, []string{"Assets", "Portfolio", "Broker", "Portfolio|Depot$", "."}))
	}
	if r.Chance(1, 4) {
		pc.Args = append(pc.Args, "--commodity", Pick(r, []string{".", "CHF|" + Pick(r, jr.Coms), "^[A-Z]+$", Pick(r, jr.Coms)}))
	}
	if kind == 0 {
		if r.Chance(1, 3) {
			pc.Args = append(pc.Args, "-m", Pick(r, []string{"1,.", "1", "2,Broker", "2:1,Assets", "3", "0,Bank"}))
		}
		if r.Chance(1, 3) {
			pc.Args = append(pc.Args, "--csv")
		}
		if r.Chance(1, 4) {
			pc.Args = append(pc.Args, "-a")
		}
		if r.Chance(1, 4) {
			pc.Args = append(pc.Args, "--digits", itoa(r.Range(0, 6)))
		}
	}
	return pc
}

// c19Dust runs the dust stream: njournals journals x ncmds commands (portfolio weights, portfolio returns, a second weights
// line, then in turn transcode / balance / register / print / check); three of four jobs under the race detector.
func (c *Ctx) c19Dust(stream string, njournals, ncmds, nseeds int) {
	var jobs []*procJob
	idx := 0
	faults := []string{"", "", "", "", "", "unopened"}
	for j := 0; j < njournals; j++ {
		r := c.Rng(stream, j)
		jr := genDustJournal(r, Pick(r, faults), c.Thorough())
		tail := c19Matrix(r)
		fixed := []procCmd{
			{Name: "transcode", Args: []string{"transcode", "-v", "CHF"}, Stages: []int{4}, DaysOK: true, Valued: true},
			{Name: "print", Args: []string{"print"}, Stages: []int{1, 2}, DaysOK: true},
			{Name: "check", Args: []string{"check"}, Stages: []int{1}, DaysOK: true},
			tail[len(tail)-1],
		}
		for k := 0; k < ncmds; k++ {
			var pc procCmd
			switch {
			case k < 3:
				pc = genDustCmd(r, jr, k%2)
			case k == 3:
				pc = genGrowCmd(r, jr, r.Range(1, 3)) // balance / register with -v and a mapping
			default:
				pc = fixed[(j+k)%len(fixed)]
			}
			i := idx
			idx++
			if !c.Want(stream, i) {
				continue
			}
			var seeds []uint64
			for s := 0; s < nseeds; s++ {
				seeds = append(seeds, c.Seed*7919+uint64(i*31+s)+1)
			}
			jobs = append(jobs, &procJob{Stream: stream, Index: i, J: jr, Cmd: pc, Seeds: seeds, Race: (j+k)%4 != 3, Long: jr.Span > 100})
		}
	}
	c.c19RunProcJobs(jobs)
	bt := c.NewBatch()
	for _, jb := range jobs {
		c.c19CheckProcJob(bt, jb)
	}
	bt.Flush()
}
