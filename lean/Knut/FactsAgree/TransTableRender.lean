import Knut.Generated.TransTable
import Knut.FactsAgree.TransTable
import Knut.Model.Table
import Knut.Proofs.GoSem
/-!
# The translated cell functions of `lib/common/table` agree with the model (`Model/Table.lean`)

`Knut/Generated/TransTable.lean` is regenerated from /repo's `table.go` and `renderer.go` on every run.  This module covers the
functions on ONE cell: `cell.isSep` (dynamic dispatch over the closed sum of the cell types), `createSep`, `minLengthCell`,
`padLeft`, `writeString/writeStrings/writeSpace`, `TextRenderer.renderCell`.  The model has no percent cells; Go values are reached from model
values through `cellGo` (which never yields one), so the float formatter `ff` is arbitrary.

Colour: the theorems about `renderCell` are stated for `st.NoColor = true` (what `Render` sets for `Color: false`): then
`red.Fprintf`/`green.Fprintf` ARE `fmt.Fprintf` (`Color.Fprintf_off`).  Colour on is outside the model.

Number cells: padded on the left by `table.padLeft` (by hand: `utf8.RuneCountInString`, `strings.Repeat`) since the /repo fix `pad the
number cells of a text table without fmt's width limit`; before it they were printed with `%*s`, which `fmt` refuses beyond a width of
10^6 (`%!(BADWIDTH)`; former known finding `text-table-badwidth-column-above-1e6-runes`).  `padLeft_agrees`: the helper is the model's
`padLeft` for EVERY width, so `renderCell_agrees` needs no bound on the width any more.
-/
namespace Knut.FactsAgree.TransTableRender
open Knut Knut.GoSem
open Knut.Generated.Go

/-! ## Go values of model values -/

def alignGo : Table.Align → Int
  | .left => 0
  | .right => 1
  | .center => 2

def cellGo : Table.Cell → table.cell
  | .empty => table.cell.emptyCell {}
  | .sep => table.cell.SeparatorCell {}
  | .text s a ind => table.cell.textCell { Content := String.ofList s, Align := alignGo a, Indent := ind }
  | .num n => table.cell.numberCell { n := n }

/-- the Go row of a model row in a table that is `width` columns wide: created by `AddRow` with the capacity `width`, which
`append` keeps while the cells fit; once the row has outgrown it the capacity is unknown (`none`) -/
def rowGoW (width : Nat) (row : List Table.Cell) : table.Row :=
  { cells := row.map cellGo, cells_cap := if row.length ≤ width then some (width : Int) else none }

def tableGo (t : Table.Table) : table.Table :=
  { columns := t.columns.map (fun (g : Nat) => (g : Int)), rows := t.rows.map (rowGoW t.width) }

/-- a Go row stands for a model row: the same cells (the renderers do not read the capacity) -/
def RowRel (R : table.Row) (row : List Table.Cell) : Prop := R.cells = row.map cellGo

def RowsRel : List table.Row → List (List Table.Cell) → Prop
  | [], [] => True
  | R :: Rs, row :: rows => RowRel R row ∧ RowsRel Rs rows
  | _, _ => False

/-- a Go table stands for a model table: the same column groups, the same cells (any capacities) -/
def TableRel (T : table.Table) (t : Table.Table) : Prop :=
  T.columns = t.columns.map (fun (g : Nat) => (g : Int)) ∧ RowsRel T.rows t.rows

theorem rowsRel_map (f : List Table.Cell → table.Row) (hf : ∀ row, RowRel (f row) row) :
    ∀ rows : List (List Table.Cell), RowsRel (rows.map f) rows
  | [] => trivial
  | row :: rows => ⟨hf row, rowsRel_map f hf rows⟩

theorem tableGo_rel (t : Table.Table) : TableRel (tableGo t) t :=
  ⟨rfl, rowsRel_map (rowGoW t.width) (fun _ => rfl) t.rows⟩

/-- the model's renderer of a Go renderer -/
def rendOf (tr : table.TextRenderer) : Table.Renderer := ⟨tr.Thousands, tr.Round⟩

/-! ## `isSep`, `createSep` -/

theorem isSep_agrees (c : Table.Cell) : table.cell.isSep (cellGo c) = c.isSep := by
  cases c <;> rfl

theorem createSep_agrees (c1 c2 : Table.Cell) :
    table.createSep (cellGo c1) (cellGo c2) = String.ofList (Table.createSep c1 c2) := by
  unfold table.createSep Table.createSep
  rw [isSep_agrees, isSep_agrees]
  cases c1.isSep <;> cases c2.isSep <;> rfl

/-! ## `minLengthCell` -/

theorem minLengthCell_agrees (tr : table.TextRenderer) (c : Table.Cell) (ff : Fmt.FloatFmt) :
    table.TextRenderer.minLengthCell tr (cellGo c) ff = GoSem.Outcome.ok (Table.minLengthCell (rendOf tr) c) := by
  cases c with
  | empty => rfl
  | sep => rfl
  | text s a ind =>
    cases a <;> simp [table.TextRenderer.minLengthCell, cellGo, alignGo, Table.minLengthCell, table.Left]
  | num n =>
    simp only [table.TextRenderer.minLengthCell, cellGo, TransTable.numToString_agrees, GoSem.Outcome.bind,
      Table.minLengthCell, Strings.RuneCount, String.length_ofList, rendOf]

/-! ## `writeString`, `writeStrings`, `writeSpace` -/

theorem writeString_eq (w s : String) : table.writeString w s = (w ++ s, none) := rfl

/-- `s` repeated `n` times -/
def rep (s : String) (n : Nat) : String := String.join (List.replicate n s)

theorem rep_succ (s : String) (n : Nat) : rep s (n + 1) = s ++ rep s n := by
  simp [rep, List.replicate_succ, String.join_cons]

theorem rep_zero (s : String) : rep s 0 = "" := rfl

theorem writeStrings_loop (s : String) (l : Int) : ∀ (fuel : Nat) (w : String) (i : Int), 0 ≤ i → (l - i).toNat ≤ fuel →
    table.writeStrings.loop1 s l fuel w i
      = GoSem.Outcome.ok (GoSem.Flow.next (w ++ rep s (l - i).toNat, if i < l then l else i)) := by
  intro fuel
  induction fuel with
  | zero =>
    intro w i h0 hf
    have hl : ¬ i < l := by omega
    unfold table.writeStrings.loop1
    have : (l - i).toNat = 0 := by omega
    simp [hl, this, rep_zero]
  | succ fuel ih =>
    intro w i h0 hf
    unfold table.writeStrings.loop1
    by_cases hl : i < l
    · simp only [hl, decide_true, if_true, writeString_eq, Option.isSome_none, Bool.false_eq_true, if_false]
      rw [ih (w ++ s) (i + 1) (by omega) (by omega)]
      have h1 : (l - i).toNat = (l - (i + 1)).toNat + 1 := by omega
      rw [h1, rep_succ, String.append_assoc]
      by_cases h2 : i + 1 < l
      · simp [h2]
      · have : i + 1 = l := by omega
        simp [h2, this]
    · have : (l - i).toNat = 0 := by omega
      simp [hl, this, rep_zero]

theorem writeStrings_eq (w s : String) (l : Int) :
    table.writeStrings w s l = GoSem.Outcome.ok (w ++ rep s l.toNat, none) := by
  unfold table.writeStrings
  show (table.writeStrings.loop1 s l (fuelLt 0 l) w 0).bind _ = _
  rw [writeStrings_loop s l (fuelLt 0 l) w 0 (by omega) (by simp [fuelLt])]
  simp [GoSem.Outcome.bind]

theorem rep_char (c : Char) (n : Nat) : rep (String.singleton c) n = String.ofList (List.replicate n c) := by
  induction n with
  | zero => rfl
  | succ n ih =>
    rw [rep_succ, ih, List.replicate_succ]
    apply String.ext
    simp

theorem writeSpace_eq (w : String) (l : Int) :
    table.writeSpace w l = GoSem.Outcome.ok (w ++ String.ofList (Table.spaces l), none) := by
  unfold table.writeSpace
  rw [writeStrings_eq]
  have : (" " : String) = String.singleton ' ' := rfl
  rw [this, rep_char]
  rfl

theorem writeDashes_eq (w : String) (l : Int) :
    table.writeStrings w "-" l = GoSem.Outcome.ok (w ++ String.ofList (Table.dashes l), none) := by
  rw [writeStrings_eq]
  have : ("-" : String) = String.singleton '-' := rfl
  rw [this, rep_char]
  rfl

/-! ## `renderCell` -/

theorem ofList_append (a b : List Char) : String.ofList (a ++ b) = String.ofList a ++ String.ofList b := by
  apply String.ext; simp

/-- `table.padLeft` (blanks put in front by hand up to `l` runes — since the fix `pad the number cells of a text table without fmt's
width limit`, which replaced `%*s`) is the model's `padLeft`, for EVERY width -/
theorem padLeft_agrees (l : Nat) (s : List Char) :
    table.padLeft (String.ofList s) (l : Int) = String.ofList (Table.padLeft l s) := by
  unfold table.padLeft Table.padLeft
  simp only [Strings.RuneCount, String.length_ofList]
  by_cases h : (s.length : Int) < (l : Int)
  · have e : ((l : Int) - (s.length : Int)).toNat = l - s.length := by omega
    have hs : (" " : String) = String.singleton ' ' := rfl
    simp only [h, decide_true, if_true, ofList_append]
    show rep " " _ ++ _ = _
    rw [e, hs, rep_char]
  · have e : l - s.length = 0 := by omega
    simp [h, e]

/-- with colour off the renderer writes exactly the model's characters of the cell, for every width -/
theorem renderCell_agrees (tr : table.TextRenderer) (c : Table.Cell) (l : Nat) (w : String)
    (st : Color.State) (ff : Fmt.FloatFmt) (hst : st.NoColor = true) :
    table.TextRenderer.renderCell tr (cellGo c) (l : Int) w st ff
      = GoSem.Outcome.ok (w ++ String.ofList (Table.renderCell (rendOf tr) c l), none) := by
  cases c with
  | empty =>
    simp only [table.TextRenderer.renderCell, cellGo, writeSpace_eq, GoSem.Outcome.bind, Table.renderCell]
  | sep =>
    simp only [table.TextRenderer.renderCell, cellGo, writeDashes_eq, GoSem.Outcome.bind, Table.renderCell]
  | num n =>
    simp only [table.TextRenderer.renderCell, cellGo, TransTable.numToString_agrees, GoSem.Outcome.bind,
      Color.Fprintf_off _ _ _ _ hst, Writer.Write, Decimal.LessThan, Decimal.Equal, Decimal.GreaterThan, Decimal.Zero,
      Table.renderCell, zero_option]
    have he : table.padLeft "" (l : Int) = String.ofList (Table.padLeft l []) := padLeft_agrees l []
    by_cases h0 : n = 0
    · subst h0
      simp [he, rendOf]
    · by_cases hlt : n < 0
      · simp [hlt, h0, padLeft_agrees l, rendOf]
      · have hgt : n > 0 := Rat.lt_of_le_of_ne (Rat.not_lt.mp hlt) (fun e => h0 e.symm)
        simp [hlt, h0, hgt, padLeft_agrees l, rendOf]
  | text s a ind =>
    cases a <;>
      simp [table.TextRenderer.renderCell, cellGo, alignGo, table.Left, table.Right, table.Center, writeSpace_eq,
        writeString_eq, GoSem.Outcome.bind, Table.renderCell, ofList_append, String.append_assoc]

end Knut.FactsAgree.TransTableRender
