import Knut.Proofs.PrintParseDirs
/-!
# A printed transaction loads back to itself
-/
namespace Knut.FromSyntax
open Knut Knut.Syntax Knut.Utf8 Knut.Dec Knut.JournalPrinter
set_option linter.unusedVariables false

def bookingT (p : Posting) : BookingT :=
  ⟨strToks p.other.name, strToks p.account.name, strToks (showDec p.quantity), strToks p.commodity⟩

def PrintablePosting (p : Posting) : Prop :=
  PrintableAccount p.other = true ∧ PrintableAccount p.account = true ∧ PrintableQty p.quantity ∧ okName p.commodity = true
instance (p : Posting) : Decidable (PrintablePosting p) := by unfold PrintablePosting; exact inferInstance

/-- the printer's quote replacement changes nothing on a description without a double quote -/
theorem descText_id (s : String) (h : '"' ∉ s.toList) : descText s = s := by
  unfold descText
  have : s.toList.map (fun c => if c == '"' then '\'' else c) = s.toList := by
    conv => rhs; rw [← List.map_id s.toList]
    apply List.map_congr_left
    intro c hc
    have : c ≠ '"' := fun e => h (e ▸ hc)
    simp [this]
  rw [this, String.ofList_toList]

/-- a transaction `printTx` writes and the loader reads back as the same transaction: no double quote in the
description (the printer's `"`→`'` replacement then changes nothing, `descText_id`), bookings in the normal form of
`C09_booking_normal_form` (the posting list is what the printed bookings rebuild), printable fields -/
def PrintableTx (t : Transaction) : Prop :=
  PrintableDate t.date ∧ '"' ∉ t.description.toList ∧
  everyOther t.postings ≠ [] ∧ (∀ p ∈ everyOther t.postings, PrintablePosting p) ∧
  t.postings = (everyOther t.postings).flatMap (fun p => postingBuild p.other p.account p.commodity p.quantity) ∧
  (∀ c ∈ t.targets.getD [], okName c = true)
instance (t : Transaction) : Decidable (PrintableTx t) := by unfold PrintableTx; exact inferInstance

theorem strToks_ofList_spaces (n : Nat) : strToks (String.ofList (List.replicate n ' ')) = spacesT n := by
  unfold strToks spacesT charsToks
  rw [String.toList_ofList, List.map_replicate]
  congr 1

theorem strToks_length (s : String) : (strToks s).length = s.length := by
  simp [strToks, charsToks, String.length_toList]

theorem spacesT_add (a b : Nat) : spacesT a ++ spacesT b = spacesT (a + b) := by
  simp [spacesT, List.replicate_append_replicate]

theorem strToks_posting (pad : Nat) (p : Posting) :
    strToks (printPosting pad p ++ "\n") = renderBookingT pad (bookingT p) ++ [tk 10] := by
  simp only [printPosting, JournalPrinter.padRight, JournalPrinter.padLeft, strToks_append, strToks_ofList_spaces,
    renderBookingT, bookingT, runeLen, strToks_length]
  rw [strToks_lit " " (by decide), strToks_lit "\n" (by decide)]
  have l1 : lits " " = spacesT 1 := rfl
  have l2 : lits "\n" = [tk 10] := rfl
  have l3 : ∀ x : List Tok, tk 32 :: x = spacesT 1 ++ x := fun _ => rfl
  rw [l1, l2]
  simp only [List.append_assoc, l3]
  simp only [← List.append_assoc (spacesT _) (spacesT _), spacesT_add, Nat.add_assoc]

theorem strToks_postings (pad : Nat) (ps : List Posting) :
    strToks (String.join (ps.map (fun p => printPosting pad p ++ "\n"))) = renderBookingsT pad (ps.map bookingT) := by
  induction ps with
  | nil => rfl
  | cons p rest ih =>
    have ej : String.join ((p :: rest).map (fun p => printPosting pad p ++ "\n")) =
        (printPosting pad p ++ "\n") ++ String.join (rest.map (fun p => printPosting pad p ++ "\n")) := by
      apply String.ext
      simp [String.toList_join, String.toList_append]
    rw [ej, strToks_append, ih, strToks_posting]
    simp [renderBookingsT]

theorem strToks_targets (tg : List String) : strToks (String.intercalate "," tg) = joinCommaT (tg.map strToks) := by
  unfold strToks
  rw [String.toList_intercalate]
  have : (",":String).toList = [','] := rfl
  rw [this]
  match tg with
  | [] => rfl
  | [a] => simp [joinCommaT]
  | a :: b :: rest =>
    have ih := strToks_targets (b :: rest)
    unfold strToks at ih
    rw [String.toList_intercalate, this] at ih
    simp only [List.map_cons] at ih ⊢
    rw [List.intercalate_cons_cons, charsToks_append, charsToks_append, ih]
    simp only [joinCommaT, List.map_cons]
    have c : charsToks [','] = [tk 44] := by
      simp only [charsToks, List.map_cons, List.map_nil]
      rw [charTok_ascii ',' (by decide)]; rfl
    rw [c]
    simp

theorem bookingT_ok (p : Posting) (h : PrintablePosting p) : (bookingT p).ok ∧ (bookingT p).canon :=
  ⟨⟨accountOK_name _ h.1, accountOK_name _ h.2.1, decimalOK_showDec _, commodityOK_of_okName h.2.2.2⟩,
   ⟨canon_charsToks _, canon_charsToks _, canon_charsToks _, canon_charsToks _⟩⟩

def bookingOf (p : Posting) : Accrual.Booking := ⟨p.other, p.account, p.quantity, p.commodity⟩

theorem bookingV_bookingT (p : Posting) (h : PrintablePosting p) : bookingV (bookingT p).bytes = some (bookingOf p) := by
  simp [bookingV, bookingT, BookingT.bytes, accountV_name _ h.1, accountV_name _ h.2.1, decimalV_showDec _ _ h.2.2.1, utf8_str,
    bookingOf]

theorem mapM_bookingV (ps : List Posting) (h : ∀ p ∈ ps, PrintablePosting p) :
    (ps.map (fun p => (bookingT p).bytes)).mapM bookingV = some (ps.map bookingOf) := by
  induction ps with
  | nil => rfl
  | cons p rest ih =>
    simp [List.mapM_cons, bookingV_bookingT p (h p List.mem_cons_self), ih (fun x hx => h x (List.mem_cons_of_mem _ hx))]

theorem mapM_utf8_strToks (tg : List String) : (tg.map (fun s => flat (strToks s))).mapM utf8 = some tg := by
  induction tg with
  | nil => rfl
  | cons s rest ih => simp [List.mapM_cons, utf8_str, ih]

theorem contentOK_desc (s : String) (h : '"' ∉ s.toList) : ContentOK (strToks s) := by
  refine ⟨?_, valid_charsToks _⟩
  apply all_strToks
  intro c hc
  simp only [bne_iff_ne, ne_eq]
  intro e
  have : c = '"' := by
    apply Char.ext
    apply UInt32.toNat_inj.mp
    exact e
  exact h (this ▸ hc)

def txInput (t : Transaction) : Accrual.TxInput :=
  { date := t.date, description := t.description, bookings := (everyOther t.postings).map bookingOf,
    targets := t.targets, accrual := none }

/-- **a printed transaction** (any padding) **loads back to itself** -/
theorem load_tx (pad : Nat) (path : String) (t : Transaction) (h : PrintableTx t) :
    loadText path (strBytes (printTx pad t)) = .ok [.tx t] := by
  obtain ⟨hd, hq, hne, hps, hnf, htg'⟩ := h
  have hrep := descText_id _ hq
  have htg : ∀ tg, t.targets = some tg → ∀ c ∈ tg, okName c = true := fun tg e c hc => htg' c (by rw [e]; exact hc)
  let v : DirT := .transaction none (t.targets.map (·.map strToks)) (dateT t.date) (strToks t.description)
    ((everyOther t.postings).map bookingT)
  have e : strToks (printTx pad t) = renderT pad v := by
    unfold printTx
    rw [hrep]
    simp only [strToks_append, strToks_fmtDate, strToks_postings, v, renderT]
    rw [strToks_lit " \"" (by decide), strToks_lit "\"\n" (by decide)]
    cases htar : t.targets with
    | none => simp [lits, strToks, charsToks]
    | some tg =>
      simp only [Option.map_some, strToks_append, strToks_targets, renderPerformanceT]
      rw [strToks_lit "@performance(" (by decide), strToks_lit ")\n" (by decide)]
      have l1 : lits "@performance(" = lits "@performance" ++ [tk 40] := by decide
      rw [l1]
      simp [lits, List.append_assoc]
  have hv : v.ok ∧ v.canon := by
    refine ⟨⟨(by intro a ha; cases ha), ?_, dateOK _ hd.1 hd.2, contentOK_desc _ hq, (by simpa using hne), ?_⟩,
      ⟨(by intro a ha; cases ha), ?_, canon_charsToks _, canon_charsToks _, ?_⟩⟩
    · intro ts hts x hx
      cases htar : t.targets with
      | none => rw [htar] at hts; cases hts
      | some tg =>
        rw [htar] at hts
        simp only [Option.map_some, Option.some.injEq] at hts
        subst hts
        simp only [List.mem_map] at hx
        obtain ⟨c, hc, rfl⟩ := hx
        exact commodityOK_of_okName (htg tg htar c hc)
    · intro x hx
      simp only [List.mem_map] at hx
      obtain ⟨p, hp, rfl⟩ := hx
      exact (bookingT_ok p (hps p hp)).1
    · intro ts hts x hx
      cases htar : t.targets with
      | none => rw [htar] at hts; cases hts
      | some tg =>
        rw [htar] at hts
        simp only [Option.map_some, Option.some.injEq] at hts
        subst hts
        simp only [List.mem_map] at hx
        obtain ⟨c, hc, rfl⟩ := hx
        exact canon_charsToks _
    · intro x hx
      simp only [List.mem_map] at hx
      obtain ⟨p, hp, rfl⟩ := hx
      exact (bookingT_ok p (hps p hp)).2
  have hit : itemV v.bytes = some (.tx (txInput t)) := by
    simp only [txInput, v, itemV, DirT.bytes, dateT, parseDate_fmtDate _ hd.1 hd.2, utf8_str, Option.bind_eq_bind, Option.bind_some,
      List.map_map, Option.map_none]
    have hb := mapM_bookingV (everyOther t.postings) hps
    simp only [Function.comp_def] at hb ⊢
    rw [hb]
    cases htar : t.targets with
    | none => rfl
    | some tg =>
      simp only [Option.map_some, List.map_map, Function.comp_def, mapM_utf8_strToks tg, Option.bind_some]
      rfl
  rw [strBytes_eq_flat, e, load_one pad path v hv.1 hv.2 _ hit]
  -- `transaction.Create` on the re-read bookings
  have hwf : ((everyOther t.postings).map bookingOf).all (fun b => b.credit.wf && b.debit.wf) = true := by
    rw [List.all_eq_true]
    intro b hb
    simp only [List.mem_map] at hb
    obtain ⟨p, hp, rfl⟩ := hb
    have h1 := (hps p hp).1
    have h2 := (hps p hp).2.1
    simp only [PrintableAccount, Bool.and_eq_true] at h1 h2
    simp [bookingOf, h1.1, h2.1]
  have hpost : Accrual.postingsOf ((everyOther t.postings).map bookingOf) = t.postings := by
    simp only [Accrual.postingsOf, bookingOf, List.flatMap_map]
    exact hnf.symm
  simp only [txInput, loadItems, loadItems.go, Accrual.create, hwf, Bool.not_true, Bool.false_eq_true, if_false, hpost,
    List.map_cons, List.map_nil, List.reverse_cons, List.reverse_nil, List.nil_append, List.append_nil]

end Knut.FromSyntax
