import Knut.Proofs.Balance
import Knut.Proofs.Check
import Knut.Proofs.Builder
import Knut.Spec.Ledger
import Knut.Properties.C02
/-!
# Helper lemmas for the closing clause of C02 (`Knut.Properties.C02Close`)

With period closing and no valuation, the report inserts of the pipeline model are a permutation of
`Spec.ledgerEntries`.  Route: (1) `Inv`: after the days `r` (latest first) the CloseAccounts accumulator of every
closable position equals the restart-on-closing recursion `Arev`, which `total_eq` identifies with the
specification's direct sum `bookedBetween … (prevClosing s) s`; (2) `closing_day_perm`: on a closing day the
closing transactions insert, up to order, the ledger's closing entries; (3) `inv_step`: accumulating the day's
transactions and the closings re-establishes the invariant; (4) `run_perm`, `closing_days_perm`: glue over days.
-/
namespace Knut.LedgerClose
open Knut Knut.Spec

/-! ### generic list facts -/

theorem mem_eraseDups {α : Type} [BEq α] [LawfulBEq α] : ∀ (n : Nat) (l : List α), l.length ≤ n → ∀ x, x ∈ l.eraseDups ↔ x ∈ l := by
  intro n
  induction n with
  | zero => intro l hl x; cases l with
    | nil => simp
    | cons a as => simp at hl
  | succ n ih =>
    intro l hl x
    cases l with
    | nil => simp
    | cons a as =>
      rw [List.eraseDups_cons]
      have hlen : (as.filter fun b => !b == a).length ≤ n := by
        have := List.length_filter_le (fun b => !b == a) as
        simp only [List.length_cons] at hl; omega
      simp only [List.mem_cons, ih _ hlen x, List.mem_filter]
      constructor
      · rintro (h | h)
        · exact Or.inl h
        · exact Or.inr h.1
      · rintro (h | h)
        · exact Or.inl h
        · by_cases hx : x = a
          · exact Or.inl hx
          · right; refine ⟨h, ?_⟩; simp [hx]

theorem nodup_eraseDups {α : Type} [BEq α] [LawfulBEq α] : ∀ (n : Nat) (l : List α), l.length ≤ n → l.eraseDups.Nodup := by
  intro n
  induction n with
  | zero => intro l hl; cases l with
    | nil => simp
    | cons a as => simp at hl
  | succ n ih =>
    intro l hl
    cases l with
    | nil => simp
    | cons a as =>
      rw [List.eraseDups_cons]
      have hlen : (as.filter fun b => !b == a).length ≤ n := by
        have := List.length_filter_le (fun b => !b == a) as
        simp only [List.length_cons] at hl; omega
      rw [List.nodup_cons]
      refine ⟨?_, ih _ hlen⟩
      rw [mem_eraseDups _ _ hlen]
      simp

/-- flat-mapping over two duplicate-free lists that agree wherever the function is non-empty -/
theorem flatMap_perm_of_nodup {α β : Type} (f : α → List β) (l₁ l₂ : List α) (h₁ : l₁.Nodup) (h₂ : l₂.Nodup)
    (h12 : ∀ a ∈ l₁, a ∉ l₂ → f a = []) (h21 : ∀ a ∈ l₂, a ∉ l₁ → f a = []) :
    (l₁.flatMap f).Perm (l₂.flatMap f) := by
  have key : ∀ l : List α, l.flatMap f = (l.filter (fun a => !(f a).isEmpty)).flatMap f := by
    intro l
    induction l with
    | nil => rfl
    | cons a as ih =>
      simp only [List.flatMap_cons, List.filter_cons]
      cases hfa : f a with
      | nil => simpa using ih
      | cons b bs => simp [hfa, ih]
  rw [key l₁, key l₂]
  apply List.Perm.flatMap_right
  rw [List.perm_ext_iff_of_nodup (h₁.filter _) (h₂.filter _)]
  intro a
  simp only [List.mem_filter]
  constructor
  · rintro ⟨h, hne⟩
    refine ⟨?_, hne⟩
    apply Classical.byContradiction
    intro hn
    rw [h12 a h hn] at hne; simp at hne
  · rintro ⟨h, hne⟩
    refine ⟨?_, hne⟩
    apply Classical.byContradiction
    intro hn
    rw [h21 a h hn] at hne; simp at hne

theorem flatMap_perm_left {α β : Type} {f g : α → List β} : ∀ (l : List α), (∀ a ∈ l, (f a).Perm (g a)) →
    (l.flatMap f).Perm (l.flatMap g)
  | [], _ => List.Perm.refl _
  | a :: as, h => by
    simp only [List.flatMap_cons]
    exact (h a List.mem_cons_self).append (flatMap_perm_left as (fun b hb => h b (List.mem_cons_of_mem _ hb)))

/-- splitting a flat-map of concatenations -/
theorem flatMap_append_perm {α β : Type} (f g : α → List β) : ∀ (l : List α),
    (l.flatMap (fun a => f a ++ g a)).Perm (l.flatMap f ++ l.flatMap g)
  | [] => List.Perm.refl _
  | a :: as => by
    simp only [List.flatMap_cons]
    have ih := flatMap_append_perm f g as
    -- f a ++ g a ++ rest ~ f a ++ F ++ (g a ++ G)
    refine ((List.Perm.refl (f a ++ g a)).append ih).trans ?_
    rw [List.append_assoc, List.append_assoc]
    apply List.Perm.append_left
    rw [← List.append_assoc, ← List.append_assoc]
    apply List.Perm.append_right
    exact List.perm_append_comm


theorem filterMap_ext' {α β : Type} {f g : α → Option β} : ∀ (l : List α), (∀ x ∈ l, f x = g x) → l.filterMap f = l.filterMap g
  | [], _ => rfl
  | x :: rest, h => by
    simp only [List.filterMap_cons, h x List.mem_cons_self]
    rw [filterMap_ext' rest (fun y hy => h y (List.mem_cons_of_mem _ hy))]

/-! ### the CloseAccounts accumulator as a fold over postings -/

def accStep (st : BalState) (p : Posting) : BalState :=
  if p.account.isAL || p.account = equityAccount then st
  else
    let k : Position := (p.account, p.commodity)
    { st with cQty := st.cQty.set k (st.cQty.get k 0 + p.quantity),
              cVal := st.cVal.set k (st.cVal.get k 0 + p.value) }

theorem accumulate_eq (ts : List Transaction) : ∀ (st : BalState),
    Balance.accumulate st ts = (ts.flatMap (·.postings)).foldl accStep st := by
  unfold Balance.accumulate
  induction ts with
  | nil => intro st; rfl
  | cons t rest ih =>
    intro st
    simp only [List.foldl_cons, List.flatMap_cons, List.foldl_append]
    rw [ih]
    rfl

/-- total quantity a list of postings books on a position -/
def qtySum (ps : List Posting) (k : Position) : Rat :=
  ((ps.filter (fun p => decide (p.account = k.1) && decide (p.commodity = k.2))).map (·.quantity)).sum

theorem qtySum_nil (k : Position) : qtySum [] k = 0 := rfl

theorem qtySum_cons (p : Posting) (ps : List Posting) (k : Position) :
    qtySum (p :: ps) k = (if p.account = k.1 ∧ p.commodity = k.2 then p.quantity else 0) + qtySum ps k := by
  unfold qtySum
  by_cases h : p.account = k.1 ∧ p.commodity = k.2
  · simp [h]
  · have : (decide (p.account = k.1) && decide (p.commodity = k.2)) = false := by
      simp only [Bool.and_eq_false_imp, decide_eq_true_eq, decide_eq_false_iff_not]
      intro h1 h2; exact h ⟨h1, h2⟩
    simp only [List.filter_cons, this, h, if_false, Bool.false_eq_true]
    exact (Rat.zero_add _).symm

theorem qtySum_append (ps qs : List Posting) (k : Position) : qtySum (ps ++ qs) k = qtySum ps k + qtySum qs k := by
  unfold qtySum; simp [List.filter_append, List.map_append, List.sum_append]

theorem closable_iff (a : Account) : closable a = true ↔ ¬ (a.isAL = true) ∧ a ≠ equityAccount := by
  unfold closable; simp

theorem accStep_closable {st : BalState} {p : Posting} (h : closable p.account = true) :
    accStep st p = { st with cQty := st.cQty.set (p.account, p.commodity) (st.cQty.get (p.account, p.commodity) 0 + p.quantity),
                             cVal := st.cVal.set (p.account, p.commodity) (st.cVal.get (p.account, p.commodity) 0 + p.value) } := by
  have := (closable_iff _).mp h
  unfold accStep
  simp [this.1, this.2]

theorem accStep_not_closable {st : BalState} {p : Posting} (h : ¬ closable p.account = true) : accStep st p = st := by
  unfold accStep
  have : (p.account.isAL || decide (p.account = equityAccount)) = true := by
    rw [closable_iff] at h
    by_cases h1 : p.account.isAL = true
    · simp [h1]
    · by_cases h2 : p.account = equityAccount
      · simp [h2]
      · exact absurd ⟨h1, h2⟩ h
  simp only [this, if_true]

theorem fold_qty (ps : List Posting) : ∀ (st : BalState) (k : Position), closable k.1 = true →
    (ps.foldl accStep st).cQty.get k 0 = st.cQty.get k 0 + qtySum ps k := by
  induction ps with
  | nil => intro st k _; rw [qtySum_nil, Rat.add_zero]; rfl
  | cons p rest ih =>
    intro st k hk
    simp only [List.foldl_cons]
    rw [ih _ k hk, qtySum_cons, ← Rat.add_assoc]
    congr 1
    by_cases hc : closable p.account = true
    · rw [accStep_closable hc]
      simp only
      rw [AMap.get_set]
      by_cases he : (p.account, p.commodity) = k
      · subst he; simp
      · have : ¬ (p.account = k.1 ∧ p.commodity = k.2) := by
          intro ⟨h1, h2⟩; apply he; cases k; simp_all
        simp only [he, this, if_false]; exact (Rat.add_zero _).symm
    · rw [accStep_not_closable hc]
      have : ¬ (p.account = k.1 ∧ p.commodity = k.2) := by
        intro ⟨h1, _⟩; rw [h1] at hc; exact hc hk
      simp only [this, if_false]; exact (Rat.add_zero _).symm

theorem fold_val (ps : List Posting) : ∀ (st : BalState), (∀ p ∈ ps, p.value = 0) → (∀ k, st.cVal.get k 0 = 0) →
    ∀ k, (ps.foldl accStep st).cVal.get k 0 = 0 := by
  induction ps with
  | nil => intro st _ h; exact h
  | cons p rest ih =>
    intro st hp h
    simp only [List.foldl_cons]
    apply ih _ (fun q hq => hp q (List.mem_cons_of_mem _ hq))
    intro k
    by_cases hc : closable p.account = true
    · rw [accStep_closable hc]
      simp only
      rw [AMap.get_set, hp p List.mem_cons_self, h, h]
      split
      · exact Rat.add_zero 0
      · rfl
    · rw [accStep_not_closable hc]; exact h k

theorem fold_nodup (ps : List Posting) : ∀ (st : BalState), AMap.NodupKeys st.cQty →
    AMap.NodupKeys (ps.foldl accStep st).cQty := by
  induction ps with
  | nil => intro st h; exact h
  | cons p rest ih =>
    intro st h
    simp only [List.foldl_cons]
    apply ih
    by_cases hc : closable p.account = true
    · rw [accStep_closable hc]; exact AMap.nodup_set h _ _
    · rw [accStep_not_closable hc]; exact h

theorem fold_keys (ps : List Posting) : ∀ (st : BalState) (k : Position), k ∈ (ps.foldl accStep st).cQty.map (·.1) →
    k ∈ st.cQty.map (·.1) ∨ ∃ p ∈ ps, closable p.account = true ∧ k = (p.account, p.commodity) := by
  induction ps with
  | nil => intro st k h; exact Or.inl h
  | cons p rest ih =>
    intro st k h
    simp only [List.foldl_cons] at h
    rcases ih _ k h with h1 | ⟨q, hq, hqc, hqk⟩
    · by_cases hc : closable p.account = true
      · rw [accStep_closable hc] at h1
        simp only at h1
        rcases (AMap.keys_set _ _ _ k).mp h1 with h2 | h2
        · exact Or.inr ⟨p, List.mem_cons_self, hc, h2⟩
        · exact Or.inl h2
      · rw [accStep_not_closable hc] at h1; exact Or.inl h1
    · exact Or.inr ⟨q, List.mem_cons_of_mem _ hq, hqc, hqk⟩

theorem fold_entries (ps : List Posting) : ∀ (st : BalState), (ps.foldl accStep st).entries = st.entries := by
  induction ps with
  | nil => intro st; rfl
  | cons p rest ih =>
    intro st
    simp only [List.foldl_cons]
    rw [ih]
    unfold accStep; split <;> rfl

/-! ### closing transactions -/

/-- the closing transaction of position `k` with accumulated quantity `q` (value 0) -/
def closeTx (s : Int) (k : Position) (q : Rat) : Transaction :=
  { date := s, description := "Closing account " ++ k.1.name ++ " in " ++ k.2,
    postings := postingBuild k.1 equityAccount k.2 q 0 }

theorem closings_zero (s : Int) (cQty cVal : AMap Position Rat) (hv : ∀ k, cVal.get k 0 = 0) :
    Balance.closings s cQty cVal = cQty.filterMap (fun e => if e.2 = 0 then none else some (closeTx s e.1 e.2)) := by
  unfold Balance.closings
  apply filterMap_ext'
  intro e _
  obtain ⟨⟨a, c⟩, q⟩ := e
  simp only [hv, decide_true, Bool.and_true, decide_eq_true_eq]
  rfl

theorem qtySum_build (a : Account) (c : Commodity) (q : Rat) (k : Position) (hk : closable k.1 = true) :
    qtySum (postingBuild a equityAccount c q 0) k = if (a, c) = k then -q else 0 := by
  have hne : ¬ equityAccount = k.1 := fun e => ((closable_iff _).mp hk).2 e.symm
  obtain ⟨ka, kc⟩ := k
  simp only at hne
  unfold postingBuild
  by_cases hneg : q < 0
  · by_cases he : a = ka ∧ c = kc
    · simp [qtySum_cons, qtySum_nil, hneg, hne, he, Rat.add_zero, Rat.neg_neg, Rat.zero_add]
    · have : ¬ (a, c) = (ka, kc) := by intro e; injection e with e1 e2; exact he ⟨e1, e2⟩
      simp [qtySum_cons, qtySum_nil, hneg, hne, he, this, Rat.add_zero]
  · have hlt : ¬ ((0:Rat) < 0) := Rat.lt_irrefl
    by_cases he : a = ka ∧ c = kc
    · by_cases hz : q = 0
      · subst hz; simp [qtySum_cons, qtySum_nil, hne, he, hlt, Rat.add_zero]
      · simp [qtySum_cons, qtySum_nil, hneg, hz, hne, he, Rat.add_zero]
    · have : ¬ (a, c) = (ka, kc) := by intro e; injection e with e1 e2; exact he ⟨e1, e2⟩
      by_cases hz : q = 0
      · subst hz; simp [qtySum_cons, qtySum_nil, hne, he, this, hlt, Rat.add_zero]
      · simp [qtySum_cons, qtySum_nil, hneg, hz, hne, he, this, Rat.add_zero]

/-- the postings of all closing transactions of a day -/
def closePostings (s : Int) (cQty : AMap Position Rat) : List Posting :=
  (cQty.filterMap (fun e => if e.2 = 0 then none else some (closeTx s e.1 e.2))).flatMap (·.postings)

theorem closePostings_cons (s : Int) (k : Position) (q : Rat) (rest : AMap Position Rat) :
    closePostings s ((k, q) :: rest) =
      (if q = 0 then [] else postingBuild k.1 equityAccount k.2 q 0) ++ closePostings s rest := by
  unfold closePostings
  by_cases hq : q = 0
  · simp [hq]
  · simp [hq, closeTx]

theorem get_zero_of_not_key {m : AMap Position Rat} {k : Position} (h : k ∉ m.map (·.1)) : m.get k 0 = 0 := by
  unfold AMap.get
  cases hf : AMap.find? m k with
  | none => rfl
  | some v => exact absurd (List.mem_map.mpr ⟨(k, v), AMap.mem_of_find? hf, rfl⟩) h

theorem get_cons (k' k : Position) (q : Rat) (rest : AMap Position Rat) :
    AMap.get ((k', q) :: rest) k 0 = if k' = k then q else AMap.get rest k 0 := by
  unfold AMap.get
  simp only [AMap.find?]
  split <;> rfl

/-- the closing transactions take every accumulated total off its position -/
theorem qtySum_closePostings (s : Int) (k : Position) (hk : closable k.1 = true) : ∀ (cQty : AMap Position Rat),
    AMap.NodupKeys cQty → qtySum (closePostings s cQty) k = -(cQty.get k 0) := by
  intro cQty
  induction cQty with
  | nil => intro _; exact Rat.neg_zero.symm
  | cons e rest ih =>
    obtain ⟨k', q⟩ := e
    intro hn
    unfold AMap.NodupKeys at hn
    simp only [List.map_cons, List.nodup_cons] at hn
    rw [closePostings_cons, qtySum_append, ih hn.2, get_cons]
    have hhead : qtySum (if q = 0 then [] else postingBuild k'.1 equityAccount k'.2 q 0) k = if k' = k then -q else 0 := by
      by_cases hq : q = 0
      · subst hq; simp [qtySum_nil, Rat.neg_zero]
      · simp only [hq, if_false]; exact qtySum_build _ _ _ _ hk
    rw [hhead]
    by_cases hkk : k' = k
    · subst hkk
      simp only [if_true]
      rw [get_zero_of_not_key hn.1, Rat.neg_zero, Rat.add_zero]
    · simp only [hkk, if_false]; exact Rat.zero_add _

theorem build_value_zero (a b : Account) (c : Commodity) (q : Rat) : ∀ p ∈ postingBuild a b c q 0, p.value = 0 := by
  intro p hp
  unfold postingBuild at hp
  simp only [List.mem_cons, List.not_mem_nil, or_false] at hp
  rcases hp with rfl | rfl
  · simp only; split <;> simp [Rat.neg_zero]
  · simp only; split <;> simp [Rat.neg_zero]

theorem closePostings_value (s : Int) : ∀ (cQty : AMap Position Rat), ∀ p ∈ closePostings s cQty, p.value = 0 := by
  intro cQty
  induction cQty with
  | nil => intro p hp; cases hp
  | cons e rest ih =>
    obtain ⟨k', q⟩ := e
    intro p hp
    rw [closePostings_cons] at hp
    rcases List.mem_append.mp hp with h | h
    · split at h
      · cases h
      · exact build_value_zero _ _ _ _ p h
    · exact ih p h

theorem build_account (a b : Account) (c : Commodity) (q : Rat) : ∀ p ∈ postingBuild a b c q 0,
    (p.account = a ∨ p.account = b) ∧ p.commodity = c := by
  intro p hp
  unfold postingBuild at hp
  simp only [List.mem_cons, List.not_mem_nil, or_false] at hp
  rcases hp with rfl | rfl
  · simp only; split <;> simp
  · simp only; split <;> simp

theorem closePostings_keys (s : Int) : ∀ (cQty : AMap Position Rat), ∀ p ∈ closePostings s cQty,
    closable p.account = true → (p.account, p.commodity) ∈ cQty.map (·.1) := by
  intro cQty
  induction cQty with
  | nil => intro p hp; cases hp
  | cons e rest ih =>
    obtain ⟨k', q⟩ := e
    intro p hp hc
    rw [closePostings_cons] at hp
    rcases List.mem_append.mp hp with h | h
    · split at h
      · cases h
      · obtain ⟨ha, hcm⟩ := build_account _ _ _ _ p h
        rcases ha with ha | ha
        · rw [ha, hcm]; exact List.mem_cons_self
        · rw [ha] at hc; exact absurd rfl ((closable_iff _).mp hc).2
    · exact List.mem_cons_of_mem _ (ih p h hc)

/-! ### the specification's totals, day by day -/

/-- the model's test for a closing day -/
def isClosing (cfg : BalCfg) (d : Day) : Bool := (cfg.periods.map (·.start)).contains d.date

theorem isClosing_iff (cfg : BalCfg) (d : Day) : isClosing cfg d = true ↔ d.date ∈ closingDays cfg := by
  unfold isClosing closingDays; simp

/-- the postings of a day that pass the window filter -/
def dayPostings (cfg : BalCfg) (d : Day) : List Posting :=
  (if cfg.span.contains d.date then d.transactions else []).flatMap (·.postings)

def dayQty (cfg : BalCfg) (d : Day) (k : Position) : Rat := qtySum (dayPostings cfg d) k

/-- the accumulated total after processing the days `r` (latest first): restarts on every closing day -/
def Arev (cfg : BalCfg) : List Day → Position → Rat
  | [], _ => 0
  | d :: r, k => (if isClosing cfg d then 0 else Arev cfg r k) + dayQty cfg d k

/-- the latest closing day among `r` (latest first) -/
def firstClose (cfg : BalCfg) : List Day → Option Int
  | [] => none
  | d :: r => if isClosing cfg d then some d.date else firstClose cfg r

def inRange (cfg : BalCfg) (lo : Option Int) (hi : Int) (x : Int) : Bool :=
  cfg.span.contains x && decide (x < hi) && (match lo with | some l => decide (l ≤ x) | none => true)

theorem bookedBetween_append (cfg : BalCfg) (xs ys : List Day) (k : Position) (lo : Option Int) (hi : Int) :
    bookedBetween cfg (xs ++ ys) k lo hi = bookedBetween cfg xs k lo hi + bookedBetween cfg ys k lo hi := by
  unfold bookedBetween datedPostings
  simp only [List.flatMap_append, List.filter_append, List.map_append, List.sum_append]

theorem bookedBetween_nil (cfg : BalCfg) (k : Position) (lo : Option Int) (hi : Int) :
    bookedBetween cfg [] k lo hi = 0 := rfl

theorem dated_of_consistent (x : Int) : ∀ (ts : List Transaction), (∀ t ∈ ts, t.date = x) →
    ts.flatMap (fun t => t.postings.map (fun p => (t.date, p))) = (ts.flatMap (·.postings)).map (fun p => (x, p))
  | [], _ => rfl
  | t :: rest, h => by
    simp only [List.flatMap_cons, List.map_append]
    rw [dated_of_consistent x rest (fun t ht => h t (List.mem_cons_of_mem _ ht)), h t List.mem_cons_self]

theorem bookedBetween_eq (cfg : BalCfg) (days : List Day) (k : Position) (lo : Option Int) (hi : Int) :
    bookedBetween cfg days k lo hi = (((datedPostings days).filter (fun x =>
      inRange cfg lo hi x.1 && decide (x.2.account = k.1) && decide (x.2.commodity = k.2))).map (fun x => x.2.quantity)).sum := rfl

theorem bookedBetween_single (cfg : BalCfg) (d : Day) (hd : ∀ t ∈ d.transactions, t.date = d.date)
    (k : Position) (lo : Option Int) (hi : Int) :
    bookedBetween cfg [d] k lo hi = if inRange cfg lo hi d.date then qtySum (d.transactions.flatMap (·.postings)) k else 0 := by
  rw [bookedBetween_eq]
  unfold datedPostings
  simp only [List.flatMap_cons, List.flatMap_nil, List.append_nil]
  rw [dated_of_consistent d.date d.transactions hd, List.filter_map, List.map_map]
  simp only [Function.comp_def]
  generalize inRange cfg lo hi d.date = b
  cases b with
  | true =>
    simp only [if_true, Bool.true_and]
    rfl
  | false =>
    simp only [Bool.false_eq_true, if_false, Bool.false_and]
    have : ∀ l : List Posting, l.filter (fun _ => false) = [] := by
      intro l; rw [List.filter_eq_nil_iff]; intro _ _; simp
    rw [this]; rfl

theorem bookedBetween_cons (cfg : BalCfg) (d : Day) (xs : List Day) (k : Position) (lo : Option Int) (hi : Int) :
    bookedBetween cfg (d :: xs) k lo hi = bookedBetween cfg [d] k lo hi + bookedBetween cfg xs k lo hi :=
  bookedBetween_append cfg [d] xs k lo hi

theorem bookedBetween_zero (cfg : BalCfg) (k : Position) (lo : Option Int) (hi : Int) : ∀ (xs : List Day),
    (∀ d ∈ xs, ∀ t ∈ d.transactions, t.date = d.date) → (∀ d ∈ xs, inRange cfg lo hi d.date = false) →
    bookedBetween cfg xs k lo hi = 0
  | [], _, _ => rfl
  | d :: xs, hc, hr => by
    rw [bookedBetween_cons, bookedBetween_single cfg d (hc d List.mem_cons_self), hr d List.mem_cons_self,
      bookedBetween_zero cfg k lo hi xs (fun d hd => hc d (List.mem_cons_of_mem _ hd))
        (fun d hd => hr d (List.mem_cons_of_mem _ hd))]
    simp only [Bool.false_eq_true, if_false]
    exact Rat.add_zero 0

theorem dayQty_eq (cfg : BalCfg) (d : Day) (k : Position) :
    dayQty cfg d k = if cfg.span.contains d.date then qtySum (d.transactions.flatMap (·.postings)) k else 0 := by
  unfold dayQty dayPostings
  split
  · rfl
  · rfl

theorem firstClose_mem (cfg : BalCfg) : ∀ (r : List Day) (l : Int), firstClose cfg r = some l → l ∈ r.map (·.date)
  | [], _, h => by cases h
  | d :: r, l, h => by
    unfold firstClose at h
    split at h
    · injection h with h; subst h; exact List.mem_cons_self
    · exact List.mem_cons_of_mem _ (firstClose_mem cfg r l h)

/-- the restart-on-closing recursion computes the direct sum over `[latest closing day, s)` -/
theorem Arev_eq (cfg : BalCfg) (k : Position) (s : Int) : ∀ (r : List Day),
    List.Pairwise (fun a b : Day => b.date < a.date) r → (∀ d ∈ r, d.date < s) →
    (∀ d ∈ r, ∀ t ∈ d.transactions, t.date = d.date) →
    Arev cfg r k = bookedBetween cfg r.reverse k (firstClose cfg r) s
  | [], _, _, _ => rfl
  | d :: r, hp, hs, hc => by
    rw [List.pairwise_cons] at hp
    have hc' : ∀ d' ∈ r, ∀ t ∈ d'.transactions, t.date = d'.date := fun d' hd' => hc d' (List.mem_cons_of_mem _ hd')
    have hs' : ∀ d' ∈ r, d'.date < s := fun d' hd' => hs d' (List.mem_cons_of_mem _ hd')
    have hds : d.date < s := hs d List.mem_cons_self
    rw [List.reverse_cons, bookedBetween_append, bookedBetween_single cfg d (hc d List.mem_cons_self)]
    unfold Arev firstClose
    by_cases hcl : isClosing cfg d = true
    · simp only [hcl, if_true]
      rw [bookedBetween_zero cfg k (some d.date) s r.reverse (fun d' hd' => hc' d' (List.mem_reverse.mp hd'))]
      · rw [dayQty_eq]
        unfold inRange
        simp [hds]
      · intro d' hd'
        have := hp.1 d' (List.mem_reverse.mp hd')
        unfold inRange
        have h2 : ¬ d.date ≤ d'.date := by omega
        simp [h2]
    · simp only [hcl, if_false, Bool.false_eq_true]
      rw [← Arev_eq cfg k s r hp.2 hs' hc']
      congr 1
      rw [dayQty_eq]
      unfold inRange
      cases hf : firstClose cfg r with
      | none => simp [hds]
      | some l =>
        have hm := firstClose_mem cfg r l hf
        obtain ⟨d', hd', hdl⟩ := List.mem_map.mp hm
        have := hp.1 d' hd'
        have h2 : l ≤ d.date := by omega
        simp [hds, h2]

theorem getLast?_of_max : ∀ (ys : List Int) (l : Int), List.Pairwise (· < ·) ys → l ∈ ys → (∀ y ∈ ys, y ≤ l) →
    ys.getLast? = some l
  | [], _, _, hm, _ => by cases hm
  | [y], l, _, hm, _ => by
    simp only [List.mem_cons, List.not_mem_nil, or_false] at hm
    subst hm; rfl
  | y :: y' :: rest, l, hp, hm, hmax => by
    rw [List.getLast?_cons_cons]
    rw [List.pairwise_cons] at hp
    apply getLast?_of_max (y' :: rest) l hp.2
    · rcases List.mem_cons.mp hm with h | h
      · subst h
        have h1 := hp.1 y' List.mem_cons_self
        have h2 := hmax y' (List.mem_cons_of_mem _ List.mem_cons_self)
        omega
      · exact h
    · intro z hz; exact hmax z (List.mem_cons_of_mem _ hz)

/-- the specification's previous closing day is the latest closing day among the days before `s` -/
theorem prevClosing_eq (cfg : BalCfg) (hper : List.Pairwise (· < ·) (closingDays cfg)) : ∀ (r : List Day) (s : Int),
    List.Pairwise (fun a b : Day => b.date < a.date) r → (∀ d ∈ r, d.date < s) →
    (∀ l ∈ closingDays cfg, l < s → l ∈ r.map (·.date)) →
    prevClosing cfg s = firstClose cfg r
  | [], s, _, _, hcd => by
    unfold prevClosing firstClose
    have : (closingDays cfg).filter (fun x => decide (x < s)) = [] := by
      rw [List.filter_eq_nil_iff]
      intro l hl hlt
      simp only [decide_eq_true_eq] at hlt
      have := hcd l hl hlt
      cases this
    rw [this]; rfl
  | d :: r, s, hp, hs, hcd => by
    rw [List.pairwise_cons] at hp
    have hds : d.date < s := hs d List.mem_cons_self
    unfold firstClose
    by_cases hcl : isClosing cfg d = true
    · simp only [hcl, if_true]
      unfold prevClosing
      apply getLast?_of_max _ _ (hper.filter _)
      · simp only [List.mem_filter, decide_eq_true_eq]
        exact ⟨(isClosing_iff cfg d).mp hcl, hds⟩
      · intro y hy
        simp only [List.mem_filter, decide_eq_true_eq] at hy
        have := hcd y hy.1 hy.2
        simp only [List.map_cons] at this
        rcases List.mem_cons.mp this with h | h
        · omega
        · obtain ⟨d', hd', hdl⟩ := List.mem_map.mp h
          have := hp.1 d' hd'
          omega
    · simp only [hcl, if_false, Bool.false_eq_true]
      have hnc : d.date ∉ closingDays cfg := fun h => hcl ((isClosing_iff cfg d).mpr h)
      have hcd' : ∀ l ∈ closingDays cfg, l < d.date → l ∈ r.map (·.date) := by
        intro l hl hlt
        have := hcd l hl (by omega)
        simp only [List.map_cons] at this
        rcases List.mem_cons.mp this with h | h
        · omega
        · exact h
      rw [← prevClosing_eq cfg hper r d.date hp.2 hp.1 hcd']
      unfold prevClosing
      congr 1
      apply List.filter_congr
      intro l hl
      have : l < s ↔ l < d.date := by
        constructor
        · intro hlt
          have := hcd l hl hlt
          simp only [List.map_cons] at this
          rcases List.mem_cons.mp this with h | h
          · exact absurd (h ▸ hl) hnc
          · obtain ⟨d', hd', hdl⟩ := List.mem_map.mp h
            have := hp.1 d' hd'
            omega
        · intro hlt; omega
      simp only [this]

/-- at a closing day, the specification's total is the restart-on-closing recursion over the earlier days -/
theorem total_eq (cfg : BalCfg) (hper : List.Pairwise (· < ·) (closingDays cfg)) (r : List Day) (d : Day) (post : List Day)
    (hs : Sorted (r.reverse ++ d :: post))
    (hc : ∀ d' ∈ r.reverse ++ d :: post, ∀ t ∈ d'.transactions, t.date = d'.date)
    (hcd : ∀ s ∈ closingDays cfg, s ∈ (r.reverse ++ d :: post).map (·.date)) (k : Position) :
    bookedBetween cfg (r.reverse ++ d :: post) k (prevClosing cfg d.date) d.date = Arev cfg r k := by
  unfold Sorted at hs
  rw [List.pairwise_append] at hs
  obtain ⟨h1, h2, h3⟩ := hs
  rw [List.pairwise_reverse] at h1
  rw [List.pairwise_cons] at h2
  have hlt : ∀ d' ∈ r, d'.date < d.date := fun d' hd' => h3 d' (List.mem_reverse.mpr hd') d List.mem_cons_self
  have hcr : ∀ d' ∈ r, ∀ t ∈ d'.transactions, t.date = d'.date :=
    fun d' hd' => hc d' (List.mem_append_left _ (List.mem_reverse.mpr hd'))
  have hcp : ∀ d' ∈ d :: post, ∀ t ∈ d'.transactions, t.date = d'.date :=
    fun d' hd' => hc d' (List.mem_append_right _ hd')
  have hcd' : ∀ l ∈ closingDays cfg, l < d.date → l ∈ r.map (·.date) := by
    intro l hl hlt'
    have := hcd l hl
    simp only [List.map_append, List.map_reverse, List.map_cons, List.mem_append, List.mem_reverse, List.mem_cons] at this
    rcases this with h | h | h
    · exact h
    · omega
    · obtain ⟨d', hd', hdl⟩ := List.mem_map.mp h
      have := h2.1 d' hd'
      omega
  rw [bookedBetween_append, prevClosing_eq cfg hper r d.date h1 hlt hcd', ← Arev_eq cfg k d.date r h1 hlt hcr,
    bookedBetween_zero cfg k _ d.date (d :: post) hcp, Rat.add_zero]
  intro d' hd'
  unfold inRange
  have : ¬ d'.date < d.date := by
    rcases List.mem_cons.mp hd' with h | h
    · subst h; omega
    · have := h2.1 d' h; omega
  simp [this]

theorem mem_positions (days : List Day) (k : Position) : k ∈ positions days ↔
    ∃ d ∈ days, ∃ t ∈ d.transactions, ∃ p ∈ t.postings, closable p.account = true ∧ k = (p.account, p.commodity) := by
  unfold positions
  rw [mem_eraseDups _ _ (Nat.le_refl _)]
  unfold datedPostings
  simp only [List.mem_filterMap, List.mem_flatMap, List.mem_map]
  constructor
  · rintro ⟨⟨dt, p⟩, ⟨d, hd, t, ht, p', hp', he⟩, hk⟩
    injection he with he1 he2
    subst he2
    simp only at hk
    split at hk
    · rename_i hcl
      injection hk with hk
      exact ⟨d, hd, t, ht, p', hp', hcl, hk.symm⟩
    · cases hk
  · rintro ⟨d, hd, t, ht, p, hp, hcl, hk⟩
    refine ⟨(t.date, p), ⟨d, hd, t, ht, p, hp, rfl⟩, ?_⟩
    simp only [hcl, if_true, hk]

theorem nodup_positions (days : List Day) : (positions days).Nodup := by
  unfold positions
  exact nodup_eraseDups _ _ (Nat.le_refl _)

/-! ### one day of the pipeline with period closing, unvalued -/

/-- the transactions of day `d` that pass the window filter -/
def dayWin (cfg : BalCfg) (d : Day) : List Transaction := if cfg.span.contains d.date then d.transactions else []

/-- the closing transactions the model emits on day `d` from state `st` -/
def dayCl (cfg : BalCfg) (st : BalState) (d : Day) : List Transaction :=
  if isClosing cfg d then Balance.closings d.date st.cQty st.cVal else []

theorem day_close (cfg : BalCfg) (hv : cfg.valuation = none) (hc : cfg.close = true) (st st' : BalState) (d : Day)
    (h : Balance.day cfg st d = .ok st') :
    ∃ st1 : BalState, st1.cQty = st.cQty ∧ st1.cVal = st.cVal ∧
      st'.cQty = (Balance.accumulate st1 (dayWin cfg d ++ dayCl cfg st d)).cQty ∧
      st'.cVal = (Balance.accumulate st1 (dayWin cfg d ++ dayCl cfg st d)).cVal ∧
      st'.entries = st.entries ++ (dayWin cfg d ++ dayCl cfg st d).flatMap (Balance.queryTx cfg) := by
  unfold Balance.day Balance.dayTxs at h
  simp only [bind, Except.bind] at h
  cases hck : Balance.checkStage st d with
  | error e => rw [hck] at h; cases h
  | ok s1 =>
    rw [hck] at h
    have e1 : s1.entries = st.entries ∧ s1.cQty = st.cQty ∧ s1.cVal = st.cVal := by
      unfold Balance.checkStage at hck
      split at hck
      · injection hck with hck; subst hck; exact ⟨rfl, rfl, rfl⟩
      · cases hck
    unfold Balance.valuationStage Balance.closeStage Balance.filterStage at h
    simp only [hv, hc, if_true] at h
    injection h with h; subst h
    refine ⟨s1, e1.2.1, e1.2.2, ?_, ?_, ?_⟩
    · simp only [dayWin, dayCl, isClosing, e1.2.1, e1.2.2]; rfl
    · simp only [dayWin, dayCl, isClosing, e1.2.1, e1.2.2]; rfl
    · simp only [dayWin, dayCl, isClosing, e1.2.1, e1.2.2]
      rw [accumulate_eq, fold_entries, e1.1]; rfl

/-- the invariant of the CloseAccounts accumulators after processing the days `r` (latest first) -/
structure Inv (cfg : BalCfg) (days r : List Day) (st : BalState) : Prop where
  nodup : AMap.NodupKeys st.cQty
  keys : ∀ k ∈ st.cQty.map (·.1), k ∈ positions days
  qty : ∀ k : Position, closable k.1 = true → st.cQty.get k 0 = Arev cfg r k
  val : ∀ k, st.cVal.get k 0 = 0

theorem Arev_cons (cfg : BalCfg) (d : Day) (r : List Day) (k : Position) :
    Arev cfg (d :: r) k = (if isClosing cfg d then 0 else Arev cfg r k) + dayQty cfg d k := rfl

theorem inv_init (cfg : BalCfg) (days : List Day) : Inv cfg days [] {} :=
  ⟨List.nodup_nil, (by intro k hk; cases hk), (by intro k _; rfl), (by intro k; rfl)⟩

theorem dayCl_postings (cfg : BalCfg) (st : BalState) (d : Day) (hval : ∀ k, st.cVal.get k 0 = 0) :
    (dayCl cfg st d).flatMap (·.postings) = if isClosing cfg d then closePostings d.date st.cQty else [] := by
  unfold dayCl
  split
  · rw [closings_zero _ _ _ hval]; rfl
  · rfl

theorem mem_dayPostings {cfg : BalCfg} {d : Day} {p : Posting} (h : p ∈ dayPostings cfg d) :
    ∃ t ∈ d.transactions, p ∈ t.postings := by
  unfold dayPostings at h
  split at h
  · obtain ⟨t, ht, hp⟩ := List.mem_flatMap.mp h; exact ⟨t, ht, hp⟩
  · cases h

theorem inv_step (cfg : BalCfg) (hv : cfg.valuation = none) (hc : cfg.close = true) (days r : List Day)
    (st st' : BalState) (d : Day) (hd : d ∈ days) (hz : ∀ t ∈ d.transactions, ∀ p ∈ t.postings, p.value = 0)
    (hinv : Inv cfg days r st) (h : Balance.day cfg st d = .ok st') : Inv cfg days (d :: r) st' := by
  obtain ⟨st1, hq1, hv1, hq', hv', _⟩ := day_close cfg hv hc st st' d h
  rw [accumulate_eq] at hq' hv'
  have hps : (dayWin cfg d ++ dayCl cfg st d).flatMap (·.postings) =
      dayPostings cfg d ++ (if isClosing cfg d then closePostings d.date st.cQty else []) := by
    rw [List.flatMap_append, dayCl_postings cfg st d hinv.val]; rfl
  rw [hps] at hq' hv'
  refine ⟨?_, ?_, ?_, ?_⟩
  · rw [hq']; apply fold_nodup; rw [hq1]; exact hinv.nodup
  · intro k hk
    rw [hq'] at hk
    rcases fold_keys _ _ k hk with h1 | ⟨p, hp, hcl, hk⟩
    · rw [hq1] at h1; exact hinv.keys k h1
    · rcases List.mem_append.mp hp with h2 | h2
      · obtain ⟨t, ht, hpt⟩ := mem_dayPostings h2
        exact (mem_positions days k).mpr ⟨d, hd, t, ht, p, hpt, hcl, hk⟩
      · split at h2
        · rw [hk]; exact hinv.keys _ (closePostings_keys _ _ p h2 hcl)
        · cases h2
  · intro k hk
    rw [hq', fold_qty _ _ k hk, hq1, hinv.qty k hk, qtySum_append]
    rw [Arev_cons]
    unfold dayQty
    by_cases hcl : isClosing cfg d = true
    · simp only [hcl, if_true]
      rw [qtySum_closePostings _ k hk _ hinv.nodup, hinv.qty k hk]
      grind
    · simp only [hcl, if_false, Bool.false_eq_true, qtySum_nil, Rat.add_zero]
  · rw [hv']
    apply fold_val
    · intro p hp
      rcases List.mem_append.mp hp with h2 | h2
      · obtain ⟨t, ht, hpt⟩ := mem_dayPostings h2
        exact hz t ht p hpt
      · split at h2
        · exact closePostings_value _ _ p h2
        · cases h2
    · intro k; rw [hv1]; exact hinv.val k

/-! ### the report inserts of one day -/

theorem win_bookings (cfg : BalCfg) (hv : cfg.valuation = none) (d : Day) (hd : ∀ t ∈ d.transactions, t.date = d.date) :
    (dayWin cfg d).flatMap (Balance.queryTx cfg) = Knut.C02.dayBookings cfg d := by
  rw [Knut.C02.dayBookings_eq]
  unfold dayWin
  by_cases hs : cfg.span.contains d.date = true
  · simp only [hs, if_true]
    generalize d.transactions = ts at hd
    induction ts with
    | nil => rfl
    | cons t rest ih =>
      simp only [List.flatMap_cons]
      rw [ih (fun t ht => hd t (List.mem_cons_of_mem _ ht)),
        Knut.C02.txBookings_in cfg hv t (by rw [hd t List.mem_cons_self]; exact hs)]
  · simp only [hs]
    generalize d.transactions = ts at hd
    induction ts with
    | nil => rfl
    | cons t rest ih =>
      simp only [List.flatMap_cons]
      rw [← ih (fun t ht => hd t (List.mem_cons_of_mem _ ht)),
        Knut.C02.txBookings_out cfg t (by rw [hd t List.mem_cons_self]; exact hs)]
      rfl

/-- the ledger's closing pair for position `k` with total `q` at day `s` -/
def pairOf (cfg : BalCfg) (s : Int) (k : Position) (q : Rat) : List Entry :=
  if q = 0 then [] else (entryOf cfg s k.1 k.2 (-q)).toList ++ (entryOf cfg s equityAccount k.2 q).toList

theorem filterMap_pair {α β : Type} (f : α → Option β) (a b : α) : [a, b].filterMap f = (f a).toList ++ (f b).toList := by
  cases ha : f a <;> cases hb : f b <;> simp [ha, hb]

/-- a closing transaction inserts the ledger's pair (possibly in the other order: `postingBuild` swaps for negative totals) -/
theorem closeTx_entries (cfg : BalCfg) (hv : cfg.valuation = none) (s : Int) (k : Position) (q : Rat) (hq : q ≠ 0) :
    (Balance.queryTx cfg (closeTx s k q)).Perm (pairOf cfg s k q) := by
  unfold Balance.queryTx pairOf
  simp only [hq, if_false]
  have hqp : ∀ p, Balance.queryPosting cfg (closeTx s k q) p = entryOf cfg s p.account p.commodity p.quantity :=
    fun p => Knut.C02.queryPosting_eq_entryOf cfg hv (closeTx s k q) p
  have hfun : Balance.queryPosting cfg (closeTx s k q) = fun p => entryOf cfg s p.account p.commodity p.quantity := funext hqp
  rw [hfun]
  show List.Perm ((postingBuild k.1 equityAccount k.2 q 0).filterMap _) _
  unfold postingBuild
  by_cases hneg : q < 0
  · simp only [hneg, decide_true, Bool.true_or, if_true]
    rw [filterMap_pair]
    simp only [Rat.neg_neg]
    exact List.perm_append_comm
  · simp only [hneg, hq, decide_false, Bool.false_and, Bool.or_false, Bool.false_eq_true, if_false]
    rw [filterMap_pair]

theorem closings_entries (cfg : BalCfg) (s : Int) : ∀ (cQty : AMap Position Rat),
    (cQty.filterMap (fun e => if e.2 = 0 then none else some (closeTx s e.1 e.2))).flatMap (Balance.queryTx cfg) =
      cQty.flatMap (fun e => if e.2 = 0 then [] else Balance.queryTx cfg (closeTx s e.1 e.2))
  | [] => rfl
  | e :: rest => by
    simp only [List.filterMap_cons, List.flatMap_cons]
    rw [← closings_entries cfg s rest]
    by_cases h : e.2 = 0
    · simp [h]
    · simp [h]

/-- the ledger's closing entries at day `s` -/
def closeAt (cfg : BalCfg) (days : List Day) (s : Int) : List Entry :=
  (positions days).flatMap (fun k => pairOf cfg s k (bookedBetween cfg days k (prevClosing cfg s) s))

theorem closingEntries_eq (cfg : BalCfg) (hc : cfg.close = true) (days : List Day) :
    closingEntries cfg days = (closingDays cfg).flatMap (closeAt cfg days) := by
  unfold closingEntries
  simp only [hc, Bool.not_true, Bool.false_eq_true, if_false]
  rfl

/-- **the single closing day**: the closing transactions of the model insert, up to order, the ledger's closing entries -/
theorem closing_day_perm (cfg : BalCfg) (hv : cfg.valuation = none) (days : List Day) (s : Int) (st : BalState)
    (hn : AMap.NodupKeys st.cQty) (hk : ∀ k ∈ st.cQty.map (·.1), k ∈ positions days)
    (hq : ∀ k : Position, closable k.1 = true → st.cQty.get k 0 = bookedBetween cfg days k (prevClosing cfg s) s)
    (hval : ∀ k, st.cVal.get k 0 = 0) :
    ((Balance.closings s st.cQty st.cVal).flatMap (Balance.queryTx cfg)).Perm (closeAt cfg days s) := by
  have hclos : ∀ k ∈ positions days, closable k.1 = true := by
    intro k hk'
    obtain ⟨_, _, _, _, p, _, hcl, he⟩ := (mem_positions days k).mp hk'
    rw [he]; exact hcl
  rw [closings_zero _ _ _ hval, closings_entries]
  refine (flatMap_perm_left (g := fun e => pairOf cfg s e.1 (bookedBetween cfg days e.1 (prevClosing cfg s) s)) _ ?_).trans ?_
  · intro e he
    have hkey : e.1 ∈ st.cQty.map (·.1) := List.mem_map.mpr ⟨e, he, rfl⟩
    have hget : st.cQty.get e.1 0 = e.2 := by
      unfold AMap.get
      rw [AMap.find?_of_mem hn (k := e.1) (v := e.2) he]; rfl
    rw [← hq e.1 (hclos e.1 (hk e.1 hkey)), hget]
    by_cases h0 : e.2 = 0
    · simp [h0, pairOf]
    · simp only [h0, if_false]
      exact closeTx_entries cfg hv s e.1 e.2 h0
  · have : st.cQty.flatMap (fun e => pairOf cfg s e.1 (bookedBetween cfg days e.1 (prevClosing cfg s) s)) =
        (st.cQty.map (·.1)).flatMap (fun k => pairOf cfg s k (bookedBetween cfg days k (prevClosing cfg s) s)) := by
      rw [List.flatMap_map]
    rw [this]
    unfold closeAt
    apply flatMap_perm_of_nodup _ _ _ hn (nodup_positions days)
    · intro k hk1 hk2; exact absurd (hk k hk1) hk2
    · intro k hk1 hk2
      rw [← hq k (hclos k hk1), get_zero_of_not_key hk2]
      rfl

/-! ### all days -/

/-- what the ledger attributes to day `d`: its bookings and, on a closing day, the closing entries -/
def daySpec (cfg : BalCfg) (days : List Day) (d : Day) : List Entry :=
  Knut.C02.dayBookings cfg d ++ (if isClosing cfg d then closeAt cfg days d.date else [])

theorem day_entries (cfg : BalCfg) (hv : cfg.valuation = none) (hc : cfg.close = true)
    (hper : List.Pairwise (· < ·) (closingDays cfg)) (r : List Day) (d : Day) (post : List Day)
    (hs : Sorted (r.reverse ++ d :: post))
    (hd : ∀ d' ∈ r.reverse ++ d :: post, ∀ t ∈ d'.transactions, t.date = d'.date)
    (hcd : ∀ s ∈ closingDays cfg, s ∈ (r.reverse ++ d :: post).map (·.date))
    (st st' : BalState) (hinv : Inv cfg (r.reverse ++ d :: post) r st) (h : Balance.day cfg st d = .ok st') :
    st'.entries.Perm (st.entries ++ daySpec cfg (r.reverse ++ d :: post) d) := by
  obtain ⟨_, _, _, _, _, he⟩ := day_close cfg hv hc st st' d h
  have hdm : d ∈ r.reverse ++ d :: post := List.mem_append_right _ List.mem_cons_self
  rw [he, List.flatMap_append, win_bookings cfg hv d (hd d hdm)]
  apply List.Perm.append_left
  unfold daySpec
  apply List.Perm.append_left
  unfold dayCl
  by_cases hcl : isClosing cfg d = true
  · simp only [hcl, if_true]
    apply closing_day_perm cfg hv _ d.date st hinv.nodup hinv.keys _ hinv.val
    intro k hk
    rw [hinv.qty k hk, total_eq cfg hper r d post hs hd hcd k]
  · simp only [hcl, Bool.false_eq_true, if_false]
    exact List.Perm.refl _

theorem run_perm (cfg : BalCfg) (hv : cfg.valuation = none) (hc : cfg.close = true)
    (hper : List.Pairwise (· < ·) (closingDays cfg)) (days : List Day) (hs : Sorted days)
    (hd : ∀ d ∈ days, ∀ t ∈ d.transactions, t.date = d.date)
    (hz : ∀ d ∈ days, ∀ t ∈ d.transactions, ∀ p ∈ t.postings, p.value = 0)
    (hcd : ∀ s ∈ closingDays cfg, s ∈ days.map (·.date)) :
    ∀ (post r : List Day) (st0 st : BalState), days = r.reverse ++ post → Inv cfg days r st0 →
      post.foldlM (Balance.day cfg) st0 = .ok st → st.entries.Perm (st0.entries ++ post.flatMap (daySpec cfg days)) := by
  intro post
  induction post with
  | nil =>
    intro r st0 st _ _ h
    simp only [List.foldlM_nil, pure, Except.pure] at h
    injection h with h; subst h
    simp
  | cons d post ih =>
    intro r st0 st hdays hinv h
    simp only [List.foldlM_cons, bind, Except.bind] at h
    cases h1 : Balance.day cfg st0 d with
    | error e => rw [h1] at h; cases h
    | ok st1 =>
      rw [h1] at h; simp only at h
      have hdm : d ∈ days := by rw [hdays]; exact List.mem_append_right _ List.mem_cons_self
      have hinv1 : Inv cfg days (d :: r) st1 := inv_step cfg hv hc days r st0 st1 d hdm (hz d hdm) hinv h1
      have hdays1 : days = (d :: r).reverse ++ post := by
        rw [hdays, List.reverse_cons, List.append_assoc]; rfl
      have hp := ih (d :: r) st1 st hdays1 hinv1 h
      have he : st1.entries.Perm (st0.entries ++ daySpec cfg days d) := by
        subst hdays
        exact day_entries cfg hv hc hper r d post hs hd hcd st0 st1 hinv h1
      refine hp.trans ?_
      simp only [List.flatMap_cons]
      rw [← List.append_assoc]
      exact he.append_right _

theorem flatMap_dayBookings (cfg : BalCfg) : ∀ (days : List Day),
    days.flatMap (Knut.C02.dayBookings cfg) = bookingEntries cfg days
  | [] => rfl
  | d :: rest => by
    rw [Knut.C02.bookingEntries_cons, List.flatMap_cons, flatMap_dayBookings cfg rest]

/-- the closing entries collected day by day are, up to order, the ledger's closing entries -/
theorem closing_days_perm (cfg : BalCfg) (hc : cfg.close = true) (hper : List.Pairwise (· < ·) (closingDays cfg))
    (days : List Day) (hs : Sorted days) (hcd : ∀ s ∈ closingDays cfg, s ∈ days.map (·.date)) :
    (days.flatMap (fun d => if isClosing cfg d then closeAt cfg days d.date else [])).Perm (closingEntries cfg days) := by
  rw [closingEntries_eq cfg hc]
  let f : Int → List Entry := fun s => if (closingDays cfg).contains s then closeAt cfg days s else []
  have h1 : days.flatMap (fun d => if isClosing cfg d then closeAt cfg days d.date else []) = (days.map (·.date)).flatMap f := by
    rw [List.flatMap_map]; rfl
  have h2 : ((closingDays cfg).flatMap f).Perm ((closingDays cfg).flatMap (closeAt cfg days)) := by
    apply flatMap_perm_left
    intro s hs'
    have : (closingDays cfg).contains s = true := by simpa using hs'
    simp only [f, this, if_true]
    exact List.Perm.refl _
  rw [h1]
  refine List.Perm.trans ?_ h2
  have hn1 : (days.map (·.date)).Nodup := by
    unfold Sorted at hs
    unfold List.Nodup
    rw [List.pairwise_map]
    exact hs.imp (fun hab => by omega)
  have hn2 : (closingDays cfg).Nodup := hper.imp (fun hab => by omega)
  apply flatMap_perm_of_nodup f _ _ hn1 hn2
  · intro s _ hns
    have : (closingDays cfg).contains s = false := by simpa using hns
    simp only [f, this, Bool.false_eq_true, if_false]
  · intro s hs1 hs2; exact absurd (hcd s hs1) hs2
/-! ### a concrete journal with a closing (used for the non-vacuity examples of C02Close) -/

def exCfg : BalCfg := { span := ⟨1, 20⟩, periods := [⟨1, 10⟩, ⟨11, 20⟩] }
def exIncome : Account := ⟨["Income", "Salary"]⟩
def exBank : Account := ⟨["Assets", "Bank"]⟩
/-- opened accounts, a salary of 5 in the first period, the (empty) day of the second period start, a salary of 7 -/
def exDays : List Day :=
  [ { date := 1, openings := [⟨1, exIncome⟩, ⟨1, exBank⟩] },
    { date := 3, transactions := [{ date := 3, description := "pay", postings := postingBuild exIncome exBank "CHF" 5 }] },
    { date := 11 },
    { date := 12, transactions := [{ date := 12, description := "pay", postings := postingBuild exIncome exBank "CHF" 7 }] } ]

end Knut.LedgerClose
