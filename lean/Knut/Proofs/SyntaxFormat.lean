import Knut.Proofs.SyntaxFile
import Knut.Spec.SyntaxFormat
/-!
# `format`: no slice out of range, gaps copied verbatim (helper lemmas for C08)
-/
namespace Knut.Syntax
open Knut.Utf8 Knut.Spec.Syntax
set_option linter.unusedVariables false

theorem extract_some {text : Bytes} {r : Range} (h1 : r.start ≤ r.stop) (h2 : r.stop ≤ text.length) :
    r.extract text = some (slice text r.start r.stop) := by
  simp [Range.extract, h1, h2, slice]

theorem sliceChecked_some {text : Bytes} {a b : Nat} (h1 : a ≤ b) (h2 : b ≤ text.length) :
    sliceChecked text a b = some (slice text a b) := by
  simp [sliceChecked, h1, h2, slice]

theorem sliceChecked_eq {text : Bytes} {a b : Nat} {x : Bytes} (h : sliceChecked text a b = some x) :
    x = slice text a b ∧ a ≤ b ∧ b ≤ text.length := by
  unfold sliceChecked at h
  split at h
  · rename_i hc
    injection h with h
    exact ⟨h.symm, hc.1, hc.2⟩
  · cases h

/-- **gaps verbatim**, for the loop of `Printer.Format`: the output is the original text between the directive
ranges, interleaved with what `printDirective` renders for each directive -/
theorem formatLoop_shape {text : Bytes} {padding : Nat} {pos : Nat} {ds : List Directive} {out : Bytes}
    (h : formatLoop text padding pos ds = some out) :
    ∃ rs, ds.mapM (printDirective text padding) = some rs ∧
      out = interleave (gapsOf text pos (ds.map (·.range))) rs := by
  induction ds generalizing pos out with
  | nil =>
    simp only [formatLoop] at h
    have := (sliceChecked_eq h).1
    exact ⟨[], by simp, by simp [gapsOf, interleave, this]⟩
  | cons d ds ih =>
    simp only [formatLoop, Option.bind_eq_bind, Option.bind_eq_some_iff, Option.pure_def, Option.some.injEq] at h
    obtain ⟨gap, hg, r, hr, rest, hrest, hout⟩ := h
    obtain ⟨rs, hrs, hrest'⟩ := ih hrest
    refine ⟨r :: rs, by simp [List.mapM_cons, hr, hrs], ?_⟩
    rw [← hout, hrest', (sliceChecked_eq hg).1]
    simp [gapsOf, interleave]

end Knut.Syntax


namespace Knut.Syntax
open Knut.Utf8 Knut.Spec.Syntax
set_option linter.unusedVariables false

/-- **gaps verbatim**: whenever `format` produces output, it is the original gaps interleaved with the rendered
directives, all rendered with one padding -/
theorem format_shape {text : Bytes} {f : File} {out : Bytes} (h : format text f = some out) :
    ∃ padding rs, initPadding text f.directives = some padding ∧
      f.directives.mapM (printDirective text padding) = some rs ∧
      out = interleave (gapsOf text 0 (f.directives.map (·.range))) rs := by
  simp only [format, Option.bind_eq_bind, Option.bind_eq_some_iff] at h
  obtain ⟨padding, hp, h⟩ := h
  obtain ⟨rs, h1, h2⟩ := formatLoop_shape h
  exact ⟨padding, rs, hp, h1, h2⟩

end Knut.Syntax
