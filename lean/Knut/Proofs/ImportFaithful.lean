import Knut.Proofs.ImportEffects
/-!
# C13: the executable predicate `faithfulB` and the proposition `Faithful`
-/
namespace Knut.Proofs.Import
open Knut Knut.Import Knut.Spec.Import

theorem effectOn_untouched (a : Account) (c : Commodity) (ps : List Posting) (h : c ∉ touched a ps) : effectOn a c ps = 0 := by
  induction ps with
  | nil => rfl
  | cons p ps ih =>
    unfold effectOn
    unfold touched at h ih
    by_cases hp : p.account = a
    · simp [hp] at h
      have h1 : ¬ (p.account = a ∧ p.commodity = c) := fun hc => h.1 hc.2.symm
      simp only [h1, if_false]
      rw [ih (by simpa using h.2)]; grind
    · have h1 : ¬ (p.account = a ∧ p.commodity = c) := fun hc => hp hc.1
      simp only [h1, if_false]
      simp [hp] at h
      rw [ih (by simpa using h)]; grind

theorem expected_unlisted (effs : List (Commodity × Rat)) (c : Commodity) (h : c ∉ effs.map (·.1)) : expected effs c = 0 := by
  induction effs with
  | nil => rfl
  | cons e effs ih =>
    obtain ⟨c', q⟩ := e
    simp at h
    unfold expected
    have : ¬ c' = c := fun hc => h.1 hc.symm
    simp only [this, if_false]
    rw [ih (by simpa using h.2)]; grind

/-- the executable match decides `Matches` -/
theorem matchesB_iff (a : Account) (i : Item) (d : Directive) : matchesB a i d = true ↔ Matches a i d := by
  cases i with
  | booking date effs =>
    cases d with
    | tx t =>
      simp only [matchesB, Matches, Bool.and_eq_true, beq_iff_eq, List.all_eq_true, Bool.not_eq_true', List.isEmpty_eq_false_iff]
      constructor
      · rintro ⟨⟨h1, h2⟩, h3⟩
        refine ⟨h1, fun c => ?_, h3⟩
        by_cases hc : c ∈ touched a t.postings ++ effs.map (·.1)
        · exact h2 c hc
        · simp only [List.mem_append, not_or] at hc
          rw [effectOn_untouched a c _ hc.1, expected_unlisted effs c hc.2]
      · rintro ⟨h1, h2, h3⟩
        exact ⟨⟨h1, fun c _ => h2 c⟩, h3⟩
    | price _ => simp [matchesB, Matches]
    | opening _ => simp [matchesB, Matches]
    | assertion _ => simp [matchesB, Matches]
    | closing _ => simp [matchesB, Matches]
  | assertion date q c =>
    cases d <;> simp [matchesB, Matches]
  | price date c p tg =>
    cases d <;> simp [matchesB, Matches]

theorem removeFirst_head {β : Type} (p : β → Bool) (x : β) (xs : List β) (h : p x = true) : removeFirst p (x :: xs) = some xs := by
  simp [removeFirst, h]

theorem removeFirst_perm {β : Type} (p : β → Bool) : ∀ (xs ys : List β), removeFirst p xs = some ys →
    ∃ x, p x = true ∧ xs.Perm (x :: ys) := by
  intro xs
  induction xs with
  | nil => intro ys h; simp [removeFirst] at h
  | cons x xs ih =>
    intro ys h
    unfold removeFirst at h
    split at h
    · simp at h; subst h; exact ⟨x, by assumption, List.Perm.refl _⟩
    · simp only [Option.map_eq_some_iff] at h
      obtain ⟨zs, hz, h⟩ := h
      subst h
      obtain ⟨y, hy, hperm⟩ := ih zs hz
      exact ⟨y, hy, (List.Perm.cons x hperm).trans (List.Perm.swap y x zs)⟩

/-- **completeness (in order)**: directives that are the items one for one pass the executable check -/
theorem faithfulB_of_faithful (a : Account) (items : List Item) (ds : List Directive) (h : Faithful a items ds) :
    faithfulB a items ds = true := by
  induction h with
  | nil => rfl
  | cons hab _ ih =>
    unfold faithfulB
    rw [removeFirst_head _ _ _ ((matchesB_iff a _ _).mpr hab)]
    exact ih

/-- **soundness**: if the executable check passes, the directives are, up to order, the items one for one -/
theorem faithfulB_sound (a : Account) : ∀ (items : List Item) (ds : List Directive), faithfulB a items ds = true →
    ∃ ds', ds'.Perm ds ∧ Faithful a items ds' := by
  intro items
  induction items with
  | nil =>
    intro ds h
    simp [faithfulB] at h
    subst h
    exact ⟨[], List.Perm.refl _, All2.nil⟩
  | cons i is ih =>
    intro ds h
    unfold faithfulB at h
    split at h
    · cases h
    · rename_i ds1 hrm
      obtain ⟨d, hd, hperm⟩ := removeFirst_perm _ _ _ hrm
      obtain ⟨ds2, hp2, hf⟩ := ih ds1 h
      exact ⟨d :: ds2, (List.Perm.cons d hp2).trans hperm.symm, All2.cons ((matchesB_iff a i d).mp hd) hf⟩

/-- `All2` fixes the length: as many directives as items -/
theorem all2_length {α β : Type} {R : α → β → Prop} {as : List α} {bs : List β} (h : All2 R as bs) : as.length = bs.length := by
  induction h with
  | nil => rfl
  | cons _ _ ih => simp [ih]

end Knut.Proofs.Import
