package main

// Trees of lib/common/multimap (builder transR): the package is not translated (generic recursive type, recursive methods, pointers
// into the tree); its declarations are PINNED by source text and get the meaning of lean/Knut/GoSem/Multimap.lean:
//
//   Go                                              Lean
//   multimap.Node[V], *multimap.Node[V]             MNode V        a VALUE; Children an association list; Sorted = the children's keys
//   n.Segment, n.Value, n.Children, n.Sorted        the fields / `MNode.Sorted n` (the children in the order of the last Sort)
//   multimap.New[V](s), multimap.SortAlpha(a, b)    MNode.new s, MNode.sortAlpha a b
//   x = root.GetOrCreate(ss)   (statement)          root := MNode.create ss root; x := MNode.getAt root ss; x is an ALIAS of the node at
//                                                   ss: every assignment through x is followed by root := MNode.setAt root ss x.
//                                                   A branch that creates an alias is not joined (the rest of the statement list is
//                                                   continued inside it); an alias dies when its root is modified otherwise.
//   root.Sort(f)               (statement)          root := MNode.sort f' root, f' the comparator literal as a PURE function (a
//                                                   comparator that can panic is rejected)
//   root.PostOrder(f)          (statement)          (state, root) := MNode.postOrder F ord state root in the Outcome monad: F is the
//                                                   literal as a state transformer on (captured variables it assigns, node), told
//                                                   the node's path; `ord : path ↦ keys` (the iteration order of every node's
//                                                   children) is an extra parameter, and so is — as a function of the path — every
//                                                   iteration order of a map ranged over inside the literal.  The literal may not
//                                                   mention the variable the traversed tree hangs on.
// Direct assignments to Segment/Children/Sorted are rejected.

import (
	"go/ast"
	"go/printer"
	"go/token"
	"go/types"
	"strings"
)

const trMultimapPath = trKnutPath + "lib/common/multimap"

// trTreePins: go/printer text (whitespace-normalised) of the declarations the prelude gives a meaning to
var trTreePins = map[string]string{
	"Node":        "type Node[V any] struct { Segment string Value V Children map[string]*Node[V] Sorted []*Node[V] }",
	"New":         "func New[V any](segment string) *Node[V] { return &Node[V]{ Segment: segment, Children: make(map[string]*Node[V]), } }",
	"GetOrCreate": "func (n *Node[V]) GetOrCreate(ss []string) *Node[V] { if len(ss) == 0 { return n } head, tail := ss[0], ss[1:] return dict. GetDefault(n.Children, head, func() *Node[V] { return New[V](head) }). GetOrCreate(tail) }",
	"Sort":        "func (n *Node[V]) Sort(f compare.Compare[*Node[V]]) { for _, ch := range n.Children { ch.Sort(f) } n.Sorted = dict.SortedValues(n.Children, f) }",
	"SortAlpha":   "func SortAlpha[V any](n1, n2 *Node[V]) compare.Order { return compare.Ordered(n1.Segment, n2.Segment) }",
	"PostOrder":   "func (n *Node[V]) PostOrder(f func(*Node[V])) { for _, ch := range n.Children { ch.PostOrder(f) } f(n) }",
}

func trIsTreeNode(ty types.Type) bool {
	if ty == nil {
		return false
	}
	if p, ok := ty.(*types.Pointer); ok {
		ty = p.Elem()
	}
	n, ok := ty.(*types.Named)
	return ok && n.Obj().Pkg() != nil && n.Obj().Pkg().Path() == trMultimapPath && n.Obj().Name() == "Node"
}

// treeCheckPins: the declarations of multimap.go still have the pinned text (checked once; the outcome is remembered)
func (t *trTranslator) treeCheckPins(pos token.Pos) {
	if t.treePinErr == "" && !t.treePinOK {
		t.treePinErr = t.treePinsDiffer()
		t.treePinOK = t.treePinErr == ""
	}
	if t.treePinErr != "" {
		trFail(pos, "%s", t.treePinErr)
	}
}

func (t *trTranslator) treePinsDiffer() string {
	p, err := t.l.load(trMultimapPath)
	if err != nil {
		return "cannot load " + trMultimapPath + ": " + err.Error()
	}
	seen := map[string]bool{}
	show := func(n ast.Node) string {
		var b strings.Builder
		if err := printer.Fprint(&b, t.l.fset, n); err != nil {
			return "?"
		}
		return strings.Join(strings.Fields(b.String()), " ")
	}
	for _, f := range p.files {
		for _, d := range f.Decls {
			switch x := d.(type) {
			case *ast.FuncDecl:
				pin, ok := trTreePins[x.Name.Name]
				if !ok {
					continue
				}
				cp := *x
				cp.Doc = nil
				if got := show(&cp); got != pin {
					return "the source of multimap." + x.Name.Name + " changed (the prelude gives a meaning to `" + pin + "` only): " + got
				}
				seen[x.Name.Name] = true
			case *ast.GenDecl:
				if x.Tok != token.TYPE {
					continue
				}
				for _, sp := range x.Specs {
					ts := sp.(*ast.TypeSpec)
					pin, ok := trTreePins[ts.Name.Name]
					if !ok {
						continue
					}
					cp := *ts
					cp.Doc, cp.Comment = nil, nil
					if got := "type " + show(&cp); got != pin {
						return "the source of multimap." + ts.Name.Name + " changed (the prelude gives a meaning to `" + pin + "` only): " + got
					}
					seen[ts.Name.Name] = true
				}
			}
		}
	}
	for name := range trTreePins {
		if !seen[name] {
			return "multimap." + name + ": declaration not found"
		}
	}
	// the helpers the pinned texts call are pinned themselves
	for _, dep := range []string{trKnutPath + "lib/common/dict.GetDefault", trKnutPath + "lib/common/dict.SortedValues"} {
		i := strings.LastIndex(dep, ".")
		dp, err := t.l.load(dep[:i])
		if err != nil {
			return "cannot load " + dep[:i]
		}
		o, ok := dp.tpkg.Scope().Lookup(dep[i+1:]).(*types.Func)
		if !ok {
			return dep + ": not found"
		}
		msg := ""
		func() {
			defer func() {
				if r := recover(); r != nil {
					if rj, ok := r.(trReject); ok {
						msg = rj.msg
						return
					}
					panic(r)
				}
			}()
			t.checkPinned(o, token.NoPos)
		}()
		if msg != "" {
			return msg
		}
	}
	return ""
}

// treeType: the Lean type of multimap.Node[V]
func (t *trTranslator) treeType(from *trUnit, n *types.Named, pos token.Pos) (string, bool) {
	if !trIsTreeNode(n) {
		return "", false
	}
	t.treeCheckPins(pos)
	if t.usesTree == nil {
		t.usesTree = map[*trUnit]bool{}
	}
	t.usesTree[from] = true
	if n.TypeArgs() == nil || n.TypeArgs().Len() != 1 {
		trFail(pos, "multimap.Node without its type argument is outside the subset")
	}
	return "(MNode " + t.leanType(from, n.TypeArgs().At(0), pos) + ")", true
}

// treeFunc: the pinned function of package multimap that the call refers to ("" = none), with its receiver expression
func (c *trCtx) treeFunc(x *ast.CallExpr) (string, ast.Expr) {
	fo := c.calledFunc(x)
	if fo == nil || fo.Pkg() == nil || fo.Pkg().Path() != trMultimapPath {
		return "", nil
	}
	var recv ast.Expr
	if sel, ok := trUnparen(x.Fun).(*ast.SelectorExpr); ok {
		if s, isSel := c.info().Selections[sel]; isSel && s.Kind() == types.MethodVal {
			recv = sel.X
		}
	}
	return fo.Name(), recv
}

// treeCallExpr: calls of package multimap in expression position
func (c *trCtx) treeCallExpr(x *ast.CallExpr) (string, bool) {
	name, _ := c.treeFunc(x)
	if name == "" {
		return "", false
	}
	c.t.treeCheckPins(x.Pos())
	switch name {
	case "New":
		lt := c.leanType(c.typeOf(x), x.Pos())
		return "(MNode.new " + c.expr(x.Args[0]) + " : " + lt + ")", true
	case "SortAlpha":
		c.leanType(c.typeOf(x.Args[0]), x.Pos())
		return "(MNode.sortAlpha " + c.expr(x.Args[0]) + " " + c.expr(x.Args[1]) + ")", true
	case "GetOrCreate", "Sort", "PostOrder":
		trFail(x.Pos(), "multimap.%s inside an expression is outside the subset (statement `x = root.%s(…)` only)", name, name)
	}
	trFail(x.Pos(), "multimap.%s has no meaning in the prelude", name)
	return "", false
}

// treeStmt: `x = root.GetOrCreate(ss)`, `root.Sort(f)`, `root.PostOrder(f)`
func (c *trCtx) treeStmt(call *ast.CallExpr, lhs []ast.Expr, define bool, k trK) (trLines, bool) {
	name, recv := c.treeFunc(call)
	switch name {
	case "GetOrCreate", "Sort", "PostOrder":
	default:
		return nil, false
	}
	c.t.treeCheckPins(call.Pos())
	if recv == nil || trBaseIdent(recv) == nil {
		trFail(call.Pos(), "multimap.%s on a receiver that is not a variable or a field path is outside the subset", name)
	}
	c.leanType(c.typeOf(recv), call.Pos())
	base := c.info().Uses[trBaseIdent(recv)]
	c.killAliases(base, nil)
	switch name {
	case "GetOrCreate":
		if len(lhs) != 1 {
			trFail(call.Pos(), "the pointer root.GetOrCreate(…) returns must be assigned to a variable")
		}
		lid, ok := trUnparen(lhs[0]).(*ast.Ident)
		if !ok || lid.Name == "_" {
			trFail(call.Pos(), "the pointer root.GetOrCreate(…) returns must be assigned to a variable")
		}
		pathVal := c.expr(call.Args[0])
		pre := c.takePre()
		pathName := c.fresh("path")
		out := trLet(pathName, "(List String)", trOne(pathVal),
			c.store(recv, "(MNode.create "+pathName+" "+c.expr(recv)+")", call.Pos(), func() trLines {
				if define {
					c.declare(lhs[0])
				}
				return c.store(lhs[0], "(MNode.getAt "+c.expr(recv)+" "+pathName+")", call.Pos(), func() trLines {
					lo := c.info().Defs[lid]
					if lo == nil {
						lo = c.info().Uses[lid]
					}
					if c.aliases == nil {
						c.aliases = map[types.Object]*trAlias{}
					}
					c.aliases[lo] = &trAlias{recvObj: base, key: pathName, tree: true, root: recv}
					delete(c.deadAlias, lo)
					return k()
				})
			}))
		return trWrapPre(pre, out), true
	case "Sort":
		if len(lhs) != 0 {
			trFail(call.Pos(), "multimap.Sort has no result")
		}
		cmp := c.pureFuncArg(call.Args[0], "cmp")
		return c.store(recv, "(MNode.sort "+cmp+" "+c.expr(recv)+")", call.Pos(), k), true
	case "PostOrder":
		if len(lhs) != 0 {
			trFail(call.Pos(), "multimap.PostOrder has no result")
		}
		return c.treePostOrder(call, recv, k), true
	}
	return nil, false
}

// killAliases: the variable `base` is modified other than through the alias `except`: the aliases into it are stale from here on
func (c *trCtx) killAliases(base types.Object, except types.Object) {
	if base == nil {
		return
	}
	for o, al := range c.aliases {
		if al.tree && al.recvObj == base && o != except {
			if c.deadAlias == nil {
				c.deadAlias = map[types.Object]bool{}
			}
			c.deadAlias[o] = true
			delete(c.aliases, o)
		}
	}
}

// createsAlias: the statements contain `x = root.GetOrCreate(…)`: they are not joined with a sibling branch
func (c *trCtx) createsAlias(nodes ...ast.Node) bool {
	found := false
	for _, n := range nodes {
		if n == nil || isNilNode(n) {
			continue
		}
		ast.Inspect(n, func(m ast.Node) bool {
			switch x := m.(type) {
			case *ast.FuncLit:
				return false
			case *ast.CallExpr:
				if name, _ := c.treeFunc(x); name == "GetOrCreate" {
					found = true
				}
			}
			return true
		})
	}
	return found
}

// resolveFuncLit: the function literal an argument stands for: the literal itself, or the literal a local variable was defined with
// (`f := func…`, never assigned again)
func (c *trCtx) resolveFuncLit(e ast.Expr) *ast.FuncLit {
	switch x := trUnparen(e).(type) {
	case *ast.FuncLit:
		return x
	case *ast.Ident:
		o, ok := c.info().Uses[x].(*types.Var)
		if !ok {
			return nil
		}
		var lit *ast.FuncLit
		count := 0
		ast.Inspect(c.fn.decl, func(n ast.Node) bool {
			switch s := n.(type) {
			case *ast.AssignStmt:
				for i, l := range s.Lhs {
					id, ok := l.(*ast.Ident)
					if !ok {
						continue
					}
					if c.info().Defs[id] == o || c.info().Uses[id] == o {
						count++
						if len(s.Lhs) == len(s.Rhs) {
							lit, _ = trUnparen(s.Rhs[i]).(*ast.FuncLit)
						}
					}
				}
			case *ast.UnaryExpr:
				if s.Op == token.AND {
					if id, ok := trUnparen(s.X).(*ast.Ident); ok && c.info().Uses[id] == o {
						count += 2
					}
				}
			}
			return true
		})
		if count == 1 {
			return lit
		}
	}
	return nil
}

// pureFuncArg: a function argument of a prelude helper that takes a PURE Lean function: a function literal (or the local variable
// defined with one) translated as a definition of its own; captured variables are read only
func (c *trCtx) pureFuncArg(e ast.Expr, what string) string {
	lit := c.resolveFuncLit(e)
	if lit == nil {
		if id, ok := trUnparen(e).(*ast.Ident); ok {
			if fo, ok := c.info().Uses[id].(*types.Func); ok {
				return c.funcValue(fo, e.Pos())
			}
		}
		trFail(e.Pos(), "this argument must be a function literal, a local variable defined once with one, or a translated pure function")
	}
	fsig, ok := c.typeOf(lit).(*types.Signature)
	if !ok || fsig.Variadic() || fsig.Results().Len() != 1 {
		trFail(lit.Pos(), "this function literal is outside the subset")
	}
	if r, ok := c.pureLits[lit]; ok {
		return r // the same literal passed again (captured variables are read only and cannot have changed… unless reassigned: checked below)
	}
	c.nloop++
	name := c.fn.leanName + "." + what + itoa(c.nloop)
	cc := &trCtx{t: c.t, fn: &trFunc{unit: c.fn.unit, pkg: c.fn.pkg, decl: c.fn.decl, obj: c.fn.obj, leanName: name, effect: false},
		names: c.names, used: c.used, opaqueParams: c.opaqueParams, ntmp: c.ntmp, nloop: c.nloop, norder: c.norder, nmark: c.nmark}
	if cc.opaqueParams == nil {
		cc.opaqueParams = map[types.Object]bool{}
	}
	if as := cc.assignedIn(lit.Body); len(as) > 0 {
		trFail(lit.Pos(), "a function literal used as a pure function assigns the variable %s: outside the subset", as[0].Name())
	}
	var params []types.Object
	var ps []string
	for i := 0; i < fsig.Params().Len(); i++ {
		params = append(params, fsig.Params().At(i))
		d := cc.paramDecl(fsig.Params().At(i), lit.Pos())
		if d == "" {
			trFail(lit.Pos(), "a parameter of this function literal has an untranslatable type")
		}
		ps = append(ps, d)
	}
	free := cc.freeVars(params, lit.Body)
	cc.nresults = 1
	cc.resultTypes = []types.Type{fsig.Results().At(0).Type()}
	cc.fn.resType = cc.leanType(fsig.Results().At(0).Type(), lit.Pos())
	var term trLines
	func() {
		defer func() {
			if r := recover(); r != nil {
				if rj, ok := r.(trReject); ok && strings.HasPrefix(rj.msg, "internal:") {
					panic(trReject{rj.pos, "this function literal must be a pure function (no indexing, division by a variable, panic, loop on fuel, call of a function value): " + rj.msg})
				}
				panic(r)
			}
		}()
		term = cc.stmts(lit.Body.List, func() trLines {
			trFail(lit.End(), "internal: control reaches the end of a function literal with results")
			return nil
		})
	}()
	if len(cc.extraParams) > 0 {
		trFail(lit.Pos(), "a pure function literal that ranges over a map or calls an untranslated function is outside the subset")
	}
	c.aux = append(c.aux, cc.aux...)
	c.ntmp, c.nloop, c.norder, c.nmark = cc.ntmp, cc.nloop, cc.norder, cc.nmark
	c.fn.deps = append(c.fn.deps, cc.fn.deps...)
	var fps, fargs []string
	for _, o := range free {
		fps = append(fps, "("+c.names[o]+" : "+c.varType(o, o.Pos())+")")
		fargs = append(fargs, c.names[o])
	}
	head := "def " + name + " " + strings.Join(append(fps, ps...), " ") + " : " + cc.fn.resType + " :="
	c.aux = append(c.aux, "/-- function literal of `"+c.fn.leanName+"` at "+c.t.l.relPos(lit.Pos())+" (a pure function) -/\n"+head+"\n"+term.indent(2).String()+"\n")
	res := name
	if len(fargs) > 0 {
		res = "(" + name + " " + strings.Join(fargs, " ") + ")"
	}
	if len(free) == 0 {
		if c.pureLits == nil {
			c.pureLits = map[*ast.FuncLit]string{}
		}
		c.pureLits[lit] = res // without captured variables the definition can be shared by all uses
	}
	return res
}

// onlyTreeArg: the local variable defined by `f := func…` is used as an argument of multimap.Sort / PostOrder only: these translate
// the literal themselves, the variable needs no Lean counterpart
func (c *trCtx) onlyTreeArg(o types.Object) bool {
	if o == nil {
		return false
	}
	ok, used := true, false
	treeArgs := map[*ast.Ident]bool{}
	ast.Inspect(c.fn.decl, func(n ast.Node) bool {
		if call, isCall := n.(*ast.CallExpr); isCall {
			if name, _ := c.treeFunc(call); name == "Sort" || name == "PostOrder" {
				for _, a := range call.Args {
					if id, isID := trUnparen(a).(*ast.Ident); isID && c.info().Uses[id] == o {
						treeArgs[id] = true
					}
				}
			}
		}
		return true
	})
	ast.Inspect(c.fn.decl, func(n ast.Node) bool {
		if id, isID := n.(*ast.Ident); isID && c.info().Uses[id] == o {
			used = true
			if !treeArgs[id] {
				ok = false
			}
		}
		return true
	})
	return ok && used
}

// treePostOrder: root.PostOrder(f)
func (c *trCtx) treePostOrder(call *ast.CallExpr, recv ast.Expr, k trK) trLines {
	c.needEffect(call.Pos(), "multimap.PostOrder")
	lit := c.resolveFuncLit(call.Args[0])
	if lit == nil {
		trFail(call.Pos(), "the argument of PostOrder must be a function literal or a local variable defined once with one")
	}
	fsig, ok := c.typeOf(lit).(*types.Signature)
	if !ok || fsig.Params().Len() != 1 || fsig.Results().Len() != 0 {
		trFail(lit.Pos(), "this function literal is outside the subset")
	}
	base := c.info().Uses[trBaseIdent(recv)]
	ast.Inspect(lit.Body, func(n ast.Node) bool {
		if id, ok := n.(*ast.Ident); ok && c.info().Uses[id] == base {
			trFail(id.Pos(), "the function passed to PostOrder mentions %s, on which the traversed tree hangs: outside the subset", id.Name)
		}
		return true
	})
	param := fsig.Params().At(0)
	var state []types.Object
	for _, o := range c.assignedIn(lit.Body) {
		if o != param {
			state = append(state, o)
		}
	}
	tuple, _ := c.tupleOf(state)
	pl := c.postLits[lit]
	if pl == nil {
		pl = c.translatePostLit(lit, param, state)
		if c.postLits == nil {
			c.postLits = map[*ast.FuncLit]*trPostLit{}
		}
		c.postLits[lit] = pl
	}
	// every call of PostOrder has its own iteration orders
	var exNames []string
	for i, ty := range pl.exTypes {
		c.norder++
		n := pl.exBase[i] + itoa(c.norder)
		c.extraParams = append(c.extraParams, "("+n+" : "+ty+")")
		c.extraTypes = append(c.extraTypes, ty)
		exNames = append(exNames, n)
	}
	c.externals = append(c.externals, pl.externals...)
	c.norder++
	ord := "order" + itoa(c.norder)
	c.extraParams = append(c.extraParams, "("+ord+" : List String → List String)")
	c.extraTypes = append(c.extraTypes, "List String → List String")
	var fargs []string
	for _, o := range pl.free {
		fargs = append(fargs, c.names[o])
	}
	fn := pl.name
	if args := append(append([]string{}, exNames...), fargs...); len(args) > 0 {
		fn = "(" + pl.name + " " + strings.Join(args, " ") + ")"
	}
	r := c.fresh("r")
	act := "MNode.postOrder " + fn + " " + ord + " " + tuple + " " + c.expr(recv)
	after := c.unpack(r+".1", state, c.store(recv, r+".2", call.Pos(), k))
	return trBind(r, act, after)
}

// trPostLit: a function literal translated as the state transformer MNode.postOrder takes
type trPostLit struct {
	name      string
	exTypes   []string // the extra parameters of the definition (iteration orders as functions of the path, ext functions), in order
	exBase    []string // their name stems
	free      []types.Object
	externals []string
}

func (c *trCtx) translatePostLit(lit *ast.FuncLit, param *types.Var, state []types.Object) *trPostLit {
	nodeTy := c.leanType(param.Type(), lit.Pos())
	c.nloop++
	name := c.fn.leanName + ".post" + itoa(c.nloop)
	cc := &trCtx{t: c.t, fn: &trFunc{unit: c.fn.unit, pkg: c.fn.pkg, decl: c.fn.decl, obj: c.fn.obj, leanName: name, effect: true, mutObjs: []types.Object{param}},
		names: c.names, used: c.used, opaqueParams: c.opaqueParams, inCallback: true, ntmp: c.ntmp, nloop: c.nloop, nmark: c.nmark}
	if cc.opaqueParams == nil {
		cc.opaqueParams = map[types.Object]bool{}
	}
	pn := cc.local(param)
	if pn == "_" {
		pn = cc.fresh("node")
		cc.names[param] = pn
	}
	_, ttyp := c.tupleOf(state)
	cc.statePack = func() string { t, _ := cc.tupleOf(state); return t }
	for _, o := range state {
		if v, ok := o.(*types.Var); ok {
			cc.stateVars = append(cc.stateVars, v)
		}
	}
	cc.fn.resType = "(" + ttyp + " × " + nodeTy + ")"
	free := cc.freeVars(append(append([]types.Object{}, state...), param), lit.Body)
	body := cc.stmts(lit.Body.List, func() trLines { return cc.returnTerm(nil, lit.End()) })
	c.aux = append(c.aux, cc.aux...)
	c.ntmp, c.nloop, c.nmark = cc.ntmp, cc.nloop, cc.nmark
	c.fn.deps = append(c.fn.deps, cc.fn.deps...)
	// the extra parameters created inside the literal: iteration orders and fuels become functions of the node's path (every call
	// of the literal may see another order); results of untranslated calls (`ext…`) are functions of their arguments already
	pl := &trPostLit{name: name, free: free, externals: cc.externals}
	pathName := c.fresh("path")
	st := c.fresh("st")
	var exDecls []string
	var shadows [][2]string
	for i, d := range cc.extraParams {
		n := strings.TrimPrefix(d, "(")
		n = n[:strings.Index(n, " :")]
		ty := cc.extraTypes[i]
		if strings.HasPrefix(n, "ext") && !strings.HasPrefix(n, "extra") {
			exDecls = append(exDecls, "("+n+" : "+ty+")")
			pl.exTypes = append(pl.exTypes, ty)
			pl.exBase = append(pl.exBase, "ext")
		} else {
			lifted := "(List String → " + ty + ")"
			exDecls = append(exDecls, "("+n+" : "+lifted+")")
			pl.exTypes = append(pl.exTypes, lifted)
			pl.exBase = append(pl.exBase, "order")
			shadows = append(shadows, [2]string{n, ty})
		}
	}
	var fps []string
	for _, o := range free {
		fps = append(fps, "("+c.names[o]+" : "+c.varType(o, o.Pos())+")")
	}
	def := c.unpack(st, state, body)
	for i := len(shadows) - 1; i >= 0; i-- {
		def = trLet(shadows[i][0], shadows[i][1], trOne(shadows[i][0]+" "+pathName), def)
	}
	ps := append(append([]string{}, exDecls...), fps...)
	ps = append(ps, "("+pathName+" : List String)", "("+st+" : "+ttyp+")", "("+pn+" : "+nodeTy+")")
	head := "def " + name + " " + strings.Join(ps, " ") + " : Outcome " + cc.fn.resType + " :="
	c.aux = append(c.aux, "/-- the function passed to PostOrder in `"+c.fn.leanName+"` at "+c.t.l.relPos(lit.Pos())+
		": a state transformer on (the captured variables it assigns: "+strings.Join(namesOf(c, state), ", ")+"; the node), told the node's path -/\n"+head+"\n"+def.indent(2).String()+"\n")
	return pl
}

// qualType: the Lean type with every declared name fully qualified (valid in the namespace of every unit)
func (c *trCtx) qualType(ty types.Type, pos token.Pos) string {
	c.leanType(ty, pos) // declarations and imports of this unit
	return c.t.leanType(&trUnit{pkg: "-", mod: "-"}, ty, pos)
}

func namesOf(c *trCtx, objs []types.Object) []string {
	var ns []string
	for _, o := range objs {
		ns = append(ns, c.names[o])
	}
	return ns
}

// treeAssignedIn: what a call of package multimap assigns (for the analysis of joins and loop states): the base of the receiver, and
// for PostOrder the captured variables its function literal assigns
func (c *trCtx) treeAssignedIn(x *ast.CallExpr, through bool, mark func(ast.Expr), assigned map[types.Object]bool) {
	name, recv := c.treeFunc(x)
	switch name {
	case "GetOrCreate", "Sort", "PostOrder":
	default:
		return
	}
	if recv != nil {
		mark(recv)
	}
	if name == "PostOrder" && len(x.Args) == 1 {
		if lit := c.resolveFuncLit(x.Args[0]); lit != nil {
			var param types.Object
			if fsig, ok := c.typeOfOrNil(lit).(*types.Signature); ok && fsig.Params().Len() == 1 {
				param = fsig.Params().At(0)
			}
			for _, o := range c.assignedIn2(through, lit.Body) {
				if o != param {
					assigned[o] = true
				}
			}
		}
	}
}
