import Knut.Generated.ProcOrder
/-! # Processor order of `knut balance`: the extracted list is the one the composition modules assume

Part of the tie described in `FactsAgree/ProcOrder.lean` (extractor `harness/facts_procorder.go`, regenerated on every run of `bin/check`);
a module of its own so that a change of another command's processor list does not break the properties of this one (C01, C02, C03). -/
namespace Knut.FactsAgree.ProcOrder
open Knut.Generated.ProcOrder

/-- `knut balance` (`cmd/commands/balance.go`): the six stages of `TransProcessAllBalance.balanceSys` (and `TransProcessAllBalance2`),
in this order: check, ComputePrices, Valuate, Filter, CloseAccounts, Query.Into.  (The same list is pinned, from the slice literal only,
by `TransBalanceCmd.processorOrder_pinned`; here also the way the slice reaches `Process` — `procs...`, no `append` — is checked.) -/
theorem balanceOrder_eq : balanceOrder =
    ["check.Check", "journal.ComputePrices", "journal.Valuate", "journal.Filter", "journal.CloseAccounts", "journal.Query.Into"] := by decide

/-- one `valuation`, one `partition`, `r.close`, the report of `balance.NewReport` -/
theorem balanceCalls_eq : balanceCalls =
    [("check.Check", []), ("journal.ComputePrices", ["valuation"]), ("journal.Valuate", ["reg", "valuation"]),
     ("journal.Filter", ["partition"]), ("journal.CloseAccounts", ["j", "reg", "r.close", "partition"]),
     ("journal.Query.Into", ["report"])] := by decide

end Knut.FactsAgree.ProcOrder
